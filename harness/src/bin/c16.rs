//! C16 — inferred function signatures are valid, principal annotations.
//!
//! One case = one generated unannotated function `fn zqf…(zqx, zqy, zqz) = body` (products, quotients,
//! rational powers, sums, conditionals, comparisons, conversions, calls of generic library functions) in one of
//! two sessions: `P` = prelude, `A` = prelude + `dimension A`, `dimension B`, `dimension C` (the excluded
//! point: the printed type parameter names clash with dimensions of the session).
//!
//! Oracle on the implementation:
//!   1. the definition is accepted; take the signature numbat prints for it (pretty-printed definition up to ` = `);
//!   2. the same body re-declared with that signature in a clone of the session is accepted;
//!   3. >= 20 generated call sites with concrete dimensions (about half built to fit the analysed type,
//!      the rest with one perturbed argument) are accepted by the inferred version iff by the annotated one, with
//!      the same result type;
//!   4. (statistics only) the independent analysis of c02_parts/oracle.rs agrees on the principal type.
//! Correspondence with the model (`drv_c16`): request `infer <counter> <nparams> <body>`; answer
//!   `ok <scheme of the typed statement> || <scheme stored in the environment>` or `reject`.
#[path = "c02_parts/ast.rs"]
mod ast;
#[path = "c02_parts/gen.rs"]
mod gen;
#[path = "c02_parts/oracle.rs"]
mod oracle;
#[path = "c02_parts/q.rs"]
mod q;
#[path = "c02_parts/tables.rs"]
mod tables;

use ast::*;
use gen::*;
use numbat::module_importer::BuiltinModuleImporter;
use numbat::pretty_print::PrettyPrint;
use numbat::resolver::CodeSource;
use numbat::{Context, NumbatError};
use nvh::*;
use oracle::*;
use q::*;

fn session(kind: &str) -> Result<Context, String> {
    let mut ctx = Context::new(BuiltinModuleImporter::default());
    let r = catch(std::panic::AssertUnwindSafe(|| ctx.interpret("use prelude", CodeSource::Internal).map(|_| ()).map_err(|e| format!("{e}"))));
    match r {
        Ok(Ok(())) => {}
        Ok(Err(e)) => return Err(e),
        Err(p) => return Err(format!("panic {p}")),
    }
    if kind == "A" {
        ctx.interpret("dimension A\ndimension B\ndimension C", CodeSource::Text).map_err(|e| format!("{e}"))?;
    }
    Ok(ctx)
}

/// the model request for a body, if the body is in the modelled fragment
fn body_request(ctx: &Context, params: &[String], e: &E) -> Option<String> {
    let sub = |x: &E| body_request(ctx, params, x);
    Some(match e {
        E::Num(_) => "n".to_string(),
        E::Zero => "z".to_string(),
        E::Unit(u) => {
            // the type of the unit identifier as an expression (handles prefixes): expr (forall 0 () (d …))
            let t = ctx.verif_c02_check(u).ok()?.first()?.strip_prefix("expr ")?.to_string();
            let inner = t.strip_prefix("(forall 0 () ")?.strip_suffix(')')?;
            let fs = inner.strip_prefix("(d")?.strip_suffix(')')?;
            format!("(u{})", fs)
        }
        E::Var(n) => {
            let i = params.iter().position(|p| p == n)?;
            format!("(p {i})")
        }
        E::Neg(a) => format!("(neg {})", sub(a)?),
        E::Bin(op, a, b) => format!("({} {} {})", op.tag(), sub(a)?, sub(b)?),
        E::Pow(a, q, _) => format!("(pow {} {})", sub(a)?, q.wire()),
        E::Cmp(c, a, b) => {
            let t = match c {
                Cmp::Eq | Cmp::Ne => "eq",
                _ => "lt",
            };
            format!("({} {} {})", t, sub(a)?, sub(b)?)
        }
        E::If(c, a, b) => format!("(if {} {} {})", sub(c)?, sub(a)?, sub(b)?),
        E::Call(f, args) => {
            let s = ctx.verif_c02_env_type(f)?;
            if !s.starts_with("(forall") {
                return None;
            }
            let mut r = format!("(call {}", s);
            for a in args {
                r.push(' ');
                r.push_str(&sub(a)?);
            }
            r.push(')');
            r
        }
        E::PowE(..) | E::List(_) | E::Str(_) => return None,
    })
}

/// why a body is outside the modelled fragment (for the histogram)
fn outside_reason(ctx: &Context, params: &[String], e: &E) -> String {
    let mut why = String::new();
    e.visit(&mut |x| {
        if !why.is_empty() {
            return;
        }
        match x {
            E::PowE(..) => why = "pow_scalar_base".into(),
            E::List(_) => why = "list".into(),
            E::Str(_) => why = "string".into(),
            E::Var(n) if !params.contains(n) => why = "variable".into(),
            E::Unit(u) => {
                if !ctx.verif_c02_check(u).ok().and_then(|v| v.first().cloned()).map(|t| t.starts_with("expr (forall 0 () (d")).unwrap_or(false) {
                    why = format!("unit:{u}");
                }
            }
            E::Call(f, _) => {
                if !ctx.verif_c02_env_type(f).map(|t| t.starts_with("(forall")).unwrap_or(false) {
                    why = format!("call:{f}");
                }
            }
            _ => {}
        }
    });
    why
}

struct Case {
    session: String,
    f: S,
    calls: Vec<E>,
}

impl Case {
    fn line(&self) -> String {
        format!(
            "c16 {} {} (calls {})",
            self.session,
            self.f.sx().text(),
            self.calls.iter().map(|c| c.sx().text()).collect::<Vec<_>>().join(" ")
        )
    }
    fn parse(l: &str) -> Option<Case> {
        let rest = l.strip_prefix("c16 ")?;
        let (session, rest) = rest.split_once(' ')?;
        let sx = read_sx(rest)?;
        let f = S::from_sx(sx.first()?)?;
        let calls = sx.get(1)?.list()?[1..].iter().map(E::from_sx).collect::<Option<Vec<_>>>()?;
        Some(Case { session: session.to_string(), f, calls })
    }
}

#[derive(Default)]
struct Outcome {
    /// failures of the property: (key kind, text)
    fails: Vec<(String, String)>,
    /// model request and implementation answer
    line: Option<(String, String)>,
    accepted: bool,
    signature: String,
    calls_ok: usize,
    calls_rejected: usize,
    oracle_agrees: Option<bool>,
}

fn front(ctx: &Context, src: &str) -> Result<Vec<String>, String> {
    match catch(std::panic::AssertUnwindSafe(|| ctx.verif_c02_check(src))) {
        Ok(r) => r,
        Err(p) => Err(format!("panic {p}")),
    }
}

/// two-digit (and zero) superscript exponents as `^(n)`, the first of several alternative dimension names
fn normalise_signature(sig: &str) -> String {
    let sup = |c: char| -> Option<char> {
        Some(match c {
            '⁰' => '0', '¹' => '1', '²' => '2', '³' => '3', '⁴' => '4', '⁵' => '5', '⁶' => '6', '⁷' => '7', '⁸' => '8', '⁹' => '9', '⁻' => '-',
            _ => return None,
        })
    };
    let mut out = String::new();
    let cs: Vec<char> = sig.chars().collect();
    let mut i = 0;
    while i < cs.len() {
        if sup(cs[i]).is_some() {
            let mut j = i;
            let mut run = String::new();
            while j < cs.len() && sup(cs[j]).is_some() {
                run.push(sup(cs[j]).unwrap());
                j += 1;
            }
            if run.len() >= 2 || run == "0" {
                out.push_str(&format!("^({run})"));
            } else {
                out.push(cs[i]);
            }
            i = j;
        } else {
            out.push(cs[i]);
            i += 1;
        }
    }
    // `X or Y or Z` → `X`
    while let Some(p) = out.find(" or ") {
        let rest = &out[p + 4..];
        let end = rest.find(|c: char| !(c.is_alphanumeric() || c == '_')).unwrap_or(rest.len());
        out = format!("{}{}", &out[..p], &rest[end..]);
    }
    out
}

fn run_case(base: &Context, plain: Option<&Context>, w0: &World, c: &Case) -> Outcome {
    let mut o = Outcome::default();
    let S::Fn { name, params, body, .. } = &c.f else {
        return o;
    };
    let pnames: Vec<String> = params.iter().map(|(n, _)| n.clone()).collect();
    let src = c.f.src();
    // model request (before the definition: the counter of fresh names at this point)
    let req = body_request(base, &pnames, body).map(|b| format!("infer {} {} {}", base.verif_c02_name_counter(), pnames.len(), b));
    // 1. define in a clone
    let mut inferred = base.clone();
    let r = catch(std::panic::AssertUnwindSafe(|| inferred.interpret(&src, CodeSource::Text).map(|(s, _)| (s.iter().map(|x| x.pretty_print().to_string()).collect::<Vec<_>>(), numbat::verif::c02::statement_types(&s)))));
    let (printed, types) = match r {
        Err(p) => {
            o.fails.push(("panic".into(), format!("defining the function panics: {p}")));
            return o;
        }
        Ok(Err(e)) => {
            // not accepted: nothing to check for C16; the model must reject it too
            let is_type = matches!(*e, NumbatError::TypeCheckError(_));
            if let (Some(req), true) = (req, is_type) {
                o.line = Some((req, "reject".into()));
            }
            return o;
        }
        Ok(Ok(x)) => x,
    };
    o.accepted = true;
    let env_scheme = inferred.verif_c02_env_type(name).unwrap_or_default();
    let stmt_scheme = types.first().and_then(|t| t.strip_prefix(&format!("fn {name} "))).unwrap_or("").to_string();
    if let Some(req) = req {
        o.line = Some((req, format!("ok {} || {}", stmt_scheme, env_scheme)));
    }
    let text = printed.first().cloned().unwrap_or_default();
    let Some((sig, _)) = text.split_once(" = ") else {
        o.fails.push(("print".into(), format!("printed definition has no ` = `: {text}")));
        return o;
    };
    o.signature = sig.to_string();
    // 2. re-declare the same body with the printed signature
    let try_declare = |ctx: &Context, sig: &str| -> (Context, Result<(), String>) {
        let redecl = format!("{} = {}", sig, body.src());
        let mut c = ctx.clone();
        let r = match catch(std::panic::AssertUnwindSafe(|| c.interpret(&redecl, CodeSource::Text).map(|_| ()).map_err(|e| format!("{e}")))) {
            Ok(r) => r,
            Err(p) => Err(format!("panic {p}")),
        };
        (c, r)
    };
    let (mut annotated, r) = try_declare(base, sig);
    if let Err(e) = r {
        if e.starts_with("panic") {
            o.fails.push(("panic".into(), format!("re-declaring with `{sig}` panics: {e}")));
            return o;
        }
        // classify by the printed signature (and, for the session with dimensions A, B, C, by whether the same
        // text is accepted where those dimensions do not exist)
        let norm = normalise_signature(sig);
        let class = if plain.map(|p| try_declare(p, sig).1.is_ok()).unwrap_or(false) {
            "name-clash"
        } else if sig.contains(" or ") {
            "or-alternatives"
        } else if norm != sig {
            "multi-digit-superscript"
        } else {
            "other"
        };
        o.fails.push((format!("redeclare:{class}"), format!("printed signature `{sig}` is not accepted as an annotation of the same body: {}", e.replace('\n', " "))));
        // continue with a repaired signature where that is possible, so that the call sites are still compared
        let (c2, r2) = try_declare(base, &norm);
        match r2 {
            Ok(()) => annotated = c2,
            Err(_) => return o,
        }
    }
    // 4. independent analysis of the principal type (statistics)
    {
        let mut w = w0.clone();
        if let Ok(Line::Fn(_, s)) = analyse_stmt(&mut w, &c.f) {
            if let Some(got) = scheme_from_text(&stmt_scheme) {
                o.oracle_agrees = Some(canon_family(&got) == canon_family(&s));
            }
        }
    }
    // 3. call sites
    for call in &c.calls {
        let cs = call.src();
        let a = front(&inferred, &cs);
        let b = front(&annotated, &cs);
        match (&a, &b) {
            (Ok(ta), Ok(tb)) => {
                // result types are compared as instance families (a call with a literal 0 has a polymorphic type
                // whose quantified variable may be chosen differently)
                let fam = |t: &Vec<String>| -> Vec<String> {
                    t.iter()
                        .map(|l| match l.strip_prefix("expr ").and_then(scheme_from_text) {
                            Some(s) => canon_family(&s),
                            None => l.clone(),
                        })
                        .collect()
                };
                if fam(ta) != fam(tb) {
                    o.fails.push(("call-type".into(), format!("call `{cs}`: inferred version gives {ta:?}, version annotated with `{sig}` gives {tb:?}")));
                    return o;
                }
                o.calls_ok += 1;
            }
            (Err(ea), Err(eb)) => {
                if ea.starts_with("panic") || eb.starts_with("panic") {
                    o.fails.push(("panic".into(), format!("call `{cs}`: {ea} / {eb}")));
                    return o;
                }
                o.calls_rejected += 1;
            }
            (x, y) => {
                o.fails.push((
                    "call-accept".into(),
                    format!("call `{cs}`: inferred version {}, version annotated with `{sig}` {}", if x.is_ok() { "accepts" } else { "rejects" }, if y.is_ok() { "accepts" } else { "rejects" }),
                ));
                return o;
            }
        }
    }
    o
}

fn fails_same(base: &Context, plain: Option<&Context>, w0: &World, c: &Case, kind: &str) -> bool {
    run_case(base, plain, w0, c).fails.iter().any(|(k, _)| k == kind)
}

fn shrink(base: &Context, plain: Option<&Context>, w0: &World, c: &Case, kind: &str) -> Case {
    let mut cur = Case { session: c.session.clone(), f: c.f.clone(), calls: c.calls.clone() };
    // a single call is enough
    if !cur.calls.is_empty() {
        for i in 0..cur.calls.len() {
            let cand = Case { session: cur.session.clone(), f: cur.f.clone(), calls: vec![cur.calls[i].clone()] };
            if fails_same(base, plain, w0, &cand, kind) {
                cur = cand;
                break;
            }
        }
        let cand = Case { session: cur.session.clone(), f: cur.f.clone(), calls: vec![] };
        if fails_same(base, plain, w0, &cand, kind) {
            cur = cand;
        }
    }
    // body: replace nodes by their children
    let mut progress = true;
    let mut rounds = 0;
    while progress && rounds < 60 {
        progress = false;
        rounds += 1;
        let size = cur.f.exprs()[0].size();
        'outer: for k in 0..size {
            let mut idx = 0usize;
            let mut kids: Vec<E> = Vec::new();
            cur.f.exprs()[0].visit(&mut |x| {
                if idx == k {
                    kids = x.children().into_iter().cloned().collect();
                }
                idx += 1;
            });
            for kid in kids {
                let mut f2 = cur.f.clone();
                let mut idx2 = 0usize;
                f2.exprs_mut()[0].visit_mut(&mut |x| {
                    if idx2 == k {
                        *x = kid.clone();
                        return true;
                    }
                    idx2 += 1;
                    false
                });
                let cand = Case { session: cur.session.clone(), f: f2, calls: cur.calls.clone() };
                if fails_same(base, plain, w0, &cand, kind) {
                    cur = cand;
                    progress = true;
                    break 'outer;
                }
            }
        }
    }
    cur
}

fn emit(sessions: &[(String, Context)], w0: &World, out: &mut Out, c: &Case, count: bool) {
    let Some((_, base)) = sessions.iter().find(|(k, _)| *k == c.session) else { return };
    let plain: Option<&Context> = if c.session == "A" { sessions.iter().find(|(k, _)| k == "P").map(|(_, c)| c) } else { None };
    let o = run_case(base, plain, w0, c);
    if count {
        out.count(if o.accepted { "definition:accepted" } else { "definition:rejected" });
        out.count(&format!("session:{}", c.session));
        if o.accepted {
            out.count_n("calls:accepted_by_both", o.calls_ok as u64);
            out.count_n("calls:rejected_by_both", o.calls_rejected as u64);
            let generic = o.signature.contains('<');
            out.count(if generic { "signature:generic" } else { "signature:concrete" });
            let nvars = o.signature.matches(": Dim").count();
            out.count(&format!("signature:type_parameters:{nvars}"));
            if o.signature.contains('^') || o.signature.contains('²') || o.signature.contains('³') {
                out.count("signature:with_exponents");
            }
            match o.oracle_agrees {
                Some(true) => out.count("independent_analysis:same_principal_type"),
                Some(false) => out.count("independent_analysis:DIFFERENT_principal_type"),
                None => out.count("independent_analysis:not_applicable"),
            }
        }
        if o.line.is_some() {
            out.count("model:in_fragment");
        } else if let S::Fn { params, body, .. } = &c.f {
            let pn: Vec<String> = params.iter().map(|(n, _)| n.clone()).collect();
            out.count(&format!("model:outside_fragment:{}", outside_reason(base, &pn, body)));
        }
    }
    if let Some((req, ans)) = &o.line {
        out.line(req, ans);
    }
    for (kind, what) in o.fails {
        // minimise the first few failures of every kind; later ones are reported as generated
        let seen = out.histogram.get(&format!("failures:{kind}")).copied().unwrap_or(0);
        out.count(&format!("failures:{kind}"));
        let small = if seen < 8 { shrink(base, plain, w0, c, &kind) } else { Case { session: c.session.clone(), f: c.f.clone(), calls: c.calls.clone() } };
        let what2 = run_case(base, plain, w0, &small).fails.into_iter().find(|(k, _)| *k == kind).map(|x| x.1).unwrap_or(what);
        let S::Fn { .. } = &small.f else { return };
        let key = format!("{}:{}:{}", kind, small.session, small.f.src());
        out.oracle_fail(&key, &small.line(), &format!("{} || session {} || {}", what2, small.session, small.f.src()));
    }
}

fn gen_case(rng: &mut Rng, w0: &World, session: &str, n_calls: usize) -> Option<Case> {
    let depth = 1 + rng.below(3);
    let mut g = Gen::new(rng, w0.clone());
    let f = g.gen_fn_plain(depth);
    // the analysed type guides the call sites
    let mut w = w0.clone();
    let has_list = g.last_intents.iter().any(|(_, t)| matches!(t, Ty::L(_)));
    let sch = match analyse_stmt(&mut w, &f) {
        Ok(Line::Fn(_, s)) if !has_list => s,
        // the independent analysis is dimension-only: a function with a list parameter gets its call sites from
        // the generator's intended parameter types (hidden axes `~k` become quantified variables)
        _ if has_list => {
            let mut axes: Vec<String> = Vec::new();
            let mut conv = |v: &V| -> V {
                v.subst(&|a: &Atom| match a {
                    Atom::TPar(n) if n.starts_with('~') => n[1..].parse::<usize>().ok().map(|k| V::atom(Atom::Q(k))),
                    _ => None,
                })
            };
            for (_, t) in &g.last_intents {
                let v = match t {
                    Ty::D(v) => v,
                    Ty::L(el) => match &**el {
                        Ty::D(v) => v,
                        _ => return None,
                    },
                    _ => return None,
                };
                for a in v.0.keys() {
                    if let Atom::TPar(n) = a {
                        if !axes.contains(n) {
                            axes.push(n.clone());
                        }
                    }
                }
            }
            let ps: Vec<Ty> = g
                .last_intents
                .iter()
                .map(|(_, t)| match t {
                    Ty::L(el) => match &**el {
                        Ty::D(v) => Ty::L(Box::new(Ty::D(conv(v)))),
                        o => o.clone(),
                    },
                    Ty::D(v) => Ty::D(conv(v)),
                    o => o.clone(),
                })
                .collect();
            Scheme { nq: axes.len(), dim: vec![true; axes.len()], ty: Ty::F(ps, Box::new(Ty::scalar())) }
        }
        _ => return None,
    };
    let S::Fn { name, .. } = &f else { return None };
    let Ty::F(ps, _) = &sch.ty else { return None };
    let mut calls = Vec::new();
    for _ in 0..n_calls {
        let inst: Vec<V> = (0..sch.nq).map(|_| g.rand_dim()).collect();
        let mut args = Vec::new();
        // perturb an argument whose parameter type is constrained (shares a variable with another parameter or has
        // a fixed part), so that the perturbed call is usually ill-dimensioned
        let constrained: Vec<usize> = (0..ps.len())
            .filter(|i| match &ps[*i] {
                Ty::D(pv) => {
                    let shared = pv.0.keys().any(|a| matches!(a, Atom::Q(_)) && ps.iter().enumerate().any(|(j, q)| j != *i && matches!(q, Ty::D(qv) if !qv.get(a).is_zero())));
                    let rigid = pv.0.keys().any(|a| matches!(a, Atom::Base(_)));
                    shared || rigid || pv.is_zero()
                }
                _ => false,
            })
            .collect();
        let perturb = if g.rng.chance(1, 2) {
            if !constrained.is_empty() { Some(*g.rng.pick(&constrained)) } else { Some(g.rng.below(ps.len().max(1))) }
        } else {
            None
        };
        for (i, p) in ps.iter().enumerate() {
            let (pv, is_list) = match p {
                Ty::D(pv) => (pv, false),
                Ty::L(el) => match &**el {
                    Ty::D(pv) => (pv, true),
                    _ => return None,
                },
                _ => return None,
            };
            let mut v = pv.subst(&|a: &Atom| if let Atom::Q(j) = a { Some(inst[*j].clone()) } else { None });
            if perturb == Some(i) {
                v = g.rand_dim();
            }
            if v.0.values().any(|q| q.d > 6 || q.n.abs() > 24) {
                v = g.rand_dim();
            }
            let e = if is_list {
                let n = 1 + g.rng.below(3);
                E::List((0..n).map(|_| g.leaf(&v)).collect())
            } else if g.rng.chance(1, 12) {
                E::Zero
            } else {
                g.leaf(&v)
            };
            args.push(e);
        }
        calls.push(E::Call(name.clone(), args));
    }
    Some(Case { session: session.to_string(), f, calls })
}

fn main() {
    let args = Args::parse();
    let mut out = Out::new(&args);
    out.rule = "generated unannotated functions of 1-3 parameters (body: type-directed mix of + - * / ^(rational) neg -> comparisons if-then-else, literal 0, calls of sqrt sqr cbrt abs hypot2 round_in mod unit_of value_of circle_area …; parameters share or derive dimensions so that inference has to unify; every fifth parameter is a list of quantities used through head sum maximum mean; every tenth body has the polymorphic 0 as a factor of its result; every tenth function only compares two parameters with == / != so that their type variable carries no Dim bound), each defined in a clone of the session, re-declared with its printed signature, and probed with 24 call sites (2/3 fitting the analysed type, 1/3 with a perturbed argument, some literal zeros); every 8th case runs in a session that defines dimensions A, B, C. distinct = distinct function text; non-trivial = the inferred signature is generic".into();
    let w0 = tables::prelude_world();
    let mut sessions: Vec<(String, Context)> = Vec::new();
    for k in ["P", "A"] {
        match session(k) {
            Ok(c) => sessions.push((k.to_string(), c)),
            Err(e) => {
                out.oracle_fail("prelude-rejected", "accept use prelude", &format!("the session cannot be set up: {}", e.chars().take(300).collect::<String>()));
                out.finish();
                return;
            }
        }
    }
    let replay = |out: &mut Out, l: &str| {
        let l = l.trim();
        if l.is_empty() || l.starts_with('#') {
            return;
        }
        match Case::parse(l) {
            Some(c) => {
                emit(&sessions, &w0, out, &c, true);
                out.case(&c.f.src(), true);
            }
            None => out.oracle_fail("unparsable-replay", l, "replay line does not parse"),
        }
    };
    if let Some(p) = &args.replay {
        for l in read_lines(p) {
            replay(&mut out, &l);
        }
        out.finish();
        return;
    }
    if let Some(dir) = args.extra.get("corpus") {
        let mut files: Vec<_> = std::fs::read_dir(dir).map(|d| d.filter_map(|e| e.ok()).map(|e| e.path()).collect()).unwrap_or_default();
        files.sort();
        for f in files {
            for l in read_lines(&f) {
                replay(&mut out, &l);
                out.count("corpus_lines");
            }
        }
    }
    let mut rng = Rng::new(args.seed);
    let n = args.count(400, 15000);
    let mut skipped = 0usize;
    for i in 0..n {
        let sess = if i % 8 == 7 { "A" } else { "P" };
        let Some(c) = gen_case(&mut rng, &w0, sess, 24) else {
            skipped += 1;
            continue;
        };
        let o_sig_generic = {
            let (_, base) = sessions.iter().find(|(k, _)| k == sess).unwrap();
            run_case(base, None, &w0, &Case { session: c.session.clone(), f: c.f.clone(), calls: vec![] }).signature.contains('<')
        };
        out.case(&c.f.src(), o_sig_generic);
        if let S::Fn { params, body, .. } = &c.f {
            out.count(&format!("parameters:{}", params.len()));
            body.visit(&mut |x| {
                let k = match x {
                    E::Num(_) => "num",
                    E::Zero => "zero",
                    E::Unit(_) => "unit",
                    E::Var(_) => "param",
                    E::Neg(_) => "neg",
                    E::Bin(op, _, _) => op.tag(),
                    E::Pow(_, q, _) if q.d != 1 => "pow_fractional",
                    E::Pow(..) => "pow_integer",
                    E::PowE(..) => "pow_scalar_base",
                    E::Cmp(..) => "cmp",
                    E::If(..) => "if",
                    E::Call(..) => "call_library",
                    E::List(_) => "list",
                    E::Str(_) => "str",
                };
                out.count(&format!("node:{k}"));
            });
        }
        emit(&sessions, &w0, &mut out, &c, true);
    }
    out.count_n("generator_cases_discarded_by_oracle", skipped as u64);
    out.finish();
}
