//! C06 — a failing input leaves the session unchanged.
//!
//! One case = one session: a list of inputs, each a list of one-line statements.  One-line encoding
//! (replay / corpus):   `session <stmt>⏎<stmt>;;<stmt>;;...`   (`⏎` separates the statements of an input,
//! `;;` separates inputs).
//!
//! Oracle on the implementation (independent of the model): the session runs on a real `Context` (prelude
//! loaded) and on a *twin* that never sees an input that failed: every input is first tried on a scratch
//! clone of the twin; the outcome (result / error text / printed lines) must equal the session's outcome; the
//! twin advances only if the input succeeded; after every input `verif_session_digest()` of session and twin
//! must be equal.  Source labels (`<input:N>`, file table) are not part of outcome or digest.
//!
//! Correspondence: per session `new`, per input one request
//!     in <stage> <pos> <item> <item> ...
//! stage = actual outcome (ok|parse|module|names|types|run), pos = index of the statement at which the stage
//! fails, item = `use:<module>` | `def:<kind>:<name>[+<kind>:<name>...]` | `x`.
//! Answer: the stage, the names known to each component relative to the prelude baseline, then ` || ` and the
//! counters that C06 lets differ:  `<stage> mods=[..] tr=[..] tc=[..] vm=[..] || files=<n> text=<n>`.
//! Before the first session: `base <modules imported by the prelude>` and the module table
//! `mod <name> <deps,> <kind:name,>` (answers `ok`).

#[path = "../sess_common.rs"]
mod sess;

use numbat::Context;
use nvh::*;
use sess::*;

#[derive(Clone, Debug)]
struct Input {
    stmts: Vec<String>,
    /// generator's intent: "ok" or the stage it should fail at ("?" when replayed)
    intent: &'static str,
    fail_pos: usize,
    tags: Vec<&'static str>,
}

fn encode(session: &[Vec<String>]) -> String {
    session
        .iter()
        .map(|i| i.join(NL))
        .collect::<Vec<_>>()
        .join(SEP)
}

fn decode(text: &str) -> Vec<Vec<String>> {
    text.split(SEP)
        .map(|i| i.split(NL).map(|s| s.to_string()).collect())
        .collect()
}

/// the property, evaluated on the real interpreter: first violation as (input index, description)
fn oracle(base: &Context, session: &[Vec<String>]) -> Option<(usize, String)> {
    let mut real = base.clone();
    let mut twin = base.clone();
    for (i, lines) in session.iter().enumerate() {
        let code = lines.join("\n");
        let o_real = run_input(&mut real, &code);
        let mut scratch = twin.clone();
        let o_twin = run_input(&mut scratch, &code);
        if o_real.stage == "panic" {
            // a crash is not one of the failures C06 speaks about (that is C08) and leaves no session to
            // compare: the case ends here without a verdict
            return None;
        }
        if o_real.text() != o_twin.text() {
            return Some((
                i,
                format!(
                    "input {} `{}`: after the failing inputs the session answers [{}] but a session that never saw them answers [{}]",
                    i,
                    code.replace('\n', NL),
                    o_real.text(),
                    o_twin.text()
                ),
            ));
        }
        if o_real.ok() {
            twin = scratch;
        }
        if digest(&real) != digest(&twin) {
            return Some((
                i,
                format!(
                    "after input {} `{}` ({}) the session state differs from the twin's: {}",
                    i,
                    code.replace('\n', NL),
                    o_real.stage,
                    digest_diff(&real, &twin)
                ),
            ));
        }
    }
    None
}

fn shrink_session(base: &Context, session: &[Vec<String>]) -> Vec<Vec<String>> {
    let mut cur = shrink_seq(session, |c| oracle(base, c).is_some());
    // then statements inside the inputs
    loop {
        let mut progressed = false;
        for i in 0..cur.len() {
            let mut j = 0;
            while cur[i].len() > 1 && j < cur[i].len() {
                let mut cand = cur.clone();
                cand[i].remove(j);
                if oracle(base, &cand).is_some() {
                    cur = cand;
                    progressed = true;
                } else {
                    j += 1;
                }
            }
        }
        if !progressed {
            break;
        }
    }
    cur
}

struct Tables {
    base: Context,
    base_summary: Summary,
    base_counters: (usize, usize, usize),
    /// modules known to the importer that the generator can name (and their non-prelude dependencies)
    known_modules: Vec<String>,
}

fn item_of(line: &str) -> String {
    if let Some(m) = use_of(line) {
        return format!("use:{}", m.replace(' ', ""));
    }
    let intro = intro_of(line);
    if intro.is_empty() {
        "x".into()
    } else {
        format!("def:{}", intro.join("+"))
    }
}

/// emits the module table for the driver
fn emit_module_table(out: &mut Out, t: &mut Tables) {
    out.setup(&format!(
        "base {}",
        t.base_summary.mods.iter().cloned().collect::<Vec<_>>().join(",")
    ));
    let mut todo: Vec<String> = MODULES.iter().map(|m| m.0.to_string()).collect();
    let mut done: Vec<String> = Vec::new();
    while let Some(m) = todo.pop() {
        if done.contains(&m) || t.base_summary.mods.contains(&m) {
            continue;
        }
        let deps = match module_deps(&m) {
            Some(d) => d,
            None => continue,
        };
        // own names: import the dependencies first, then the module
        let mut ctx = t.base.clone();
        for d in &deps {
            let _ = run_input(&mut ctx, &format!("use {}", d));
        }
        let s0 = summary(&ctx);
        let _ = run_input(&mut ctx, &format!("use {}", m));
        let s1 = summary(&ctx).minus(&s0);
        let mut names: std::collections::BTreeSet<String> = s1.tr.clone();
        names.extend(s1.tc.iter().cloned());
        names.extend(s1.vm.iter().cloned());
        out.setup(&format!(
            "mod {} {} {}",
            m,
            if deps.is_empty() { "-".to_string() } else { deps.join(",") },
            if names.is_empty() { "-".to_string() } else { names.into_iter().collect::<Vec<_>>().join(",") }
        ));
        for d in deps {
            todo.push(d);
        }
        done.push(m);
    }
    t.known_modules = done;
}

/// runs the session on the real context, writes the correspondence lines, evaluates the oracle
fn emit(out: &mut Out, t: &Tables, session: &[Input], count_case: bool) {
    let lines: Vec<Vec<String>> = session.iter().map(|i| i.stmts.clone()).collect();
    let text = encode(&lines);
    out.setup("new");
    let mut real = t.base.clone();
    let mut n_failed = 0usize;
    let mut ok_after_failure = 0usize;
    for inp in session {
        let code = inp.stmts.join("\n");
        let o = run_input(&mut real, &code);
        if o.stage == "panic" {
            if count_case {
                out.count("session_cut_short_by_panic_outside_property");
                out.count(&format!("panic_at_{}", o.err.split(" :: ").next().unwrap_or("?")));
            }
            break;
        }
        // position at which the failing stage stops (only observable for `module`: earlier imports were loaded)
        let pos = match o.stage {
            "module" => inp
                .stmts
                .iter()
                .position(|l| use_of(l).map(|m| module_deps(&m).is_none()).unwrap_or(false))
                .unwrap_or(0),
            "ok" => inp.stmts.len(),
            s if s == inp.intent => inp.fail_pos,
            _ => 0,
        };
        let items: Vec<String> = inp.stmts.iter().map(|l| item_of(l)).collect();
        let s = summary(&real).minus(&t.base_summary);
        let (text_n, _internal_n, files_n) = real.verif_session_counters();
        out.line(
            &format!("in {} {} {}", o.stage, pos, items.join(" ")),
            &format!(
                "{} {} || files={} text={}",
                o.stage,
                s.text(),
                files_n - t.base_counters.2,
                text_n - t.base_counters.0
            ),
        );
        if count_case {
            out.count(&format!("input_intent_{}", inp.intent));
            out.count(&format!("input_actual_{}", o.stage));
            if inp.intent != "?" && inp.intent != o.stage {
                out.count("input_intent_mismatch");
                out.count(&format!("mismatch_{}_became_{}", inp.intent, o.stage));
            }
            for tg in &inp.tags {
                out.count(&format!("stmt_{}", tg));
            }
            if !o.ok() {
                n_failed += 1;
                if inp.stmts.iter().any(|l| use_of(l).is_some()) {
                    out.count("failing_input_with_use");
                }
                if inp.stmts.len() > 1 {
                    out.count("failing_input_with_other_statements");
                }
            } else if n_failed > 0 {
                ok_after_failure += 1;
            }
        }
    }
    if count_case {
        out.case(&text, n_failed > 0 && ok_after_failure > 0);
        out.count_n("inputs_total", session.len() as u64);
    }
    if let Some((_, _w)) = oracle(&t.base, &lines) {
        let small = shrink_session(&t.base, &lines);
        let w2 = oracle(&t.base, &small).map(|x| x.1).unwrap_or_default();
        let st = encode(&small);
        out.oracle_fail(&format!("c06-session:{}", st), &format!("session {}", st), &w2);
    }
}

fn gen_session(rng: &mut Rng, base: &Context, n_inputs: usize) -> Vec<Input> {
    let mut env = Env::default();
    let mut probe = base.clone();
    let mut session = Vec::new();
    for _ in 0..n_inputs {
        let failing = rng.chance(2, 5);
        let mut scratch = env.clone();
        let mut stmts: Vec<GStmt> = Vec::new();
        let intent: &'static str;
        let mut fail_pos = 0;
        if failing {
            let kind = *rng.pick(BAD_KINDS);
            intent = kind.stage();
            if rng.chance(1, 3) {
                // an import inside the failing input: the shape of the repaired defect
                let i = rng.below(MODULES.len());
                let s = GStmt { text: format!("use {}", MODULES[i].0), eff: Effect::Use(i), tag: "use_in_failing_input" };
                scratch.apply(&s.eff);
                stmts.push(s);
            }
            for _ in 0..rng.below(4) {
                let s = gen_ok_stmt(&mut scratch, rng, true);
                scratch.apply(&s.eff);
                stmts.push(s);
            }
            fail_pos = stmts.len();
            stmts.push(gen_bad_stmt(&mut scratch, rng, kind));
            for _ in 0..rng.below(3) {
                let s = gen_ok_stmt(&mut scratch, rng, true);
                scratch.apply(&s.eff);
                stmts.push(s);
            }
        } else {
            intent = "ok";
            for _ in 0..(1 + rng.below(3)) {
                let s = gen_ok_stmt(&mut scratch, rng, true);
                scratch.apply(&s.eff);
                stmts.push(s);
            }
        }
        // adaptive: the generator's environment follows what really happened
        let o = run_input(&mut probe, &join_input(&stmts));
        if o.stage == "panic" {
            // the session ends with the crashing input (emit stops there too)
            session.push(Input {
                stmts: stmts.iter().map(|s| s.text.clone()).collect(),
                intent,
                fail_pos,
                tags: stmts.iter().map(|s| s.tag).collect(),
            });
            break;
        }
        if o.ok() {
            scratch.n = scratch.n.max(env.n);
            env = scratch;
        } else {
            env.n = scratch.n;
            env.rolled_back(&stmts);
        }
        session.push(Input {
            stmts: stmts.iter().map(|s| s.text.clone()).collect(),
            intent,
            fail_pos,
            tags: stmts.iter().map(|s| s.tag).collect(),
        });
    }
    session
}

fn from_lines(lines: Vec<Vec<String>>) -> Vec<Input> {
    lines
        .into_iter()
        .map(|stmts| Input { stmts, intent: "?", fail_pos: 0, tags: vec![] })
        .collect()
}

fn main() {
    let args = Args::parse();
    let mut out = Out::new(&args);
    out.rule = "random sessions of ~12 inputs over a prelude-loaded Context; 60% of the inputs are 1-3 statements meant to succeed (let incl. redefinition, fn, unit with aliases/base/derived, dimension, struct, use of 11 small std modules, expressions, print, ans/_, assert_eq, struct values), 40% are failing inputs of a uniformly chosen kind (unknown module, parse error, name clash in the prefix parser, type error incl. namespace clashes, run-time error) with 0-3 succeeding statements and (1 in 3) a module import before and 0-2 statements after the failing statement; later inputs re-use names and modules that only occurred in rolled-back inputs. The generator follows the real outcome (adaptive). distinct = distinct session text; non-trivial = at least one input really failed and at least one later input succeeded".into();

    let base = prelude_ctx();
    let mut t = Tables {
        base_summary: summary(&base),
        base_counters: base.verif_session_counters(),
        base,
        known_modules: vec![],
    };
    emit_module_table(&mut out, &mut t);

    if let Some(p) = &args.replay {
        for l in read_lines(p) {
            if let Some(rest) = l.strip_prefix("session ") {
                emit(&mut out, &t, &from_lines(decode(rest)), true);
            }
        }
        out.finish();
        return;
    }

    if let Some(dir) = args.extra.get("corpus") {
        let mut files: Vec<_> = std::fs::read_dir(dir)
            .map(|d| d.filter_map(|e| e.ok()).map(|e| e.path()).collect())
            .unwrap_or_default();
        files.sort();
        for f in files {
            for l in read_lines(&f) {
                if let Some(rest) = l.strip_prefix("session ") {
                    emit(&mut out, &t, &from_lines(decode(rest)), true);
                    out.count("corpus_cases");
                }
            }
        }
    }

    let mut rng = Rng::new(args.seed);
    let n = args.count(150, 5000);
    for i in 0..n {
        let len = if i % 10 == 0 { 24 } else { 8 + rng.below(9) };
        let session = gen_session(&mut rng, &t.base, len);
        emit(&mut out, &t, &session, true);
    }
    out.finish();
}
