//! C14 — displayed numbers read back as the value they show.
//!
//! One case = (f64 bit pattern, digit separator, grouping threshold, significant digits).
//!
//! Request line for the model (strings %-encoded like in c20):
//!     pp <bits:16 hex> <sep> <threshold> <sig> <raw pretty_dtoa output>     -> displayed text
//!     ppc <bits:16 hex> <0|1 max_sig_digits.is_some()> <raw>                -> text of the override path
//!         (`pretty_print_with_dtoa_config(.., Some(config))`, used by `pretty_print_with_precision`)
//! After ` || ` both sides state whether `raw` has the shape the float-branch theorems assume of `pretty_dtoa`
//! output (`wf=1`; `wf=kw` for NaN/inf) — the harness says what it must be, the driver evaluates `wellFormedRaw`.
//! The implementation's answer is the text of `Value::pretty_print_with(FormatOptions)` of the scalar
//! (the public display path); the raw string is what the external crate `pretty_dtoa` returns for the
//! configuration numbat uses (hook `verif::c14::dtoa_raw`), so that the model needs no model of dtoa.
//!
//! Oracle on the implementation (independent of the model), for the displayed text `s`:
//!  (K) NaN is displayed as `NaN`, +inf as `inf`, -inf as `-inf`, and numbat's real parser reads these back as
//!      one literal (under one unary minus for `-inf`) of that class;
//!  otherwise let `t` = `s` with every occurrence of the configured separator removed:
//!  (L) numbat's *real* tokenizer+parser accept `t` as exactly one statement that is one numeric literal,
//!      possibly under one unary minus (hook `parse_single_literal`), and `Context::interpret(t)` evaluates
//!      to the f64 nearest to the decimal value of `t`;
//!  (I) if the value is an integer of magnitude < 2^53: `t` is exactly the decimal digits of the integer (all
//!      digits, `-` iff negative; `-0.0` is shown as `0`);
//!  (V) otherwise, with n = significant_digits, x the exact binary value, p = floor(log10 |x|),
//!      u = 10^(p-n+1): the exact decimal value D of `t` (computed here with big integers) is a multiple of
//!      u, has the sign of x, and |D - x| <= u/2 + ulp(x)/2.
//!      The ulp(x)/2 term is the stated tolerance: numbat rounds the *shortest round-trip decimal* of x
//!      (half-up), not the binary value itself; cases where |D - x| > u/2 are counted in the histogram
//!      (`double_rounding_beyond_half_unit`).  For n >= 17 this forces `t` to read back as exactly x.
//!
//! Replay / corpus lines:  `pp <bits> <sep> <threshold> <sig>` (a 5th field is ignored),
//!                         `val <decimal literal> <sep> <threshold> <sig>` (value given as Rust f64 literal).

use numbat::markup::{Formatter, PlainTextFormatter};
use numbat::resolver::CodeSource;
use numbat::verif::c14 as hook;
use numbat::{Context, FormatOptions, InterpreterResult};
use nvh::*;
use std::cmp::Ordering;

// ------------------------------------------------------------------ wire encoding

fn pct(s: &str) -> String {
    let mut o = String::new();
    for &b in s.as_bytes() {
        if (0x21..=0x7e).contains(&b) && b != b'%' {
            o.push(b as char);
        } else {
            o.push_str(&format!("%{:02X}", b));
        }
    }
    if o.is_empty() {
        o.push_str("%");
    }
    o
}

fn unpct(s: &str) -> String {
    if s == "%" {
        return String::new();
    }
    let b = s.as_bytes();
    let mut o = Vec::new();
    let mut i = 0;
    while i < b.len() {
        if b[i] == b'%' && i + 3 <= b.len() {
            if let Some(v) = std::str::from_utf8(&b[i + 1..i + 3]).ok().and_then(|x| u8::from_str_radix(x, 16).ok()) {
                o.push(v);
                i += 3;
                continue;
            }
        }
        o.push(b[i]);
        i += 1;
    }
    String::from_utf8_lossy(&o).to_string()
}

// ------------------------------------------------------------------ tiny big-integer arithmetic (no crates)

#[derive(Clone, Debug, PartialEq, Eq)]
struct Big(Vec<u32>); // little endian, no trailing zero limbs

impl Big {
    fn zero() -> Big {
        Big(vec![])
    }
    fn from_u64(x: u64) -> Big {
        let mut b = Big(vec![x as u32, (x >> 32) as u32]);
        b.trim();
        b
    }
    fn trim(&mut self) {
        while self.0.last() == Some(&0) {
            self.0.pop();
        }
    }
    fn is_zero(&self) -> bool {
        self.0.is_empty()
    }
    fn mul_small(&self, m: u32) -> Big {
        let mut carry: u64 = 0;
        let mut v = Vec::with_capacity(self.0.len() + 1);
        for &l in &self.0 {
            let t = l as u64 * m as u64 + carry;
            v.push(t as u32);
            carry = t >> 32;
        }
        if carry > 0 {
            v.push(carry as u32);
        }
        let mut b = Big(v);
        b.trim();
        b
    }
    fn add_small(&self, a: u32) -> Big {
        let mut v = self.0.clone();
        let mut carry = a as u64;
        let mut i = 0;
        while carry > 0 {
            if i == v.len() {
                v.push(0);
            }
            let t = v[i] as u64 + carry;
            v[i] = t as u32;
            carry = t >> 32;
            i += 1;
        }
        Big(v)
    }
    fn shl(&self, bits: usize) -> Big {
        if self.is_zero() {
            return Big::zero();
        }
        let limbs = bits / 32;
        let r = bits % 32;
        let mut v = vec![0u32; limbs];
        let mut carry: u32 = 0;
        for &l in &self.0 {
            if r == 0 {
                v.push(l);
            } else {
                v.push((l << r) | carry);
                carry = l >> (32 - r);
            }
        }
        if carry > 0 {
            v.push(carry);
        }
        Big(v)
    }
    fn mul_pow10(&self, k: usize) -> Big {
        let mut b = self.clone();
        let mut k = k;
        while k >= 9 {
            b = b.mul_small(1_000_000_000);
            k -= 9;
        }
        if k > 0 {
            b = b.mul_small(10u32.pow(k as u32));
        }
        b
    }
    fn add(&self, o: &Big) -> Big {
        let n = self.0.len().max(o.0.len());
        let mut v = Vec::with_capacity(n + 1);
        let mut carry: u64 = 0;
        for i in 0..n {
            let t = *self.0.get(i).unwrap_or(&0) as u64 + *o.0.get(i).unwrap_or(&0) as u64 + carry;
            v.push(t as u32);
            carry = t >> 32;
        }
        if carry > 0 {
            v.push(carry as u32);
        }
        Big(v)
    }
    /// |self - o|
    fn abs_diff(&self, o: &Big) -> Big {
        let (a, b) = if self.cmp(o) == Ordering::Less { (o, self) } else { (self, o) };
        let mut v = Vec::with_capacity(a.0.len());
        let mut borrow: i64 = 0;
        for i in 0..a.0.len() {
            let mut t = a.0[i] as i64 - *b.0.get(i).unwrap_or(&0) as i64 - borrow;
            if t < 0 {
                t += 1 << 32;
                borrow = 1;
            } else {
                borrow = 0;
            }
            v.push(t as u32);
        }
        let mut r = Big(v);
        r.trim();
        r
    }
    fn cmp(&self, o: &Big) -> Ordering {
        if self.0.len() != o.0.len() {
            return self.0.len().cmp(&o.0.len());
        }
        for i in (0..self.0.len()).rev() {
            if self.0[i] != o.0[i] {
                return self.0[i].cmp(&o.0[i]);
            }
        }
        Ordering::Equal
    }
    fn from_decimal(digits: &str) -> Big {
        let mut b = Big::zero();
        for c in digits.bytes() {
            b = b.mul_small(10).add_small((c - b'0') as u32);
        }
        b.trim();
        b
    }
}

/// every quantity is represented as an integer multiple of 2^-P2 * 10^-P10
const P2: i32 = 1100;
const P10: i32 = 420;

/// num * 2^e2 * 10^e10 in the common scale
fn scaled(num: &Big, e2: i32, e10: i32) -> Big {
    assert!(e2 + P2 >= 0 && e10 + P10 >= 0, "scale too small: 2^{} 10^{}", e2, e10);
    num.shl((e2 + P2) as usize).mul_pow10((e10 + P10) as usize)
}

/// finite f64 as (negative, mantissa, binary exponent): |x| = m * 2^e
fn decode(bits: u64) -> (bool, u64, i32) {
    let neg = bits >> 63 == 1;
    let e = ((bits >> 52) & 0x7ff) as i32;
    let m = bits & ((1u64 << 52) - 1);
    if e == 0 {
        (neg, m, -1074)
    } else {
        (neg, m | (1u64 << 52), e - 1075)
    }
}

/// a displayed decimal text: sign, all digits (integer part then fraction), exponent of the last digit
#[derive(Debug)]
struct Dec {
    neg: bool,
    digits: String,
    e10: i32,
}

/// independent reader of `[-]digits[.digits][e[+-]digits]` (no separators); None if not of that shape
fn read_decimal(t: &str) -> Option<Dec> {
    let (neg, rest) = match t.strip_prefix('-') {
        Some(r) => (true, r),
        None => (false, t),
    };
    let (mant, exp) = match rest.find(['e', 'E']) {
        Some(i) => (&rest[..i], Some(&rest[i + 1..])),
        None => (rest, None),
    };
    let (ip, fp) = match mant.find('.') {
        Some(i) => (&mant[..i], &mant[i + 1..]),
        None => (mant, ""),
    };
    if ip.is_empty() || !ip.bytes().all(|c| c.is_ascii_digit()) || !fp.bytes().all(|c| c.is_ascii_digit()) {
        return None;
    }
    let e: i32 = match exp {
        None => 0,
        Some(e) => {
            let d = e.strip_prefix('+').or_else(|| e.strip_prefix('-')).unwrap_or(e);
            if d.is_empty() || !d.bytes().all(|c| c.is_ascii_digit()) || d.len() > 5 {
                return None;
            }
            e.trim_start_matches('+').parse().ok()?
        }
    };
    Some(Dec { neg, digits: format!("{}{}", ip, fp), e10: e - fp.len() as i32 })
}

// ------------------------------------------------------------------ the case

#[derive(Clone, Debug, PartialEq)]
struct Case {
    bits: u64,
    sep: String,
    threshold: usize,
    sig: usize,
}

impl Case {
    fn line(&self) -> String {
        format!("pp {:016x} {} {} {}", self.bits, pct(&self.sep), self.threshold, self.sig)
    }
    fn parse(l: &str) -> Option<Case> {
        let w: Vec<&str> = l.split(' ').filter(|x| !x.is_empty()).collect();
        match w.first()? {
            &"pp" => Some(Case { bits: u64::from_str_radix(w.get(1)?, 16).ok()?, sep: unpct(w.get(2)?), threshold: w.get(3)?.parse().ok()?, sig: w.get(4)?.parse().ok()? }),
            &"val" => Some(Case { bits: w.get(1)?.parse::<f64>().ok()?.to_bits(), sep: unpct(w.get(2)?), threshold: w.get(3)?.parse().ok()?, sig: w.get(4)?.parse().ok()? }),
            _ => None,
        }
    }
    fn options(&self) -> FormatOptions {
        FormatOptions { digit_separator: self.sep.clone(), digit_grouping_threshold: self.threshold, significant_digits: self.sig, ..FormatOptions::default() }
    }
}

struct Eval {
    shown: String,
    raw: String,
    class: &'static str,
    fail: Option<(&'static str, String)>,
    double_rounding: bool,
}

fn display(c: &Case) -> String {
    let v = hook::scalar_value(c.bits);
    let m = v.pretty_print_with(&c.options());
    PlainTextFormatter {}.format(&m, false).to_string()
}

fn interpret_scalar(ctx: &mut Context, code: &str) -> Result<f64, String> {
    match ctx.interpret(code, CodeSource::Internal) {
        Ok((_, InterpreterResult::Value(numbat::value::Value::Quantity(q)))) => Ok(q.unsafe_value().to_f64()),
        Ok(_) => Err("not a scalar value".into()),
        Err(e) => Err(format!("{}", e)),
    }
}

fn check(c: &Case, shown: &str, ctx: &mut Context, double_rounding: &mut bool) -> Result<(), (&'static str, String)> {
    let x = f64::from_bits(c.bits);
    // (K) keywords
    if x.is_nan() || x.is_infinite() {
        let want = if x.is_nan() { "NaN" } else if x > 0.0 { "inf" } else { "-inf" };
        if shown != want {
            return Err(("keyword", format!("{:?} is displayed as {:?}, expected the keyword {:?}", x, shown, want)));
        }
        match hook::parse_single_literal(shown) {
            Some((neg, b)) => {
                let v = f64::from_bits(b);
                let ok = if x.is_nan() { v.is_nan() && !neg } else { v.is_infinite() && v > 0.0 && neg == (x < 0.0) };
                if !ok {
                    return Err(("keyword", format!("{:?} is read back by the parser as {}{:?}", shown, if neg { "-" } else { "" }, v)));
                }
            }
            None => return Err(("keyword", format!("{:?} is not read back as one literal", shown))),
        }
        match interpret_scalar(ctx, shown) {
            Ok(v) if (x.is_nan() && v.is_nan()) || v == x => {}
            other => return Err(("keyword", format!("interpreting {:?} gives {:?}", shown, other))),
        }
        return Ok(());
    }
    let t = if c.sep.is_empty() { shown.to_string() } else { shown.replace(&c.sep, "") };
    // (L) one literal for the real tokenizer/parser
    let (neg, lit_bits) = match hook::parse_single_literal(&t) {
        Some(r) => r,
        None => return Err(("not-literal", format!("displayed {:?} (without separator {:?}) is not accepted by numbat's parser as one numeric literal", shown, t))),
    };
    let dec = match read_decimal(&t) {
        Some(d) => d,
        None => return Err(("not-literal", format!("displayed {:?} (without separator {:?}) is not a decimal literal [-]digits[.digits][e[+-]digits]", shown, t))),
    };
    if neg != dec.neg {
        return Err(("not-literal", format!("sign structure of {:?}: parser negated={}, text negative={}", t, neg, dec.neg)));
    }
    let lit = f64::from_bits(lit_bits);
    let std_parse: f64 = t.trim_start_matches('-').parse().map_err(|_| ("not-literal", format!("{:?} is not parsed by f64::from_str", t)))?;
    if lit.to_bits() != std_parse.to_bits() {
        return Err(("readback", format!("literal {:?} has value {:?} for numbat's parser but {:?} for correctly rounded decimal->binary conversion", t, lit, std_parse)));
    }
    match interpret_scalar(ctx, &t) {
        Ok(v) if v == if neg { -lit } else { lit } => {}
        other => return Err(("readback", format!("interpreting {:?} gives {:?}, expected {:?}", t, other, if neg { -lit } else { lit }))),
    }
    // exact values
    let (xneg, m, e2) = decode(c.bits);
    let xs = scaled(&Big::from_u64(m), e2, 0);
    let d_int = Big::from_decimal(&dec.digits);
    let ds = scaled(&d_int, 0, dec.e10);
    let is_int = x.trunc() == x && x.abs() < 9007199254740992.0;
    if is_int {
        // (I) all digits
        let want = format!("{}", x as i64);
        if t != want {
            return Err(("all-digits", format!("integer {} is displayed as {:?} (without separator {:?}), expected all its digits {:?}", want, shown, t, want)));
        }
        if ds != xs {
            return Err(("value", format!("integer {} displayed as {:?} has a different value", want, shown)));
        }
        return Ok(());
    }
    // (V) rounding to n significant digits
    if !d_int.is_zero() && dec.neg != xneg {
        return Err(("value", format!("{:?} displayed as {:?}: wrong sign", x, shown)));
    }
    let n = c.sig.max(1) as i32; // a setting of 0 means 1: no value can be shown with no digit
    // p = floor(log10 |x|), exactly
    let mut p = x.abs().log10().floor() as i32;
    loop {
        let lo = scaled(&Big::from_u64(1), 0, p);
        if xs.cmp(&lo) == Ordering::Less {
            p -= 1;
            continue;
        }
        let hi = scaled(&Big::from_u64(1), 0, p + 1);
        if xs.cmp(&hi) != Ordering::Less {
            p += 1;
            continue;
        }
        break;
    }
    let uexp = p - n + 1; // u = 10^uexp
    // D multiple of u: D = d * 10^e10
    if dec.e10 < uexp {
        let need = (uexp - dec.e10) as usize;
        let tz = dec.digits.bytes().rev().take_while(|c| *c == b'0').count();
        if tz < need && !d_int.is_zero() {
            return Err(("value", format!("{:?} (bits {:016x}) with {} significant digits is displayed as {:?}: more than {} significant digits (last digit below 10^{})", x, c.bits, n, shown, n, uexp)));
        }
    }
    let diff = ds.abs_diff(&xs);
    // u/2 = 5 * 10^(uexp-1); ulp/2 = 2^(e2-1)
    let half_u = scaled(&Big::from_u64(5), 0, uexp - 1);
    let half_ulp = scaled(&Big::from_u64(1), e2 - 1, 0);
    if diff.cmp(&half_u.add(&half_ulp)) == Ordering::Greater {
        return Err(("value", format!("{:?} (bits {:016x}) with {} significant digits is displayed as {:?}, which is further than half a unit of the {}th significant digit (10^{}/2, plus ulp/2) from the value", x, c.bits, n, shown, n, uexp)));
    }
    if diff.cmp(&half_u) == Ordering::Greater {
        *double_rounding = true;
    }
    Ok(())
}

fn class_of(bits: u64) -> &'static str {
    let x = f64::from_bits(bits);
    if x.is_nan() {
        "nan"
    } else if x.is_infinite() {
        "inf"
    } else if x == 0.0 {
        "zero"
    } else if x.trunc() == x && x.abs() < 9007199254740992.0 {
        "integer<2^53"
    } else if x.trunc() == x {
        "integer>=2^53"
    } else if (bits >> 52) & 0x7ff == 0 {
        "subnormal"
    } else {
        "fraction"
    }
}

fn eval(c: &Case, ctx: &mut Context) -> Eval {
    let class = class_of(c.bits);
    let raw = match catch(|| hook::dtoa_raw(c.bits, hook::default_dtoa_config(c.sig))) {
        Ok(r) => r,
        Err(e) => format!("<panic {}>", e),
    };
    let shown = match catch(|| display(c)) {
        Ok(s) => s,
        Err(e) => {
            return Eval { shown: format!("<panic {}>", e), raw, class, fail: Some(("panic", format!("displaying the value panics: {}", e))), double_rounding: false };
        }
    };
    let mut dr = false;
    let fail = match catch(std::panic::AssertUnwindSafe(|| check(c, &shown, ctx, &mut dr))) {
        Ok(r) => r.err(),
        Err(e) => Some(("panic", format!("reading {:?} back panics: {}", shown, e))),
    };
    Eval { shown, raw, class, fail, double_rounding: dr }
}

fn emit(out: &mut Out, c: &Case, ctx: &mut Context, tag: &str) {
    let ev = eval(c, ctx);
    let x = f64::from_bits(c.bits);
    let wf = if x.is_nan() || x.is_infinite() { "kw" } else { "1" };
    if ev.shown.starts_with("<panic") || ev.raw.starts_with("<panic") {
        // nothing was displayed: there is no text to tie to the model; the oracle reports the panic
        out.count("implementation_panics");
    } else {
        out.line(&format!("{} {}", c.line(), pct(&ev.raw)), &format!("{} || wf={}", pct(&ev.shown), wf));
    }
    out.count(&format!("class_{}", ev.class));
    out.count(&format!("gen_{}", tag));
    let shape = if ev.shown.contains('e') && !ev.shown.contains("inf") {
        if ev.shown.contains("e-") { "shown_e-minus" } else { "shown_e-plus" }
    } else if ev.shown.contains('.') {
        "shown_decimal-point"
    } else if !c.sep.is_empty() && ev.shown.contains(&c.sep) {
        "shown_grouped-integer"
    } else {
        "shown_plain-integer-or-keyword"
    };
    out.count(shape);
    if ev.raw.contains('.') && !ev.raw.contains('e') && ev.raw.ends_with('0') {
        out.count("post_trailing-zeros-trimmed");
    }
    if ev.shown.ends_with(".0") && ev.raw.contains('.') && !ev.raw.contains('e') && ev.raw.trim_end_matches('0').ends_with('.') && ev.raw != ev.shown {
        out.count("post_all-fraction-zeros-trimmed-then-.0");
    }
    if ev.raw != ev.shown && !ev.raw.starts_with('<') {
        out.count("post_raw-differs-from-shown");
    }
    if ev.double_rounding {
        out.count("double_rounding_beyond_half_unit");
    }
    out.case(&c.line(), ev.class != "nan" && ev.class != "inf" && ev.class != "zero");
    if let Some((class, why)) = ev.fail {
        // simplify the settings towards the defaults while the same class of failure remains
        let mut small = c.clone();
        let still = |k: &Case, ctx: &mut Context| eval(k, ctx).fail.map(|f| f.0 == class).unwrap_or(false);
        for cand in [
            Case { sep: "_".into(), ..small.clone() },
            Case { threshold: 6, ..small.clone() },
            Case { sig: 6, ..small.clone() },
        ] {
            let merged = Case { bits: small.bits, sep: if cand.sep != c.sep { cand.sep.clone() } else { small.sep.clone() }, threshold: if cand.threshold != c.threshold { cand.threshold } else { small.threshold }, sig: if cand.sig != c.sig { cand.sig } else { small.sig } };
            if still(&merged, ctx) {
                small = merged;
            }
        }
        let why2 = eval(&small, ctx).fail.map(|f| f.1).unwrap_or(why);
        out.oracle_fail(&format!("c14-{}:{}", class, small.line()), &small.line(), &why2);
    }
}

/// the override path of `pretty_print_with_dtoa_config` (not a result display; tied to the model only)
fn emit_override(out: &mut Out, bits: u64, precision: i8) {
    let cfg = hook::precision_dtoa_config(precision);
    let r = catch(|| (hook::dtoa_raw(bits, cfg), hook::number_pretty_with_config(bits, cfg)));
    if let Ok((raw, shown)) = r {
        let x = f64::from_bits(bits);
        let wf = if x.is_nan() || x.is_infinite() { "kw" } else { "1" };
        out.line(&format!("ppc {:016x} {} {}", bits, if cfg.max_sig_digits.is_some() { 1 } else { 0 }, pct(&raw)), &format!("{} || wf={}", pct(&shown), wf));
        out.count("gen_override-path");
    }
}

// ------------------------------------------------------------------ generators

const SEPS: &[&str] = &["", "_", ",", " ", "'", "\u{2009}", "__", "·"];
const THRESHOLDS: &[usize] = &[0, 1, 2, 3, 4, 5, 6, 6, 6, 7, 8, 9, 10, 12, 15, 16, 17, 20, 1000];

fn gen_settings(rng: &mut Rng) -> (String, usize, usize) {
    if rng.chance(1, 4) {
        return ("_".into(), 6, 6);
    }
    let sep = rng.pick(SEPS).to_string();
    let th = *rng.pick(THRESHOLDS);
    let sig = match rng.below(10) {
        // the setting 0 is read as 1 (number.rs clamps it; seed C14-F): one case in twenty
        0 => if rng.chance(1, 2) { 0 } else { 1 },
        1 => 17,
        2 | 3 => 6,
        _ => 1 + rng.below(17),
    };
    (sep, th, sig)
}

fn pow10f(k: i32) -> f64 {
    format!("1e{}", k).parse().unwrap()
}

fn gen_bits(rng: &mut Rng) -> (u64, &'static str) {
    let sign = if rng.chance(1, 3) { 1u64 << 63 } else { 0 };
    match rng.below(17) {
        0 => {
            // integers around 10^k
            let k = rng.below(17) as u32;
            let base = 10u64.pow(k) as i64;
            let d = rng.range(-3, 3);
            (((base + d).max(0) as f64).to_bits() | sign, "int-near-10^k")
        }
        1 => {
            // around 2^53 and other powers of two
            let k = if rng.chance(2, 3) { 53 } else { 40 + rng.below(24) as u32 };
            let base = 2f64.powi(k as i32);
            let d = rng.range(-4, 4) as f64;
            ((base + d * if k > 53 { 2f64.powi(k as i32 - 52) } else { 1.0 }).to_bits() | sign, "int-near-2^k")
        }
        2 => {
            // random integers by digit count
            let digits = 1 + rng.below(16) as u32;
            let lo = 10u64.pow(digits - 1);
            let hi = (10u64.pow(digits) - 1).min((1u64 << 53) - 1);
            let v = lo + rng.next_u64() % (hi - lo + 1);
            ((v as f64).to_bits() | sign, "int-by-digit-count")
        }
        3 => {
            // subnormals
            let m = match rng.below(4) {
                0 => 1,
                1 => (1u64 << 52) - 1,
                _ => rng.next_u64() & ((1u64 << 52) - 1),
            };
            (m.max(1) | sign, "subnormal")
        }
        4 => {
            // smallest normals / largest finite
            let b = match rng.below(4) {
                0 => 1u64 << 52,
                1 => f64::MAX.to_bits(),
                2 => f64::MAX.to_bits() - rng.below(1000) as u64,
                _ => (1u64 << 52) + rng.below(1000) as u64,
            };
            (b | sign, "extreme-normal")
        }
        5 | 6 => {
            // near the e-notation switch points: m * 10^k with k around -7..-5 and 5..7
            let k = *rng.pick(&[-8, -7, -6, -5, -4, 4, 5, 6, 7, 8, 15, 16, 17]);
            let m = match rng.below(6) {
                0 => 1.0,
                1 => 0.9999995,
                2 => 0.99999949,
                3 => 9.999995,
                4 => 1.0000005,
                _ => 1.0 + rng.unit_f64() * 9.0,
            };
            ((m * pow10f(k)).to_bits() | sign, "near-e-switch")
        }
        7 | 8 => {
            // decimal strings built to carry / tie at the n-th digit: d.ddd999..95 etc.
            let nd = 1 + rng.below(17);
            let mut s = String::new();
            for i in 0..nd {
                let d = if rng.chance(1, 2) { 9 } else { rng.below(10) as u8 };
                s.push((b'0' + if i == 0 && d == 0 { 1 } else { d }) as char);
                if i == 0 {
                    s.push('.');
                }
            }
            let tails: [&str; 8] = ["5", "49999999", "50000001", "4", "6", "95", "0", ""];
            s.push_str(*rng.pick(&tails));
            let k = rng.range(-12, 22);
            let v: f64 = format!("{}e{}", s, k).parse().unwrap();
            (v.to_bits() | sign, "decimal-carry-tie")
        }
        9 => {
            // short decimals
            let d = rng.range(1, 99999) as f64;
            let k = rng.range(-9, 9) as i32;
            ((d * pow10f(k)).to_bits() | sign, "short-decimal")
        }
        10 => {
            // large non-integers and integers plus a half below 2^53
            let v = (rng.next_u64() % (1u64 << 52)) as f64 + *rng.pick(&[0.5, 0.25, 0.125, 0.75]);
            (v.to_bits() | sign, "large-non-integer")
        }
        11 => (*rng.pick(&[0u64, 1u64 << 63, f64::INFINITY.to_bits(), f64::NEG_INFINITY.to_bits(), f64::NAN.to_bits(), 0x7ff0000000000001, 0xfff8000000000000, 0x7fffffffffffffff]), "special"),
        12 | 13 => (rng.next_u64(), "random-bits"),
        14 => {
            // random exponent, random mantissa, moderate range
            let e = 1023 + rng.range(-70, 70);
            (((e as u64) << 52) | (rng.next_u64() & ((1u64 << 52) - 1)) | sign, "random-moderate")
        }
        15 => {
            // an integer plus/minus a tiny amount: rounds to the integer in the float branch ("5.00000" -> "5.0")
            let k = rng.range(0, 999999) as f64;
            let eps = pow10f(-(rng.range(3, 12) as i32)) * if rng.chance(1, 2) { 1.0 } else { -1.0 };
            ((k + eps).to_bits() | sign, "integer-plus-epsilon")
        }
        _ => {
            // results of arithmetic: thirds, sevenths, sqrt
            let a = rng.range(1, 1000) as f64;
            let b = rng.range(1, 1000) as f64;
            let v = match rng.below(3) {
                0 => a / b,
                1 => (a / b).sqrt() * pow10f(rng.range(-10, 20) as i32),
                _ => a * 0.1 + b * 0.01,
            };
            (v.to_bits() | sign, "arithmetic-result")
        }
    }
}

fn main() {
    let args = Args::parse();
    let mut out = Out::new(&args);
    out.rule = "one case = f64 bit pattern x (separator, grouping threshold, significant digits); bit patterns from 15 classes (integer plus/minus a tiny amount, integers around 10^k, around 2^53 and other 2^k, random integers per digit count, subnormals, extreme normals, m*10^k around the e-notation switch points 10^-6/10^6 and 10^16, decimal strings built to carry or tie at the n-th digit, short decimals, large non-integers below 2^53, +-0/inf/NaN payloads, uniformly random bit patterns, random moderate exponents, results of divisions/sqrt), one third negative; settings: 25% defaults, else separator from {empty,_,comma,space,',thin space,__,middle dot} x threshold from 0..1000 x significant digits 1..17 (weighted to 1, 6, 17). distinct = distinct (bits, settings); non-trivial = finite and non-zero".into();

    let mut ctx = Context::new_without_importer();

    if let Some(p) = &args.replay {
        for l in read_lines(p) {
            if let Some(c) = Case::parse(&l) {
                emit(&mut out, &c, &mut ctx, "replay");
            }
        }
        out.finish();
        return;
    }

    if let Some(dir) = args.extra.get("corpus") {
        let mut files: Vec<_> = std::fs::read_dir(dir).map(|d| d.filter_map(|e| e.ok()).map(|e| e.path()).collect()).unwrap_or_default();
        files.sort();
        for f in files {
            for l in read_lines(&f) {
                if l.starts_with('#') || l.trim().is_empty() {
                    continue;
                }
                if let Some(c) = Case::parse(&l) {
                    emit(&mut out, &c, &mut ctx, "corpus");
                }
            }
        }
    }

    let mut rng = Rng::new(args.seed);
    let n = args.count(20000, 2000000);
    for i in 0..n {
        if i % 10000 == 9999 {
            // every interpreted literal adds a constant to the VM (u16 index): start afresh regularly
            ctx = Context::new_without_importer();
        }
        let (bits, tag) = gen_bits(&mut rng);
        let (sep, threshold, sig) = gen_settings(&mut rng);
        let c = Case { bits, sep, threshold, sig };
        emit(&mut out, &c, &mut ctx, tag);
        if i % 50 == 0 {
            emit_override(&mut out, bits, rng.range(0, 12) as i8);
        }
    }
    out.finish();
}
