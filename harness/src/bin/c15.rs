//! C15 — the echoed (pretty-printed) form of an input means the same as the input.
//!
//! One case = a short session on top of the prelude and a fixed set of definitions (`gen::SETUP`).
//! Every statement of a case is interpreted by the real `Context`; if it is accepted, its echoed text
//! (`Statement::pretty_print`, plain text) is interpreted in a clone of the session state from *before*
//! the statement.  Oracle (implementation only, independent of the Lean model):
//!   accepted · same number/kind of statements · same type · same value bits and same print output when
//!   every numeric literal survives the 6-digit echo · echo of the re-read statement is the same text ·
//!   follow-up probes (the defined name, calls of a defined function, `1 unit`, aliases, prefixes,
//!   struct instantiation) evaluate to the same values in both sessions.
//!
//! Correspondence lines (model = Lean `Model/Printer.lean`):
//!   pp <S-expression of typed expression>        -> text numbat prints for that expression
//!   esc <code points>                            -> code points of escape_numbat_string
//!   unesc <code points of a quoted token>        -> code points of the parser's strip_and_escape
//!   scan <code points of a string body>          -> `fixed n` if the real tokenizer reads `"body"` as exactly one
//!                                                   string token (model: consumeString runs to the closing quote)
//!
//! Replay / corpus line:  `session` TAB field TAB field …, fields `S:<statement>` and `P:<probe of the
//! preceding statement>`; `\\`, `\n`, `\t` are escaped.  `str` TAB <escaped string> replays a string case.

#[path = "c15/gen.rs"]
mod gen;
#[path = "c15/sx.rs"]
mod sx;

use gen::*;
use numbat::module_importer::BuiltinModuleImporter;
use numbat::pretty_print::PrettyPrint;
use numbat::resolver::CodeSource;
use numbat::verif::c15 as hook;
use numbat::{Context, InterpreterResult, InterpreterSettings, NumbatError};
use nvh::*;
use std::sync::{Arc, Mutex};
use sx::Sx;

// ------------------------------------------------------------------------------------------------ running

#[derive(Clone, Debug, Default)]
struct RunOut {
    kinds: Vec<&'static str>,
    echo: Vec<String>,
    types: Vec<String>,
    decos: Vec<Vec<String>>,
    value: Option<String>,
    value_base: Option<String>,
    prints: Vec<String>,
    dumps: Vec<(String, String, String)>,
}

fn err_class(e: &NumbatError) -> String {
    match e {
        NumbatError::ResolverError(_) => "parse".into(),
        NumbatError::NameResolutionError(_) => "name".into(),
        NumbatError::TypeCheckError(_) => "type".into(),
        NumbatError::RuntimeError(_) => "runtime".into(),
    }
}

/// interprets `text` as one input; Err((class, message)) when rejected
fn run_one(ctx: &mut Context, text: &str) -> Result<RunOut, (String, String)> {
    let out = Arc::new(Mutex::new(Vec::<String>::new()));
    let o2 = out.clone();
    let mut settings = InterpreterSettings {
        print_fn: Box::new(move |m| o2.lock().unwrap().push(m.to_string())),
    };
    let r = catch(std::panic::AssertUnwindSafe(|| {
        match ctx.interpret_with_settings(&mut settings, text, CodeSource::Text) {
            Ok((stmts, res)) => {
                let mut ro = RunOut::default();
                for s in &stmts {
                    ro.kinds.push(hook::statement_kind(s));
                    ro.echo.push(s.pretty_print().to_string());
                    ro.types.push(hook::statement_type(s));
                    ro.decos.push(hook::statement_decorators(s));
                    ro.dumps.extend(hook::statement_expr_dump(s));
                }
                if let InterpreterResult::Value(v) = &res {
                    ro.value = Some(hook::value_canon(v));
                    ro.value_base = Some(hook::value_base_canon(v));
                }
                Ok(ro)
            }
            Err(e) => Err((err_class(&e), e.to_string())),
        }
    }));
    match r {
        Ok(Ok(mut ro)) => {
            ro.prints = out.lock().unwrap().clone();
            Ok(ro)
        }
        Ok(Err(e)) => Err(e),
        Err(p) => Err(("panic".into(), p)),
    }
}

#[derive(Clone, Debug)]
struct Failure {
    kind: &'static str,
    what: String,
}

struct Checked {
    /// None: the statement was rejected (no obligation)
    orig: Result<RunOut, (String, String)>,
    after: Option<Context>,
    failure: Option<Failure>,
    value_only_in_base: bool,
    /// echo of the re-read echo (None: the echo was rejected)
    echo2: Option<Vec<String>>,
}

/// (canonical value | prints, value in base units | prints)
fn eval_probe(ctx: &Context, p: &str) -> Result<(String, String), String> {
    let mut c = ctx.clone();
    match run_one(&mut c, p) {
        Ok(ro) => Ok((format!("{}|{}", ro.value.unwrap_or_default(), ro.prints.join("~")), format!("{}|{}", ro.value_base.unwrap_or_default(), ro.prints.join("~")))),
        Err((cl, _)) => Err(cl),
    }
}

/// `forall A: Dim. A × Time` and `forall A: Dim. A` are the same scheme (every dimension): a quantified
/// dimension variable that occurs with exponent 1 in a pure dimension type absorbs the other factors.
fn norm_type(t: &str) -> String {
    if t.contains(" , ") {
        return t.split(" , ").map(norm_type1).collect::<Vec<_>>().join(" , ");
    }
    norm_type1(t)
}

fn norm_type1(t: &str) -> String {
    let mut rest = t;
    let mut vars: Vec<&str> = Vec::new();
    while let Some(r) = rest.strip_prefix("forall ") {
        match r.find(": Dim. ") {
            Some(i) if !r[..i].contains(' ') => {
                vars.push(&r[..i]);
                rest = &r[i + 7..];
            }
            _ => return t.to_string(),
        }
    }
    if !vars.is_empty() && !rest.contains(|c| "[<,:;".contains(c)) && !rest.contains("forall") {
        let toks: Vec<&str> = rest.split(|c| c == ' ' || c == '(' || c == ')').collect();
        for v in &vars {
            // the variable as a bare factor (numerator or denominator, exponent ±1) absorbs all other factors
            if toks.iter().filter(|x| *x == v).count() == 1 && !toks.iter().any(|x| x.starts_with(v) && x.len() > v.len() && !x.chars().nth(v.len()).map(|c| c.is_alphanumeric()).unwrap_or(true)) {
                return "forall A: Dim. A".to_string();
            }
        }
    }
    t.to_string()
}

/// the property, evaluated for one statement in session state `before`
fn check_stmt(before: &Context, text: &str, probes: &[String], exact: bool) -> Checked {
    let mut c1 = before.clone();
    let orig = run_one(&mut c1, text);
    let ro = match &orig {
        Err((cl, msg)) if cl == "panic" => {
            // a panic on the *original* input is not a C15 matter (C08); recorded in the histogram only
            let _ = msg;
            return Checked { orig, after: None, failure: None, value_only_in_base: false, echo2: None };
        }
        Err(_) => return Checked { orig, after: None, failure: None, value_only_in_base: false, echo2: None },
        Ok(ro) => ro.clone(),
    };
    if ro.echo.is_empty() {
        return Checked { orig, after: Some(c1), failure: None, value_only_in_base: false, echo2: None };
    }
    let echo = ro.echo.join("\n");
    let mut c2 = before.clone();
    let mut only_base = false;
    let mut echo2 = None;
    let failure = match run_one(&mut c2, &echo) {
        Err((cl, msg)) => Some(Failure {
            kind: if cl == "panic" { "panic" } else { "rejected" },
            what: format!("echo `{}` is not accepted in the same session state ({} error: {})", echo, cl, msg.lines().next().unwrap_or("")),
        }),
        Ok(r2) => {
            echo2 = Some(r2.echo.clone());
            if r2.kinds != ro.kinds {
                Some(Failure { kind: "kind", what: format!("echo `{}` is read as {:?}, the input was {:?}", echo, r2.kinds, ro.kinds) })
            } else if r2.types.iter().map(|t| norm_type(t)).collect::<Vec<_>>() != ro.types.iter().map(|t| norm_type(t)).collect::<Vec<_>>() {
                Some(Failure { kind: "type", what: format!("echo `{}` has type {:?}, the input had {:?}", echo, r2.types, ro.types) })
            } else if r2.value.is_some() != ro.value.is_some() {
                Some(Failure { kind: "value", what: format!("echo `{}` yields {:?}, the input yielded {:?}", echo, r2.value, ro.value) })
            } else if exact && r2.value != ro.value {
                // `value-ulp`: same value in base units up to 4 ulp (display unit or last bits differ) — the only
                // differences a regrouped `+`/`×` chain may cause; anything else is `value`
                let close = ulp_close(r2.value.as_deref().unwrap_or(""), ro.value.as_deref().unwrap_or("")) || ulp_close(r2.value_base.as_deref().unwrap_or(""), ro.value_base.as_deref().unwrap_or(""));
                Some(Failure { kind: if close { "value-ulp" } else { "value" }, what: format!("echo `{}` evaluates to {:?}, the input to {:?}", echo, r2.value, ro.value) })
            } else if exact && r2.prints != ro.prints {
                // `print`: only the formatted output of print/type differs (the values are not observable here)
                Some(Failure { kind: "print", what: format!("echo `{}` prints {:?}, the input printed {:?}", echo, r2.prints, ro.prints) })
            } else if r2.decos != ro.decos && ro.kinds.iter().any(|k| k.ends_with("unit")) {
                Some(Failure { kind: "value", what: format!("echo `{}` carries decorators {:?}, the input {:?}", echo, r2.decos, ro.decos) })
            } else if r2.echo != ro.echo && !exact {
                Some(Failure { kind: "text", what: format!("echo `{}` is itself echoed as `{}`", echo, r2.echo.join("\n")) })
            } else {
                if exact && r2.value != ro.value {
                    only_base = true;
                }
                let mut f = None;
                for p in probes {
                    let a = eval_probe(&c1, p);
                    let b = eval_probe(&c2, p);
                    let same = if exact {
                        match (&a, &b) {
                            (Ok(x), Ok(y)) => x.0 == y.0,
                            (Err(x), Err(y)) => x == y,
                            _ => false,
                        }
                    } else {
                        a.is_ok() == b.is_ok()
                    };
                    if !same {
                        let close = match (&a, &b) { (Ok(x), Ok(y)) => ulp_close(&x.0, &y.0) || ulp_close(&x.1, &y.1), _ => false };
                        f = Some(Failure { kind: if close { "value-ulp" } else { "value" }, what: format!("after the echo `{}`, `{}` gives {:?}; after the input it gave {:?}", echo, p, b, a) });
                        break;
                    }
                }
                if f.is_none() && r2.echo != ro.echo {
                    f = Some(Failure { kind: "text", what: format!("echo `{}` is itself echoed as `{}`", echo, r2.echo.join("\n")) });
                }
                f
            }
        }
    };
    Checked { orig, after: Some(c1), failure, value_only_in_base: only_base, echo2 }
}

// ------------------------------------------------------------------------------------------------ classification

const SUGAR_FROM: &[&str] = &["from_celsius", "from_fahrenheit"];
const SUGAR_TO: &[&str] = &["°C", "celsius", "degree_celsius", "°F", "fahrenheit", "degree_fahrenheit"];

fn is_sugar_from(n: &Sx) -> bool {
    n.head() == "call" && n.items().len() == 3 && SUGAR_FROM.contains(&sx::uncps(n.atom(1)).as_str())
}
fn is_sugar_to(n: &Sx) -> bool {
    (n.head() == "call" && n.items().len() == 3 && SUGAR_TO.contains(&sx::uncps(n.atom(1)).as_str()))
        || (n.head() == "ccall" && n.items().len() == 3 && n.items()[1].head() == "id" && SUGAR_TO.contains(&sx::uncps(n.items()[1].atom(1)).as_str()))
}

/// Shapes of the typed tree for which the printer is known to produce text that reads back differently
/// (each one is a finding of this check, listed in known_findings.json).  Returned sorted.
fn known_shapes(n: &Sx, role: &str, parent: &str, out: &mut Vec<String>) {
    let lab = n.label();
    let compound_parent = !matches!(parent, "" | "call" | "ccall-arg" | "list" | "mk" | "str");
    // `x -> °C` sugar printed without parentheses where an operand is expected
    if is_sugar_to(n) && compound_parent && !(parent == "bin.conv" && role == "lhs") {
        out.push("sugar-to-as-operand".into());
    }
    // `x °C` sugar as the base of a power / factorial
    if is_sugar_from(n) && ((parent == "bin.pow" && role == "lhs") || parent == "fact") {
        out.push("sugar-from-as-power-base".into());
    }
    if n.head() == "ccall" {
        let c = &n.items()[1];
        if !matches!(c.head(), "id" | "call" | "ccall" | "get" | "unit" | "mk" | "list" | "str" | "num" | "bool") {
            out.push("callable-compound-callee".into());
        }
    }
    if n.head() == "get" {
        let c = &n.items()[1];
        if !matches!(c.head(), "id" | "call" | "ccall" | "get" | "unit" | "mk" | "list" | "str" | "num" | "bool") {
            out.push("field-of-compound".into());
        }
    }
    if lab == "bin.pow" {
        let r = &n.items()[3];
        if r.head() == "num" && u64::from_str_radix(r.atom(1), 16).map(|b| b >> 63 == 1).unwrap_or(false) {
            out.push("pow-negative-literal-exponent".into());
        }
        fn inexact(n: &Sx) -> bool {
            if n.head() == "num" {
                let txt: String = sx::uncps(n.atom(2)).replace('_', "");
                let bits = u64::from_str_radix(n.atom(1), 16).unwrap_or(0);
                return txt.parse::<f64>().map(|v| v.to_bits() != bits && !(v.is_nan() && f64::from_bits(bits).is_nan())).unwrap_or(false);
            }
            n.children().iter().any(|(_, c)| inexact(c))
        }
        if inexact(r) {
            out.push("pow-inexact-literal-exponent".into());
        }
    }
    if n.head() == "neg" && is_sugar_from(&n.items()[1]) {
        out.push("negated-sugar-from".into());
    }
    if n.head() == "num" {
        let txt: String = sx::uncps(n.atom(2)).replace('_', "");
        let bits = u64::from_str_radix(n.atom(1), 16).unwrap_or(0);
        if txt.parse::<f64>().map(|v| v.to_bits() != bits && !(v.is_nan() && f64::from_bits(bits).is_nan())).unwrap_or(false) {
            out.push("literal-not-exact".into());
        }
    }
    if lab == "bin.mul" && n.items()[3].label() == "bin.mul" {
        out.push("mul-chain-regrouped".into());
    }
    if lab == "bin.add" && n.items()[3].label() == "bin.add" {
        out.push("add-chain-regrouped".into());
    }
    if lab == "bind.add" && n.items()[3].label() == "bin.add" {
        out.push("date-add-chain".into());
    }
    if lab == "bin.conv" {
        let r = &n.items()[3];
        if r.head() == "if" {
            out.push("conv-rhs-conditional".into());
        }
        // `a ➞ ((if …) ➞ c)`: the chain is re-read left-nested, which makes the conditional a right operand
        let mut first = r;
        let mut chain = false;
        while first.label() == "bin.conv" {
            first = &first.items()[2];
            chain = true;
        }
        if chain {
            out.push("conv-chain-regrouped".into());
        }
        if chain && first.head() == "if" {
            out.push("conv-chain-conditional".into());
        }
    }
    let my = match n.head() {
        "ccall" => "ccall",
        _ => "",
    };
    let sugar = is_sugar_from(n) || is_sugar_to(n);
    for (r, c) in n.children() {
        // the argument of a sugar call is printed as an operand (`arg °C`, `arg -> °C`)
        let p = if sugar { "sugar".to_string() } else if my == "ccall" && r == "arg" { "ccall-arg".to_string() } else { lab.clone() };
        known_shapes(c, r, &p, out);
    }
}

fn classify(src: &str, ro: &RunOut, f: &Failure) -> String {
    let mut shapes: Vec<String> = Vec::new();
    for (_, sxp, _) in &ro.dumps {
        if let Some(t) = sx::parse(sxp) {
            known_shapes(&t, "", "", &mut shapes);
        }
    }
    let echo = ro.echo.join("\n");
    for (k, e) in ro.kinds.iter().zip(ro.echo.iter()) {
        // the readable type in `let x: T = …`, `unit u: T = …`, `fn f(p: T) -> T`
        let head = e.split(" = ").next().unwrap_or("");
        if matches!(*k, "let" | "derived-unit" | "fn") && (head.contains(" or ") || e.lines().skip(1).any(|l| l.split(" = ").next().unwrap_or("").contains(" or "))) {
            shapes.push("readable-type-alternatives".into());
        }
        if matches!(*k, "let" | "derived-unit" | "fn") && (e.lines().any(|l| l.split(" = ").next().unwrap_or("").contains(|c| "²³⁻¹⁴⁵⁶⁷⁸⁹".contains(c)) && (l.split(" = ").next().unwrap_or("").contains(':') || l.split(" = ").next().unwrap_or("").contains("->")))) {
            // an inferred type is printed with unicode exponents, the annotation it becomes with `^n`
            shapes.push("inferred-type-unicode-exponent".into());
        }
        if *k == "let" && head.contains("forall ") {
            shapes.push("readable-type-forall".into());
        }
    }
    let _ = echo;
    let src_t = src.trim_start();
    // strip decorators
    let src_t = src_t.lines().filter(|l| !l.trim_start().starts_with('@')).collect::<Vec<_>>().join("\n");
    if ro.kinds == ["struct"] && src_t.find('<').map(|i| i < src_t.find('{').unwrap_or(0)).unwrap_or(false) {
        shapes.push("generic-struct-definition".into());
    }
    if ro.kinds == ["base-unit"] && !src_t.contains(':') {
        shapes.push("base-unit-implicit-dimension".into());
    }
    if ro.kinds == ["fn"] {
        // `fn f<D: Dim>(x: D) = NaN x`: a polymorphic literal adds a quantified variable; the echo then renames the
        // type parameters (A, B) but prints the parameter annotations with the user's names
        let tp = |t: &str| -> Option<String> {
            let head = t.split('(').next().unwrap_or("");
            head.find('<').map(|i| head[i..].to_string())
        };
        if let (Some(a), Some(b)) = (tp(&src_t), tp(&ro.echo[0])) {
            if a.replace(' ', "") != b.replace(' ', "") {
                shapes.push("fn-type-parameters-renamed".into());
            }
        }
    }
    if ro.kinds == ["fn"] && ro.types.iter().any(|t| t.contains("; where") && t.split("; where").skip(1).any(|w| w.contains("forall "))) {
        shapes.push("generic-fn-where-type".into());
    }
    for (k, e) in ro.kinds.iter().zip(ro.echo.iter()) {
        let head = if *k == "dimension" || *k == "base-unit" || *k == "struct" { e.as_str() } else { e.split(" = ").next().unwrap_or("") };
        let b = head.as_bytes();
        for i in 0..b.len() {
            if b[i] == b'^' && i + 3 < b.len() + 1 && b.get(i + 1).map(|c| c.is_ascii_digit() || *c == b'(').unwrap_or(false) {
                let rest = head[i + 1..].trim_start_matches('(');
                let digits = rest.chars().take_while(|c| c.is_ascii_digit()).count();
                if rest[digits..].starts_with('/') {
                    shapes.push("annotation-rational-exponent".into());
                }
            }
        }
    }
    shapes.sort();
    shapes.dedup();
    // a shape explains a failure only if it can cause that kind of failure
    let can_cause = |shape: &str, kind: &str| -> bool {
        match shape {
            "sugar-to-as-operand" => matches!(kind, "rejected" | "text" | "type" | "value" | "value-ulp"),
            "callable-compound-callee" | "field-of-compound" => matches!(kind, "rejected" | "type" | "value"),
            "generic-fn-where-type" => matches!(kind, "rejected" | "type"),
            "pow-negative-literal-exponent" | "conv-chain-conditional" => kind == "text",
            // `dt0 + (t1 + abs(t1))` → `dt0 + t1 + abs(t1)`: re-read left-nested, `(dt0 + t1) + abs(t1)` is rejected
            // (the checker needs the right operand of DateTime + … to be known as Time)
            "date-add-chain" => matches!(kind, "text" | "rejected" | "type"),
            // `fn h1() = 0**10` → `-> A¹⁰`: the tokenizer has no superscript zero
            "inferred-type-unicode-exponent" => matches!(kind, "text" | "rejected"),
            // `"{1.0000001:05}"` → `"{1.0:05}"`: the re-read value is integral and takes another formatting path
            "literal-not-exact" => matches!(kind, "text" | "rejected"),
            "negated-sugar-from" => matches!(kind, "value" | "text"),
            "annotation-rational-exponent" => matches!(kind, "rejected" | "text"),
            "mul-chain-regrouped" => matches!(kind, "text" | "value-ulp" | "print"),
            "add-chain-regrouped" => matches!(kind, "value-ulp" | "print"),
            // `a ➞ (b ➞ c)` with a non-unit target: `len1 -> (len1 -> len1)` shows `1 × 1 × 4 m`, the re-read echo `1 × 4 m`
            "conv-chain-regrouped" => matches!(kind, "value-ulp" | "value" | "print"),
            "pow-inexact-literal-exponent" => kind == "type",
            _ => kind == "rejected",
        }
    };
    // a difference in print output is a value difference seen through `print`
    let shapes: Vec<String> = shapes.into_iter().filter(|s| can_cause(s, f.kind) || (f.kind == "print" && can_cause(s, "value"))).collect();
    if shapes.is_empty() {
        format!("{}|unclassified", f.kind)
    } else {
        format!("{}|{}", f.kind, shapes.join("+"))
    }
}

/// canonical value texts that differ only by rounding-sized amounts in their numbers (what regrouping a
/// flattened `+`/`×`/`➞` chain can cause in floating point)
fn ulp_close(a: &str, b: &str) -> bool {
    let pa: Vec<&str> = a.split("q:").collect();
    let pb: Vec<&str> = b.split("q:").collect();
    if pa.len() != pb.len() || pa[0] != pb[0] {
        return false;
    }
    for (x, y) in pa[1..].iter().zip(pb[1..].iter()) {
        if x.len() < 16 || y.len() < 16 || !x.is_char_boundary(16) || !y.is_char_boundary(16) || x[16..] != y[16..] {
            return false;
        }
        let (hx, hy) = (u64::from_str_radix(&x[..16], 16), u64::from_str_radix(&y[..16], 16));
        match (hx, hy) {
            (Ok(hx), Ok(hy)) => {
                // rounding-sized difference: a few ulp, or (cancellation inside a regrouped sum) a relative
                // difference below 1e-9 / an absolute one below 1e-12
                let (a, b) = (f64::from_bits(hx), f64::from_bits(hy));
                let d = (a - b).abs();
                if !(hx.abs_diff(hy) <= 4 || d <= 1e-9 * a.abs().max(b.abs()) || d <= 1e-12) {
                    return false;
                }
            }
            _ => return false,
        }
    }
    true
}

// ------------------------------------------------------------------------------------------------ replay encoding

fn esc_field(s: &str) -> String {
    s.replace('\\', "\\\\").replace('\n', "\\n").replace('\t', "\\t").replace('\r', "\\r")
}
fn unesc_field(s: &str) -> String {
    let mut o = String::new();
    let mut it = s.chars();
    while let Some(c) = it.next() {
        if c == '\\' {
            match it.next() {
                Some('n') => o.push('\n'),
                Some('t') => o.push('\t'),
                Some('r') => o.push('\r'),
                Some('\\') => o.push('\\'),
                Some(x) => {
                    o.push('\\');
                    o.push(x)
                }
                None => o.push('\\'),
            }
        } else {
            o.push(c);
        }
    }
    o
}

fn session_line(stmts: &[Stmt]) -> String {
    let mut f = vec!["session".to_string()];
    for s in stmts {
        f.push(format!("S:{}", esc_field(&s.render())));
        for p in &s.probes {
            f.push(format!("P:{}", esc_field(p)));
        }
    }
    f.join("\t")
}

fn parse_session_line(l: &str) -> Option<Vec<Stmt>> {
    let mut it = l.split('\t');
    if it.next()? != "session" {
        return None;
    }
    let mut out: Vec<Stmt> = Vec::new();
    for f in it {
        if let Some(s) = f.strip_prefix("S:") {
            out.push(Stmt::raw(&unesc_field(s)));
        } else if let Some(p) = f.strip_prefix("P:") {
            if let Some(last) = out.last_mut() {
                last.probes.push(unesc_field(p));
            }
        }
    }
    Some(out)
}

// ------------------------------------------------------------------------------------------------ cases

struct Harness {
    base: Context,
    out: Out,
}

/// constructors the reference parser of the Lean model reads
fn in_parser_fragment(sxp: &str) -> bool {
    fn ok(n: &Sx) -> bool {
        if n.head() == "num" {
            // number formatting is not modelled: only literals whose printed text reads back as the same value
            let txt: String = sx::uncps(n.atom(2)).replace('_', "");
            let bits = u64::from_str_radix(n.atom(1), 16).unwrap_or(0);
            return txt.parse::<f64>().map(|v| v.to_bits() == bits).unwrap_or(false);
        }
        matches!(n.head(), "id" | "unit" | "neg" | "fact" | "not" | "bool" | "if" | "bin") && n.children().iter().all(|(_, c)| ok(c))
    }
    sx::parse(sxp).map(|t| ok(&t)).unwrap_or(false)
}

fn tree_stats(out: &mut Out, ro: &RunOut) {
    fn walk(out: &mut Out, n: &Sx, parent: &str, role: &str) {
        let lab = n.label();
        out.count(&format!("node_{}", lab));
        if !parent.is_empty() && !n.children().is_empty() {
            // a compound child under a compound parent: a parenthesisation decision of the printer
            out.count(&format!("paren_{}<{}:{}", parent, role, lab));
        }
        for (r, c) in n.children() {
            walk(out, c, &lab, r);
        }
    }
    for (role, s, _) in &ro.dumps {
        if let Some(t) = sx::parse(s) {
            out.count(&format!("exprpos_{}", role.split(':').next().unwrap()));
            let sz = t.size();
            out.count(&format!("exprsize_{}", if sz <= 1 { "1" } else if sz <= 3 { "2-3" } else if sz <= 7 { "4-7" } else if sz <= 15 { "8-15" } else { "16+" }));
            walk(out, &t, "", "");
        }
    }
}

impl Harness {
    /// shrink a failing statement (session state `before` fixed); returns the minimal statement, its run and failure
    fn shrink(&self, before: &Context, st: &Stmt, f: &Failure) -> (Stmt, RunOut, Failure) {
        let mut cur = st.clone();
        let mut cur_f = f.clone();
        let mut budget = 400usize;
        loop {
            let mut progressed = false;
            for cand in cur.variants() {
                if budget == 0 {
                    break;
                }
                budget -= 1;
                let ch = check_stmt(before, &cand.render(), &cand.probes, cand.exact());
                if let Some(f2) = ch.failure {
                    if f2.kind == cur_f.kind {
                        cur = cand;
                        cur_f = f2;
                        progressed = true;
                        break;
                    }
                }
            }
            if !progressed || budget == 0 {
                break;
            }
        }
        let ch = check_stmt(before, &cur.render(), &cur.probes, cur.exact());
        let ro = ch.orig.ok().unwrap_or_default();
        (cur, ro, cur_f)
    }

    fn run_case(&mut self, stmts: &[Stmt], generated: bool) {
        let mut ctx = self.base.clone();
        let mut accepted_prefix: Vec<Stmt> = Vec::new();
        let mut canon = String::new();
        let mut nontrivial = false;
        for st in stmts {
            let text = st.render();
            let exact = st.exact();
            let ch = check_stmt(&ctx, &text, &st.probes, exact);
            match &ch.orig {
                Err((cl, _)) => {
                    self.out.count(&format!("input_rejected_{}", cl));
                    continue;
                }
                Ok(ro) => {
                    self.out.count("input_accepted");
                    for k in &ro.kinds {
                        self.out.count(&format!("stmt_{}", k));
                    }
                    self.out.count(if exact { "literals_exact" } else { "literals_inexact" });
                    if ch.value_only_in_base {
                        self.out.count("value_equal_only_in_base_units");
                    }
                    tree_stats(&mut self.out, ro);
                    // reference parser of the model vs the real parser: what does the echo read back as?
                    if ro.kinds == ["expression"] && ro.dumps.len() == 1 && in_parser_fragment(&ro.dumps[0].1) {
                        let ans = match &ch.echo2 {
                            Some(e2) => e2.join("\n"),
                            None => "reject".to_string(),
                        };
                        self.out.line(&format!("reparse {}", ro.dumps[0].1), &ans);
                        self.out.count("reparse_lines");
                    }
                    for (_, sxp, txt) in &ro.dumps {
                        self.out.line(&format!("pp {}", sxp), txt);
                        if sx::parse(sxp).map(|t| t.size() >= 3).unwrap_or(false) {
                            nontrivial = true;
                        }
                    }
                    if ro.dumps.is_empty() {
                        nontrivial = true;
                    }
                    canon.push_str(&ro.echo.join("\n"));
                    canon.push('\n');
                    if let Some(f) = &ch.failure {
                        let (small, sro, sf) = if matches!(st.s, S::Raw(_)) { (st.clone(), ro.clone(), f.clone()) } else { self.shrink(&ctx, st, f) };
                        let key = classify(&small.render(), &sro, &sf);
                        self.out.count(&format!("oracle_{}", key));
                        let mut sess = accepted_prefix.clone();
                        sess.push(small.clone());
                        // only definitions the failing statement could depend on matter; keep the replay short
                        let needed = shrink_seq(&sess, |c| {
                            if c.is_empty() || c.last() != Some(&small) {
                                return false;
                            }
                            let mut cx = self.base.clone();
                            for s in &c[..c.len() - 1] {
                                let _ = run_one(&mut cx, &s.render());
                            }
                            check_stmt(&cx, &small.render(), &small.probes, small.exact()).failure.map(|x| x.kind == sf.kind).unwrap_or(false)
                        });
                        let sess = if needed.last() == Some(&small) { needed } else { sess };
                        self.out.oracle_fail(&format!("{}|{}", key, small.render()), &session_line(&sess), &format!("input `{}`: {}", small.render(), sf.what));
                    }
                }
            }
            if let Some(c) = ch.after {
                ctx = c;
                accepted_prefix.push(Stmt { s: S::Raw(text), probes: vec![] });
            }
        }
        if generated || !canon.is_empty() {
            self.out.case(&canon, nontrivial);
        }
    }

    /// string cases: escape/unescape correspondence lines and the round trip through the real tokenizer
    fn string_case(&mut self, s: &str) {
        let escaped = hook::escape_numbat_string(s);
        self.out.line(&format!("esc {}", hook::cps(s)), &hook::cps(&escaped));
        let quoted = format!("\"{}\"", s);
        match hook::strip_and_escape(&quoted) {
            Some(u) => self.out.line(&format!("unesc {}", hook::cps(&quoted)), &hook::cps(&u)),
            None => self.out.line(&format!("unesc {}", hook::cps(&quoted)), "guard"),
        }
        // does the real tokenizer read `"<body>"` as exactly one string token?  (model: consumeString reaches the end)
        for body in [escaped.as_str(), s] {
            let code = format!("\"{}\"", body);
            let whole = match numbat::verif::c10::tokens(&code) {
                Ok(ts) => ts.len() == 2 && ts[0].0 == "StringFixed" && ts[0].1 == code,
                Err(_) => false,
            };
            let n = body.chars().count();
            self.out.line(&format!("scan {}", hook::cps(body)), &if whole { format!("fixed {}", n) } else { "other".to_string() });
            self.out.count(if whole { "scan_whole_token" } else { "scan_other" });
        }
        // oracle: the literal "<escaped s>" evaluates to the string s, and its echo is the same literal
        self.out.count("string_cases");
        if let Some((kind, _)) = self.string_oracle(s) {
            // shrink to a minimal failing string of the same kind
            let chars: Vec<char> = s.chars().collect();
            let small: String = shrink_seq(&chars, |c| {
                let t: String = c.iter().collect();
                self.string_oracle(&t).map(|(k, _)| k == kind).unwrap_or(false)
            })
            .into_iter()
            .collect();
            let what = self.string_oracle(&small).map(|(_, w)| w).unwrap_or_default();
            self.out.oracle_fail(&format!("{}|{}", kind, esc_field(&small)), &format!("str\t{}", esc_field(&small)), &what);
        }
        self.out.case(&format!("str {}", hook::cps(s)), s.chars().any(|c| "\\\"{}\n\r\t\0".contains(c)));
    }

    /// Some((kind, description)) if the literal of `s` does not round-trip
    fn string_oracle(&self, s: &str) -> Option<(&'static str, String)> {
        let lit = format!("\"{}\"", hook::escape_numbat_string(s));
        let mut c = self.base.clone();
        let want = format!("s:{}", hook::cps(s));
        match run_one(&mut c, &lit) {
            Ok(ro) => {
                if ro.value.as_deref() != Some(&want) {
                    Some(("string-roundtrip", format!("literal {} evaluates to {:?}, expected the string with code points {}", lit, ro.value, hook::cps(s))))
                } else if ro.echo.join("\n") != lit && !s.is_empty() {
                    Some(("string-echo", format!("literal {} is echoed as {}", lit, ro.echo.join("\n"))))
                } else {
                    None
                }
            }
            Err((cl, msg)) => Some(("string-rejected", format!("literal {} is rejected ({}: {})", lit, cl, msg.lines().next().unwrap_or("")))),
        }
    }

    fn replay_line(&mut self, l: &str) {
        if l.starts_with('#') || l.trim().is_empty() {
            return;
        }
        if let Some(stmts) = parse_session_line(l) {
            self.run_case(&stmts, false);
        } else if let Some(s) = l.strip_prefix("str\t") {
            self.string_case(&unesc_field(s));
        }
    }
}

fn random_string(rng: &mut Rng) -> String {
    const ALPHA: &[char] = &['\\', '\\', '{', '}', '"', 'n', 'r', 't', '0', 'a', '\n', '\r', '\t', '\0', 'é', ' ', '→', ':', '{', '}', '\\', '"', 'x', '😀'];
    let n = rng.below(9);
    (0..n).map(|_| *rng.pick(ALPHA)).collect()
}

fn main() {
    let args = Args::parse();
    let mut out = Out::new(&args);
    out.rule = "sessions of 1-4 type-directed statements (expressions over units/prefixes/variables of 10 types, let with annotations/decorators, functions with generic or annotated or inferred signatures and where-clauses, base/derived units with all decorators, dimensions, structs incl. generic, print/assert/assert_eq/type) on top of the prelude + 22 fixed definitions, each accepted statement echoed and re-read in a clone of the state before it; plus random strings over an alphabet of escape-relevant characters through escape_numbat_string / strip_and_escape / the real tokenizer. distinct = distinct echoed text of the session; non-trivial = some printed expression has at least 3 nodes (or the statement has no expression: dimension/struct/base unit)".into();

    let mut base = Context::new(BuiltinModuleImporter::default());
    let _ = base.interpret("use prelude", CodeSource::Internal).expect("prelude");
    for s in SETUP {
        if let Err(e) = base.interpret(s, CodeSource::Internal) {
            panic!("setup statement `{}` rejected: {}", s, e);
        }
    }
    let mut h = Harness { base, out };

    if let Some(p) = &args.replay {
        for l in read_lines(p) {
            h.replay_line(&l);
        }
        h.out.finish();
        return;
    }

    if let Some(dir) = args.extra.get("corpus") {
        let mut files: Vec<_> = std::fs::read_dir(dir).map(|d| d.filter_map(|e| e.ok()).map(|e| e.path()).collect()).unwrap_or_default();
        files.sort();
        for f in files {
            for l in read_lines(&f) {
                h.replay_line(&l);
                h.out.count("corpus_lines");
            }
        }
    }

    let mut rng = Rng::new(args.seed);
    let n = args.count(1000, 20000);
    for i in 0..n {
        let mut crng = rng.fork(i as u64);
        let depth = 1 + (i % 4);
        let mut g = Gen { rng: &mut crng, env: Env::new(), inexact_pct: if i % 5 == 0 { 15 } else { 0 } };
        let k = 1 + g.rng.below(4);
        let stmts: Vec<Stmt> = (0..k).map(|_| g.stmt(depth)).collect();
        h.run_case(&stmts, true);
    }
    let ns = args.count(1500, 40000);
    for _ in 0..ns {
        let s = random_string(&mut rng);
        h.string_case(&s);
    }
    h.out.finish();
}
