//! C05 — automatic unit simplification never changes the quantity.
//!
//! Stream 1 (hook): `simplify` (Quantity::full_simplify) and `simplify_reg` (the registry-based
//! simplification the interpreter applies to displayed results) on random products / quotients / powers of
//! prelude units with prefixes, dimensionless combinations, percent-like units, units with equal base
//! representation and user-defined units whose definitions are permutations of each other.
//! Stream 2 (interpreter): `let r = <expr>` (raw) vs the displayed value of `<expr>` and of `<expr> -> U`.
//! Oracle: dimension and physical magnitude preserved; no simplification of explicitly converted values;
//! converting the simplified value back to the raw unit gives the raw magnitude.

use numbat::resolver::CodeSource;
use numbat::verif::c03::{describe_value, show_quantity, show_unit, FactorDesc, QDesc};
use nvh::qty::*;
use nvh::*;

const USER_UNITS: &str = "unit vaa = m/s^2\nunit vbb = s^(-2)*m\nunit vcc = kg m^2/s^2\nunit vdd = s^(-2) kg m^2\n@metric_prefixes\n@aliases(vee: short)\nunit veeunit = 3 vaa\nunit vff = 0.01\nunit vgg = m/m";

fn case_text(q: &QDesc) -> String {
    format!("simp {}", q_text(q))
}

fn parse_case(line: &str) -> Option<QDesc> {
    let w: Vec<&str> = line.split(' ').collect();
    if w.len() != 3 || w[0] != "simp" {
        return None;
    }
    let (bits, nosimp) = match w[1].strip_suffix('n') { Some(b) => (b, true), None => (w[1], false) };
    let mut q = q(u64::from_str_radix(bits, 16).ok()?, parse_unit(w[2])?);
    q.can_simplify = !nosimp;
    Some(q)
}

fn hook(ctx: &numbat::Context, out: &mut Out, name: &str, a: &QDesc, b: Option<&QDesc>) -> String {
    let ans = match catch(std::panic::AssertUnwindSafe(|| ctx.verif_quantity_op(name, a, b))) {
        Ok(s) => canon_nan(&s),
        Err(p) => format!("panic {}", p),
    };
    let req = match b {
        Some(b) => format!("{} {} {}", name, q_text(a), q_text(b)),
        None => format!("{} {}", name, q_text(a)),
    };
    out.line(&req, &ans);
    ans
}

fn check_preserved(units: &Units, out: &mut Out, key: &str, input: &str, raw: &QDesc, simplified: &QDesc, what: &str) {
    let v = f64::from_bits(raw.bits);
    let s = f64::from_bits(simplified.bits);
    let (fr, fs) = (units.oracle_factor(&raw.factors), units.oracle_factor(&simplified.factors));
    if v != 0.0 && !v.is_nan() && units.oracle_dimension(&raw.factors) != units.oracle_dimension(&simplified.factors) {
        out.oracle_fail(key, input, &format!("{}: dimension changed: {} -> {}", what, show_unit(&raw.factors), show_unit(&simplified.factors)));
        return;
    }
    let (pr, ps) = (v * fr, s * fs);
    // dynamic range used by the factors: beyond ~1e100 numbat's intermediate conversion factors (e.g. the
    // merged power of a Planck unit) leave the normal f64 range, which is precision loss, not a wrong result
    let range: f64 = raw.factors.iter().chain(simplified.factors.iter()).map(|f| {
        let one = units.oracle_factor(&[FactorDesc { num: 1, den: 1, ..f.clone() }]);
        (one.abs().log10() * (f.num as f64 / f.den as f64)).abs()
    }).sum::<f64>() + v.abs().max(1e-300).log10().abs();
    if range > 100.0 {
        out.count("magnitude_skipped_dynamic_range");
        return;
    }
    if pr.is_finite() && ps.is_finite() && fr.is_finite() && fs.is_finite() && pr.abs() < 1e280 && (pr == 0.0 || pr.abs() > 1e-280) {
        out.count("magnitude_checked");
        let n = (raw.factors.len() + simplified.factors.len() + 2) as f64;
        if (pr - ps).abs() > 64.0 * n * f64::EPSILON * pr.abs() {
            out.oracle_fail(key, input, &format!("{}: magnitude changed: {:e} -> {:e} in base units ({} -> {})", what, pr, ps, show_quantity(raw), show_quantity(simplified)));
        }
    } else {
        out.count("magnitude_skipped_extreme");
    }
}

fn to_q(ans: &str) -> Option<QDesc> {
    let (v, u) = parse_answer(ans)?;
    let mut r = q(v.to_bits(), parse_unit(&u)?);
    r.can_simplify = ans.split(' ').nth(3) == Some("s");
    Some(r)
}

fn run_case(ctx: &numbat::Context, units: &Units, out: &mut Out, raw: &QDesc) {
    let text = case_text(raw);
    let key = format!("simplify:{}", text);
    out.case(&text, raw.factors.len() >= 2);
    out.count(&format!("factors_{}", raw.factors.len().min(6)));
    for opname in ["simplify", "simplify_reg"] {
        let ans = hook(ctx, out, opname, raw, None);
        if ans.starts_with("panic") {
            out.oracle_fail(&key, &text, &format!("{}: {}", opname, ans));
            continue;
        }
        let Some(sq) = to_q(&ans) else { continue };
        if show_unit(&sq.factors) != show_unit(&raw.factors) {
            out.count(&format!("{}_changed_unit", opname));
        }
        if opname == "simplify_reg" {
            let plain = ctx.verif_quantity_op("simplify", raw, None);
            if canon_nan(&plain) != ans {
                out.count("registry_made_a_difference");
            }
        }
        if !raw.can_simplify {
            // the user chose the unit: nothing may change
            if sq.bits != raw.bits || show_unit(&sq.factors) != show_unit(&raw.factors) {
                out.oracle_fail(&key, &text, &format!("{} changed a value whose unit was chosen explicitly: {}", opname, ans));
            }
            continue;
        }
        check_preserved(units, out, &key, &text, raw, &sq, opname);
        // converting the simplified result back to the raw unit gives the raw magnitude
        let back = hook(ctx, out, "convert", &sq, Some(&q(0x3ff0000000000000, raw.factors.clone())));
        if let Some(bq) = to_q(&back) {
            let (v, b) = (f64::from_bits(raw.bits), f64::from_bits(bq.bits));
            let range: f64 = raw.factors.iter().chain(sq.factors.iter()).map(|f| {
                let one = units.oracle_factor(&[FactorDesc { num: 1, den: 1, ..f.clone() }]);
                (one.abs().log10() * (f.num as f64 / f.den as f64)).abs()
            }).sum::<f64>() + v.abs().max(1e-300).log10().abs();
            if range <= 100.0 && v.is_finite() && b.is_finite() && v.abs() < 1e280 && (v == 0.0 || v.abs() > 1e-280) {
                let n = (raw.factors.len() + sq.factors.len() + 2) as f64;
                if (v - b).abs() > 128.0 * n * f64::EPSILON * v.abs() {
                    out.oracle_fail(&key, &text, &format!("{}: converting back gives {:e}, raw magnitude {:e}", opname, b, v));
                }
                out.count("roundtrip_checked");
            }
        } else if f64::from_bits(raw.bits) != 0.0 && !f64::from_bits(raw.bits).is_nan() {
            out.oracle_fail(&key, &text, &format!("{}: simplified value {} cannot be converted back: {}", opname, ans, back));
        }
    }
}

fn random_compound(units: &Units, rng: &mut Rng, all: &[usize]) -> Vec<FactorDesc> {
    let k = 1 + rng.below(5);
    let mut v = Vec::new();
    let exps: &[(i128, i128)] = &[(1, 1), (1, 1), (1, 1), (-1, 1), (-1, 1), (2, 1), (-2, 1), (3, 1), (1, 2), (-1, 2)];
    for _ in 0..k {
        let i = if !v.is_empty() && rng.chance(1, 3) {
            // a unit related to one already present: same dimension, so that grouping / cancellation happens
            let f: &FactorDesc = rng.pick(&v);
            let d = &units.dim_of[units.index[&f.unit]];
            *rng.pick(&units.by_dim[d])
        } else {
            *rng.pick(all)
        };
        let ps = units.prefixes(i);
        let p = if rng.chance(1, 2) { (false, 0) } else { *rng.pick(&ps) };
        let e = *rng.pick(exps);
        v.push(units.factor(i, p, e.0, e.1));
    }
    v
}

fn main() {
    let args = Args::parse();
    let mut out = Out::new(&args);
    out.rule = "products/quotients/powers (1-5 factors, exponents in {+-1,+-2,3,+-1/2}) of prelude units with random accepted prefixes, with a bias towards repeating a dimension (units with equal base representation, dimensionless combinations, percent-like units) and towards the user-defined units vaa=m/s^2, vbb=s^-2*m, vcc, vdd (permuted definitions), vff=0.01, vgg=m/m; both can_simplify flags; simplify and simplify_reg through the hook, plus expressions through the interpreter (raw global vs displayed result, and `-> U`). distinct = case text; non-trivial = at least two factors".into();
    let mut ctx = prelude_ctx();
    let _ = ctx.interpret(USER_UNITS, CodeSource::Internal).expect("user units");
    let units = Units::load(&ctx);
    units.emit(&mut out);
    let run_file = |p: &std::path::Path, out: &mut Out| {
        for l in read_lines(p) {
            if let Some(c) = parse_case(&l) {
                run_case(&ctx, &units, out, &c);
            }
        }
    };
    if let Some(p) = &args.replay {
        run_file(p, &mut out);
        out.finish();
        return;
    }
    if let Some(dir) = args.extra.get("corpus") {
        let mut files: Vec<_> = std::fs::read_dir(dir).map(|d| d.filter_map(|e| e.ok()).map(|e| e.path()).collect()).unwrap_or_default();
        files.sort();
        for f in files {
            run_file(&f, &mut out);
        }
    }
    let mut rng = Rng::new(args.seed);
    let all: Vec<usize> = (0..units.rows.len()).collect();
    let user: Vec<usize> = ["vaa", "vbb", "vcc", "vdd", "veeunit", "vff", "vgg", "percent", "radian", "degree", "kilogram", "gram"].iter().filter_map(|n| units.index.get(*n).copied()).collect();
    let derived: Vec<usize> = (0..units.rows.len()).filter(|i| !units.rows[*i].is_base && units.rows[*i].definition.len() >= 2).collect();
    let n = args.count(1500, 40000);
    for i in 0..n {
        let pool: &[usize] = if i % 4 == 0 && !user.is_empty() { &user } else { &all };
        let fs = if i % 4 == 1 && !derived.is_empty() {
            // registry shapes: the direct definition of a derived unit (J/s, Pa*m^2, ...), possibly times another
            // unit or with one factor replaced by a same-dimension unit
            let d = *rng.pick(&derived);
            let mut v = units.rows[d].definition.clone();
            if rng.chance(1, 3) {
                let k = rng.below(v.len());
                let dim = &units.dim_of[units.index[&v[k].unit]];
                let j = *rng.pick(&units.by_dim[dim]);
                v[k] = units.factor(j, (false, 0), v[k].num, v[k].den);
            }
            if rng.chance(1, 4) {
                v.extend(random_compound(&units, &mut rng, &all).into_iter().take(1));
            }
            out.count("registry_shapes");
            v
        } else {
            random_compound(&units, &mut rng, pool)
        };
        let mut qd = q(random_magnitude(&mut rng).to_bits(), fs);
        qd.can_simplify = !rng.chance(1, 8);
        run_case(&ctx, &units, &mut out, &qd);
    }
    // stream 2: through the interpreter
    let m = args.count(400, 8000);
    for _ in 0..m {
        let fs = random_compound(&units, &mut rng, &all);
        if fs.iter().any(|f| f.prefix_exp != 0) {
            continue;
        }
        let v = ((rng.unit_f64() * 200.0 - 100.0) * 16.0).round() / 16.0;
        let src = q_src(&q(v.to_bits(), fs.clone()));
        let mut c = ctx.clone();
        let code1 = format!("let r = {}", src);
        let ok1 = matches!(catch(std::panic::AssertUnwindSafe(|| c.interpret(&code1, CodeSource::Internal).is_ok())), Ok(true));
        let raw = if ok1 { c.verif_raw_global_quantity("r") } else { None };
        let Some(raw) = raw else { out.count("vm_generator_rejected"); continue };
        let mut c2 = ctx.clone();
        let disp = match catch(std::panic::AssertUnwindSafe(|| c2.interpret(&src, CodeSource::Internal))) {
            Ok(Ok((_, numbat::InterpreterResult::Value(v)))) => describe_value(&v),
            Err(p) => { out.oracle_fail(&format!("display:{}", src), &case_text(&raw), &format!("panic {}", p)); None }
            _ => None,
        };
        let Some(disp) = disp else { continue };
        out.count("vm_display_cases");
        let text = case_text(&raw);
        out.case(&format!("vm {}", text), raw.factors.len() >= 2);
        // the displayed value is what the model says the registry-based simplification gives
        out.line(&format!("simplify_reg {}", q_text(&raw)), &canon_nan(&show_quantity(&disp)));
        check_preserved(&units, &mut out, &format!("display:{}", text), &text, &raw, &disp, "displayed result");
        // explicit conversion: displayed in exactly the requested unit
        let tgt: Vec<FactorDesc> = fs.iter().map(|f| {
            let dim = &units.dim_of[units.index[&f.unit]];
            units.factor(*rng.pick(&units.by_dim[dim]), (false, 0), f.num, f.den)
        }).collect();
        if units.oracle_dimension(&tgt) == units.oracle_dimension(&fs) && !tgt.is_empty() {
            let tsrc = q_src(&q(0x3ff0000000000000, tgt.clone()));
            let mut c3 = ctx.clone();
            let code3 = format!("{} -> {}", src, tsrc);
            let r3 = catch(std::panic::AssertUnwindSafe(|| match c3.interpret(&code3, CodeSource::Internal) {
                Ok((_, numbat::InterpreterResult::Value(v))) => describe_value(&v),
                _ => None,
            }));
            if let Ok(Some(d)) = r3 {
                {
                    out.count("vm_conversion_cases");
                    if show_unit(&d.factors) != show_unit(&tgt) {
                        out.oracle_fail(&format!("convert-display:{} -> {}", src, tsrc), &text, &format!("`x -> U` displayed in {} instead of {}", show_unit(&d.factors), show_unit(&tgt)));
                    }
                }
            }
        }
    }
    out.finish();
}
