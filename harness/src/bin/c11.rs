//! C11 — comparisons do not depend on operand order.
//!
//! Streams:  `cmp a b` / `eq a b` through `Quantity::partial_cmp_preserve_nan` / `PartialEq` (hook), and
//! `vm <op> a b` through the real interpreter (`(a) op (b)` as source text), each in both orders.
//! Oracle on the implementation: eq symmetric, lt/gt and le/ge mirrored, ne = not eq, trichotomy for
//! non-NaN, NaN => every ordering comparison false.
//!
//! Known finding (call site Quantity::eq / partial_cmp_preserve_nan, one-sided conversion with f64
//! rounding): asymmetries between operands that are *equal up to rounding* get the key prefix
//! `cmp-asym-rounding`; every other asymmetry gets `cmp-asym` and is a violation.

use numbat::verif::c03::{show_unit, FactorDesc, QDesc};
use nvh::qty::*;
use nvh::*;

struct Pair {
    a: QDesc,
    b: QDesc,
}

fn pair_text(p: &Pair) -> String {
    format!("pair {} {}", q_text(&p.a), q_text(&p.b))
}

fn parse_pair(line: &str) -> Option<Pair> {
    let w: Vec<&str> = line.split(' ').collect();
    if w.len() != 5 || w[0] != "pair" {
        return None;
    }
    Some(Pair {
        a: q(u64::from_str_radix(w[1], 16).ok()?, parse_unit(w[2])?),
        b: q(u64::from_str_radix(w[3], 16).ok()?, parse_unit(w[4])?),
    })
}

fn op(ctx: &numbat::Context, out: &mut Out, name: &str, a: &QDesc, b: &QDesc) -> String {
    let ans = match catch(std::panic::AssertUnwindSafe(|| ctx.verif_quantity_op(name, a, Some(b)))) {
        Ok(s) => canon_nan(&s),
        Err(p) => format!("panic {}", p),
    };
    out.line(&format!("{} {} {}", name, q_text(a), q_text(b)), &ans);
    ans
}

fn vm(ctx: &numbat::Context, out: &mut Out, o: &str, a: &QDesc, b: &QDesc) -> String {
    let sym = match o { "lt" => "<", "gt" => ">", "le" => "<=", "ge" => ">=", "eq" => "==", _ => "!=" };
    let code = format!("{} {} {}", q_src(a), sym, q_src(b));
    let ans = interpret_bool(ctx, &code);
    out.line(&format!("vm {} {} {}", o, q_text(a), q_text(b)), &ans);
    ans
}

fn mirror(s: &str) -> &str {
    match s { "lt" => "gt", "gt" => "lt", o => o }
}

fn run_pair(ctx: &numbat::Context, units: &Units, out: &mut Out, p: &Pair, through_vm: bool) {
    let text = pair_text(p);
    let (va, vb) = (f64::from_bits(p.a.bits), f64::from_bits(p.b.bits));
    let nan = va.is_nan() || vb.is_nan();
    // are the operands equal up to rounding?  (physical values within 16 ulp)
    // (compared in base units and in either operand's unit, with an absolute slack of 16 subnormal steps so
    // that underflow of the one-sided conversion counts as rounding too)
    let (fa, fb) = (units.oracle_factor(&p.a.factors), units.oracle_factor(&p.b.factors));
    let close = |x: f64, y: f64| x == y || (x - y).abs() <= 16.0 * f64::EPSILON * x.abs().max(y.abs()) + 16.0 * 5e-324;
    let near = close(va * fa, vb * fb) || close(va, vb * (fb / fa)) || close(vb, va * (fa / fb));
    // Rounding can only explain a disagreement *between the two operand orders* (each order converts the other
    // operand) of finite values in different units that are equal up to rounding.  Within one order `==` and the
    // ordering use the same conversion, so they can only disagree through rounding when an operand is zero (the
    // zero-on-the-left path converts the left operand instead).
    let finite = va.is_finite() && vb.is_finite();
    let differ = show_unit(&p.a.factors) != show_unit(&p.b.factors);
    // (overflow of the one-sided conversion to infinity is rounding too, so infinities are allowed here)
    let class = if near && differ { "cmp-asym-rounding" } else { "cmp-asym" };
    let class_same_order = if near && finite && differ && (va == 0.0 || vb == 0.0) { "cmp-asym-rounding" } else { "cmp-asym" };
    out.case(&text, show_unit(&p.a.factors) != show_unit(&p.b.factors));
    out.count(if nan { "pairs_nan" } else if near { "pairs_equal_up_to_rounding" } else { "pairs_distinct_values" });

    let cab = op(ctx, out, "cmp", &p.a, &p.b);
    let cba = op(ctx, out, "cmp", &p.b, &p.a);
    let eab = op(ctx, out, "eq", &p.a, &p.b);
    let eba = op(ctx, out, "eq", &p.b, &p.a);
    out.count(&format!("cmp_{}", cab.split(' ').next().unwrap_or("?")));
    let mut fail = |kind: &str, what: String| {
        let c = if kind == "eq-vs-cmp" || kind == "trichotomy" || kind == "nan" || kind == "panic" || kind == "error" { class_same_order } else { class };
        out.oracle_fail(&format!("{}:{}:{}", c, kind, text), &text, &what);
    };
    for a in [&cab, &cba, &eab, &eba] {
        if a.starts_with("panic") {
            fail("panic", a.to_string());
            return;
        }
    }
    if cab.starts_with("err") || cba.starts_with("err") {
        // same-dimension operands must be comparable in both orders
        fail("error", format!("cmp gives {} / {} for same-dimension operands", cab, cba));
        return;
    }
    if nan {
        if cab != "nan" || cba != "nan" {
            fail("nan", format!("NaN operand but cmp gives {} / {}", cab, cba));
        }
    } else {
        if !["lt", "eq", "gt"].contains(&cab.as_str()) {
            fail("trichotomy", format!("cmp gives {}", cab));
        }
        if mirror(&cab) != cba {
            fail("order", format!("a?b is {} but b?a is {}", cab, cba));
        }
        if (cab == "eq") != (eab == "bool true") {
            fail("eq-vs-cmp", format!("cmp {} but == {}", cab, eab));
        }
    }
    if eab != eba {
        fail("eq", format!("a == b is {} but b == a is {}", eab, eba));
    }
    if through_vm && p.a.factors.iter().chain(p.b.factors.iter()).all(|f| f.prefix_exp == 0) {
        let mut r = std::collections::BTreeMap::new();
        for o in ["lt", "gt", "le", "ge", "eq", "ne"] {
            r.insert((o, 0), vm(ctx, out, o, &p.a, &p.b));
            r.insert((o, 1), vm(ctx, out, o, &p.b, &p.a));
        }
        out.count("vm_pairs");
        let mut fail = |kind: &str, what: String| {
            let c = if kind == "trichotomy" || kind == "nan" || kind == "ne" { class_same_order } else { class };
            out.oracle_fail(&format!("{}:vm-{}:{}", c, kind, text), &text, &what);
        };
        if r[&("lt", 0)] != r[&("gt", 1)] || r[&("gt", 0)] != r[&("lt", 1)] {
            fail("lt-gt", format!("a<b {} b>a {} ; a>b {} b<a {}", r[&("lt", 0)], r[&("gt", 1)], r[&("gt", 0)], r[&("lt", 1)]));
        }
        if r[&("le", 0)] != r[&("ge", 1)] || r[&("ge", 0)] != r[&("le", 1)] {
            fail("le-ge", format!("a<=b {} b>=a {} ; a>=b {} b<=a {}", r[&("le", 0)], r[&("ge", 1)], r[&("ge", 0)], r[&("le", 1)]));
        }
        if r[&("eq", 0)] != r[&("eq", 1)] {
            fail("eq", format!("a==b {} b==a {}", r[&("eq", 0)], r[&("eq", 1)]));
        }
        for k in 0..2 {
            let (e, n) = (&r[&("eq", k)], &r[&("ne", k)]);
            if (e == "bool true") == (n == "bool true") {
                fail("ne", format!("== {} but != {}", e, n));
            }
            if nan {
                for o in ["lt", "gt", "le", "ge"] {
                    if r[&(o, k)] != "bool false" {
                        fail("nan", format!("NaN operand but {} gives {}", o, r[&(o, k)]));
                    }
                }
            } else {
                let count = ["lt", "eq", "gt"].iter().filter(|o| r[&(**o, k)] == "bool true").count();
                if count != 1 {
                    fail("trichotomy", format!("<,==,> give {} {} {}", r[&("lt", k)], r[&("eq", k)], r[&("gt", k)]));
                }
            }
        }
    }
}

fn main() {
    let args = Args::parse();
    let mut out = Out::new(&args);
    out.rule = "ordered pairs of same-dimension prelude units (random accepted prefixes in the hook stream, no prefixes in the interpreter stream) with magnitudes from: class-stratified random values, the value obtained by converting the left operand into the right operand's unit (equal up to rounding), its neighbours (+-1 ulp, x(1+-1e-9)), NaN, +-0, +-inf; each pair evaluated in both orders with cmp/eq (hook) and the six comparison operators (interpreter). thorough: every ordered pair of same-dimension units. distinct = pair text; non-trivial = the two units differ".into();
    let ctx = prelude_ctx();
    let units = Units::load(&ctx);
    units.emit(&mut out);

    let run_file = |p: &std::path::Path, out: &mut Out| {
        for l in read_lines(p) {
            if let Some(c) = parse_pair(&l) {
                run_pair(&ctx, &units, out, &c, true);
            } else if let Some(rest) = l.strip_prefix("pairconv ") {
                // `pairconv <bits a> <unit a> <unit b>`: b is a converted into unit b by the implementation
                let w: Vec<&str> = rest.split(' ').collect();
                if let (3, Some(ua), Some(ub)) = (w.len(), w.get(1).and_then(|u| parse_unit(u)), w.get(2).and_then(|u| parse_unit(u))) {
                    let a = q(u64::from_str_radix(w[0], 16).unwrap_or(0), ua);
                    let conv = ctx.verif_quantity_op("convert", &a, Some(&q(0x3ff0000000000000, ub.clone())));
                    if let Some((vb, _)) = parse_answer(&conv) {
                        run_pair(&ctx, &units, out, &Pair { a, b: q(vb.to_bits(), ub) }, true);
                    }
                }
            }
        }
    };
    if let Some(p) = &args.replay {
        run_file(p, &mut out);
        out.finish();
        return;
    }
    if let Some(dir) = args.extra.get("corpus") {
        let mut files: Vec<_> = std::fs::read_dir(dir).map(|d| d.filter_map(|e| e.ok()).map(|e| e.path()).collect()).unwrap_or_default();
        files.sort();
        for f in files {
            run_file(&f, &mut out);
        }
    }
    let mut rng = Rng::new(args.seed);
    let multi: Vec<&String> = units.by_dim.keys().filter(|d| units.by_dim[*d].len() >= 2).collect();
    let one = 0x3ff0000000000000u64;

    let gen_b = |rng: &mut Rng, a: &QDesc, ub: &Vec<FactorDesc>| -> u64 {
        // magnitude of b: related to a's value in b's unit, or independent
        let conv = ctx.verif_quantity_op("convert", a, Some(&q(one, ub.clone())));
        let base = parse_answer(&conv).map(|x| x.0).unwrap_or(1.0);
        match rng.below(12) {
            0..=3 => base.to_bits(),
            4 => f64::from_bits(base.to_bits().wrapping_add(1)).to_bits(),
            5 => f64::from_bits(base.to_bits().wrapping_sub(1)).to_bits(),
            6 => (base * (1.0 + 1e-9)).to_bits(),
            7 => (base * (1.0 - 1e-9)).to_bits(),
            8 => f64::NAN.to_bits(),
            9 => (*rng.pick(&[0.0f64, -0.0, f64::INFINITY, f64::NEG_INFINITY])).to_bits(),
            _ => random_magnitude(rng).to_bits(),
        }
    };

    let n = args.count(1500, 12000);
    for i in 0..n {
        let d = *rng.pick(&multi);
        let rows = &units.by_dim[d];
        let through_vm = i % 3 == 0;
        // both operands carry the same exponent (areas, volumes, inverse units, roots), so that the dimension agrees
        let (en, ed) = *rng.pick(&[(1i128, 1i128), (1, 1), (1, 1), (2, 1), (3, 1), (-1, 1), (-2, 1), (1, 2)]);
        let (mut ua, mut ub) = if through_vm {
            (vec![units.factor(*rng.pick(rows), (false, 0), 1, 1)], vec![units.factor(*rng.pick(rows), (false, 0), 1, 1)])
        } else {
            (units.random_simple(&mut rng, rows), units.random_simple(&mut rng, rows))
        };
        if i % 2 == 1 {
            // same unit on both sides, possibly with different prefixes: the shape a "fast path" would special-case
            ub[0].unit = ua[0].unit.clone();
            if through_vm { ub[0].prefix_exp = 0; ub[0].binary = false; } else {
                let ps = units.prefixes(units.index[&ua[0].unit]);
                let p = *rng.pick(&ps);
                ub[0].binary = p.0; ub[0].prefix_exp = p.1;
            }
        }
        for f in ua.iter_mut().chain(ub.iter_mut()) { f.num = en; f.den = ed; }
        let va = match rng.below(12) { 0 => f64::NAN, 1 => 0.0, 2 => 40.5, 3 => f64::INFINITY, 4 => f64::NEG_INFINITY, _ => random_magnitude(&mut rng) };
        let a = q(va.to_bits(), ua);
        let vb = gen_b(&mut rng, &a, &ub);
        run_pair(&ctx, &units, &mut out, &Pair { a, b: q(vb, ub) }, through_vm);
    }
    if args.tier == "thorough" {
        let mut cnt = 0u64;
        for (_, rows) in units.by_dim.iter() {
            for &i in rows {
                for &j in rows {
                    if i == j { continue; }
                    let ua = vec![units.factor(i, (false, 0), 1, 1)];
                    let ub = vec![units.factor(j, (false, 0), 1, 1)];
                    let a = q(40.5f64.to_bits(), ua);
                    let conv = ctx.verif_quantity_op("convert", &a, Some(&q(one, ub.clone())));
                    let vb = parse_answer(&conv).map(|x| x.0).unwrap_or(1.0);
                    run_pair(&ctx, &units, &mut out, &Pair { a, b: q(vb.to_bits(), ub) }, (i + j) % 7 == 0);
                    cnt += 1;
                }
            }
        }
        out.count_n("exhaustive_ordered_pairs", cnt);
        out.extra.insert("exhaustive".into(), "every ordered pair of same-dimension prelude units with b = (a converted into b's unit)".into());
    }
    out.finish();
}
