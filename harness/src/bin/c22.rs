//! C22 — the command-line tool reports success and failure faithfully.
//!
//! One case = a program (list of one-line statements) and the way it is handed to the `numbat` binary:
//!     `file`   numbat FILE                      (the whole file is ONE input)
//!     `exprs`  numbat -e l1 -e l2 ...           (joined with `\n`: ONE input)
//!     `both`   numbat FILE -e ...               (first half as file, second half as `-e`: TWO inputs)
//! One-line encoding (replay / corpus):  `prog <mode> <stmt>;;<stmt>;;...`
//!
//! The binary is built from /repo's current tree (`cargo build --offline -p numbat-cli`) and run with
//! `--no-config --no-init --color never` (as numbat-cli/tests/integration.rs does) in an empty config home.
//!
//! Correspondence: the per-input outcomes (ok, print lines, rendered result, rendered diagnostic) come from
//! running the *library* in-process on the same inputs with the same source kinds; the model (`drv_c22`)
//! predicts exit status, stdout and stderr of the process:  `exit=<n> out=<hex> err=<hex>`.
//!
//! Oracle (independent of the model): exit status 0 iff every input succeeds in the library; with status 0
//! stderr is empty and stdout holds every print line and result in order; with status != 0 stderr holds the
//! diagnostic and stdout none of it; nothing after the first failing input is printed; `exprs` and `file`
//! agree on status and stdout, and on stderr up to the source label.

#[path = "../sess_common.rs"]
mod sess;

use numbat::diagnostic::{ErrorDiagnostic, ResolverDiagnostic};
use numbat::resolver::CodeSource;
use numbat::verif::c20::codespan_reporting::term::{self, Config};
use numbat::verif::c20::termcolor::NoColor;
use numbat::{Context, FormatOptions, InterpreterSettings, NumbatError};
use nvh::*;
use sess::*;
use std::path::{Path, PathBuf};
use std::process::Command;
use std::sync::{Arc, Mutex};

const BIN: &str = "/repo/target/debug/numbat";

#[derive(Clone, Debug, PartialEq)]
struct Eval {
    ok: bool,
    stage: &'static str,
    prints: Vec<String>,
    result: String,
    diag: String,
}

fn render<E: ErrorDiagnostic>(ctx: &Context, e: E) -> String {
    let mut w = NoColor::new(Vec::<u8>::new());
    let config = Config::default();
    for d in e.diagnostics() {
        term::emit(&mut w, &config, &ctx.resolver().files, &d).unwrap();
    }
    String::from_utf8_lossy(&w.into_inner()).to_string()
}

/// what `Cli::parse_and_evaluate` would see and write for this input (library run in-process)
fn eval_input(ctx: &mut Context, code: &str, src: CodeSource) -> Eval {
    let out = Arc::new(Mutex::new(Vec::<String>::new()));
    let o2 = out.clone();
    let mut settings = InterpreterSettings {
        print_fn: Box::new(move |m| o2.lock().unwrap().push(m.to_string())),
    };
    let r = ctx.interpret_with_settings(&mut settings, code, src);
    let prints = out.lock().unwrap().clone();
    match r {
        Ok((stmts, res)) => {
            let text = res
                .to_markup(stmts.last(), ctx.dimension_registry(), false, false, &FormatOptions::default())
                .to_string();
            Eval { ok: true, stage: "ok", prints, result: text, diag: String::new() }
        }
        Err(e) => {
            let stage = stage_of(&e);
            let diag = match *e {
                NumbatError::ResolverError(e) => render(ctx, e),
                NumbatError::NameResolutionError(e) => render(ctx, e),
                NumbatError::TypeCheckError(e) => render(ctx, e),
                NumbatError::RuntimeError(e) => render(ctx, ResolverDiagnostic { resolver: ctx.resolver(), error: &e }),
            };
            Eval { ok: false, stage, prints, result: String::new(), diag }
        }
    }
}

#[derive(Clone, Debug, PartialEq)]
struct ProcOut {
    code: i32,
    stdout: String,
    stderr: String,
}

fn run_binary(dir: &Path, file: Option<&Path>, exprs: &[String]) -> ProcOut {
    run_binary_with(dir, file, exprs, &[])
}

fn run_binary_with(dir: &Path, file: Option<&Path>, exprs: &[String], extra: &[&str]) -> ProcOut {
    let mut cmd = Command::new(BIN);
    cmd.arg("--no-config").arg("--no-init").arg("--color").arg("never");
    for x in extra {
        cmd.arg(x);
    }
    if let Some(f) = file {
        cmd.arg(f);
    }
    for e in exprs {
        cmd.arg("-e").arg(e);
    }
    cmd.env("XDG_CONFIG_HOME", dir.join("cfg"))
        .env("XDG_DATA_HOME", dir.join("data"))
        .env("HOME", dir)
        .env_remove("NUMBAT_MODULES_PATH")
        .env("NO_COLOR", "1")
        .stdin(std::process::Stdio::null());
    match cmd.output() {
        Ok(o) => ProcOut {
            code: o.status.code().unwrap_or(-1),
            stdout: String::from_utf8_lossy(&o.stdout).to_string(),
            stderr: String::from_utf8_lossy(&o.stderr).to_string(),
        },
        Err(e) => ProcOut { code: -2, stdout: String::new(), stderr: format!("could not run {}: {}", BIN, e) },
    }
}

fn hex(s: &str) -> String {
    if s.is_empty() {
        "-".into()
    } else {
        s.bytes().map(|b| format!("{:02x}", b)).collect()
    }
}

#[derive(Clone, Copy, Debug, PartialEq)]
enum Mode {
    File,
    Exprs,
    Both,
}

impl Mode {
    fn name(self) -> &'static str {
        match self {
            Mode::File => "file",
            Mode::Exprs => "exprs",
            Mode::Both => "both",
        }
    }
    fn parse(s: &str) -> Option<Mode> {
        match s {
            "file" => Some(Mode::File),
            "exprs" => Some(Mode::Exprs),
            "both" => Some(Mode::Both),
            _ => None,
        }
    }
}

struct Invocation {
    /// (text, is_file) per input, in the order the CLI evaluates them
    inputs: Vec<(String, bool)>,
    evals: Vec<Eval>,
    proc_: ProcOut,
}

fn invoke(base: &Context, dir: &Path, mode: Mode, prog: &[String]) -> Invocation {
    let path: PathBuf = dir.join("prog.nbt");
    let (file_lines, expr_lines): (Vec<String>, Vec<String>) = match mode {
        Mode::File => (prog.to_vec(), vec![]),
        Mode::Exprs => (vec![], prog.to_vec()),
        Mode::Both => {
            let h = (prog.len() + 1) / 2;
            (prog[..h].to_vec(), prog[h..].to_vec())
        }
    };
    let mut inputs: Vec<(String, bool)> = Vec::new();
    let use_file = mode != Mode::Exprs;
    if use_file {
        // exactly the text that `-e l1 -e l2 …` is joined to (no trailing newline): a parse error at the end of
        // the input is otherwise located on a different line in the two forms
        let content = file_lines.join("\n");
        std::fs::write(&path, &content).expect("write program");
        inputs.push((content, true));
    }
    if !expr_lines.is_empty() {
        inputs.push((expr_lines.join("\n"), false));
    }
    // library outcomes of ALL inputs (also after a failure: the model decides what the CLI does with them)
    let mut ctx = base.clone();
    let evals: Vec<Eval> = inputs
        .iter()
        .map(|(code, is_file)| {
            let src = if *is_file { CodeSource::File(path.clone()) } else { CodeSource::Text };
            eval_input(&mut ctx, code, src)
        })
        .collect();
    let proc_ = run_binary(dir, if use_file { Some(&path) } else { None }, &expr_lines);
    Invocation { inputs, evals, proc_ }
}

/// source labels differ between `-e` and a file; everything else of a diagnostic must be equal
fn strip_labels(s: &str, path: &Path) -> String {
    let mut t = s.replace(&format!("File {}", path.to_string_lossy()), "SRC");
    for n in 1..4 {
        t = t.replace(&format!("<input:{}>", n), "SRC");
    }
    t
}

/// the property on the real binary, given the library outcomes
fn oracle_one(inv: &Invocation) -> Option<String> {
    let first_bad = inv.evals.iter().position(|e| !e.ok);
    let all_ok = first_bad.is_none();
    let p = &inv.proc_;
    if p.code < 0 {
        return Some(format!("the binary did not run / was killed: {}", p.stderr));
    }
    if all_ok != (p.code == 0) {
        return Some(format!(
            "exit status {} but {}",
            p.code,
            if all_ok { "every input succeeds in the library".to_string() } else { format!("input {} fails in the library ({})", first_bad.unwrap(), inv.evals[first_bad.unwrap()].stage) }
        ));
    }
    // results and printed values of the successful inputs, in order, on stdout
    let upto = first_bad.unwrap_or(inv.evals.len());
    let mut pos = 0usize;
    for e in &inv.evals[..upto] {
        for chunk in e.prints.iter().map(|l| format!("{}\n", l)).chain(std::iter::once(e.result.clone())) {
            if chunk.is_empty() {
                continue;
            }
            match p.stdout[pos..].find(&chunk) {
                Some(i) => pos += i + chunk.len(),
                None => return Some(format!("stdout lacks (in order) the output `{}` of a successful input; stdout = {:?}", chunk.trim_end(), p.stdout)),
            }
        }
    }
    if pos != p.stdout.len() && !p.stdout[pos..].trim().is_empty() {
        return Some(format!("stdout has extra text {:?} after the outputs of the successful inputs", &p.stdout[pos..]));
    }
    if all_ok {
        if !p.stderr.is_empty() {
            return Some(format!("every input succeeds but stderr is not empty: {:?}", p.stderr));
        }
    } else {
        let bad = &inv.evals[first_bad.unwrap()];
        if !p.stderr.contains(bad.diag.trim_end()) {
            return Some(format!("stderr lacks the diagnostic of the failing input; stderr = {:?}, diagnostic = {:?}", p.stderr, bad.diag));
        }
        if p.stdout.contains("error:") && !inv.evals[..upto].iter().any(|e| e.prints.iter().any(|l| l.contains("error:")) || e.result.contains("error:")) {
            return Some(format!("a diagnostic went to stdout: {:?}", p.stdout));
        }
        // nothing of a later input may appear anywhere
        for e in &inv.evals[first_bad.unwrap() + 1..] {
            if !e.diag.is_empty() && p.stderr.contains(e.diag.trim_end()) {
                return Some("an input after the first failing one was evaluated (its diagnostic is on stderr)".to_string());
            }
        }
    }
    None
}

struct CaseRun {
    main: Invocation,
    /// for `file` / `exprs`: the other way of handing over the same lines
    mirror: Option<Invocation>,
}

fn run_case(base: &Context, dir: &Path, mode: Mode, prog: &[String], with_mirror: bool) -> CaseRun {
    let main = invoke(base, dir, mode, prog);
    let mirror = if with_mirror && mode != Mode::Both {
        Some(invoke(base, dir, if mode == Mode::File { Mode::Exprs } else { Mode::File }, prog))
    } else {
        None
    };
    CaseRun { main, mirror }
}

fn oracle(dir: &Path, r: &CaseRun) -> Option<String> {
    if let Some(w) = oracle_one(&r.main) {
        return Some(w);
    }
    if let Some(m) = &r.mirror {
        if let Some(w) = oracle_one(m) {
            return Some(format!("(handed over the other way) {}", w));
        }
        let path = dir.join("prog.nbt");
        let (a, b) = (&r.main.proc_, &m.proc_);
        if a.code != b.code {
            return Some(format!("`-e` lines and a file with the same lines exit differently: {} vs {}", a.code, b.code));
        }
        if a.stdout != b.stdout {
            return Some(format!("`-e` lines and a file with the same lines print differently: {:?} vs {:?}", a.stdout, b.stdout));
        }
        if strip_labels(&a.stderr, &path) != strip_labels(&b.stderr, &path) {
            return Some(format!("`-e` lines and a file with the same lines report differently (beyond the source label): {:?} vs {:?}", a.stderr, b.stderr));
        }
    }
    None
}

fn request_line(inv: &Invocation) -> (String, String) {
    let toks: Vec<String> = inv
        .inputs
        .iter()
        .zip(inv.evals.iter())
        .map(|((_, is_file), e)| {
            format!(
                "{}:{}:{}:{}:{}",
                if *is_file { "f" } else { "t" },
                if e.ok { 1 } else { 0 },
                if e.prints.is_empty() { "-".to_string() } else { e.prints.iter().map(|p| hex(p)).collect::<Vec<_>>().join(",") },
                hex(&e.result),
                hex(&e.diag)
            )
        })
        .collect();
    (
        format!("cli 1 {}", toks.join(" ")),
        format!("exit={} out={} err={}", inv.proc_.code, hex(&inv.proc_.stdout), hex(&inv.proc_.stderr)),
    )
}

fn emit(out: &mut Out, base: &Context, dir: &Path, mode: Mode, prog: &[String], tags: &[&'static str], intent: &str, with_mirror: bool) {
    let r = run_case(base, dir, mode, prog, with_mirror);
    let (req, ans) = request_line(&r.main);
    out.line(&req, &ans);
    out.count("invocations");
    if let Some(m) = &r.mirror {
        let (req, ans) = request_line(m);
        out.line(&req, &ans);
        out.count("invocations");
    }
    let text = format!("{} {}", mode.name(), prog.join(SEP));
    out.count(&format!("mode_{}", mode.name()));
    out.count(&format!("intent_{}", intent));
    let first_bad = r.main.evals.iter().position(|e| !e.ok);
    match first_bad {
        None => out.count("actual_all_ok"),
        Some(i) => {
            out.count(&format!("actual_fails_{}", r.main.evals[i].stage));
            out.count(&format!("actual_fails_in_input_{}", i));
        }
    }
    out.count(&format!("exit_{}", r.main.proc_.code));
    for t in tags {
        out.count(&format!("stmt_{}", t));
    }
    out.case(&text, prog.len() >= 2);
    if oracle(dir, &r).is_some() {
        // shrink: drop lines while the oracle keeps failing
        let small = shrink_seq(prog, |c| !c.is_empty() && oracle(dir, &run_case(base, dir, mode, c, with_mirror)).is_some());
        let w = oracle(dir, &run_case(base, dir, mode, &small, with_mirror)).unwrap_or_default();
        let t = format!("{} {}", mode.name(), small.join(SEP));
        out.oracle_fail(&format!("c22-prog:{}", t), &format!("prog {}", t), &w);
    }
}

/// the same program under `--pretty-print <pp>`: the flag changes what is echoed, never whether the run counts as a
/// success. Checked on the binary only: exit status 0 iff every input succeeds in the library, the diagnostic of the
/// failing input on stderr, no diagnostic on stdout.
fn emit_pretty(out: &mut Out, base: &Context, dir: &Path, pp: &str, as_file: bool, prog: &[String]) {
    let check = |prog: &[String]| -> Option<String> {
        let path: PathBuf = dir.join("prog.nbt");
        let content = prog.join("\n");
        let mut ctx = base.clone();
        let e = eval_input(&mut ctx, &content, if as_file { CodeSource::File(path.clone()) } else { CodeSource::Text });
        let p = if as_file {
            std::fs::write(&path, &content).expect("write program");
            run_binary_with(dir, Some(&path), &[], &["--pretty-print", pp])
        } else {
            run_binary_with(dir, None, prog, &["--pretty-print", pp])
        };
        if p.code < 0 {
            return Some(format!("the binary did not run / was killed: {}", p.stderr));
        }
        if e.ok != (p.code == 0) {
            return Some(format!("--pretty-print {}: exit status {} but the input {} in the library", pp, p.code, if e.ok { "succeeds".to_string() } else { format!("fails ({})", e.stage) }));
        }
        if !e.ok && !p.stderr.contains(e.diag.trim_end()) {
            return Some(format!("--pretty-print {}: stderr lacks the diagnostic of the failing input; stderr = {:?}", pp, p.stderr));
        }
        if e.ok && !p.stderr.is_empty() {
            return Some(format!("--pretty-print {}: the input succeeds but stderr is not empty: {:?}", pp, p.stderr));
        }
        None
    };
    out.count(&format!("pretty_print_{}", pp));
    out.case(&format!("pp {} {} {}", pp, if as_file { "file" } else { "exprs" }, prog.join(SEP)), prog.len() >= 2);
    if check(prog).is_some() {
        let small = shrink_seq(prog, |c| !c.is_empty() && check(c).is_some());
        let w = check(&small).unwrap_or_default();
        let t = format!("{} {} {}", pp, if as_file { "file" } else { "exprs" }, small.join(SEP));
        out.oracle_fail(&format!("c22-pp:{}", t), &format!("ppprog {}", t), &w);
    }
}

/// a program of `n` statements; `bad` = (kind, position) of the failing statement
fn gen_prog(rng: &mut Rng, base: &Context, n: usize, bad: Option<(Bad, usize)>) -> (Vec<String>, Vec<&'static str>) {
    let mut env = Env::default();
    let mut probe = base.clone();
    let mut lines = Vec::new();
    let mut tags = Vec::new();
    let mut tries = 0;
    while lines.len() < n && tries < 6 * n {
        tries += 1;
        if let Some((kind, pos)) = bad {
            if lines.len() == pos {
                let s = gen_bad_stmt(&mut env, rng, kind);
                lines.push(s.text);
                tags.push(s.tag);
                continue;
            }
        }
        // now and then a line that starts with a minus sign: as a `-e` value it must be read like any other line
        if rng.chance(1, 10) {
            let t = rng.pick(&["-1 + 2", "-(2 + 3) * 2", "-2^2", "--3", "-1 m + 2 m"]).to_string();
            if run_input(&mut probe, &t).ok() {
                lines.push(t);
                tags.push("leading_minus");
                continue;
            }
        }
        let mut scratch = env.clone();
        let s = gen_ok_stmt(&mut scratch, rng, true);
        // every generated line is one `-e` argument (no NULs)
        if run_input(&mut probe, &s.text).ok() {
            scratch.apply(&s.eff);
            env = scratch;
            lines.push(s.text);
            tags.push(s.tag);
        } else {
            env.n = scratch.n;
        }
    }
    (lines, tags)
}

fn build_cli() -> Result<(), String> {
    let o = Command::new("cargo")
        .args(["build", "--offline", "-p", "numbat-cli"])
        .current_dir("/repo")
        .env("CARGO_NET_OFFLINE", "true")
        .env("CARGO_TERM_COLOR", "never")
        .output()
        .map_err(|e| format!("cargo not runnable: {e}"))?;
    if !o.status.success() {
        return Err(format!("cargo build -p numbat-cli failed:\n{}", String::from_utf8_lossy(&o.stderr)));
    }
    Ok(())
}

fn main() {
    let args = Args::parse();
    let mut out = Out::new(&args);
    out.rule = "programs of 2-8 one-line statements from the session generator (definitions, imports, expressions, prints, ans), either all succeeding or with one failing statement of a chosen kind (unknown module, parse, name clash, type, run time) at a chosen position (first, middle, last); each program is handed to the real `numbat` binary as a file, as `-e` arguments (the mirror of the former, compared with it) and split into file + `-e` (two inputs); every third program is also run under `--pretty-print always|never` (exit status and stderr only). distinct = mode + program text; non-trivial = at least two statements".into();

    if let Err(e) = build_cli() {
        eprintln!("{}", e);
        std::process::exit(3);
    }
    let base = prelude_ctx();
    let dir = std::env::temp_dir().join(format!("C22_{}", std::process::id()));
    std::fs::create_dir_all(dir.join("cfg")).expect("scratch dir");
    std::fs::create_dir_all(dir.join("data")).expect("scratch dir");

    let replay_lines: Option<Vec<String>> = args.replay.as_ref().map(|p| read_lines(p));
    let run_line = |out: &mut Out, l: &str| {
        if let Some(rest) = l.strip_prefix("ppprog ") {
            let mut it = rest.splitn(3, ' ');
            if let (Some(pp), Some(m), Some(p)) = (it.next(), it.next(), it.next()) {
                let prog: Vec<String> = p.split(SEP).map(|s| s.to_string()).collect();
                emit_pretty(out, &base, &dir, pp, m == "file", &prog);
            }
        } else if let Some(rest) = l.strip_prefix("prog ") {
            let mut it = rest.splitn(2, ' ');
            if let (Some(m), Some(p)) = (it.next().and_then(Mode::parse), it.next()) {
                let prog: Vec<String> = p.split(SEP).map(|s| s.to_string()).collect();
                emit(out, &base, &dir, m, &prog, &[], "corpus", true);
            }
        }
    };
    if let Some(lines) = replay_lines {
        for l in lines {
            run_line(&mut out, &l);
        }
        let _ = std::fs::remove_dir_all(&dir);
        out.finish();
        return;
    }
    if let Some(cdir) = args.extra.get("corpus") {
        let mut files: Vec<_> = std::fs::read_dir(cdir)
            .map(|d| d.filter_map(|e| e.ok()).map(|e| e.path()).collect())
            .unwrap_or_default();
        files.sort();
        for f in files {
            for l in read_lines(&f) {
                run_line(&mut out, &l);
                out.count("corpus_cases");
            }
        }
    }

    let mut rng = Rng::new(args.seed);
    // one round = 6 succeeding programs + 5 kinds x 3 positions failing programs, each in one mode with
    // its mirror (file<->exprs) or as `both`: about 36 invocations per round
    let rounds = args.count(1, 50);
    for _ in 0..rounds {
        let mut plan: Vec<Option<(Bad, usize)>> = vec![None; 6];
        for k in BAD_KINDS {
            for p in 0..3 {
                plan.push(Some((*k, p)));
            }
        }
        for (i, bad) in plan.into_iter().enumerate() {
            let n = 2 + rng.below(7);
            let bad = bad.map(|(k, p)| (k, match p { 0 => 0, 1 => n / 2, _ => n - 1 }));
            let (prog, tags) = gen_prog(&mut rng, &base, n, bad);
            let mode = match i % 3 {
                0 => Mode::File,
                1 => Mode::Exprs,
                _ => Mode::Both,
            };
            let intent = match bad {
                None => "ok".to_string(),
                Some((k, p)) => format!("{}_at_{}", k.stage(), if p == 0 { "first" } else if p == n - 1 { "last" } else { "middle" }),
            };
            emit(&mut out, &base, &dir, mode, &prog, &tags, &intent, true);
            // every third program also under an explicit --pretty-print setting
            if i % 3 == 0 {
                let pp = if (i / 3) % 2 == 0 { "always" } else { "never" };
                emit_pretty(&mut out, &base, &dir, pp, (i / 3) % 4 < 2, &prog);
            }
        }
    }
    let _ = std::fs::remove_dir_all(&dir);
    out.finish();
}
