//! C12 — addition commutes and subtraction anti-commutes, units included.
//!
//! `add a b`, `add b a`, `sub a b`, `sub b a` through the real `impl Add/Sub for &Quantity` (hook), a sample
//! through the real interpreter for the displayed text, and three-operand sums in all six orders.
//! Oracle: same physical quantity (negated for sub) within tolerance; when the units' sizes differ and not
//! both operands are zero: the same unit (syntactically) and bit-identical value in both orders.

use numbat::verif::c03::{show_unit, FactorDesc, QDesc};
use nvh::qty::*;
use nvh::*;

struct Case {
    qs: Vec<QDesc>,
}

fn case_text(c: &Case) -> String {
    format!("sum {}", c.qs.iter().map(q_text).collect::<Vec<_>>().join(" "))
}

fn parse_case(line: &str) -> Option<Case> {
    let w: Vec<&str> = line.split(' ').collect();
    if w.len() < 5 || w[0] != "sum" || (w.len() - 1) % 2 != 0 {
        return None;
    }
    let mut qs = Vec::new();
    for k in 0..(w.len() - 1) / 2 {
        qs.push(q(u64::from_str_radix(w[1 + 2 * k], 16).ok()?, parse_unit(w[2 + 2 * k])?));
    }
    Some(Case { qs })
}

fn op(ctx: &numbat::Context, out: &mut Out, name: &str, a: &QDesc, b: &QDesc) -> String {
    let ans = match catch(std::panic::AssertUnwindSafe(|| ctx.verif_quantity_op(name, a, Some(b)))) {
        Ok(s) => canon_nan(&s),
        Err(p) => format!("panic {}", p),
    };
    out.line(&format!("{} {} {}", name, q_text(a), q_text(b)), &ans);
    ans
}

fn to_q(ans: &str) -> Option<QDesc> {
    let (v, u) = parse_answer(ans)?;
    Some(q(v.to_bits(), parse_unit(&u)?))
}

fn display(ctx: &numbat::Context, code: &str) -> String {
    let mut c = ctx.clone();
    match catch(std::panic::AssertUnwindSafe(|| c.interpret(code, numbat::resolver::CodeSource::Internal))) {
        Err(p) => format!("panic {}", p),
        Ok(Ok((_, numbat::InterpreterResult::Value(v)))) => format!("{}", v.pretty_print()),
        Ok(Ok(_)) => "continue".into(),
        Ok(Err(e)) => format!("error {}", e),
    }
}

fn run_case(ctx: &numbat::Context, units: &Units, out: &mut Out, c: &Case, through_vm: bool) {
    let text = case_text(c);
    let (a, b) = (&c.qs[0], &c.qs[1]);
    let (va, vb) = (f64::from_bits(a.bits), f64::from_bits(b.bits));
    let (fa, fb) = (units.oracle_factor(&a.factors), units.oracle_factor(&b.factors));
    out.case(&text, show_unit(&a.factors) != show_unit(&b.factors));
    let fail = |out: &mut Out, kind: &str, what: String| out.oracle_fail(&format!("add:{}:{}", kind, text), &text, &what);
    let phys = |qd: &QDesc| f64::from_bits(qd.bits) * units.oracle_factor(&qd.factors);
    let scale = (va * fa).abs() + (vb * fb).abs();
    let tol = 64.0 * f64::EPSILON * scale;
    let ok_range = scale.is_finite() && scale < 1e290 && (scale == 0.0 || scale > 1e-290) && fa.is_finite() && fb.is_finite();

    let ab = op(ctx, out, "add", a, b);
    let ba = op(ctx, out, "add", b, a);
    let sab = op(ctx, out, "sub", a, b);
    let sba = op(ctx, out, "sub", b, a);
    for r in [&ab, &ba, &sab, &sba] {
        if r.starts_with("panic") || r.starts_with("err") {
            fail(out, "error", format!("same-dimension operands: {}", r));
            return;
        }
    }
    let (qab, qba, qsab, qsba) = (to_q(&ab).unwrap(), to_q(&ba).unwrap(), to_q(&sab).unwrap(), to_q(&sba).unwrap());
    if ok_range && !va.is_nan() && !vb.is_nan() {
        out.count("phys_checked");
        if (phys(&qab) - phys(&qba)).abs() > tol {
            fail(out, "comm", format!("a+b = {:e}, b+a = {:e} in base units", phys(&qab), phys(&qba)));
        }
        if (phys(&qab) - (va * fa + vb * fb)).abs() > tol {
            fail(out, "sum", format!("a+b = {:e} but sum of physical values {:e}", phys(&qab), va * fa + vb * fb));
        }
        if (phys(&qsab) + phys(&qsba)).abs() > tol {
            fail(out, "anticomm", format!("a-b = {:e}, b-a = {:e} in base units", phys(&qsab), phys(&qsba)));
        }
        if (phys(&qsab) - (va * fa - vb * fb)).abs() > tol {
            fail(out, "diff", format!("a-b = {:e} but difference of physical values {:e}", phys(&qsab), va * fa - vb * fb));
        }
    }
    let both_zero = va == 0.0 && vb == 0.0;
    if fa != fb && !both_zero && fa.is_finite() && fb.is_finite() {
        out.count("display_rule_applies");
        if show_unit(&qab.factors) != show_unit(&qba.factors) || (qab.bits != qba.bits && !(va.is_nan() || vb.is_nan())) {
            fail(out, "display", format!("a+b = {} but b+a = {}", ab, ba));
        }
        if show_unit(&qsab.factors) != show_unit(&qsba.factors) {
            fail(out, "display-sub", format!("a-b = {} but b-a = {}", sab, sba));
        }
        if through_vm && c.qs.iter().all(|x| x.factors.iter().all(|f| f.prefix_exp == 0)) && !va.is_nan() && !vb.is_nan() {
            let t1 = display(ctx, &format!("{} + {}", q_src(a), q_src(b)));
            let t2 = display(ctx, &format!("{} + {}", q_src(b), q_src(a)));
            out.count("vm_display_pairs");
            if t1 != t2 {
                fail(out, "vm-display", format!("`a + b` displays `{}` but `b + a` displays `{}`", t1, t2));
            }
            // the same two-operand sum written with the standard library's fold (`sum`), in both orders: it is
            // `0 + a + b`, so it must display what `a + b` displays
            let s1 = display(ctx, &format!("sum([{}, {}])", q_src(a), q_src(b)));
            let s2 = display(ctx, &format!("sum([{}, {}])", q_src(b), q_src(a)));
            out.count("vm_display_pairs_via_sum");
            if s1 != s2 || s1 != t1 {
                fail(out, "vm-display-sum", format!("`a + b` displays `{}`, `sum([a, b])` displays `{}`, `sum([b, a])` displays `{}`", t1, s1, s2));
            }
        }
    }
    // three operands in all six orders
    if c.qs.len() >= 3 {
        let qs = &c.qs[..3];
        let total: f64 = qs.iter().map(|x| phys(x)).sum();
        let sc: f64 = qs.iter().map(|x| phys(x).abs()).sum();
        let perms = [[0, 1, 2], [0, 2, 1], [1, 0, 2], [1, 2, 0], [2, 0, 1], [2, 1, 0]];
        for p in perms {
            let s1 = op(ctx, out, "add", &qs[p[0]], &qs[p[1]]);
            let Some(q1) = to_q(&s1) else { fail(out, "error3", s1); return };
            let s2 = op(ctx, out, "add", &q1, &qs[p[2]]);
            let Some(q2) = to_q(&s2) else { fail(out, "error3", s2); return };
            if sc.is_finite() && sc < 1e290 && !total.is_nan() && (phys(&q2) - total).abs() > 128.0 * f64::EPSILON * sc {
                fail(out, "sum3", format!("order {:?}: {:e} vs {:e}", p, phys(&q2), total));
            }
        }
        out.count("three_operand_cases");
    }
}

fn main() {
    let args = Args::parse();
    let mut out = Out::new(&args);
    out.rule = "ordered pairs (and triples) of same-dimension prelude units with random accepted prefixes, magnitudes class-stratified incl. 0, negatives and equal-size units; add/sub in both orders through the hook, a third through the interpreter for the displayed text (units without prefix); triples summed in all six orders. thorough: every ordered pair of same-dimension units. distinct = case text; non-trivial = the first two units differ".into();
    let ctx = prelude_ctx();
    let units = Units::load(&ctx);
    units.emit(&mut out);
    let run_file = |p: &std::path::Path, out: &mut Out| {
        for l in read_lines(p) {
            if let Some(c) = parse_case(&l) {
                run_case(&ctx, &units, out, &c, true);
            }
        }
    };
    if let Some(p) = &args.replay {
        run_file(p, &mut out);
        out.finish();
        return;
    }
    if let Some(dir) = args.extra.get("corpus") {
        let mut files: Vec<_> = std::fs::read_dir(dir).map(|d| d.filter_map(|e| e.ok()).map(|e| e.path()).collect()).unwrap_or_default();
        files.sort();
        for f in files {
            run_file(&f, &mut out);
        }
    }
    let mut rng = Rng::new(args.seed);
    let multi: Vec<&String> = units.by_dim.keys().filter(|d| units.by_dim[*d].len() >= 2).collect();
    let n = args.count(2000, 15000);
    for i in 0..n {
        let d = *rng.pick(&multi);
        let rows = &units.by_dim[d];
        let through_vm = i % 4 == 0;
        let k = if i % 5 == 0 { 3 } else { 2 };
        let mut qs = Vec::new();
        for _ in 0..k {
            let u: Vec<FactorDesc> = if through_vm { vec![units.factor(*rng.pick(rows), (false, 0), 1, 1)] } else { units.random_simple(&mut rng, rows) };
            let v = match rng.below(8) { 0 => 0.0, 1 => -2.5, _ => random_magnitude(&mut rng) };
            qs.push(q(v.to_bits(), u));
        }
        run_case(&ctx, &units, &mut out, &Case { qs }, through_vm);
    }
    if args.tier == "thorough" {
        let mut cnt = 0u64;
        for (_, rows) in units.by_dim.iter() {
            for &i in rows {
                for &j in rows {
                    if i == j { continue; }
                    let qs = vec![q(2.5f64.to_bits(), vec![units.factor(i, (false, 0), 1, 1)]), q((-0.75f64).to_bits(), vec![units.factor(j, (false, 0), 1, 1)])];
                    run_case(&ctx, &units, &mut out, &Case { qs }, (i + j) % 11 == 0);
                    cnt += 1;
                }
            }
        }
        out.count_n("exhaustive_ordered_pairs", cnt);
        out.extra.insert("exhaustive".into(), "every ordered pair of same-dimension prelude units".into());
    }
    out.finish();
}
