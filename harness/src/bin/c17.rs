//! C17 — standard-library modules compose in any order.
//!
//! Cases (also the replay format, one per line):
//!     seq <style> <module> <module> ...      style = sep (one input per `use`) | one (all `use` lines in one input)
//!         Oracle on the implementation (independent of the Lean model), all in fresh sessions built on
//!         `BuiltinModuleImporter` (the embedded standard library; exchange rates = numbat's own test rates):
//!           (1) every import succeeds (no error, no panic);
//!           (2) importing every module of the sequence a second time, and two random modules of
//!               `imported_modules`, yields no statement and leaves the session digest unchanged;
//!           (3) the digest equals the digest of a fresh session that imports the same set in sorted order.
//!         Correspondence: `std <modules…>` — what `Resolver::resolve` returns for each `use` (origin module and
//!         position of every inlined statement) and `imported_modules` afterwards, against the Lean model run on
//!         the regenerated module table.
//!     syn <table> ; <input> ; <input> …      synthetic module system for the real `Resolver` (cycles, unknown
//!         modules, repeated and nested `use`, several inputs on one resolver): table = `<k>=<item>,<item>…`
//!         separated by `|` (module `m<k>`), items `u<k>` (`use m<k>`) or `d<n>` (`let d<n> = 0`).
//!         Correspondence only.  One cycle is first tried in a child process (`--canary`): a resolver that
//!         overflows the stack on a cycle must not take the whole run down.
//!
//! A failing sequence is minimised: modules are dropped, then every single module and every ordered pair of the
//! closure of the sequence is tried (smallest closure first).
//!
//! `--dump FILE` writes the module table (for tools/gen_modules.py) and exits.

use numbat::module_importer::{BuiltinModuleImporter, ModuleImporter};
use numbat::resolver::{CodeSource, ModulePath};
use numbat::verif::c17::{module_summary, ItemSummary, TraceError};
use numbat::Context;
use nvh::*;
use std::collections::{BTreeMap, BTreeSet, HashMap};
use std::path::PathBuf;
use std::sync::Mutex;

// ------------------------------------------------------------------------------------------ module table

#[derive(Clone, Debug)]
struct ModInfo {
    name: String,
    items: Vec<ItemSummary>,
}

fn module_names() -> Vec<String> {
    let mut v: Vec<String> = BuiltinModuleImporter::default()
        .list_modules()
        .into_iter()
        .map(|m| m.to_string())
        .collect();
    v.sort();
    v.dedup();
    v
}

fn module_source(name: &str) -> Option<String> {
    let path = ModulePath(name.split("::").map(|s| s.into()).collect());
    BuiltinModuleImporter::default().import(&path).map(|(c, _)| c)
}

fn load_table() -> Result<Vec<ModInfo>, String> {
    let mut t = vec![];
    for name in module_names() {
        let src = module_source(&name).ok_or_else(|| format!("module {} listed but not importable", name))?;
        let items = module_summary(&src).map_err(|e| format!("module {} does not parse: {}", name, e))?;
        t.push(ModInfo { name, items });
    }
    Ok(t)
}

fn item_start(i: &ItemSummary) -> usize {
    match i {
        ItemSummary::Use { start, .. } => *start,
        ItemSummary::Def { start, .. } => *start,
    }
}

fn fresh() -> Context {
    Context::new(BuiltinModuleImporter::default())
}

/// The module table as text, for tools/gen_modules.py.  Free value identifiers are resolved with the real
/// prefix parser of a session that has every module loaded (`km` → `m`); if that session cannot be built the
/// identifiers are written as they stand and the header says so.
fn dump(path: &str) {
    let table = match load_table() {
        Ok(t) => t,
        Err(e) => {
            eprintln!("{}", e);
            std::process::exit(3);
        }
    };
    // files on disk must be exactly the embedded list
    let mut on_disk: Vec<String> = vec![];
    fn walk(dir: &std::path::Path, prefix: &str, out: &mut Vec<String>) {
        if let Ok(rd) = std::fs::read_dir(dir) {
            for e in rd.flatten() {
                let p = e.path();
                let n = e.file_name().to_string_lossy().to_string();
                if p.is_dir() {
                    walk(&p, &format!("{}{}::", prefix, n), out);
                } else if let Some(stem) = n.strip_suffix(".nbt") {
                    out.push(format!("{}{}", prefix, stem));
                }
            }
        }
    }
    // (C17_MODULES_DIR: only for running the check against a private copy of the repository)
    let modules_dir = std::env::var("C17_MODULES_DIR").unwrap_or_else(|_| "/repo/numbat/modules".into());
    walk(std::path::Path::new(&modules_dir), "", &mut on_disk);
    on_disk.sort();
    let listed: Vec<String> = table.iter().map(|m| m.name.clone()).collect();
    if on_disk != listed {
        eprintln!("embedded module list differs from {}: {:?} vs {:?}", modules_dir, listed, on_disk);
        std::process::exit(3);
    }

    let mut all = fresh();
    let mut resolved = true;
    for m in &table {
        let ok = catch(std::panic::AssertUnwindSafe(|| {
            all.interpret(&format!("use {}", m.name), CodeSource::Internal).is_ok()
        }))
        .unwrap_or(false);
        if !ok {
            resolved = false;
        }
    }
    let mut s = String::new();
    s.push_str(&format!("# module table of /repo/numbat/modules; prefixes_resolved={}\n", resolved));
    for m in &table {
        s.push_str(&format!("module {}\n", m.name));
        for it in &m.items {
            match it {
                ItemSummary::Use { target, .. } => s.push_str(&format!("use {}\n", target)),
                ItemSummary::Def { kind, names, type_names, uses, type_uses, type_params, .. } => {
                    let mut u: Vec<String> = uses
                        .iter()
                        .map(|x| if resolved { all.verif_c17_resolve_identifier(x) } else { x.clone() })
                        .collect();
                    u.sort();
                    u.dedup();
                    s.push_str(&format!(
                        "def {} names={} tnames={} uses={} tuses={} tparams={}\n",
                        kind,
                        names.join(","),
                        type_names.join(","),
                        u.join(","),
                        type_uses.join(","),
                        type_params.join(",")
                    ));
                }
            }
        }
    }
    std::fs::write(path, s).expect("write dump");
}

// ------------------------------------------------------------------------------------------ oracle

#[derive(Clone, Copy, Debug, PartialEq)]
enum Style {
    Sep,
    One,
}

impl Style {
    fn text(self) -> &'static str {
        match self {
            Style::Sep => "sep",
            Style::One => "one",
        }
    }
}

fn case_text(style: Style, seq: &[String]) -> String {
    format!("seq {} {}", style.text(), seq.join(" "))
}

/// imports `seq` into `ctx`; Err = description of the first failure
fn import_seq(ctx: &mut Context, style: Style, seq: &[String]) -> Result<(), String> {
    let inputs: Vec<String> = match style {
        Style::Sep => seq.iter().map(|m| format!("use {}", m)).collect(),
        Style::One => vec![seq.iter().map(|m| format!("use {}", m)).collect::<Vec<_>>().join("\n")],
    };
    for (k, input) in inputs.iter().enumerate() {
        let r = catch(std::panic::AssertUnwindSafe(|| {
            ctx.interpret(input, CodeSource::Text).map(|_| ()).map_err(|e| e.to_string())
        }));
        match r {
            Ok(Ok(())) => {}
            Ok(Err(e)) => {
                let what = match style {
                    Style::Sep => format!("`use {}` (import #{}) fails: {}", seq[k], k + 1, e),
                    Style::One => format!("the imports fail: {}", e),
                };
                return Err(what.replace('\n', " "));
            }
            Err(p) => return Err(format!("panic during import: {}", p)),
        }
    }
    Ok(())
}

fn first_diff(a: &[String], b: &[String]) -> String {
    let sa: BTreeSet<&String> = a.iter().collect();
    let sb: BTreeSet<&String> = b.iter().collect();
    let only_a: Vec<&&String> = sa.difference(&sb).take(2).collect();
    let only_b: Vec<&&String> = sb.difference(&sa).take(2).collect();
    let cut = |s: &String| -> String { s.chars().take(220).collect() };
    format!(
        "only here: {:?}; only there: {:?}",
        only_a.iter().map(|s| cut(s)).collect::<Vec<_>>(),
        only_b.iter().map(|s| cut(s)).collect::<Vec<_>>()
    )
}

struct Verdict {
    /// None = property holds on this case
    fail: Option<(String, String)>, // (kind, what)
    imported: usize,
}

/// the property, evaluated on the real interpreter for one import sequence
fn oracle(style: Style, seq: &[String], reimport_pick: u64, sorted_cache: Option<&Mutex<HashMap<String, Vec<String>>>>) -> Verdict {
    let mut ctx = fresh();
    if let Err(e) = import_seq(&mut ctx, style, seq) {
        return Verdict { fail: Some(("import-fails".into(), e)), imported: 0 };
    }
    let digest = ctx.verif_c17_digest();
    let imported = ctx.verif_c17_imported();

    // (2) importing again changes nothing
    let mut again: Vec<String> = seq.to_vec();
    if !imported.is_empty() {
        again.push(imported[(reimport_pick % imported.len() as u64) as usize].clone());
        again.push(imported[((reimport_pick / 7919) % imported.len() as u64) as usize].clone());
    }
    if let Err(e) = import_seq(&mut ctx, style, &again) {
        return Verdict { fail: Some(("reimport-fails".into(), e)), imported: imported.len() };
    }
    let digest2 = ctx.verif_c17_digest();
    if digest2 != digest {
        return Verdict {
            fail: Some(("reimport-changes".into(), format!("importing {:?} a second time changed the session: {}", again, first_diff(&digest2, &digest)))),
            imported: imported.len(),
        };
    }

    // (3) same as the sorted order
    let mut sorted: Vec<String> = seq.to_vec();
    sorted.sort();
    sorted.dedup();
    if sorted.as_slice() != seq {
        let key = sorted.join(" ");
        let cached = sorted_cache.and_then(|c| c.lock().unwrap().get(&key).cloned());
        let reference = match cached {
            Some(d) => d,
            None => {
                let mut c2 = fresh();
                if let Err(e) = import_seq(&mut c2, Style::Sep, &sorted) {
                    return Verdict { fail: Some(("import-fails".into(), format!("sorted order {:?}: {}", sorted, e))), imported: imported.len() };
                }
                let d = c2.verif_c17_digest();
                if let Some(c) = sorted_cache {
                    c.lock().unwrap().insert(key, d.clone());
                }
                d
            }
        };
        if reference != digest {
            return Verdict {
                fail: Some(("order-dependent".into(), format!("session differs from the one importing {:?}: {}", sorted, first_diff(&digest, &reference)))),
                imported: imported.len(),
            };
        }
    }
    Verdict { fail: None, imported: imported.len() }
}

/// the modules a session importing `seq` records (closure of the sequence), from the parsed module sources
fn closure_of(table: &[ModInfo], seq: &[String]) -> Vec<String> {
    let mut seen: Vec<String> = vec![];
    let mut todo: Vec<String> = seq.to_vec();
    while let Some(m) = todo.pop() {
        if seen.contains(&m) {
            continue;
        }
        if let Some(info) = table.iter().find(|x| x.name == m) {
            for it in &info.items {
                if let ItemSummary::Use { target, .. } = it {
                    todo.push(target.clone());
                }
            }
        }
        seen.push(m);
    }
    seen.sort();
    seen
}

/// smallest failing import sequence with the same kind of failure: first the sequence with modules dropped,
/// then (the first `deep` times) every single module and every ordered pair of the closure of the sequence
fn minimise(table: &[ModInfo], style: Style, seq: &[String], kind: &str, threads: usize, deep: bool) -> Vec<String> {
    let same = |c: &[String]| matches!(&oracle(style, c, 0, None).fail, Some((k2, _)) if k2 == kind);
    let small = shrink_seq(seq, |c| same(c));
    if !deep || (small.len() == 1 && closure_of(table, &small).len() == 1) {
        return small;
    }
    let clos = closure_of(table, &small);
    // candidates with the smallest own closure first
    let mut clos: Vec<(usize, String)> = clos.into_iter().map(|m| (closure_of(table, &[m.clone()]).len(), m)).collect();
    clos.sort();
    let clos: Vec<String> = clos.into_iter().map(|(_, m)| m).collect();
    let singles: Vec<Vec<String>> = clos.iter().map(|m| vec![m.clone()]).collect();
    let r = parallel(&singles, threads, |c| same(c));
    if let Some(i) = r.iter().position(|x| *x) {
        return singles[i].clone();
    }
    if small.len() <= 2 && clos.len() == small.len() {
        return small;
    }
    let mut pairs: Vec<Vec<String>> = vec![];
    for a in &clos {
        for b in &clos {
            if a != b {
                pairs.push(vec![a.clone(), b.clone()]);
            }
        }
    }
    pairs.sort_by_key(|p| closure_of(table, p).len());
    let r = parallel(&pairs, threads, |c| same(c));
    if let Some(i) = r.iter().position(|x| *x) {
        return pairs[i].clone();
    }
    small
}

fn report(out: &mut Out, table: &[ModInfo], threads: usize, style: Style, seq: &[String], v: &Verdict) {
    if let Some((kind, what)) = &v.fail {
        let deep = out.oracle_failures < 3;
        let small = minimise(table, style, seq, kind, threads, deep);
        let v2 = oracle(style, &small, 0, None);
        let (small, what) = match v2.fail {
            Some((_, w)) => (small, w),
            None => (seq.to_vec(), what.clone()),
        };
        out.oracle_fail(&format!("c17:{}:{}", kind, small.join(",")), &case_text(style, &small), &what);
        out.count(&format!("oracle_fail_{}", kind));
    }
}


// ------------------------------------------------------------------------------------------ correspondence

fn fmt_trace(
    r: Result<Vec<numbat::verif::c17::TracedStatement>, TraceError>,
    idx_of: &dyn Fn(&Option<String>, usize) -> String,
) -> String {
    match r {
        Ok(stmts) => format!(
            "ok [{}]",
            stmts
                .iter()
                .map(|s| format!(
                    "{}#{}:{}",
                    s.origin.clone().unwrap_or_else(|| "<input>".into()),
                    idx_of(&s.origin, s.start),
                    s.name.clone().unwrap_or_else(|| "-".into())
                ))
                .collect::<Vec<_>>()
                .join(" ")
        ),
        Err(TraceError::UnknownModule(m)) => format!("err unknown {}", m),
        Err(TraceError::Parse) => "err parse".into(),
    }
}

/// what the real `Resolver` returns for the inputs of a standard-library case
fn std_line(table: &[ModInfo], style: Style, seq: &[String]) -> (String, String) {
    let inputs: Vec<String> = match style {
        Style::Sep => seq.iter().map(|m| format!("use {}", m)).collect(),
        Style::One => vec![seq.iter().map(|m| format!("use {}", m)).collect::<Vec<_>>().join("\n")],
    };
    let idx_of = |origin: &Option<String>, start: usize| -> String {
        match origin {
            Some(m) => table
                .iter()
                .find(|x| &x.name == m)
                .and_then(|x| x.items.iter().position(|it| item_start(it) == start))
                .map(|i| i.to_string())
                .unwrap_or_else(|| "?".into()),
            None => "?".into(),
        }
    };
    let mut ctx = fresh();
    let mut bs = vec![];
    let mut ss = vec![];
    for input in &inputs {
        let r = catch(std::panic::AssertUnwindSafe(|| ctx.verif_c17_trace(input)));
        match r {
            Ok(r) => bs.push(fmt_trace(r, &idx_of)),
            Err(p) => bs.push(format!("panic {}", p)),
        }
        ss.push(ctx.verif_c17_imported().join(","));
    }
    (
        format!("std {} {}", style.text(), seq.join(" ")),
        format!("{} || {}", bs.join(";"), ss.join(";")),
    )
}

#[derive(Clone, Debug)]
enum SynItem {
    Use(usize),
    Def(usize),
}

impl SynItem {
    fn text(&self) -> String {
        match self {
            SynItem::Use(m) => format!("u{}", m),
            SynItem::Def(n) => format!("d{}", n),
        }
    }
    fn code(&self) -> String {
        match self {
            SynItem::Use(m) => format!("use m{}", m),
            SynItem::Def(n) => format!("let d{} = 0", n),
        }
    }
}

/// source text of a synthetic module / input and the offset of each statement as the real parser reports it
fn syn_source(items: &[SynItem]) -> (String, Vec<usize>) {
    let mut code = String::new();
    for it in items {
        code.push_str(&it.code());
        code.push('\n');
    }
    let starts = module_summary(&code).map(|v| v.iter().map(item_start).collect()).unwrap_or_default();
    (code, starts)
}

struct SynImporter {
    mods: HashMap<String, String>,
}

impl ModuleImporter for SynImporter {
    fn import(&self, path: &ModulePath) -> Option<(String, Option<PathBuf>)> {
        self.mods.get(&path.to_string()).map(|c| (c.clone(), None))
    }
    fn list_modules(&self) -> Vec<ModulePath> {
        vec![]
    }
}

/// the real `Resolver` on a synthetic module system
fn syn_line(table: &[(usize, Vec<SynItem>)], progs: &[Vec<SynItem>]) -> (String, String) {
    let mut mods = HashMap::new();
    let mut starts: HashMap<String, Vec<usize>> = HashMap::new();
    for (m, items) in table {
        let (code, st) = syn_source(items);
        // first entry wins, as in the model's association list
        mods.entry(format!("m{}", m)).or_insert(code);
        starts.entry(format!("m{}", m)).or_insert(st);
    }
    let mut ctx = Context::new(SynImporter { mods });
    let mut bs = vec![];
    let mut ss = vec![];
    for prog in progs {
        let (code, st) = syn_source(prog);
        let idx_of = |origin: &Option<String>, start: usize| -> String {
            let v = match origin {
                Some(m) => starts.get(m),
                None => Some(&st),
            };
            v.and_then(|v| v.iter().position(|s| *s == start)).map(|i| i.to_string()).unwrap_or_else(|| "?".into())
        };
        let r = catch(std::panic::AssertUnwindSafe(|| ctx.verif_c17_trace(&code)));
        match r {
            Ok(r) => bs.push(fmt_trace(r, &idx_of)),
            Err(p) => bs.push(format!("panic {}", p)),
        }
        ss.push(ctx.verif_c17_imported().join(","));
    }
    let t = table
        .iter()
        .map(|(m, items)| format!("{}={}", m, items.iter().map(|i| i.text()).collect::<Vec<_>>().join(",")))
        .collect::<Vec<_>>()
        .join("|");
    let p = progs
        .iter()
        .map(|items| items.iter().map(|i| i.text()).collect::<Vec<_>>().join(","))
        .collect::<Vec<_>>()
        .join(" ; ");
    (format!("syn {} ; {}", t, p), format!("{} || {}", bs.join(";"), ss.join(";")))
}

fn random_syn(rng: &mut Rng) -> (Vec<(usize, Vec<SynItem>)>, Vec<Vec<SynItem>>) {
    let n = 1 + rng.below(6);
    let mut next_def = 0usize;
    let mut item = |rng: &mut Rng, use_weight: u32| -> SynItem {
        if rng.chance(use_weight, 10) {
            // mostly existing modules; sometimes one that does not exist
            if rng.chance(1, 40) { SynItem::Use(n + rng.below(2)) } else { SynItem::Use(rng.below(n)) }
        } else {
            next_def += 1;
            SynItem::Def(next_def)
        }
    };
    let mut table = vec![];
    for m in 0..n {
        let k = rng.below(5);
        let items: Vec<SynItem> = (0..k).map(|_| item(rng, 5)).collect();
        table.push((m, items));
    }
    let np = 1 + rng.below(3);
    let mut progs = vec![];
    for _ in 0..np {
        let k = 1 + rng.below(4);
        progs.push((0..k).map(|_| item(rng, 8)).collect());
    }
    (table, progs)
}

fn parse_syn(line: &str) -> Option<(Vec<(usize, Vec<SynItem>)>, Vec<Vec<SynItem>>)> {
    let body = line.strip_prefix("syn ")?;
    let mut parts = body.split(';');
    let items = |s: &str| -> Vec<SynItem> {
        s.trim()
            .split(',')
            .filter_map(|x| {
                let x = x.trim();
                if let Some(r) = x.strip_prefix('u') {
                    r.parse().ok().map(SynItem::Use)
                } else if let Some(r) = x.strip_prefix('d') {
                    r.parse().ok().map(SynItem::Def)
                } else {
                    None
                }
            })
            .collect()
    };
    let table = parts
        .next()?
        .trim()
        .split('|')
        .filter_map(|e| {
            let (m, its) = e.split_once('=')?;
            Some((m.trim().parse().ok()?, items(its)))
        })
        .collect();
    let progs = parts.map(|p| items(p)).collect();
    Some((table, progs))
}

// ------------------------------------------------------------------------------------------ main

fn parse_case(line: &str) -> Option<(Style, Vec<String>)> {
    let w: Vec<&str> = line.split_whitespace().collect();
    if w.len() < 3 || w[0] != "seq" {
        return None;
    }
    let style = match w[1] {
        "sep" => Style::Sep,
        "one" => Style::One,
        _ => return None,
    };
    Some((style, w[2..].iter().map(|s| s.to_string()).collect()))
}

/// runs `jobs` on `threads` worker threads, results in job order
fn parallel<T: Send, J: Sync>(jobs: &[J], threads: usize, f: impl Fn(&J) -> T + Sync) -> Vec<T> {
    let next = std::sync::atomic::AtomicUsize::new(0);
    let results: Mutex<Vec<Option<T>>> = Mutex::new((0..jobs.len()).map(|_| None).collect());
    std::thread::scope(|s| {
        for _ in 0..threads.max(1) {
            s.spawn(|| loop {
                let i = next.fetch_add(1, std::sync::atomic::Ordering::SeqCst);
                if i >= jobs.len() {
                    break;
                }
                let r = f(&jobs[i]);
                results.lock().unwrap()[i] = Some(r);
            });
        }
    });
    results.into_inner().unwrap().into_iter().map(|x| x.expect("job result")).collect()
}

fn main() {
    let args = Args::parse();
    Context::use_test_exchange_rates();
    if let Some(p) = args.extra.get("dump") {
        dump(p);
        return;
    }
    let mut out = Out::new(&args);
    out.rule = "import sequences over the embedded standard-library modules in fresh sessions: every module alone, ordered pairs (quick: 600 random; thorough: all 3782), random subsets of 3..12 modules in random order with repeated entries, each either as one input per `use` or as one multi-line input; non-trivial = at least two distinct modules, not already in sorted order".into();
    let t0 = std::time::Instant::now();

    let names = module_names();
    let threads = std::thread::available_parallelism().map(|n| n.get()).unwrap_or(4).min(16);
    let cache: Mutex<HashMap<String, Vec<String>>> = Mutex::new(HashMap::new());

    let mut cases: Vec<(Style, Vec<String>, u64)> = vec![];
    let mut syn_replay: Vec<(Vec<(usize, Vec<SynItem>)>, Vec<Vec<SynItem>>)> = vec![];
    let mut rng = Rng::new(args.seed);

    if let Some(p) = &args.replay {
        for l in read_lines(p) {
            if let Some((st, seq)) = parse_case(&l) {
                cases.push((st, seq, 0));
            } else if let Some(c) = parse_syn(&l) {
                syn_replay.push(c);
            }
        }
    } else {
        if let Some(dir) = args.extra.get("corpus") {
            let mut files: Vec<PathBuf> = std::fs::read_dir(dir).map(|d| d.filter_map(|e| e.ok()).map(|e| e.path()).collect()).unwrap_or_default();
            files.sort();
            for f in files {
                for l in read_lines(&f) {
                    if let Some((st, seq)) = parse_case(&l) {
                        cases.push((st, seq, 0));
                        out.count("corpus_cases");
                    } else if let Some(c) = parse_syn(&l) {
                        syn_replay.push(c);
                        out.count("corpus_cases");
                    }
                }
            }
        }
        // every module alone
        for n in &names {
            cases.push((Style::Sep, vec![n.clone()], rng.next_u64()));
        }
        // ordered pairs
        let mut pairs: Vec<(usize, usize)> = vec![];
        for i in 0..names.len() {
            for j in 0..names.len() {
                if i != j {
                    pairs.push((i, j));
                }
            }
        }
        let npairs = if args.tier == "thorough" { pairs.len() } else { args.count(600, pairs.len()).min(pairs.len()) };
        if npairs < pairs.len() {
            rng.shuffle(&mut pairs);
            pairs.truncate(npairs);
        } else {
            out.extra.insert("exhaustive".into(), format!("all {} ordered pairs of the {} standard-library modules", pairs.len(), names.len()));
        }
        for (i, j) in pairs {
            let st = if rng.chance(1, 3) { Style::One } else { Style::Sep };
            cases.push((st, vec![names[i].clone(), names[j].clone()], rng.next_u64()));
        }
        // larger subsets, random order, repeats
        let nsub = args.count(60, 3000);
        for _ in 0..nsub {
            let k = 3 + rng.below(10);
            let mut seq: Vec<String> = (0..k).map(|_| rng.pick(&names).clone()).collect();
            // repeated imports inside the sequence
            if rng.chance(1, 2) {
                let r = rng.pick(&seq).clone();
                let pos = rng.below(seq.len() + 1);
                seq.insert(pos, r);
            }
            let st = if rng.chance(1, 2) { Style::One } else { Style::Sep };
            cases.push((st, seq, rng.next_u64()));
        }
    }

    let table = load_table().unwrap_or_default();
    let verdicts = parallel(&cases, threads, |(st, seq, pick)| oracle(*st, seq, *pick, Some(&cache)));
    // correspondence on the standard library: every case (thorough: singles, subsets and every 8th pair)
    let corr_jobs: Vec<(Style, Vec<String>)> = cases
        .iter()
        .enumerate()
        .filter(|(i, (_, seq, _))| args.tier != "thorough" || seq.len() != 2 || i % 8 == 0)
        .filter(|(_, (_, seq, _))| seq.iter().all(|m| names.contains(m)))
        .map(|(_, (st, seq, _))| (*st, seq.clone()))
        .collect();
    let corr_lines = parallel(&corr_jobs, threads, |(st, seq)| std_line(&table, *st, seq));
    for (req, ans) in &corr_lines {
        out.line(req, ans);
        out.count("correspondence_std_lines");
    }
    // correspondence on synthetic module systems (cycles, unknown modules, several inputs)
    let mut syn_cases: Vec<(Vec<(usize, Vec<SynItem>)>, Vec<Vec<SynItem>>)> = syn_replay.clone();
    if args.replay.is_none() {
        let nsyn = args.count(1500, 30000);
        let mut srng = rng.fork(17);
        for _ in 0..nsyn {
            syn_cases.push(random_syn(&mut srng));
        }
    }
    // an import cycle makes a resolver that records a module too late recurse until the stack overflows, which
    // cannot be caught in-process: try one cycle in a child process first
    let cycles_ok = args.extra.contains_key("canary") || {
        let dir = args.out.join("canary");
        let _ = std::fs::create_dir_all(&dir);
        let f = dir.join("cycle.txt");
        let _ = std::fs::write(&f, "syn 0=u1,d1|1=u0,d2 ; u0\n");
        std::env::current_exe()
            .ok()
            .and_then(|exe| {
                std::process::Command::new(exe)
                    .args(["--canary", "1", "--replay"])
                    .arg(&f)
                    .arg("--out")
                    .arg(&dir)
                    .stderr(std::process::Stdio::null())
                    .status()
                    .ok()
            })
            .map(|st| st.success())
            .unwrap_or(true)
    };
    if !cycles_ok {
        out.count("resolver_crashes_on_import_cycle");
    }
    for (t, p) in &syn_cases {
        let has_cycle = {
            let uses_of = |m: usize| -> Vec<usize> {
                t.iter()
                    .find(|(k, _)| *k == m)
                    .map(|(_, its)| its.iter().filter_map(|i| if let SynItem::Use(u) = i { Some(*u) } else { None }).collect())
                    .unwrap_or_default()
            };
            t.iter().any(|(m, _)| {
                let mut seen = vec![];
                let mut todo = uses_of(*m);
                let mut hit = false;
                while let Some(x) = todo.pop() {
                    if x == *m {
                        hit = true;
                    }
                    if !seen.contains(&x) {
                        seen.push(x);
                        todo.extend(uses_of(x));
                    }
                }
                hit
            })
        };
        if has_cycle && !cycles_ok {
            let t_txt = t.iter().map(|(m, items)| format!("{}={}", m, items.iter().map(|i| i.text()).collect::<Vec<_>>().join(","))).collect::<Vec<_>>().join("|");
            let p_txt = p.iter().map(|items| items.iter().map(|i| i.text()).collect::<Vec<_>>().join(",")).collect::<Vec<_>>().join(" ; ");
            out.line(&format!("syn {} ; {}", t_txt, p_txt), "not run: the resolver crashed (stack overflow) on an import cycle in a child process");
            continue;
        }
        let (req, ans) = syn_line(t, p);
        out.count(if ans.contains("err") { "syn_with_unknown_module_error" } else { "syn_all_inputs_ok" });
        out.count(&format!("syn_modules_{}", t.len()));
        // shape of the synthetic module graph: does it have a cycle, does a module import itself
        let uses_of = |m: usize| -> Vec<usize> {
            t.iter()
                .find(|(k, _)| *k == m)
                .map(|(_, its)| its.iter().filter_map(|i| if let SynItem::Use(u) = i { Some(*u) } else { None }).collect())
                .unwrap_or_default()
        };
        let mut cyclic = false;
        for (m, _) in t.iter() {
            let mut seen = vec![];
            let mut todo = uses_of(*m);
            while let Some(x) = todo.pop() {
                if x == *m {
                    cyclic = true;
                }
                if !seen.contains(&x) {
                    seen.push(x);
                    todo.extend(uses_of(x));
                }
            }
        }
        out.count(if cyclic { "syn_graph_cyclic" } else { "syn_graph_acyclic" });
        let imported_last = ans.rsplit(';').next().map(|s| if s.trim().is_empty() || s.ends_with("|| ") { 0 } else { s.split(',').count() }).unwrap_or(0);
        out.count(&format!("syn_imported_at_end_{}", imported_last.min(6)));
        let uses_total: usize = p.iter().map(|x| x.iter().filter(|i| matches!(i, SynItem::Use(_))).count()).sum();
        if uses_total > imported_last {
            out.count("syn_with_skipped_reimport");
        }
        out.line(&req, &ans);
        out.case(&req, t.len() >= 2);
    }
    for ((st, seq, _), v) in cases.iter().zip(verdicts.iter()) {
        let mut set = seq.clone();
        set.sort();
        set.dedup();
        out.case(&case_text(*st, seq), set.len() >= 2 && set.as_slice() != seq.as_slice());
        out.count(&format!("style_{}", st.text()));
        out.count(&format!("distinct_modules_{:02}", set.len().min(13)));
        if seq.len() != set.len() {
            out.count("with_repeated_module");
        }
        out.count(&format!("imported_closure_size_{:02}x", v.imported / 10));
        out.count(if v.fail.is_some() { "verdict_fail" } else { "verdict_ok" });
        report(&mut out, &table, threads, *st, seq, v);
    }
    out.extra.insert("oracle_wall_s".into(), format!("{:.1}", t0.elapsed().as_secs_f64()));
    out.extra.insert("threads".into(), threads.to_string());
    let _ = BTreeMap::<String, String>::new();
    out.finish();
}
