//! dump_units: the unit table of a session with the prelude loaded, in topological order, one row per line
//!   <name> <0|1 isBase> <factor bits (decimal u64)> <abbr 0|1> <definition: idx:b|m:prefixexp:num/den,...>
//! Used by tools/gen_units.py to regenerate lean/NumbatModel/Gen/UnitTable.lean from /repo on every run.
use nvh::qty::*;

fn main() {
    let ctx = prelude_ctx();
    let units = Units::load(&ctx);
    for r in &units.rows {
        let def: Vec<String> = r
            .definition
            .iter()
            .map(|f| format!("{}:{}:{}:{}/{}", units.index[&f.unit], if f.binary { "b" } else { "m" }, f.prefix_exp, f.num, f.den))
            .collect();
        println!("{} {} {} {} {}", r.name, if r.is_base { 1 } else { 0 }, r.factor_bits, if r.is_abbreviation { 1 } else { 0 }, if def.is_empty() { "-".to_string() } else { def.join(",") });
    }
}
