//! probe: interpret the inputs of a session file (inputs separated by a line `----`) in one Context
//! (prelude loaded unless --no-prelude) and print each result / error.  A development aid, not a check.
use numbat::module_importer::BuiltinModuleImporter;
use numbat::resolver::CodeSource;
use numbat::{Context, InterpreterResult, InterpreterSettings};
use std::sync::{Arc, Mutex};

fn main() {
    let args: Vec<String> = std::env::args().collect();
    let text = std::fs::read_to_string(&args[1]).expect("read");
    let mut ctx = Context::new(BuiltinModuleImporter::default());
    if !args.iter().any(|a| a == "--no-prelude") {
        let _ = ctx.interpret("use prelude", CodeSource::Internal).expect("prelude");
    }
    for input in text.split("\n----\n") {
        let out = Arc::new(Mutex::new(Vec::<String>::new()));
        let o2 = out.clone();
        let mut settings = InterpreterSettings {
            print_fn: Box::new(move |m| o2.lock().unwrap().push(m.to_string())),
        };
        let r = nvh::catch(std::panic::AssertUnwindSafe(|| {
            match ctx.interpret_with_settings(&mut settings, input, CodeSource::Text) {
                Ok((stmts, res)) => {
                    let pp: Vec<String> = stmts.iter().map(|s| { use numbat::pretty_print::PrettyPrint; s.pretty_print().to_string() }).collect();
                    let v = match res {
                        InterpreterResult::Value(v) => format!("value {}", v.pretty_print()),
                        InterpreterResult::Continue => "continue".to_string(),
                    };
                    format!("OK {} | echo: {}", v, pp.join(" ; "))
                }
                Err(e) => format!("ERR {}", e),
            }
        }));
        println!(">>> {}", input.replace('\n', " ⏎ "));
        for l in out.lock().unwrap().iter() {
            println!("    print: {}", l);
        }
        match r {
            Ok(s) => println!("    {}", s),
            Err(p) => println!("    PANIC {}", p),
        }
    }
}
