//! Shared plumbing of the correspondence harness.
//!
//! Every property has its own binary `src/bin/cXX.rs`.  A binary is invoked as
//!
//!   cXX --tier quick|thorough|search --seed N --out DIR [--replay FILE] [--budget K]
//!
//! and writes into DIR
//!   req.txt      one model request per line (fed to the Lean driver `drv_cXX`)
//!   impl.txt     the implementation's answer for the same line (diffed against the driver output)
//!   oracle.jsonl one JSON object per failure of the *property oracle on the implementation*
//!                {"key": stable identifier used for known-finding matching, "input": replayable input, "what": text}
//!   stats.json   measured coverage (evaluations, distinct_nontrivial, rule, samples, histogram)
//!
//! All random choices derive from the one `Rng` seeded from `--seed`.

pub mod qty;

use std::collections::{BTreeMap, HashSet};
use std::fmt::Write as _;
use std::fs::File;
use std::io::{BufWriter, Write};
use std::path::PathBuf;

// ---------------------------------------------------------------- PRNG

/// splitmix64-seeded xoshiro256**; deterministic, no external crate.
#[derive(Clone, Debug)]
pub struct Rng {
    s: [u64; 4],
}

fn splitmix(x: &mut u64) -> u64 {
    *x = x.wrapping_add(0x9E3779B97F4A7C15);
    let mut z = *x;
    z = (z ^ (z >> 30)).wrapping_mul(0xBF58476D1CE4E5B9);
    z = (z ^ (z >> 27)).wrapping_mul(0x94D049BB133111EB);
    z ^ (z >> 31)
}

impl Rng {
    pub fn new(seed: u64) -> Self {
        let mut x = seed ^ 0xA5A5_5A5A_DEAD_BEEF;
        Rng {
            s: [
                splitmix(&mut x),
                splitmix(&mut x),
                splitmix(&mut x),
                splitmix(&mut x),
            ],
        }
    }
    /// independent stream derived from this generator and a label
    pub fn fork(&mut self, label: u64) -> Rng {
        Rng::new(self.next_u64() ^ label.wrapping_mul(0x9E3779B97F4A7C15))
    }
    pub fn next_u64(&mut self) -> u64 {
        let r = self.s[1].wrapping_mul(5).rotate_left(7).wrapping_mul(9);
        let t = self.s[1] << 17;
        self.s[2] ^= self.s[0];
        self.s[3] ^= self.s[1];
        self.s[1] ^= self.s[2];
        self.s[0] ^= self.s[3];
        self.s[2] ^= t;
        self.s[3] = self.s[3].rotate_left(45);
        r
    }
    /// uniform in 0..n (n > 0)
    pub fn below(&mut self, n: usize) -> usize {
        (self.next_u64() % (n as u64)) as usize
    }
    /// uniform in lo..=hi
    pub fn range(&mut self, lo: i64, hi: i64) -> i64 {
        lo + (self.next_u64() % ((hi - lo + 1) as u64)) as i64
    }
    pub fn chance(&mut self, num: u32, den: u32) -> bool {
        (self.next_u64() % den as u64) < num as u64
    }
    pub fn pick<'a, T>(&mut self, xs: &'a [T]) -> &'a T {
        &xs[self.below(xs.len())]
    }
    pub fn unit_f64(&mut self) -> f64 {
        (self.next_u64() >> 11) as f64 / (1u64 << 53) as f64
    }
    pub fn shuffle<T>(&mut self, xs: &mut [T]) {
        for i in (1..xs.len()).rev() {
            let j = self.below(i + 1);
            xs.swap(i, j);
        }
    }
}

// ---------------------------------------------------------------- arguments

#[derive(Clone, Debug)]
pub struct Args {
    pub tier: String,
    pub seed: u64,
    pub out: PathBuf,
    pub replay: Option<PathBuf>,
    pub budget: Option<usize>,
    pub extra: BTreeMap<String, String>,
}

impl Args {
    pub fn parse() -> Args {
        let mut a = Args {
            tier: "quick".into(),
            seed: 1,
            out: PathBuf::from("."),
            replay: None,
            budget: None,
            extra: BTreeMap::new(),
        };
        let v: Vec<String> = std::env::args().skip(1).collect();
        let mut i = 0;
        while i < v.len() {
            let val = v.get(i + 1).cloned().unwrap_or_default();
            match v[i].as_str() {
                "--tier" => a.tier = val,
                "--seed" => a.seed = val.parse().unwrap_or(1),
                "--out" => a.out = PathBuf::from(val),
                "--replay" => a.replay = Some(PathBuf::from(val)),
                "--budget" => a.budget = val.parse().ok(),
                k if k.starts_with("--") => {
                    a.extra.insert(k[2..].to_string(), val);
                }
                _ => {}
            }
            i += 2;
        }
        a
    }
    /// number of cases for the tier (`search` = the extended search after a broken tie)
    pub fn count(&self, quick: usize, thorough: usize) -> usize {
        if let Some(b) = self.budget {
            return b;
        }
        match self.tier.as_str() {
            "thorough" => thorough,
            "search" => (quick * 4).min(thorough),
            _ => quick,
        }
    }
}

// ---------------------------------------------------------------- output

pub fn json_str(s: &str) -> String {
    let mut o = String::with_capacity(s.len() + 2);
    o.push('"');
    for c in s.chars() {
        match c {
            '"' => o.push_str("\\\""),
            '\\' => o.push_str("\\\\"),
            '\n' => o.push_str("\\n"),
            '\r' => o.push_str("\\r"),
            '\t' => o.push_str("\\t"),
            c if (c as u32) < 0x20 => {
                let _ = write!(o, "\\u{:04x}", c as u32);
            }
            c => o.push(c),
        }
    }
    o.push('"');
    o
}

/// FNV-1a, used to count distinct cases
pub fn hash64(s: &str) -> u64 {
    let mut h: u64 = 0xcbf29ce484222325;
    for b in s.as_bytes() {
        h ^= *b as u64;
        h = h.wrapping_mul(0x100000001b3);
    }
    h
}

pub struct Out {
    req: BufWriter<File>,
    imp: BufWriter<File>,
    oracle: BufWriter<File>,
    dir: PathBuf,
    pub lines: usize,
    pub evaluations: usize,
    pub oracle_failures: usize,
    distinct: HashSet<u64>,
    pub histogram: BTreeMap<String, u64>,
    samples: Vec<String>,
    pub rule: String,
    pub extra: BTreeMap<String, String>,
}

impl Out {
    pub fn new(args: &Args) -> Out {
        std::fs::create_dir_all(&args.out).expect("create out dir");
        let f = |n: &str| BufWriter::new(File::create(args.out.join(n)).expect("create"));
        Out {
            req: f("req.txt"),
            imp: f("impl.txt"),
            oracle: f("oracle.jsonl"),
            dir: args.out.clone(),
            lines: 0,
            evaluations: 0,
            oracle_failures: 0,
            distinct: HashSet::new(),
            histogram: BTreeMap::new(),
            samples: Vec::new(),
            rule: String::new(),
            extra: BTreeMap::new(),
        }
    }
    /// one request for the model and the implementation's answer to it
    pub fn line(&mut self, req: &str, imp: &str) {
        debug_assert!(!req.contains('\n') && !imp.contains('\n'));
        writeln!(self.req, "{}", req).unwrap();
        writeln!(self.imp, "{}", imp).unwrap();
        self.lines += 1;
    }
    /// a request with no expected answer (state set-up for the driver); driver must answer "ok"
    pub fn setup(&mut self, req: &str) {
        self.line(req, "ok");
    }
    /// count one generated case; `canon` identifies it for distinctness, `nontrivial` by the stated rule
    pub fn case(&mut self, canon: &str, nontrivial: bool) {
        self.evaluations += 1;
        if nontrivial {
            self.distinct.insert(hash64(canon));
        }
        if self.samples.len() < 5 {
            let mut s = canon.to_string();
            if s.len() > 400 {
                let mut cut = 400;
                while !s.is_char_boundary(cut) {
                    cut -= 1;
                }
                s.truncate(cut);
                s.push('…');
            }
            self.samples.push(s);
        }
    }
    pub fn count(&mut self, key: &str) {
        *self.histogram.entry(key.to_string()).or_insert(0) += 1;
    }
    pub fn count_n(&mut self, key: &str, n: u64) {
        *self.histogram.entry(key.to_string()).or_insert(0) += n;
    }
    /// a failure of the property oracle on the implementation
    pub fn oracle_fail(&mut self, key: &str, input: &str, what: &str) {
        self.oracle_failures += 1;
        writeln!(
            self.oracle,
            "{{\"key\":{},\"input\":{},\"what\":{}}}",
            json_str(key),
            json_str(input),
            json_str(what)
        )
        .unwrap();
    }
    pub fn finish(mut self) {
        self.req.flush().unwrap();
        self.imp.flush().unwrap();
        self.oracle.flush().unwrap();
        let mut s = String::new();
        s.push_str("{\n");
        let _ = writeln!(s, "  \"evaluations\": {},", self.evaluations);
        let _ = writeln!(s, "  \"distinct_nontrivial\": {},", self.distinct.len());
        let _ = writeln!(s, "  \"lines\": {},", self.lines);
        let _ = writeln!(s, "  \"oracle_failures\": {},", self.oracle_failures);
        let _ = writeln!(s, "  \"rule\": {},", json_str(&self.rule));
        let _ = writeln!(
            s,
            "  \"samples\": [{}],",
            self.samples
                .iter()
                .map(|x| json_str(x))
                .collect::<Vec<_>>()
                .join(", ")
        );
        let _ = writeln!(
            s,
            "  \"extra\": {{{}}},",
            self.extra
                .iter()
                .map(|(k, v)| format!("{}: {}", json_str(k), json_str(v)))
                .collect::<Vec<_>>()
                .join(", ")
        );
        let _ = writeln!(
            s,
            "  \"histogram\": {{{}}}",
            self.histogram
                .iter()
                .map(|(k, v)| format!("{}: {}", json_str(k), v))
                .collect::<Vec<_>>()
                .join(", ")
        );
        s.push_str("}\n");
        std::fs::write(self.dir.join("stats.json"), s).unwrap();
    }
}

// ---------------------------------------------------------------- misc helpers

/// run `f`, turning a panic into Err(location/message); the panic hook is silenced while running
pub fn catch<T>(f: impl FnOnce() -> T + std::panic::UnwindSafe) -> Result<T, String> {
    use std::sync::Mutex;
    static LAST: Mutex<Option<String>> = Mutex::new(None);
    let prev = std::panic::take_hook();
    std::panic::set_hook(Box::new(|info| {
        let loc = info
            .location()
            .map(|l| format!("{}:{}", l.file(), l.line()))
            .unwrap_or_else(|| "?".into());
        let msg = if let Some(s) = info.payload().downcast_ref::<&str>() {
            s.to_string()
        } else if let Some(s) = info.payload().downcast_ref::<String>() {
            s.clone()
        } else {
            "?".into()
        };
        *LAST.lock().unwrap() = Some(format!("{} :: {}", loc, msg));
    }));
    let r = std::panic::catch_unwind(f);
    std::panic::set_hook(prev);
    match r {
        Ok(v) => Ok(v),
        Err(_) => Err(LAST.lock().unwrap().take().unwrap_or_else(|| "?".into())),
    }
}

/// f64 as 16 hex digits of its bit pattern (the only float encoding used on the wire)
pub fn fbits(x: f64) -> String {
    format!("{:016x}", x.to_bits())
}

/// read the replay file as lines (a replay file's `input` is what a binary re-runs)
pub fn read_lines(p: &std::path::Path) -> Vec<String> {
    std::fs::read_to_string(p)
        .map(|s| s.lines().map(|l| l.to_string()).collect())
        .unwrap_or_default()
}

/// greedy delta-debugging on a sequence: repeatedly drop chunks / single items while `fails` stays true
pub fn shrink_seq<T: Clone>(items: &[T], fails: impl Fn(&[T]) -> bool) -> Vec<T> {
    let mut cur: Vec<T> = items.to_vec();
    // shortest failing prefix first
    for n in 1..=cur.len() {
        if fails(&cur[..n]) {
            cur.truncate(n);
            break;
        }
    }
    let mut chunk = (cur.len() / 2).max(1);
    loop {
        let mut progressed = false;
        let mut i = 0;
        while i < cur.len() {
            let end = (i + chunk).min(cur.len());
            let mut cand = cur[..i].to_vec();
            cand.extend_from_slice(&cur[end..]);
            if !cand.is_empty() && fails(&cand) {
                cur = cand;
                progressed = true;
            } else {
                i += chunk;
            }
        }
        if !progressed {
            if chunk == 1 {
                break;
            }
            chunk = (chunk / 2).max(1);
        }
    }
    cur
}
