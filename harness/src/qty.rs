//! Shared by the quantity binaries (C03, C04, C05, C11, C12, C21): the session's unit table, unit and
//! quantity descriptions on the wire, generators over units / prefixes / magnitudes.

use crate::{fbits, Out, Rng};
use numbat::module_importer::BuiltinModuleImporter;
use numbat::resolver::CodeSource;
use numbat::verif::c03::{show_unit, FactorDesc, QDesc, UnitRow};
use numbat::Context;
use std::collections::{BTreeMap, HashMap};

pub const METRIC: &[i32] = &[
    -30, -27, -24, -21, -18, -15, -12, -9, -6, -3, -2, -1, 1, 2, 3, 6, 9, 12, 15, 18, 21, 24, 27, 30,
];
pub const BINARY: &[i32] = &[10, 20, 30, 40, 50, 60, 70, 80, 90, 100];

pub fn prelude_ctx() -> Context {
    let mut ctx = Context::new(BuiltinModuleImporter::default());
    let _ = ctx.interpret("use prelude", CodeSource::Internal).expect("prelude loads");
    ctx
}

pub struct Units {
    /// topologically ordered: a definition only refers to earlier rows
    pub rows: Vec<UnitRow>,
    pub index: HashMap<String, usize>,
    /// dimension key (canonical base representation text) -> row indices
    pub by_dim: BTreeMap<String, Vec<usize>>,
    pub dim_of: Vec<String>,
}

impl Units {
    pub fn load(ctx: &Context) -> Units {
        let table = ctx.verif_unit_table();
        let by_name: HashMap<String, UnitRow> = table.iter().map(|r| (r.name.clone(), r.clone())).collect();
        // topological order (depth-first over definitions), names sorted for determinism
        let mut rows: Vec<UnitRow> = Vec::new();
        let mut index: HashMap<String, usize> = HashMap::new();
        fn visit(name: &str, by_name: &HashMap<String, UnitRow>, rows: &mut Vec<UnitRow>, index: &mut HashMap<String, usize>) {
            if index.contains_key(name) {
                return;
            }
            let Some(row) = by_name.get(name) else { return };
            for f in &row.definition {
                visit(&f.unit, by_name, rows, index);
            }
            index.insert(name.to_string(), rows.len());
            rows.push(row.clone());
        }
        for r in &table {
            visit(&r.name, &by_name, &mut rows, &mut index);
        }
        // dimension of every unit from numbat's own registry
        let reps: HashMap<String, String> = ctx
            .unit_representations()
            .map(|(n, (br, _))| (n.to_string(), format!("{}", br)))
            .collect();
        let mut by_dim: BTreeMap<String, Vec<usize>> = BTreeMap::new();
        let mut dim_of = Vec::new();
        for (i, r) in rows.iter().enumerate() {
            let d = reps.get(&r.name).cloned().unwrap_or_else(|| "?".into());
            by_dim.entry(d.clone()).or_default().push(i);
            dim_of.push(d);
        }
        Units { rows, index, by_dim, dim_of }
    }

    /// the table as set-up lines for the driver
    pub fn emit(&self, out: &mut Out) {
        out.setup("tbl-reset");
        for r in &self.rows {
            out.setup(&format!(
                "u {} {} {:016x} {}",
                r.name,
                if r.is_base { 1 } else { 0 },
                r.factor_bits,
                show_unit(&r.definition)
            ));
        }
        for r in &self.rows {
            if r.is_abbreviation {
                out.setup(&format!("abbr {}", r.name));
            }
        }
    }

    /// prefixes the unit row accepts (always includes "no prefix")
    pub fn prefixes(&self, i: usize) -> Vec<(bool, i32)> {
        let r = &self.rows[i];
        let mut v = vec![(false, 0)];
        if r.metric_prefixes {
            v.extend(METRIC.iter().map(|e| (false, *e)));
        }
        if r.binary_prefixes {
            v.extend(BINARY.iter().map(|e| (true, *e)));
        }
        v
    }

    pub fn factor(&self, i: usize, prefix: (bool, i32), num: i128, den: i128) -> FactorDesc {
        FactorDesc { unit: self.rows[i].name.clone(), binary: prefix.0, prefix_exp: prefix.1, num, den }
    }

    /// a random single-factor unit (random row, random accepted prefix), exponent 1
    pub fn random_simple(&self, rng: &mut Rng, rows: &[usize]) -> Vec<FactorDesc> {
        let i = *rng.pick(rows);
        let ps = self.prefixes(i);
        let p = if rng.chance(1, 2) { (false, 0) } else { *rng.pick(&ps) };
        vec![self.factor(i, p, 1, 1)]
    }
}

pub fn q(bits: u64, factors: Vec<FactorDesc>) -> QDesc {
    QDesc { bits, factors, can_simplify: true, target: None }
}

pub fn q_text(q: &QDesc) -> String {
    format!("{:016x}{} {}", q.bits, if q.can_simplify { "" } else { "n" }, show_unit(&q.factors))
}

/// magnitudes: mostly "ordinary" values, plus powers of two across many orders of magnitude and specials
pub fn random_magnitude(rng: &mut Rng) -> f64 {
    match rng.below(20) {
        0 => 0.0,
        1 => 1.0,
        2 => -1.0,
        3 => (rng.range(1, 1000) as f64) / 8.0,
        4 => -(rng.range(1, 1000) as f64) / 8.0,
        5 => 2f64.powi(rng.range(-60, 60) as i32),
        6 => -(2f64.powi(rng.range(-60, 60) as i32)) * (1.0 + rng.unit_f64()),
        7 => rng.range(-1000, 1000) as f64,
        8 => 40.5,
        9 => 10f64.powi(rng.range(-20, 20) as i32) * (1.0 + 9.0 * rng.unit_f64()),
        _ => (rng.unit_f64() * 2000.0 - 1000.0) * if rng.chance(1, 4) { 1e-3 } else { 1.0 },
    }
}

pub fn bits_f(bits: &str) -> f64 {
    f64::from_bits(u64::from_str_radix(bits, 16).unwrap_or(0))
}

pub fn ulp_distance(a: f64, b: f64) -> u64 {
    if a == b {
        return 0;
    }
    if a.is_nan() || b.is_nan() || (a < 0.0) != (b < 0.0) {
        return u64::MAX;
    }
    let (x, y) = (a.abs().to_bits(), b.abs().to_bits());
    x.max(y) - x.min(y)
}

/// parse an answer `q <bits> <unit> <s|n>` produced by `show_quantity`
pub fn parse_answer(ans: &str) -> Option<(f64, String)> {
    let w: Vec<&str> = ans.split(' ').collect();
    if w.len() >= 3 && w[0] == "q" {
        Some((bits_f(w[1]), w[2].to_string()))
    } else {
        None
    }
}

pub fn fb(x: f64) -> String {
    fbits(x)
}

impl Units {
    /// Independent oracle: conversion factor of a unit to base units, straight from the units' *direct*
    /// definitions (prefix factor x defining factor, transitively), computed in f64 by plain recursion.
    pub fn oracle_factor(&self, factors: &[FactorDesc]) -> f64 {
        let mut acc = 1.0f64;
        for f in factors {
            let Some(&i) = self.index.get(&f.unit) else { return f64::NAN };
            let base = if f.binary { 2f64 } else { 10f64 };
            let pf = base.powi(f.prefix_exp);
            let own = if self.rows[i].is_base {
                1.0
            } else {
                f64::from_bits(self.rows[i].factor_bits) * self.oracle_factor(&self.rows[i].definition)
            };
            acc *= (pf * own).powf(f.num as f64 / f.den as f64);
        }
        acc
    }

    /// Independent oracle: exponent vector over base units (name -> rational as (num, den) reduced)
    pub fn oracle_dimension(&self, factors: &[FactorDesc]) -> BTreeMap<String, (i128, i128)> {
        fn gcd(a: i128, b: i128) -> i128 { if b == 0 { a.abs() } else { gcd(b, a % b) } }
        fn add(m: &mut BTreeMap<String, (i128, i128)>, k: &str, n: i128, d: i128) {
            let e = m.entry(k.to_string()).or_insert((0, 1));
            let (mut nn, mut dd) = (e.0 * d + n * e.1, e.1 * d);
            let g = gcd(nn, dd).max(1);
            nn /= g; dd /= g;
            if dd < 0 { nn = -nn; dd = -dd; }
            *e = (nn, dd);
        }
        let mut m = BTreeMap::new();
        for f in factors {
            let Some(&i) = self.index.get(&f.unit) else { continue };
            if self.rows[i].is_base {
                add(&mut m, &f.unit, f.num, f.den);
            } else {
                for (k, (n, d)) in self.oracle_dimension(&self.rows[i].definition) {
                    add(&mut m, &k, n * f.num, d * f.den);
                }
            }
        }
        m.retain(|_, v| v.0 != 0);
        m
    }
}

pub fn parse_factor(s: &str) -> Option<FactorDesc> {
    let p: Vec<&str> = s.split(':').collect();
    if p.len() != 3 {
        return None;
    }
    let (n, d) = p[2].split_once('/')?;
    Some(FactorDesc {
        unit: p[0].to_string(),
        binary: p[1].starts_with('b'),
        prefix_exp: p[1][1..].parse().ok()?,
        num: n.parse().ok()?,
        den: d.parse().ok()?,
    })
}

pub fn parse_unit(s: &str) -> Option<Vec<FactorDesc>> {
    let inner = s.strip_prefix('[')?.strip_suffix(']')?;
    if inner.is_empty() {
        return Some(vec![]);
    }
    inner.split(',').map(parse_factor).collect()
}

/// numbat source text of an f64 (shortest round-trip decimal; keywords for the specials)
pub fn num_src(x: f64) -> String {
    if x.is_nan() {
        "NaN".into()
    } else if x == f64::INFINITY {
        "inf".into()
    } else if x == f64::NEG_INFINITY {
        "(-inf)".into()
    } else if x < 0.0 || (x == 0.0 && x.is_sign_negative()) {
        format!("(-{:?})", -x)
    } else {
        format!("{:?}", x)
    }
}

/// numbat source text of a quantity whose unit factors carry no prefix: `(value * (u1^(n/d) * u2 ...))`
pub fn q_src(q: &QDesc) -> String {
    let mut s = num_src(f64::from_bits(q.bits));
    for f in &q.factors {
        assert!(f.prefix_exp == 0);
        if f.den == 1 && f.num == 1 {
            s.push_str(&format!(" * {}", f.unit));
        } else {
            s.push_str(&format!(" * {}^({}/{})", f.unit, f.num, f.den));
        }
    }
    format!("({})", s)
}

/// run `code` on a clone of `ctx`; canonical outcome text
pub fn interpret_bool(ctx: &Context, code: &str) -> String {
    let mut c = ctx.clone();
    match crate::catch(std::panic::AssertUnwindSafe(|| c.interpret(code, CodeSource::Internal))) {
        Err(p) => format!("panic {}", p),
        Ok(Ok((_, numbat::InterpreterResult::Value(numbat::value::Value::Boolean(b))))) => format!("bool {}", b),
        Ok(Ok(_)) => "other".into(),
        Ok(Err(e)) => match *e {
            numbat::NumbatError::RuntimeError(ref r) => {
                let t = format!("{}", r);
                if t.contains("can not be converted") { "err incompatible".into() } else { format!("err runtime {}", t) }
            }
            numbat::NumbatError::TypeCheckError(_) => "err type".into(),
            ref other => format!("err other {}", other),
        },
    }
}

// ---------------------------------------------------------------- source text of prefixed units

pub fn prefix_short(binary: bool, e: i32) -> Option<&'static str> {
    Some(match (binary, e) {
        (_, 0) => "",
        (false, -30) => "q", (false, -27) => "r", (false, -24) => "y", (false, -21) => "z", (false, -18) => "a",
        (false, -15) => "f", (false, -12) => "p", (false, -9) => "n", (false, -6) => "µ", (false, -3) => "m",
        (false, -2) => "c", (false, -1) => "d", (false, 1) => "da", (false, 2) => "h", (false, 3) => "k",
        (false, 6) => "M", (false, 9) => "G", (false, 12) => "T", (false, 15) => "P", (false, 18) => "E",
        (false, 21) => "Z", (false, 24) => "Y", (false, 27) => "R", (false, 30) => "Q",
        (true, 10) => "Ki", (true, 20) => "Mi", (true, 30) => "Gi", (true, 40) => "Ti", (true, 50) => "Pi",
        (true, 60) => "Ei", (true, 70) => "Zi", (true, 80) => "Yi", (true, 90) => "Ri", (true, 100) => "Qi",
        _ => return None,
    })
}

pub fn prefix_long(binary: bool, e: i32) -> Option<&'static str> {
    Some(match (binary, e) {
        (_, 0) => "",
        (false, -30) => "quecto", (false, -27) => "ronto", (false, -24) => "yocto", (false, -21) => "zepto",
        (false, -18) => "atto", (false, -15) => "femto", (false, -12) => "pico", (false, -9) => "nano",
        (false, -6) => "micro", (false, -3) => "milli", (false, -2) => "centi", (false, -1) => "deci",
        (false, 1) => "deca", (false, 2) => "hecto", (false, 3) => "kilo", (false, 6) => "mega", (false, 9) => "giga",
        (false, 12) => "tera", (false, 15) => "peta", (false, 18) => "exa", (false, 21) => "zetta",
        (false, 24) => "yotta", (false, 27) => "ronna", (false, 30) => "quetta",
        (true, 10) => "kibi", (true, 20) => "mebi", (true, 30) => "gibi", (true, 40) => "tebi", (true, 50) => "pebi",
        (true, 60) => "exbi", (true, 70) => "zebi", (true, 80) => "yobi", (true, 90) => "robi", (true, 100) => "quebi",
        _ => return None,
    })
}

impl Units {
    /// all source spellings (alias with a prefix in the form the alias accepts) of unit row `i` with `prefix`
    pub fn spellings(&self, i: usize, prefix: (bool, i32)) -> Vec<String> {
        let r = &self.rows[i];
        let mut v = Vec::new();
        for (alias, short, long) in &r.aliases {
            if prefix.1 == 0 {
                v.push(alias.clone());
                continue;
            }
            // a prefixed spelling is only an identifier if the alias itself could continue one: `G″` is read as
            // `G` followed by `″` (the arcsecond alias `″` is declared to accept prefixes — a known finding of
            // C13 — but such a spelling is not a way to *write* the prefixed unit)
            if !alias.chars().next().map(|c| c.is_alphabetic()).unwrap_or(false) {
                continue;
            }
            if *short {
                if let Some(p) = prefix_short(prefix.0, prefix.1) {
                    v.push(format!("{}{}", p, alias));
                }
            }
            if *long {
                if let Some(p) = prefix_long(prefix.0, prefix.1) {
                    v.push(format!("{}{}", p, alias));
                }
            }
        }
        v
    }
}

/// NaN sign/payload is not meaningful (libm `pow` returns -NaN from Rust and +NaN from Lean's runtime):
/// every NaN bit pattern in an answer `q <bits> ...` is replaced by the canonical quiet NaN
pub fn canon_nan(ans: &str) -> String {
    ans.split(' ')
        .map(|w| {
            if w.len() == 16 {
                if let Ok(b) = u64::from_str_radix(w, 16) {
                    if f64::from_bits(b).is_nan() {
                        return "7ff8000000000000".to_string();
                    }
                }
            }
            w.to_string()
        })
        .collect::<Vec<_>>()
        .join(" ")
}
