//! Shared by the session-level checks C06, C07 and C22 (included with `#[path]`, not a crate module):
//! running inputs on a real `Context`, canonical outcomes and digests, and the structured generator of
//! session statements (definitions of variables, functions, units, dimensions, structs, imports,
//! expressions, prints, `ans`) together with failing statements of every stage.
#![allow(dead_code)]

use numbat::module_importer::BuiltinModuleImporter;
use numbat::resolver::{CodeSource, ResolverError};
use numbat::{Context, InterpreterResult, InterpreterSettings, NumbatError};
use nvh::{catch, Rng};
use std::collections::BTreeSet;
use std::sync::{Arc, Mutex};

/// separators of the one-line session encoding: statements of one input, inputs of a session
pub const NL: &str = "⏎";
pub const SEP: &str = ";;";

pub fn prelude_ctx() -> Context {
    let mut ctx = Context::new(BuiltinModuleImporter::default());
    let _ = ctx
        .interpret("use prelude", CodeSource::Internal)
        .expect("prelude loads");
    ctx
}

// ---------------------------------------------------------------- running one input

#[derive(Clone, Debug, PartialEq)]
pub struct Outcome {
    /// ok | parse | module | names | types | run | panic
    pub stage: &'static str,
    /// Display text of the error (contains no source labels), empty for ok
    pub err: String,
    /// pretty-printed and raw value of the result (`-` for Continue)
    pub value: String,
    pub prints: Vec<String>,
}

impl Outcome {
    pub fn ok(&self) -> bool {
        self.stage == "ok"
    }
    /// canonical one-line text: everything a user can observe of this input except source labels
    pub fn text(&self) -> String {
        format!(
            "{}|{}|{}|{}",
            self.stage,
            self.err.replace('\n', "\\n"),
            self.value.replace('\n', "\\n"),
            self.prints
                .iter()
                .map(|p| p.replace('\n', "\\n"))
                .collect::<Vec<_>>()
                .join("¦")
        )
    }
}

pub fn stage_of(e: &NumbatError) -> &'static str {
    match e {
        NumbatError::ResolverError(ResolverError::UnknownModule(..)) => "module",
        NumbatError::ResolverError(ResolverError::ParseErrors(..)) => "parse",
        NumbatError::NameResolutionError(..) => "names",
        NumbatError::TypeCheckError(..) => "types",
        NumbatError::RuntimeError(..) => "run",
    }
}

pub fn run_input_src(ctx: &mut Context, code: &str, src: CodeSource) -> Outcome {
    let out = Arc::new(Mutex::new(Vec::<String>::new()));
    let o2 = out.clone();
    let mut settings = InterpreterSettings {
        print_fn: Box::new(move |m| o2.lock().unwrap().push(m.to_string())),
    };
    let r = catch(std::panic::AssertUnwindSafe(|| {
        match ctx.interpret_with_settings(&mut settings, code, src) {
            Ok((_stmts, res)) => {
                let v = match res {
                    InterpreterResult::Value(v) => format!(
                        "{} ~ {}",
                        v.pretty_print(),
                        numbat::verif::c06::raw_value(&v)
                    ),
                    InterpreterResult::Continue => "-".to_string(),
                };
                ("ok", String::new(), v)
            }
            Err(e) => (stage_of(&e), format!("{}", e), String::new()),
        }
    }));
    let prints = out.lock().unwrap().clone();
    match r {
        Ok((stage, err, value)) => Outcome { stage, err, value, prints },
        Err(p) => Outcome { stage: "panic", err: p, value: String::new(), prints },
    }
}

pub fn run_input(ctx: &mut Context, code: &str) -> Outcome {
    run_input_src(ctx, code, CodeSource::Text)
}

// ---------------------------------------------------------------- digests and name-level summaries

pub fn digest(ctx: &Context) -> String {
    ctx.verif_session_digest()
}

/// first section in which two digests differ (for messages)
pub fn digest_diff(a: &Context, b: &Context) -> String {
    let sa = a.verif_session_digest_sections();
    let sb = b.verif_session_digest_sections();
    for ((la, ea), (_, eb)) in sa.iter().zip(sb.iter()) {
        if ea != eb {
            let only_a: Vec<&String> = ea.iter().filter(|x| !eb.contains(x)).take(4).collect();
            let only_b: Vec<&String> = eb.iter().filter(|x| !ea.contains(x)).take(4).collect();
            return format!("section {}: only in session {:?}, only in twin {:?}", la, only_a, only_b);
        }
    }
    "no section differs".into()
}

/// names known to each component, as `kind:name`
#[derive(Clone, Debug, Default, PartialEq)]
pub struct Summary {
    pub mods: BTreeSet<String>,
    pub tr: BTreeSet<String>,
    pub tc: BTreeSet<String>,
    pub vm: BTreeSet<String>,
}

pub fn summary(ctx: &Context) -> Summary {
    let mut s = Summary::default();
    for (label, entries) in ctx.verif_session_digest_sections() {
        for e in entries {
            match label {
                "mods" => {
                    s.mods.insert(e);
                }
                "tr.vars" => {
                    s.tr.insert(format!("var:{e}"));
                }
                "tr.fns" => {
                    s.tr.insert(format!("fn:{e}"));
                }
                "tr.units" => {
                    for a in e.split('|') {
                        s.tr.insert(format!("unit:{a}"));
                    }
                }
                "tr.dims" => {
                    s.tr.insert(format!("dim:{e}"));
                }
                "tc.env" => {
                    let mut it = e.splitn(3, ':');
                    let (n, k) = (it.next().unwrap_or(""), it.next().unwrap_or(""));
                    if k != "predefined" {
                        s.tc.insert(format!("{k}:{n}"));
                    }
                }
                "tc.structs" => {
                    s.tc.insert(format!("struct:{}", e.split('{').next().unwrap_or("")));
                }
                "tc.dims.base" => {
                    s.tc.insert(format!("dim:{e}"));
                }
                "tc.dims.derived" => {
                    s.tc.insert(format!("dim:{}", e.split('=').next().unwrap_or("")));
                }
                "vm.globals" => {
                    let names = e.split('=').next().unwrap_or("");
                    for n in names.split('|') {
                        s.vm.insert(format!("var:{n}"));
                    }
                }
                "vm.functions" => {
                    s.vm.insert(format!("fn:{}", e.split(':').next().unwrap_or("")));
                }
                "vm.units" => {
                    s.vm.insert(format!("unit:{}", e.split('>').next().unwrap_or("")));
                }
                "vm.structs" => {
                    s.vm.insert(format!("struct:{e}"));
                }
                _ => {}
            }
        }
    }
    s
}

impl Summary {
    pub fn minus(&self, b: &Summary) -> Summary {
        Summary {
            mods: self.mods.difference(&b.mods).cloned().collect(),
            tr: self.tr.difference(&b.tr).cloned().collect(),
            tc: self.tc.difference(&b.tc).cloned().collect(),
            vm: self.vm.difference(&b.vm).cloned().collect(),
        }
    }
    pub fn text(&self) -> String {
        let j = |s: &BTreeSet<String>| s.iter().cloned().collect::<Vec<_>>().join(",");
        format!(
            "mods=[{}] tr=[{}] tc=[{}] vm=[{}]",
            j(&self.mods),
            j(&self.tr),
            j(&self.tc),
            j(&self.vm)
        )
    }
}

// ---------------------------------------------------------------- static reading of a statement

fn ident_prefix(s: &str) -> &str {
    let end = s
        .char_indices()
        .find(|(_, c)| !(c.is_alphanumeric() || *c == '_'))
        .map(|(i, _)| i)
        .unwrap_or(s.len());
    &s[..end]
}

/// names a statement (one line) introduces, as `kind:name` (aliases included), from its text alone
pub fn intro_of(line: &str) -> Vec<String> {
    let mut rest = line.trim();
    let mut aliases: Vec<String> = Vec::new();
    while rest.starts_with('@') {
        let close = match rest.find(')') {
            Some(i) => i,
            None => return vec![],
        };
        if let Some(args) = rest.strip_prefix("@aliases(") {
            let args = &args[..close - "@aliases(".len()];
            for a in args.split(',') {
                let n = a.split(':').next().unwrap_or("").trim();
                if !n.is_empty() {
                    aliases.push(n.to_string());
                }
            }
        }
        rest = rest[close + 1..].trim_start();
    }
    let kw = |k: &str| rest.strip_prefix(k).map(|r| ident_prefix(r.trim_start()).to_string());
    if let Some(n) = kw("let ") {
        return vec![format!("var:{n}")];
    }
    if let Some(n) = kw("fn ") {
        return vec![format!("fn:{n}")];
    }
    if let Some(n) = kw("unit ") {
        let mut v = vec![format!("unit:{n}")];
        v.extend(aliases.into_iter().map(|a| format!("unit:{a}")));
        return v;
    }
    if let Some(n) = kw("dimension ") {
        return vec![format!("dim:{n}")];
    }
    if let Some(n) = kw("struct ") {
        return vec![format!("struct:{n}")];
    }
    vec![]
}

/// module path of a `use` statement
pub fn use_of(line: &str) -> Option<String> {
    line.trim()
        .strip_prefix("use ")
        .map(|m| m.trim().to_string())
}

/// direct imports of a module, in textual order (from the module's source text)
pub fn module_deps(module: &str) -> Option<Vec<String>> {
    use numbat::module_importer::ModuleImporter;
    use numbat::resolver::ModulePath;
    let path = ModulePath(module.split("::").map(|s| s.into()).collect());
    let (code, _) = BuiltinModuleImporter::default().import(&path)?;
    Some(
        code.lines()
            .filter_map(|l| use_of(l.split('#').next().unwrap_or("")))
            .collect(),
    )
}

// ---------------------------------------------------------------- generator

#[derive(Clone, Copy, Debug, PartialEq)]
pub enum Dm {
    Scalar,
    Length,
    Time,
}

#[derive(Clone, Copy, Debug, PartialEq)]
pub enum FnKind {
    /// fn f(x) = x * k  (any dimension in, same out)
    Generic,
    /// fn f(x: Length) -> Length
    LenLen,
    /// fn f(x) = 1 / x   (scalar; fails at run time for 0)
    Recip,
}

#[derive(Clone, Debug)]
pub enum Effect {
    None,
    Var(String, Dm),
    /// variable holding something that is not a plain quantity (struct instance, string, …)
    OpaqueVar(String),
    Fn(String, FnKind),
    Unit(Vec<String>, Dm),
    CustomUnit(String, String),
    Dim(String),
    Struct(String),
    Use(usize),
    /// expression statement; Some(dimension) if `ans` is afterwards a quantity of that dimension
    Expr(Option<Dm>),
}

#[derive(Clone, Debug)]
pub struct GStmt {
    pub text: String,
    pub eff: Effect,
    /// bucket for the input-distribution histogram
    pub tag: &'static str,
}

/// non-prelude modules with a test expression using something the module defines
pub const MODULES: &[(&str, &str)] = &[
    ("extra::algebra", "quadratic_equation(1, 0, -1)"),
    ("extra::color", "color_hex(red)"),
    ("extra::vector3", "length(vec(3 m, 4 m, 0 m))"),
    ("extra::cooking", "butter"),
    ("numerics::diff", "diff(sqr, 2.0, 0.001)"),
    ("numerics::fixed_point", "fixed_point(cos, 1, 1e-6)"),
    ("numerics::solve", "root_bisect(ln, 0.5, 2, 1e-6, 1e-6)"),
    ("units::hartree", "2 bohr -> m"),
    ("units::stoney", "1 stoney_time -> s"),
    ("extra::astronomy", "1 lightsecond -> m"),
    ("extra::celestial", "moon_phase_name(0.5 lunar_cycle)"),
];

#[derive(Clone, Debug, Default)]
pub struct Env {
    pub n: usize,
    pub vars: Vec<(String, Dm)>,
    pub fns: Vec<(String, FnKind)>,
    pub units: Vec<(String, Dm)>,
    pub custom_units: Vec<(String, String)>,
    pub dims: Vec<String>,
    pub structs: Vec<String>,
    pub mods: Vec<usize>,
    /// names / modules that only ever appeared in rolled-back inputs
    pub ghosts: Vec<String>,
    pub ghost_mods: Vec<usize>,
    pub ans: Option<Dm>,
    pub has_ans: bool,
}

impl Env {
    pub fn fresh(&mut self, prefix: &str) -> String {
        self.n += 1;
        format!("{}{}", prefix, self.n)
    }

    pub fn apply(&mut self, e: &Effect) {
        match e {
            Effect::None => {}
            Effect::Var(n, d) => {
                self.vars.retain(|(m, _)| m != n);
                self.vars.push((n.clone(), *d));
                self.unghost(n);
            }
            Effect::OpaqueVar(n) => {
                self.vars.retain(|(m, _)| m != n);
                self.unghost(n);
            }
            Effect::Fn(n, k) => {
                self.fns.retain(|(m, _)| m != n);
                self.fns.push((n.clone(), *k));
                self.unghost(n);
            }
            Effect::Unit(ns, d) => {
                for n in ns {
                    self.units.push((n.clone(), *d));
                    self.unghost(n);
                }
            }
            Effect::CustomUnit(n, d) => {
                self.custom_units.push((n.clone(), d.clone()));
                self.unghost(n);
            }
            Effect::Dim(n) => {
                self.dims.push(n.clone());
                self.unghost(n);
            }
            Effect::Struct(n) => {
                self.structs.push(n.clone());
                self.unghost(n);
            }
            Effect::Use(i) => {
                if !self.mods.contains(i) {
                    self.mods.push(*i);
                }
                // extra::celestial imports extra::astronomy
                if MODULES[*i].0 == "extra::celestial" {
                    let a = MODULES.iter().position(|m| m.0 == "extra::astronomy").unwrap();
                    if !self.mods.contains(&a) {
                        self.mods.push(a);
                    }
                }
                let mods = self.mods.clone();
                self.ghost_mods.retain(|g| !mods.contains(g));
            }
            Effect::Expr(d) => {
                self.ans = *d;
                self.has_ans = true;
            }
        }
    }

    fn unghost(&mut self, n: &str) {
        self.ghosts.retain(|g| g != n);
    }

    /// the input containing these statements was rolled back
    pub fn rolled_back(&mut self, stmts: &[GStmt]) {
        for s in stmts {
            for e in intro_of(&s.text) {
                let n = e.split(':').nth(1).unwrap_or("").to_string();
                let live = self.vars.iter().any(|(m, _)| *m == n)
                    || self.fns.iter().any(|(m, _)| *m == n)
                    || self.units.iter().any(|(m, _)| *m == n)
                    || self.custom_units.iter().any(|(m, _)| *m == n)
                    || self.dims.contains(&n)
                    || self.structs.contains(&n);
                if !live && !n.is_empty() && !self.ghosts.contains(&n) {
                    self.ghosts.push(n);
                }
            }
            if let Effect::Use(i) = &s.eff {
                if !self.mods.contains(i) && !self.ghost_mods.contains(i) {
                    self.ghost_mods.push(*i);
                }
            }
        }
        if self.ghosts.len() > 12 {
            let k = self.ghosts.len() - 12;
            self.ghosts.drain(..k);
        }
    }
}

fn lit(rng: &mut Rng) -> String {
    match rng.below(6) {
        0 => "2.5".into(),
        1 => "0.5".into(),
        _ => format!("{}", rng.range(1, 9)),
    }
}

pub fn gen_expr(env: &Env, rng: &mut Rng, dm: Dm, depth: usize) -> String {
    let leaf = depth == 0 || rng.chance(2, 5);
    let vars: Vec<&String> = env.vars.iter().filter(|(_, d)| *d == dm).map(|(n, _)| n).collect();
    if leaf {
        if !vars.is_empty() && rng.chance(1, 2) {
            return (*rng.pick(&vars)).clone();
        }
        if env.ans == Some(dm) && rng.chance(1, 6) {
            return if rng.chance(1, 2) { "ans".into() } else { "_".into() };
        }
        let units: Vec<&String> = env.units.iter().filter(|(_, d)| *d == dm).map(|(n, _)| n).collect();
        return match dm {
            Dm::Scalar => lit(rng),
            Dm::Length => {
                if !units.is_empty() && rng.chance(1, 3) {
                    format!("{} {}", lit(rng), rng.pick(&units))
                } else {
                    format!("{} {}", lit(rng), rng.pick(&["m", "cm", "km", "inch"]))
                }
            }
            Dm::Time => {
                if !units.is_empty() && rng.chance(1, 3) {
                    format!("{} {}", lit(rng), rng.pick(&units))
                } else {
                    format!("{} {}", lit(rng), rng.pick(&["s", "min", "ms"]))
                }
            }
        };
    }
    let d = depth - 1;
    let generic: Vec<&String> = env.fns.iter().filter(|(_, k)| *k == FnKind::Generic).map(|(n, _)| n).collect();
    match rng.below(8) {
        0 | 1 => format!("({} + {})", gen_expr(env, rng, dm, d), gen_expr(env, rng, dm, d)),
        2 => format!("({} - {})", gen_expr(env, rng, dm, d), gen_expr(env, rng, dm, d)),
        3 => format!("({} * {})", gen_expr(env, rng, Dm::Scalar, d), gen_expr(env, rng, dm, d)),
        4 => format!("({} / {})", gen_expr(env, rng, dm, d), lit(rng)),
        5 if !generic.is_empty() => format!("{}({})", rng.pick(&generic), gen_expr(env, rng, dm, d)),
        6 if dm == Dm::Length => {
            let ll: Vec<&String> = env.fns.iter().filter(|(_, k)| *k == FnKind::LenLen).map(|(n, _)| n).collect();
            if !ll.is_empty() {
                format!("{}({})", rng.pick(&ll), gen_expr(env, rng, dm, d))
            } else if !env.structs.is_empty() {
                format!(
                    "{} {{ a: {}, b: {} }}.b",
                    rng.pick(&env.structs),
                    gen_expr(env, rng, Dm::Scalar, d),
                    gen_expr(env, rng, Dm::Length, d)
                )
            } else {
                gen_expr(env, rng, dm, d)
            }
        }
        6 if dm == Dm::Scalar => {
            let rc: Vec<&String> = env.fns.iter().filter(|(_, k)| *k == FnKind::Recip).map(|(n, _)| n).collect();
            if !rc.is_empty() {
                format!("{}({})", rng.pick(&rc), lit(rng))
            } else {
                format!("({} / {})", gen_expr(env, rng, Dm::Length, d), format!("{} m", lit(rng)))
            }
        }
        _ => match dm {
            Dm::Scalar => format!("({})", gen_expr(env, rng, dm, d)),
            Dm::Length => format!("({} -> cm)", gen_expr(env, rng, dm, d)),
            Dm::Time => format!("({} -> s)", gen_expr(env, rng, dm, d)),
        },
    }
}

fn any_dm(rng: &mut Rng) -> Dm {
    *rng.pick(&[Dm::Scalar, Dm::Scalar, Dm::Length, Dm::Length, Dm::Time])
}

/// a name for a new definition: usually fresh, sometimes one that a rolled-back input tried to define
fn def_name(env: &mut Env, rng: &mut Rng, prefix: &str) -> (String, bool) {
    if !env.ghosts.is_empty() && rng.chance(1, 4) {
        let g = rng.pick(&env.ghosts).clone();
        return (g, true);
    }
    (env.fresh(prefix), false)
}

/// one statement that is expected to succeed in `env`
pub fn gen_ok_stmt(env: &mut Env, rng: &mut Rng, allow_use: bool) -> GStmt {
    loop {
        let roll = rng.below(100);
        let s = match roll {
            0..=17 => {
                let (n, g) = def_name(env, rng, "v");
                let d = any_dm(rng);
                let e = gen_expr(env, rng, d, 2);
                let text = if d != Dm::Scalar && rng.chance(1, 3) {
                    format!("let {}: {} = {}", n, if d == Dm::Length { "Length" } else { "Time" }, e)
                } else {
                    format!("let {} = {}", n, e)
                };
                GStmt { text, eff: Effect::Var(n, d), tag: if g { "let_ghost_name" } else { "let" } }
            }
            18..=22 if !env.vars.is_empty() => {
                // redefinition / shadowing of an existing variable, possibly with another dimension
                let (n, _) = rng.pick(&env.vars).clone();
                let d = any_dm(rng);
                let e = gen_expr(env, rng, d, 1);
                GStmt { text: format!("let {} = {}", n, e), eff: Effect::Var(n, d), tag: "let_redefine" }
            }
            23..=31 => {
                let (n, g) = def_name(env, rng, "f");
                let tag = if g { "fn_ghost_name" } else { "fn" };
                // no `ans` / `_` inside function bodies: the body is type-checked with the type `ans` has now but
                // reads the last result at call time (`1`, `fn f(x) = x * ans`, `"s"`, `f(2)` panics in vm.rs
                // pop_quantity) — a defect outside C06/C07 that would only end sessions early
                let saved_ans = env.ans.take();
                let env_no_ans: &Env = &*env;
                let st = match rng.below(4) {
                    0 => GStmt { text: format!("fn {}(x: Length) -> Length = x + {}", n, gen_expr(env_no_ans, rng, Dm::Length, 1)), eff: Effect::Fn(n, FnKind::LenLen), tag },
                    1 => GStmt { text: format!("fn {}(x) = 1 / x", n), eff: Effect::Fn(n, FnKind::Recip), tag },
                    _ => GStmt { text: format!("fn {}(x) = x * {}", n, gen_expr(env_no_ans, rng, Dm::Scalar, 1)), eff: Effect::Fn(n, FnKind::Generic), tag },
                };
                env.ans = saved_ans;
                st
            }
            32..=34 if env.fns.iter().any(|(_, k)| *k == FnKind::Generic) => {
                let gs: Vec<String> = env.fns.iter().filter(|(_, k)| *k == FnKind::Generic).map(|(n, _)| n.clone()).collect();
                let n = rng.pick(&gs).clone();
                GStmt { text: format!("fn {}(x) = x * {}", n, lit(rng)), eff: Effect::Fn(n, FnKind::Generic), tag: "fn_redefine" }
            }
            35..=42 => {
                let (n, g) = def_name(env, rng, "u");
                let d = if rng.chance(1, 2) { Dm::Length } else { Dm::Time };
                let def = gen_expr(env, rng, d, 1);
                let tag = if g { "unit_ghost_name" } else { "unit" };
                if rng.chance(1, 3) {
                    let a = env.fresh("ua");
                    let b = env.fresh("ub");
                    GStmt {
                        text: format!("@aliases({}, {}: short) unit {} = {}", a, b, n, def),
                        eff: Effect::Unit(vec![n, a, b], d),
                        tag: "unit_aliases",
                    }
                } else if rng.chance(1, 3) {
                    GStmt {
                        text: format!("unit {}: {} = {}", n, if d == Dm::Length { "Length" } else { "Time" }, def),
                        eff: Effect::Unit(vec![n], d),
                        tag,
                    }
                } else {
                    GStmt { text: format!("unit {} = {}", n, def), eff: Effect::Unit(vec![n], d), tag }
                }
            }
            43..=45 if !env.dims.is_empty() => {
                let (n, _) = def_name(env, rng, "u");
                let d = rng.pick(&env.dims).clone();
                GStmt { text: format!("unit {}: {}", n, d), eff: Effect::CustomUnit(n, d), tag: "unit_base" }
            }
            46..=51 => {
                let (n, g) = def_name(env, rng, "D");
                let tag = if g { "dimension_ghost_name" } else { "dimension" };
                if rng.chance(1, 2) {
                    GStmt { text: format!("dimension {}", n), eff: Effect::Dim(n), tag }
                } else {
                    // aliases of dimensions that have no name in the prelude change how such a type is *displayed*
                    let def = *rng.pick(&["Length / Time", "Length^5", "Time^7", "Length^5", "Length^2 * Time^3"]);
                    GStmt { text: format!("dimension {} = {}", n, def), eff: Effect::None, tag: "dimension_derived" }
                }
            }
            52..=56 => {
                let (n, g) = def_name(env, rng, "S");
                GStmt {
                    text: format!("struct {} {{ a: Scalar, b: Length }}", n),
                    eff: Effect::Struct(n),
                    tag: if g { "struct_ghost_name" } else { "struct" },
                }
            }
            57..=64 if allow_use => {
                let i = if !env.ghost_mods.is_empty() && rng.chance(2, 3) {
                    *rng.pick(&env.ghost_mods)
                } else {
                    rng.below(MODULES.len())
                };
                let tag = if env.mods.contains(&i) {
                    "use_again"
                } else if env.ghost_mods.contains(&i) {
                    "use_after_rollback"
                } else {
                    "use"
                };
                GStmt { text: format!("use {}", MODULES[i].0), eff: Effect::Use(i), tag }
            }
            65..=68 if !env.mods.is_empty() => {
                let i = *rng.pick(&env.mods);
                GStmt { text: MODULES[i].1.to_string(), eff: Effect::Expr(None), tag: "module_fn_call" }
            }
            69..=84 => {
                let d = any_dm(rng);
                GStmt { text: gen_expr(env, rng, d, 3), eff: Effect::Expr(Some(d)), tag: "expr" }
            }
            85..=90 => {
                let d = any_dm(rng);
                let e = gen_expr(env, rng, d, 2);
                if rng.chance(1, 2) {
                    GStmt { text: format!("print({})", e), eff: Effect::None, tag: "print" }
                } else {
                    GStmt { text: format!("print(\"p{} = {{{}}}\")", env.n, e), eff: Effect::None, tag: "print_interp" }
                }
            }
            91..=93 if env.has_ans && env.ans.is_some() => {
                let d = env.ans.unwrap();
                let k = rng.pick(&["ans", "_"]);
                let other = gen_expr(env, rng, d, 1);
                GStmt { text: format!("{} + {}", k, other), eff: Effect::Expr(Some(d)), tag: "ans_expr" }
            }
            94 => {
                let d = any_dm(rng);
                let e = gen_expr(env, rng, d, 1);
                GStmt { text: format!("assert_eq({}, {})", e, e), eff: Effect::None, tag: "assert_eq" }
            }
            95 => {
                // `inspect` prints value and readable type at run time; `type` prints the type fixed at compile time
                match rng.below(4) {
                    0 => GStmt { text: format!("inspect({} m^5)", lit(rng)), eff: Effect::Expr(None), tag: "inspect" },
                    1 => GStmt { text: format!("inspect({} s^7)", lit(rng)), eff: Effect::Expr(None), tag: "inspect" },
                    2 => GStmt { text: format!("type({} m^5)", lit(rng)), eff: Effect::None, tag: "type_proc" },
                    _ => {
                        let d = any_dm(rng);
                        GStmt { text: format!("inspect({})", gen_expr(env, rng, d, 1)), eff: Effect::Expr(Some(d)), tag: "inspect" }
                    }
                }
            }
            96..=97 if !env.structs.is_empty() => {
                let n = env.fresh("w");
                let s = rng.pick(&env.structs).clone();
                GStmt {
                    text: format!("let {} = {} {{ a: {}, b: {} }}", n, s, gen_expr(env, rng, Dm::Scalar, 1), gen_expr(env, rng, Dm::Length, 1)),
                    eff: Effect::OpaqueVar(n),
                    tag: "let_struct",
                }
            }
            98 if !env.custom_units.is_empty() => {
                let (u, _) = rng.pick(&env.custom_units).clone();
                GStmt { text: format!("{} {} + {} {}", lit(rng), u, lit(rng), u), eff: Effect::Expr(None), tag: "custom_unit_expr" }
            }
            _ => continue,
        };
        return s;
    }
}

#[derive(Clone, Copy, Debug, PartialEq)]
pub enum Bad {
    Module,
    Parse,
    Names,
    Types,
    Run,
}

pub const BAD_KINDS: &[Bad] = &[Bad::Module, Bad::Parse, Bad::Names, Bad::Types, Bad::Run];

impl Bad {
    pub fn stage(self) -> &'static str {
        match self {
            Bad::Module => "module",
            Bad::Parse => "parse",
            Bad::Names => "names",
            Bad::Types => "types",
            Bad::Run => "run",
        }
    }
}

/// one statement that is expected to fail at the given stage
pub fn gen_bad_stmt(env: &mut Env, rng: &mut Rng, kind: Bad) -> GStmt {
    let mk = |text: String, tag: &'static str| GStmt { text, eff: Effect::None, tag };
    match kind {
        Bad::Module => match rng.below(3) {
            0 => mk("use nomod::missing".into(), "bad_module"),
            1 => mk(format!("use extra::nonexistent{}", rng.below(3)), "bad_module"),
            _ => mk("use units".into(), "bad_module"),
        },
        Bad::Parse => mk(
            rng.pick(&["let = 3", "2 +/ 3", ")", "fn (x) = 1", "1 +", "unit", "let x = (1", "struct { }", "2 m ->"]).to_string(),
            "bad_parse",
        ),
        Bad::Names => {
            let mut c: Vec<(String, &'static str)> = vec![
                ("let m = 1".into(), "bad_names_prelude_unit"),
                ("let _ = 1".into(), "bad_names_reserved"),
                ("let ans = 2".into(), "bad_names_reserved"),
                ("fn km() = 1".into(), "bad_names_prelude_unit"),
                ("unit second".into(), "bad_names_prelude_unit"),
            ];
            for (u, _) in env.units.iter().take(6) {
                c.push((format!("let {} = 1", u), "bad_names_user_unit"));
                c.push((format!("unit {} = 2 m", u), "bad_names_user_unit"));
            }
            for (v, _) in env.vars.iter().take(6) {
                c.push((format!("unit {} = 3 s", v), "bad_names_user_var"));
            }
            for (f, _) in env.fns.iter().take(4) {
                c.push((format!("unit {}", f), "bad_names_user_fn"));
            }
            let (t, tag) = rng.pick(&c).clone();
            mk(t, tag)
        }
        Bad::Types => {
            let mut c: Vec<(String, &'static str)> = vec![
                ("1 m + 1 s".into(), "bad_types_dimension"),
                (format!("zzz{}", rng.below(4)), "bad_types_unknown_ident"),
                (format!("let t{}: Length = 1 s", rng.below(4)), "bad_types_annotation"),
                ("1 + \"a\"".into(), "bad_types_string"),
                ("if 1 then 2 else 3".into(), "bad_types_condition"),
                ("fn sin(x) = x".into(), "bad_types_clash_ffi"),
                ("dimension Length".into(), "bad_types_clash_dimension"),
                ("sqrt(1, 2)".into(), "bad_types_arity"),
            ];
            for (v, _) in env.vars.iter().take(6) {
                c.push((format!("fn {}() = 1", v), "bad_types_clash_var"));
                c.push((format!("{} + \"s\"", v), "bad_types_string"));
            }
            for (f, _) in env.fns.iter().take(4) {
                c.push((format!("{}(1, 2, 3)", f), "bad_types_arity"));
            }
            for s in env.structs.iter().take(3) {
                c.push((format!("struct {} {{ a: Scalar }}", s), "bad_types_clash_struct"));
                c.push((format!("dimension {}", s), "bad_types_clash_struct"));
                c.push((format!("{} {{ a: 1 }}", s), "bad_types_struct_fields"));
            }
            for d in env.dims.iter().take(3) {
                c.push((format!("dimension {}", d), "bad_types_clash_dimension"));
            }
            for g in env.ghosts.iter().take(6) {
                c.push((format!("{} + 1", g), "bad_types_ghost_ident"));
                c.push((format!("{}(1)", g), "bad_types_ghost_ident"));
            }
            for i in env.ghost_mods.iter().take(3) {
                c.push((MODULES[*i].1.to_string(), "bad_types_ghost_module_fn"));
            }
            let (t, tag) = rng.pick(&c).clone();
            mk(t, tag)
        }
        Bad::Run => {
            let n = env.fresh("q");
            let mut c: Vec<(String, &'static str)> = vec![
                ("1 / 0".into(), "bad_run_div0"),
                (format!("let {} = 1 / 0", n), "bad_run_let_div0"),
                ("error(\"boom\")".into(), "bad_run_error"),
                ("assert(false)".into(), "bad_run_assert"),
                ("assert_eq(1, 2)".into(), "bad_run_assert_eq"),
                ("assert_eq(1 m, 2 m, 1 cm)".into(), "bad_run_assert_eq3"),
                ("head([])".into(), "bad_run_empty_list"),
                (format!("let {} = head([]) + 1", n), "bad_run_let_empty_list"),
                ("print(1 / 0)".into(), "bad_run_print_div0"),
                ("(-1)!".into(), "bad_run_factorial"),
            ];
            for (f, k) in env.fns.iter() {
                if *k == FnKind::Recip {
                    c.push((format!("{}(0)", f), "bad_run_user_fn"));
                }
            }
            let (t, tag) = rng.pick(&c).clone();
            mk(t, tag)
        }
    }
}

pub fn join_input(stmts: &[GStmt]) -> String {
    stmts.iter().map(|s| s.text.as_str()).collect::<Vec<_>>().join("\n")
}
