import Mathlib.Analysis.SpecialFunctions.Pow.Real
import NumbatModel.Lemmas.Qty
/-!
The lawful instance: ℝ with `Real.rpow`.  This is the only file of the quantity cluster that imports
Mathlib (one module).  It shows that `LawfulNum` is satisfiable, i.e. that the theorems of
C03/C04/C05/C11/C12/C21 are not vacuous, and it is the instance in which "exact dimensional arithmetic"
of the property texts is meant.
-/
namespace NumbatModel.Qty
open Classical

noncomputable instance : NumOps ℝ where
  zero := 0
  one := 1
  add := (· + ·)
  sub := (· - ·)
  mul := (· * ·)
  div := (· / ·)
  neg := fun x => -x
  rpow := fun x e => x ^ ((e : ℚ) : ℝ)
  pow10 := fun n => (10 : ℝ) ^ n
  pow2 := fun n => (2 : ℝ) ^ n
  beq := fun a b => decide (a = b)
  lt := fun a b => decide (a < b)
  le := fun a b => decide (a ≤ b)
  isNaN := fun _ => false
  abs := fun x => |x|
  tol9 := 1e-9
  max := fun x y => Max.max x y

noncomputable instance : LawfulNum ℝ where
  Pos := fun x => 0 < x
  zero_eq := rfl
  one_eq := rfl
  add_eq := fun _ _ => rfl
  sub_eq := fun _ _ => rfl
  mul_eq := fun _ _ => rfl
  div_eq := fun _ _ => rfl
  neg_eq := fun _ => rfl
  beq_iff := fun a b => by simp [NumOps.beq]
  pos_one := one_pos
  pos_mul := fun _ _ ha hb => mul_pos ha hb
  pos_ne_zero := fun _ ha => ne_of_gt ha
  pos_rpow := fun a e ha => Real.rpow_pos_of_pos ha _
  pos_pow10 := fun n => zpow_pos (by norm_num) n
  pos_pow2 := fun n => zpow_pos (by norm_num) n
  rpow_add := fun a e₁ e₂ ha => by
    show a ^ (((e₁ + e₂ : ℚ)) : ℝ) = a ^ ((e₁ : ℚ) : ℝ) * a ^ ((e₂ : ℚ) : ℝ)
    rw [Rat.cast_add, Real.rpow_add ha]
  rpow_zero := fun a _ => by
    show a ^ (((0 : ℚ)) : ℝ) = 1
    simp
  rpow_one := fun a _ => by
    show a ^ (((1 : ℚ)) : ℝ) = a
    simp
  rpow_mul := fun a e₁ e₂ ha => by
    show (a ^ ((e₁ : ℚ) : ℝ)) ^ ((e₂ : ℚ) : ℝ) = a ^ (((e₁ * e₂ : ℚ)) : ℝ)
    rw [Rat.cast_mul, Real.rpow_mul (le_of_lt ha)]
  mul_rpow := fun a b e ha hb => by
    show (a * b) ^ ((e : ℚ) : ℝ) = a ^ ((e : ℚ) : ℝ) * b ^ ((e : ℚ) : ℝ)
    rw [Real.mul_rpow (le_of_lt ha) (le_of_lt hb)]
  rpow_zero_base := fun r hr => by
    show (0 : ℝ) ^ ((r : ℚ) : ℝ) = 0
    apply Real.zero_rpow
    have : (0 : ℝ) < ((r : ℚ) : ℝ) := by exact_mod_cast hr
    exact ne_of_gt this
  mul_rpow_int := fun a b n => by
    show (a * b) ^ (((n : ℚ)) : ℝ) = a ^ (((n : ℚ)) : ℝ) * b ^ (((n : ℚ)) : ℝ)
    rw [Rat.cast_intCast, Real.rpow_intCast, Real.rpow_intCast, Real.rpow_intCast, mul_zpow]
  lt_irrefl := fun a => by simp [NumOps.lt]
  lt_asymm := fun a b h => by
    have : a < b := by simpa [NumOps.lt] using h
    simp [NumOps.lt, not_lt.mpr (le_of_lt this)]
  lt_total := fun a b h1 h2 => by
    have h1 : ¬ a < b := by simpa [NumOps.lt] using h1
    have h2 : ¬ b < a := by simpa [NumOps.lt] using h2
    exact le_antisymm (not_lt.mp h2) (not_lt.mp h1)
  lt_mul_pos := fun a b c hc => by
    simp only [NumOps.lt]
    congr 1
    exact propext (mul_lt_mul_iff_left₀ hc)
  le_iff := fun a b => by
    simp only [NumOps.le, NumOps.lt, decide_eq_true_eq]
    exact le_iff_lt_or_eq
  isNaN_false := fun _ => rfl
  le_mul_pos := fun a b c hc => by
    simp only [NumOps.le]
    congr 1
    exact propext (mul_le_mul_iff_left₀ hc)
  abs_mul_pos := fun a c hc => by
    show |a * c| = |a| * c
    rw [abs_mul, abs_of_pos hc]
  abs_le_zero_iff := fun a => by
    show decide (|a| ≤ 0) = true ↔ a = 0
    simp only [decide_eq_true_eq]
    exact abs_nonpos_iff

end NumbatModel.Qty
