import NumbatModel.Model.Crash
import NumbatModel.Driver.Common
/-! Driver for C08: `fact <x> <n>` → outcome of `x` followed by `n` factorial operators in a checked build. -/
open NumbatModel.Crash

def stepC08 (_ : Unit) (line : String) : Unit × String :=
  match (line.splitOn " ").filter (· ≠ "") with
  | ["fact", x, n] =>
    match x.toNat?, n.toNat? with
    | some x, some n =>
      ((), match vmFactorialChecked x n with
        | .value _ => "ok" | .panic => "panic" | .hang => "hang")
    | _, _ => ((), "bad-request")
  | _ => ((), "bad-request")

def main : IO Unit := NumbatModel.Driver.runDriver () stepC08
