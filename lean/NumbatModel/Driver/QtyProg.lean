import NumbatModel.Driver.QtyCommon
import NumbatModel.Model.QtyProg
/-! The `mprog` request of the C01 driver: a sequence of `let` right-hand sides in the program fragment of
`Model/QtyProg.lean`, evaluated by `runProg`'s definitions at `Float`.

  mprog D₁ D₂ …      with  D ::= (let E) | (fn ARITY E) | (fn ARITY (wheres E…) E) | (struct)
                           E ::= (num BITS) | (unit name:m3:1/1) | (var I) | (loc I) | (call F E…) | (neg E) | (add E E) | (sub E E)
                               | (mul E E) | (div E E) | (pow E num/den) | (conv E E) | (lt E E) | (gt E E)
                               | (le E E) | (ge E E) | (eq E E) | (ne E E) | (and E E) | (or E E) | (not E)
                               | (true) | (false) | (if E E E) | (lst CHAIN) | (mk CHAIN) | (get E I) | (head E) | (tail E) | (cons E E) | (len E)
Answer: per definition the raw value of the new global (`q …` as `show_quantity`, `bool`) or `fn`, joined by
` ; `, ended by `err …` if a definition fails. -/
open NumbatModel.Qty

namespace NumbatModel.DriverQty

def parseP (st : St) : Nat → List String → Option (PExpr Float × List String)
  | 0, _ => none
  | fuel + 1, toks =>
    match toks with
    | "(" :: "num" :: b :: ")" :: rest => (parseBits b).map (fun v => (.num v, rest))
    | "(" :: "unit" :: f :: ")" :: rest => (parseFactor st f).map (fun f => (.unit f, rest))
    | "(" :: "var" :: i :: ")" :: rest => i.toNat?.map (fun i => (.var i, rest))
    | "(" :: "loc" :: i :: ")" :: rest => i.toNat?.map (fun i => (.loc i, rest))
    | "(" :: "noarg" :: ")" :: rest => some (.noarg, rest)
    | "(" :: "call" :: f :: rest => do
      let f ← f.toNat?
      let (a, rest) ← parseP st fuel rest
      match rest with
      | ")" :: rest => pure (.call f a, rest)
      | _ => none
    | "(" :: "true" :: ")" :: rest => some (.blit true, rest)
    | "(" :: "false" :: ")" :: rest => some (.blit false, rest)
    | "(" :: "mk" :: rest => do
      let (a, rest) ← parseP st fuel rest
      match rest with
      | ")" :: rest => pure (.mk a, rest)
      | _ => none
    | "(" :: "get" :: rest => do
      let (a, rest) ← parseP st fuel rest
      match rest with
      | i :: ")" :: rest => i.toNat?.map (fun i => (.get a i, rest))
      | _ => none
    | "(" :: "lst" :: rest => do
      let (a, rest) ← parseP st fuel rest
      match rest with
      | ")" :: rest => pure (.lst a, rest)
      | _ => none
    | "(" :: "head" :: rest => do
      let (a, rest) ← parseP st fuel rest
      match rest with
      | ")" :: rest => pure (.head a, rest)
      | _ => none
    | "(" :: "tail" :: rest => do
      let (a, rest) ← parseP st fuel rest
      match rest with
      | ")" :: rest => pure (.tail a, rest)
      | _ => none
    | "(" :: "len" :: rest => do
      let (a, rest) ← parseP st fuel rest
      match rest with
      | ")" :: rest => pure (.len a, rest)
      | _ => none
    | "(" :: "neg" :: rest => do
      let (a, rest) ← parseP st fuel rest
      match rest with
      | ")" :: rest => pure (.neg a, rest)
      | _ => none
    | "(" :: "not" :: rest => do
      let (a, rest) ← parseP st fuel rest
      match rest with
      | ")" :: rest => pure (.not a, rest)
      | _ => none
    | "(" :: "pow" :: rest => do
      let (a, rest) ← parseP st fuel rest
      match rest with
      | r :: ")" :: rest => (parseRat r).map (fun r => (.pow a r, rest))
      | _ => none
    | "(" :: "if" :: rest => do
      let (c, rest) ← parseP st fuel rest
      let (t, rest) ← parseP st fuel rest
      let (e, rest) ← parseP st fuel rest
      match rest with
      | ")" :: rest => pure (.ite c t e, rest)
      | _ => none
    | "(" :: op :: rest => do
      let (a, rest) ← parseP st fuel rest
      let (b, rest) ← parseP st fuel rest
      match rest with
      | ")" :: rest =>
        match op with
        | "add" => pure (.add a b, rest)
        | "sub" => pure (.sub a b, rest)
        | "mul" => pure (.mul a b, rest)
        | "div" => pure (.div a b, rest)
        | "conv" => pure (.conv a b, rest)
        | "lt" => pure (.cmp .lt a b, rest)
        | "gt" => pure (.cmp .gt a b, rest)
        | "le" => pure (.cmp .le a b, rest)
        | "ge" => pure (.cmp .ge a b, rest)
        | "eq" => pure (.eq a b, rest)
        | "ne" => pure (.ne a b, rest)
        | "arg" => pure (.arg a b, rest)
        | "cons" => pure (.cons a b, rest)
        | "and" => pure (.and a b, rest)
        | "or" => pure (.or a b, rest)
        | _ => none
      | _ => none
    | _ => none

/-- expressions up to the closing parenthesis of the list -/
def parseList (st : St) : Nat → List String → Option (List (PExpr Float) × List String)
  | 0, _ => none
  | _, ")" :: rest => some ([], rest)
  | fuel + 1, toks => do
    let (e, rest) ← parseP st (toks.length + 1) toks
    let (es, rest) ← parseList st fuel rest
    pure (e :: es, rest)

def parseStmt (st : St) (toks : List String) : Option (Option (PStmt Float) × List String) :=
  match toks with
  | "(" :: "struct" :: ")" :: rest => some (none, rest)
  | "(" :: "let" :: rest => do
    let (e, rest) ← parseP st (rest.length + 1) rest
    match rest with
    | ")" :: rest => pure (some (.letv e), rest)
    | _ => none
  | "(" :: "fn" :: n :: "(" :: "wheres" :: rest => do
    let n ← n.toNat?
    let (ws, rest) ← parseList st (rest.length + 1) rest
    let (e, rest) ← parseP st (rest.length + 1) rest
    match rest with
    | ")" :: rest => pure (some (.fn ⟨n, ws, e⟩), rest)
    | _ => none
  | "(" :: "fn" :: n :: rest => do
    let n ← n.toNat?
    let (e, rest) ← parseP st (rest.length + 1) rest
    match rest with
    | ")" :: rest => pure (some (.fn ⟨n, [], e⟩), rest)
    | _ => none
  | _ => none

def parseProg (st : St) : Nat → List String → Option (List (Option (PStmt Float)))
  | 0, _ => none
  | _, [] => some []
  | fuel + 1, toks => do
    let (d, rest) ← parseStmt st toks
    let ds ← parseProg st fuel rest
    pure (d :: ds)

mutual
/-- as `numbat::verif::c01::describe_raw_value`: quantities inside a list are parenthesised -/
def showElem (st : St) : PVal Float → String
  | .q x => "(" ++ showQ st x ++ ")"
  | .b _ => "bool"
  | .list vs => "List<" ++ showElems st vs ++ ">"
  | .struct vs => "Struct{" ++ showElems st vs ++ "}"
def showElems (st : St) : List (PVal Float) → String
  | [] => ""
  | [v] => showElem st v
  | v :: vs => showElem st v ++ ";" ++ showElems st vs
end

def showPVal (st : St) : PVal Float → String
  | .q x => showQ st x
  | .b _ => "bool"
  | .list vs => "List<" ++ showElems st vs ++ ">"
  | .struct vs => "Struct{" ++ showElems st vs ++ "}"

def showPErr : PErr → String
  | .q .incompatible => "err incompatible"
  | .q .nonRational => "err nonrational"
  | .q .divZero => "err divzero"
  | .emptyList => "err emptylist"
  | .stuck => "err stuck"
  | .outOfFuel => "err fuel"

/-- fuel of the executed model: bounds expression depth plus call depth (the generated recursions are a few
levels deep; `err fuel` in an answer would show up as a difference) -/
def driverFuel : Nat := 100000

/-- runs the definitions one after the other (exactly `runProg`, keeping the values defined before a failure
for the answer line) -/
def runShow (st : St) : List (Option (PStmt Float)) → PState Float → List String → List String
  | [], _, acc => acc.reverse
  -- a struct definition changes nothing at run time
  | none :: rest, ps, acc => runShow st rest ps ("struct" :: acc)
  | some (.letv e) :: rest, ps, acc =>
    match evalP st.tbl ps.fns ps.glob driverFuel [] e with
    | .ok v => runShow st rest { ps with glob := ps.glob ++ [v] } (showPVal st v :: acc)
    | .error err => (showPErr err :: acc).reverse
  | some (.fn d) :: rest, ps, acc => runShow st rest { ps with fns := ps.fns ++ [d] } ("fn" :: acc)

def stepProg (st : St) (line : String) : St × String :=
  if line.startsWith "mprog " then
    let toks := tokenizeS ((line.drop 6).toString)
    match parseProg st (toks.length + 1) toks with
    | some ds => (st, " ; ".intercalate (runShow st ds {} []))
    | none => (st, "bad-request")
  else step st line

end NumbatModel.DriverQty
