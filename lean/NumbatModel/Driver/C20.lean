import NumbatModel.Model.Html
import NumbatModel.Driver.Common
/-! Driver for C20.
    `fmt <0|1> <FormatType>:<bytes>,...`  → bytes of `format parts indent`
    `wr <call> ...` (call = `s:<fg>:<0|1>` | `r` | `f` | `w:<bytes>`) → buffer of `Writer.run calls Writer.new`
    bytes are %-encoded (printable ASCII except `%`, `,`, `:` literally, everything else `%XX`). -/
open NumbatModel.Html NumbatModel.Driver

namespace NumbatModel.DriverC20

def hexDigit (n : Nat) : Char := if n < 10 then Char.ofNat (48 + n) else Char.ofNat (55 + n)

def pct (bs : Bytes) : String :=
  String.ofList (bs.flatMap (fun b =>
    let n := b.toNat
    if 0x21 ≤ n && n ≤ 0x7e && n != 37 && n != 44 && n != 58 then [Char.ofNat n]
    else ['%', hexDigit (n / 16), hexDigit (n % 16)]))

def hexVal (c : Char) : Option Nat :=
  if '0' ≤ c && c ≤ '9' then some (c.toNat - 48)
  else if 'A' ≤ c && c ≤ 'F' then some (c.toNat - 55)
  else if 'a' ≤ c && c ≤ 'f' then some (c.toNat - 87)
  else none

def unpctAux : List Char → Bytes
  | [] => []
  | '%' :: a :: b :: rest =>
    match hexVal a, hexVal b with
    | some x, some y => (x * 16 + y).toUInt8 :: unpctAux rest
    | _, _ => 37 :: unpctAux (a :: b :: rest)
  | c :: rest => c.toNat.toUInt8 :: unpctAux rest

def unpct (s : String) : Bytes := unpctAux s.toList

def parseFt : String → Option FormatType
  | "Whitespace" => some .whitespace | "Emphasized" => some .emphasized | "Dimmed" => some .dimmed
  | "Text" => some .text | "String" => some .string | "Keyword" => some .keyword | "Value" => some .value
  | "Unit" => some .unit | "Identifier" => some .identifier | "TypeIdentifier" => some .typeIdentifier
  | "Operator" => some .operator | "Decorator" => some .decorator | _ => none

def parseColor : String → Option (Option Color)
  | "None" => some none | "Black" => some (some .black) | "Blue" => some (some .blue)
  | "Green" => some (some .green) | "Red" => some (some .red) | "Cyan" => some (some .cyan)
  | "Magenta" => some (some .magenta) | "Yellow" => some (some .yellow) | "White" => some (some .white)
  | "Other" => some (some .other) | _ => none

def parsePart (s : String) : Option Part :=
  match s.splitOn ":" with
  | [ft, b] => (parseFt ft).map (fun f => ⟨f, unpct b⟩)
  | _ => none

def parseCall (s : String) : Option Op :=
  match s.splitOn ":" with
  | ["r"] => some .reset
  | ["f"] => some .flush
  | ["w", b] => some (.write (unpct b))
  | ["s", c, b] => (parseColor c).map (fun fg => .setColor ⟨fg, b == "1"⟩)
  -- third field: attributes of the ColorSpec the writer does not read (intense, underline, ...)
  | ["s", c, b, _] => (parseColor c).map (fun fg => .setColor ⟨fg, b == "1"⟩)
  | _ => none

def runLine (line : String) : String :=
  match line.splitOn " " with
  | "fmt" :: ind :: rest =>
    let body := "".intercalate rest
    let ps := (body.splitOn ",").filter (· ≠ "") |>.map parsePart
    if ps.any Option.isNone then "bad-request" else
    pct (format (ps.filterMap id) (ind == "1"))
  | "wr" :: rest =>
    let cs := rest.filter (· ≠ "") |>.map parseCall
    if cs.any Option.isNone then "bad-request" else
    pct (Writer.run (cs.filterMap id) Writer.new).buffer
  | _ => "bad-request"

end NumbatModel.DriverC20

def main : IO Unit := runDriver () (fun _ l => ((), NumbatModel.DriverC20.runLine l))
