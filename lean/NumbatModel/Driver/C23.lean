import NumbatModel.Gen.NbtFunctions
import NumbatModel.Model.Time
import NumbatModel.Driver.Common
/-! Driver for C23: the generated standard-library functions (`Gen/NbtFunctions.lean`) at `Float` (temperature)
and at `Rat` (mixed units, exact), and the time model for the Unix-time / Julian-date foreign functions. -/
open NumbatModel.Time NumbatModel.Nbt NumbatModel.Driver NumbatModel.Gen.NbtFunctions

namespace NumbatModel.DriverC23

def hexVal (c : Char) : Option Nat :=
  if '0' ≤ c ∧ c ≤ '9' then some (c.toNat - '0'.toNat)
  else if 'a' ≤ c ∧ c ≤ 'f' then some (c.toNat - 'a'.toNat + 10)
  else none

def parseHex (s : String) : Option Nat :=
  s.toList.foldl (fun acc c => do let a ← acc; let v ← hexVal c; pure (a * 16 + v)) (some 0)

def parseFloatBits (s : String) : Option Float := (parseHex s).map (fun n => Float.ofBits n.toUInt64)

def hexDigit (n : Nat) : Char := if n < 10 then Char.ofNat (48 + n) else Char.ofNat (87 + n)

def hex16 (n : Nat) : String :=
  String.ofList ((List.range 16).reverse.map (fun i => hexDigit ((n >>> (4 * i)) % 16)))

def fbits (x : Float) : String := hex16 x.toBits.toNat

def fmtErr : Time.Err → String
  | .durationOutOfRange => "err dur"
  | .dateTimeOutOfRange => "err dt"

def fmtZ : Except Time.Err (Zoned String) → String
  | .ok z => s!"ok {z.instant} {z.zone}"
  | .error e => fmtErr e

/-- pairs `m e` as exact rationals `m · 2^e` -/
def parseDyadics : List String → Option (List Rat)
  | [] => some []
  | m :: e :: rest => do
    let m ← m.toInt?
    let e ← e.toInt?
    let xs ← parseDyadics rest
    pure (((m : Rat) * pow2 e) :: xs)
  | _ => none

/-- whole count of a part `k · u` -/
def countOf (p u : Rat) : Int := if u = 0 then 0 else (p / u).floor

def temp (f : Float → Float → Float) (d : String) : String :=
  match parseFloatBits d with
  | some x => "ok " ++ fbits (f 1.0 x)
  | none => "bad-request"

def runLine (line : String) : String :=
  match line.splitOn " " with
  | ["fc", d] => temp from_celsius d
  | ["tc", d] => temp degC d
  | ["ff", d] => temp from_fahrenheit d
  | ["tf", d] => temp degF d
  | ["unixus", t] =>
    match t.toInt? with
    | some t => "ok " ++ fbits (intToFloat (unixMicros (⟨t, ()⟩ : Zoned Unit)))
    | none => "bad-request"
  | ["fromunixus", d, z] =>
    match parseFloatBits d with
    -- `quantity.to_f64().round() as i64`: half away from zero, then saturating, NaN ↦ 0 (as `Float.toInt64`)
    | some x => fmtZ (fromUnixMicros (f2i x.round) z)
    | none => "bad-request"
  | ["diff", a, b] =>
    match a.toInt?, b.toInt? with
    | some a, some b => "ok " ++ fbits (diff floatOps (⟨a, ()⟩ : Zoned Unit) ⟨b, ()⟩)
    | _, _ => "bad-request"
  | ["add", t, z, d] =>
    match t.toInt?, parseFloatBits d with
    | some t, some d => fmtZ (addDur floatOps ⟨t, z⟩ d)
    | _, _ => "bad-request"
  | "mixed" :: rest =>
    match parseDyadics rest with
    | some (v :: f :: us) =>
      match _mixed_unit_list (α := Rat) us.length (v * f) us [] with
      | .ok parts =>
        let counts := (parts.zip us).take (us.length - 1) |>.map (fun (p, u) => toString (countOf p u))
        ("ok " ++ " ".intercalate counts).trimAsciiEnd.toString
      | .error _ => "err"
    | _ => "bad-request"
  | _ => "bad-request"

end NumbatModel.DriverC23

def main : IO Unit := runDriver () (fun _ l => ((), NumbatModel.DriverC23.runLine l))
