import NumbatModel.Model.NumFmt
import NumbatModel.Driver.Common
/-! Driver for C14.
    `pp <bits:hex> <sep> <threshold> <sig> <raw>` → `prettyPrint bits opts false true raw`
    `ppc <bits:hex> <0|1> <raw>`                  → `prettyPrint bits default true (flag) raw`  (override path)
    strings are %-encoded UTF-8 (`%` alone = empty string).
    After ` || ` the driver reports whether `raw` satisfies the contract `wellFormedRaw` (`wf=1`), is one of the
    keywords `NaN`/`inf`/`-inf` (`wf=kw`), or neither (`wf=0`). -/
open NumbatModel.NumFmt NumbatModel.Driver

namespace NumbatModel.DriverC14

def hexVal (c : Char) : Option Nat :=
  if '0' ≤ c && c ≤ '9' then some (c.toNat - 48)
  else if 'A' ≤ c && c ≤ 'F' then some (c.toNat - 55)
  else if 'a' ≤ c && c ≤ 'f' then some (c.toNat - 87)
  else none

def parseHex (s : String) : Option Nat :=
  s.toList.foldl (fun acc c => match acc, hexVal c with
    | some a, some v => some (a * 16 + v)
    | _, _ => none) (some 0)

def unpctBytes : List Char → List UInt8
  | [] => []
  | '%' :: a :: b :: rest =>
    match hexVal a, hexVal b with
    | some x, some y => (x * 16 + y).toUInt8 :: unpctBytes rest
    | _, _ => 37 :: unpctBytes (a :: b :: rest)
  | c :: rest => c.toNat.toUInt8 :: unpctBytes rest

def unpct (s : String) : List Char :=
  if s == "%" then [] else
  match String.fromUTF8? (ByteArray.mk (unpctBytes s.toList).toArray) with
  | some t => t.toList
  | none => []

def hexDigit (n : Nat) : Char := if n < 10 then Char.ofNat (48 + n) else Char.ofNat (55 + n)

def pct (cs : List Char) : String :=
  let bs := (String.ofList cs).toUTF8.toList
  if bs.isEmpty then "%" else
  String.ofList (bs.flatMap (fun b =>
    let n := b.toNat
    if 0x21 ≤ n && n ≤ 0x7e && n != 37 then [Char.ofNat n]
    else ['%', hexDigit (n / 16), hexDigit (n % 16)]))

/-- the contract the float-branch theorems assume of the `pretty_dtoa` string, checked on the real string -/
def contract (raw : List Char) : String :=
  if wellFormedRaw raw then " || wf=1"
  else if raw == "NaN".toList || raw == "inf".toList || raw == "-inf".toList then " || wf=kw"
  else " || wf=0"

def runLine (line : String) : String :=
  match line.splitOn " " with
  | ["pp", bits, sep, th, sig, raw] =>
    match parseHex bits, th.toNat?, sig.toNat? with
    | some b, some t, some s => pct (prettyPrint b ⟨unpct sep, t, s⟩ false true (unpct raw)) ++ contract (unpct raw)
    | _, _, _ => "bad-request"
  | ["ppc", bits, flag, raw] =>
    match parseHex bits with
    | some b => pct (prettyPrint b ⟨['_'], 6, 6⟩ true (flag == "1") (unpct raw)) ++ contract (unpct raw)
    | none => "bad-request"
  | _ => "bad-request"

end NumbatModel.DriverC14

def main : IO Unit := runDriver () (fun _ l => ((), NumbatModel.DriverC14.runLine l))
