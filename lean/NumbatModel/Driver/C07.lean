import NumbatModel.Driver.SessProto
/-! Driver for C07: the same session protocol as C06 (`Driver/SessProto.lean`); the harness submits the same
statements one per input, joined at split points and as a single input. -/
def main : IO Unit := NumbatModel.Driver.runDriver ({} : NumbatModel.DriverC06.St) NumbatModel.DriverC06.step
