/-! Line-protocol plumbing shared by all drivers (core only). -/
namespace NumbatModel.Driver

partial def loop (h : IO.FS.Stream) (out : IO.FS.Stream) (σ : Type) (step : σ → String → σ × String) (s : σ) : IO Unit := do
  let line ← h.getLine
  if line.isEmpty then
    out.flush
    return ()
  let line := if line.endsWith "\n" then (line.dropEnd 1).toString else line
  let (s', o) := step s line
  out.putStrLn o
  loop h out σ step s'

def runDriver {σ : Type} (init : σ) (step : σ → String → σ × String) : IO Unit := do
  let stdin ← IO.getStdin
  let stdout ← IO.getStdout
  loop stdin stdout σ step init

def joinWith (sep : String) (xs : List String) : String := sep.intercalate xs

end NumbatModel.Driver
