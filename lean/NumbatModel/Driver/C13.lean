import NumbatModel.Model.PrefixParser
import NumbatModel.Gen.PrefixTable
import NumbatModel.Driver.Common
/-! Driver for C13: one model `PrefixParser` plus named marks; see `harness/src/bin/c13.rs` for the protocol. -/
open NumbatModel.PrefixParser NumbatModel.Driver

namespace NumbatModel.DriverC13

structure St where
  pp : PrefixParser
  marks : List (String × PrefixParser)
deriving Inhabited

def enc (s : String) : Str := s.toList.map Char.toNat
def dec (s : Str) : String := String.ofList (s.map Char.ofNat)

def words (line : String) : List String := (line.splitOn " ").filter (· ≠ "")

def bit (c : Char) : Bool := c == '1'

def fmtBit (b : Bool) : String := if b then "1" else "0"

def fmtPrefix : Prefix → String
  | .metric n => s!"M{n}"
  | .binary n => s!"B{n}"

def parsePrefix (s : String) : Option Prefix :=
  match s.toList with
  | 'M' :: rest => (String.ofList rest).toInt?.map .metric
  | 'B' :: rest => (String.ofList rest).toInt?.map .binary
  | _ => none

def fmtErr : NameError → String
  | .reserved => "reserved"
  | .clash n => "clash || " ++ dec n

def fmtParse : ParseResult → String
  | .identifier _ => "plain"
  | .unit p a f => s!"unit {fmtPrefix p} {dec a} {dec f}"

def step1 (st : St) (r : Except NameError PrefixParser) : St × String :=
  match r with
  | .ok pp => ({ st with pp := pp }, "ok")
  | .error e => (st, fmtErr e)

def parseAccepts (c : Char) : Option AcceptsPrefix :=
  match c with
  | 's' => some AcceptsPrefix.onlyShort
  | 'l' => some AcceptsPrefix.onlyLong
  | 'b' => some AcceptsPrefix.both
  | 'n' => some AcceptsPrefix.none
  | _ => none   -- 'd': no annotation

def parseAliasDecls (s : String) : List AliasDecl :=
  if s == "-" then [] else
  (s.splitOn ",").filterMap (fun item =>
    match (item.splitOn ":") with
    | [a, k] => some ⟨enc a, parseAccepts (k.toList.headD 'd')⟩
    | _ => none)

def fmtAccepts (a : AcceptsPrefix) : String := fmtBit a.short ++ fmtBit a.long

def fmtGenPrefix (e : PrefixEntry) (t : Str × Str) : String :=
  s!"{dec e.long} {",".intercalate (e.shorts.map dec)} {fmtPrefix e.pfx} {dec t.1} {dec t.2}"

def fmtGenRow (r : UnitRow) : String :=
  s!"{dec r.fullName} canon={dec r.canon.name}:{fmtAccepts r.canon.accepts} {fmtBit r.metric}{fmtBit r.binary} " ++
    ",".intercalate (r.aliases.map (fun a => s!"{dec a.1}:{fmtAccepts a.2}"))

def step (st : St) (line : String) : St × String :=
  match words line with
  | ["reset"] => ({ st with pp := PrefixParser.new }, "ok")
  | ["mark", n] => ({ st with marks := (n, st.pp) :: st.marks.filter (·.1 ≠ n) }, "ok")
  | ["restore", n] =>
    match st.marks.find? (·.1 == n) with
    | some (_, pp) => ({ st with pp := pp }, "ok")
    | none => (st, "no-such-mark")
  | ["unit", a, f, full] =>
    match f.toList with
    | [s, l, m, b] => step1 st (addUnit st.pp (enc a) ⟨⟨bit s, bit l⟩, bit m, bit b, enc full⟩)
    | _ => (st, "bad-request")
  | ["other", x] => step1 st (addOtherIdentifier st.pp (enc x))
  | ["shadow", x] => step1 st (addShadowingIdentifier st.pp (enc x))
  | ["parse", x] => (st, fmtParse (parse st.pp (enc x)))
  | ["text", p, c, f] =>
    match parsePrefix p, f.toList with
    | some p, [s, l] => (st, dec (displayUnitFactor p ⟨enc c, ⟨bit s, bit l⟩⟩))
    | _, _ => (st, "bad-request")
  | ["defunit", n, f, al] =>
    match f.toList with
    | [m, b] =>
      let decls := parseAliasDecls al
      match applyDef st.pp (.unit (enc n) (bit m) (bit b) decls) with
      | .ok pp =>
        let c := canonicalName (enc n) decls
        ({ st with pp := pp }, s!"ok canon={dec c.1}:{fmtAccepts c.2}")
      | .error e => (st, fmtErr e)
    | _ => (st, "bad-request")
  | ["let", x] => step1 st (applyDef st.pp (.var (enc x)))
  | ["fn", f, ps] =>
    let params := if ps == "-" then [] else (ps.splitOn ",").map enc
    step1 st (applyDef st.pp (.func (enc f) params))
  | ["ptext", p, f] =>
    match parsePrefix p with
    | some p => (st, dec (if f == "1" then p.asStringShort else p.asStringLong))
    | none => (st, "bad-request")
  | ["genregister"] =>
    -- the hypothesis of `Oblig.PrefixTable.gen_print_reads_back`, by compiled execution
    match registerRows PrefixParser.new NumbatModel.Gen.PrefixTable.unitRows with
    | .ok pp => (st, s!"ok {pp.units.length}")
    | .error e => (st, fmtErr e)
  | ["genprefix", i] =>
    match i.toNat? with
    | some i => (st, match NumbatModel.Gen.PrefixTable.prefixRows[i]?, NumbatModel.Gen.PrefixTable.prefixTexts[i]? with
        | some e, some t => fmtGenPrefix e t | _, _ => "none")
    | none => (st, "bad-request")
  | ["genrow", i] =>
    match i.toNat? with
    | some i => (st, match NumbatModel.Gen.PrefixTable.unitRows[i]? with | some r => fmtGenRow r | none => "none")
    | none => (st, "bad-request")
  | _ => (st, "bad-request")

end NumbatModel.DriverC13

def main : IO Unit := runDriver (⟨NumbatModel.PrefixParser.PrefixParser.new, []⟩ : NumbatModel.DriverC13.St) NumbatModel.DriverC13.step
