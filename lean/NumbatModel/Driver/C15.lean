import NumbatModel.Model.Printer
import NumbatModel.Model.EchoParser
import NumbatModel.Driver.Common
/-! Driver for C15.
  `pp <S-expression>`      → the text the model printer produces for the typed expression tree
  `reparse <S-expression>` → text of the tree the reference parser reads from the printed tokens (`reject` if none)
  `esc <code points>`      → code points of `escape`
  `unesc <code points>`    → code points of `stripAndEscape` (`guard` where the Rust function would panic)
  `scan <code points>`     → `fixed n` iff `consumeString` runs over the whole body up to the closing quote
Atoms (names, texts) are code-point encoded: `97.98.99`, `-` for the empty text. -/
open NumbatModel.Printer NumbatModel.Driver

namespace NumbatModel.DriverC15

inductive Sx where
  | atom (s : String)
  | list (xs : List Sx)
  deriving Inhabited

def tokenize (s : String) : List String :=
  let (acc, cur) := s.toList.foldl (fun (st : List String × List Char) c =>
    let (acc, cur) := st
    if c = '(' ∨ c = ')' then
      ((if cur.isEmpty then acc else String.ofList cur.reverse :: acc) |> (String.singleton c :: ·), [])
    else if c = ' ' then
      ((if cur.isEmpty then acc else String.ofList cur.reverse :: acc), [])
    else (acc, c :: cur)) ([], [])
  (if cur.isEmpty then acc else String.ofList cur.reverse :: acc).reverse

partial def parseSx : List String → Option (Sx × List String)
  | [] => none
  | "(" :: rest =>
    let rec go (ts : List String) (acc : List Sx) : Option (Sx × List String) :=
      match ts with
      | [] => none
      | ")" :: r => some (.list acc.reverse, r)
      | _ => match parseSx ts with
        | some (x, r) => go r (x :: acc)
        | none => none
    go rest []
  | ")" :: _ => none
  | a :: rest => some (.atom a, rest)

def uncps (s : String) : List Char :=
  if s = "-" then [] else (s.splitOn ".").filterMap (fun x => x.toNat?.map Char.ofNat)

def cps (cs : List Char) : String :=
  if cs.isEmpty then "-" else ".".intercalate (cs.map (fun c => toString c.toNat))

def hexVal (s : String) : Nat :=
  s.toList.foldl (fun acc c =>
    let d := if c.isDigit then c.toNat - '0'.toNat else if 'a' ≤ c ∧ c ≤ 'f' then c.toNat - 'a'.toNat + 10 else 0
    acc * 16 + d) 0

def binOp? : String → Option BinOp
  | "add" => some .add | "sub" => some .sub | "mul" => some .mul | "div" => some .div | "pow" => some .pow
  | "conv" => some .conv | "lt" => some .lt | "gt" => some .gt | "le" => some .le | "ge" => some .ge
  | "eq" => some .eq | "ne" => some .ne | "and" => some .and | "or" => some .or
  | _ => none

mutual
partial def toExpr : Sx → Option Expr
  | .list [.atom "num", .atom b, .atom t] => some (.num (hexVal b) (uncps t))
  | .list [.atom "id", .atom n] => some (.ident (uncps n))
  | .list [.atom "unit", .atom p, .atom n] => some (.unit (uncps p) (uncps n))
  | .list [.atom "neg", e] => (toExpr e).map .neg
  | .list [.atom "not", e] => (toExpr e).map .not
  | .list [.atom "fact", .atom n, e] => do let e ← toExpr e; let n ← n.toNat?; pure (.fact n e)
  | .list [.atom "bin", .atom o, l, r] => do pure (.bin (← binOp? o) (← toExpr l) (← toExpr r))
  | .list [.atom "bind", .atom o, l, r] => do pure (.binDate (← binOp? o) (← toExpr l) (← toExpr r))
  | .list (.atom "call" :: .atom n :: args) => do pure (.call (uncps n) (← args.mapM toExpr))
  | .list (.atom "ccall" :: c :: args) => do pure (.ccall (← toExpr c) (← args.mapM toExpr))
  | .list [.atom "bool", .atom b] => some (.bool (b = "1"))
  | .list [.atom "if", c, t, e] => do pure (.cond (← toExpr c) (← toExpr t) (← toExpr e))
  | .list (.atom "str" :: parts) => do pure (.str (← parts.mapM toPart))
  | .list (.atom "mk" :: .atom n :: fields) => do
    let fs ← fields.mapM (fun f => match f with
      | .list [.atom "f", .atom fname, e] => (toExpr e).map (fun e => (uncps fname, e))
      | _ => none)
    pure (.mk (uncps n) (fs.map (·.1)) (fs.map (·.2)))
  | .list [.atom "get", e, .atom f] => do pure (.get (← toExpr e) (uncps f))
  | .list (.atom "list" :: es) => do pure (.list (← es.mapM toExpr))
  | .list [.atom "hole"] => some .hole
  | _ => none
partial def toPart : Sx → Option StrPart
  | .list [.atom "fix", .atom s] => some (.fixed (uncps s))
  | .list [.atom "interp", e, .list [.atom "spec", .atom s]] => do pure (.interp (← toExpr e) (some (uncps s)))
  | .list [.atom "interp", e, .list [.atom "nospec"]] => do pure (.interp (← toExpr e) none)
  | _ => none
end

def runLine (line : String) : String :=
  match line.splitOn " " with
  | "pp" :: rest =>
    match parseSx (tokenize (" ".intercalate rest)) with
    | some (sx, []) =>
      match toExpr sx with
      | some e => String.ofList (pp e)
      | none => "bad-request"
    | _ => "bad-request"
  | "reparse" :: rest =>
    match parseSx (tokenize (" ".intercalate rest)) with
    | some (sx, []) =>
      match toExpr sx with
      | some e =>
        match parseToks 100000 (toks e) with
        | some e' => String.ofList (pp e')
        | none => "reject"
      | none => "bad-request"
    | _ => "bad-request"
  | ["esc", s] => cps (escape (uncps s))
  | ["unesc", s] =>
    match stripAndEscape (uncps s) with
    | some r => cps r
    | none => "guard"
  | ["scan", s] =>
    let body := uncps s
    if consumeString .normal (body ++ ['"']) = body.length then s!"fixed {body.length}" else "other"
  | _ => "bad-request"

end NumbatModel.DriverC15

def main : IO Unit := runDriver () (fun _ l => ((), NumbatModel.DriverC15.runLine l))
