import NumbatModel.Model.Modules
import NumbatModel.Gen.Modules
import NumbatModel.Driver.Common
/-! Driver for C17.
`std sep|one <module> …`  — `resolve` on the regenerated standard-library table: one input per `use` (sep) or
  one input with all `use` lines (one).  Answer: per input `ok [<module>#<idx>:<first name> …]` or
  `err unknown <module>`, joined by `;`, then ` || ` and `imported_modules` after each input.
`syn <table> ; <prog> ; <prog> …` — the same on a synthetic table: `<m>=<item>,<item>…|…`, items `u<m>` / `d<n>`. -/
open NumbatModel.Modules NumbatModel.Driver

namespace NumbatModel.DriverC17

def modName (names : List String) (m : Nat) : String := names.getD m s!"?{m}"

def stripTag (s : String) : String := String.ofList (s.toList.drop 2)

def fmtStmt (modNames : Nat → String) (nameOf : Nat → String) : Event → Option String
  | .stmt o i ns _ =>
    let origin := match o with | some m => modNames m | none => "<input>"
    let n := match ns with | n :: _ => nameOf n | [] => "-"
    some s!"{origin}#{i}:{n}"
  | _ => none

def fmtRes (modNames : Nat → String) (nameOf : Nat → String) (r : Except Err (List Event)) : String :=
  match r with
  | .ok tr => "ok [" ++ " ".intercalate (tr.filterMap (fmtStmt modNames nameOf)) ++ "]"
  | .error (.unknownModule m) => s!"err unknown {modNames m}"
  | .error .outOfFuel => "err out-of-fuel"

def runInputs (t : Table) (modNames : Nat → String) (nameOf : Nat → String) (inputs : List (List Item)) : String :=
  let (_, bs, ss) := inputs.foldl (fun (acc : List Nat × List String × List String) prog =>
    let (imp, bs, ss) := acc
    let r := resolve t imp prog
    (r.1, bs ++ [fmtRes modNames nameOf r.2], ss ++ [",".intercalate (r.1.map modNames)])) ([], [], [])
  ";".intercalate bs ++ " || " ++ ";".intercalate ss

def stdNameOf (n : Nat) : String := stripTag (Gen.Modules.nameStrings.getD n "??")

def runStd (style : String) (mods : List String) : String :=
  let ids := mods.map (fun m => Gen.Modules.moduleNames.idxOf m)
  let inputs : List (List Item) :=
    if style == "one" then [ids.map .use] else ids.map (fun i => [.use i])
  runInputs Gen.Modules.table (modName Gen.Modules.moduleNames) stdNameOf inputs

def parseItem (s : String) : Option Item :=
  match s.toList with
  | 'u' :: r => (String.ofList r).toNat?.map .use
  | 'd' :: r => (String.ofList r).toNat?.map (fun n => .defn [n] [])
  | _ => none

def parseItems (s : String) : List Item :=
  ((s.trimAscii.toString.splitOn ",").filter (· ≠ "")).filterMap parseItem

def parseTable (s : String) : Table :=
  ((s.trimAscii.toString.splitOn "|").filter (· ≠ "")).filterMap (fun e =>
    match e.splitOn "=" with
    | [m, items] => m.trimAscii.toString.toNat?.map (fun k => (k, parseItems items))
    | _ => none)

def runSyn (body : String) : String :=
  match body.splitOn ";" with
  | tbl :: progs =>
    let t := parseTable tbl
    runInputs t (fun m => s!"m{m}") (fun n => s!"d{n}") (progs.map parseItems)
  | [] => "bad-request"

def runLine (line : String) : String :=
  match line.splitOn " " with
  | "std" :: style :: mods => runStd style (mods.filter (· ≠ ""))
  | "syn" :: rest => runSyn (" ".intercalate rest)
  | _ => "bad-request"

end NumbatModel.DriverC17

def main : IO Unit := runDriver () (fun _ l => ((), NumbatModel.DriverC17.runLine l))
