import NumbatModel.Model.ListM
import NumbatModel.Driver.Common
/-! Driver for C18: `run op;op;...` → per-op result/behaviour, ` || `, per-op structure. -/
open NumbatModel.ListM NumbatModel.Driver

namespace NumbatModel.DriverC18

def parseOp (s : String) : Option (Op Nat) :=
  match (s.trimAscii.toString.splitOn " ").filter (· ≠ "") with
  | ["new"] => some .new
  | ["cap", n] => n.toNat?.map .cap
  | ["clone", k] => k.toNat?.map .clone
  | ["drop", k] => k.toNat?.map .drop
  | ["pf", k, x] => do let k ← k.toNat?; let x ← x.toNat?; pure (.pf k x)
  | ["pb", k, x] => do let k ← k.toNat?; let x ← x.toNat?; pure (.pb k x)
  | ["tail", k] => k.toNat?.map .tail
  | ["head", k] => k.toNat?.map .head
  | _ => none

def fmtList (o c : String) (xs : List Nat) : String := o ++ ",".intercalate (xs.map toString) ++ c

def fmtRes : Res Nat → String
  | .ok => "ok" | .err => "err" | .some x => s!"some {x}" | .none => "none"
  | .badOp => "bad-op" | .panic => "panic"

/-- live slots as (index, handle) -/
def liveSlots (h : Heap Nat) : List (Nat × Handle) :=
  (List.range h.live.length).filterMap (fun k => (h.get k).map (fun hd => (k, hd)))

def behaviour (h : Heap Nat) : String :=
  let ls := liveSlots h
  let bs := ls.map (fun (k, hd) => s!"{k}=" ++ fmtList "[" "]" (contents h.allocs hd))
  let eqs := ls.flatMap (fun (_, a) => ls.map (fun (_, b) =>
    -- `PartialEq for NumbatList` (Model/ListM.eqHandles): lengths, then element-wise
    if eqHandles (fun (x y : Nat) => x == y) h.allocs a b then '1' else '0'))
  " ".intercalate bs ++ " E" ++ String.ofList eqs

def structure_ (h : Heap Nat) : String :=
  let ls := liveSlots h
  -- allocations numbered by first occurrence in slot order
  let ids : List Nat := ls.foldl (fun acc (_, hd) => if acc.contains hd.alloc then acc else acc ++ [hd.alloc]) []
  let ss := ls.map (fun (k, hd) =>
    let a := (ids.idxOf hd.alloc)
    let v := match hd.view with | none => "-" | some (s, e) => s!"({s},{e})"
    s!"{k}:a{a}#{h.strong hd.alloc}v{v}" ++ fmtList "{" "}" (allocOf h.allocs hd.alloc))
  " ".intercalate ss

def runLine (line : String) : String :=
  match line.splitOn " " with
  | "run" :: rest =>
    let body := " ".intercalate rest
    let ops := (body.splitOn ";").map parseOp
    if ops.any Option.isNone then "bad-request" else
    let ops := ops.filterMap id
    let (_, bs, ss) := ops.foldl (fun (acc : Heap Nat × List String × List String) op =>
      let (h, bs, ss) := acc
      let (h', r) := step h op
      (h', bs ++ [fmtRes r ++ "~" ++ behaviour h'], ss ++ [structure_ h'])) (Heap.empty, [], [])
    ";".intercalate bs ++ " || " ++ ";".intercalate ss
  | _ => "bad-request"

end NumbatModel.DriverC18

def main : IO Unit := runDriver () (fun _ l => ((), NumbatModel.DriverC18.runLine l))
