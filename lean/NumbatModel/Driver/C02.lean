import NumbatModel.Model.Types
import NumbatModel.Driver.TypesText
import NumbatModel.Driver.Common
/-! Driver for C02: `solve <constraints>`, `dtype <op> …`, `apply <subst> || <type>`; answers in the text form of
numbat/src/verif/c02.rs. -/
open NumbatModel.Types NumbatModel.TypesText NumbatModel.Driver

namespace NumbatModel.DriverC02

def fuel : Nat := 100000

def trivChar : Trivial → Char
  | .satisfied => 'S'
  | .violated => 'V'
  | .unknown => 'U'

def solveLine (rest : String) : String :=
  let ts := tokens rest
  match parseConstraints (ts.length + 1) ts with
  | none => "bad-request"
  | some cs =>
    let (kept, trivs) := addAll cs
    let triv := "triv=" ++ String.ofList (trivs.map trivChar)
    match solve fuel kept with
    | .ok s dv => triv ++ " ok " ++ substText s ++ " | dv " ++ " ".intercalate (dv.map tvText)
    | .couldNotSolve r => triv ++ " err could-not-solve " ++ " ".intercalate (r.map constraintText)
    | .substError t => triv ++ " err subst-error " ++ tyText t
    | .panic => "panic"
    | .outOfFuel => "out-of-fuel"

def parseFs (s : String) : Option Factors :=
  let ts := (s.splitOn " ").filter (· ≠ "")
  (ts.mapM parseFactor).map canon

def dtypeLine (rest : String) : String :=
  let rest := rest.trimAscii.toString
  let (op, args) := match rest.splitOn " " with
    | op :: tl => (op, " ".intercalate tl)
    | [] => ("", "")
  let r : Option Factors :=
    if op == "canon" then parseFs args
    else if op == "mul" || op == "div" then
      match args.splitOn "|" with
      | [a, b] => do
        let a ← parseFs a
        let b ← parseFs b
        some (if op == "mul" then dmul a b else ddiv a b)
      | _ => none
    else if op == "pow" then
      match (args.splitOn " ").filter (· ≠ "") with
      | e :: tl => do
        let e ← parseRat e
        let a ← (tl.mapM parseFactor).map canon
        some (dpow a e)
      | [] => none
    else none
  match r with
  | some d => factorsText d
  | none => "bad-request"

def parseSubst (s : String) : Option Subst :=
  ((s.splitOn ";").filter (fun p => p.trimAscii.toString ≠ "")).mapM (fun part =>
    match part.splitOn ":=" with
    | [v, t] => do
      let v ← parseTV v.trimAscii.toString
      let t ← parseTyText t.trimAscii.toString
      some (v, t)
    | _ => none)

def applyLine (rest : String) : String :=
  match rest.splitOn " || " with
  | [s, t] =>
    match parseSubst s, parseTyText t with
    | some s, some t =>
      (match t.apply s with
        | .ok t' => tyText t'
        | .error e => "err subst-error " ++ tyText e)
    | _, _ => "bad-request"
  | _ => "bad-request"

def runLine (line : String) : String :=
  match line.splitOn " " with
  | "solve" :: rest => solveLine (" ".intercalate rest)
  | "dtype" :: rest => dtypeLine (" ".intercalate rest)
  | "apply" :: rest => applyLine (" ".intercalate rest)
  | _ => "bad-request"

end NumbatModel.DriverC02

def main : IO Unit := runDriver () (fun _ l => ((), NumbatModel.DriverC02.runLine l))
