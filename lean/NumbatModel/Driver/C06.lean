import NumbatModel.Driver.SessProto
/-! Driver for C06: see `Driver/SessProto.lean` for the protocol. -/
def main : IO Unit := NumbatModel.Driver.runDriver ({} : NumbatModel.DriverC06.St) NumbatModel.DriverC06.step
