import NumbatModel.Model.SyntaxSexpr
import NumbatModel.Driver.Common
/-! Driver for C10.

    tok <chars>    → `ok Kind:hex Kind:hex …`  |  `err || <TokenizerErrorName>`
    parse <chars>  → `ok (expr …) …`           |  `err || <ParseErrorName> …`
    cls <chars>    → per character `b`/`s`/`c`/`-` (identifier start / continue)

`<chars>`: code points in hex separated by blanks; a non-ASCII code point may carry the suffix `:s`
(XID_Start), `:c` (XID_Continue) or `:b` (both): the `unicode-ident` tables are a parameter of the model. -/
open NumbatModel.Syntax NumbatModel.Driver

namespace NumbatModel.DriverC10

def hexVal (c : Char) : Option Nat :=
  if isAsciiDigit c then some (c.toNat - 48)
  else if 97 ≤ c.toNat && c.toNat ≤ 102 then some (c.toNat - 87)
  else none

/-- one `<hex>[:s|:c|:b]` item → (code point, xid_start, xid_continue) -/
def parseItem (s : String) : Option (Nat × Bool × Bool) :=
  let (digits, flag) : List Char × Option Char :=
    match s.splitOn ":" with
    | [d, f] => (d.toList, f.toList.head?)
    | _ => (s.toList, none)
  if digits.isEmpty then none else
  let v := digits.foldl (fun acc c => acc.bind (fun a => (hexVal c).map (fun d => a * 16 + d))) (some 0)
  v.map (fun n => (n, flag == some 's' || flag == some 'b', flag == some 'c' || flag == some 'b'))

structure Input where
  chars : List Char
  xt : XidTable

def parseInput (items : List String) : Option Input :=
  let ps := items.filter (· ≠ "") |>.map parseItem
  if ps.any Option.isNone then none else
  let ps := ps.filterMap id
  some {
    chars := ps.map (fun p => Char.ofNat p.1)
    xt := { start := (ps.filter (fun p => p.2.1)).map (·.1), cont := (ps.filter (fun p => p.2.2)).map (·.1) } }

def tokLine (i : Input) : String :=
  match tokenize i.xt i.chars with
  | .ok ts => "ok " ++ " ".intercalate (ts.map (fun t => t.kind.name ++ ":" ++ hexText t.lexeme))
  | .error e => "err || " ++ e.name

def parseLine (i : Input) : String :=
  match tokenize i.xt i.chars with
  | .error e => "err || TokenizerError:" ++ e.name
  | .ok ts =>
    let r := parseTokens ts
    if r.errors.isEmpty then "ok " ++ " ".intercalate (r.stmts.map Stmt.sexpr)
    else "err || " ++ " ".intercalate (r.errors.map PErr.name)

def clsLine (i : Input) : String :=
  String.ofList (i.chars.map (fun c =>
    match isIdentifierStart i.xt c, isIdentifierContinue i.xt c with
    | true, true => 'b' | true, false => 's' | false, true => 'c' | false, false => '-'))

def runLine (line : String) : String :=
  match line.splitOn " " with
  | cmd :: items =>
    match parseInput items with
    | none => "bad-request"
    | some i =>
      if cmd == "tok" then tokLine i
      else if cmd == "parse" then parseLine i
      else if cmd == "cls" then clsLine i
      else "bad-request"
  | [] => "bad-request"

end NumbatModel.DriverC10

def main : IO Unit := runDriver () (fun _ l => ((), NumbatModel.DriverC10.runLine l))
