import NumbatModel.Model.Time
import NumbatModel.Driver.Common
/-! Driver for C19: the `Float` instance of `Model/Time.lean` on the requests of `harness/src/bin/c19.rs`. -/
open NumbatModel.Time NumbatModel.Driver

namespace NumbatModel.DriverC19

def hexVal (c : Char) : Option Nat :=
  if '0' ≤ c ∧ c ≤ '9' then some (c.toNat - '0'.toNat)
  else if 'a' ≤ c ∧ c ≤ 'f' then some (c.toNat - 'a'.toNat + 10)
  else if 'A' ≤ c ∧ c ≤ 'F' then some (c.toNat - 'A'.toNat + 10)
  else none

def parseHex (s : String) : Option Nat :=
  s.toList.foldl (fun acc c => do let a ← acc; let v ← hexVal c; pure (a * 16 + v)) (some 0)

def parseFloatBits (s : String) : Option Float := (parseHex s).map (fun n => Float.ofBits n.toUInt64)

def hexDigit (n : Nat) : Char := if n < 10 then Char.ofNat (48 + n) else Char.ofNat (87 + n)

def hex16 (n : Nat) : String :=
  String.ofList ((List.range 16).reverse.map (fun i => hexDigit ((n >>> (4 * i)) % 16)))

def fbits (x : Float) : String := hex16 x.toBits.toNat

def fmtErr : Err → String
  | .durationOutOfRange => "err dur"
  | .dateTimeOutOfRange => "err dt"

def fmtZ : Except Err (Zoned String) → String
  | .ok z => s!"ok {z.instant} {z.zone}"
  | .error e => fmtErr e

def runLine (line : String) : String :=
  match line.splitOn " " with
  | ["add", t, z, d] =>
    match t.toInt?, parseFloatBits d with
    | some t, some d => fmtZ (addDur floatOps ⟨t, z⟩ d)
    | _, _ => "bad-request"
  | ["sub", t, z, d] =>
    match t.toInt?, parseFloatBits d with
    | some t, some d => fmtZ (subDur floatOps ⟨t, z⟩ d)
    | _, _ => "bad-request"
  | ["diff", a, b] =>
    match a.toInt?, b.toInt? with
    | some a, some b => "ok " ++ fbits (diff floatOps (⟨a, ()⟩ : Zoned Unit) ⟨b, ()⟩)
    | _, _ => "bad-request"
  | ["adddiff", t, z, d] =>
    match t.toInt?, parseFloatBits d with
    | some t, some d =>
      let t0 : Zoned String := ⟨t, z⟩
      match addDur floatOps t0 d with
      | .ok t1 => "ok " ++ fbits (diff floatOps t1 t0)
      | .error e => fmtErr e
    | _, _ => "bad-request"
  | ["addsub", t, z, d] =>
    match t.toInt?, parseFloatBits d with
    | some t, some d =>
      match addDur floatOps (⟨t, z⟩ : Zoned String) d with
      | .ok t1 => fmtZ (subDur floatOps t1 d)
      | .error e => fmtErr e
    | _, _ => "bad-request"
  | ["subadd", t, z, d] =>
    match t.toInt?, parseFloatBits d with
    | some t, some d =>
      match subDur floatOps (⟨t, z⟩ : Zoned String) d with
      | .ok t1 => fmtZ (addDur floatOps t1 d)
      | .error e => fmtErr e
    | _, _ => "bad-request"
  | ["tz", t, z, z2] =>
    match t.toInt? with
    | some t => fmtZ (.ok (withTimeZone (⟨t, z⟩ : Zoned String) z2))
    | none => "bad-request"
  | _ => "bad-request"

end NumbatModel.DriverC19

def main : IO Unit := runDriver () (fun _ l => ((), NumbatModel.DriverC19.runLine l))
