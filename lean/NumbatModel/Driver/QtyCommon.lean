import NumbatModel.Model.FloatNum
import NumbatModel.Driver.Common
/-! Shared line protocol of the quantity drivers (C03, C04, C05, C11, C12, C21).

Set-up lines (answer `ok`):
  tbl-reset
  u <name> <0|1 isBase> <factor bits> <unit>        -- appended in order; definitions refer to earlier rows
Requests:
  <op> <bits> <unit> [<bits> <unit>]                -- operands as `16 hex digits` + `[name:m<exp>|b<exp>:num/den,...]`
Answers exactly as `numbat::verif::c03::show_quantity` prints them. -/
open NumbatModel.Qty

namespace NumbatModel.DriverQty

def hexDigit (c : Char) : Option Nat :=
  if '0' ≤ c ∧ c ≤ '9' then some (c.toNat - '0'.toNat)
  else if 'a' ≤ c ∧ c ≤ 'f' then some (c.toNat - 'a'.toNat + 10)
  else if 'A' ≤ c ∧ c ≤ 'F' then some (c.toNat - 'A'.toNat + 10)
  else none

def parseHex (s : String) : Option Nat :=
  s.toList.foldl (fun acc c => do let a ← acc; let d ← hexDigit c; pure (a * 16 + d)) (some 0)

def parseBits (s : String) : Option Float := (parseHex s).map (fun n => Float.ofBits (UInt64.ofNat n))

def hexOf (n : Nat) : String :=
  let digits := "0123456789abcdef".toList
  let rec go : Nat → Nat → List Char → List Char
    | 0, _, acc => acc
    | k + 1, n, acc => go k (n / 16) (digits[n % 16]! :: acc)
  String.ofList (go 16 n [])

/-- NaN sign/payload is canonicalised on the wire (see `canon_nan` in the harness) -/
def showBits (x : Float) : String := if x.isNaN then "7ff8000000000000" else hexOf x.toBits.toNat

structure St where
  tbl : Table Float := []
  reg : List RegRow := []
deriving Inhabited

def lookup (st : St) (name : String) : Option Nat := st.tbl.findIdx? (·.name == name)

def parseInt (s : String) : Option Int :=
  if s.startsWith "-" then (s.drop 1).toString.toNat?.map (fun n => -(n : Int)) else s.toNat?.map (fun n => (n : Int))

def parseFactor (st : St) (s : String) : Option Factor :=
  match s.splitOn ":" with
  | [name, pfx, e] => do
    let id ← lookup st name
    let binary := pfx.startsWith "b"
    let pexp ← parseInt (pfx.drop 1).toString
    match e.splitOn "/" with
    | [n, d] => do
      let n ← parseInt n
      let d ← d.toNat?
      if d == 0 then none else pure ⟨id, ⟨binary, pexp⟩, mkRat n d⟩
    | _ => none
  | _ => none

def parseUnit (st : St) (s : String) : Option Qty.Unit :=
  if s.length < 2 then none else
  let inner := ((s.drop 1).dropEnd 1).toString
  if inner.isEmpty then some [] else
  (inner.splitOn ",").foldr (fun p acc => do let f ← parseFactor st p; let r ← acc; pure (f :: r)) (some [])

def showFactor (st : St) (f : Factor) : String :=
  s!"{unitName st.tbl f.unit}:{if f.prefix_.binary then "b" else "m"}{f.prefix_.exp}:{f.exp.num}/{f.exp.den}"

def showUnit (st : St) (u : Qty.Unit) : String := "[" ++ ",".intercalate (u.map (showFactor st)) ++ "]"

def showQ (st : St) (q : Quantity Float) : String :=
  s!"q {showBits q.value} {showUnit st q.unit} {if q.canSimplify then "s" else "n"}"

def showRes (st : St) : Except QErr (Quantity Float) → String
  | .ok q => showQ st q
  | .error .incompatible => "err incompatible"
  | .error .nonRational => "err nonrational"
  | .error .divZero => "err divzero"

/-- `<16 hex digits>` or `<16 hex digits>n` (can_simplify = false) -/
def parseQ (st : St) (bits unit : String) : Option (Quantity Float) := do
  let nosimp := bits.endsWith "n"
  let v ← parseBits (if nosimp then (bits.dropEnd 1).toString else bits)
  let u ← parseUnit st unit
  pure ⟨v, u, !nosimp⟩

def binop (st : St) (op : String) (a b : Quantity Float) : String :=
  match op with
  | "convert" => showRes st (convertTo st.tbl a b.unit)
  | "add" => showRes st (qadd st.tbl a b)
  | "sub" => showRes st (qsub st.tbl a b)
  | "mul" => showQ st (qmul a b)
  | "div" => showQ st (qdiv a b)
  | "eq" => s!"bool {qeq st.tbl a b}"
  | "cmp" => match qcmp st.tbl a b with
    | .incompatible => "err incompatible" | .nan => "nan" | .lt => "lt" | .eq => "eq" | .gt => "gt"
  | "smaller" => showUnit st (smallerUnit st.tbl a.unit b.unit)
  | "uniteq" => s!"bool {unitEq st.tbl a.unit b.unit}"
  | "multiple" => match isMultipleOf st.tbl a.unit b.unit with
    | some r => s!"some {r.num}/{r.den}"
    | none => "none"
  | _ => "bad-op"

def unop (st : St) (op : String) (a : Quantity Float) : String :=
  match op with
  | "id" => showQ st a
  | "neg" => showQ st a.neg
  | "baserep" => showQ st (toBase st.tbl a)
  | "canon" => showQ st ⟨a.value, canon st.tbl a.unit, true⟩
  | "simplify" => match fullSimplify st.tbl a with
    | some r => showQ st r
    | none => "panic"
  | "simplify_reg" => match fullSimplifyReg st.tbl st.reg a with
    | some r => showQ st r
    | none => "panic"
  | _ => "bad-op"

/-! S-expressions for `eval`: `(add A B)`, `(sub A B)`, `(mul A B)`, `(div A B)`, `(neg A)`,
`(pow A num/den)`, `(num BITS)`, `(unit name:m3:1/1)` -/

def tokenizeS (s : String) : List String :=
  let rec go : List Char → List Char → List String → List String
    | [], cur, acc => (if cur.isEmpty then acc else String.ofList cur.reverse :: acc).reverse
    | c :: cs, cur, acc =>
      let flush := if cur.isEmpty then acc else String.ofList cur.reverse :: acc
      if c == '(' then go cs [] ("(" :: flush)
      else if c == ')' then go cs [] (")" :: flush)
      else if c == ' ' then go cs [] flush
      else go cs (c :: cur) acc
  go s.toList [] []

def parseRat (s : String) : Option Rat :=
  match s.splitOn "/" with
  | [n, d] => do
    let n ← parseInt n
    let d ← d.toNat?
    if d == 0 then none else pure (mkRat n d)
  | _ => none

/-- recursive descent with fuel; returns the expression and the remaining tokens -/
def parseE (st : St) : Nat → List String → Option (QExpr Float × List String)
  | 0, _ => none
  | fuel + 1, toks =>
    match toks with
    | "(" :: "num" :: b :: ")" :: rest => (parseBits b).map (fun v => (.num v, rest))
    | "(" :: "unit" :: f :: ")" :: rest => (parseFactor st f).map (fun f => (.unit f, rest))
    | "(" :: "neg" :: rest => do
      let (a, rest) ← parseE st fuel rest
      match rest with
      | ")" :: rest => pure (.neg a, rest)
      | _ => none
    | "(" :: "pow" :: rest => do
      let (a, rest) ← parseE st fuel rest
      match rest with
      | r :: ")" :: rest => (parseRat r).map (fun r => (.pow a r, rest))
      | _ => none
    | "(" :: op :: rest => do
      let (a, rest) ← parseE st fuel rest
      let (b, rest) ← parseE st fuel rest
      match rest with
      | ")" :: rest =>
        match op with
        | "add" => pure (.add a b, rest)
        | "sub" => pure (.sub a b, rest)
        | "mul" => pure (.mul a b, rest)
        | "div" => pure (.div a b, rest)
        | _ => none
      | _ => none
    | _ => none

def step (st : St) (line : String) : St × String :=
  match (line.splitOn " ").filter (· ≠ "") with
  | "eval" :: _ =>
    let toks := tokenizeS ((line.drop 5).toString)
    match parseE st (toks.length + 1) toks with
    | some (e, []) => (st, showRes st (evalQ st.tbl e))
    | _ => (st, "bad-request")
  | ["tbl-reset"] => ({ st with tbl := [], reg := [] }, "ok")
  | ["abbr", name] =>
    match lookup st name with
    | some id => ({ st with reg := st.reg.set id ⟨true⟩ }, "ok")
    | none => (st, "bad-unit")
  | ["u", name, isBase, bits, unit] =>
    match parseBits bits, parseUnit st unit with
    | some f, some u => ({ st with tbl := st.tbl ++ [⟨name, isBase == "1", f, u⟩], reg := st.reg ++ [⟨false⟩] }, "ok")
    | _, _ => (st, "bad-unit")
  | [op, b1, u1] =>
    match parseQ st b1 u1 with
    | some a => (st, unop st op a)
    | none => (st, "bad-unit")
  | ["vmconv2", b1, u1, b2, u2, b3, u3] =>
    -- `(a -> b) -> c` as the VM evaluates and displays it
    match parseQ st b1 u1, parseQ st b2 u2, parseQ st b3 u3 with
    | some a, some b, some c =>
      (st, match vmConvertDisplay st.tbl a b with
        | .error _ => "err incompatible"
        | .ok d1 => match vmConvertDisplay st.tbl d1.q c with
          | .error _ => "err incompatible"
          | .ok d2 => showQ st d2.q ++ (match d2.target with | none => "" | some t => " -> " ++ showQ st t))
    | _, _, _ => (st, "bad-unit")
  | ["vmconv", b1, u1, b2, u2] =>
    match parseQ st b1 u1, parseQ st b2 u2 with
    | some a, some b =>
      (st, match vmConvertDisplay st.tbl a b with
        | .error _ => "err incompatible"
        | .ok d => showQ st d.q ++ (match d.target with | none => "" | some t => " -> " ++ showQ st t))
    | _, _ => (st, "bad-unit")
  | ["assert3", b1, u1, b2, u2, b3, u3] =>
    match parseQ st b1 u1, parseQ st b2 u2, parseQ st b3 u3 with
    | some a, some b, some e => (st, match assertEq3 st.tbl a b e with
      | .ok => "ok" | .failed => "failed" | .qerr => "qerr")
    | _, _, _ => (st, "bad-unit")
  | ["assert2", b1, u1, b2, u2] =>
    match parseQ st b1 u1, parseQ st b2 u2 with
    | some a, some b => (st, match assertEq2 st.tbl a b with
      | .ok => "ok" | .failed => "failed" | .qerr => "qerr")
    | _, _ => (st, "bad-unit")
  | ["vm", op, b1, u1, b2, u2] =>
    match parseQ st b1 u1, parseQ st b2 u2 with
    | some a, some b =>
      let showB : Except QErr Bool → String
        | .ok v => s!"bool {v}"
        | .error _ => "err incompatible"
      (st, match op with
        | "lt" => showB (vmCompare st.tbl .lt a b)
        | "gt" => showB (vmCompare st.tbl .gt a b)
        | "le" => showB (vmCompare st.tbl .le a b)
        | "ge" => showB (vmCompare st.tbl .ge a b)
        | "eq" => s!"bool {vmEq st.tbl a b}"
        | "ne" => s!"bool {vmNe st.tbl a b}"
        | _ => "bad-op")
    | _, _ => (st, "bad-unit")
  | [op, b1, u1, b2, u2] =>
    match parseQ st b1 u1, parseQ st b2 u2 with
    | some a, some b => (st, binop st op a b)
    | _, _ => (st, "bad-unit")
  | _ => (st, "bad-request")

end NumbatModel.DriverQty
