import NumbatModel.Model.Core
import NumbatModel.Model.VM
import NumbatModel.Driver.Common
/-!
Driver for C09.

Request:  `run procs=<p1,p2,p3> <input> ;; <input> ;; …`
  an input is a blank-separated sequence of typed statements as S-expressions (the output of the hook
  `Context::verif_c09_typed_dump`); `procs` is the order of the three procedures in `ffi_callables`.
Answer:   `<B1> ;; <B2> … || <S1> ;; <S2> …`
  B = outcome of the input on the model of compiler + VM (`value <v>` | `continue` | `error <Kind>` |
      `panic` | `timeout`), the printed lines, and `ref=ok|DIFF|skip`: whether the reference evaluator
      `Core.evalInput` gives the same outcome/value/output as the compiled code (skip = it ran out of fuel
      or the compiled code panicked);
  S = chunks, constants, struct infos, foreign callables, locals, function map, ip, stack, last result
      after the input.
Numbers are `Float` (bit patterns on the wire).
-/
open NumbatModel.Core NumbatModel.VM NumbatModel.Driver

namespace NumbatModel.DriverC09

/-! ### S-expressions -/

inductive SExp where
  | atom (s : String)
  | list (xs : List SExp)
deriving Inhabited

partial def parseSeq : List Char → List SExp → List SExp × List Char
  | [], acc => (acc.reverse, [])
  | ')' :: rest, acc => (acc.reverse, rest)
  | '(' :: rest, acc =>
    let (xs, rest') := parseSeq rest []
    parseSeq rest' (.list xs :: acc)
  | c :: rest, acc =>
    if c == ' ' then parseSeq rest acc
    else
      let tok := (c :: rest).takeWhile (fun d => d != ' ' && d != '(' && d != ')')
      parseSeq ((c :: rest).drop tok.length) (.atom (String.ofList tok) :: acc)

def parseAll (s : String) : List SExp := (parseSeq s.toList []).1

/-! ### wire encodings -/

def hexDigit (c : Char) : Option Nat :=
  if '0' ≤ c && c ≤ '9' then some (c.toNat - '0'.toNat)
  else if 'a' ≤ c && c ≤ 'f' then some (c.toNat - 'a'.toNat + 10)
  else none

def hexToNat (s : String) : Option Nat :=
  s.toList.foldl (fun acc c => match acc, hexDigit c with
    | some a, some d => some (a * 16 + d)
    | _, _ => none) (some 0)

def floatOfHex (s : String) : Option Float := (hexToNat s).map fun n => Float.ofBits (UInt64.ofNat n)

def nibble (n : Nat) : Char := if n < 10 then Char.ofNat (48 + n) else Char.ofNat (87 + n)

def hex2 (n : Nat) : String := String.ofList [nibble (n / 16 % 16), nibble (n % 16)]

def hexPad16 (n : Nat) : String :=
  String.ofList ((List.range 16).map fun i => nibble (n / 16 ^ (15 - i) % 16))

def floatHex (x : Float) : String := hexPad16 x.toBits.toNat

/-- `x<hex of the UTF-8 bytes>` -/
def strHex (s : String) : String := "x" ++ String.join (s.toUTF8.toList.map fun b => hex2 b.toNat)

partial def bytesOfHex : List Char → List UInt8
  | a :: b :: rest =>
    match hexDigit a, hexDigit b with
    | some x, some y => UInt8.ofNat (x * 16 + y) :: bytesOfHex rest
    | _, _ => []
  | _ => []

def strOfHex (s : String) : Option String :=
  match s.toList with
  | 'x' :: rest => String.fromUTF8? (ByteArray.mk (bytesOfHex rest).toArray)
  | _ => none

def codeHex (code : List UInt8) : String := String.join (code.map fun b => hex2 b.toNat)

/-! ### the value level at `Float` -/

/-- digits of a natural number with `_` between groups of three when `group` -/
def groupDigits (ds : List Char) : List Char :=
  let rec go : List Char → Nat → List Char → List Char
    | [], _, acc => acc
    | c :: cs, k, acc => if k == 3 then go cs 1 (c :: '_' :: acc) else go cs (k + 1) (c :: acc)
  go ds.reverse 0 []

/-- `Number::pretty_print` for an integer below 2^53 (default options: separator `_` from 100000 on);
    anything else is outside the driver's fragment and shows as `<float bits>` -/
def fmtFloat (x : Float) : String :=
  if x.floor == x && x.abs < 9007199254740992.0 then
    let i : Int := x.toInt64.toInt
    let ds := (toString i.natAbs).toList
    let body := if x.abs >= 100000.0 then groupDigits ds else ds
    (if i < 0 then "-" else "") ++ String.ofList body
  else "<" ++ floatHex x ++ ">"

def factLoop : Nat → Float → Float → Float → Float
  | 0, _, _, r => r
  | n + 1, x, k, r => if x >= 1.0 && r != (1.0 / 0.0) then factLoop n (x - k) k (r * x) else r

def floatFfi (name : Name) (args : List (Value Float)) : Res (Value Float) :=
  match name, args with
  | "len", [.list xs] => .ok (.num xs.length.toFloat)
  | "head", [.list (x :: _)] => .ok x
  | "head", [.list []] => .err .emptyList
  | "tail", [.list (_ :: xs)] => .ok (.list xs)
  | "tail", [.list []] => .err .emptyList
  | "cons", [x, .list xs] => .ok (.list (x :: xs))
  | "cons_end", [x, .list xs] => .ok (.list (xs ++ [x]))
  | "str_length", [.str s] => .ok (.num s.utf8ByteSize.toFloat)
  | _, _ => .panic ("unsupported: foreign function " ++ name)

def floatSem : Sem Float :=
  { arith := fun op x y =>
      match op with
      -- `impl Add/Sub for &Quantity`: a zero operand short-cuts (so `0 - 0 = -0`, `0 + -0 = -0`)
      | .add => .ok (if x == 0.0 then y else if y == 0.0 then x else x + y)
      | .sub => .ok (if x == 0.0 then -y else if y == 0.0 then x else x - y)
      | .mul => .ok (x * y)
      | .div => if y == 0.0 then .error .divisionByZero else .ok (x / y)
      | .pow => .error (.other "unsupported: power")
      | .conv => .error (.other "unsupported: conversion"),
    neg := fun x => -x,
    fact := fun k x =>
      if x < 0.0 then .error .factorialOfNegativeNumber
      else if (x - x.floor) != 0.0 then .error .factorialOfNonInteger
      else .ok (factLoop 1000 x.floor k.toFloat 1.0),
    cmp := fun x y =>
      if x.isNaN || y.isNaN then none
      else if x < y then some .lt else if x == y then some .eq else some .gt,
    eq := fun x y => x == y,
    fmt := fmtFloat,
    ffi := floatFfi,
    fmtSpec := fun _ _ => .error (.other "unsupported: format specifiers") }

/-! ### statements from S-expressions -/

def atomOf : SExp → Option String
  | .atom s => some s
  | _ => none

def structInfoOf : SExp → Option StructInfo
  | .list (.atom n :: fs) => (fs.mapM atomOf).map fun fields => { name := n, fields := fields }
  | _ => none

def binOpOf : String → Option BinOp
  | "add" => some (.arith .add) | "sub" => some (.arith .sub) | "mul" => some (.arith .mul)
  | "div" => some (.arith .div) | "pow" => some (.arith .pow) | "conv" => some (.arith .conv)
  | "lt" => some (.cmp .lt) | "gt" => some (.cmp .gt) | "le" => some (.cmp .le) | "ge" => some (.cmp .ge)
  | "eq" => some .eq | "ne" => some .ne | "and" => some .and | "or" => some .or
  | _ => none

partial def exprOf : SExp → Option (Expr Float)
  | .list [.atom "num", .atom h] => (floatOfHex h).map .num
  | .list [.atom "bool", .atom b] => some (.bool (b == "1"))
  | .list [.atom "id", .atom x] => some (.ident x)
  | .list [.atom "neg", e] => (exprOf e).map .neg
  | .list [.atom "not", e] => (exprOf e).map .not
  | .list [.atom "fact", .atom k, e] => do pure (.fact (← k.toNat?) (← exprOf e))
  | .list [.atom "bin", .atom op, l, r] => do pure (.bin (← binOpOf op) (← exprOf l) (← exprOf r))
  | .list (.atom "call" :: .atom f :: args) => do pure (.call f (← args.mapM exprOf))
  | .list (.atom "callc" :: c :: args) => do pure (.callc (← exprOf c) (← args.mapM exprOf))
  | .list [.atom "if", c, t, e] => do pure (.cond (← exprOf c) (← exprOf t) (← exprOf e))
  | .list (.atom "str" :: parts) => do
    let ps ← parts.mapM fun p =>
      match p with
      | .list [.atom "fixed", .atom h] => (strOfHex h).map Part.fixed
      | .list [.atom "interp", .atom "-", e] => (exprOf e).map (Part.interp none)
      | .list [.atom "interp", .atom h, e] => do pure (Part.interp (some (← strOfHex h)) (← exprOf e))
      | _ => none
    pure (.str ps)
  | .list (.atom "mk" :: info :: fields) => do
    let fs ← fields.mapM fun f =>
      match f with
      | .list [.atom n, e] => (exprOf e).map (Field.mk n)
      | _ => none
    pure (.mk (← structInfoOf info) fs)
  | .list [.atom "fld", e, .atom f, info] => do pure (.fld (← exprOf e) f (← structInfoOf info))
  | .list (.atom "list" :: es) => do pure (.list (← es.mapM exprOf))
  | _ => none

def defOf : SExp → Option (Def Float)
  | .list [.atom "let", .list names, e] => do pure { names := (← names.mapM atomOf), expr := (← exprOf e) }
  | _ => none

def stmtOf : SExp → Stmt Float
  | .list [.atom "expr", e] => match exprOf e with | some e => .expr e | none => .unsupported "expression"
  | s@(.list (.atom "let" :: _)) => match defOf s with | some d => .letv d | none => .unsupported "let"
  | .list [.atom "fn", .atom name, .list params, .list wheres, body] =>
    match params.mapM atomOf, wheres.mapM defOf, exprOf body with
    | some ps, some ws, some b => .fn { name := name, params := ps, wheres := ws, body := b }
    | _, _, _ => .unsupported "fn"
  | .list [.atom "ffn", .atom name, .atom k] => .ffn name (k.toNat?.getD 0)
  | .list [.atom "dim"] => .dim
  | .list (.atom "struct" :: .atom name :: fields) =>
    match fields.mapM atomOf with
    | some fs => .structDef { name := name, fields := fs }
    | none => .unsupported "struct"
  | .list (.atom "proc" :: .atom kind :: args) =>
    match args.mapM exprOf with
    | some as =>
      (match kind with
       | "print" => .proc .print as
       | "assert" => .proc .assert as
       | "assert_eq" => .proc .assertEq as
       | _ => .proc .type as)
    | none => .unsupported "procedure argument"
  | .list [.atom "unsupported", .atom w] => .unsupported w
  | _ => .unsupported "statement"

/-! ### canonical text of values and state -/

mutual
partial def valueCanon : Value Float → String
  | .num x => "(n " ++ floatHex x ++ ")"
  | .bool b => if b then "(b 1)" else "(b 0)"
  | .str s => "(s " ++ strHex s ++ ")"
  | .fnref false n _ => "(f N " ++ n ++ ")"
  | .fnref true n _ => "(f F " ++ n ++ ")"
  | .fmtspec none => "(m -)"
  | .fmtspec (some s) => "(m " ++ strHex s ++ ")"
  | .struct info vs =>
    "(S " ++ info.name ++ " (" ++ " ".intercalate info.fields ++ ")" ++ String.join (vs.map fun v => " " ++ valueCanon v) ++ ")"
  | .list xs => "(L" ++ String.join (xs.map fun v => " " ++ valueCanon v) ++ ")"
end

def constCanon : Constant Float → String
  | .scalar x => "(n " ++ floatHex x ++ ")"
  | .boolean b => if b then "(b 1)" else "(b 0)"
  | .string s => "(s " ++ strHex s ++ ")"
  | .fnref false n _ => "(f N " ++ n ++ ")"
  | .fnref true n _ => "(f F " ++ n ++ ")"
  | .fmtspec none => "(m -)"
  | .fmtspec (some s) => "(m " ++ strHex s ++ ")"

def errName : Err → String
  | .divisionByZero => "DivisionByZero"
  | .factorialOfNegativeNumber => "FactorialOfNegativeNumber"
  | .factorialOfNonInteger => "FactorialOfNonInteger"
  | .quantityError => "QuantityError"
  | .emptyList => "EmptyList"
  | .assertFailed => "AssertFailed"
  | .invalidFormatSpecifiers => "InvalidFormatSpecifiers"
  | .invalidTypeForFormatSpecifiers => "InvalidTypeForFormatSpecifiers"
  | .other s => "Other:" ++ s

def bracket (xs : List String) : String := "[" ++ ",".intercalate xs ++ "]"

/-- the function map as the hook reports the `HashMap`: one entry per name (last write), sorted by name -/
def fnsCanon (fs : List (Name × Bool)) : List String :=
  let names := (fs.map Prod.fst).eraseDups.mergeSort (fun a b => a ≤ b)
  names.map fun n => n ++ ":" ++ (if (assocLast n fs).getD false then "1" else "0")

def structural (I : Interp Float) : String :=
  "chunks=" ++ bracket (I.chunks.map fun c => c.name ++ ":" ++ codeHex c.code) ++
  " consts=" ++ bracket (I.constants.map constCanon) ++
  " structs=" ++ bracket (I.structInfos.map fun s => s.name ++ "(" ++ " ".intercalate s.fields ++ ")") ++
  " ffi=" ++ bracket I.ffiNames ++
  " ncall=" ++ toString I.nCallArgs ++
  " locals=" ++ bracket (I.locals0.map fun l => "/".intercalate l) ++
  " fns=" ++ bracket (fnsCanon I.functions) ++
  " ip=" ++ toString I.ip ++
  " stack=" ++ bracket (I.stack.map valueCanon) ++
  " last=" ++ (match I.last with | some v => valueCanon v | none => "-")

def outText (out : List String) : String := "out=" ++ bracket (out.map strHex)

def outcomeText : Outcome Float → String
  | .value v => "value " ++ valueCanon v
  | .continue_ => "continue"
  | .error e => "error " ++ errName e
  | .panic _ => "panic"
  | .timeout => "timeout"

/-! ### the reference evaluator next to the compiled code -/

/-- top-level state of the reference semantics that corresponds to an interpreter state: the function
    table is rebuilt by the caller, values are read off the stack -/
structure RefState where
  st : TopState Float

def refInit (procs : List Name) : TopState Float :=
  { static := { gnames := [], funs := [], fnNames := [], ffi := procs, structs := [] },
    gvals := [], last := none, out := [], result := none }

/-- compare the reference result of an input with the result of the compiled code -/
def refVerdict (r : Res (TopState Float)) (o : Outcome Float) (out : List String) : String :=
  match r, o with
  | .timeout, _ => "skip"
  | _, .panic _ => "skip"
  | _, .timeout => "skip"
  | .panic _, _ => "DIFF"
  | .err e, .error e' => if errName e == errName e' then "ok" else "DIFF"
  | .err _, _ => "DIFF"
  | .ok st, .value v =>
    (match st.result with
     | some w => if valueCanon w == valueCanon v && st.out == out then "ok" else "DIFF"
     | none => "DIFF")
  | .ok st, .continue_ => if st.result.isNone && st.out == out then "ok" else "DIFF"
  | .ok _, .error _ => "DIFF"

def splitOn2 (s : String) (sep : String) : List String := s.splitOn sep

def fuelVM : Nat := 2000000
def fuelRef : Nat := 100000

def runLine (line : String) : String :=
  match line.splitOn " " with
  | "run" :: procsArg :: rest =>
    match procsArg.splitOn "=" with
    | ["procs", ps] =>
      let procs := ps.splitOn ","
      let body := " ".intercalate rest
      let inputs := (body.splitOn " ;; ").map fun t => (parseAll t).map stmtOf
      let init : Interp Float × TopState Float × List String × List String :=
        (Interp.new procs, refInit procs, [], [])
      let (_, _, bs, ss) := inputs.foldl (fun acc stmts =>
        let (I, R, bs, ss) := acc
        let (I', o, out) := interpret floatSem fuelVM I stmts
        let r := evalInput floatSem fuelRef R stmts
        let verdict := refVerdict r o out
        let R' := match r, o with
          | .ok st, .value _ => st
          | .ok st, .continue_ => st
          | _, _ => R
        (I', R', bs ++ [outcomeText o ++ " " ++ outText out ++ " ref=" ++ verdict], ss ++ [structural I'])) init
      " ;; ".intercalate bs ++ " || " ++ " ;; ".intercalate ss
    | _ => "bad-request"
  | _ => "bad-request"

end NumbatModel.DriverC09

def main : IO Unit := NumbatModel.Driver.runDriver () (fun _ l => ((), NumbatModel.DriverC09.runLine l))
