import NumbatModel.Model.Cli
import NumbatModel.Driver.Common
/-! Driver for C22.

    cli <prelude 0|1> <input> <input> ...
    input = <f|t>:<ok 0|1>:<prints>:<result>:<diag>     strings as hex of their UTF-8 bytes, `-` = empty,
                                                          prints = hex strings separated by `,`
  The library outcomes of ALL inputs are supplied (also of those after a failure); which of them the CLI
  evaluates and writes is decided by the model.  Answer:  `exit=<n> out=<hex> err=<hex>`.
-/
open NumbatModel.Cli NumbatModel.Driver

namespace NumbatModel.DriverC22

def hexVal (c : Char) : Option Nat :=
  if '0' ≤ c ∧ c ≤ '9' then some (c.toNat - '0'.toNat)
  else if 'a' ≤ c ∧ c ≤ 'f' then some (c.toNat - 'a'.toNat + 10)
  else none

def unhexBytes : List Char → Option (List UInt8)
  | [] => some []
  | a :: b :: rest => do
    let x ← hexVal a
    let y ← hexVal b
    let r ← unhexBytes rest
    pure (UInt8.ofNat (x * 16 + y) :: r)
  | _ => none

def unhex (s : String) : Option String :=
  if s == "-" then some "" else
  match unhexBytes s.toList with
  | some bs => String.fromUTF8? (ByteArray.mk bs.toArray)
  | none => none

def hexDigit (n : Nat) : Char := if n < 10 then Char.ofNat (48 + n) else Char.ofNat (87 + n)

def hex (s : String) : String :=
  if s.isEmpty then "-" else
  String.ofList (s.toUTF8.toList.flatMap (fun b => [hexDigit (b.toNat / 16), hexDigit (b.toNat % 16)]))

structure In where
  src : Source
  ev : Eval

def parseInput (tok : String) : Option In :=
  match tok.splitOn ":" with
  | [src, ok, prints, result, diag] => do
    let src ← (match src with | "f" => some Source.file | "t" => some Source.text | _ => none)
    let ps ← (if prints == "-" then some [] else (prints.splitOn ",").mapM unhex)
    let r ← unhex result
    let d ← unhex diag
    pure ⟨src, ⟨ok == "1", ps, r, d⟩⟩
  | _ => none

/-- the library as a table: session = number of inputs evaluated so far (the prelude is input 0 if loaded) -/
def evalTable (tbl : List Eval) (s : Nat) (_code : Nat) (_src : Source) : Nat × Eval :=
  (s + 1, tbl[s]?.getD ⟨false, [], "", "<no outcome supplied>"⟩)

def step (_ : Unit) (line : String) : Unit × String :=
  match (line.splitOn " ").filter (· ≠ "") with
  | "cli" :: prelude :: toks =>
    match toks.mapM parseInput with
    | none => ((), "bad-request")
    | some ins =>
      let pre : List Eval := if prelude == "1" then [⟨true, [], "", ""⟩] else []
      let tbl := pre ++ ins.map (·.ev)
      let inputs : List (Nat × Source) := ins.map (fun i => (0, i.src))
      let (io, code) := cliMain (evalTable tbl) 0 (if prelude == "1" then some 0 else none) inputs
      ((), s!"exit={code} out={hex (String.join io.stdout)} err={hex (String.join io.stderr)}")
  | _ => ((), "bad-request")

end NumbatModel.DriverC22

def main : IO Unit := runDriver () NumbatModel.DriverC22.step
