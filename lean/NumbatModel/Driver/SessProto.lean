import NumbatModel.Model.SessionNames
import NumbatModel.Driver.Common
/-! Line protocol of the session drivers `drv_c06` and `drv_c07` (name-level instance of `Model/Session.lean`).

    mod <name> <dep,dep|-> <kind:name,kind:name|->     module table entry                        → ok
    base <mod,mod,...>                                  modules imported by the prelude baseline  → ok
    new                                                 start a session from the baseline         → ok
    in <stage> <pos> <item> ...                         one input; answer
        <stage> mods=[..] tr=[..] tc=[..] vm=[..] || files=<n> text=<n>
-/
open NumbatModel.Session NumbatModel.Session.Names NumbatModel.Driver

namespace NumbatModel.DriverC06

abbrev SCode := Code String String

structure St where
  table : List (String × SCode) := []
  base : List String := []
  sess : NSession String String := NSession.init []

def splitList (s : String) : List String :=
  if s == "-" || s == "" then [] else s.splitOn ","

def parseKind : String → Option Kind
  | "var" => some .var | "fn" => some .fn | "unit" => some .unit | "dim" => some .dim
  | "struct" => some .struct | _ => none

def kindName : Kind → String
  | .var => "var" | .fn => "fn" | .unit => "unit" | .dim => "dim" | .struct => "struct"

/-- `kind:name` -/
def parseEntry (s : String) : Option (Kind × String) :=
  match s.splitOn ":" with
  | k :: rest@(_ :: _) => (parseKind k).map (fun k => (k, ":".intercalate rest))
  | _ => none

def parseItem (s : String) : Item String String :=
  if s.startsWith "use:" then .use (s.drop 4).toString
  else if s.startsWith "def:" then .defn (((s.drop 4).toString.splitOn "+").filterMap parseEntry)
  else .plain

def insertAt (xs : List α) (i : Nat) (x : α) : List α := xs.take i ++ [x] ++ xs.drop i

def sortDedup (xs : List String) : List String :=
  (xs.mergeSort (fun a b => decide (a ≤ b))).eraseDups

def fmtNames (ns : Names String) : String :=
  "[" ++ ",".intercalate (sortDedup (ns.map (fun n => kindName n.1 ++ ":" ++ n.2))) ++ "]"

def stageText : Except (Err String Unit) (Option Unit) → String
  | .ok _ => "ok"
  | .error (.unknownModule _) => "module"
  | .error (.parse _) => "parse"
  | .error (.names _) => "names"
  | .error (.types _) => "types"
  | .error (.runtime _) => "run"
  | .error .fuel => "fuel"

def step (st : St) (line : String) : St × String :=
  match (line.splitOn " ").filter (· ≠ "") with
  | ["mod", name, deps, names] =>
    let code : SCode := ⟨false, (splitList deps).map .use ++ [.defn ((splitList names).filterMap parseEntry)]⟩
    ({ st with table := st.table ++ [(name, code)] }, "ok")
  | ["base", mods] => ({ st with base := splitList mods }, "ok")
  | ["new"] => ({ st with sess := NSession.init st.base }, "ok")
  | "in" :: stage :: pos :: items =>
    let items := items.map parseItem
    let pos := pos.toNat?.getD 0
    let items := match stage with
      | "names" => insertAt items pos (.failAt .names)
      | "types" => insertAt items pos (.failAt .types)
      | "run" => insertAt items pos (.failAt .run)
      | _ => items
    let code : SCode := ⟨stage == "parse", items⟩
    let (s', o) := interpret (stages st.table 64) st.sess code .text
    let mods := sortDedup (s'.resolver.imported.filter (fun m => !st.base.contains m))
    let ans := stageText o.result ++ " mods=[" ++ ",".intercalate mods ++ "] tr=" ++ fmtNames s'.transformer ++
      " tc=" ++ fmtNames s'.checker ++ " vm=" ++ fmtNames s'.interp ++ " || files=" ++ toString s'.resolver.files.length ++
      " text=" ++ toString s'.resolver.textCount
    ({ st with sess := s' }, ans)
  | _ => (st, "bad-request")

end NumbatModel.DriverC06

