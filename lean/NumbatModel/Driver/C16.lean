import NumbatModel.Model.Types
import NumbatModel.Model.Elab
import NumbatModel.Driver.TypesText
import NumbatModel.Driver.Common
/-! Driver for C16: `infer <counter> <nparams> <body>` → `ok <statement scheme> || <environment scheme>` | `reject`. -/
open NumbatModel.Types NumbatModel.TypesText NumbatModel.Driver

namespace NumbatModel.DriverC16

def fuel : Nat := 100000

/-- `(forall N (bounds…) type)` after the opening `(` and `forall` -/
def parseSchemeRest (ts : List String) : Option ((Nat × List Ty × Ty) × List String) :=
  match ts with
  | n :: "(" :: rest => do
    let n ← n.toNat?
    -- bounds up to ")"
    let rec bounds (fuel : Nat) (ts : List String) (acc : List Ty) : Option (List Ty × List String) :=
      match fuel, ts with
      | 0, _ => none
      | _, [] => none
      | _ + 1, ")" :: r => some (acc.reverse, r)
      | f + 1, ts => do
        let (t, r) ← parseTy (ts.length + 1) ts
        bounds f r (t :: acc)
    let (bs, r1) ← bounds (rest.length + 1) rest []
    let (t, r2) ← parseTy (r1.length + 1) r1
    match r2 with
    | ")" :: r3 => some ((n, bs, t), r3)
    | _ => none
  | _ => none

mutual
def parseEx : Nat → List String → Option (Ex × List String)
  | 0, _ => none
  | _ + 1, [] => none
  | fuel + 1, t :: rest =>
    if t == "n" then some (.num, rest)
    else if t == "z" then some (.zero, rest)
    else if t == "(" then
      match rest with
      | "u" :: r => do
        let (fs, r') ← parseRawFactors r
        some (.unit (canon fs), r')
      | "p" :: i :: ")" :: r => i.toNat?.map (fun i => (.param i, r))
      | "neg" :: r => do
        let (e, r1) ← parseEx fuel r
        match r1 with
        | ")" :: r2 => some (.neg e, r2)
        | _ => none
      | "pow" :: r => do
        let (e, r1) ← parseEx fuel r
        match r1 with
        | q :: ")" :: r2 => (parseRat q).map (fun q => (.pow e q, r2))
        | _ => none
      | "if" :: r => do
        let (c, r1) ← parseEx fuel r
        let (a, r2) ← parseEx fuel r1
        let (b, r3) ← parseEx fuel r2
        match r3 with
        | ")" :: r4 => some (.ite c a b, r4)
        | _ => none
      | "call" :: "(" :: "forall" :: r => do
        let ((nq, bs, fnTy), r1) ← parseSchemeRest r
        let (args, r2) ← parseArgs fuel r1
        some (.call nq bs fnTy args, r2)
      | op :: r =>
        if op == "add" || op == "sub" || op == "conv" || op == "mul" || op == "div" || op == "lt" || op == "eq" then do
          let (a, r1) ← parseEx fuel r
          let (b, r2) ← parseEx fuel r1
          match r2 with
          | ")" :: r3 =>
            let e : Ex := if op == "mul" then .mul a b else if op == "div" then .div a b
              else if op == "lt" then .lt a b else if op == "eq" then .eq a b else .add a b
            some (e, r3)
          | _ => none
        else none
      | [] => none
    else none
def parseArgs : Nat → List String → Option (ExL × List String)
  | 0, _ => none
  | _ + 1, [] => none
  | fuel + 1, t :: rest =>
    if t == ")" then some (.nil, rest)
    else do
      let (e, r1) ← parseEx fuel (t :: rest)
      let (es, r2) ← parseArgs fuel r1
      some (.cons e es, r2)
end

def inferLine (rest : String) : String :=
  match tokens rest with
  | c :: n :: body => (do
      let c ← c.toNat?
      let n ← n.toNat?
      let (e, r) ← parseEx (body.length + 1) body
      if r.isEmpty then
        some (match inferFn fuel c n e with
          | .ok a b => "ok " ++ schemeText a ++ " || " ++ schemeText b
          | .reject => "reject"
          | .panic => "panic"
          | .outOfFuel => "out-of-fuel")
      else none).getD "bad-request"
  | _ => "bad-request"

def runLine (line : String) : String :=
  match line.splitOn " " with
  | "infer" :: rest => inferLine (" ".intercalate rest)
  | _ => "bad-request"

end NumbatModel.DriverC16

def main : IO Unit := runDriver () (fun _ l => ((), NumbatModel.DriverC16.runLine l))
