import NumbatModel.Driver.QtyCommon
def main : IO Unit := NumbatModel.Driver.runDriver ({} : NumbatModel.DriverQty.St) NumbatModel.DriverQty.step
