import NumbatModel.Driver.QtyProg
def main : IO Unit := NumbatModel.Driver.runDriver ({} : NumbatModel.DriverQty.St) NumbatModel.DriverQty.stepProg
