import NumbatModel.Model.Types
/-! Text form of M-Ty values shared by the C02 and C16 drivers (the same form as numbat/src/verif/c02.rs). -/
open NumbatModel.Types

namespace NumbatModel.TypesText

def tokens (s : String) : List String :=
  let (acc, cur) := s.toList.foldl (fun (st : List String × List Char) c =>
    let (acc, cur) := st
    if c == '(' || c == ')' then
      ((if cur.isEmpty then acc else String.ofList cur.reverse :: acc) |> (String.singleton c :: ·), [])
    else if c.isWhitespace then
      ((if cur.isEmpty then acc else String.ofList cur.reverse :: acc), [])
    else (acc, c :: cur)) ([], [])
  ((if cur.isEmpty then acc else String.ofList cur.reverse :: acc)).reverse

def ratText (q : Rat) : String := s!"{q.num}/{q.den}"

def parseRat (s : String) : Option Rat :=
  match s.splitOn "/" with
  | [n] => n.toInt?.map (fun i => (i : Rat))
  | [n, d] => do
    let n ← n.toInt?
    let d ← d.toInt?
    if d == 0 then none else some ((n : Rat) / (d : Rat))
  | _ => none

def tvText : TV → String
  | .named n => "v:" ++ n
  | .quant i => s!"q:{i}"

def factorText : DFactor → String
  | .tvar v => tvText v
  | .tpar n => "p:" ++ n
  | .base n => "b:" ++ n

def factorsText (d : Factors) : String :=
  " ".intercalate (d.map (fun p => factorText p.1 ++ "^" ++ ratText p.2))

def dtypeText (d : Factors) : String :=
  if d.isEmpty then "(d)" else "(d " ++ factorsText d ++ ")"

mutual
def tyText : Ty → String
  | .tvar v => tvText v
  | .tpar n => "p:" ++ n
  | .dim d => dtypeText d
  | .bool => "B"
  | .string => "S"
  | .datetime => "T"
  | .fn ps r => "(fn" ++ tylText ps ++ " -> " ++ tyText r ++ ")"
  | .list e => "(l " ++ tyText e ++ ")"
def tylText : TyL → String
  | .nil => ""
  | .cons t ts => " " ++ tyText t ++ tylText ts
end

def constraintText : Constraint → String
  | .equal a b => "(eq " ++ tyText a ++ " " ++ tyText b ++ ")"
  | .isDType t => "(isd " ++ tyText t ++ ")"
  | .equalScalar d => if d.isEmpty then "(es)" else "(es " ++ factorsText d ++ ")"

def substText (s : Subst) : String :=
  " ; ".intercalate (s.map (fun p => tvText p.1 ++ ":=" ++ tyText p.2))

def schemeText (s : Scheme) : String :=
  s!"(forall {s.nq} (" ++ " ".intercalate (s.bounds.map tyText) ++ ") " ++ tyText s.ty ++ ")"

/-! parsing -/

def parseTV (s : String) : Option TV :=
  if s.startsWith "v:" then some (.named (s.drop 2).toString)
  else if s.startsWith "q:" then (s.drop 2).toString.toNat?.map TV.quant
  else none

def parseFactor (s : String) : Option (DFactor × Rat) :=
  -- split at the last '^'
  let cs := s.toList
  match cs.reverse.span (· != '^') with
  | (expRev, _ :: nameRev) => do
    let e ← parseRat (String.ofList expRev.reverse)
    let n := String.ofList nameRev.reverse
    let f ← (if n.startsWith "b:" then some (DFactor.base (n.drop 2).toString)
             else if n.startsWith "p:" then some (DFactor.tpar (n.drop 2).toString)
             else (parseTV n).map DFactor.tvar)
    some (f, e)
  | (_, []) => do
    let n := s
    let f ← (if n.startsWith "b:" then some (DFactor.base (n.drop 2).toString)
             else if n.startsWith "p:" then some (DFactor.tpar (n.drop 2).toString)
             else (parseTV n).map DFactor.tvar)
    some (f, 1)

/-- raw factors up to the closing parenthesis (consumed) -/
def parseRawFactors : List String → Option (Factors × List String)
  | [] => none
  | ")" :: rest => some ([], rest)
  | t :: rest => do
    let f ← parseFactor t
    let (fs, rest') ← parseRawFactors rest
    some (f :: fs, rest')

mutual
def parseTy : Nat → List String → Option (Ty × List String)
  | 0, _ => none
  | _ + 1, [] => none
  | fuel + 1, t :: rest =>
    if t == "B" then some (.bool, rest)
    else if t == "S" then some (.string, rest)
    else if t == "T" then some (.datetime, rest)
    else if t == "(" then
      match rest with
      | "d" :: r => do
        let (fs, r') ← parseRawFactors r
        some (.dim (canon fs), r')
      | "fn" :: r => do
        let (ps, r') ← parseTysUntilArrow fuel r
        let (ret, r'') ← parseTy fuel r'
        match r'' with
        | ")" :: r3 => some (.fn (TyL.ofList ps) ret, r3)
        | _ => none
      | "l" :: r => do
        let (e, r') ← parseTy fuel r
        match r' with
        | ")" :: r3 => some (.list e, r3)
        | _ => none
      | _ => none
    else if t.startsWith "p:" then some (.tpar (t.drop 2).toString, rest)
    else (parseTV t).map (fun v => (.tvar v, rest))
def parseTysUntilArrow : Nat → List String → Option (List Ty × List String)
  | 0, _ => none
  | _ + 1, [] => none
  | fuel + 1, t :: rest =>
    if t == "->" then some ([], rest)
    else do
      let (x, r) ← parseTy fuel (t :: rest)
      let (xs, r') ← parseTysUntilArrow fuel r
      some (x :: xs, r')
end

def parseConstraint (ts : List String) : Option (Constraint × List String) :=
  match ts with
  | "(" :: "eq" :: r => do
    let (a, r1) ← parseTy (r.length + 1) r
    let (b, r2) ← parseTy (r1.length + 1) r1
    match r2 with
    | ")" :: r3 => some (.equal a b, r3)
    | _ => none
  | "(" :: "isd" :: r => do
    let (a, r1) ← parseTy (r.length + 1) r
    match r1 with
    | ")" :: r3 => some (.isDType a, r3)
    | _ => none
  | "(" :: "es" :: r => do
    let (fs, r1) ← parseRawFactors r
    some (.equalScalar (canon fs), r1)
  | _ => none

def parseConstraints : Nat → List String → Option (List Constraint)
  | 0, _ => none
  | _ + 1, [] => some []
  | fuel + 1, ts => do
    let (c, r) ← parseConstraint ts
    let cs ← parseConstraints fuel r
    some (c :: cs)

def parseTyText (s : String) : Option Ty :=
  let ts := tokens s
  match parseTy (ts.length + 1) ts with
  | some (t, []) => some t
  | _ => none

end NumbatModel.TypesText
