import NumbatModel.Lemmas.VMCorrect
/-!
Helper lemmas for C09, part 7: expression lists (arguments, list elements, struct fields), list literals,
struct literals, strings.
-/
namespace NumbatModel.VM
open NumbatModel.Core
variable {ν : Type}

theorem evalList_length {ev : Expr ν → Res (Value ν)} : ∀ {es : List (Expr ν)} {vs : List (Value ν)},
    evalList ev es = .ok vs → vs.length = es.length
  | [], vs, h => by simp [evalList] at h; subst h; rfl
  | e :: es, vs, h => by
    simp only [evalList, Res.bind_eq_ok] at h
    obtain ⟨v, _, vs', h2, h3⟩ := h
    injection h3 with h3; subst h3
    simp [evalList_length h2]

/-- Statement of compiler correctness for a list of expressions compiled one after the other. -/
def ListOK (S : Sem ν) (P : Prog ν) (T : Table ν) (G : List (List Name)) (n : Nat) : Prop :=
  ∀ (es : List (Expr ν)) (ρ : Env ν) (cs cs' : CS ν) (frag : List UInt8) (m : Machine ν) (f : Frame)
    (fs : List Frame),
    compileList es cs = .ok cs' → cs'.code = cs.code ++ frag → cs'.code.length < 65536 → fitsL es = true →
    Ctx T G ρ cs → Pos P m f fs frag → cs'.constants <+: P.constants →
    Layout ρ f.fp m.stack → m.last = ρ.last →
    (∀ vs, evalList (eval S T n ρ) es = .ok vs → Runs S P m (m.at f fs (f.ip + frag.length) (m.stack ++ vs))) ∧
    (∀ err, evalList (eval S T n ρ) es = .err err → Fails S P m err)

theorem list_ok {S : Sem ν} {P : Prog ν} {T : Table ν} {G : List (List Name)} {n : Nat}
    (ih : ExprOK S P T G n) : ListOK S P T G n := by
  intro es
  induction es with
  | nil =>
    intro ρ cs cs' frag m f fs hcomp hcode hlt hfit hctx hpos hconst hlay hlast
    simp only [compileList] at hcomp
    injection hcomp with hcomp; subst hcomp
    have : frag = [] := by
      have := congrArg List.length hcode; simp at this; exact this
    subst this
    refine ⟨?_, ?_⟩
    · intro vs hv
      simp [evalList] at hv; subst hv
      simpa [Machine.at_self m f fs hpos.frames] using Runs.refl S P m
    · intro err he; simp [evalList] at he
  | cons e es ihl =>
    intro ρ cs cs' frag m f fs hcomp hcode hlt hfit hctx hpos hconst hlay hlast
    simp only [compileList, Res.bind_eq_ok] at hcomp
    obtain ⟨cs1, h1, h2⟩ := hcomp
    simp only [fitsL, Bool.and_eq_true] at hfit
    have g1 := compileExpr_good e cs cs1 h1
    have g2 := compileList_good es cs1 cs' h2
    have hl1 : cs1.code.length < 65536 := Nat.lt_of_le_of_lt g2.len hlt
    obtain ⟨f1, e1⟩ := g1.pre hl1
    obtain ⟨f2, e2⟩ := g2.pre hlt
    have hfrag : frag = f1 ++ f2 := by
      rw [e2, e1, List.append_assoc] at hcode
      exact (List.append_cancel_left hcode).symm
    subst hfrag
    have ihe := ih e ρ cs cs1 f1 m f fs h1 e1 hl1 hfit.1 hctx hpos.left (g2.consts_prefix hconst) hlay hlast
    have iht := fun a => ihl ρ cs1 cs' f2 _ _ fs h2 e2 hlt hfit.2 (hctx.good g1)
      (hpos.next (a := f1) (m.stack ++ [a])) hconst (hlay.push [a]) hlast
    refine ⟨?_, ?_⟩
    · intro vs hv
      simp only [evalList, Res.bind_eq_ok] at hv
      obtain ⟨a, ha, vs', hvs, hv⟩ := hv
      injection hv with hv; subst hv
      have := (ihe.1 a ha).trans ((iht a).1 vs' hvs)
      simpa [Nat.add_assoc] using this
    · intro err he
      simp only [evalList, Res.bind_eq_err] at he
      rcases he with he | ⟨a, ha, he⟩
      · exact ihe.2 err he
      · rcases he with he | ⟨vs', _, he⟩
        · exact (ihe.1 a ha).fails ((iht a).2 err he)
        · cases he

theorem case_list {S : Sem ν} {P : Prog ν} {T : Table ν} {G : List (List Name)} {n : Nat}
    (ih : ExprOK S P T G n) (es : List (Expr ν)) : ExprOKAt S P T G (n + 1) (.list es) := by
  intro ρ cs cs' frag m f fs hcomp hcode hlt hfit hctx hpos hconst hlay hlast
  simp only [compileExpr, Res.bind_eq_ok] at hcomp
  obtain ⟨cs1, h1, h2⟩ := hcomp
  injection h2 with h2; subst h2
  simp only [fitsE, Bool.and_eq_true, decide_eq_true_eq] at hfit
  have g1 := compileList_good es cs cs1 h1
  have hl1 : cs1.code.length < 65536 := by
    have : (cs1.emit .buildList [es.length]).code.length = cs1.code.length + 3 := by simp [encode_length]
    omega
  obtain ⟨f1, e1⟩ := g1.pre hl1
  have hfrag : frag = f1 ++ encode .buildList [es.length] := by
    rw [CS.emit_code, e1, List.append_assoc] at hcode
    exact (List.append_cancel_left hcode).symm
  subst hfrag
  have ihl := list_ok ih es ρ cs cs1 f1 m f fs h1 e1 hl1 hfit.2 hctx hpos.left hconst hlay hlast
  refine ⟨?_, ?_⟩
  · intro v hv
    simp only [eval, Res.bind_eq_ok] at hv
    obtain ⟨vs, hvs, hv⟩ := hv
    injection hv with hv; subst hv
    have r1 := ihl.1 vs hvs
    have r2 := Runs.step (step_buildList (S := S) (hpos.next (a := f1) (m.stack ++ vs)) hfit.1 (s := m.stack)
      (vs := vs) rfl (evalList_length hvs))
    simpa [encode_length, Nat.add_assoc] using r1.trans r2
  · intro err he
    simp only [eval, Res.bind_eq_err] at he
    rcases he with he | ⟨vs, _, he⟩
    · exact ihl.2 err he
    · cases he

/-! ### struct literals -/

theorem compileFields_eq (fields : List (Field ν)) :
    compileFields fields = fields.map (fun fl => (fl.name, compileExpr fl.expr)) := by
  induction fields with
  | nil => rfl
  | cons fl fls ih => cases fl with | mk n e => simp [compileFields, ih, Field.name, Field.expr]

theorem insertByKey_map {α β : Type} (g : α → β) (key : α → Nat) (key' : β → Nat) (hk : ∀ x, key' (g x) = key x)
    (a : α) (l : List α) : insertByKey key' (g a) (l.map g) = (insertByKey key a l).map g := by
  induction l with
  | nil => rfl
  | cons b bs ih =>
    simp only [List.map_cons, insertByKey, hk]
    split <;> simp [ih]

theorem sortByKey_map {α β : Type} (g : α → β) (key : α → Nat) (key' : β → Nat) (hk : ∀ x, key' (g x) = key x)
    (l : List α) : sortByKey key' (l.map g) = (sortByKey key l).map g := by
  induction l with
  | nil => rfl
  | cons a as ih => simp only [List.map_cons, sortByKey, ih, insertByKey_map g key key' hk]

theorem fieldOrder_map {α β : Type} (info : StructInfo) (g : α → β) (name : α → Name) (name' : β → Name)
    (hk : ∀ x, name' (g x) = name x) (l : List α) :
    fieldOrder info name' (l.map g) = (fieldOrder info name l).map g := by
  simp only [fieldOrder]
  rw [sortByKey_map g (fun f => (fieldIdx info (name f)).getD 0) (fun f => (fieldIdx info (name' f)).getD 0)
    (by intro x; simp [hk]), List.map_reverse]

theorem runAll_map_compileExpr (es : List (Expr ν)) (cs : CS ν) :
    runAll (es.map compileExpr) cs = compileList es cs := by
  induction es generalizing cs with
  | nil => rfl
  | cons e es ih =>
    simp only [List.map_cons, runAll, compileList]
    cases compileExpr e cs <;> simp [Res.bind, ih]

theorem fitsL_of_forall : ∀ (es : List (Expr ν)), (∀ e ∈ es, fitsE e = true) → fitsL es = true
  | [], _ => rfl
  | e :: es, h => by
    simp only [fitsL, Bool.and_eq_true]
    exact ⟨h e (by simp), fitsL_of_forall es (fun x hx => h x (by simp [hx]))⟩

theorem fitsF_forall : ∀ (fls : List (Field ν)), fitsF fls = true → ∀ fl ∈ fls, fitsE fl.expr = true
  | [], _, fl, hfl => by simp at hfl
  | .mk n e :: fls, h, fl, hfl => by
    simp only [fitsF, Bool.and_eq_true] at h
    simp only [List.mem_cons] at hfl
    rcases hfl with rfl | hfl
    · exact h.1
    · exact fitsF_forall fls h.2 fl hfl

theorem idxOf?_lt {x : Name} {l : List Name} {i : Nat} (h : idxOf? x l = some i) : i < l.length := by
  simp only [idxOf?] at h
  split at h
  · injection h with h; subst h; assumption
  · cases h

theorem idxOf?_prefix {x : Name} {l1 l2 : List Name} {i : Nat} (hp : l1 <+: l2) (h : idxOf? x l1 = some i) :
    idxOf? x l2 = some i := by
  obtain ⟨t, rfl⟩ := hp
  simp only [idxOf?] at h ⊢
  split at h
  · rename_i hlt
    injection h with h
    have hmem : x ∈ l1 := List.idxOf_lt_length_iff.mp hlt
    have : (l1 ++ t).idxOf x = l1.idxOf x := by rw [List.idxOf_append]; simp [hmem]
    rw [this, if_pos (by simp; omega), h]
  · cases h

theorem case_mk {S : Sem ν} {P : Prog ν} {T : Table ν} {G : List (List Name)} (hP : ProgOK P T G) {n : Nat}
    (ih : ExprOK S P T G n) (info : StructInfo) (fields : List (Field ν)) :
    ExprOKAt S P T G (n + 1) (.mk info fields) := by
  intro ρ cs cs' frag m f fs hcomp hcode hlt hfit hctx hpos hconst hlay hlast
  simp only [compileExpr] at hcomp
  split at hcomp
  · simp only [Res.bind_eq_ok] at hcomp
    obtain ⟨cs1, h1, h2⟩ := hcomp
    -- the fields in the compiler's order are an ordinary expression list
    have hacts : (fieldOrder info Prod.fst (compileFields fields)).map Prod.snd
        = ((fieldOrder info Field.name fields).map Field.expr).map compileExpr := by
      rw [compileFields_eq, fieldOrder_map info (fun fl : Field ν => (fl.name, compileExpr fl.expr)) Field.name Prod.fst
        (by intro x; rfl)]
      simp
    rw [hacts, runAll_map_compileExpr] at h1
    generalize hes : (fieldOrder info Field.name fields).map Field.expr = es at h1
    have hlen : es.length = fields.length := by rw [← hes]; simp [length_fieldOrder]
    simp only [fitsE, Bool.and_eq_true, decide_eq_true_eq] at hfit
    have hfitL : fitsL es = true := by
      apply fitsL_of_forall
      intro e he
      rw [← hes] at he
      simp only [List.mem_map] at he
      obtain ⟨fl, hfl, rfl⟩ := he
      exact fitsF_forall fields hfit.2 fl ((mem_fieldOrder _ _ _ _).mp hfl)
    have g1 := compileList_good es cs cs1 h1
    cases hidx : idxOf? info.name cs1.structNames with
    | none => simp [hidx] at h2
    | some idx =>
      simp only [hidx] at h2
      injection h2 with h2; subst h2
      have hl1 : cs1.code.length < 65536 := by
        have : (cs1.emit .buildStructInstance [idx, fields.length]).code.length = cs1.code.length + 5 := by
          simp [encode_length]
        omega
      obtain ⟨f1, e1⟩ := g1.pre hl1
      have hfrag : frag = f1 ++ encode .buildStructInstance [idx, fields.length] := by
        rw [CS.emit_code, e1, List.append_assoc] at hcode
        exact (List.append_cancel_left hcode).symm
      subst hfrag
      have ihl := list_ok ih es ρ cs cs1 f1 m f fs h1 e1 hl1 hfitL hctx hpos.left hconst hlay hlast
      have hnames : cs1.structNames <+: T.structs.map StructInfo.name := by rw [g1.structNames]; exact hctx.structs
      replace hidx := idxOf?_prefix hnames hidx
      have hilt : idx < T.structs.length := by simpa using idxOf?_lt hidx
      have hi65 : idx < 65536 := by have := hP.structsLt; rw [hP.structs] at this; omega
      refine ⟨?_, ?_⟩
      · intro v hv
        simp only [eval, hes, Res.bind_eq_ok, structByName, hidx] at hv
        obtain ⟨vs, hvs, hv⟩ := hv
        cases hinfo : T.structs[idx]? with
        | none => simp [hinfo] at hv
        | some info' =>
          simp [hinfo] at hv; subst hv
          have r1 := ihl.1 vs hvs
          have r2 := Runs.step (step_buildStruct (S := S) (hpos.next (a := f1) (m.stack ++ vs)) hi65 hfit.1
            (info := info') (by rw [hP.structs]; exact hinfo) (s := m.stack) (vs := vs) rfl
            (by rw [evalList_length hvs, hlen]))
          simpa [encode_length, Nat.add_assoc] using r1.trans r2
      · intro err he
        simp only [eval, hes, Res.bind_eq_err, structByName, hidx] at he
        rcases he with he | ⟨vs, _, he⟩
        · exact ihl.2 err he
        · cases hinfo : T.structs[idx]? <;> simp [hinfo] at he
  · cases hcomp

end NumbatModel.VM
