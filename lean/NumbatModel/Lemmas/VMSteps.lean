import NumbatModel.Lemmas.VMSem
/-!
Helper lemmas for C09, part 4: one lemma per instruction of the modelled fragment.
-/
namespace NumbatModel.VM
open NumbatModel.Core
variable {ν : Type}

/-- the machine stands in frame `f` (below it the frames `fs`) in front of the code `code` -/
structure Pos (P : Prog ν) (m : Machine ν) (f : Frame) (fs : List Frame) (code : List UInt8) : Prop where
  frames : m.frames = f :: fs
  chunk : ∃ ch, P.chunks[f.fn]? = some ch ∧ CodeAt ch.code f.ip code

/-- `m` with the current frame moved to `ip` and the stack replaced -/
def Machine.at (m : Machine ν) (f : Frame) (fs : List Frame) (ip : Nat) (stack : List (Value ν)) : Machine ν :=
  { m with frames := { f with ip := ip } :: fs, stack := stack }

@[simp] theorem Machine.at_stack (m : Machine ν) (f fs ip s) : (m.at f fs ip s).stack = s := rfl
@[simp] theorem Machine.at_last (m : Machine ν) (f fs ip s) : (m.at f fs ip s).last = m.last := rfl
@[simp] theorem Machine.at_out (m : Machine ν) (f fs ip s) : (m.at f fs ip s).out = m.out := rfl
@[simp] theorem Machine.at_result (m : Machine ν) (f fs ip s) : (m.at f fs ip s).result = m.result := rfl
@[simp] theorem Machine.at_frames (m : Machine ν) (f fs ip s) :
    (m.at f fs ip s).frames = { f with ip := ip } :: fs := rfl
@[simp] theorem Machine.at_at (m : Machine ν) (f : Frame) (fs ip s ip' ip'' s') :
    (m.at f fs ip s).at { f with ip := ip' } fs ip'' s' = m.at f fs ip'' s' := rfl

theorem Machine.at_self (m : Machine ν) (f : Frame) (fs : List Frame) (h : m.frames = f :: fs) :
    m.at f fs f.ip m.stack = m := by
  cases m; simp_all [Machine.at]

theorem Pos.left {P : Prog ν} {m : Machine ν} {f : Frame} {fs : List Frame} {a b : List UInt8}
    (h : Pos P m f fs (a ++ b)) : Pos P m f fs a := by
  obtain ⟨ch, h1, h2⟩ := h.chunk
  exact ⟨h.frames, ch, h1, h2.left⟩

/-- after the code `a` the machine stands in front of `b` -/
theorem Pos.next {P : Prog ν} {m : Machine ν} {f : Frame} {fs : List Frame} {a b : List UInt8}
    (h : Pos P m f fs (a ++ b)) (stack : List (Value ν)) :
    Pos P (m.at f fs (f.ip + a.length) stack) { f with ip := f.ip + a.length } fs b := by
  obtain ⟨ch, h1, h2⟩ := h.chunk
  exact ⟨rfl, ch, h1, h2.right⟩

theorem exec_step {S : Sem ν} {P : Prog ν} {m : Machine ν} {f : Frame} {fs : List Frame} {op : Op}
    {args : List Nat} (hp : Pos P m f fs (encode op args)) (hlen : args.length = op.numOperands)
    (hb : ∀ a ∈ args, a < 65536) :
    step S P m = exec S P m { f with ip := f.ip + 1 + 2 * op.numOperands } fs op args := by
  obtain ⟨ch, h1, h2⟩ := hp.chunk
  exact step_eq_exec hp.frames h1 h2 hlen hb

section steps
variable {S : Sem ν} {P : Prog ν} {m : Machine ν} {f : Frame} {fs : List Frame}

theorem step_loadConstant {i : Nat} {c : Constant ν} (hp : Pos P m f fs (encode .loadConstant [i]))
    (hi : i < 65536) (hc : P.constants[i]? = some c) :
    step S P m = .next (m.at f fs (f.ip + 3) (m.stack ++ [c.toValue])) := by
  rw [exec_step hp rfl (by simpa using hi)]
  simp [exec, hc, Machine.at, Op.numOperands]

theorem step_getLocal {slot : Nat} {v : Value ν} (hp : Pos P m f fs (encode .getLocal [slot]))
    (hi : slot < 65536) (hv : m.stack[f.fp + slot]? = some v) :
    step S P m = .next (m.at f fs (f.ip + 3) (m.stack ++ [v])) := by
  rw [exec_step hp rfl (by simpa using hi)]
  simp [exec, hv, Machine.at, Op.numOperands]

theorem step_getUpvalue {i : Nat} {v : Value ν} (hp : Pos P m f fs (encode .getUpvalue [i]))
    (hi : i < 65536) (hv : m.stack[i]? = some v) :
    step S P m = .next (m.at f fs (f.ip + 3) (m.stack ++ [v])) := by
  rw [exec_step hp rfl (by simpa using hi)]
  simp [exec, hv, Machine.at, Op.numOperands]

theorem step_getLastResult {v : Value ν} (hp : Pos P m f fs (encode .getLastResult []))
    (hv : m.last = some v) :
    step S P m = .next (m.at f fs (f.ip + 1) (m.stack ++ [v])) := by
  rw [exec_step hp rfl (by simp)]
  simp [exec, hv, Machine.at, Op.numOperands]

theorem step_negate {s : List (Value ν)} {x : ν} (hp : Pos P m f fs (encode .negate []))
    (hs : m.stack = s ++ [.num x]) :
    step S P m = .next (m.at f fs (f.ip + 1) (s ++ [.num (S.neg x)])) := by
  rw [exec_step hp rfl (by simp)]
  simp [exec, hs, pop, Machine.at, Op.numOperands]

theorem step_logicalNeg {s : List (Value ν)} {b : Bool} (hp : Pos P m f fs (encode .logicalNeg []))
    (hs : m.stack = s ++ [.bool b]) :
    step S P m = .next (m.at f fs (f.ip + 1) (s ++ [.bool (!b)])) := by
  rw [exec_step hp rfl (by simp)]
  simp [exec, hs, pop, Machine.at, Op.numOperands]

theorem step_factorial_ok {s : List (Value ν)} {x y : ν} {k : Nat} (hp : Pos P m f fs (encode .factorial [k]))
    (hk : k < 65536) (hs : m.stack = s ++ [.num x]) (hf : S.fact k x = .ok y) :
    step S P m = .next (m.at f fs (f.ip + 3) (s ++ [.num y])) := by
  rw [exec_step hp rfl (by simpa using hk)]
  simp [exec, hs, pop, hf, Machine.at, Op.numOperands]

theorem step_factorial_err {s : List (Value ν)} {x : ν} {e : Err} {k : Nat}
    (hp : Pos P m f fs (encode .factorial [k]))
    (hk : k < 65536) (hs : m.stack = s ++ [.num x]) (hf : S.fact k x = .error e) :
    step S P m = .err e := by
  rw [exec_step hp rfl (by simpa using hk)]
  simp [exec, hs, pop, hf, Op.numOperands]

theorem binOfOp_binOpcode (op : BinOp) : binOfOp (binOpcode op) = some op := by
  cases op with
  | arith o => cases o <;> rfl
  | cmp o => cases o <;> rfl
  | eq => rfl
  | ne => rfl
  | and => rfl
  | or => rfl

theorem popN_two {α : Type} (s : List α) (x y : α) : popN 2 (s ++ [x, y]) = some (s, [y, x]) := by
  have := popN_append [x, y] s
  simpa using this

theorem exec_bin {op : BinOp} {f' : Frame} {s : List (Value ν)} {x y : Value ν} (hs : m.stack = s ++ [x, y]) :
    exec S P m f' fs (binOpcode op) [] =
      (match applyBin S op x y with
       | .ok v => .next { m with frames := f' :: fs, stack := s ++ [v] }
       | .err e => .err e
       | .panic msg => .panic msg
       | .timeout => .panic "timeout") := by
  cases op with
  | arith o =>
    cases o <;> cases h : applyBin S _ x y <;> simp [exec, binOpcode, binOfOp, hs, popN_two, h]
  | cmp o =>
    cases o <;> cases h : applyBin S _ x y <;> simp [exec, binOpcode, binOfOp, hs, popN_two, h]
  | eq => cases h : applyBin S _ x y <;> simp [exec, binOpcode, binOfOp, hs, popN_two, h]
  | ne => cases h : applyBin S _ x y <;> simp [exec, binOpcode, binOfOp, hs, popN_two, h]
  | and => cases h : applyBin S _ x y <;> simp [exec, binOpcode, binOfOp, hs, popN_two, h]
  | or => cases h : applyBin S _ x y <;> simp [exec, binOpcode, binOfOp, hs, popN_two, h]

theorem numOperands_binOpcode (op : BinOp) : (binOpcode op).numOperands = 0 := by
  cases op with
  | arith o => cases o <;> rfl
  | cmp o => cases o <;> rfl
  | eq => rfl
  | ne => rfl
  | and => rfl
  | or => rfl

theorem step_bin_ok {op : BinOp} {s : List (Value ν)} {x y v : Value ν}
    (hp : Pos P m f fs (encode (binOpcode op) [])) (hs : m.stack = s ++ [x, y])
    (ha : applyBin S op x y = .ok v) :
    step S P m = .next (m.at f fs (f.ip + 1) (s ++ [v])) := by
  rw [exec_step hp (by simp [numOperands_binOpcode]) (by simp), exec_bin hs, ha]
  simp [Machine.at, numOperands_binOpcode]

theorem step_bin_err {op : BinOp} {s : List (Value ν)} {x y : Value ν} {e : Err}
    (hp : Pos P m f fs (encode (binOpcode op) [])) (hs : m.stack = s ++ [x, y])
    (ha : applyBin S op x y = .err e) :
    step S P m = .err e := by
  rw [exec_step hp (by simp [numOperands_binOpcode]) (by simp), exec_bin hs, ha]

theorem step_jumpIfFalse {off : Nat} {s : List (Value ν)} {b : Bool}
    (hp : Pos P m f fs (encode .jumpIfFalse [off])) (ho : off < 65536) (hs : m.stack = s ++ [.bool b]) :
    step S P m = .next (m.at f fs (if b then f.ip + 3 else f.ip + 3 + off) s) := by
  rw [exec_step hp rfl (by simpa using ho)]
  cases b <;> simp [exec, hs, pop, Machine.at, Op.numOperands]

theorem step_jump {off : Nat} (hp : Pos P m f fs (encode .jump [off])) (ho : off < 65536) :
    step S P m = .next (m.at f fs (f.ip + 3 + off) m.stack) := by
  rw [exec_step hp rfl (by simpa using ho)]
  simp [exec, Machine.at, Op.numOperands]

theorem step_buildList {n : Nat} {s vs : List (Value ν)} (hp : Pos P m f fs (encode .buildList [n]))
    (hn : n < 65536) (hs : m.stack = s ++ vs) (hl : vs.length = n) :
    step S P m = .next (m.at f fs (f.ip + 3) (s ++ [.list vs])) := by
  rw [exec_step hp rfl (by simpa using hn)]
  subst hl
  simp [exec, hs, popN_append, Machine.at, Op.numOperands]

theorem step_buildStruct {idx n : Nat} {s vs : List (Value ν)} {info : StructInfo}
    (hp : Pos P m f fs (encode .buildStructInstance [idx, n]))
    (hi : idx < 65536) (hn : n < 65536) (hinfo : P.structInfos[idx]? = some info)
    (hs : m.stack = s ++ vs) (hl : vs.length = n) :
    step S P m = .next (m.at f fs (f.ip + 5) (s ++ [.struct info vs.reverse])) := by
  rw [exec_step hp rfl (by simp; exact ⟨hi, hn⟩)]
  subst hl
  simp [exec, hs, hinfo, popN_append, Machine.at, Op.numOperands]

theorem step_accessField {idx : Nat} {s vs : List (Value ν)} {info : StructInfo} {v : Value ν}
    (hp : Pos P m f fs (encode .accessStructField [idx])) (hi : idx < 65536)
    (hs : m.stack = s ++ [.struct info vs]) (hv : vs[idx]? = some v) :
    step S P m = .next (m.at f fs (f.ip + 3) (s ++ [v])) := by
  rw [exec_step hp rfl (by simpa using hi)]
  simp [exec, hs, pop, hv, Machine.at, Op.numOperands]

theorem step_call {idx nargs : Nat} (hp : Pos P m f fs (encode .call [idx, nargs]))
    (hi : idx < 65536) (hn : nargs < 65536) (hle : nargs ≤ m.stack.length) :
    step S P m = .next { m with frames :=
      { fn := idx, ip := 0, fp := m.stack.length - nargs } :: { f with ip := f.ip + 5 } :: fs } := by
  rw [exec_step hp rfl (by simp; exact ⟨hi, hn⟩)]
  simp [exec, hle, Op.numOperands]

theorem step_return {f' : Frame} {fs' : List Frame} {s : List (Value ν)} {v : Value ν}
    (hp : Pos P m f (f' :: fs') (encode .return_ [])) (hs : m.stack = s ++ [v]) :
    step S P m = .next { m with frames := f' :: fs', stack := s.take f.fp ++ [v] } := by
  rw [exec_step hp rfl (by simp)]
  simp [exec, hs, pop, Op.numOperands]

end steps
end NumbatModel.VM
