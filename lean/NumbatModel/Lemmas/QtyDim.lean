import NumbatModel.Lemmas.Qty
set_option linter.unusedSectionVars false
/-!
Dimension vectors of units (exponent of every base unit) and the static typing relation used by C01.
-/
namespace NumbatModel.Qty
open NumOps LawfulNum

/-- exponent vectors over base-unit ids -/
abbrev DimV := Nat → Rat

/-- exponent vector of a list of *base* factors -/
def vecOfBase : Unit → DimV
  | [] => fun _ => 0
  | f :: u => fun b => (if f.unit = b then f.exp else 0) + vecOfBase u b

variable {α : Type} [NumOps α]

/-- dimension vector of a unit id: the vector of its (raw) base-unit representation -/
def idVec (tbl : Table α) (id : Nat) : DimV := vecOfBase (baseUnitAndFactor tbl tbl.length id).1

/-- dimension vector of a unit: Σ exponent · vector of the unit id -/
def unitVec (tbl : Table α) : Unit → DimV
  | [] => fun _ => 0
  | f :: u => fun b => f.exp * idVec tbl f.unit b + unitVec tbl u b

theorem unitVec_append (tbl : Table α) (u v : Unit) (b : Nat) :
    unitVec tbl (u ++ v) b = unitVec tbl u b + unitVec tbl v b := by
  induction u with
  | nil => simp only [List.nil_append, unitVec]; grind
  | cons f u ih => simp only [List.cons_append, unitVec, ih]; grind

theorem unitVec_power (tbl : Table α) (u : Unit) (r : Rat) (b : Nat) :
    unitVec tbl (Unit.power u r) b = r * unitVec tbl u b := by
  induction u with
  | nil => simp only [Unit.power, List.map_nil, unitVec]; grind
  | cons f u ih =>
    simp only [Unit.power, List.map_cons, unitVec] at ih ⊢
    rw [ih]; grind

/-- The static typing relation of the expression fragment, over dimension vectors.  The literal `0` has
every dimension (numbat's polymorphic zero); every other number is a scalar. -/
inductive HasDim (tbl : Table α) : QExpr α → DimV → Prop where
  | num (v : α) (d : DimV) (h : (∀ b, d b = 0) ∨ beq v zero = true) : HasDim tbl (.num v) d
  | unit (f : Factor) : HasDim tbl (.unit f) (unitVec tbl [f])
  | neg {a d} : HasDim tbl a d → HasDim tbl (.neg a) d
  | add {a b d} : HasDim tbl a d → HasDim tbl b d → HasDim tbl (.add a b) d
  | sub {a b d} : HasDim tbl a d → HasDim tbl b d → HasDim tbl (.sub a b) d
  | mul {a b d₁ d₂} : HasDim tbl a d₁ → HasDim tbl b d₂ → HasDim tbl (.mul a b) (fun x => d₁ x + d₂ x)
  | div {a b d₁ d₂} : HasDim tbl a d₁ → HasDim tbl b d₂ → HasDim tbl (.div a b) (fun x => d₁ x - d₂ x)
  | pow {a d} (r : Rat) : HasDim tbl a d → HasDim tbl (.pow a r) (fun x => r * d x)

/-- a run-time quantity agrees with a static dimension: its unit has that dimension vector, or it is a zero
(a polymorphic zero carries no unit) -/
def ValOK (tbl : Table α) (q : Quantity α) (d : DimV) : Prop :=
  q.isZero = true ∨ ∀ b, unitVec tbl q.unit b = d b

/-- Conversions between units of equal dimension vector succeed.  (This is where the canonical form of base
representations enters; it is validated on the implementation by C04's oracle — every same-dimension
conversion must succeed — and assumed as an explicit hypothesis by `soundness_partial`.) -/
def ConvComplete (tbl : Table α) : Prop :=
  ∀ (x : Quantity α) (U : Unit), (∀ b, unitVec tbl x.unit b = unitVec tbl U b) → ∃ r, convertTo tbl x U = .ok r

end NumbatModel.Qty
