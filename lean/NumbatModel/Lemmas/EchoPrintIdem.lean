import NumbatModel.Lemmas.EchoPrintStable
/-! Helper lemmas for C15 (`print_idempotent`): the induction `idem : ∀ e, Stable e → Idem e`. -/
namespace NumbatModel.Printer

theorem Same.rfl' (e : Expr) : Same e e := ⟨rfl, rfl⟩

theorem canon_other {e : Expr} (h : canonC e = .single e) : Same (canon e) e := by
  simp [canon, h, Canon.single, Same]

theorem IA_of_same {e : Expr} (hs : Same (canon e) e) (hna : e.isBinAdd = false) :
    ∀ acc, ptoks (foldBin .add acc (canonC e).addR) = addOpP acc ++ opToks .add ++ addOpP e := by
  intro acc
  rw [addR_single hna]
  simp only [foldBin]
  rw [ptoks_add, hs.addOpP_eq]

theorem IM_of_same {e : Expr} (hs : Same (canon e) e) (hg : isGenMul e = false) :
    ∀ acc, ¬ (acc.isNum = true ∧ ((firstFactor e).isUnit = true ∨ (firstFactor e).isIdent = true)) →
    ptoks (foldBin .mul acc (canonC e).mulR) = mulOpP acc ++ opToks .mul ++ mulOpP e := by
  intro acc hok
  rw [mulR_single hg]
  simp only [foldBin]
  rw [firstFactor_of_not_gen hg] at hok
  rw [ptoks_mul_general (by rw [isUnit_cls, isIdent_cls, hs.1, ← isUnit_cls, ← isIdent_cls]; exact hok), hs.mulOpP_eq]

theorem IC_of_same {e : Expr} (hs : Same (canon e) e) (hnc : e.isBinConv = false) :
    (firstConv e).isCond = false → ∀ acc,
    ptoks (foldBin .conv acc (canonC e).convR) = convLP acc ++ opToks .conv ++ ptoks e := by
  intro hfc acc
  rw [convR_single hnc]
  simp only [foldBin]
  rw [ptoks_conv _ _ (isCond_of_same hs.1 (not_cond_of_firstConv hfc)), hs.2]

theorem foldBin_bin (op : BinOp) (acc : Expr) : ∀ ys : List Expr, ys ≠ [] → ∃ X y, foldBin op acc ys = .bin op X y := by
  intro ys
  induction ys generalizing acc with
  | nil => intro h; exact absurd rfl h
  | cons y ys ih =>
    intro _
    cases ys with
    | nil => exact ⟨acc, y, rfl⟩
    | cons z zs => simpa [foldBin] using ih (.bin op acc y) (by simp)

theorem canon_bin_isBin (o : BinOp) (l r : Expr) : ∃ o' X y, canon (.bin o l r) = .bin o' X y := by
  cases o with
  | add =>
    obtain ⟨X, y, h⟩ := foldBin_bin .add (canonC l).e _ (chains_ne r).1
    exact ⟨_, X, y, by rw [canon, canonC_add]; exact h⟩
  | conv =>
    obtain ⟨X, y, h⟩ := foldBin_bin .conv (canonC l).e _ (chains_ne r).2.2
    exact ⟨_, X, y, by rw [canon, canonC_conv]; exact h⟩
  | mul =>
    cases hf : isFused l r with
    | true => exact ⟨_, _, _, by rw [canon, canonC_mul_fused hf]; rfl⟩
    | false =>
      obtain ⟨X, y, h⟩ := foldBin_bin .mul (canonC l).e _ (chains_ne r).2.1
      exact ⟨_, X, y, by rw [canon, canonC_mul_general hf]; exact h⟩
  | pow => cases r <;> (simp only [canon, canonC, Canon.single]; exact ⟨_, _, _, rfl⟩)
  | _ => simp only [canon, canonC, Canon.single]; exact ⟨_, _, _, rfl⟩

theorem canon_isUnit (e : Expr) : (canon e).isUnit = e.isUnit := by
  cases e with
  | bin o l r => obtain ⟨o', X, y, h⟩ := canon_bin_isBin o l r; rw [h]; rfl
  | _ => simp [canon, canonC, Canon.single, Expr.isUnit]
theorem canon_isIdent (e : Expr) : (canon e).isIdent = e.isIdent := by
  cases e with
  | bin o l r => obtain ⟨o', X, y, h⟩ := canon_bin_isBin o l r; rw [h]; rfl
  | _ => simp [canon, canonC, Canon.single, Expr.isIdent]

theorem mulR_head : ∀ r : Expr, ∃ tl, (canonC r).mulR = canon (firstFactor r) :: tl
  | .bin o l r => by
    cases o with
    | mul =>
      cases hf : isFused l r with
      | true =>
        refine ⟨[], ?_⟩
        rw [mulR_single (by simp [isGenMul, hf]), firstFactor_of_not_gen (by simp [isGenMul, hf])]
      | false =>
        obtain ⟨tl, h⟩ := mulR_head l
        refine ⟨tl ++ (canonC r).mulR, ?_⟩
        rw [canonC_mul_general hf]
        simp [h, firstFactor, hf]
    | add => exact ⟨[], by rw [mulR_single rfl]; rfl⟩
    | sub => exact ⟨[], by rw [mulR_single rfl]; rfl⟩
    | div => exact ⟨[], by rw [mulR_single rfl]; rfl⟩
    | pow => exact ⟨[], by rw [mulR_single rfl]; rfl⟩
    | conv => exact ⟨[], by rw [mulR_single rfl]; rfl⟩
    | lt => exact ⟨[], by rw [mulR_single rfl]; rfl⟩
    | gt => exact ⟨[], by rw [mulR_single rfl]; rfl⟩
    | le => exact ⟨[], by rw [mulR_single rfl]; rfl⟩
    | ge => exact ⟨[], by rw [mulR_single rfl]; rfl⟩
    | eq => exact ⟨[], by rw [mulR_single rfl]; rfl⟩
    | ne => exact ⟨[], by rw [mulR_single rfl]; rfl⟩
    | and => exact ⟨[], by rw [mulR_single rfl]; rfl⟩
    | or => exact ⟨[], by rw [mulR_single rfl]; rfl⟩
  | .num _ _ => ⟨[], by rw [mulR_single rfl]; rfl⟩
  | .ident _ => ⟨[], by rw [mulR_single rfl]; rfl⟩
  | .unit _ _ => ⟨[], by rw [mulR_single rfl]; rfl⟩
  | .neg _ => ⟨[], by rw [mulR_single rfl]; rfl⟩
  | .fact _ _ => ⟨[], by rw [mulR_single rfl]; rfl⟩
  | .not _ => ⟨[], by rw [mulR_single rfl]; rfl⟩
  | .bool _ => ⟨[], by rw [mulR_single rfl]; rfl⟩
  | .cond _ _ _ => ⟨[], by rw [mulR_single rfl]; rfl⟩
  | .binDate _ _ _ => ⟨[], by rw [mulR_single rfl]; rfl⟩
  | .call _ _ => ⟨[], by rw [mulR_single rfl]; rfl⟩
  | .ccall _ _ => ⟨[], by rw [mulR_single rfl]; rfl⟩
  | .str _ => ⟨[], by rw [mulR_single rfl]; rfl⟩
  | .mk _ _ _ => ⟨[], by rw [mulR_single rfl]; rfl⟩
  | .get _ _ => ⟨[], by rw [mulR_single rfl]; rfl⟩
  | .list _ => ⟨[], by rw [mulR_single rfl]; rfl⟩
  | .hole => ⟨[], by rw [mulR_single rfl]; rfl⟩

theorem cls_foldBin_mul8 (acc : Expr) : ∀ (y : Expr) (ys : List Expr),
    ¬ (acc.isNum = true ∧ y.isUnit = true) → cls (foldBin .mul acc (y :: ys)) = 8 := by
  intro y ys
  induction ys generalizing acc y with
  | nil => intro h; simp only [foldBin, cls]; split
           · rename_i h'; simp at h'; exact absurd h' h
           · rfl
  | cons z zs ih =>
    intro _
    simp only [foldBin]
    exact ih (.bin .mul acc y) z (by simp [Expr.isNum])

theorem idem_plainlike {o : BinOp} {l r : Expr} (ho : o ≠ .add ∧ o ≠ .mul ∧ o ≠ .conv ∧ o ≠ .pow)
    (il : Idem l) (ir : Idem r) : Idem (.bin o l r) := by
  have hcan : canon (.bin o l r) = .bin o (canon l) (canon r) := by
    cases o <;> simp_all [canon, canonC, Canon.single]
  have hs : Same (canon (.bin o l r)) (.bin o l r) := by
    rw [hcan]
    refine ⟨by cases o <;> simp_all [cls], ?_⟩
    cases o <;> simp_all
    · rw [ptoks_sub, ptoks_sub, il.same.mulOpP_eq, ir.same.mulOpP_eq]
    · rw [ptoks_div, ptoks_div, il.same.mulOpP_eq, ir.same.divROpP_eq]
    all_goals (rw [ptoks_plain rfl, ptoks_plain rfl, il.same.wpP_eq, ir.same.wpP_eq])
  exact ⟨hs, IA_of_same hs (by cases o <;> simp_all [Expr.isBinAdd]), IM_of_same hs (by cases o <;> simp_all [isGenMul]),
    IC_of_same hs (by cases o <;> simp_all [Expr.isBinConv])⟩

theorem idem_add {l r : Expr} (il : Idem l) (ir : Idem r) : Idem (.bin .add l r) := by
  have hne := (chains_ne r).1
  have hcan : canon (.bin .add l r) = foldBin .add (canon l) (canonC r).addR := by rw [canon, canonC_add]; rfl
  have hs : Same (canon (.bin .add l r)) (.bin .add l r) := by
    rw [hcan]
    refine ⟨by rw [cls_foldBin_add _ _ hne]; simp [cls], ?_⟩
    rw [ir.IA, ptoks_add, il.same.addOpP_eq]
  refine ⟨hs, ?_, IM_of_same hs rfl, IC_of_same hs rfl⟩
  intro acc
  rw [canonC_add]
  simp only [foldBin_append]
  rw [ir.IA, addOpP_of_cls6 (cls_foldBin_add _ _ (chains_ne l).1), il.IA,
    addOpP_of_cls6 (x := .bin .add l r) (by simp [cls]), ptoks_add]
  simp [List.append_assoc]

theorem firstConv_not_cond {b : Expr} (h : (firstConv b).isCond = false) : b.isCond = false := by
  cases b with
  | cond c t e => simp [firstConv, Expr.isCond] at h
  | _ => simp [Expr.isCond]

theorem idem_conv {l r : Expr} (hst : (firstConv r).isCond = false) (il : Idem l) (ir : Idem r) :
    Idem (.bin .conv l r) := by
  have hne := (chains_ne r).2.2
  have hcan : canon (.bin .conv l r) = foldBin .conv (canon l) (canonC r).convR := by rw [canon, canonC_conv]; rfl
  have hs : Same (canon (.bin .conv l r)) (.bin .conv l r) := by
    rw [hcan]
    refine ⟨by rw [cls_foldBin_conv _ _ hne]; simp [cls], ?_⟩
    rw [ir.IC hst, ptoks_conv _ _ (not_cond_of_firstConv hst), il.same.convLP_eq]
  refine ⟨hs, IA_of_same hs rfl, IM_of_same hs rfl, ?_⟩
  intro hfc acc
  have hfl : (firstConv l).isCond = false := by simpa [firstConv] using hfc
  rw [canonC_conv]
  simp only [foldBin_append]
  rw [ir.IC hst, convLP_of_cls10 (cls_foldBin_conv _ _ (chains_ne l).2.2), il.IC hfl, ptoks_conv _ _ (not_cond_of_firstConv hst)]
  have : convLP l = ptoks l := by simp [convLP, firstConv_not_cond hfl]
  rw [this]
  simp [List.append_assoc]

theorem idem_mul_fused {l r : Expr} (hf : isFused l r = true) : Idem (.bin .mul l r) := by
  have hs : Same (canon (.bin .mul l r)) (.bin .mul l r) := by
    rcases isFused_cases hf with ⟨b, t, p, n, rfl, rfl⟩ | ⟨b, t, s, rfl, rfl⟩
    · simp [Same, canon, canonC, Canon.single, cls, Expr.isNum, Expr.isUnit, ptoks, binopToks]
    · simp [Same, canon, canonC, Canon.single, cls, Expr.isNum, Expr.isUnit, ptoks, binopToks]
  exact ⟨hs, IA_of_same hs rfl, IM_of_same hs (by simp [isGenMul, hf]), IC_of_same hs rfl⟩

theorem not_fused_iff {l r : Expr} (hf : isFused l r = false) :
    ¬ (l.isNum = true ∧ (r.isUnit = true ∨ r.isIdent = true)) := by
  cases l <;> cases r <;> simp_all [isFused, Expr.isNum, Expr.isUnit, Expr.isIdent]

theorem idem_mul_general {l r : Expr} (hf : isFused l r = false)
    (hst : ¬ (l.isNum = true ∧ isGenMul r = true ∧ ((firstFactor r).isUnit = true ∨ (firstFactor r).isIdent = true)))
    (il : Idem l) (ir : Idem r) : Idem (.bin .mul l r) := by
  have hne := (chains_ne r).2.1
  have hcan : canon (.bin .mul l r) = foldBin .mul (canon l) (canonC r).mulR := by
    rw [canon, canonC_mul_general hf]; rfl
  -- the accumulated left operand and the first factor of `r` do not fuse
  have hok : ¬ ((canon l).isNum = true ∧ ((firstFactor r).isUnit = true ∨ (firstFactor r).isIdent = true)) := by
    rw [isNum_cls, il.same.1, ← isNum_cls]
    intro ⟨hn, hu⟩
    cases hg : isGenMul r with
    | true => exact hst ⟨hn, hg, hu⟩
    | false => rw [firstFactor_of_not_gen hg] at hu; exact not_fused_iff hf ⟨hn, hu⟩
  have hmo : mulOpP (.bin .mul l r) = ptoks (.bin .mul l r) := mulOpP_of_cls78 (cls_mul l r)
  have hpt : ptoks (.bin .mul l r) = mulOpP l ++ opToks .mul ++ mulOpP r := ptoks_mul_general (not_fused_iff hf)
  have hs : Same (canon (.bin .mul l r)) (.bin .mul l r) := by
    rw [hcan]
    have hptc : ptoks (foldBin .mul (canon l) (canonC r).mulR) = ptoks (.bin .mul l r) := by
      rw [ir.IM _ hok, hpt, il.same.mulOpP_eq]
    refine ⟨?_, hptc⟩
    have h8 : cls (.bin .mul l r) = 8 := by
      have := not_fused_iff hf
      simp only [cls]
      split
      · rename_i h; simp at h; exact absurd ⟨h.1, Or.inl h.2⟩ this
      · rfl
    rw [h8]
    obtain ⟨tl, htl⟩ := mulR_head r
    rw [htl]
    refine cls_foldBin_mul8 _ _ _ ?_
    rw [canon_isUnit]
    intro ⟨hn, hu⟩
    exact hok ⟨hn, Or.inl hu⟩
  refine ⟨hs, IA_of_same hs rfl, ?_, IC_of_same hs rfl⟩
  intro acc hacc
  have hff : firstFactor (.bin .mul l r) = firstFactor l := by simp [firstFactor, hf]
  rw [hff] at hacc
  rw [canonC_mul_general hf]
  simp only [foldBin_append]
  have hinner := cls_foldBin_mul acc _ (chains_ne l).2.1
  rw [ir.IM _ (by rw [hinner.2]; simp), mulOpP_of_cls78 hinner.1, il.IM _ hacc, hmo, hpt]
  simp [List.append_assoc]

theorem canon_isNum_iff (e : Expr) : (∃ b t, canon e = .num b t) ↔ (∃ b t, e = .num b t) := by
  cases e with
  | num b t => simp [canon, canonC, Canon.single]
  | bin o l r => obtain ⟨o', X, y, h⟩ := canon_bin_isBin o l r; rw [h]; simp
  | _ => simp [canon, canonC, Canon.single]

theorem ptoks_pow_other {l r : Expr} (h : ∀ b t, r ≠ .num b t) :
    ptoks (.bin .pow l r) = wpP l ++ opToks .pow ++ wpP r := by
  cases r with
  | num b t => exact absurd rfl (h b t)
  | _ => simp [ptoks, binopToks, wpP]

theorem idem_pow {l r : Expr} (il : Idem l) (ir : Idem r) : Idem (.bin .pow l r) := by
  have hs : Same (canon (.bin .pow l r)) (.bin .pow l r) := by
    by_cases hnum : ∃ b t, r = .num b t
    · obtain ⟨b, t, rfl⟩ := hnum
      refine ⟨by simp [canon, canonC, Canon.single, cls], ?_⟩
      by_cases h2 : b = bitsTwo
      · subst h2; simp [canon, canonC, Canon.single, ptoks, binopToks]; exact il.same.wpP_eq
      · by_cases h3 : b = bitsThree
        · subst h3
          simp [canon, canonC, Canon.single, ptoks, binopToks, bitsTwo, bitsThree]
          exact il.same.wpP_eq
        · simp [canon, canonC, Canon.single, ptoks, binopToks, h2, h3]
          exact il.same.wpP_eq
    · have hr : ∀ b t, r ≠ .num b t := fun b t h => hnum ⟨b, t, h⟩
      have hcan : canon (.bin .pow l r) = .bin .pow (canon l) (canon r) := by
        cases r with
        | num b t => exact absurd rfl (hr b t)
        | _ => simp [canon, canonC, Canon.single]
      refine ⟨by rw [hcan]; simp [cls], ?_⟩
      rw [hcan, ptoks_pow_other (by intro b t h; exact hnum ((canon_isNum_iff r).1 ⟨b, t, h⟩)),
        ptoks_pow_other hr, il.same.wpP_eq, ir.same.wpP_eq]
  exact ⟨hs, IA_of_same hs rfl, IM_of_same hs rfl, IC_of_same hs rfl⟩

theorem idem : ∀ (e : Expr), Stable e = true → Idem e
  | .num b t, _ => ⟨canon_other rfl, IA_of_same (canon_other rfl) rfl, IM_of_same (canon_other rfl) rfl, IC_of_same (canon_other rfl) rfl⟩
  | .ident s, _ => ⟨canon_other rfl, IA_of_same (canon_other rfl) rfl, IM_of_same (canon_other rfl) rfl, IC_of_same (canon_other rfl) rfl⟩
  | .bool b, _ => ⟨canon_other rfl, IA_of_same (canon_other rfl) rfl, IM_of_same (canon_other rfl) rfl, IC_of_same (canon_other rfl) rfl⟩
  | .binDate _ _ _, _ => ⟨canon_other rfl, IA_of_same (canon_other rfl) rfl, IM_of_same (canon_other rfl) rfl, IC_of_same (canon_other rfl) rfl⟩
  | .call _ _, _ => ⟨canon_other rfl, IA_of_same (canon_other rfl) rfl, IM_of_same (canon_other rfl) rfl, IC_of_same (canon_other rfl) rfl⟩
  | .ccall _ _, _ => ⟨canon_other rfl, IA_of_same (canon_other rfl) rfl, IM_of_same (canon_other rfl) rfl, IC_of_same (canon_other rfl) rfl⟩
  | .str _, _ => ⟨canon_other rfl, IA_of_same (canon_other rfl) rfl, IM_of_same (canon_other rfl) rfl, IC_of_same (canon_other rfl) rfl⟩
  | .mk _ _ _, _ => ⟨canon_other rfl, IA_of_same (canon_other rfl) rfl, IM_of_same (canon_other rfl) rfl, IC_of_same (canon_other rfl) rfl⟩
  | .get _ _, _ => ⟨canon_other rfl, IA_of_same (canon_other rfl) rfl, IM_of_same (canon_other rfl) rfl, IC_of_same (canon_other rfl) rfl⟩
  | .list _, _ => ⟨canon_other rfl, IA_of_same (canon_other rfl) rfl, IM_of_same (canon_other rfl) rfl, IC_of_same (canon_other rfl) rfl⟩
  | .hole, _ => ⟨canon_other rfl, IA_of_same (canon_other rfl) rfl, IM_of_same (canon_other rfl) rfl, IC_of_same (canon_other rfl) rfl⟩
  | .unit p n, _ => by
    have hs : Same (canon (.unit p n)) (.unit p n) := by simp [Same, canon, canonC, Canon.single, cls, ptoks]
    exact ⟨hs, IA_of_same hs rfl, IM_of_same hs rfl, IC_of_same hs rfl⟩
  | .neg e, h => by
    have ie := idem e (by simpa [Stable] using h)
    have hs : Same (canon (.neg e)) (.neg e) := by
      refine ⟨by simp [canon, canonC, Canon.single, cls], ?_⟩
      simp only [canon, canonC, Canon.single, ptoks]
      have := ie.same.wpP_eq; simp only [wpP, canon] at this; rw [this]
    exact ⟨hs, IA_of_same hs rfl, IM_of_same hs rfl, IC_of_same hs rfl⟩
  | .not e, h => by
    have ie := idem e (by simpa [Stable] using h)
    have hs : Same (canon (.not e)) (.not e) := by
      refine ⟨by simp [canon, canonC, Canon.single, cls], ?_⟩
      simp only [canon, canonC, Canon.single, ptoks]
      have := ie.same.wpP_eq; simp only [wpP, canon] at this; rw [this]
    exact ⟨hs, IA_of_same hs rfl, IM_of_same hs rfl, IC_of_same hs rfl⟩
  | .fact n e, h => by
    have ie := idem e (by simpa [Stable] using h)
    have hs : Same (canon (.fact n e)) (.fact n e) := by
      refine ⟨by simp [canon, canonC, Canon.single, cls], ?_⟩
      simp only [canon, canonC, Canon.single, ptoks]
      have := ie.same.wpP_eq; simp only [wpP, canon] at this; rw [this]
    exact ⟨hs, IA_of_same hs rfl, IM_of_same hs rfl, IC_of_same hs rfl⟩
  | .cond c t e, h => by
    have hc : Stable c = true := by simp [Stable] at h; exact h.1.1
    have ht : Stable t = true := by simp [Stable] at h; exact h.1.2
    have he : Stable e = true := by simp [Stable] at h; exact h.2
    have ic := idem c hc
    have it := idem t ht
    have ie := idem e he
    have hs : Same (canon (.cond c t e)) (.cond c t e) := by
      refine ⟨by simp [canon, canonC, Canon.single, cls], ?_⟩
      simp only [canon, canonC, Canon.single, ptoks]
      have h1 := ic.same.wpP_eq; simp only [wpP, canon] at h1
      have h2 := it.same.wpP_eq; simp only [wpP, canon] at h2
      have h3 := ie.same.wpP_eq; simp only [wpP, canon] at h3
      rw [h1, h2, h3]
    exact ⟨hs, IA_of_same hs rfl, IM_of_same hs rfl, IC_of_same hs rfl⟩
  | .bin o l r, h => by
    have hl : Stable l = true := by cases o <;> simp [Stable] at h <;> simp [h]
    have hr : Stable r = true := by cases o <;> simp [Stable] at h <;> simp [h]
    have il := idem l hl
    have ir := idem r hr
    cases o with
    | add => exact idem_add il ir
    | mul =>
      cases hf : isFused l r with
      | true => exact idem_mul_fused hf
      | false =>
        refine idem_mul_general hf ?_ il ir
        simp [Stable] at h
        intro ⟨a, b, c⟩
        rcases h.2 with (h' | h') | h'
        · simp [a] at h'
        · simp [b] at h'
        · rcases c with c | c <;> simp [c] at h' 
    | conv =>
      refine idem_conv ?_ il ir
      simp [Stable] at h; exact h.2
    | pow => exact idem_pow il ir
    | sub => exact idem_plainlike (by simp) il ir
    | div => exact idem_plainlike (by simp) il ir
    | lt => exact idem_plainlike (by simp) il ir
    | gt => exact idem_plainlike (by simp) il ir
    | le => exact idem_plainlike (by simp) il ir
    | ge => exact idem_plainlike (by simp) il ir
    | eq => exact idem_plainlike (by simp) il ir
    | ne => exact idem_plainlike (by simp) il ir
    | and => exact idem_plainlike (by simp) il ir
    | or => exact idem_plainlike (by simp) il ir
end NumbatModel.Printer
