import NumbatModel.Lemmas.VMCases1
import NumbatModel.Lemmas.VMCalls3
/-!
Helper lemmas for C09, part 9: assembling the cases.
-/
namespace NumbatModel.VM
open NumbatModel.Core
variable {ν : Type}

theorem exprOK_succ {S : Sem ν} {P : Prog ν} {T : Table ν} {G : List (List Name)} (hP : ProgOK P T G)
    {n : Nat} (ih : ExprOK S P T G n) : ExprOK S P T G (n + 1) := by
  intro e
  cases e with
  | num x =>
    intro ρ cs cs' frag m f fs hcomp hcode hlt hfit hctx hpos hconst hlay hlast
    simp only [compileExpr] at hcomp
    refine ⟨?_, ?_⟩
    · intro v hv
      simp only [eval] at hv; injection hv with hv; subst hv
      exact loadConst_ok hcomp hcode hpos hconst
    · intro err herr; simp [eval] at herr
  | bool b =>
    intro ρ cs cs' frag m f fs hcomp hcode hlt hfit hctx hpos hconst hlay hlast
    simp only [compileExpr] at hcomp
    refine ⟨?_, ?_⟩
    · intro v hv
      simp only [eval] at hv; injection hv with hv; subst hv
      exact loadConst_ok hcomp hcode hpos hconst
    · intro err herr; simp [eval] at herr
  | ident x =>
    intro ρ cs cs' frag m f fs hcomp hcode hlt hfit hctx hpos hconst hlay hlast
    simp only [compileExpr] at hcomp
    have hl := lookupLast_of_lastIdx x ρ.locals
    rw [← hctx.cur] at hl
    have hg := lookupLast_of_lastIdx x (ρ.globals.take ρ.static.nglob)
    rw [← hctx.glob] at hg
    refine ⟨?_, ?_⟩
    · intro v hv
      simp only [eval, lookupIdent] at hv
      cases h1 : lastIdx (fun l => l.contains x) cs.scopeCur with
      | some p =>
        obtain ⟨hplt, hlook⟩ := hl.1 p h1
        rw [h1] at hcomp; injection hcomp with hcomp; subst hcomp
        have hfrag : encode .getLocal [p] = frag := List.append_cancel_left hcode
        subst hfrag
        obtain ⟨w, hw⟩ : ∃ w, ρ.locals[p]? = some w := ⟨_, List.getElem?_eq_getElem hplt⟩
        rw [hlook, hw] at hv
        simp at hv; subst hv
        have hp65 : p < 65536 := by have := hctx.curLt; rw [hctx.cur, List.length_map] at this; omega
        have := step_getLocal (S := S) hpos hp65 (hlay.local_get hw)
        simpa [encode_length] using Runs.step this
      | none =>
        rw [h1] at hcomp
        rw [hl.2 h1] at hv
        cases h2 : lastIdx (fun l => l.contains x) cs.scopeGlob with
        | some p =>
          obtain ⟨hplt, hlook⟩ := hg.1 p h2
          rw [h2] at hcomp; injection hcomp with hcomp; subst hcomp
          have hfrag : encode .getUpvalue [p] = frag := List.append_cancel_left hcode
          subst hfrag
          obtain ⟨w, hw⟩ : ∃ w, (ρ.globals.take ρ.static.nglob)[p]? = some w :=
            ⟨_, List.getElem?_eq_getElem hplt⟩
          rw [hlook, hw] at hv
          simp at hv; subst hv
          have hp65 : p < 65536 := by have := hctx.globLt; rw [hctx.glob, List.length_map] at this; omega
          have := step_getUpvalue (S := S) hpos hp65 (hlay.global_get (take_getElem?_some hw))
          simpa [encode_length] using Runs.step this
        | none =>
          rw [h2] at hcomp
          rw [hg.2 h2] at hv
          by_cases hlr : lastResultIdentifiers.contains x = true
          · simp only [hlr, if_true] at hcomp hv
            injection hcomp with hcomp; subst hcomp
            have hfrag : encode .getLastResult [] = frag := List.append_cancel_left hcode
            subst hfrag
            cases hlv : ρ.last with
            | none => simp [hlv] at hv
            | some w =>
              simp [hlv] at hv; subst hv
              have := step_getLastResult (S := S) hpos (by rw [hlast, hlv])
              simpa [encode_length] using Runs.step this
          · simp only [hlr] at hcomp hv
            rw [hctx.functions] at hcomp
            cases hfn : assocLast x ρ.static.fnNames with
            | none => simp [hfn] at hv
            | some foreign =>
              cases foreign with
              | true =>
                simp [hfn] at hv hcomp; subst hv
                exact loadConst_ok (c := .fnref true x 0) hcomp hcode hpos hconst
              | false =>
                simp only [hfn] at hv hcomp
                rw [hctx.chunks, List.map_take] at hcomp
                simp only [Bool.false_eq_true, if_false] at hcomp
                cases hidx : lastIdx (fun n => n == x) ("<main>" :: List.take ρ.static.nfuns (List.map (fun c => c.decl.name) T.funs)) with
                | none => simp [hidx] at hv
                | some idx =>
                  simp only [hidx] at hv hcomp
                  injection hv with hv; subst hv
                  exact loadConst_ok (c := .fnref false x idx) hcomp hcode hpos hconst
    · intro err herr
      simp only [eval, lookupIdent] at herr
      split at herr
      · cases herr
      · split at herr
        · cases herr
        · split at herr
          · split at herr <;> cases herr
          · split at herr
            · cases herr
            · split at herr <;> cases herr
            · cases herr
  | neg e =>
    intro ρ cs cs' frag m f fs hcomp hcode hlt hfit hctx hpos hconst hlay hlast
    simp only [compileExpr, Res.bind_eq_ok] at hcomp
    obtain ⟨cs1, h1, h2⟩ := hcomp
    injection h2 with h2; subst h2
    simp only [fitsE] at hfit
    obtain ⟨f1, rfl, hok, herr⟩ := unary_case ih h1 hcode hlt hfit hctx hpos hconst hlay hlast
    refine ⟨?_, ?_⟩
    · intro v hv
      simp only [eval, Res.bind_eq_ok] at hv
      obtain ⟨a, ha, hv⟩ := hv
      obtain ⟨r1, p1⟩ := hok a ha
      cases a with
      | num x =>
        simp at hv; subst hv
        have r2 := Runs.step (step_negate (S := S) p1 (s := m.stack) (x := x) rfl)
        simpa [encode_length, Nat.add_assoc] using r1.trans r2
      | _ => simp at hv
    · intro err he
      simp only [eval, Res.bind_eq_err] at he
      rcases he with he | ⟨a, _, he⟩
      · exact herr err he
      · cases a <;> simp at he
  | not e =>
    intro ρ cs cs' frag m f fs hcomp hcode hlt hfit hctx hpos hconst hlay hlast
    simp only [compileExpr, Res.bind_eq_ok] at hcomp
    obtain ⟨cs1, h1, h2⟩ := hcomp
    injection h2 with h2; subst h2
    simp only [fitsE] at hfit
    obtain ⟨f1, rfl, hok, herr⟩ := unary_case ih h1 hcode hlt hfit hctx hpos hconst hlay hlast
    refine ⟨?_, ?_⟩
    · intro v hv
      simp only [eval, Res.bind_eq_ok] at hv
      obtain ⟨a, ha, hv⟩ := hv
      obtain ⟨r1, p1⟩ := hok a ha
      cases a with
      | bool b =>
        simp at hv; subst hv
        have r2 := Runs.step (step_logicalNeg (S := S) p1 (s := m.stack) (b := b) rfl)
        simpa [encode_length, Nat.add_assoc] using r1.trans r2
      | _ => simp at hv
    · intro err he
      simp only [eval, Res.bind_eq_err] at he
      rcases he with he | ⟨a, _, he⟩
      · exact herr err he
      · cases a <;> simp at he
  | fact k e =>
    intro ρ cs cs' frag m f fs hcomp hcode hlt hfit hctx hpos hconst hlay hlast
    simp only [compileExpr, Res.bind_eq_ok] at hcomp
    obtain ⟨cs1, h1, h2⟩ := hcomp
    injection h2 with h2; subst h2
    simp only [fitsE, Bool.and_eq_true, decide_eq_true_eq] at hfit
    obtain ⟨f1, rfl, hok, herr⟩ := unary_case ih h1 hcode hlt hfit.2 hctx hpos hconst hlay hlast
    refine ⟨?_, ?_⟩
    · intro v hv
      simp only [eval, Res.bind_eq_ok] at hv
      obtain ⟨a, ha, hv⟩ := hv
      obtain ⟨r1, p1⟩ := hok a ha
      cases a with
      | num x =>
        simp only [Res.bind_eq_ok] at hv
        obtain ⟨y, hy, hv⟩ := hv
        injection hv with hv; subst hv
        have hf : S.fact k x = .ok y := by
          cases hh : S.fact k x <;> simp [hh, Res.ofExcept] at hy; subst hy; rfl
        have r2 := Runs.step (step_factorial_ok (S := S) p1 hfit.1 (s := m.stack) (x := x) rfl hf)
        simpa [encode_length, Nat.add_assoc] using r1.trans r2
      | _ => simp at hv
    · intro err he
      simp only [eval, Res.bind_eq_err] at he
      rcases he with he | ⟨a, ha, he⟩
      · exact herr err he
      · obtain ⟨r1, p1⟩ := hok a ha
        cases a with
        | num x =>
          simp only [Res.bind_eq_err] at he
          rcases he with he | ⟨y, _, he⟩
          · have hf : S.fact k x = .error err := by
              cases hh : S.fact k x <;> simp [hh, Res.ofExcept] at he; subst he; rfl
            exact r1.fails (Fails.step (step_factorial_err (S := S) p1 hfit.1 (s := m.stack) (x := x) rfl hf))
          · cases he
        | _ => simp at he
  | bin op l r => exact case_bin ih op l r
  | call fn args => exact case_call hP ih fn args
  | callc callee args => exact case_callc hP ih callee args
  | cond c t e => exact case_cond ih c t e
  | str parts => exact case_str ih parts
  | mk info fields => exact case_mk hP ih info fields
  | fld e field info => exact case_fld ih e field info
  | list es => exact case_list ih es

theorem exprOK_zero (S : Sem ν) (P : Prog ν) (T : Table ν) (G : List (List Name)) : ExprOK S P T G 0 := by
  intro e ρ cs cs' frag m f fs _ _ _ _ _ _ _ _ _
  exact ⟨fun v hv => by simp [eval] at hv, fun err he => by simp [eval] at he⟩

/-- compiler correctness for expressions, every fuel -/
theorem exprOK_all {S : Sem ν} {P : Prog ν} {T : Table ν} {G : List (List Name)} (hP : ProgOK P T G) :
    ∀ n, ExprOK S P T G n
  | 0 => exprOK_zero S P T G
  | n + 1 => exprOK_succ hP (exprOK_all hP n)

end NumbatModel.VM
