import NumbatModel.Lemmas.NumFmt
/-! `postProcess` on structured literals, and the parse lemma for `wellFormedRaw` (C14). -/
namespace NumbatModel.NumFmt

/-- `pretty_dtoa` never writes a `+` in the exponent -/
def DtoaShape (r : RawNum) : Prop := ∀ s ds, r.ex = some (s, ds) → s = none ∨ s = some '-'

/-- what the post-processing does, on the structured view -/
def postNum (r : RawNum) (maxSigIsSome : Bool) : RawNum :=
  match r.fp, r.ex with
  | some f, none =>
    let f' := if maxSigIsSome then trimEndZeros f else f
    { r with fp := some (if f'.isEmpty then ['0'] else f') }
  | _, some (none, ds) => { r with ex := some (some '+', ds) }
  | _, _ => r

theorem sign_contains (neg : Bool) (c : Char) (hc : c ≠ '-') : (renderSign neg).contains c = false := by
  cases neg <;> simp [renderSign, hc]

theorem not_mem_sign (neg : Bool) (c : Char) (hc : c ≠ '-') : c ∉ renderSign neg := by
  cases neg <;> simp [renderSign, hc]

theorem not_mem_digits (ds : List Char) (h : allDigits ds) (c : Char) (hc : isDigitChar c = false) : c ∉ ds := by
  intro hm
  have := h c hm
  simp [hc] at this

theorem getLast_digits_ne_dot (f : List Char) (hf : allDigits f) (hne : f ≠ []) : f.getLast? ≠ some '.' := by
  intro h
  have hm : '.' ∈ f := List.mem_of_getLast? h
  have := hf '.' hm
  revert this; decide

/-- case A: a fraction and no exponent — trailing zeros go, an empty fraction becomes `0` -/
theorem postProcess_frac (neg : Bool) (ip f : List Char) (b : Bool) (hip : allDigits ip) (hf : allDigits f) :
    postProcess (RawNum.render ⟨neg, ip, some f, none⟩) b = (postNum ⟨neg, ip, some f, none⟩ b).render := by
  have hraw : RawNum.render ⟨neg, ip, some f, none⟩ = (renderSign neg ++ ip) ++ '.' :: f := by
    simp [RawNum.render, RawNum.renderAbs, renderTail, renderFrac, renderExp]
  have hdot : (RawNum.render ⟨neg, ip, some f, none⟩).contains '.' = true := by
    rw [hraw]; simp
  have he : (RawNum.render ⟨neg, ip, some f, none⟩).contains 'e' = false := by
    rw [hraw]
    simp
    exact ⟨not_mem_sign neg 'e' (by decide), not_mem_digits ip hip 'e' (by decide),
      not_mem_digits f hf 'e' (by decide)⟩
  unfold postProcess
  simp only [hdot, he, Bool.not_false, Bool.and_self, if_true]
  -- the string after optional trimming
  have key : ∀ f' : List Char, allDigits f' →
      (if ((renderSign neg ++ ip) ++ '.' :: f').getLast? == some '.' then
          ((renderSign neg ++ ip) ++ '.' :: f') ++ ['0'] else (renderSign neg ++ ip) ++ '.' :: f') =
        RawNum.render ⟨neg, ip, some (if f'.isEmpty then ['0'] else f'), none⟩ := by
    intro f' hf'
    cases f' with
    | nil => simp [RawNum.render, RawNum.renderAbs, renderTail, renderFrac, renderExp]
    | cons x xs =>
      have hl : ((renderSign neg ++ ip) ++ '.' :: x :: xs).getLast? = (x :: xs).getLast? := by
        simp [List.getLast?_append, List.getLast?_cons_cons]
        cases h : (x :: xs).getLast? with
        | none => simp at h
        | some y => simp
      have hne := getLast_digits_ne_dot (x :: xs) hf' (by simp)
      rw [hl]
      have : ((x :: xs).getLast? == some '.') = false := by
        cases h : (x :: xs).getLast? == some '.'
        · rfl
        · exact absurd (by simpa using h) hne
      simp [this, RawNum.render, RawNum.renderAbs, renderTail, renderFrac, renderExp]
  cases b with
  | false =>
    simp only [Bool.false_eq_true, if_false, hraw]
    rw [key f hf]
    simp [postNum]
  | true =>
    simp only [if_true, hraw, trimEndZeros_prefix_dot]
    rw [key (trimEndZeros f) (fun c hc => hf c (trimEndZeros_subset f c hc))]
    simp [postNum]

theorem tail_no_e_before_exp (neg : Bool) (ip : List Char) (fp : Option (List Char)) (hip : allDigits ip)
    (hfp : ∀ f, fp = some f → allDigits f) :
    (renderSign neg ++ ip ++ renderFrac fp).contains 'e' = false := by
  cases fp with
  | none =>
    simp [renderFrac]
    exact ⟨not_mem_sign neg 'e' (by decide), not_mem_digits ip hip 'e' (by decide)⟩
  | some f =>
    simp [renderFrac]
    exact ⟨not_mem_sign neg 'e' (by decide), not_mem_digits ip hip 'e' (by decide),
      not_mem_digits f (hfp f rfl) 'e' (by decide)⟩

theorem render_split (neg : Bool) (ip : List Char) (fp : Option (List Char)) (ex) :
    RawNum.render ⟨neg, ip, fp, ex⟩ =
      (renderSign neg ++ ip ++ renderFrac fp) ++ renderExp ex := by
  simp [RawNum.render, RawNum.renderAbs, renderTail]

/-- case B: positive exponent — `e` becomes `e+` -/
theorem postProcess_exp_plus (neg : Bool) (ip : List Char) (fp : Option (List Char)) (ds : List Char) (b : Bool)
    (hip : allDigits ip) (hfp : ∀ f, fp = some f → allDigits f) (hds : allDigits ds) (hne : ds ≠ []) :
    postProcess (RawNum.render ⟨neg, ip, fp, some (none, ds)⟩) b =
      RawNum.render ⟨neg, ip, fp, some (some '+', ds)⟩ := by
  have hpre := tail_no_e_before_exp neg ip fp hip hfp
  have hdse : ds.contains 'e' = false := contains_false_of_digits ds hds 'e' (by decide)
  rw [render_split, render_split]
  generalize hP : (renderSign neg ++ ip ++ renderFrac fp) = P at hpre
  have he : (P ++ renderExp (some (none, ds))).contains 'e' = true := by simp [renderExp]
  have hem : containsEMinus (P ++ renderExp (some (none, ds))) = false := by
    rw [containsEMinus_append_of_no_e P _ hpre]
    obtain ⟨d, ds', rfl⟩ : ∃ d ds', ds = d :: ds' := by
      cases ds with
      | nil => exact absurd rfl hne
      | cons d ds' => exact ⟨d, ds', rfl⟩
    have hd : d ≠ '-' := isDigit_ne (hds d (by simp)) (by decide)
    have hrest := containsEMinus_of_no_e (d :: ds') hdse
    simp [renderExp, containsEMinus, hd, hrest]
  unfold postProcess
  simp only [he, Bool.not_true, Bool.and_false, Bool.false_eq_true, if_false, hem, Bool.not_false, Bool.and_self,
    if_true]
  rw [replaceE_append, replaceE_of_no_e P hpre]
  simp [renderExp, replaceE, replaceE_of_no_e ds hdse]
  have := replaceE_of_no_e ds hdse
  simpa [replaceE] using this

/-- case C: negative exponent — unchanged -/
theorem postProcess_exp_minus (neg : Bool) (ip : List Char) (fp : Option (List Char)) (ds : List Char) (b : Bool)
    (hip : allDigits ip) (hfp : ∀ f, fp = some f → allDigits f) :
    postProcess (RawNum.render ⟨neg, ip, fp, some (some '-', ds)⟩) b =
      RawNum.render ⟨neg, ip, fp, some (some '-', ds)⟩ := by
  have hpre := tail_no_e_before_exp neg ip fp hip hfp
  rw [render_split]
  generalize hP : (renderSign neg ++ ip ++ renderFrac fp) = P at hpre
  have he : (P ++ renderExp (some (some '-', ds))).contains 'e' = true := by simp [renderExp]
  have hem : containsEMinus (P ++ renderExp (some (some '-', ds))) = true := by
    rw [containsEMinus_append_of_no_e P _ hpre]
    simp [renderExp, containsEMinus]
  unfold postProcess
  simp only [he, hem, Bool.not_true, Bool.and_false, Bool.false_eq_true, if_false]

/-- case D: neither fraction nor exponent — unchanged -/
theorem postProcess_plain (neg : Bool) (ip : List Char) (b : Bool) (hip : allDigits ip) :
    postProcess (RawNum.render ⟨neg, ip, none, none⟩) b = RawNum.render ⟨neg, ip, none, none⟩ := by
  have hraw : RawNum.render ⟨neg, ip, none, none⟩ = renderSign neg ++ ip := by
    simp [RawNum.render, RawNum.renderAbs, renderTail, renderFrac, renderExp]
  have hd : (renderSign neg ++ ip).contains '.' = false := by
    simp
    exact ⟨not_mem_sign neg '.' (by decide), not_mem_digits ip hip '.' (by decide)⟩
  have he : (renderSign neg ++ ip).contains 'e' = false := by
    simp
    exact ⟨not_mem_sign neg 'e' (by decide), not_mem_digits ip hip 'e' (by decide)⟩
  unfold postProcess
  rw [hraw]
  simp only [hd, he, Bool.false_and, Bool.false_eq_true, if_false]

/-- the post-processing of any valid `dtoa`-shaped literal is the rendering of `postNum` -/
theorem postProcess_render (r : RawNum) (b : Bool) (hv : r.Valid) (hs : DtoaShape r) :
    postProcess r.render b = (postNum r b).render := by
  obtain ⟨neg, ip, fp, ex⟩ := r
  have hip := hv.ip_digits
  have hfp := hv.fp_digits
  rcases ex with _ | ⟨s, ds⟩
  · cases fp with
    | none => simpa [postNum] using postProcess_plain neg ip b hip
    | some f => exact postProcess_frac neg ip f b hip (hfp f rfl)
  · have hex := hv.ex_ok
    simp only [expOK] at hex
    rcases hs s ds rfl with rfl | rfl
    · have := postProcess_exp_plus neg ip fp ds b hip hfp hex.2.1 hex.1
      cases fp <;> simpa [postNum] using this
    · have := postProcess_exp_minus neg ip fp ds b hip hfp
      cases fp <;> simpa [postNum] using this

theorem postNum_valid (r : RawNum) (b : Bool) (hv : r.Valid) : (postNum r b).Valid := by
  obtain ⟨neg, ip, fp, ex⟩ := r
  rcases ex with _ | ⟨s, ds⟩
  · cases fp with
    | none => simpa [postNum] using hv
    | some f =>
      refine ⟨hv.ip_ne, hv.ip_digits, ?_, by simp [postNum, expOK]⟩
      intro f' hf'
      simp only [postNum] at hf'
      have hf := hv.fp_digits f rfl
      cases b with
      | false =>
        simp only [Bool.false_eq_true, if_false, Option.some.injEq] at hf'
        subst hf'
        split
        · intro c hc; simp at hc; subst hc; decide
        · exact hf
      | true =>
        simp only [if_true, Option.some.injEq] at hf'
        subst hf'
        split
        · intro c hc; simp at hc; subst hc; decide
        · exact fun c hc => hf c (trimEndZeros_subset f c hc)
  · have hex := hv.ex_ok
    rcases s with _ | c
    · have h1 := hv.ip_ne
      have h2 := hv.ip_digits
      have h3 := hv.fp_digits
      simp only [expOK] at hex
      cases fp <;> simp only [postNum] <;>
        exact ⟨h1, h2, h3, ⟨hex.1, hex.2.1, Or.inr (Or.inl rfl)⟩⟩
    · cases fp <;> simpa [postNum] using hv

theorem frac_fix_value (f : List Char) :
    mkRat (digitsToNat (if f.isEmpty then ['0'] else f)) (10 ^ (if f.isEmpty then ['0'] else f).length) =
      mkRat (digitsToNat f) (10 ^ f.length) := by
  cases f with
  | nil => simp [digitsToNat, Nat.ofDigitChars]
  | cons x xs => simp

theorem postNum_value (r : RawNum) (b : Bool) : (postNum r b).value = r.value := by
  obtain ⟨neg, ip, fp, ex⟩ := r
  rcases ex with _ | ⟨s, ds⟩
  · cases fp with
    | none => simp [postNum]
    | some f =>
      have hm : (postNum ⟨neg, ip, some f, none⟩ b).mantissa = (RawNum.mk neg ip (some f) none).mantissa := by
        simp only [postNum, RawNum.mantissa]
        cases b with
        | false => simp only [Bool.false_eq_true, if_false]; rw [frac_fix_value f]
        | true => simp only [if_true]; rw [frac_fix_value (trimEndZeros f), frac_value_trim f]
      have hn : (postNum ⟨neg, ip, some f, none⟩ b).neg = neg := by simp [postNum]
      have hx : (postNum ⟨neg, ip, some f, none⟩ b).ex = none := by simp [postNum]
      simp only [RawNum.value, RawNum.absValue, hm, hn, hx]
  · rcases s with _ | c
    · cases fp <;> simp [postNum, RawNum.value, RawNum.absValue, RawNum.mantissa, expValue]
    · cases fp <;> simp [postNum]


/-! ### `wellFormedRaw` strings are renderings of valid structured literals -/

theorem spanDigits_eq_self_of_snd_nil (ds : List Char) (h : (spanDigits ds).2.isEmpty = true) :
    allDigits ds := by
  have hs := spanDigits_spec ds
  have h2 : (spanDigits ds).2 = [] := by simpa using h
  rw [h2, List.append_nil] at hs
  rw [hs.1]; exact hs.2.1

theorem wfExp_render (t : List Char) (h : wfExp t = true) :
    ∃ ex, expOK ex ∧ (∀ s ds, ex = some (s, ds) → s = none ∨ s = some '-') ∧ t = renderExp ex := by
  cases t with
  | nil => exact ⟨none, trivial, by simp, rfl⟩
  | cons c r =>
    simp only [wfExp, Bool.and_eq_true, beq_iff_eq, Bool.not_eq_true'] at h
    obtain ⟨⟨hc, hne⟩, h2⟩ := h
    subst hc
    by_cases hm : ∃ x, r = '-' :: x
    · obtain ⟨x, rfl⟩ := hm
      simp only [stripMinus] at hne h2
      refine ⟨some (some '-', x), ⟨?_, spanDigits_eq_self_of_snd_nil x h2, Or.inr (Or.inr rfl)⟩, ?_, rfl⟩
      · intro e; subst e; simp at hne
      · intro s ds e; simp at e; exact Or.inr e.1.symm
    · have hds : stripMinus r = r := by
        unfold stripMinus
        split
        · rename_i x; exact absurd ⟨x, rfl⟩ hm
        · rfl
      rw [hds] at hne h2
      refine ⟨some (none, r), ⟨?_, spanDigits_eq_self_of_snd_nil r h2, Or.inl rfl⟩, ?_, rfl⟩
      · intro e; subst e; simp at hne
      · intro s ds e; simp at e; exact Or.inl e.1.symm

theorem wellFormedAbs_render (body : List Char) (h : wellFormedAbs body = true) :
    ∃ ip fp ex, (RawNum.mk false ip fp ex).Valid ∧ DtoaShape (RawNum.mk false ip fp ex) ∧
      body = ip ++ renderTail fp ex := by
  have hs := spanDigits_spec body
  simp only [wellFormedAbs, Bool.and_eq_true, Bool.not_eq_true'] at h
  obtain ⟨hne, h2⟩ := h
  have hipne : (spanDigits body).1 ≠ [] := by
    intro e; rw [e] at hne; simp at hne
  by_cases hdot : ∃ r, (spanDigits body).2 = '.' :: r
  · obtain ⟨r, hr⟩ := hdot
    rw [hr] at h2
    simp only [afterFrac] at h2
    obtain ⟨ex, hex, hshape, ht⟩ := wfExp_render _ h2
    have hsr := spanDigits_spec r
    refine ⟨(spanDigits body).1, some (spanDigits r).1, ex, ⟨hipne, hs.2.1, ?_, hex⟩, ?_, ?_⟩
    · intro f hf; simp at hf; subst hf; exact hsr.2.1
    · intro s ds e; exact hshape s ds e
    · have e1 := hs.1
      rw [hr] at e1
      have e2 : '.' :: r = '.' :: ((spanDigits r).1 ++ renderExp ex) := by
        rw [← ht, ← hsr.1]
      rw [e2] at e1
      simpa [renderTail, renderFrac] using e1
  · have hm : afterFrac (spanDigits body).2 = (spanDigits body).2 := by
      unfold afterFrac
      split
      · rename_i r heq; exact absurd ⟨r, heq⟩ hdot
      · rfl
    rw [hm] at h2
    obtain ⟨ex, hex, hshape, ht⟩ := wfExp_render _ h2
    refine ⟨(spanDigits body).1, none, ex, ⟨hipne, hs.2.1, by simp, hex⟩, ?_, ?_⟩
    · intro s ds e; exact hshape s ds e
    · simp only [renderTail, renderFrac, List.nil_append]
      rw [← ht]; exact hs.1

theorem wellFormedRaw_render (raw : List Char) (h : wellFormedRaw raw = true) :
    ∃ r : RawNum, r.Valid ∧ DtoaShape r ∧ raw = r.render := by
  by_cases hm : ∃ x, raw = '-' :: x
  · obtain ⟨x, rfl⟩ := hm
    simp only [wellFormedRaw] at h
    obtain ⟨ip, fp, ex, hv, hs, hb⟩ := wellFormedAbs_render x h
    refine ⟨⟨true, ip, fp, ex⟩, ⟨hv.ip_ne, hv.ip_digits, hv.fp_digits, hv.ex_ok⟩, hs, ?_⟩
    simp [RawNum.render, renderSign, RawNum.renderAbs, hb]
  · have hw : wellFormedRaw raw = wellFormedAbs raw := by
      unfold wellFormedRaw
      split
      · rename_i x; exact absurd ⟨x, rfl⟩ hm
      · rfl
    rw [hw] at h
    obtain ⟨ip, fp, ex, hv, hs, hb⟩ := wellFormedAbs_render raw h
    exact ⟨⟨false, ip, fp, ex⟩, hv, hs, by simp [RawNum.render, renderSign, RawNum.renderAbs, hb]⟩

end NumbatModel.NumFmt
