import NumbatModel.Lemmas.SyntaxCases
/-!
C10 helper lemmas, part 3: argument lists, list expressions, struct expressions; assembly over all of `Surf`.
-/
namespace NumbatModel.Syntax

/-- `expression` on a rendering followed by a token that ends every level -/
theorem Good.expr {a : Surf} (g : Good a) {k : List Token} (hs : Stops 0 k) {n : Nat} (hn : a.need + 1 ≤ n) :
    expression n (render a ++ k) = .ok (toExpr a, k) := by
  obtain ⟨n', rfl⟩ : ∃ n', n = n' + 1 := ⟨n - 1, by omega⟩
  have := g.p1 0 k (Nat.zero_le _) hs n' (by omega)
  rw [renderAt_zero] at this
  simpa [parseAt, expression] using this

/-- `, b, c …` after the first element -/
def renderArgsTail : List Surf → List Token
  | [] => []
  | b :: rest => tComma :: render b ++ renderArgsTail rest

theorem renderArgs_cons (a : Surf) (rest : List Surf) : renderArgs (a :: rest) = render a ++ renderArgsTail rest := by
  induction rest generalizing a with
  | nil => simp [renderArgs, renderArgsTail]
  | cons b rest ih => simp [renderArgs, renderArgsTail, ih b]

theorem toExprs_cons (a : Surf) (rest : List Surf) : toExprs (a :: rest) = toExpr a :: toExprs rest := by
  simp [toExprs]

theorem needList_cons (a : Surf) (rest : List Surf) : needList (a :: rest) = a.need + 2 + needList rest := by
  simp [needList]

theorem stops_comma (L : Nat) : stops L .comma = true := by simp [stops, contLevel]
theorem stops_rightBracket (L : Nat) : stops L .rightBracket = true := by simp [stops, contLevel]
theorem stops_rightCurly (L : Nat) : stops L .rightCurly = true := by simp [stops, contLevel]

/-- a rendering followed by `,` … or the closing token: the continuation stops every level -/
theorem stops_tail (rest : List Surf) (close : Token) (k0 : List Token) (hc : stops 0 close.kind = true) :
    Stops 0 (renderArgsTail rest ++ close :: k0) := by
  cases rest with
  | nil => simpa [renderArgsTail] using Stops_cons (ts := k0) hc
  | cons b rest => simpa [renderArgsTail] using Stops_cons (t := tComma) (ts := _) (by simp [tComma, stops_comma])

theorem exprStart_spec {k} (h : exprStart k = true) : k ≠ .newline ∧ k ≠ .rightParen ∧ k ≠ .rightBracket := by
  simp [exprStart] at h
  exact ⟨h.1.1, h.1.2, h.2⟩

theorem argsLoop_parse (rest : List Surf) : ∀ (acc : List Expr) (k0 : List Token) (n : Nat),
    (∀ a ∈ rest, Good a) → needList rest + 1 ≤ n →
    argumentsLoop n acc (renderArgsTail rest ++ tRightParen :: k0) = .ok (acc ++ toExprs rest, k0) := by
  induction rest with
  | nil =>
    intro acc k0 n _ hn
    obtain ⟨n', rfl⟩ : ∃ n', n = n' + 1 := ⟨n - 1, by omega⟩
    simp [renderArgsTail, argumentsLoop, skipNewlines, tRightParen, toExprs]
  | cons b rest ih =>
    intro acc k0 n hg hn
    obtain ⟨n', rfl⟩ : ∃ n', n = n' + 1 := ⟨n - 1, by omega⟩
    have gb := hg b (by simp)
    obtain ⟨t, ts', hr, _, hst⟩ := gb.head
    obtain ⟨hnl, hrp, _⟩ := exprStart_spec hst
    rw [needList_cons] at hn
    have hexpr := gb.expr (stops_tail rest tRightParen k0 (stops_rightParen 0)) (n := n') (by omega)
    have hrec := ih (acc ++ [toExpr b]) k0 n' (fun a ha => hg a (by simp [ha])) (by omega)
    simp only [renderArgsTail, List.cons_append, List.append_assoc, argumentsLoop]
    rw [skipNewlines_cons (by simp [tComma])]
    simp only [tComma, beq_self_eq_true, ↓reduceIte]
    rw [hr] at hexpr ⊢
    simp only [List.cons_append] at hexpr ⊢
    rw [skipNewlines_cons hnl]
    simp only [beq_iff_eq, hrp, ↓reduceIte, hexpr, hrec, toExprs_cons, List.append_assoc, List.cons_append,
      List.nil_append]

theorem args_parse (args : List Surf) (k0 : List Token) (n : Nat)
    (hg : ∀ a ∈ args, Good a) (hn : needList args + 2 ≤ n) :
    arguments n (renderArgs args ++ tRightParen :: k0) = .ok (toExprs args, k0) := by
  obtain ⟨n', rfl⟩ : ∃ n', n = n' + 1 := ⟨n - 1, by omega⟩
  cases args with
  | nil => simp [renderArgs, arguments, skipNewlines, tRightParen, toExprs]
  | cons a rest =>
    have ga := hg a (by simp)
    obtain ⟨t, ts', hr, _, hst⟩ := ga.head
    obtain ⟨hnl, hrp, _⟩ := exprStart_spec hst
    rw [needList_cons] at hn
    have hexpr := ga.expr (stops_tail rest tRightParen k0 (stops_rightParen 0)) (n := n') (by omega)
    have hrec := argsLoop_parse rest [toExpr a] k0 n' (fun a ha => hg a (by simp [ha])) (by omega)
    rw [renderArgs_cons, List.append_assoc]
    rw [hr] at hexpr ⊢
    simp only [List.cons_append] at hexpr ⊢
    simp only [arguments]
    rw [skipNewlines_cons hnl]
    simp only [beq_iff_eq, hrp, ↓reduceIte, hexpr, hrec, toExprs_cons, List.cons_append, List.nil_append]


theorem good_call {f : Surf} {args : List Surf} (gf : Good f) (hg : ∀ a ∈ args, Good a) : Good (.call f args) := by
  obtain ⟨t, ts', hr, hh, hst⟩ := gf.headAt 15
  refine good_of_own_loop _ (f.need + needList args + 4)
    ⟨t, ts' ++ tLeftParen :: renderArgs args ++ [tRightParen], by simp [render_call, hr],
    headOK_mono hh (Nat.le_refl _) (by simp), hst⟩ (by simp) (by simp [isLoopLevel]) (by simp only [Surf.need]; omega) ?_
  intro k e' rest m0 _ hl
  simp only [prec_call] at hl
  have hl' : LoopsW 15 (toExpr f) (tLeftParen :: (renderArgs args ++ tRightParen :: k)) e' rest
      (needList args + m0 + 3) := by
    intro n m _ hm
    obtain ⟨m', rfl⟩ : ∃ m', m = m' + 1 := ⟨m - 1, by omega⟩
    have h2 := args_parse args k m' hg (by omega)
    have h3 := hl n m' (by omega) (by omega)
    simp only [loopAt, toExpr] at h3 ⊢
    simp [callLoop, tLeftParen, h2, h3]
  have := gf.p2 15 _ e' rest _ (by simp [isLoopLevel]) (Stops_cons (t := tLeftParen) (by simp [tLeftParen, stops, contLevel])) hl'
  simp only [prec_call, render_call, List.append_assoc, List.cons_append, List.nil_append]
  exact this.mono (by omega)

theorem listLoop_parse (es : List Surf) : ∀ (acc : List Expr) (k0 : List Token) (n : Nat),
    (∀ a ∈ es, Good a) → needList es + 1 ≤ n →
    listLoop n acc (renderArgs es ++ ⟨.rightBracket, [']']⟩ :: k0) = .ok (.list (acc ++ toExprs es), k0) := by
  induction es with
  | nil =>
    intro acc k0 n _ hn
    obtain ⟨n', rfl⟩ : ∃ n', n = n' + 1 := ⟨n - 1, by omega⟩
    simp [renderArgs, listLoop, toExprs]
  | cons a rest ih =>
    intro acc k0 n hg hn
    obtain ⟨n', rfl⟩ : ∃ n', n = n' + 1 := ⟨n - 1, by omega⟩
    have ga := hg a (by simp)
    obtain ⟨t, ts', hr, _, hst⟩ := ga.head
    obtain ⟨hnl, _, hrb⟩ := exprStart_spec hst
    rw [needList_cons] at hn
    have hexpr := ga.expr (stops_tail rest ⟨.rightBracket, [']']⟩ k0 (stops_rightBracket 0)) (n := n') (by omega)
    have hrec := ih (acc ++ [toExpr a]) k0 n' (fun a ha => hg a (by simp [ha])) (by omega)
    rw [renderArgs_cons, List.append_assoc]
    rw [hr] at hexpr ⊢
    simp only [List.cons_append] at hexpr ⊢
    simp only [listLoop, beq_iff_eq, hrb, ↓reduceIte]
    rw [skipNewlines_cons hnl, hexpr]
    dsimp only
    cases rest with
    | nil =>
      simp only [renderArgsTail, List.nil_append]
      rw [skipNewlines_cons (by simp)]
      simp only [reduceCtorEq, ↓reduceIte]
      rw [skipNewlines_cons (by simp)]
      simpa [renderArgs, toExprs_cons] using hrec
    | cons b rest' =>
      simp only [renderArgsTail, List.cons_append, List.append_assoc]
      rw [skipNewlines_cons (by simp [tComma])]
      simp only [tComma, ↓reduceIte]
      obtain ⟨tb, tbs, hrb', _, hstb⟩ := (hg b (by simp)).head
      rw [renderArgs_cons, hrb'] at hrec
      rw [hrb']
      simp only [List.cons_append, List.append_assoc] at hrec ⊢
      rw [skipNewlines_cons (exprStart_ne_newline hstb)]
      simpa [toExprs_cons] using hrec

theorem good_list {es : List Surf} (hg : ∀ a ∈ es, Good a) : Good (.list es) := by
  refine good_of_own_plain _ (needList es + 2) ⟨⟨.leftBracket, ['[']⟩, _, render_list es,
    by simp [headOK, prefixLevel], by simp [exprStart]⟩ (by simp) (by simp [isLoopLevel, isBinLevel])
    (by simp only [Surf.need]; omega) ?_
  intro k _ n hn
  obtain ⟨n', rfl⟩ : ∃ n', n = n' + 1 := ⟨n - 1, by omega⟩
  have h := listLoop_parse es [] k n' hg (by omega)
  simp only [prec_list, parseAt, render_list, List.cons_append, List.append_assoc, List.nil_append, primary, toExpr]
  cases es with
  | nil =>
    simp only [renderArgs, List.nil_append] at h ⊢
    rw [skipNewlines_cons (by simp)]
    simpa using h
  | cons a rest =>
    obtain ⟨t, ts', hr, _, hst⟩ := (hg a (by simp)).head
    rw [renderArgs_cons, hr] at h ⊢
    simp only [List.cons_append, List.append_assoc] at h ⊢
    rw [skipNewlines_cons (exprStart_ne_newline hst)]
    simpa using h


def tColon : Token := ⟨.colon, [':']⟩

/-- `, g: e, …` after the first field -/
def renderFieldsTail : List (List Char × Surf) → List Token
  | [] => []
  | (n, e) :: rest => tComma :: ⟨.identifier, n⟩ :: tColon :: render e ++ renderFieldsTail rest

theorem renderFields_cons (n : List Char) (e : Surf) (rest : List (List Char × Surf)) :
    renderFields ((n, e) :: rest) = ⟨.identifier, n⟩ :: tColon :: render e ++ renderFieldsTail rest := by
  induction rest generalizing n e with
  | nil => simp [renderFields, renderFieldsTail, tColon]
  | cons f rest ih =>
    obtain ⟨fn, fe⟩ := f
    simp [renderFields, renderFieldsTail, ih fn fe, tColon]

theorem toFields_cons (n : List Char) (e : Surf) (rest : List (List Char × Surf)) :
    toFields ((n, e) :: rest) = (n, toExpr e) :: toFields rest := by simp [toFields]

theorem needFields_cons (n : List Char) (e : Surf) (rest : List (List Char × Surf)) :
    needFields ((n, e) :: rest) = e.need + 2 + needFields rest := by simp [needFields]

theorem stops_ftail (rest : List (List Char × Surf)) (k0 : List Token) :
    Stops 0 (renderFieldsTail rest ++ ⟨.rightCurly, ['}']⟩ :: k0) := by
  cases rest with
  | nil => simpa [renderFieldsTail] using Stops_cons (t := ⟨.rightCurly, ['}']⟩) (ts := k0) (stops_rightCurly 0)
  | cons f rest =>
    obtain ⟨fn, fe⟩ := f
    simpa [renderFieldsTail] using Stops_cons (t := tComma) (ts := _) (by simp [tComma, stops_comma])

theorem structLoop_parse (name : List Char) (fs : List (List Char × Surf)) :
    ∀ (acc : List (List Char × Expr)) (k0 : List Token) (n : Nat),
    (∀ p ∈ fs, Good p.2) → needFields fs + 1 ≤ n →
    structLoop n name acc (renderFields fs ++ ⟨.rightCurly, ['}']⟩ :: k0) = .ok (.struct name (acc ++ toFields fs), k0) := by
  induction fs with
  | nil =>
    intro acc k0 n _ hn
    obtain ⟨n', rfl⟩ : ∃ n', n = n' + 1 := ⟨n - 1, by omega⟩
    simp [renderFields, structLoop, toFields]
  | cons f rest ih =>
    intro acc k0 n hg hn
    obtain ⟨fn, fe⟩ := f
    obtain ⟨n', rfl⟩ : ∃ n', n = n' + 1 := ⟨n - 1, by omega⟩
    have ge : Good fe := hg (fn, fe) (by simp)
    obtain ⟨t, ts', hr, _, hst⟩ := ge.head
    rw [needFields_cons] at hn
    have hexpr := ge.expr (stops_ftail rest k0) (n := n') (by omega)
    have hrec := ih (acc ++ [(fn, toExpr fe)]) k0 n' (fun p hp => hg p (by simp [hp])) (by omega)
    rw [renderFields_cons, List.cons_append, List.cons_append, List.append_assoc]
    rw [hr] at hexpr ⊢
    simp only [List.cons_append] at hexpr ⊢
    simp only [structLoop, beq_iff_eq, reduceCtorEq, ↓reduceIte]
    rw [skipNewlines_cons (by simp)]
    simp only [bne_self_eq_false, Bool.false_eq_true, ↓reduceIte]
    rw [skipNewlines_cons (by simp [tColon])]
    simp only [tColon, bne_self_eq_false, Bool.false_eq_true, ↓reduceIte]
    rw [skipNewlines_cons (exprStart_ne_newline hst), hexpr]
    dsimp only
    cases rest with
    | nil =>
      simp only [renderFieldsTail, List.nil_append]
      rw [skipNewlines_cons (by simp)]
      simp only [reduceCtorEq, ↓reduceIte]
      simpa [renderFields, toFields_cons] using hrec
    | cons g rest' =>
      obtain ⟨gn, ge'⟩ := g
      simp only [renderFieldsTail, List.cons_append, List.append_assoc]
      rw [skipNewlines_cons (by simp [tComma])]
      simp only [tComma, ↓reduceIte]
      rw [renderFields_cons] at hrec
      simp only [List.cons_append, List.append_assoc] at hrec ⊢
      rw [skipNewlines_cons (by simp)]
      simpa [toFields_cons] using hrec

theorem good_struct {name : List Char} {fs : List (List Char × Surf)} (hg : ∀ p ∈ fs, Good p.2) :
    Good (.struct name fs) := by
  refine good_of_own_plain _ (needFields fs + 2) ⟨⟨.identifier, name⟩, _, render_struct name fs,
    by simp [headOK, prefixLevel], by simp [exprStart]⟩ (by simp) (by simp [isLoopLevel, isBinLevel])
    (by simp only [Surf.need]; omega) ?_
  intro k _ n hn
  obtain ⟨n', rfl⟩ : ∃ n', n = n' + 1 := ⟨n - 1, by omega⟩
  have h := structLoop_parse name fs [] k n' hg (by omega)
  simp only [prec_struct, parseAt, render_struct, List.cons_append, List.append_assoc, List.nil_append, primary, toExpr]
  cases fs with
  | nil =>
    simp only [renderFields, List.nil_append] at h ⊢
    rw [skipNewlines_cons (by simp)]
    simpa using h
  | cons f rest =>
    obtain ⟨fn, fe⟩ := f
    rw [renderFields_cons] at h ⊢
    simp only [List.cons_append, List.append_assoc] at h ⊢
    rw [skipNewlines_cons (by simp)]
    simpa using h


/-! ## assembly: every well-formed surface tree is `Good` -/

mutual
theorem good : ∀ s : Surf, s.wf = true → Good s
  | .scalar t, h => good_scalar t h
  | .ident n, _ => good_ident n
  | .hole, _ => good_hole
  | .boolean b, _ => good_boolean b
  | .str t, h => good_str t h
  | .neg lex e, h => good_neg lex (good e (by simpa [Surf.wf] using h))
  | .uplus lex e, h => good_uplus lex (good e (by simpa [Surf.wf] using h))
  | .lnot e, h => good_lnot (good e (by simpa [Surf.wf] using h))
  | .fact n e, h => by
    simp only [Surf.wf, Bool.and_eq_true, bne_iff_ne, ne_eq] at h
    exact good_fact n h.1 (good e h.2)
  | .bin k lex l r, h => by
    simp only [Surf.wf, Bool.and_eq_true] at h
    obtain ⟨⟨hi, hl⟩, hr⟩ := h
    obtain ⟨⟨lv, op⟩, hinfo⟩ := Option.isSome_iff_exists.mp hi
    exact good_bin lex hinfo (good l hl) (good r hr)
  | .pow lex l r, h => by
    simp only [Surf.wf, Bool.and_eq_true] at h
    exact good_pow lex (good l h.1) (good r h.2)
  | .powNeg lex lm l r, h => by
    simp only [Surf.wf, Bool.and_eq_true] at h
    exact good_powNeg lex lm (good l h.1) (good r h.2)
  | .imul l r, h => by
    simp only [Surf.wf, Bool.and_eq_true] at h
    obtain ⟨⟨hl, hr⟩, hj⟩ := h
    refine good_imul ?_ (good l hl) (good r hr)
    unfold renderAt
    split at hj
    · rename_i t ts heq
      exact ⟨t, ts, heq, hj⟩
    · cases hj
  | .upow b lex, h => good_upow lex (good b (by simpa [Surf.wf] using h))
  | .call f args, h => by
    simp only [Surf.wf, Bool.and_eq_true] at h
    exact good_call (good f h.1) (goodList args h.2)
  | .field e n, h => good_field n (good e (by simpa [Surf.wf] using h))
  | .list es, h => good_list (goodList es (by simpa [Surf.wf] using h))
  | .struct n fs, h => good_struct (goodFields fs (by simpa [Surf.wf] using h))
  | .cond c t e, h => by
    simp only [Surf.wf, Bool.and_eq_true] at h
    exact good_cond (good c h.1.1) (good t h.1.2) (good e h.2)
  | .paren e, h => good_paren (good e (by simpa [Surf.wf] using h))
  | .pipe x f, h => by
    simp only [Surf.wf, Bool.and_eq_true] at h
    exact good_pipe h.2 (good x h.1.1) (good f h.1.2)
theorem goodList : ∀ es : List Surf, wfList es = true → ∀ a ∈ es, Good a
  | [], _ => by intro a ha; cases ha
  | b :: rest, h => by
    simp only [wfList, Bool.and_eq_true] at h
    intro a ha
    rcases List.mem_cons.mp ha with hab | ha'
    · exact hab ▸ good b h.1
    · exact goodList rest h.2 a ha'
theorem goodFields : ∀ fs : List (List Char × Surf), wfFields fs = true → ∀ p ∈ fs, Good p.2
  | [], _ => by intro a ha; cases ha
  | (n, e) :: rest, h => by
    simp only [wfFields, Bool.and_eq_true] at h
    intro a ha
    rcases List.mem_cons.mp ha with hab | ha'
    · exact hab ▸ good e h.1
    · exact goodFields rest h.2 a ha'
end

end NumbatModel.Syntax
