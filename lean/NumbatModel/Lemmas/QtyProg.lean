import NumbatModel.Model.QtyProg
import NumbatModel.Lemmas.QtyCanon
set_option linter.unusedSectionVars false
/-!
Static typing of the program fragment of `Model/QtyProg.lean` (dimension vectors, `Bool`, first-order function
signatures) and the lemmas behind C01's `program_soundness`.
-/
namespace NumbatModel.Qty
open NumOps LawfulNum

/-- static types of the fragment; `args` types the argument chain of a call -/
inductive PTy where
  | dim (d : DimV)
  | bool
  | list (t : PTy)
  /-- a struct type: the field types in the order of the definition (field names play no role at run time) -/
  | struct (ts : List PTy)
  | args (ts : List PTy)

mutual
/-- value types: what a variable, a parameter, a list element, a field or a function result can have -/
def PTy.isVal : PTy → Bool
  | .dim _ => true
  | .bool => true
  | .list t => t.isVal
  | .struct ts => PTy.allVal ts
  | .args _ => false
def PTy.allVal : List PTy → Bool
  | [] => true
  | t :: ts => t.isVal && PTy.allVal ts
end

/-- A function signature, given by the set of its monomorphic instances `(parameter types, result type)`: a
generic function `fn f<D: Dim>(x: D) -> D^2` has one instance per dimension `D`; a monomorphic one has one
instance. -/
structure FnSig where
  inst : List PTy → PTy → Prop

/-- The type of a global, given by the set of its instances: a `let` whose right-hand side is polymorphic
(`let z = 0` has every dimension) may be used at each of them. -/
abbrev GTy := PTy → Prop

variable {α : Type} [NumOps α]

/-- The typing relation.  `Σ` lists the signatures of the functions defined so far, `Γ` the types of the
globals, `L` the parameter types of the enclosing function (`[]` at top level).  The literal `0` has every
dimension; the target of a conversion is a unit expression of the same dimension (a number as a target — in
particular the polymorphic `0`, see the known finding `C01-convert-to-zero` — is outside the fragment). -/
inductive HasTy (tbl : Table α) (S : List FnSig) (Γ : List GTy) (L : List PTy) : PExpr α → PTy → Prop where
  | num (v : α) (d : DimV) (h : (∀ b, d b = 0) ∨ beq v zero = true) : HasTy tbl S Γ L (.num v) (.dim d)
  | unit (f : Factor) : HasTy tbl S Γ L (.unit f) (.dim (unitVec tbl [f]))
  | var (i : Nat) (T : GTy) (t : PTy) (h : Γ[i]? = some T) (ht : T t) : HasTy tbl S Γ L (.var i) t
  | loc (i : Nat) (t : PTy) (h : L[i]? = some t) : HasTy tbl S Γ L (.loc i) t
  | neg {a d} : HasTy tbl S Γ L a (.dim d) → HasTy tbl S Γ L (.neg a) (.dim d)
  | add {a b d} : HasTy tbl S Γ L a (.dim d) → HasTy tbl S Γ L b (.dim d) → HasTy tbl S Γ L (.add a b) (.dim d)
  | sub {a b d} : HasTy tbl S Γ L a (.dim d) → HasTy tbl S Γ L b (.dim d) → HasTy tbl S Γ L (.sub a b) (.dim d)
  | mul {a b d₁ d₂} : HasTy tbl S Γ L a (.dim d₁) → HasTy tbl S Γ L b (.dim d₂) →
      HasTy tbl S Γ L (.mul a b) (.dim (fun x => d₁ x + d₂ x))
  | div {a b d₁ d₂} : HasTy tbl S Γ L a (.dim d₁) → HasTy tbl S Γ L b (.dim d₂) →
      HasTy tbl S Γ L (.div a b) (.dim (fun x => d₁ x - d₂ x))
  | pow {a d} (r : Rat) : HasTy tbl S Γ L a (.dim d) → HasTy tbl S Γ L (.pow a r) (.dim (fun x => r * d x))
  | conv {a t d} : HasTy tbl S Γ L a (.dim d) → t.isUnitExpr = true → HasTy tbl S Γ L t (.dim d) →
      HasTy tbl S Γ L (.conv a t) (.dim d)
  | cmp {a b d} (op : CmpOp) : HasTy tbl S Γ L a (.dim d) → HasTy tbl S Γ L b (.dim d) →
      HasTy tbl S Γ L (.cmp op a b) .bool
  | eq {a b d} : HasTy tbl S Γ L a (.dim d) → HasTy tbl S Γ L b (.dim d) → HasTy tbl S Γ L (.eq a b) .bool
  | ne {a b d} : HasTy tbl S Γ L a (.dim d) → HasTy tbl S Γ L b (.dim d) → HasTy tbl S Γ L (.ne a b) .bool
  | and {a b} : HasTy tbl S Γ L a .bool → HasTy tbl S Γ L b .bool → HasTy tbl S Γ L (.and a b) .bool
  | or {a b} : HasTy tbl S Γ L a .bool → HasTy tbl S Γ L b .bool → HasTy tbl S Γ L (.or a b) .bool
  | not {a} : HasTy tbl S Γ L a .bool → HasTy tbl S Γ L (.not a) .bool
  | blit (v : Bool) : HasTy tbl S Γ L (.blit v) .bool
  | ite {c t e ty} : ty.isVal = true → HasTy tbl S Γ L c .bool → HasTy tbl S Γ L t ty → HasTy tbl S Γ L e ty →
      HasTy tbl S Γ L (.ite c t e) ty
  | call {f args} (sig : FnSig) (h : S[f]? = some sig) (ps : List PTy) (r : PTy) (hinst : sig.inst ps r) :
      HasTy tbl S Γ L args (.args ps) → HasTy tbl S Γ L (.call f args) r
  | noarg : HasTy tbl S Γ L .noarg (.args [])
  | arg {a rest t ts} : t.isVal = true → HasTy tbl S Γ L a t → HasTy tbl S Γ L rest (.args ts) →
      HasTy tbl S Γ L (.arg a rest) (.args (t :: ts))
  | lst {elems ts} (t : PTy) : t.isVal = true → (∀ x ∈ ts, x = t) → HasTy tbl S Γ L elems (.args ts) →
      HasTy tbl S Γ L (.lst elems) (.list t)
  | head {l t} : t.isVal = true → HasTy tbl S Γ L l (.list t) → HasTy tbl S Γ L (.head l) t
  | tail {l t} : HasTy tbl S Γ L l (.list t) → HasTy tbl S Γ L (.tail l) (.list t)
  | cons {a l t} : HasTy tbl S Γ L a t → HasTy tbl S Γ L l (.list t) → HasTy tbl S Γ L (.cons a l) (.list t)
  | mk {fields ts} : PTy.allVal ts = true → HasTy tbl S Γ L fields (.args ts) →
      HasTy tbl S Γ L (.mk fields) (.struct ts.reverse)
  | get {e ts} (i : Nat) (t : PTy) : t.isVal = true → PTy.allVal ts = true → ts[i]? = some t →
      HasTy tbl S Γ L e (.struct ts) →
      HasTy tbl S Γ L (.get e i) t
  | len {l t} : t.isVal = true → HasTy tbl S Γ L l (.list t) → HasTy tbl S Γ L (.len l) (.dim (fun _ => 0))

/-- typing of the `where` clauses of a function: each right-hand side is typed with the parameters and the
earlier clauses as locals; `ws` lists the types of the new locals -/
inductive WheresOK (tbl : Table α) (S : List FnSig) (Γ : List GTy) : List PTy → List (PExpr α) → List PTy → Prop where
  | nil (L : List PTy) : WheresOK tbl S Γ L [] []
  | cons {L w t rest ws} : t.isVal = true → HasTy tbl S Γ L w t → WheresOK tbl S Γ (L ++ [t]) rest ws →
      WheresOK tbl S Γ L (w :: rest) (t :: ws)

mutual
/-- a run-time value agrees with a static type -/
def VOK (tbl : Table α) : PVal α → PTy → Prop
  | .q x, .dim d => ValOK tbl x d
  | .b _, .bool => True
  | .list vs, .list t => VOKAll tbl vs t
  | .struct vs, .struct ts => EnvOK tbl vs ts
  | _, _ => False
/-- every element of a list agrees with the element type -/
def VOKAll (tbl : Table α) : List (PVal α) → PTy → Prop
  | [], _ => True
  | v :: vs, t => VOK tbl v t ∧ VOKAll tbl vs t
/-- a list of values agrees with a list of types, position by position (arguments, struct fields) -/
def EnvOK (tbl : Table α) : List (PVal α) → List PTy → Prop
  | [], [] => True
  | v :: vs, t :: ts => VOK tbl v t ∧ EnvOK tbl vs ts
  | _, _ => False
end

/-- the globals agree with their types: every global agrees with every instance of its type -/
def GlobOK (tbl : Table α) : List (PVal α) → List GTy → Prop
  | [], [] => True
  | v :: vs, T :: Ts => (∀ t, T t → VOK tbl v t) ∧ GlobOK tbl vs Ts
  | _, _ => False

/-- every lookup that succeeds in `l₁` gives the same answer in `l₂` (the types of the globals and functions a
function body was checked against stay valid while the session grows) -/
def Incl {β : Type} (l₁ l₂ : List β) : Prop := ∀ (i : Nat) (x : β), l₁[i]? = some x → l₂[i]? = some x

theorem Incl.refl {β : Type} (l : List β) : Incl l l := fun _ _ h => h

theorem Incl.trans {β : Type} {a b c : List β} (h₁ : Incl a b) (h₂ : Incl b c) : Incl a c :=
  fun i x h => h₂ i x (h₁ i x h)

theorem Incl.append {β : Type} (l m : List β) : Incl l (l ++ m) := by
  intro i x h
  have hi : i < l.length := by
    rcases Nat.lt_or_ge i l.length with h' | h'
    · exact h'
    · rw [List.getElem?_eq_none h'] at h; cases h
  rw [List.getElem?_append_left hi]; exact h

/-- typing of a sequence of definitions: every right-hand side is typed in the context of the earlier ones; a
function body may call the function itself -/
inductive ProgOK (tbl : Table α) : List FnSig → List GTy → List (PStmt α) → List FnSig → List GTy → Prop where
  | nil (S : List FnSig) (Γ : List GTy) : ProgOK tbl S Γ [] S Γ
  | letv {S Γ e rest S' Γ'} (T : GTy) : (∃ t, T t) → (∀ t, T t → t.isVal = true ∧ HasTy tbl S Γ [] e t) →
      ProgOK tbl S (Γ ++ [T]) rest S' Γ' → ProgOK tbl S Γ (.letv e :: rest) S' Γ'
  | fn {S Γ d rest S' Γ'} (sig : FnSig) :
      (∀ ps r, sig.inst ps r → r.isVal = true ∧ d.arity = ps.length ∧
        ∃ ws, WheresOK tbl (S ++ [sig]) Γ ps d.wheres ws ∧ HasTy tbl (S ++ [sig]) Γ (ps ++ ws) d.body r) →
      ProgOK tbl (S ++ [sig]) Γ rest S' Γ' → ProgOK tbl S Γ (.fn d :: rest) S' Γ'

theorem envOK_get (tbl : Table α) : ∀ (env : List (PVal α)) (Γ : List PTy), EnvOK tbl env Γ →
    ∀ (i : Nat) (t : PTy), Γ[i]? = some t → ∃ v, env[i]? = some v ∧ VOK tbl v t
  | [], [], _, i, t, h => by simp at h
  | [], _ :: _, h, _, _, _ => by simp [EnvOK] at h
  | _ :: _, [], h, _, _, _ => by simp [EnvOK] at h
  | v :: vs, t' :: ts, h, i, t, hi => by
    obtain ⟨hv, hrest⟩ := h
    cases i with
    | zero =>
      simp at hi; subst hi
      exact ⟨v, by simp, hv⟩
    | succ i =>
      simp at hi
      obtain ⟨w, hw, hvw⟩ := envOK_get tbl vs ts hrest i t hi
      exact ⟨w, by simpa using hw, hvw⟩

theorem envOK_snoc (tbl : Table α) : ∀ (env : List (PVal α)) (Γ : List PTy), EnvOK tbl env Γ →
    ∀ v t, VOK tbl v t → EnvOK tbl (env ++ [v]) (Γ ++ [t])
  | [], [], _, v, t, hv => by simp [EnvOK, hv]
  | [], _ :: _, h, _, _, _ => by simp [EnvOK] at h
  | _ :: _, [], h, _, _, _ => by simp [EnvOK] at h
  | w :: vs, t' :: ts, h, v, t, hv => by
    obtain ⟨hw, hrest⟩ := h
    exact ⟨hw, envOK_snoc tbl vs ts hrest v t hv⟩

theorem globOK_get (tbl : Table α) : ∀ (env : List (PVal α)) (Γ : List GTy), GlobOK tbl env Γ →
    ∀ (i : Nat) (T : GTy), Γ[i]? = some T → ∃ v, env[i]? = some v ∧ ∀ t, T t → VOK tbl v t
  | [], [], _, i, T, h => by simp at h
  | [], _ :: _, h, _, _, _ => by simp [GlobOK] at h
  | _ :: _, [], h, _, _, _ => by simp [GlobOK] at h
  | v :: vs, T' :: Ts, h, i, T, hi => by
    obtain ⟨hv, hrest⟩ := h
    cases i with
    | zero =>
      simp at hi; subst hi
      exact ⟨v, by simp, hv⟩
    | succ i =>
      simp at hi
      obtain ⟨w, hw, hvw⟩ := globOK_get tbl vs Ts hrest i T hi
      exact ⟨w, by simpa using hw, hvw⟩

theorem globOK_snoc (tbl : Table α) : ∀ (env : List (PVal α)) (Γ : List GTy), GlobOK tbl env Γ →
    ∀ v (T : GTy), (∀ t, T t → VOK tbl v t) → GlobOK tbl (env ++ [v]) (Γ ++ [T])
  | [], [], _, v, T, hv => by simp [GlobOK]; exact hv
  | [], _ :: _, h, _, _, _ => by simp [GlobOK] at h
  | _ :: _, [], h, _, _, _ => by simp [GlobOK] at h
  | w :: vs, T' :: Ts, h, v, T, hv => by
    obtain ⟨hw, hrest⟩ := h
    exact ⟨hw, globOK_snoc tbl vs Ts hrest v T hv⟩

theorem envOK_length (tbl : Table α) : ∀ (env : List (PVal α)) (Γ : List PTy), EnvOK tbl env Γ →
    env.length = Γ.length
  | [], [], _ => rfl
  | [], _ :: _, h => by simp [EnvOK] at h
  | _ :: _, [], h => by simp [EnvOK] at h
  | _ :: vs, _ :: ts, h => by simp [envOK_length tbl vs ts h.2]

end NumbatModel.Qty
