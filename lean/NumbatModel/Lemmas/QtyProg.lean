import NumbatModel.Model.QtyProg
import NumbatModel.Lemmas.QtyCanon
set_option linter.unusedSectionVars false
/-!
Static typing of the program fragment of `Model/QtyProg.lean` (dimension vectors, `Bool`, first-order function
signatures) and the lemmas behind C01's `program_soundness`.
-/
namespace NumbatModel.Qty
open NumOps LawfulNum

/-- static types of the fragment; `args` types the argument chain of a call -/
inductive PTy where
  | dim (d : DimV)
  | bool
  | args (ts : List PTy)

/-- value types: what a variable, a parameter or a function result can have -/
def PTy.isVal : PTy → Bool
  | .dim _ => true
  | .bool => true
  | .args _ => false

/-- a (monomorphic) function signature -/
structure FnSig where
  params : List PTy
  ret : PTy

variable {α : Type} [NumOps α]

/-- The typing relation.  `Σ` lists the signatures of the functions defined so far, `Γ` the types of the
globals, `L` the parameter types of the enclosing function (`[]` at top level).  The literal `0` has every
dimension; the target of a conversion is a unit expression of the same dimension (a number as a target — in
particular the polymorphic `0`, see the known finding `C01-convert-to-zero` — is outside the fragment). -/
inductive HasTy (tbl : Table α) (S : List FnSig) (Γ L : List PTy) : PExpr α → PTy → Prop where
  | num (v : α) (d : DimV) (h : (∀ b, d b = 0) ∨ beq v zero = true) : HasTy tbl S Γ L (.num v) (.dim d)
  | unit (f : Factor) : HasTy tbl S Γ L (.unit f) (.dim (unitVec tbl [f]))
  | var (i : Nat) (t : PTy) (h : Γ[i]? = some t) : HasTy tbl S Γ L (.var i) t
  | loc (i : Nat) (t : PTy) (h : L[i]? = some t) : HasTy tbl S Γ L (.loc i) t
  | neg {a d} : HasTy tbl S Γ L a (.dim d) → HasTy tbl S Γ L (.neg a) (.dim d)
  | add {a b d} : HasTy tbl S Γ L a (.dim d) → HasTy tbl S Γ L b (.dim d) → HasTy tbl S Γ L (.add a b) (.dim d)
  | sub {a b d} : HasTy tbl S Γ L a (.dim d) → HasTy tbl S Γ L b (.dim d) → HasTy tbl S Γ L (.sub a b) (.dim d)
  | mul {a b d₁ d₂} : HasTy tbl S Γ L a (.dim d₁) → HasTy tbl S Γ L b (.dim d₂) →
      HasTy tbl S Γ L (.mul a b) (.dim (fun x => d₁ x + d₂ x))
  | div {a b d₁ d₂} : HasTy tbl S Γ L a (.dim d₁) → HasTy tbl S Γ L b (.dim d₂) →
      HasTy tbl S Γ L (.div a b) (.dim (fun x => d₁ x - d₂ x))
  | pow {a d} (r : Rat) : HasTy tbl S Γ L a (.dim d) → HasTy tbl S Γ L (.pow a r) (.dim (fun x => r * d x))
  | conv {a t d} : HasTy tbl S Γ L a (.dim d) → t.isUnitExpr = true → HasTy tbl S Γ L t (.dim d) →
      HasTy tbl S Γ L (.conv a t) (.dim d)
  | cmp {a b d} (op : CmpOp) : HasTy tbl S Γ L a (.dim d) → HasTy tbl S Γ L b (.dim d) →
      HasTy tbl S Γ L (.cmp op a b) .bool
  | eq {a b d} : HasTy tbl S Γ L a (.dim d) → HasTy tbl S Γ L b (.dim d) → HasTy tbl S Γ L (.eq a b) .bool
  | ne {a b d} : HasTy tbl S Γ L a (.dim d) → HasTy tbl S Γ L b (.dim d) → HasTy tbl S Γ L (.ne a b) .bool
  | and {a b} : HasTy tbl S Γ L a .bool → HasTy tbl S Γ L b .bool → HasTy tbl S Γ L (.and a b) .bool
  | or {a b} : HasTy tbl S Γ L a .bool → HasTy tbl S Γ L b .bool → HasTy tbl S Γ L (.or a b) .bool
  | not {a} : HasTy tbl S Γ L a .bool → HasTy tbl S Γ L (.not a) .bool
  | blit (v : Bool) : HasTy tbl S Γ L (.blit v) .bool
  | ite {c t e ty} : ty.isVal = true → HasTy tbl S Γ L c .bool → HasTy tbl S Γ L t ty → HasTy tbl S Γ L e ty →
      HasTy tbl S Γ L (.ite c t e) ty
  | call {f args} (sig : FnSig) (h : S[f]? = some sig) : HasTy tbl S Γ L args (.args sig.params) →
      HasTy tbl S Γ L (.call f args) sig.ret
  | noarg : HasTy tbl S Γ L .noarg (.args [])
  | arg {a rest t ts} : t.isVal = true → HasTy tbl S Γ L a t → HasTy tbl S Γ L rest (.args ts) →
      HasTy tbl S Γ L (.arg a rest) (.args (t :: ts))

/-- a run-time value agrees with a static type -/
def VOK (tbl : Table α) : PVal α → PTy → Prop
  | .q x, .dim d => ValOK tbl x d
  | .b _, .bool => True
  | _, _ => False

/-- a list of values agrees with a list of types, position by position (globals, arguments) -/
def EnvOK (tbl : Table α) : List (PVal α) → List PTy → Prop
  | [], [] => True
  | v :: vs, t :: ts => VOK tbl v t ∧ EnvOK tbl vs ts
  | _, _ => False

/-- every lookup that succeeds in `l₁` gives the same answer in `l₂` (the types of the globals and functions a
function body was checked against stay valid while the session grows) -/
def Incl {β : Type} (l₁ l₂ : List β) : Prop := ∀ (i : Nat) (x : β), l₁[i]? = some x → l₂[i]? = some x

theorem Incl.refl {β : Type} (l : List β) : Incl l l := fun _ _ h => h

theorem Incl.trans {β : Type} {a b c : List β} (h₁ : Incl a b) (h₂ : Incl b c) : Incl a c :=
  fun i x h => h₂ i x (h₁ i x h)

theorem Incl.append {β : Type} (l m : List β) : Incl l (l ++ m) := by
  intro i x h
  have hi : i < l.length := by
    rcases Nat.lt_or_ge i l.length with h' | h'
    · exact h'
    · rw [List.getElem?_eq_none h'] at h; cases h
  rw [List.getElem?_append_left hi]; exact h

/-- typing of a sequence of definitions: every right-hand side is typed in the context of the earlier ones; a
function body may call the function itself -/
inductive ProgOK (tbl : Table α) : List FnSig → List PTy → List (PStmt α) → List FnSig → List PTy → Prop where
  | nil (S : List FnSig) (Γ : List PTy) : ProgOK tbl S Γ [] S Γ
  | letv {S Γ e t rest S' Γ'} : t.isVal = true → HasTy tbl S Γ [] e t → ProgOK tbl S (Γ ++ [t]) rest S' Γ' →
      ProgOK tbl S Γ (.letv e :: rest) S' Γ'
  | fn {S Γ d rest S' Γ'} (sig : FnSig) : sig.ret.isVal = true → d.arity = sig.params.length →
      HasTy tbl (S ++ [sig]) Γ sig.params d.body sig.ret → ProgOK tbl (S ++ [sig]) Γ rest S' Γ' →
      ProgOK tbl S Γ (.fn d :: rest) S' Γ'

theorem envOK_get (tbl : Table α) : ∀ (env : List (PVal α)) (Γ : List PTy), EnvOK tbl env Γ →
    ∀ (i : Nat) (t : PTy), Γ[i]? = some t → ∃ v, env[i]? = some v ∧ VOK tbl v t
  | [], [], _, i, t, h => by simp at h
  | [], _ :: _, h, _, _, _ => by simp [EnvOK] at h
  | _ :: _, [], h, _, _, _ => by simp [EnvOK] at h
  | v :: vs, t' :: ts, h, i, t, hi => by
    obtain ⟨hv, hrest⟩ := h
    cases i with
    | zero =>
      simp at hi; subst hi
      exact ⟨v, by simp, hv⟩
    | succ i =>
      simp at hi
      obtain ⟨w, hw, hvw⟩ := envOK_get tbl vs ts hrest i t hi
      exact ⟨w, by simpa using hw, hvw⟩

theorem envOK_snoc (tbl : Table α) : ∀ (env : List (PVal α)) (Γ : List PTy), EnvOK tbl env Γ →
    ∀ v t, VOK tbl v t → EnvOK tbl (env ++ [v]) (Γ ++ [t])
  | [], [], _, v, t, hv => by simp [EnvOK, hv]
  | [], _ :: _, h, _, _, _ => by simp [EnvOK] at h
  | _ :: _, [], h, _, _, _ => by simp [EnvOK] at h
  | w :: vs, t' :: ts, h, v, t, hv => by
    obtain ⟨hw, hrest⟩ := h
    exact ⟨hw, envOK_snoc tbl vs ts hrest v t hv⟩

theorem envOK_length (tbl : Table α) : ∀ (env : List (PVal α)) (Γ : List PTy), EnvOK tbl env Γ →
    env.length = Γ.length
  | [], [], _ => rfl
  | [], _ :: _, h => by simp [EnvOK] at h
  | _ :: _, [], h => by simp [EnvOK] at h
  | _ :: vs, _ :: ts, h => by simp [envOK_length tbl vs ts h.2]

end NumbatModel.Qty
