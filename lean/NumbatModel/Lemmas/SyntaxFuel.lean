import NumbatModel.Lemmas.SyntaxLists
/-!
C10 helper lemmas, part 4: the fuel `fuelFor` of the top-level functions is enough for every rendering;
parentheses and `toExpr`; ASTs as surface trees.
-/
namespace NumbatModel.Syntax

theorem wrap_length (need p : Nat) (ts : List Token) : ts.length ≤ (wrap need p ts).length := by
  unfold wrap; split <;> simp <;> omega

theorem renderAt_length (L : Nat) (s : Surf) : (render s).length ≤ (renderAt L s).length := wrap_length _ _ _

mutual
theorem need_le : ∀ s : Surf, s.wf = true → s.need + 40 ≤ 80 * (render s).length
  | .scalar t, _ => by simp [Surf.need, render]
  | .ident n, _ => by simp [Surf.need, render]
  | .hole, _ => by simp [Surf.need, render]
  | .boolean b, _ => by cases b <;> simp [Surf.need, render]
  | .str t, _ => by simp [Surf.need, render]
  | .neg lex e, h => by
    have := need_le e (by simpa [Surf.wf] using h)
    have := renderAt_length 10 e
    simp only [Surf.need, render_neg, List.length_cons]; omega
  | .uplus lex e, h => by
    have := need_le e (by simpa [Surf.wf] using h)
    have := renderAt_length 10 e
    simp only [Surf.need, render_uplus, List.length_cons]; omega
  | .lnot e, h => by
    have := need_le e (by simpa [Surf.wf] using h)
    have := renderAt_length 5 e
    simp only [Surf.need, render_lnot, List.length_cons]; omega
  | .fact n e, h => by
    simp only [Surf.wf, Bool.and_eq_true, bne_iff_ne, ne_eq] at h
    have := need_le e h.2
    have := renderAt_length 14 e
    simp only [Surf.need, render_fact, List.length_append, List.length_replicate]; omega
  | .bin k lex l r, h => by
    simp only [Surf.wf, Bool.and_eq_true] at h
    obtain ⟨⟨hi, hl⟩, hr⟩ := h
    obtain ⟨⟨lv, op⟩, hinfo⟩ := Option.isSome_iff_exists.mp hi
    have := need_le l hl
    have := need_le r hr
    have := renderAt_length lv l
    have := renderAt_length (lv + 1) r
    simp only [Surf.need, render_bin lex l r hinfo, List.length_append, List.length_cons]; omega
  | .pow lex l r, h => by
    simp only [Surf.wf, Bool.and_eq_true] at h
    have := need_le l h.1
    have := need_le r h.2
    have := renderAt_length 13 l
    have := renderAt_length 12 r
    simp only [Surf.need, render_pow, List.length_append, List.length_cons]; omega
  | .powNeg lex lm l r, h => by
    simp only [Surf.wf, Bool.and_eq_true] at h
    have := need_le l h.1
    have := need_le r h.2
    have := renderAt_length 13 l
    have := renderAt_length 12 r
    simp only [Surf.need, render_powNeg, List.length_append, List.length_cons]; omega
  | .imul l r, h => by
    simp only [Surf.wf, Bool.and_eq_true] at h
    have := need_le l h.1.1
    have := need_le r h.1.2
    have := renderAt_length 11 l
    have := renderAt_length 12 r
    simp only [Surf.need, render_imul, List.length_append]; omega
  | .upow b lex, h => by
    have := need_le b (by simpa [Surf.wf] using h)
    have := renderAt_length 15 b
    simp only [Surf.need, render_upow, List.length_append, List.length_cons, List.length_nil]; omega
  | .call f args, h => by
    simp only [Surf.wf, Bool.and_eq_true] at h
    have := need_le f h.1
    have := needList_le args h.2
    have := renderAt_length 15 f
    simp only [Surf.need, render_call, List.length_append, List.length_cons, List.length_nil]; omega
  | .field e n, h => by
    have := need_le e (by simpa [Surf.wf] using h)
    have := renderAt_length 15 e
    simp only [Surf.need, render_field, List.length_append, List.length_cons, List.length_nil]; omega
  | .list es, h => by
    have := needList_le es (by simpa [Surf.wf] using h)
    simp only [Surf.need, render_list, List.length_append, List.length_cons, List.length_nil]; omega
  | .struct n fs, h => by
    have := needFields_le fs (by simpa [Surf.wf] using h)
    simp only [Surf.need, render_struct, List.length_append, List.length_cons, List.length_nil]; omega
  | .cond c t e, h => by
    simp only [Surf.wf, Bool.and_eq_true] at h
    have := need_le c h.1.1
    have := need_le t h.1.2
    have := need_le e h.2
    have := renderAt_length 2 c
    have := renderAt_length 1 t
    have := renderAt_length 1 e
    simp only [Surf.need, render_cond, List.length_append, List.length_cons]; omega
  | .paren e, h => by
    have := need_le e (by simpa [Surf.wf] using h)
    simp only [Surf.need, render_paren, List.length_append, List.length_cons, List.length_nil]; omega
  | .pipe x f, h => by
    simp only [Surf.wf, Bool.and_eq_true] at h
    have := need_le x h.1.1
    have := need_le f h.1.2
    have := renderAt_length 15 f
    simp only [Surf.need, render_pipe, List.length_append, List.length_cons]; omega
theorem needList_le : ∀ es : List Surf, wfList es = true → needList es ≤ 80 * (renderArgs es).length
  | [], _ => by simp [needList]
  | a :: rest, h => by
    simp only [wfList, Bool.and_eq_true] at h
    have := need_le a h.1
    have := needList_le rest h.2
    rw [renderArgs_cons, needList_cons]
    have : (renderArgs rest).length ≤ (renderArgsTail rest).length := by
      cases rest with
      | nil => simp [renderArgs, renderArgsTail]
      | cons b rest' => rw [renderArgs_cons]; simp [renderArgsTail]
    simp only [List.length_append]; omega
theorem needFields_le : ∀ fs : List (List Char × Surf), wfFields fs = true → needFields fs ≤ 80 * (renderFields fs).length
  | [], _ => by simp [needFields]
  | (n, e) :: rest, h => by
    simp only [wfFields, Bool.and_eq_true] at h
    have := need_le e h.1
    have := needFields_le rest h.2
    rw [renderFields_cons, needFields_cons]
    have : (renderFields rest).length ≤ (renderFieldsTail rest).length := by
      cases rest with
      | nil => simp [renderFields, renderFieldsTail]
      | cons g rest' => obtain ⟨gn, ge⟩ := g; rw [renderFields_cons]; simp [renderFieldsTail]
    simp only [List.length_append, List.length_cons]; omega
end


mutual
theorem toExpr_noParens : ∀ s : Surf, toExpr (noParens s) = toExpr s
  | .scalar _ | .ident _ | .hole | .boolean _ | .str _ => by simp [noParens]
  | .paren e => by simp [noParens, toExpr, toExpr_noParens e]
  | .neg _ e | .uplus _ e | .lnot e | .fact _ e | .upow e _ | .field e _ => by
    simp [noParens, toExpr, toExpr_noParens e]
  | .bin _ _ l r | .pow _ l r | .powNeg _ _ l r | .imul l r | .pipe l r => by
    simp [noParens, toExpr, toExpr_noParens l, toExpr_noParens r]
  | .call f args => by simp [noParens, toExpr, toExpr_noParens f, toExprs_noParens args]
  | .list es => by simp [noParens, toExpr, toExprs_noParens es]
  | .struct _ fs => by simp [noParens, toExpr, toFields_noParens fs]
  | .cond c t e => by simp [noParens, toExpr, toExpr_noParens c, toExpr_noParens t, toExpr_noParens e]
theorem toExprs_noParens : ∀ es : List Surf, toExprs (noParensList es) = toExprs es
  | [] => by simp [noParensList]
  | a :: rest => by simp [noParensList, toExprs, toExpr_noParens a, toExprs_noParens rest]
theorem toFields_noParens : ∀ fs : List (List Char × Surf), toFields (noParensFields fs) = toFields fs
  | [] => by simp [noParensFields]
  | (n, e) :: rest => by simp [noParensFields, toFields, toExpr_noParens e, toFields_noParens rest]
end

theorem infixInfo_values :
    infixInfo .plus = some (7, .add) ∧ infixInfo .minus = some (7, .sub) ∧ infixInfo .multiply = some (8, .mul) ∧
    infixInfo .divide = some (8, .div) ∧ infixInfo .arrow = some (2, .convertTo) ∧
    infixInfo .lessThan = some (6, .lessThan) ∧ infixInfo .greaterThan = some (6, .greaterThan) ∧
    infixInfo .lessOrEqual = some (6, .lessOrEqual) ∧ infixInfo .greaterOrEqual = some (6, .greaterOrEqual) ∧
    infixInfo .equalEqual = some (6, .equal) ∧ infixInfo .notEqual = some (6, .notEqual) ∧
    infixInfo .logicalAnd = some (4, .logicalAnd) ∧ infixInfo .logicalOr = some (3, .logicalOr) := by decide

mutual
theorem toExpr_ofExpr : ∀ e : Expr, e.canon = true → toExpr (ofExpr e) = e
  | .scalar _, _ | .ident _, _ | .hole, _ | .boolean _, _ | .str _, _ => by simp [ofExpr, toExpr]
  | .neg e, h | .lnot e, h | .fact _ e, h | .field e _, h => by
    simp [ofExpr, toExpr, toExpr_ofExpr e (by simpa [Expr.canon] using h)]
  | .bin op l r, h => by
    simp only [Expr.canon, Bool.and_eq_true] at h
    obtain ⟨h1, h2, h3, h4, h5, h6, h7, h8, h9, h10, h11, h12, h13⟩ := infixInfo_values
    cases op <;> simp [ofExpr, toExpr, h1, h2, h3, h4, h5, h6, h7, h8, h9, h10, h11, h12, h13, toExpr_ofExpr l h.1, toExpr_ofExpr r h.2]
  | .imul l r, h => by
    simp only [Expr.canon, Bool.and_eq_true] at h
    simp [ofExpr, toExpr, toExpr_ofExpr l h.1, toExpr_ofExpr r h.2]
  | .upow b t, h => by
    simp only [Expr.canon, Bool.and_eq_true, beq_iff_eq] at h
    obtain ⟨k, lex⟩ := t
    simp only at h
    simp [ofExpr, toExpr, toExpr_ofExpr b h.1, h.2]
  | .call f args, h => by
    simp only [Expr.canon, Bool.and_eq_true] at h
    simp [ofExpr, toExpr, toExpr_ofExpr f h.1, toExprs_ofExprs args h.2]
  | .cond c t e, h => by
    simp only [Expr.canon, Bool.and_eq_true] at h
    simp [ofExpr, toExpr, toExpr_ofExpr c h.1.1, toExpr_ofExpr t h.1.2, toExpr_ofExpr e h.2]
  | .struct _ fs, h => by simp [ofExpr, toExpr, toFields_ofFields fs (by simpa [Expr.canon] using h)]
  | .list es, h => by simp [ofExpr, toExpr, toExprs_ofExprs es (by simpa [Expr.canon] using h)]
theorem toExprs_ofExprs : ∀ es : List Expr, canonList es = true → toExprs (ofExprs es) = es
  | [], _ => by simp [ofExprs, toExprs]
  | a :: rest, h => by
    simp only [canonList, Bool.and_eq_true] at h
    simp [ofExprs, toExprs, toExpr_ofExpr a h.1, toExprs_ofExprs rest h.2]
theorem toFields_ofFields : ∀ fs : List (List Char × Expr), canonFields fs = true → toFields (ofFields fs) = fs
  | [], _ => by simp [ofFields, toFields]
  | (n, e) :: rest, h => by
    simp only [canonFields, Bool.and_eq_true] at h
    simp [ofFields, toFields, toExpr_ofExpr e h.1, toFields_ofFields rest h.2]
end

end NumbatModel.Syntax
