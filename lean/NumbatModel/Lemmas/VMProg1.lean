import NumbatModel.Lemmas.VMOrder
/-!
Helper lemmas for C09, part 14: statements — what the compiler records (`declare`) and what the compiled
program looks like after each statement (`InvS`), how interpreter states grow (`Grow`).
-/
namespace NumbatModel.VM
open NumbatModel.Core
variable {ν : Type}

/-- the function table the reference semantics sees for a static top-level state -/
def tableOf (s : TopStatic ν) : Table ν := { funs := s.funs, ffiAll := s.ffi, structs := s.structs }

/-- every function of the table is compiled into its chunk (the content of `ProgOK.fns`) -/
def FnsOK (chunks : List Chunk) (constants : List (Constant ν)) (T : Table ν) (G : List (List Name)) : Prop :=
  ∀ i c, T.funs[i]? = some c →
    c.static.nfuns = i + 1 ∧ c.static.nglob = c.gnames.length ∧ c.gnames <+: G ∧ c.static.ffi <+: T.ffiAll ∧
    ∃ cs0 cs1 : CS ν, FnStart T i c cs0 ∧ compileFnBody c.decl cs0 = .ok cs1 ∧
      chunks[i + 1]? = some ⟨c.decl.name, cs1.code⟩ ∧ cs1.constants <+: constants ∧
      cs1.code.length < 65536 ∧ cs1.scopeCur.length < 65536 ∧ cs0.scopeGlob.length < 65536 ∧
      fitsE c.decl.body = true ∧ (∀ d ∈ c.decl.wheres, fitsE d.expr = true)

/-- operand counts of a statement fit 16 bits; a function is not called `<main>` -/
def fitsStmt : Stmt ν → Prop
  | .expr e => fitsE e = true
  | .letv d => fitsE d.expr = true
  | .fn d => fitsE d.body = true ∧ (∀ w ∈ d.wheres, fitsE w.expr = true) ∧
      d.params.length + d.wheres.length < 65536 ∧ d.name ≠ "<main>"
  | .proc _ args => fitsL args = true ∧ args.length < 65536
  | _ => True

/-- the interpreter state agrees with what the statements so far declared -/
structure InvS (I : Interp ν) (s : TopStatic ν) : Prop where
  locals : I.locals0 = s.gnames
  functions : I.functions = s.fnNames
  ffi : I.ffiNames = s.ffi
  structs : I.structInfos = s.structs
  names : I.chunks.map Chunk.name = "<main>" :: s.funs.map (fun c => c.decl.name)
  notMain : ∀ c ∈ s.funs, c.decl.name ≠ "<main>"
  fns : FnsOK I.chunks I.constants (tableOf s) s.gnames

/-- size bounds of an interpreter state (all indices fit 16 bits) -/
structure Sizes (I : Interp ν) : Prop where
  main : I.mainCode.length < 65536
  locals : I.locals0.length < 65536
  chunks : I.chunks.length < 65536
  ffi : I.ffiNames.length < 65536
  structs : I.structInfos.length < 65536
  fnCode : ∀ ch ∈ I.chunks, ch.code.length < 65536

/-- `I'` is a later state of `I`: everything only grows -/
structure Grow (I I' : Interp ν) : Prop where
  chunk : ∀ i ch, 0 < i → I.chunks[i]? = some ch → I'.chunks[i]? = some ch
  nchunks : I.chunks.length ≤ I'.chunks.length
  mainLen : I.mainCode.length ≤ I'.mainCode.length
  main : I'.mainCode.length < 65536 → I.mainCode <+: I'.mainCode
  consts : I.constants <+: I'.constants
  ffi : I.ffiNames <+: I'.ffiNames
  structs : I.structInfos <+: I'.structInfos
  locals : I.locals0 <+: I'.locals0

theorem Grow.refl (I : Interp ν) : Grow I I :=
  ⟨fun _ _ _ h => h, Nat.le_refl _, Nat.le_refl _, fun _ => List.prefix_refl _, List.prefix_refl _,
   List.prefix_refl _, List.prefix_refl _, List.prefix_refl _⟩

theorem Grow.trans {a b c : Interp ν} (h1 : Grow a b) (h2 : Grow b c) : Grow a c :=
  ⟨fun i ch hi h => h2.chunk i ch hi (h1.chunk i ch hi h), Nat.le_trans h1.nchunks h2.nchunks,
   Nat.le_trans h1.mainLen h2.mainLen,
   fun hlt => List.IsPrefix.trans (h1.main (Nat.lt_of_le_of_lt h2.mainLen hlt)) (h2.main hlt),
   List.IsPrefix.trans h1.consts h2.consts, List.IsPrefix.trans h1.ffi h2.ffi,
   List.IsPrefix.trans h1.structs h2.structs, List.IsPrefix.trans h1.locals h2.locals⟩

/-- what `declare` does to the static state: every table only grows -/
structure GrowS (s s' : TopStatic ν) : Prop where
  gnames : s.gnames <+: s'.gnames
  funs : s.funs <+: s'.funs
  ffi : s.ffi <+: s'.ffi
  structs : s.structs <+: s'.structs

theorem GrowS.refl (s : TopStatic ν) : GrowS s s :=
  ⟨List.prefix_refl _, List.prefix_refl _, List.prefix_refl _, List.prefix_refl _⟩

theorem GrowS.trans {a b c : TopStatic ν} (h1 : GrowS a b) (h2 : GrowS b c) : GrowS a c :=
  ⟨h1.gnames.trans h2.gnames, h1.funs.trans h2.funs, h1.ffi.trans h2.ffi, h1.structs.trans h2.structs⟩

theorem insertNew_prefix {α : Type} (key : α → Name) (a : α) (l : List α) : l <+: insertNew key a l := by
  unfold insertNew
  split
  · exact List.prefix_refl _
  · exact List.prefix_append _ _

theorem declare_grow (s : TopStatic ν) (stmt : Stmt ν) : GrowS s (declare s stmt) := by
  cases stmt with
  | letv d => exact ⟨List.prefix_append _ _, List.prefix_refl _, List.prefix_refl _, List.prefix_refl _⟩
  | fn d => exact ⟨List.prefix_refl _, List.prefix_append _ _, List.prefix_refl _, List.prefix_refl _⟩
  | ffn name k => exact ⟨List.prefix_refl _, List.prefix_refl _, insertNew_prefix _ _ _, List.prefix_refl _⟩
  | structDef info => exact ⟨List.prefix_refl _, List.prefix_refl _, List.prefix_refl _, insertNew_prefix _ _ _⟩
  | expr e => exact GrowS.refl _
  | dim => exact GrowS.refl _
  | proc k a => exact GrowS.refl _
  | unsupported w => exact GrowS.refl _

theorem foldl_declare_grow (stmts : List (Stmt ν)) (s : TopStatic ν) : GrowS s (stmts.foldl declare s) := by
  induction stmts generalizing s with
  | nil => exact GrowS.refl _
  | cons a as ih => exact (declare_grow s a).trans (ih _)

theorem prefix_take_map {α β : Type} {l1 l2 : List α} (h : l1 <+: l2) (g : α → β) :
    (l2.take l1.length).map g = l1.map g := by
  obtain ⟨t, rfl⟩ := h
  simp

/-- `FnStart` only mentions a prefix of the table: it survives when the table grows -/
theorem FnStart.mono {T T' : Table ν} {i : Nat} {c : Closure ν} {cs0 : CS ν} (h : FnStart T i c cs0)
    (hf : T.funs <+: T'.funs) (hs : T.structs <+: T'.structs) (hi : i < T.funs.length) : FnStart T' i c cs0 := by
  refine ⟨h.code, h.cur, h.glob, h.functions, h.ffi, ?_, ?_⟩
  · rw [h.chunks]
    obtain ⟨t, ht⟩ := hf
    rw [← ht, List.take_append_of_le_length (by omega)]
  · obtain ⟨t, ht⟩ := hs
    exact h.structs.trans ⟨t.map StructInfo.name, by rw [← ht]; simp⟩

theorem FnsOK.mono {chunks chunks' : List Chunk} {constants constants' : List (Constant ν)} {T T' : Table ν}
    {G G' : List (List Name)} (h : FnsOK chunks constants T G)
    (hch : ∀ i ch, 0 < i → chunks[i]? = some ch → chunks'[i]? = some ch)
    (hco : constants <+: constants') (hG : G <+: G') (hffi : T.ffiAll <+: T'.ffiAll)
    (hs : T.structs <+: T'.structs)
    {i : Nat} {c : Closure ν} (hc : T.funs[i]? = some c) (hf : T.funs <+: T'.funs) :
    c.static.nfuns = i + 1 ∧ c.static.nglob = c.gnames.length ∧ c.gnames <+: G' ∧ c.static.ffi <+: T'.ffiAll ∧
    ∃ cs0 cs1 : CS ν, FnStart T' i c cs0 ∧ compileFnBody c.decl cs0 = .ok cs1 ∧
      chunks'[i + 1]? = some ⟨c.decl.name, cs1.code⟩ ∧ cs1.constants <+: constants' ∧
      cs1.code.length < 65536 ∧ cs1.scopeCur.length < 65536 ∧ cs0.scopeGlob.length < 65536 ∧
      fitsE c.decl.body = true ∧ (∀ d ∈ c.decl.wheres, fitsE d.expr = true) := by
  obtain ⟨h1, h2, h3, h4, cs0, cs1, hst, hbody, hchunk, hconst, r1, r2, r3, r4, r5⟩ := h i c hc
  exact ⟨h1, h2, h3.trans hG, h4.trans hffi, cs0, cs1,
    hst.mono hf hs (List.getElem?_eq_some_iff.mp hc).1, hbody, hch _ _ (by omega) hchunk, hconst.trans hco,
    r1, r2, r3, r4, r5⟩

end NumbatModel.VM
