import NumbatModel.Lemmas.EchoParserOps
/-! Helper lemmas for C15: the main induction — for every tree of the fragment, the reference parser reads
the printed tokens back as the canonical tree (`main`), operator by operator. -/
namespace NumbatModel.Printer

theorem PP_of_level {e : Expr} {j : Nat} (hF : Frag e = true) (hj : lvl e = j) (hj13 : j ≤ 13)
    (h : ∀ R, NoCont j R → Parses (.level j) (toks e ++ R) (some (canon e, R))) : PP e := by
  intro k R hk hc
  rw [hj] at hk
  exact climb' hk hj13 (h R (hc.mono hk)) (fun i _ hi => (hd_ok e hF R).prefixOk (by rw [hj]; exact hi)) hc

/-- the grammar level of the operators printed by the last arm of `pretty_print_binop` -/
def plainLevel : BinOp → Nat
  | .or => 2
  | .and => 3
  | _ => 5

theorem canon_default {o : BinOp} (l r : Expr) (h : o ≠ .add ∧ o ≠ .mul ∧ o ≠ .conv ∧ o ≠ .pow) :
    canon (.bin o l r) = .bin o (canon l) (canon r) := by
  cases o <;> simp_all [canon, canonC, Canon.single]

theorem main_plain {o : BinOp} {l r : Expr} (ho : isPlainOp o = true) (hF : Frag (.bin o l r) = true)
    (ml : Main l) (mr : Main r) : Main (.bin o l r) := by
  have ⟨hFl, hFr⟩ := Frag_bin hF
  have hlvl : lvl (.bin o l r) = plainLevel o := by cases o <;> simp_all [isPlainOp, lvl, plainLevel]
  have hop : binOpAt (plainLevel o) (.sym (.bop o)) = some o := by cases o <;> simp_all [isPlainOp, plainLevel, binOpAt]
  have hloop : isLoopLevel (plainLevel o) = true := by cases o <;> simp_all [isPlainOp, plainLevel, isLoopLevel]
  have hcl : contLevel (.sym (.bop o)) = some (plainLevel o) := binOpAt_contLevel hop
  have hle : plainLevel o ≤ 5 := by cases o <;> simp [plainLevel]
  have hcan : canon (.bin o l r) = .bin o (canon l) (canon r) :=
    canon_default l r (by cases o <;> simp_all [isPlainOp])
  have hP : PP (.bin o l r) := by
    refine PP_of_level hF hlvl (by omega) ?_
    intro R hc
    rw [toks_plain ho, hcan, List.append_assoc]
    refine Parses.loop_level hloop
      (wp_parse hFl ml.P (plainLevel o + 1) _ (by omega) (NoCont.of_lt hcl (by omega))) ?_
    exact Parses.loop_step hop (wp_parse hFr mr.P (plainLevel o + 1) R (by omega) (hc.mono (by omega)))
      (Parses.loop_exit (hc.binOpAt_none (Nat.le_refl _)))
  exact Main.of_P hF hP (by cases o <;> simp_all [isPlainOp, Expr.isBinAdd])
    (by cases o <;> simp_all [isPlainOp, isGenMul]) (by cases o <;> simp_all [isPlainOp, Expr.isBinConv])

theorem main_sub {l r : Expr} (hF : Frag (.bin .sub l r) = true) (ml : Main l) (mr : Main r) :
    Main (.bin .sub l r) := by
  have ⟨hFl, hFr⟩ := Frag_bin hF
  have hP : PP (.bin .sub l r) := by
    refine PP_of_level hF (j := 6) rfl (by omega) ?_
    intro R hc
    rw [toks_sub, canon_default l r (by simp), List.append_assoc]
    refine Parses.loop_level (k := 6) rfl (mulOp_parse7 hFl ml.P (NoCont.of_lt (j := 6) rfl (by omega))) ?_
    exact Parses.loop_step (k := 6) rfl (mulOp_parse7 hFr mr.P (hc.mono (by omega)))
      (Parses.loop_exit (hc.binOpAt_none (Nat.le_refl _)))
  exact Main.of_P hF hP rfl rfl rfl

theorem main_div {l r : Expr} (hF : Frag (.bin .div l r) = true) (ml : Main l) (mr : Main r) :
    Main (.bin .div l r) := by
  have ⟨hFl, hFr⟩ := Frag_bin hF
  have hP : PP (.bin .div l r) := by
    refine PP_of_level hF (j := 7) rfl (by omega) ?_
    intro R hc
    rw [toks_div, canon_default l r (by simp), List.append_assoc]
    refine ml.OM _ _ (NoCont.of_lt (j := 7) rfl (by omega)) ?_
    exact Parses.loop_step (k := 7) rfl (divROp_parse8 hFr mr.P (hc.mono (by omega)))
      (Parses.loop_exit (hc.binOpAt_none (Nat.le_refl _)))
  exact Main.of_P hF hP rfl rfl rfl

theorem addOpT_add (l r : Expr) : addOpT (.bin .add l r) = addOpT l ++ .sym (.bop .add) :: addOpT r := by
  have : addOpT (.bin .add l r) = toks (.bin .add l r) := by simp [addOpT, toks, Expr.isBinAdd]
  rw [this, toks_add]

theorem main_add {l r : Expr} (hF : Frag (.bin .add l r) = true) (ml : Main l) (mr : Main r) :
    Main (.bin .add l r) := by
  have hcan : canon (.bin .add l r) = foldBin .add (canon l) (canonC r).addR := by
    rw [canon, canonC_add]; rfl
  have hOA : ∀ R res, NoCont 7 R → Parses (.loop 6 (canon (.bin .add l r))) R res →
      Parses (.level 6) (addOpT (.bin .add l r) ++ R) res := by
    intro R res hc h
    rw [addOpT_add, List.append_assoc]
    refine ml.OA _ _ (NoCont.of_lt (j := 6) rfl (by omega)) ?_
    rw [hcan] at h
    exact mr.A _ _ _ hc h
  have hP : PP (.bin .add l r) := by
    refine PP_of_level hF (j := 6) rfl (by omega) ?_
    intro R hc
    have := hOA R _ (hc.mono (by omega)) (Parses.loop_exit (acc := canon (.bin .add l r)) (hc.binOpAt_none (Nat.le_refl _)))
    rw [addOpT_add] at this
    rw [toks_add]
    exact this
  refine ⟨hP, ?_, M_single hF hP rfl, C_single hP rfl, hOA, OM_single hF hP rfl, OC_single hP rfl⟩
  intro acc R res hc h
  rw [addOpT_add, List.append_assoc]
  rw [canonC_add] at h
  simp only [foldBin_append] at h
  refine ml.A _ _ _ (NoCont.of_lt (j := 6) rfl (by omega)) ?_
  exact mr.A _ _ _ hc h

theorem mulOpT_mul (l r : Expr) : mulOpT (.bin .mul l r) = toks (.bin .mul l r) := by
  simp [mulOpT, toks, Expr.isBinMul]

theorem main_mul_general {l r : Expr} (hf : isFused l r = false) (hF : Frag (.bin .mul l r) = true)
    (ml : Main l) (mr : Main r) : Main (.bin .mul l r) := by
  have hcan : canon (.bin .mul l r) = foldBin .mul (canon l) (canonC r).mulR := by
    rw [canon, canonC_mul_general hf]; rfl
  have hOM : ∀ R res, NoCont 8 R → Parses (.loop 7 (canon (.bin .mul l r))) R res →
      Parses (.level 7) (mulOpT (.bin .mul l r) ++ R) res := by
    intro R res hc h
    rw [mulOpT_mul, toks_mul_general hf, List.append_assoc]
    refine ml.OM _ _ (NoCont.of_lt (j := 7) rfl (by omega)) ?_
    rw [hcan] at h
    exact mr.M _ _ _ hc h
  have hP : PP (.bin .mul l r) := by
    refine PP_of_level hF (j := 7) (by simp [lvl, hf]) (by omega) ?_
    intro R hc
    have := hOM R _ (hc.mono (by omega)) (Parses.loop_exit (acc := canon (.bin .mul l r)) (hc.binOpAt_none (Nat.le_refl _)))
    rw [mulOpT_mul] at this
    exact this
  refine ⟨hP, A_single hF hP rfl, ?_, C_single hP rfl, OA_single hF hP rfl, hOM, OC_single hP rfl⟩
  intro acc R res hc h
  rw [mulOpT_mul, toks_mul_general hf, List.append_assoc]
  rw [canonC_mul_general hf] at h
  simp only [foldBin_append] at h
  refine ml.M _ _ _ (NoCont.of_lt (j := 7) rfl (by omega)) ?_
  exact mr.M _ _ _ hc h

/-- a single atom token read at `power` level -/
theorem atom_level10 {t : PTok} {x : Expr} {R : List PTok} (h13 : Parses (.level 13) (t :: R) (some (x, R)))
    (ht : t ≠ .kwIf ∧ t ≠ .sym .bang ∧ t ≠ .sym .minus) (hc : NoCont 10 R) :
    Parses (.level 10) (t :: R) (some (x, R)) := by
  refine climb' (by omega) (Nat.le_refl _) h13 (fun i _ _ => ?_) hc
  simp [prefixOk, ht.1, ht.2.1, ht.2.2]

theorem main_mul_fused {l r : Expr} (hf : isFused l r = true) (hF : Frag (.bin .mul l r) = true) :
    Main (.bin .mul l r) := by
  have ⟨hFl, hFr⟩ := Frag_bin hF
  have hP : PP (.bin .mul l r) := by
    refine PP_of_level hF (j := 9) (lvl_fused hf) (by omega) ?_
    intro R hc
    rcases isFused_cases hf with ⟨b, t, p, n, rfl, rfl⟩ | ⟨b, t, s, rfl, rfl⟩
    · have ht : t.head? ≠ some '-' := by simpa [Frag] using hFl
      rw [toks_mul_fused_unit ht, canon_mul_fused_unit]
      refine Parses.level9 (atom_level10 Parses.level13_num (by simp) (NoCont.of_lt (j := 9) rfl (by omega))) ?_
      refine Parses.ifac_step rfl (atom_level10 Parses.level13_unit (by simp) (hc.mono (by omega))) ?_
      exact Parses.ifac_exit (hc.not_start (Nat.le_refl _))
    · have ht : t.head? ≠ some '-' := by simpa [Frag] using hFl
      rw [toks_mul_fused_ident ht]
      have : canon (.bin .mul (.num b t) (.ident s)) = .bin .mul (.num b t) (.ident s) := by
        simp [canon, canonC, Canon.single]
      rw [this]
      refine Parses.level9 (atom_level10 Parses.level13_num (by simp) (NoCont.of_lt (j := 9) rfl (by omega))) ?_
      refine Parses.ifac_step rfl (atom_level10 Parses.level13_id (by simp) (hc.mono (by omega))) ?_
      exact Parses.ifac_exit (hc.not_start (Nat.le_refl _))
  exact Main.of_P hF hP rfl (by simp [isGenMul, hf]) rfl

theorem convR_cond {l : Expr} (h : l.isCond = true) : (canonC l).convR = [canon l] :=
  convR_single (by cases l <;> simp_all [Expr.isCond, Expr.isBinConv])

theorem main_conv {l r : Expr} (hF : Frag (.bin .conv l r) = true) (ml : Main l) (mr : Main r) :
    Main (.bin .conv l r) := by
  have ⟨hFl, hFr⟩ := Frag_bin hF
  have hrc : r.isCond = false := by simp [Frag] at hF; exact hF.2
  have hcan : canon (.bin .conv l r) = foldBin .conv (canon l) (canonC r).convR := by
    rw [canon, canonC_conv]; rfl
  have harrow : ∀ X, NoCont 2 (PTok.sym (Sym.bop BinOp.conv) :: X) := fun X => NoCont.of_lt (j := 1) rfl (by omega)
  have hOC : ∀ R res, NoCont 2 R → Parses (.loop 1 (canon (.bin .conv l r))) R res →
      Parses (.level 1) (toks (.bin .conv l r) ++ R) res := by
    intro R res hc h
    rw [hcan] at h
    rw [toks_conv _ _ hrc, List.append_assoc]
    have h2 := mr.C hrc _ _ _ hc h
    cases hlc : l.isCond with
    | true =>
      simp only [if_true]
      exact Parses.loop_level (k := 1) rfl (wp_parse hFl ml.P 2 _ (by omega) (harrow _)) h2
    | false =>
      simp only [Bool.false_eq_true, if_false]
      exact ml.OC hlc _ _ (harrow _) h2
  have hP : PP (.bin .conv l r) := by
    refine PP_of_level hF (j := 1) rfl (by omega) ?_
    intro R hc
    exact hOC R _ (hc.mono (by omega)) (Parses.loop_exit (acc := canon (.bin .conv l r)) (hc.binOpAt_none (Nat.le_refl _)))
  refine ⟨hP, A_single hF hP rfl, M_single hF hP rfl, ?_, OA_single hF hP rfl, OM_single hF hP rfl, fun _ => hOC⟩
  intro _ acc R res hc h
  rw [toks_conv _ _ hrc, List.append_assoc]
  rw [canonC_conv] at h
  simp only [foldBin_append] at h
  have h2 := mr.C hrc _ _ _ hc h
  cases hlc : l.isCond with
  | true =>
    simp only [if_true]
    rw [convR_cond hlc] at h2
    exact Parses.loop_step (k := 1) rfl (wp_parse hFl ml.P 2 _ (by omega) (harrow _)) h2
  | false =>
    simp only [Bool.false_eq_true, if_false]
    exact ml.C hlc _ _ _ (harrow _) h2

theorem wpT_head_ne_minus {e : Expr} (hF : Frag e = true) (R : List PTok) :
    (wpT e ++ R).head? ≠ some (.sym .minus) := (wpT_hd hF R).2.2 (by omega)

theorem main_pow {l r : Expr} (hF : Frag (.bin .pow l r) = true) (ml : Main l) (mr : Main r) :
    Main (.bin .pow l r) := by
  have ⟨hFl, hFr⟩ := Frag_bin hF
  have hpowtok : ∀ X, NoCont 11 (PTok.sym (Sym.bop BinOp.pow) :: X) := fun X => NoCont.of_lt (j := 10) rfl (by omega)
  -- the generic form `l ^ r`
  have generic : ∀ (hcan : canon (.bin .pow l r) = .bin .pow (canon l) (canon r))
      (htoks : toks (.bin .pow l r) = wpT l ++ .sym (.bop .pow) :: wpT r) (hl : lvl (.bin .pow l r) = 10),
      PP (.bin .pow l r) := by
    intro hcan htoks hl
    refine PP_of_level hF hl (by omega) ?_
    intro R hc
    rw [htoks, hcan, List.append_assoc]
    exact Parses.level10_pow (wpT_head_ne_minus hFr R) (wp_parse hFl ml.P 11 _ (by omega) (hpowtok _))
      (wp_parse hFr mr.P 10 R (by omega) hc)
  have hP : PP (.bin .pow l r) := by
    cases r with
    | num b t =>
      by_cases h2 : b = bitsTwo
      · subst h2
        refine PP_of_level hF (j := 12) (by simp [lvl]) (by omega) ?_
        intro R hc
        have hcan : canon (.bin .pow l (.num bitsTwo t)) = .bin .pow (canon l) (.num bitsTwo ['2']) := by
          simp [canon, canonC, Canon.single]
        rw [toks_pow_sup2, hcan, List.append_assoc]
        exact Parses.level12_sup2 (wp_parse hFl ml.P 13 _ (by omega) (NoCont.of_lt (j := 12) rfl (by omega)))
      · by_cases h3 : b = bitsThree
        · subst h3
          refine PP_of_level hF (j := 12) (by simp [lvl]) (by omega) ?_
          intro R hc
          have hcan : canon (.bin .pow l (.num bitsThree t)) = .bin .pow (canon l) (.num bitsThree ['3']) := by
            simp [canon, canonC, Canon.single, bitsTwo, bitsThree]
          rw [toks_pow_sup3, hcan, List.append_assoc]
          exact Parses.level12_sup3 (wp_parse hFl ml.P 13 _ (by omega) (NoCont.of_lt (j := 12) rfl (by omega)))
        · exact generic (by simp [canon, canonC, Canon.single, h2, h3]) (toks_pow_num h2 h3) (by simp [lvl, h2, h3])
    | _ => exact generic (by simp [canon, canonC, Canon.single]) (toks_pow_other (by intro b t; simp)) (by simp [lvl])
  exact Main.of_P hF hP rfl rfl rfl

theorem bangs_run (acc : Expr) (R : List PTok) (hR : R.head? ≠ some (.sym .bang)) :
    ∀ n k, Parses (.bangs acc k) (List.replicate n (.sym .bang) ++ R)
      (some (if k + n = 0 then acc else .fact (k + n) acc, R)) := by
  intro n
  induction n with
  | zero => intro k; simpa using Parses.bangs_exit (acc := acc) (k := k) hR
  | succ n ih =>
    intro k
    have := ih (k + 1)
    have e : k + 1 + n = k + (n + 1) := by omega
    rw [e] at this
    simpa [List.replicate_succ] using Parses.bangs_step this

theorem canon_neg (e : Expr) : canon (.neg e) = .neg (canon e) := by simp [canon, canonC, Canon.single]
theorem canon_not (e : Expr) : canon (.not e) = .not (canon e) := by simp [canon, canonC, Canon.single]
theorem canon_fact (n : Nat) (e : Expr) : canon (.fact n e) = .fact n (canon e) := by simp [canon, canonC, Canon.single]
theorem canon_cond (c t e : Expr) : canon (.cond c t e) = .cond (canon c) (canon t) (canon e) := by
  simp [canon, canonC, Canon.single]

theorem main : ∀ (e : Expr), Frag e = true → Main e
  | .num b t, hF => by
    have ht : t.head? ≠ some '-' := by simpa [Frag] using hF
    refine Main.of_P hF (PP_of_level hF (j := 13) rfl (Nat.le_refl _) ?_) rfl rfl rfl
    intro R _
    rw [toks_num ht]
    simpa [canon, canonC, Canon.single] using Parses.level13_num (b := b) (t := t) (r := R)
  | .ident s, hF => by
    refine Main.of_P hF (PP_of_level hF (j := 13) rfl (Nat.le_refl _) ?_) rfl rfl rfl
    intro R _
    rw [toks_ident]
    simpa [canon, canonC, Canon.single] using Parses.level13_id (s := s) (r := R)
  | .unit p n, hF => by
    refine Main.of_P hF (PP_of_level hF (j := 13) rfl (Nat.le_refl _) ?_) rfl rfl rfl
    intro R _
    rw [toks_unit]
    simpa [canon, canonC, Canon.single] using Parses.level13_unit (s := p ++ n) (r := R)
  | .bool b, hF => by
    refine Main.of_P hF (PP_of_level hF (j := 13) rfl (Nat.le_refl _) ?_) rfl rfl rfl
    intro R _
    rw [toks_bool]
    cases b
    · simpa [canon, canonC, Canon.single] using Parses.level13_false (r := R)
    · simpa [canon, canonC, Canon.single] using Parses.level13_true (r := R)
  | .neg e, hF => by
    have hFe : Frag e = true := by simpa [Frag] using hF
    have ih := main e hFe
    refine Main.of_P hF (PP_of_level hF (j := 8) rfl (by omega) ?_) rfl rfl rfl
    intro R hc
    rw [toks_neg, canon_neg]
    exact Parses.level8_neg (wp_parse hFe ih.P 8 R (by omega) hc)
  | .not e, hF => by
    have hFe : Frag e = true := by simpa [Frag] using hF
    have ih := main e hFe
    refine Main.of_P hF (PP_of_level hF (j := 4) rfl (by omega) ?_) rfl rfl rfl
    intro R hc
    rw [toks_not, canon_not]
    exact Parses.level4_not (wp_parse hFe ih.P 4 R (by omega) hc)
  | .fact n e, hF => by
    have hFe : Frag e = true := by simp [Frag] at hF; exact hF.2
    have hn : 1 ≤ n := by simp [Frag] at hF; exact hF.1
    have ih := main e hFe
    refine Main.of_P hF (PP_of_level hF (j := 11) rfl (by omega) ?_) rfl rfl rfl
    intro R hc
    rw [toks_fact, canon_fact, List.append_assoc]
    have hR : R.head? ≠ some (.sym .bang) := hc.head_ne (j := 11) rfl (Nat.le_refl _)
    have hc12 : NoCont 12 (List.replicate n (PTok.sym Sym.bang) ++ R) := by
      obtain ⟨m, rfl⟩ : ∃ m, n = m + 1 := ⟨n - 1, by omega⟩
      rw [List.replicate_succ]
      exact NoCont.of_lt (j := 11) rfl (by omega)
    have h12 := wp_parse hFe ih.P 12 _ (by omega) hc12
    have hb := bangs_run (canon e) R hR n 0
    have hn0 : ¬ (n = 0) := by omega
    simp only [Nat.zero_add, hn0, if_false] at hb
    exact Parses.level11 h12 hb
  | .cond c t f, hF => by
    have hFc : Frag c = true := by simp [Frag] at hF; exact hF.1.1
    have hFt : Frag t = true := by simp [Frag] at hF; exact hF.1.2
    have hFf : Frag f = true := by simp [Frag] at hF; exact hF.2
    have ihc := main c hFc
    have iht := main t hFt
    have ihf := main f hFf
    have hP : PP (.cond c t f) := by
      intro k R hk hc
      have hk0 : k = 0 := by simp [lvl] at hk; exact hk
      subst hk0
      rw [toks_cond, canon_cond]
      simp only [List.cons_append, List.append_assoc]
      refine Parses.level0_cond
        (wp_parse hFc ihc.P 1 _ (by omega) (NoCont.of_none rfl))
        (wp_parse hFt iht.P 0 _ (by omega) (NoCont.of_none rfl))
        (wp_parse hFf ihf.P 0 _ (by omega) hc)
    exact Main.of_P hF hP rfl rfl rfl
  | .bin o l r, hF => by
    have ⟨hFl, hFr⟩ := Frag_bin hF
    have ml := main l hFl
    have mr := main r hFr
    cases o with
    | add => exact main_add hF ml mr
    | sub => exact main_sub hF ml mr
    | mul =>
      cases hf : isFused l r with
      | true => exact main_mul_fused hf hF
      | false => exact main_mul_general hf hF ml mr
    | div => exact main_div hF ml mr
    | pow => exact main_pow hF ml mr
    | conv => exact main_conv hF ml mr
    | lt => exact main_plain rfl hF ml mr
    | gt => exact main_plain rfl hF ml mr
    | le => exact main_plain rfl hF ml mr
    | ge => exact main_plain rfl hF ml mr
    | eq => exact main_plain rfl hF ml mr
    | ne => exact main_plain rfl hF ml mr
    | and => exact main_plain rfl hF ml mr
    | or => exact main_plain rfl hF ml mr
  | .binDate _ _ _, h => by simp [Frag] at h
  | .call _ _, h => by simp [Frag] at h
  | .ccall _ _, h => by simp [Frag] at h
  | .str _, h => by simp [Frag] at h
  | .mk _ _ _, h => by simp [Frag] at h
  | .get _ _, h => by simp [Frag] at h
  | .list _, h => by simp [Frag] at h
  | .hole, h => by simp [Frag] at h

end NumbatModel.Printer
