import NumbatModel.Lemmas.VMCorrect
/-!
Helper lemmas for C09, part 6: binary operators, conditionals (jump patching), field access.
-/
namespace NumbatModel.VM
open NumbatModel.Core
variable {ν : Type}

theorem case_bin {S : Sem ν} {P : Prog ν} {T : Table ν} {G : List (List Name)} {n : Nat}
    (ih : ExprOK S P T G n) (op : BinOp) (l r : Expr ν) : ExprOKAt S P T G (n + 1) (.bin op l r) := by
  intro ρ cs cs' frag m f fs hcomp hcode hlt hfit hctx hpos hconst hlay hlast
  simp only [compileExpr, Res.bind_eq_ok] at hcomp
  obtain ⟨cs1, h1, cs2, h2, h3⟩ := hcomp
  injection h3 with h3; subst h3
  simp only [fitsE, Bool.and_eq_true] at hfit
  have g1 := compileExpr_good l cs cs1 h1
  have g2 := compileExpr_good r cs1 cs2 h2
  have hl2 : cs2.code.length < 65536 := by
    have : (cs2.emit (binOpcode op) []).code.length = cs2.code.length + 1 := by simp [encode_length]
    omega
  have hl1 : cs1.code.length < 65536 := Nat.lt_of_le_of_lt g2.len hl2
  obtain ⟨f1, e1⟩ := g1.pre hl1
  obtain ⟨f2, e2⟩ := g2.pre hl2
  have hfrag : frag = f1 ++ (f2 ++ encode (binOpcode op) []) := by
    rw [CS.emit_code, e2, e1] at hcode
    simp only [List.append_assoc] at hcode
    exact (List.append_cancel_left hcode).symm
  subst hfrag
  have ihl := ih l ρ cs cs1 f1 m f fs h1 e1 hl1 hfit.1 hctx hpos.left (g2.consts_prefix hconst) hlay hlast
  have p1 := hpos.next (a := f1)
  have ihr := fun a => ih r ρ cs1 cs2 f2 _ _ fs h2 e2 hl2 hfit.2 (hctx.good g1) (p1 (m.stack ++ [a])).left hconst
    (hlay.push [a]) hlast
  refine ⟨?_, ?_⟩
  · intro v hv
    simp only [eval, Res.bind_eq_ok] at hv
    obtain ⟨a, ha, b, hb, hab⟩ := hv
    have r1 := ihl.1 a ha
    have r2 := (ihr a).1 b hb
    have p2 := (p1 (m.stack ++ [a])).next (a := f2) (m.stack ++ [a] ++ [b])
    have r3 := Runs.step (step_bin_ok (S := S) p2 (s := m.stack) (x := a) (y := b) (by simp) hab)
    have := r1.trans (r2.trans r3)
    simpa [encode_length, Nat.add_assoc] using this
  · intro err he
    simp only [eval, Res.bind_eq_err] at he
    rcases he with he | ⟨a, ha, he⟩
    · exact ihl.2 err he
    · have r1 := ihl.1 a ha
      rcases he with he | ⟨b, hb, he⟩
      · exact r1.fails ((ihr a).2 err he)
      · have r2 := (ihr a).1 b hb
        have p2 := (p1 (m.stack ++ [a])).next (a := f2) (m.stack ++ [a] ++ [b])
        exact r1.fails (r2.fails (Fails.step (step_bin_err (S := S) p2 (s := m.stack) (x := a) (y := b) (by simp) he)))

theorem case_cond {S : Sem ν} {P : Prog ν} {T : Table ν} {G : List (List Name)} {n : Nat}
    (ih : ExprOK S P T G n) (c t e : Expr ν) : ExprOKAt S P T G (n + 1) (.cond c t e) := by
  intro ρ cs cs' frag m f fs hcomp hcode hlt hfit hctx hpos hconst hlay hlast
  simp only [compileExpr, Res.bind_eq_ok] at hcomp
  obtain ⟨cs1, h1, cs3, h3, cs6, h6, h7⟩ := hcomp
  injection h7 with h7; subst h7
  simp only [fitsE, Bool.and_eq_true] at hfit
  have g1 := compileExpr_good c cs cs1 h1
  have g3 := compileExpr_good t _ cs3 h3
  have g6 := compileExpr_good e _ cs6 h6
  have hl6 : cs6.code.length < 65536 := by simpa [patchU16_length] using hlt
  obtain ⟨fc, ft, fe, hc1, hc3, hp1, hc6, hfin⟩ := cond_shape g1 g3 g6 hl6
  have hl1 : cs1.code.length < 65536 := by
    have := congrArg List.length hc6; rw [hp1] at this; simp at this; omega
  have hl3 : cs3.code.length < 65536 := by
    have := congrArg List.length hc6; rw [hp1] at this
    have h3' := congrArg List.length hc3
    simp [encode_length] at this h3'; omega
  have hszt : ft.length + 3 < 65536 := by
    have := congrArg List.length hc6; rw [hp1] at this; simp [encode_length] at this; omega
  have hsze : fe.length < 65536 := by
    have := congrArg List.length hc6; simp at this; omega
  have hfrag : frag = fc ++ (encode .jumpIfFalse [ft.length + 3] ++ (ft ++ (encode .jump [fe.length] ++ fe))) := by
    rw [hfin, hc1] at hcode
    simp only [List.append_assoc] at hcode
    exact (List.append_cancel_left hcode).symm
  subst hfrag
  have hconst6 : cs6.constants <+: P.constants := hconst
  have hconst3 : cs3.constants <+: P.constants := g6.consts_prefix hconst6
  have hconst1 : cs1.constants <+: P.constants :=
    ((good_emit cs1 .jumpIfFalse [0xffff]).trans g3).consts_prefix hconst3
  have ihc := ih c ρ cs cs1 fc m f fs h1 hc1 hl1 hfit.1.1 hctx hpos.left hconst1 hlay hlast
  -- machine positions
  have pJ := fun s => hpos.next (a := fc) s
  have pT := fun s => ((pJ s).next (a := encode .jumpIfFalse [ft.length + 3]) s)
  have pJmp := fun s s' => ((pT s).next (a := ft) s')
  have pE := fun s s' => ((pJmp s s').next (a := encode .jump [fe.length]) s')
  have iht := ih t ρ _ cs3 ft _ _ fs h3 (by simpa using hc3) hl3 hfit.1.2
    (hctx.good (g1.trans (good_emit _ _ _))) (pT m.stack).left hconst3 hlay hlast
  have ihe := ih e ρ _ cs6 fe _ _ fs h6 hc6 hl6 hfit.2
    (hctx.good (g1.trans (good_condPatch1 g3))) (pE m.stack m.stack) hconst6 hlay hlast
  refine ⟨?_, ?_⟩
  · intro v hv
    simp only [eval, Res.bind_eq_ok] at hv
    obtain ⟨cv, hcv, hv⟩ := hv
    have r1 := ihc.1 cv hcv
    cases cv with
    | bool b =>
      have rj := Runs.step (step_jumpIfFalse (S := S) (pJ (m.stack ++ [.bool b])).left hszt (s := m.stack) (b := b) rfl)
      cases b with
      | true =>
        simp only [if_true] at rj hv
        have r2 := iht.1 v hv
        have rjmp := Runs.step (step_jump (S := S) (pJmp m.stack (m.stack ++ [v])).left hsze)
        have := r1.trans (rj.trans (by simpa [encode_length] using r2.trans (by simpa [encode_length] using rjmp)))
        simpa [encode_length, Nat.add_assoc] using this
      | false =>
        simp only [Bool.false_eq_true, if_false] at rj hv
        have r2 := ihe.1 v hv
        have := r1.trans (rj.trans (by simpa [encode_length, Nat.add_assoc] using r2))
        simpa [encode_length, Nat.add_assoc] using this
    | _ => simp at hv
  · intro err he
    simp only [eval, Res.bind_eq_err] at he
    rcases he with he | ⟨cv, hcv, he⟩
    · exact ihc.2 err he
    · have r1 := ihc.1 cv hcv
      cases cv with
      | bool b =>
        have rj := Runs.step (step_jumpIfFalse (S := S) (pJ (m.stack ++ [.bool b])).left hszt (s := m.stack) (b := b) rfl)
        cases b with
        | true =>
          simp only [if_true] at rj he
          exact r1.fails (rj.fails (by simpa [encode_length] using iht.2 err he))
        | false =>
          simp only [Bool.false_eq_true, if_false] at rj he
          exact r1.fails (rj.fails (by simpa [encode_length, Nat.add_assoc] using ihe.2 err he))
      | _ => simp at he

theorem fieldIdx_lt {info : StructInfo} {field : Name} {i : Nat} (h : fieldIdx info field = some i) :
    i < info.fields.length := by
  simp only [fieldIdx] at h
  split at h
  · injection h with h; subst h; assumption
  · cases h

theorem case_fld {S : Sem ν} {P : Prog ν} {T : Table ν} {G : List (List Name)} {n : Nat}
    (ih : ExprOK S P T G n) (e : Expr ν) (field : Name) (info : StructInfo) :
    ExprOKAt S P T G (n + 1) (.fld e field info) := by
  intro ρ cs cs' frag m f fs hcomp hcode hlt hfit hctx hpos hconst hlay hlast
  simp only [compileExpr, Res.bind_eq_ok] at hcomp
  obtain ⟨cs1, h1, h2⟩ := hcomp
  simp only [fitsE, Bool.and_eq_true, decide_eq_true_eq] at hfit
  cases hidx : fieldIdx info field with
  | none => simp [hidx] at h2
  | some idx =>
    simp only [hidx] at h2
    injection h2 with h2; subst h2
    have hi : idx < 65536 := Nat.lt_trans (fieldIdx_lt hidx) hfit.1
    obtain ⟨f1, rfl, hok, herr⟩ := unary_case ih h1 hcode hlt hfit.2 hctx hpos hconst hlay hlast
    refine ⟨?_, ?_⟩
    · intro v hv
      simp only [eval, Res.bind_eq_ok, hidx] at hv
      obtain ⟨a, ha, hv⟩ := hv
      obtain ⟨r1, p1⟩ := hok a ha
      cases a with
      | struct info' vs =>
        simp only at hv
        cases hvi : vs[idx]? with
        | none => simp [hvi] at hv
        | some x =>
          simp [hvi] at hv; subst hv
          have r2 := Runs.step (step_accessField (S := S) p1 hi (s := m.stack) (info := info') (vs := vs) rfl hvi)
          simpa [encode_length, Nat.add_assoc] using r1.trans r2
      | _ => simp at hv
    · intro err he
      simp only [eval, Res.bind_eq_err, hidx] at he
      rcases he with he | ⟨a, _, he⟩
      · exact herr err he
      · cases a with
        | struct info' vs =>
          simp only at he
          cases hvi : vs[idx]? <;> simp [hvi] at he
        | _ => simp at he

end NumbatModel.VM
