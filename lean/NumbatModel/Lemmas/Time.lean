import NumbatModel.Model.Time
/-! Helper lemmas for `Props/C19.lean` (about `Model/Time.lean`). -/
namespace NumbatModel.Time

variable {α ζ : Type}

theorem addSpan_ok {t t' : Zoned ζ} {off : Int} (h : addSpan t off = .ok t') :
    t'.instant = t.instant + off ∧ t'.zone = t.zone ∧ inRange t'.instant = true := by
  by_cases hr : inRange (t.instant + off) = true
  · simp only [addSpan, hr, if_true] at h
    cases h
    exact ⟨rfl, rfl, hr⟩
  · simp [addSpan, hr] at h

theorem addSpan_of_inRange (t : Zoned ζ) (off : Int) (h : inRange (t.instant + off) = true) :
    addSpan t off = .ok { t with instant := t.instant + off } := by
  simp [addSpan, h]

theorem rround_near (x : Rat) : -(1/2 : Rat) ≤ (rround x : Rat) - x ∧ (rround x : Rat) - x ≤ 1/2 := by
  unfold rround
  split
  · have h1 := Rat.floor_le (-x + 1/2)
    have h2 := Rat.lt_floor_add_one (-x + 1/2)
    simp only [Rat.intCast_neg, Rat.intCast_add, Rat.intCast_ofNat] at *
    constructor <;> grind
  · have h1 := Rat.floor_le (x + 1/2)
    have h2 := Rat.lt_floor_add_one (x + 1/2)
    simp only [Rat.intCast_add, Rat.intCast_ofNat] at *
    constructor <;> grind

theorem rround_sign (x : Rat) : (0 ≤ x → 0 ≤ rround x) ∧ (x ≤ 0 → rround x ≤ 0) := by
  unfold rround
  constructor
  · intro h
    have : ¬ x < 0 := by grind
    simp only [this, if_false]
    rw [Rat.le_floor_iff]
    simp; grind
  · intro h
    split
    · have : (0:Int) ≤ (-x + 1/2).floor := by
        rw [Rat.le_floor_iff]; simp; grind
      omega
    · have hx : x = 0 := by grind
      subst hx
      decide +kernel

theorem rtrunc_props (q : Rat) :
    ((0 ≤ q → 0 ≤ rtrunc q ∧ 0 ≤ q - rtrunc q ∧ q - rtrunc q < 1) ∧
     (q < 0 → rtrunc q ≤ 0 ∧ q - rtrunc q ≤ 0 ∧ -1 < q - rtrunc q)) := by
  unfold rtrunc
  constructor
  · intro h
    have : ¬ q < 0 := by grind
    simp only [this, if_false]
    have h1 := Rat.floor_le q
    have h2 := Rat.lt_floor_add_one q
    simp only [Rat.intCast_add, Rat.intCast_ofNat] at *
    refine ⟨?_, by grind, by grind⟩
    rw [Rat.le_floor_iff]; simpa using h
  · intro h
    simp only [h, if_true]
    have h1 := @Rat.le_ceil q
    have h2 := @Rat.ceil_lt q
    refine ⟨?_, by grind, by grind⟩
    rw [Rat.ceil_eq_neg_floor_neg]
    have : (0:Int) ≤ (-q).floor := by rw [Rat.le_floor_iff]; simp; grind
    omega

end NumbatModel.Time
