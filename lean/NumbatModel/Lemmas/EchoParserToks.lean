import NumbatModel.Lemmas.EchoParser
/-! Helper lemmas for C15: the token sequence of every printed form (`toks_*`) and its first token (`hd_ok`). -/
namespace NumbatModel.Printer

theorem lexToks_replicate_bang (n : Nat) : lexToks (List.replicate n (.sym .bang)) = List.replicate n (.sym .bang) := by
  induction n with
  | zero => simp [lexToks]
  | succ n ih => simp [List.replicate_succ, lexToks, lexTok, ih]

theorem toks_num {b : Nat} {t : List Char} (h : t.head? ≠ some '-') : toks (.num b t) = [.num b t] := by
  cases t with
  | nil => simp [toks, ptoks, lexToks, lexTok]
  | cons c cs =>
    have : c ≠ '-' := by simpa using h
    simp [toks, ptoks, lexToks]
    unfold lexTok
    split <;> simp_all

theorem toks_ident (s : List Char) : toks (.ident s) = [.id s] := by simp [toks, ptoks, lexToks, lexTok]
theorem toks_unit (p n : List Char) : toks (.unit p n) = [.unit (p ++ n)] := by simp [toks, ptoks, lexToks, lexTok]
theorem toks_bool (b : Bool) : toks (.bool b) = [if b then .kwTrue else .kwFalse] := by
  cases b <;> simp [toks, ptoks, lexToks, lexTok]
theorem toks_neg (e : Expr) : toks (.neg e) = .sym .minus :: wpT e := by
  simp [toks, ptoks, lexToks, lexTok, wpT]
theorem toks_not (e : Expr) : toks (.not e) = .sym .bang :: wpT e := by
  simp [toks, ptoks, lexToks, lexTok, wpT]
theorem toks_fact (n : Nat) (e : Expr) : toks (.fact n e) = wpT e ++ List.replicate n (.sym .bang) := by
  simp [toks, ptoks, lexToks_append, lexToks_replicate_bang, wpT]
theorem toks_cond (c t e : Expr) :
    toks (.cond c t e) = .kwIf :: (wpT c ++ .kwThen :: (wpT t ++ .kwElse :: wpT e)) := by
  simp [toks, ptoks, lexToks_append, lexToks, lexTok, wpT]

theorem toks_add (l r : Expr) : toks (.bin .add l r) = addOpT l ++ .sym (.bop .add) :: addOpT r := by
  simp [toks, ptoks, binopToks, opToks, lexToks_append, lexToks, lexTok, addOpT]
theorem toks_sub (l r : Expr) : toks (.bin .sub l r) = mulOpT l ++ .sym .minus :: mulOpT r := by
  simp [toks, ptoks, binopToks, opToks, lexToks_append, lexToks, lexTok, mulOpT]
theorem toks_div (l r : Expr) : toks (.bin .div l r) = mulOpT l ++ .sym (.bop .div) :: divROpT r := by
  simp [toks, ptoks, binopToks, opToks, lexToks_append, lexToks, lexTok, mulOpT, divROpT]
theorem toks_mul_general {l r : Expr} (h : isFused l r = false) :
    toks (.bin .mul l r) = mulOpT l ++ .sym (.bop .mul) :: mulOpT r := by
  simp only [toks, ptoks, binopToks]
  split
  · simp [isFused] at h
  · simp [isFused] at h
  · simp [opToks, lexToks_append, lexToks, lexTok, mulOpT]
theorem toks_conv (l r : Expr) (hr : r.isCond = false) :
    toks (.bin .conv l r) = (if l.isCond then wpT l else toks l) ++ .sym (.bop .conv) :: toks r := by
  simp only [toks, ptoks, binopToks, hr, Bool.false_eq_true, if_false]
  split <;> simp [opToks, lexToks_append, lexToks, lexTok, wpT]

theorem lexTok_num {b : Nat} {t : List Char} (h : t.head? ≠ some '-') : lexTok (.num b t) = [.num b t] := by
  cases t with
  | nil => simp [lexTok]
  | cons c cs =>
    have : c ≠ '-' := by simpa using h
    unfold lexTok
    split <;> simp_all

theorem toks_mul_fused_unit {b : Nat} {t p n : List Char} (h : t.head? ≠ some '-') :
    toks (.bin .mul (.num b t) (.unit p n)) = [.num b t, .unit (p ++ n)] := by
  simp [toks, ptoks, binopToks, lexToks, lexTok_num h]
  simp [lexTok]
theorem toks_mul_fused_ident {b : Nat} {t s : List Char} (h : t.head? ≠ some '-') :
    toks (.bin .mul (.num b t) (.ident s)) = [.num b t, .id s] := by
  simp [toks, ptoks, binopToks, lexToks, lexTok_num h]
  simp [lexTok]

theorem toks_pow_sup2 {l : Expr} {t : List Char} :
    toks (.bin .pow l (.num bitsTwo t)) = wpT l ++ [.sym .sup2] := by
  simp [toks, ptoks, binopToks, lexToks_append, lexToks, lexTok, wpT]
theorem toks_pow_sup3 {l : Expr} {t : List Char} :
    toks (.bin .pow l (.num bitsThree t)) = wpT l ++ [.sym .sup3] := by
  simp [toks, ptoks, binopToks, lexToks_append, lexToks, lexTok, wpT, bitsTwo, bitsThree]
theorem toks_pow_num {l : Expr} {b : Nat} {t : List Char} (h2 : b ≠ bitsTwo) (h3 : b ≠ bitsThree) :
    toks (.bin .pow l (.num b t)) = wpT l ++ .sym (.bop .pow) :: wpT (.num b t) := by
  simp [toks, ptoks, binopToks, h2, h3, opToks, lexToks_append, lexToks, lexTok, wpT]
theorem toks_pow_other {l r : Expr} (h : ∀ b t, r ≠ .num b t) :
    toks (.bin .pow l r) = wpT l ++ .sym (.bop .pow) :: wpT r := by
  cases r with
  | num b t => exact absurd rfl (h b t)
  | _ => simp [toks, ptoks, binopToks, opToks, lexToks_append, lexToks, lexTok, wpT]

/-- the operators printed by the last arm of `pretty_print_binop` -/
def isPlainOp : BinOp → Bool
  | .lt | .gt | .le | .ge | .eq | .ne | .and | .or => true
  | _ => false

theorem toks_plain {o : BinOp} (h : isPlainOp o = true) (l r : Expr) :
    toks (.bin o l r) = wpT l ++ .sym (.bop o) :: wpT r := by
  cases o <;> simp_all [isPlainOp, toks, ptoks, binopToks, opToks, lexToks_append, lexToks, lexTok, wpT]

/-! ## first tokens -/

/-- the first token is none of the prefix operators a level `< j` reads -/
def hdOk (j : Nat) (ts : List PTok) : Prop :=
  (1 ≤ j → ts.head? ≠ some .kwIf) ∧ (5 ≤ j → ts.head? ≠ some (.sym .bang)) ∧ (9 ≤ j → ts.head? ≠ some (.sym .minus))

theorem hdOk.mono {j j' : Nat} {ts : List PTok} (h : hdOk j ts) (hj : j' ≤ j) : hdOk j' ts :=
  ⟨fun a => h.1 (by omega), fun a => h.2.1 (by omega), fun a => h.2.2 (by omega)⟩

theorem hdOk.prefixOk {j : Nat} {ts : List PTok} (h : hdOk j ts) {i : Nat} (hi : i < j) : prefixOk i ts :=
  ⟨fun a => h.1 (by omega), fun a => h.2.1 (by omega), fun a => h.2.2 (by omega)⟩

theorem wplT_eq (e : Expr) : wplT e = (match e with
    | .bin .mul (.num _ _) (.unit _ _) => toks e
    | _ => wpT e) := by
  unfold wplT withParensLiberal
  split <;> simp [toks, wpT]

theorem wpT_hd {e : Expr} (h : Frag e = true) (R : List PTok) : hdOk 13 (wpT e ++ R) := by
  cases he : e.isAtomic with
  | false => rw [wpT_compound he]; simp [hdOk]
  | true =>
    rw [wpT_atomic he]
    cases e with
    | num b t => rw [toks_num (by simpa [Frag] using h)]; simp [hdOk]
    | ident s => rw [toks_ident]; simp [hdOk]
    | unit p n => rw [toks_unit]; simp [hdOk]
    | bool b => rw [toks_bool]; cases b <;> simp [hdOk]
    | _ => simp_all [Frag, Expr.isAtomic]

theorem wplT_hd {e : Expr} (h : Frag e = true) (R : List PTok) : hdOk 13 (wplT e ++ R) := by
  rw [wplT_eq]
  split
  · rename_i b t p n
    have : t.head? ≠ some '-' := by simpa [Frag] using h
    rw [toks_mul_fused_unit this]; simp [hdOk]
  · exact wpT_hd h R

theorem one_le_lvl_of_not_cond {e : Expr} (h : e.isCond = false) : 1 ≤ lvl e := by
  cases e with
  | cond c t e => simp [Expr.isCond] at h
  | bin o l r =>
    cases o
    case pow => cases r <;> simp only [lvl] <;> (try split) <;> omega
    case mul => simp only [lvl]; split <;> omega
    all_goals simp [lvl]
  | _ => simp [lvl]

theorem lvl_pow_ge (l r : Expr) : 10 ≤ lvl (.bin .pow l r) := by
  cases r <;> simp [lvl] <;> split <;> omega
theorem lvl_mul_ge (l r : Expr) : 7 ≤ lvl (.bin .mul l r) := by
  simp [lvl]; split <;> omega

theorem Frag_bin {o : BinOp} {l r : Expr} (h : Frag (.bin o l r) = true) : Frag l = true ∧ Frag r = true := by
  cases o <;> simp_all [Frag]

theorem isFused_cases {l r : Expr} (h : isFused l r = true) :
    (∃ b t p n, l = .num b t ∧ r = .unit p n) ∨ (∃ b t s, l = .num b t ∧ r = .ident s) := by
  cases l <;> cases r <;> simp [isFused] at h
  · exact Or.inr ⟨_, _, _, rfl, rfl⟩
  · exact Or.inl ⟨_, _, _, _, rfl, rfl⟩

theorem raw_lvl7 {l : Expr} (h : (l.isBinPow || l.isBinMul) = true) : 7 ≤ lvl l := by
  cases l with
  | bin o a b =>
    cases o <;> simp [Expr.isBinPow, Expr.isBinMul] at h
    · exact lvl_mul_ge a b
    · have := lvl_pow_ge a b; omega
  | _ => simp [Expr.isBinPow, Expr.isBinMul] at h

theorem raw_lvl6 {l : Expr} (h : (l.isBinPow || l.isBinMul || l.isBinAdd) = true) : 6 ≤ lvl l := by
  cases l with
  | bin o a b =>
    cases o <;> simp [Expr.isBinPow, Expr.isBinMul, Expr.isBinAdd] at h
    · simp [lvl]
    · have := lvl_mul_ge a b; omega
    · have := lvl_pow_ge a b; omega
  | _ => simp [Expr.isBinPow, Expr.isBinMul, Expr.isBinAdd] at h

/-- head of an operand that is printed raw when it is a power / product (/ sum) -/
theorem opT_hd_aux {l : Expr} (hl : Frag l = true) (R : List PTok) (raw : Bool) (hraw : raw = true → 6 ≤ lvl l)
    (ih : ∀ R, hdOk (lvl l) (toks l ++ R)) :
    hdOk 6 (lexToks (if raw then ptoks l else withParensLiberal l (ptoks l)) ++ R) := by
  cases raw with
  | true => simpa [toks] using (ih R).mono (hraw rfl)
  | false => simpa [wplT] using (wplT_hd hl R).mono (by omega)

theorem hd_ok : ∀ (e : Expr), Frag e = true → ∀ R, hdOk (lvl e) (toks e ++ R)
  | .num b t, h, R => by rw [toks_num (by simpa [Frag] using h)]; simp [hdOk]
  | .ident s, _, R => by rw [toks_ident]; simp [hdOk]
  | .unit p n, _, R => by rw [toks_unit]; simp [hdOk]
  | .bool b, _, R => by rw [toks_bool]; cases b <;> simp [hdOk]
  | .neg e, _, R => by rw [toks_neg]; simp [hdOk, lvl]
  | .not e, _, R => by rw [toks_not]; simp [hdOk, lvl]
  | .fact n e, h, R => by
    have he : Frag e = true := by simp [Frag] at h; exact h.2
    rw [toks_fact, List.append_assoc]; exact (wpT_hd he _).mono (by simp [lvl])
  | .cond c t e, _, R => by simp [hdOk, lvl]
  | .bin o l r, h, R => by
    have ⟨hl, hr⟩ := Frag_bin h
    have ihl := hd_ok l hl
    cases o with
    | add =>
      rw [toks_add, List.append_assoc]
      have := opT_hd_aux hl (PTok.sym (Sym.bop BinOp.add) :: addOpT r ++ R) (l.isBinPow || l.isBinMul || l.isBinAdd)
        (fun hraw => raw_lvl6 hraw) ihl
      simpa [addOpT, lvl] using this
    | sub =>
      rw [toks_sub, List.append_assoc]
      have := opT_hd_aux hl (PTok.sym Sym.minus :: mulOpT r ++ R) (l.isBinPow || l.isBinMul)
        (fun hraw => by have := raw_lvl7 hraw; omega) ihl
      simpa [mulOpT, lvl] using this
    | div =>
      rw [toks_div, List.append_assoc]
      have := opT_hd_aux hl (PTok.sym (Sym.bop BinOp.div) :: divROpT r ++ R) (l.isBinPow || l.isBinMul)
        (fun hraw => by have := raw_lvl7 hraw; omega) ihl
      exact ⟨fun _ => (this.1 (by omega)), fun _ => this.2.1 (by omega), fun h9 => by simp [lvl] at h9⟩
    | mul =>
      cases hf : isFused l r with
      | true =>
        rcases isFused_cases hf with ⟨b, t, p, n, rfl, rfl⟩ | ⟨b, t, s, rfl, rfl⟩
        · rw [toks_mul_fused_unit (by simpa [Frag] using hl)]; simp [hdOk]
        · rw [toks_mul_fused_ident (by simpa [Frag] using hl)]; simp [hdOk]
      | false =>
        rw [toks_mul_general hf, List.append_assoc]
        have := opT_hd_aux hl (PTok.sym (Sym.bop BinOp.mul) :: mulOpT r ++ R) (l.isBinPow || l.isBinMul)
          (fun hraw => by have := raw_lvl7 hraw; omega) ihl
        have hl7 : lvl (.bin .mul l r) = 7 := by simp [lvl, hf]
        rw [hl7]
        exact ⟨fun _ => (this.1 (by omega)), fun _ => this.2.1 (by omega), fun h9 => by omega⟩
    | pow =>
      have h10 := lvl_pow_ge l r
      have hw : ∀ X, hdOk 13 (wpT l ++ X) := wpT_hd hl
      cases r with
      | num b t =>
        by_cases h2 : b = bitsTwo
        · subst h2; rw [toks_pow_sup2, List.append_assoc]; exact (hw _).mono (by simp [lvl])
        · by_cases h3 : b = bitsThree
          · subst h3; rw [toks_pow_sup3, List.append_assoc]; exact (hw _).mono (by simp [lvl])
          · rw [toks_pow_num h2 h3, List.append_assoc]; exact (hw _).mono (by simp [lvl, h2, h3])
      | _ =>
        rw [toks_pow_other (by intro b t; simp), List.append_assoc]
        exact (hw _).mono (by simp [lvl])
    | conv =>
      have hrc : r.isCond = false := by
        simp only [Frag, Bool.and_eq_true, Bool.not_eq_true'] at h; exact h.2
      rw [toks_conv _ _ hrc, List.append_assoc]
      simp only [lvl]
      refine ⟨fun _ => ?_, fun h5 => by omega, fun h9 => by omega⟩
      cases hc : l.isCond with
      | true => simp only [if_true]; exact (wpT_hd hl _).1 (by omega)
      | false => simp only [Bool.false_eq_true, if_false]; exact (ihl _).1 (one_le_lvl_of_not_cond hc)
    | lt => rw [toks_plain rfl, List.append_assoc]; exact (wpT_hd hl _).mono (by simp [lvl])
    | gt => rw [toks_plain rfl, List.append_assoc]; exact (wpT_hd hl _).mono (by simp [lvl])
    | le => rw [toks_plain rfl, List.append_assoc]; exact (wpT_hd hl _).mono (by simp [lvl])
    | ge => rw [toks_plain rfl, List.append_assoc]; exact (wpT_hd hl _).mono (by simp [lvl])
    | eq => rw [toks_plain rfl, List.append_assoc]; exact (wpT_hd hl _).mono (by simp [lvl])
    | ne => rw [toks_plain rfl, List.append_assoc]; exact (wpT_hd hl _).mono (by simp [lvl])
    | and => rw [toks_plain rfl, List.append_assoc]; exact (wpT_hd hl _).mono (by simp [lvl])
    | or => rw [toks_plain rfl, List.append_assoc]; exact (wpT_hd hl _).mono (by simp [lvl])
  | .binDate _ _ _, h, _ => by simp [Frag] at h
  | .call _ _, h, _ => by simp [Frag] at h
  | .ccall _ _, h, _ => by simp [Frag] at h
  | .str _, h, _ => by simp [Frag] at h
  | .mk _ _ _, h, _ => by simp [Frag] at h
  | .get _ _, h, _ => by simp [Frag] at h
  | .list _, h, _ => by simp [Frag] at h
  | .hole, h, _ => by simp [Frag] at h

end NumbatModel.Printer
