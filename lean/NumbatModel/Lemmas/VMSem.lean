import NumbatModel.Lemmas.VMCompile
/-!
Helper lemmas for C09, part 3: the invariants of the compiler-correctness proof (stack layout, agreement of
the compiler's tables with the environment of the reference evaluator, consistency of the compiled program
with the function table) and one lemma per instruction.
-/
namespace NumbatModel.VM
open NumbatModel.Core

variable {ν : Type}

/-! ### operands fit into 16 bits -/

mutual
/-- every immediate operand the compiler derives from the expression itself (factorial order, number of
    arguments / elements / parts / fields) is below 2^16 -/
def fitsE : Expr ν → Bool
  | .num _ | .bool _ | .ident _ => true
  | .neg e | .not e => fitsE e
  | .fact k e => decide (k < 65536) && fitsE e
  | .bin _ l r => fitsE l && fitsE r
  | .call _ args => decide (args.length < 65536) && fitsL args
  | .callc c args => decide (args.length < 65536) && fitsE c && fitsL args
  | .cond c t e => fitsE c && fitsE t && fitsE e
  | .str parts => decide (parts.length < 65536) && fitsP parts
  | .mk _ fields => decide (fields.length < 65536) && fitsF fields
  | .fld e _ info => decide (info.fields.length < 65536) && fitsE e
  | .list es => decide (es.length < 65536) && fitsL es
def fitsL : List (Expr ν) → Bool
  | [] => true
  | e :: es => fitsE e && fitsL es
def fitsP : List (Part ν) → Bool
  | [] => true
  | .fixed _ :: ps => fitsP ps
  | .interp _ e :: ps => fitsE e && fitsP ps
def fitsF : List (Field ν) → Bool
  | [] => true
  | .mk _ e :: fs => fitsE e && fitsF fs
end

/-! ### runs -/

/-- the machine gets from `m` to `m'` in some number of instructions -/
def Runs (S : Sem ν) (P : Prog ν) (m m' : Machine ν) : Prop := ∃ n, runN S P n m = .next m'

/-- the machine started in `m` stops with the run-time error `e` -/
def Fails (S : Sem ν) (P : Prog ν) (m : Machine ν) (e : Err) : Prop := ∃ n, runN S P n m = .err e

theorem Runs.refl (S : Sem ν) (P : Prog ν) (m : Machine ν) : Runs S P m m := ⟨0, rfl⟩

theorem Runs.trans {S : Sem ν} {P : Prog ν} {a b c : Machine ν} (h1 : Runs S P a b) (h2 : Runs S P b c) :
    Runs S P a c := by
  obtain ⟨n1, e1⟩ := h1; obtain ⟨n2, e2⟩ := h2
  exact ⟨n1 + n2, runN_trans e1 e2⟩

theorem Runs.fails {S : Sem ν} {P : Prog ν} {a b : Machine ν} {e : Err} (h1 : Runs S P a b) (h2 : Fails S P b e) :
    Fails S P a e := by
  obtain ⟨n1, e1⟩ := h1; obtain ⟨n2, e2⟩ := h2
  exact ⟨n1 + n2, runN_trans e1 e2⟩

theorem Runs.step {S : Sem ν} {P : Prog ν} {m m' : Machine ν} (h : step S P m = .next m') : Runs S P m m' :=
  ⟨1, runN_one_next h⟩

theorem Fails.step {S : Sem ν} {P : Prog ν} {m : Machine ν} {e : Err} (h : step S P m = .err e) : Fails S P m e :=
  ⟨1, runN_one_err h⟩

/-! ### fetching an instruction -/

theorem step_eq_exec {S : Sem ν} {P : Prog ν} {m : Machine ν} {f : Frame} {fs : List Frame} {ch : Chunk}
    {op : Op} {args : List Nat}
    (hm : m.frames = f :: fs) (hch : P.chunks[f.fn]? = some ch)
    (hc : CodeAt ch.code f.ip (encode op args)) (hlen : args.length = op.numOperands)
    (hb : ∀ a ∈ args, a < 65536) :
    step S P m = exec S P m { f with ip := f.ip + 1 + 2 * op.numOperands } fs op args := by
  have hlt : f.ip < ch.code.length := CodeAt.lt (b := op.code) (frag := encArgs args) (by simpa [encode] using hc)
  simp only [step, hm, hch, decode_codeAt hc hlen hb]
  rw [if_neg (by omega)]

/-! ### name resolution: the compiler's `rposition` and the evaluator's innermost binding -/

theorem lookupLast_of_lastIdx {α : Type} (x : Name) (env : List (List Name × α)) :
    (∀ p, lastIdx (fun l => l.contains x) (env.map Prod.fst) = some p →
        p < env.length ∧ lookupLast x env = (env[p]?).map Prod.snd) ∧
    (lastIdx (fun l => l.contains x) (env.map Prod.fst) = none → lookupLast x env = none) := by
  induction env with
  | nil => simp [lastIdx, lookupLast]
  | cons b bs ih =>
    simp only [List.map_cons, lastIdx, lookupLast]
    cases hl : lastIdx (fun l => l.contains x) (bs.map Prod.fst) with
    | some i =>
      obtain ⟨hlt, hv⟩ := ih.1 i hl
      constructor
      · intro p hp
        simp at hp; subst hp
        have : ∃ w, bs[i]? = some w := ⟨bs[i], by simp [hlt]⟩
        obtain ⟨w, hw⟩ := this
        rw [hv, hw]
        simp [hw]; omega
      · intro h; simp at h
    | none =>
      have hn := ih.2 hl
      rw [hn]
      by_cases hb : b.1.contains x = true
      · simp [hb]
      · simp [hb]

/-! ### stack layout -/

/-- how the environment of the evaluator lies on the machine stack: the globals at the bottom, the bindings of
    the current scope from the frame pointer on, temporaries above -/
structure Layout (ρ : Env ν) (fp : Nat) (stack : List (Value ν)) : Prop where
  locals : ∃ pre tmp, stack = pre ++ ρ.locals.map Prod.snd ++ tmp ∧ pre.length = fp
  globals : ∃ rest, stack = ρ.globals.map Prod.snd ++ rest

theorem Layout.push {ρ : Env ν} {fp : Nat} {s : List (Value ν)} (h : Layout ρ fp s) (t : List (Value ν)) :
    Layout ρ fp (s ++ t) := by
  obtain ⟨pre, tmp, e1, e2⟩ := h.locals
  obtain ⟨rest, e3⟩ := h.globals
  exact ⟨⟨pre, tmp ++ t, by rw [e1]; simp, e2⟩, ⟨rest ++ t, by rw [e3]; simp⟩⟩

theorem Layout.local_get {ρ : Env ν} {fp : Nat} {s : List (Value ν)} (h : Layout ρ fp s) {p : Nat}
    {w : List Name × Value ν} (hp : ρ.locals[p]? = some w) : s[fp + p]? = some w.2 := by
  obtain ⟨pre, tmp, e1, e2⟩ := h.locals
  have hlt : p < ρ.locals.length := (List.getElem?_eq_some_iff.mp hp).1
  rw [e1, ← e2, List.append_assoc, List.getElem?_append_right (by omega)]
  simp only [Nat.add_sub_cancel_left]
  rw [List.getElem?_append_left (by simpa using hlt)]
  simp [hp]

theorem Layout.global_get {ρ : Env ν} {fp : Nat} {s : List (Value ν)} (h : Layout ρ fp s) {p : Nat}
    {w : List Name × Value ν} (hp : ρ.globals[p]? = some w) : s[p]? = some w.2 := by
  obtain ⟨rest, e3⟩ := h.globals
  have hlt : p < ρ.globals.length := (List.getElem?_eq_some_iff.mp hp).1
  rw [e3, List.getElem?_append_left (by simpa using hlt)]
  simp [hp]

/-! ### agreement of the compiler's tables with the evaluator's environment -/

/-- The compiler state `cs` describes the scope in which the evaluator's environment `ρ` lives (same names in the
    same order, same function map, same foreign names, same visible functions), relative to the function table `T`
    and the list `G` of all global names of the session. -/
structure Ctx (T : Table ν) (G : List (List Name)) (ρ : Env ν) (cs : CS ν) : Prop where
  cur : cs.scopeCur = ρ.locals.map Prod.fst
  glob : cs.scopeGlob = (ρ.globals.take ρ.static.nglob).map Prod.fst
  functions : cs.functions = ρ.static.fnNames
  ffi : cs.ffiNames = ρ.static.ffi
  ffiPre : ρ.static.ffi <+: T.ffiAll
  chunks : cs.chunkNames = "<main>" :: (T.funs.take ρ.static.nfuns).map (fun c => c.decl.name)
  nfuns : ρ.static.nfuns ≤ T.funs.length
  structs : cs.structNames <+: T.structs.map StructInfo.name
  curLt : cs.scopeCur.length < 65536
  globLt : cs.scopeGlob.length < 65536
  gnames : ρ.globals.map Prod.fst <+: G
  nglob : ρ.static.nglob ≤ ρ.globals.length

theorem Ctx.good {T : Table ν} {G : List (List Name)} {ρ : Env ν} {cs cs' : CS ν} (h : Ctx T G ρ cs)
    (g : Good cs cs') : Ctx T G ρ cs' :=
  ⟨by rw [g.scopeCur, h.cur], by rw [g.scopeGlob, h.glob], by rw [g.functions, h.functions],
   by rw [g.ffiNames, h.ffi], h.ffiPre, by rw [g.chunkNames, h.chunks], h.nfuns, by rw [g.structNames]; exact h.structs,
   by rw [g.scopeCur]; exact h.curLt, by rw [g.scopeGlob]; exact h.globLt, h.gnames, h.nglob⟩

/-- the compiler state in which the body of the function `c` (number `i` of the table) was compiled -/
structure FnStart (T : Table ν) (i : Nat) (c : Closure ν) (cs0 : CS ν) : Prop where
  code : cs0.code = []
  cur : cs0.scopeCur = c.decl.params.map fun p => [p]
  glob : cs0.scopeGlob = c.gnames
  functions : cs0.functions = c.static.fnNames
  ffi : cs0.ffiNames = c.static.ffi
  chunks : cs0.chunkNames = "<main>" :: (T.funs.take (i + 1)).map (fun c => c.decl.name)
  structs : cs0.structNames <+: T.structs.map StructInfo.name

/-- The compiled program `P` is the compilation of the function table `T`: chunk `i + 1` holds the compiled body
    of function `i`, compiled in the scope recorded in its closure; the name tables agree; indices fit 16 bits. -/
structure ProgOK (P : Prog ν) (T : Table ν) (G : List (List Name)) : Prop where
  names : P.chunks.map Chunk.name = "<main>" :: T.funs.map (fun c => c.decl.name)
  notMain : ∀ c ∈ T.funs, c.decl.name ≠ "<main>"
  ffi : P.ffiNames = T.ffiAll
  structs : P.structInfos = T.structs
  chunksLt : P.chunks.length < 65536
  ffiLt : P.ffiNames.length < 65536
  structsLt : P.structInfos.length < 65536
  fns : ∀ i c, T.funs[i]? = some c →
    c.static.nfuns = i + 1 ∧ c.static.nglob = c.gnames.length ∧ c.gnames <+: G ∧ c.static.ffi <+: T.ffiAll ∧
    ∃ cs0 cs1 : CS ν, FnStart T i c cs0 ∧ compileFnBody c.decl cs0 = .ok cs1 ∧
      P.chunks[i + 1]? = some ⟨c.decl.name, cs1.code⟩ ∧ cs1.constants <+: P.constants ∧
      cs1.code.length < 65536 ∧ cs1.scopeCur.length < 65536 ∧ cs0.scopeGlob.length < 65536 ∧
      fitsE c.decl.body = true ∧ (∀ d ∈ c.decl.wheres, fitsE d.expr = true)

end NumbatModel.VM
