import NumbatModel.Lemmas.Types
import NumbatModel.Model.Elab
/-! Helper lemmas for C16: the exponent-normalisation substitution of `check_statement` seen through valuations. -/
namespace NumbatModel.Types

theorem applyTys_comp {s : Subst} (hs : s.dimOnly = true) (ts : List Ty) (hts : ∀ t ∈ ts, t.isTD = true) :
    ∃ ts', applyTys s ts = some ts' ∧ (∀ t ∈ ts', t.isTD = true) ∧
      ∀ θ : Val, ts'.map (tyVal θ) = ts.map (tyVal (comp θ s)) := by
  induction ts with
  | nil => exact ⟨[], rfl, by simp, fun _ => rfl⟩
  | cons t rest ih =>
    obtain ⟨t', h1, hd1, hv1⟩ := Ty.apply_comp hs (hts t (by simp))
    obtain ⟨rest', h2, hd2, hv2⟩ := ih (fun x hx => hts x (by simp [hx]))
    refine ⟨t' :: rest', by simp only [applyTys, h1, h2], ?_, fun θ => ?_⟩
    · intro x hx
      simp at hx
      cases hx with
      | inl h => subst h; exact hd1
      | inr h => exact hd2 x h
    · simp only [List.map_cons, hv1 θ, hv2 θ]

theorem lcmDen_foldl_ne_zero (es : List Rat) (acc : Nat) (h : acc ≠ 0) :
    es.foldl (fun acc e => Nat.lcm acc e.den) acc ≠ 0 := by
  induction es generalizing acc with
  | nil => exact h
  | cons e rest ih =>
    simp only [List.foldl_cons]
    apply ih
    exact Nat.lcm_ne_zero h e.den_nz

theorem lcmDen_ne_zero (es : List Rat) : lcmDen es ≠ 0 := lcmDen_foldl_ne_zero es 1 (by decide)

theorem lcmSubst_dimOnly (tv : TV) (es : List Rat) : (lcmSubst tv es).dimOnly = true := by
  simp only [lcmSubst]
  split <;> simp [Subst.dimOnly, Ty.isTD]

/-- the valuation that undoes the exponent normalisation at `tv` -/
def unscale (θ : Val) (tv : TV) (l : Rat) : Val := fun w => if w = tv then fun a => θ tv a / l else θ w

theorem comp_lcmSubst_unscale (θ : Val) (tv : TV) (es : List Rat) :
    comp (unscale θ tv (if lcmDen es = 1 then 1 else (lcmDen es : Rat))) (lcmSubst tv es) = θ := by
  funext w a
  simp only [lcmSubst]
  split
  · rename_i h1
    simp only [comp, Subst.lookup, List.find?_nil, unscale]
    split <;> (try subst_vars) <;> grind
  · rename_i h1
    have hl : ((lcmDen es : Nat) : Rat) ≠ 0 := by
      intro h; exact lcmDen_ne_zero es (by exact_mod_cast h)
    simp only [comp, Subst.lookup, List.find?_cons, List.find?_nil]
    by_cases hw : w = tv
    · subst hw
      simp only [beq_self_eq_true, tyVal, dVal, dValAt_dpow, dValAt_dOfTVar, unscale, if_true]
      grind
    · have : (tv == w) = false := by simpa using fun h => hw h.symm
      simp only [this, unscale, hw, if_false]

end NumbatModel.Types
