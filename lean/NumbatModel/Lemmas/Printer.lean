import NumbatModel.Model.Printer
/-! Helper lemmas for C15 (string escaping). -/
namespace NumbatModel.Printer

/-- `last_char` does not hold a pending `\\`, `{` or `}` -/

def OkLast (l : Option Char) : Prop := l ≠ some '\\' ∧ l ≠ some '{' ∧ l ≠ some '}'

theorem unesc_escape (s : List Char) : ∀ last, OkLast last → unesc last (escape s) = s := by
  induction s with
  | nil => intro last _; simp [escape, unesc]
  | cons c cs ih =>
    intro last h
    obtain ⟨h1, h2, h3⟩ := h
    have okc : ∀ d : Char, d ≠ '\\' → d ≠ '{' → d ≠ '}' → OkLast (some d) := by
      intro d a b c; exact ⟨by simpa using a, by simpa using b, by simpa using c⟩
    have oknone : OkLast none := ⟨by simp, by simp, by simp⟩
    simp only [escape]
    by_cases c1 : c = '\n'
    · subst c1
      simp [unesc, h1, ih _ (okc 'n' (by decide) (by decide) (by decide))]
    · by_cases c2 : c = '\r'
      · subst c2
        simp [unesc, h1, ih _ (okc 'r' (by decide) (by decide) (by decide))]
      · by_cases c3 : c = '\t'
        · subst c3
          simp [unesc, h1, ih _ (okc 't' (by decide) (by decide) (by decide))]
        · by_cases c4 : c = '"'
          · subst c4
            simp [unesc, h1, ih _ (okc '"' (by decide) (by decide) (by decide))]
          · by_cases c5 : c = '\x00'
            · subst c5
              simp [unesc, h1, ih _ (okc '0' (by decide) (by decide) (by decide))]
            · by_cases c6 : c = '{' ∨ c = '}' ∨ c = '\\'
              · simp only [c1, c2, c3, c4, c5, c6, if_true, if_false]
                rcases c6 with c6 | c6 | c6 <;> subst c6 <;> simp [unesc, h1, h2, h3, ih _ oknone]
              · simp only [c1, c2, c3, c4, c5, c6, if_false]
                have c6' : c ≠ '{' ∧ c ≠ '}' ∧ c ≠ '\\' := by
                  refine ⟨fun h => c6 (Or.inl h), fun h => c6 (Or.inr (Or.inl h)), fun h => c6 (Or.inr (Or.inr h))⟩
                simp [unesc, h1, c6'.1, c6'.2.1, c6'.2.2, ih _ (okc c c6'.2.2 c6'.1 c6'.2.1)]


end NumbatModel.Printer
