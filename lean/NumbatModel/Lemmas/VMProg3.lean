import NumbatModel.Lemmas.VMProg2
/-!
Helper lemmas for C09, part 16: executing the statements of an input on the compiled program.
-/
namespace NumbatModel.VM
open NumbatModel.Core
variable {ν : Type}

theorem progOK_of_inv {I : Interp ν} {s : TopStatic ν} (h : InvS I s) (hs : Sizes I) :
    ProgOK I.prog (tableOf s) s.gnames :=
  ⟨h.names, h.notMain, h.ffi, h.structs, hs.chunks, hs.ffi, hs.structs, h.fns⟩

/-- the machine between two top-level statements: one root frame at `ip`, the globals on the stack -/
def topMachine (ip : Nat) (st : TopState ν) : Machine ν :=
  { frames := [{ fn := 0, ip := ip, fp := 0 }], stack := st.gvals, last := st.last, out := st.out,
    result := st.result }

/-- the compiler's view at top level describes the environment of the reference semantics -/
theorem ctx_top {I Ifin : Interp ν} {st : TopState ν} {sfin : TopStatic ν} (h : InvS I st.static)
    (hgs : GrowS st.static sfin) (hg : Grow I Ifin) (hsz : Sizes Ifin)
    (hlen : st.gvals.length = st.static.gnames.length) :
    Ctx (tableOf sfin) sfin.gnames st.env I.view := by
  have hzipfst : (st.static.gnames.zip st.gvals).map Prod.fst = st.static.gnames := map_fst_zip_eq _ _ hlen
  have hziplen : (st.static.gnames.zip st.gvals).length = st.static.gnames.length := by simp [hlen]
  refine ⟨?_, ?_, h.functions, h.ffi, hgs.ffi, ?_, ?_, ?_, ?_, ?_, ?_, ?_⟩
  · show I.locals0 = _
    simp only [TopState.env]; rw [hzipfst]; exact h.locals
  · show I.locals0 = _
    simp only [TopState.env, TopStatic.static]
    rw [List.take_of_length_le (by rw [hziplen]; exact Nat.le_refl _), hzipfst]; exact h.locals
  · show I.chunks.map Chunk.name = _
    simp only [TopState.env, TopStatic.static, tableOf]
    rw [prefix_take_map hgs.funs]; exact h.names
  · simp only [TopState.env, TopStatic.static, tableOf]; exact hgs.funs.length_le
  · show I.structInfos.map StructInfo.name <+: _
    obtain ⟨t, ht⟩ := hgs.structs
    simp only [tableOf]
    exact ⟨t.map StructInfo.name, by rw [← ht, h.structs]; simp⟩
  · show I.locals0.length < 65536
    exact Nat.lt_of_le_of_lt hg.locals.length_le hsz.locals
  · show I.locals0.length < 65536
    exact Nat.lt_of_le_of_lt hg.locals.length_le hsz.locals
  · simp only [TopState.env]; rw [hzipfst]; exact hgs.gnames
  · simp only [TopState.env, TopStatic.static]; rw [hziplen]; exact Nat.le_refl _

theorem layout_top (st : TopState ν) (hlen : st.gvals.length = st.static.gnames.length) (ip : Nat) :
    Layout st.env 0 (topMachine ip st).stack := by
  have : (st.static.gnames.zip st.gvals).map Prod.snd = st.gvals := map_snd_zip_eq _ _ hlen
  exact ⟨⟨[], [], by simp [topMachine, TopState.env, this], rfl⟩, ⟨[], by simp [topMachine, TopState.env, this]⟩⟩

/-- the machine stands in the main chunk of the final program in front of the code a statement appended -/
theorem pos_top {I I1 Ifin : Interp ν} {ch0 : Chunk} {rest : List Chunk} (hch : Ifin.chunks = ch0 :: rest)
    (hg01 : Grow I I1) (hg1 : Grow I1 Ifin) (hsz : Sizes Ifin) (st : TopState ν) {frag : List UInt8}
    (hfrag : I1.mainCode = I.mainCode ++ frag) :
    Pos Ifin.prog (topMachine I.mainCode.length st) { fn := 0, ip := I.mainCode.length, fp := 0 } [] frag := by
  refine ⟨rfl, ch0, by simp [Interp.prog, hch], ?_⟩
  have hmain : Ifin.mainCode = ch0.code := by simp [Interp.mainCode, hch]
  obtain ⟨t, ht⟩ := hg1.main hsz.main
  refine ⟨t, ?_⟩
  rw [← hmain, ← ht, hfrag]
  simp

theorem step_return_top {S : Sem ν} {P : Prog ν} {m : Machine ν} {f : Frame} {s : List (Value ν)} {v : Value ν}
    (hp : Pos P m f [] (encode .return_ [])) (hs : m.stack = s ++ [v]) :
    step S P m = .next { m with frames := [{ f with ip := f.ip + 1 }], stack := s, last := some v,
                                result := some v } := by
  rw [exec_step hp rfl (by simp)]
  simp [exec, hs, pop, Op.numOperands]

theorem topMachine_at (ip : Nat) (st : TopState ν) (ip' : Nat) (stack : List (Value ν)) :
    (topMachine ip st).at { fn := 0, ip := ip, fp := 0 } [] ip' stack
      = { topMachine ip' st with stack := stack } := rfl

/-- a statement whose code is an expression followed by nothing (`let`) or by `Return` (expression statement) -/
theorem expr_top {S : Sem ν} {Ifin : Interp ν} {sfin : TopStatic ν} (hfin : InvS Ifin sfin) (hsz : Sizes Ifin)
    (fuel : Nat) {I : Interp ν} {st : TopState ν} (e : Expr ν) {cs : CS ν} (tail : List UInt8)
    {I1 : Interp ν} (h : InvS I st.static) (h1 : compileExpr e I.view = .ok cs) (hfit : fitsE e = true)
    (hmain1 : I1.mainCode = cs.code ++ tail) (hconst1 : I1.constants = cs.constants)
    (hg01 : Grow I I1) (hg1 : Grow I1 Ifin) (hgs : GrowS st.static sfin)
    (hlen : st.gvals.length = st.static.gnames.length) :
    ∃ fe, cs.code = I.mainCode ++ fe ∧
      Pos Ifin.prog (topMachine I.mainCode.length st) { fn := 0, ip := I.mainCode.length, fp := 0 } [] (fe ++ tail) ∧
      (∀ v, eval S (tableOf sfin) fuel st.env e = .ok v →
        Runs S Ifin.prog (topMachine I.mainCode.length st)
          { topMachine (I.mainCode.length + fe.length) st with stack := st.gvals ++ [v] }) ∧
      (∀ err, eval S (tableOf sfin) fuel st.env e = .err err →
        Fails S Ifin.prog (topMachine I.mainCode.length st) err) := by
  obtain ⟨ch0, rest, hch, _, _⟩ := hfin.chunks_cons
  have hP := progOK_of_inv hfin hsz
  have g := compileExpr_good e I.view cs h1
  have hl1 : I1.mainCode.length < 65536 := Nat.lt_of_le_of_lt hg1.mainLen hsz.main
  have hlc : cs.code.length < 65536 := by
    have := congrArg List.length hmain1; simp at this; omega
  obtain ⟨fe, hfe⟩ := g.pre hlc
  rw [view_code] at hfe
  have hpos := pos_top (frag := fe ++ tail) hch hg01 hg1 hsz st (by rw [hmain1, hfe]; simp)
  have hctx := ctx_top h hgs (hg01.trans hg1) hsz hlen
  have hconst : cs.constants <+: Ifin.prog.constants := by rw [← hconst1]; exact hg1.consts
  have r := exprOK_all (S := S) hP fuel e st.env I.view cs fe (topMachine I.mainCode.length st)
    { fn := 0, ip := I.mainCode.length, fp := 0 } [] h1 (by rw [view_code]; exact hfe) hlc hfit hctx hpos.left hconst
    (layout_top st hlen _) rfl
  refine ⟨fe, hfe, hpos, ?_, r.2⟩
  intro v hv
  have := r.1 v hv
  rw [topMachine_at] at this
  exact this

/-- the arguments of a procedure call at top level -/
theorem list_top {S : Sem ν} {Ifin : Interp ν} {sfin : TopStatic ν} (hfin : InvS Ifin sfin) (hsz : Sizes Ifin)
    (fuel : Nat) {I : Interp ν} {st : TopState ν} (es : List (Expr ν)) {cs : CS ν} (tail : List UInt8)
    {I1 : Interp ν} (h : InvS I st.static) (h1 : compileList es I.view = .ok cs) (hfit : fitsL es = true)
    (hmain1 : I1.mainCode = cs.code ++ tail) (hconst1 : I1.constants = cs.constants)
    (hg01 : Grow I I1) (hg1 : Grow I1 Ifin) (hgs : GrowS st.static sfin)
    (hlen : st.gvals.length = st.static.gnames.length) :
    ∃ fe, cs.code = I.mainCode ++ fe ∧
      Pos Ifin.prog (topMachine I.mainCode.length st) { fn := 0, ip := I.mainCode.length, fp := 0 } [] (fe ++ tail) ∧
      (∀ vs, evalList (eval S (tableOf sfin) fuel st.env) es = .ok vs →
        Runs S Ifin.prog (topMachine I.mainCode.length st)
          { topMachine (I.mainCode.length + fe.length) st with stack := st.gvals ++ vs }) ∧
      (∀ err, evalList (eval S (tableOf sfin) fuel st.env) es = .err err →
        Fails S Ifin.prog (topMachine I.mainCode.length st) err) := by
  obtain ⟨ch0, rest, hch, _, _⟩ := hfin.chunks_cons
  have hP := progOK_of_inv hfin hsz
  have g := compileList_good es I.view cs h1
  have hl1 : I1.mainCode.length < 65536 := Nat.lt_of_le_of_lt hg1.mainLen hsz.main
  have hlc : cs.code.length < 65536 := by
    have := congrArg List.length hmain1; simp at this; omega
  obtain ⟨fe, hfe⟩ := g.pre hlc
  rw [view_code] at hfe
  have hpos := pos_top (frag := fe ++ tail) hch hg01 hg1 hsz st (by rw [hmain1, hfe]; simp)
  have hctx := ctx_top h hgs (hg01.trans hg1) hsz hlen
  have hconst : cs.constants <+: Ifin.prog.constants := by rw [← hconst1]; exact hg1.consts
  have r := list_ok (exprOK_all (S := S) hP fuel) es st.env I.view cs fe (topMachine I.mainCode.length st)
    { fn := 0, ip := I.mainCode.length, fp := 0 } [] h1 (by rw [view_code]; exact hfe) hlc hfit hctx hpos.left hconst
    (layout_top st hlen _) rfl
  refine ⟨fe, hfe, hpos, ?_, r.2⟩
  intro vs hv
  have := r.1 vs hv
  rw [topMachine_at] at this
  exact this

theorem step_ffiProc {S : Sem ν} {P : Prog ν} {m : Machine ν} {f : Frame} {fs : List Frame}
    {idx nargs a : Nat} {name : Name} {s vs : List (Value ν)}
    (hp : Pos P m f fs (encode .ffiCallProcedure [idx, nargs, a]))
    (hi : idx < 65536) (hn : nargs < 65536) (ha : a < 65536)
    (hname : P.ffiNames[idx]? = some name) (hs : m.stack = s ++ vs) (hl : vs.length = nargs) :
    step S P m = callForeign S name vs (m.at f fs (f.ip + 7) s) := by
  rw [exec_step hp rfl (by simp; exact ⟨hi, hn, ha⟩)]
  subst hl
  simp [exec, hname, hs, popN_append, Machine.at, Op.numOperands]

end NumbatModel.VM
