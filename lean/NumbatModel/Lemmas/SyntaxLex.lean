import NumbatModel.Model.SyntaxUnlex
/-!
C10 helper lemmas, part 6: the tokenizer reads back what `unlexBlank` writes.
-/
namespace NumbatModel.Syntax

theorem spanChars_append (p : Char → Bool) : ∀ (cs follow : List Char), cs.all p = true →
    (follow = [] ∨ ∃ d r, follow = d :: r ∧ p d = false) → spanChars p (cs ++ follow) = (cs, follow)
  | [], follow, _, hf => by
    rcases hf with rfl | ⟨d, r, rfl, hd⟩
    · rfl
    · simp [spanChars, hd]
  | c :: cs, follow, hall, hf => by
    simp only [List.all_cons, Bool.and_eq_true] at hall
    simp [spanChars, hall.1, spanChars_append p cs follow hall.2 hf]

theorem fixed_scan (xt : XidTable) (last : Option TokKind) : ∀ t ∈ fixedTokens,
    scanSingleToken xt [] last (t.lexeme ++ []) = .ok ⟨some t, [], []⟩ ∧
    ∀ r, scanSingleToken xt [] last (t.lexeme ++ ' ' :: r) = .ok ⟨some t, ' ' :: r, []⟩ := by
  intro t ht
  simp only [fixedTokens, List.mem_cons, List.mem_nil_iff, or_false] at ht
  rcases ht with rfl | rfl | rfl | rfl | rfl | rfl | rfl | rfl | rfl | rfl | rfl | rfl | rfl | rfl | rfl | rfl | rfl | rfl | rfl | rfl | rfl | rfl | rfl | rfl | rfl | rfl | rfl | rfl | rfl | rfl | rfl | rfl | rfl | rfl | rfl | rfl | rfl | rfl | rfl | rfl | rfl | rfl | rfl | rfl | rfl | rfl | rfl | rfl | rfl | rfl | rfl | rfl | rfl | rfl | rfl | rfl | rfl | rfl | rfl | rfl | rfl | rfl
  all_goals exact ⟨rfl, fun _ => rfl⟩


def isIdentHead (c : Char) : Bool := isAsciiAlpha c || c == '_'
def isIdentTail (d : Char) : Bool := isAsciiAlpha d || isAsciiDigit d || d == '_'

theorem identTail_continue (xt : XidTable) {d : Char} (h : isIdentTail d = true) : isIdentifierContinue xt d = true := by
  have hlt : d.toNat < 128 := by
    simp [isIdentTail, isAsciiAlpha, isAsciiDigit] at h
    rcases h with (h | h) | h
    · omega
    · omega
    · subst h; decide
  have h1 : xidContinue xt d = true := by
    simp only [xidContinue, hlt, ↓reduceIte]
    simp [isIdentTail] at h
    rcases h with (h | h) | h
    · simp [h]
    · simp [h]
    · subst h; decide
  have h2 : isExponentChar d = false := by
    simp [isExponentChar]; omega
  simp [isIdentifierContinue, h1, h2]
  omega

theorem blank_not_continue (xt : XidTable) : isIdentifierContinue xt ' ' = false := by
  simp [isIdentifierContinue, xidContinue, isSubscriptChar, isCurrencyChar, isOtherAllowedIdentifierChar, isAsciiAlpha,
    isAsciiDigit]

set_option linter.unusedSimpArgs false in
theorem ident_scan (xt : XidTable) (last : Option TokKind) (c : Char) (cs follow : List Char)
    (hc : isIdentHead c = true) (hcs : cs.all isIdentTail = true) (hkw : lookupKeyword (c :: cs) = none)
    (hf : follow = [] ∨ ∃ r, follow = ' ' :: r) :
    scanSingleToken xt [] last (c :: cs ++ follow) = .ok ⟨some ⟨.identifier, c :: cs⟩, follow, []⟩ := by
  have key : ∀ d : Char, isIdentHead d = false → (c == d) = false := by
    intro d hd
    apply beq_false_of_ne
    intro hcd; subst hcd; simp [hd] at hc
  have hstart : isIdentifierStart xt c = true := by
    have hlt : c.toNat < 128 := by
      simp [isIdentHead, isAsciiAlpha] at hc
      rcases hc with h | h
      · omega
      · subst h; decide
    simp [isIdentHead] at hc
    rcases hc with h | h
    · simp [isIdentifierStart, xidStart, hlt, h]
    · subst h; simp [isIdentifierStart]
  have hdig : isAsciiDigit c = false := by
    simp [isIdentHead, isAsciiAlpha] at hc
    simp [isAsciiDigit]
    rcases hc with h | h
    · omega
    · subst h; decide
  have hexp : isExponentChar c = false := by
    simp [isIdentHead, isAsciiAlpha] at hc
    simp [isExponentChar]
    rcases hc with h | h
    · omega
    · subst h; decide
  have hspan : spanChars (isIdentifierContinue xt) (cs ++ follow) = (cs, follow) := by
    apply spanChars_append
    · exact List.all_eq_true.mpr (fun d hd => identTail_continue xt (List.all_eq_true.mp hcs d hd))
    · rcases hf with rfl | ⟨r, rfl⟩
      · exact Or.inl rfl
      · exact Or.inr ⟨' ', r, rfl, blank_not_continue xt⟩
  have hdot : (peek1 follow == some '.') = false := by
    rcases hf with rfl | ⟨r, rfl⟩ <;> simp [peek1]
  simp only [scanSingleToken, List.cons_append]
  simp only [scanChar, isInsideInterpolation, key '(' (by decide), key ')' (by decide), key '[' (by decide), key ']' (by decide), key '{' (by decide), key '}' (by decide), key '≤' (by decide), key '<' (by decide), key '≥' (by decide), key '>' (by decide), key '?' (by decide), key '0' (by decide), key '.' (by decide), key ' ' (by decide), key '\t' (by decide), key '\r' (by decide), key '\n' (by decide), key ';' (by decide), key '&' (by decide), key '|' (by decide), key '*' (by decide), key '+' (by decide), key '·' (by decide), key '⋅' (by decide), key '×' (by decide), key '/' (by decide), key '÷' (by decide), key '^' (by decide), key ',' (by decide), key '⩵' (by decide), key '=' (by decide), key '@' (by decide), key '→' (by decide), key '➞' (by decide), key '-' (by decide), key '−' (by decide), key '≠' (by decide), key '!' (by decide), key '⁻' (by decide), key '"' (by decide), key ':' (by decide), key '…' (by decide), key '#' (by decide), hdig, hexp, hstart, hspan, hdot, hkw, emit, Bool.or_false, Bool.or_self,
    Bool.false_eq_true, ↓reduceIte, Bool.and_false, Bool.false_and, Bool.not_true, Bool.and_true,
    Bool.true_and, false_and, and_false, or_self, List.nil_append, List.singleton_append, bne_iff_ne, ne_eq,
    not_false_eq_true, if_false, if_true, reduceCtorEq]


theorem getLast_digit {cs : List Char} (h : cs.all isAsciiDigit = true) : (cs.getLast? == some '_') = false := by
  cases hl : cs.getLast? with
  | none => rfl
  | some d =>
    have hm : d ∈ cs := List.mem_of_getLast? hl
    have hd := List.all_eq_true.mp h d hm
    apply beq_false_of_ne
    intro he; injection he with he; subst he; simp [isAsciiDigit] at hd

set_option linter.unusedSimpArgs false in
theorem number_scan (xt : XidTable) (last : Option TokKind) (c : Char) (cs follow : List Char)
    (hc : isAsciiDigit c = true) (hcs : cs.all isAsciiDigit = true)
    (hf : follow = [] ∨ ∃ r, follow = ' ' :: r) :
    scanSingleToken xt [] last (c :: cs ++ follow) = .ok ⟨some ⟨.number, c :: cs⟩, follow, []⟩ := by
  have key : ∀ d : Char, isAsciiDigit d = false → (c == d) = false := by
    intro d hd
    apply beq_false_of_ne
    intro hcd; subst hcd; simp [hd] at hc
  have hspan : spanChars (fun c => isAsciiDigit c || c == '_') (cs ++ follow) = (cs, follow) := by
    apply spanChars_append
    · exact List.all_eq_true.mpr (fun d hd => by simp [List.all_eq_true.mp hcs d hd])
    · rcases hf with rfl | ⟨r, rfl⟩
      · exact Or.inl rfl
      · exact Or.inr ⟨' ', r, rfl, by decide⟩
  have hbase : (optIs (peek1 (cs ++ follow)) fun d => d == 'x' || d == 'o' || d == 'b') = false := by
    cases cs with
    | nil => rcases hf with rfl | ⟨r, rfl⟩ <;> simp [peek1, optIs]
    | cons d ds =>
      have hd : isAsciiDigit d = true := by simp at hcs; exact hcs.1
      simp only [List.cons_append, peek1, List.head?_cons, optIs]
      have : ∀ x : Char, isAsciiDigit x = false → (d == x) = false := by
        intro x hx; apply beq_false_of_ne; intro hdx; subst hdx; simp [hx] at hd
      simp [this 'x' (by decide), this 'o' (by decide), this 'b' (by decide)]
  have hcsd : consumeStreamOfDigits (cs ++ follow) false false false = .ok (cs, follow) := by
    simp [consumeStreamOfDigits, hspan, getLast_digit hcs]
  simp only [scanSingleToken, List.cons_append, key '#' (by decide), Bool.false_eq_true, ↓reduceIte]
  simp only [scanChar, isInsideInterpolation, key '(' (by decide), key ')' (by decide), key '[' (by decide), key ']' (by decide), key '{' (by decide), key '}' (by decide), key '≤' (by decide), key '<' (by decide), key '≥' (by decide), key '>' (by decide), key '?' (by decide), hbase, hc, hcsd, Bool.and_false, Bool.false_and,
    Bool.false_eq_true, ↓reduceIte, Bool.not_false, Bool.and_true]
  rcases hf with rfl | ⟨r, rfl⟩
  · simp [scientificNotation, emit]
  · simp [scientificNotation, emit, peek2]


/-- scanning one simple token followed by the end of the input or by a blank -/
theorem simple_scan (xt : XidTable) (last : Option TokKind) (t : Token) (h : simpleTok t = true) (follow : List Char)
    (hf : follow = [] ∨ ∃ r, follow = ' ' :: r) :
    t.lexeme ≠ [] ∧ scanSingleToken xt [] last (t.lexeme ++ follow) = .ok ⟨some t, follow, []⟩ := by
  simp only [simpleTok, Bool.or_eq_true, Bool.and_eq_true, beq_iff_eq, List.contains_iff_mem] at h
  rcases h with (hfix | ⟨hk, hid⟩) | ⟨hk, hnum⟩
  · obtain ⟨h1, h2⟩ := fixed_scan xt last t hfix
    constructor
    · intro hnil; rw [hnil] at h1; simp [scanSingleToken] at h1
    · rcases hf with rfl | ⟨r, rfl⟩
      · exact h1
      · exact h2 r
  · obtain ⟨k, lex⟩ := t
    simp only at hk hid ⊢
    subst hk
    cases lex with
    | nil => simp [isSimpleIdent] at hid
    | cons c cs =>
      simp only [isSimpleIdent, Bool.and_eq_true, Option.isNone_iff_eq_none] at hid
      exact ⟨by simp, ident_scan xt last c cs follow hid.1.1 hid.1.2 hid.2 hf⟩
  · obtain ⟨k, lex⟩ := t
    simp only at hk hnum ⊢
    subst hk
    cases lex with
    | nil => simp [isSimpleNumber] at hnum
    | cons c cs =>
      simp only [isSimpleNumber, List.isEmpty_cons, Bool.not_false, Bool.true_and, List.all_cons,
        Bool.and_eq_true] at hnum
      exact ⟨by simp, number_scan xt last c cs follow hnum.1 hnum.2 hf⟩

theorem blank_scan (xt : XidTable) (last : Option TokKind) (r : List Char) :
    scanSingleToken xt [] last (' ' :: r) = .ok ⟨none, r, []⟩ := rfl

theorem scanAll_unlex (xt : XidTable) : ∀ (ts : List Token) (last : Option TokKind) (fuel : Nat),
    (∀ t ∈ ts, simpleTok t = true) → (unlexBlank ts).length + 1 ≤ fuel →
    scanAll xt fuel (unlexBlank ts) [] last = .ok (ts ++ [⟨.eof, []⟩])
  | [], last, fuel, _, hf => by
    obtain ⟨f, rfl⟩ : ∃ f, fuel = f + 1 := ⟨fuel - 1, by omega⟩
    simp [unlexBlank, scanAll]
  | [t], last, fuel, h, hf => by
    obtain ⟨hne, hs⟩ := simple_scan xt last t (h t (by simp)) [] (Or.inl rfl)
    simp only [unlexBlank] at hf ⊢
    obtain ⟨f, rfl⟩ : ∃ f, fuel = f + 2 := ⟨fuel - 2, by
      have : 0 < t.lexeme.length := List.length_pos_iff.mpr hne
      omega⟩
    rw [List.append_nil] at hs
    cases hl : t.lexeme with
    | nil => exact absurd hl hne
    | cons c cs =>
      rw [hl] at hs
      simp [scanAll, hs]
  | t :: u :: rest, last, fuel, h, hf => by
    obtain ⟨hne, hs⟩ := simple_scan xt last t (h t (by simp)) (' ' :: unlexBlank (u :: rest)) (Or.inr ⟨_, rfl⟩)
    have ih := scanAll_unlex xt (u :: rest) (some t.kind)
    simp only [unlexBlank, List.length_append, List.length_cons] at hf ⊢
    have hpos : 0 < t.lexeme.length := List.length_pos_iff.mpr hne
    obtain ⟨f, rfl⟩ : ∃ f, fuel = f + 2 := ⟨fuel - 2, by omega⟩
    have ih' := ih f (fun x hx => h x (by simp [hx])) (by omega)
    cases hl : t.lexeme with
    | nil => exact absurd hl hne
    | cons c cs =>
      rw [hl] at hs
      simp only [List.cons_append] at hs ⊢
      simp only [scanAll, hs, blank_scan]
      simp [ih']

/-- no operator character is an identifier-continue character (for the tokenizer's own classes; the XID table
is only assumed not to contain the character) — the statement the historical range typo `0x2080..=0x209CF`
violated for `→ − ≤ ≥ ≠ ➞ ⩵` -/
theorem operatorChars_not_continue (xt : XidTable) : ∀ c ∈ operatorChars, c.toNat ∉ xt.cont →
    isIdentifierContinue xt c = false := by
  intro c hc hx
  simp only [operatorChars, List.mem_cons, List.mem_nil_iff, or_false] at hc
  rcases hc with rfl | rfl | rfl | rfl | rfl | rfl | rfl | rfl | rfl | rfl | rfl | rfl | rfl | rfl | rfl | rfl | rfl | rfl | rfl | rfl | rfl | rfl | rfl | rfl | rfl | rfl | rfl | rfl | rfl | rfl | rfl | rfl | rfl | rfl | rfl | rfl | rfl | rfl | rfl
  all_goals
    simp only [isIdentifierContinue, xidContinue, isSubscriptChar, isCurrencyChar, isOtherAllowedIdentifierChar,
      isExponentChar, isAsciiAlpha, isAsciiDigit]
    simp_all

end NumbatModel.Syntax
