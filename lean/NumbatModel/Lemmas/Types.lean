import NumbatModel.Model.Types
/-!
# Semantics of dimension types and helper lemmas for C02 / C16

A valuation `θ : TV → Vec` gives every type variable an exponent vector over base-dimension names
(`Vec = String → Rat`).  A type parameter `D` is read through the variable `named "D"` — exactly how
`ApplySubstitution` looks it up.  `dVal θ d` is the exponent vector of a factor list, `tyVal θ t` of a type
of the dimension fragment (`TVar`, `TPar`, `Dimension`).

The lemmas say that everything `DType` does (sorting, merging, dropping zeros, multiply, power, inverse,
divide) and everything `ApplySubstitution` does is invisible to `dVal`, i.e. that the canonical factor lists
are a faithful representation of exponent vectors.
-/
namespace NumbatModel.Types

/-- the axes of an exponent vector: base dimensions, and one generic axis per type parameter name (only used
by valuations that keep type parameters rigid) -/
inductive Axis where
  | base (n : String)
  | tpar (n : String)
  deriving DecidableEq, Repr

abbrev Vec := Axis → Rat
abbrev Val := TV → Vec

def unitVec (n : Axis) : Vec := fun m => if m = n then 1 else 0

def factorVal (θ : Val) : DFactor → Vec
  | .tvar v => θ v
  | .tpar n => θ (.named n)
  | .base n => unitVec (.base n)

/-- exponent of base dimension `a` in the factor list under `θ` -/
def dValAt (θ : Val) (a : Axis) : Factors → Rat
  | [] => 0
  | p :: rest => p.2 * factorVal θ p.1 a + dValAt θ a rest

def dVal (θ : Val) (d : Factors) : Vec := fun a => dValAt θ a d

def tyVal (θ : Val) : Ty → Vec
  | .tvar v => θ v
  | .tpar n => θ (.named n)
  | .dim d => dVal θ d
  | _ => fun _ => 0

/-! ### `dValAt` is additive, permutation invariant, and blind to canonicalisation -/

theorem dValAt_append (θ : Val) (a : Axis) (x y : Factors) :
    dValAt θ a (x ++ y) = dValAt θ a x + dValAt θ a y := by
  induction x with
  | nil => simp only [List.nil_append, dValAt]; grind
  | cons p rest ih => simp only [List.cons_append, dValAt, ih]; grind

theorem dValAt_perm (θ : Val) (a : Axis) {x y : Factors} (h : x.Perm y) :
    dValAt θ a x = dValAt θ a y := by
  induction h with
  | nil => rfl
  | cons p _ ih => simp only [dValAt, ih]
  | swap p q l => simp only [dValAt]; grind
  | trans _ _ ih1 ih2 => exact ih1.trans ih2

theorem dValAt_sort (θ : Val) (a : Axis) (x : Factors) :
    dValAt θ a (sortFactors x) = dValAt θ a x :=
  dValAt_perm θ a (List.mergeSort_perm x factorLe)

theorem dValAt_mergeGo (θ : Val) (a : Axis) (f : DFactor) (n : Rat) (x : Factors) :
    dValAt θ a (mergeGo f n x) = n * factorVal θ f a + dValAt θ a x := by
  induction x generalizing f n with
  | nil => simp [mergeGo, dValAt]
  | cons p rest ih =>
    obtain ⟨g, m⟩ := p
    simp only [mergeGo]
    split
    · rename_i h; subst h; rw [ih]; simp only [dValAt]; grind
    · simp only [dValAt, ih]

theorem dValAt_mergeAdj (θ : Val) (a : Axis) (x : Factors) :
    dValAt θ a (mergeAdj x) = dValAt θ a x := by
  cases x with
  | nil => rfl
  | cons p rest => obtain ⟨f, n⟩ := p; simp only [mergeAdj, dValAt_mergeGo, dValAt]

theorem dValAt_dropZeros (θ : Val) (a : Axis) (x : Factors) :
    dValAt θ a (dropZeros x) = dValAt θ a x := by
  induction x with
  | nil => rfl
  | cons p rest ih =>
    simp only [dropZeros, List.filter_cons]
    split
    · simp only [dValAt]; rw [← ih]; rfl
    · rename_i h
      have h0 : p.2 = 0 := by simpa using h
      simp only [dValAt, h0]; rw [← ih]; simp only [dropZeros]; grind

theorem dValAt_canon (θ : Val) (a : Axis) (x : Factors) :
    dValAt θ a (canon x) = dValAt θ a x := by
  simp only [canon, dValAt_dropZeros, dValAt_mergeAdj, dValAt_sort]

theorem dValAt_scale (θ : Val) (a : Axis) (n : Rat) (x : Factors) :
    dValAt θ a (x.map (fun p => (p.1, n * p.2))) = n * dValAt θ a x := by
  induction x with
  | nil => simp [dValAt]
  | cons p rest ih => simp only [List.map_cons, dValAt, ih]; grind

theorem dValAt_dmul (θ : Val) (a : Axis) (x y : Factors) :
    dValAt θ a (dmul x y) = dValAt θ a x + dValAt θ a y := by
  simp only [dmul, dValAt_canon, dValAt_append]

theorem dValAt_dpow (θ : Val) (a : Axis) (x : Factors) (n : Rat) :
    dValAt θ a (dpow x n) = n * dValAt θ a x := by
  simp only [dpow, dValAt_canon, dValAt_scale]

theorem dValAt_dinv (θ : Val) (a : Axis) (x : Factors) :
    dValAt θ a (dinv x) = - dValAt θ a x := by
  simp only [dinv, dValAt_dpow]; grind

theorem dValAt_ddiv (θ : Val) (a : Axis) (x y : Factors) :
    dValAt θ a (ddiv x y) = dValAt θ a x - dValAt θ a y := by
  simp only [ddiv, dValAt_dmul, dValAt_dinv]; grind

theorem dValAt_dOfTVar (θ : Val) (a : Axis) (v : TV) : dValAt θ a (dOfTVar v) = θ v a := by
  simp only [dOfTVar, dValAt_canon, dValAt, factorVal]; grind

theorem dValAt_dOfTPar (θ : Val) (a : Axis) (n : String) : dValAt θ a (dOfTPar n) = θ (.named n) a := by
  simp only [dOfTPar, dValAt_canon, dValAt, factorVal]; grind

theorem dVal_canon (θ : Val) (x : Factors) : dVal θ (canon x) = dVal θ x := by
  funext a; exact dValAt_canon θ a x

theorem singleTVar_eq {d : Factors} {v : TV} (h : singleTVar d = some v) : d = [(.tvar v, 1)] := by
  unfold singleTVar at h
  split at h
  · rename_i w e
    split at h
    · rename_i he; subst he; simp at h; subst h; rfl
    · simp at h
  · simp at h

theorem dVal_single (θ : Val) {d : Factors} {v : TV} (h : singleTVar d = some v) : dVal θ d = θ v := by
  funext a
  rw [singleTVar_eq h]
  simp only [dVal, dValAt, factorVal]; grind

/-! ## the dimension fragment: satisfaction, substitutions as valuations -/

def Ty.isTD : Ty → Bool
  | .tvar _ => true
  | .dim _ => true
  | _ => false

def Ty.isTPar : Ty → Bool
  | .tpar _ => true
  | _ => false

/-- constraints of the dimension fragment: equalities between type variables and dimension types,
`IsDType` of those or of a type parameter, `EqualScalar` -/
def Constraint.dimOnly : Constraint → Bool
  | .equal a b => a.isTD && b.isTD
  | .isDType t => t.isTD || t.isTPar
  | .equalScalar _ => true

def Subst.dimOnly (s : Subst) : Bool := s.all (fun p => p.2.isTD)

def zeroVec : Vec := fun _ => 0

/-- `θ` satisfies the constraint (dimension fragment; every variable denotes a dimension, so `IsDType` holds) -/
def Holds (θ : Val) : Constraint → Prop
  | .equal a b => tyVal θ a = tyVal θ b
  | .isDType _ => True
  | .equalScalar d => dVal θ d = zeroVec

def HoldsAll (θ : Val) (cs : List Constraint) : Prop := ∀ c ∈ cs, Holds θ c

/-- `θ` factors through the substitution: every binding `v := t` is an equation `θ` satisfies -/
def Ext (θ : Val) (s : Subst) : Prop := ∀ p ∈ s, θ p.1 = tyVal θ p.2

theorem lookup_mem {s : Subst} {v : TV} {t : Ty} (h : s.lookup v = some t) : (v, t) ∈ s := by
  unfold Subst.lookup at h
  split at h
  · rename_i p hp
    simp at h
    have hm := List.mem_of_find?_eq_some hp
    have hv := List.find?_some hp
    simp at hv
    subst h; subst hv
    exact hm
  · simp at h

theorem Ext.lookup {θ : Val} {s : Subst} (he : Ext θ s) {v : TV} {t : Ty} (h : s.lookup v = some t) :
    θ v = tyVal θ t := he _ (lookup_mem h)

theorem dimOnly_lookup {s : Subst} (hs : s.dimOnly = true) {v : TV} {t : Ty} (h : s.lookup v = some t) :
    t.isTD = true := by
  have := lookup_mem h
  unfold Subst.dimOnly at hs
  rw [List.all_eq_true] at hs
  exact hs _ this

theorem dApplyStep_ok (θ : Val) {s : Subst} (he : Ext θ s) (hs : s.dimOnly = true)
    (acc : Factors) (p : DFactor × Rat) :
    ∃ acc', dApplyStep s acc p = .ok acc' ∧ ∀ a, dValAt θ a acc' = dValAt θ a acc := by
  obtain ⟨f, e⟩ := p
  cases f with
  | tvar tv =>
    simp only [dApplyStep]
    cases hl : s.lookup tv with
    | none => exact ⟨acc, rfl, fun _ => rfl⟩
    | some t =>
      have htd := dimOnly_lookup hs hl
      have hv := he.lookup hl
      cases t with
      | tvar w =>
        refine ⟨_, rfl, fun a => ?_⟩
        simp only [dValAt_dmul, dValAt_ddiv, dValAt_dpow, dValAt_dOfTVar]
        have : θ tv a = θ w a := by rw [hv]; rfl
        grind
      | dim dt =>
        refine ⟨_, rfl, fun a => ?_⟩
        simp only [dValAt_dmul, dValAt_ddiv, dValAt_dpow, dValAt_dOfTVar]
        have : θ tv a = dValAt θ a dt := by rw [hv]; rfl
        grind
      | tpar _ => simp [Ty.isTD] at htd
      | bool => simp [Ty.isTD] at htd
      | string => simp [Ty.isTD] at htd
      | datetime => simp [Ty.isTD] at htd
      | fn _ _ => simp [Ty.isTD] at htd
      | list _ => simp [Ty.isTD] at htd
  | tpar n =>
    simp only [dApplyStep]
    cases hl : s.lookup (.named n) with
    | none => exact ⟨acc, rfl, fun _ => rfl⟩
    | some t =>
      have htd := dimOnly_lookup hs hl
      have hv := he.lookup hl
      cases t with
      | tvar w =>
        refine ⟨_, rfl, fun a => ?_⟩
        simp only [dValAt_dmul, dValAt_ddiv, dValAt_dpow, dValAt_dOfTVar, dValAt_dOfTPar]
        have : θ (.named n) a = θ w a := by rw [hv]; rfl
        grind
      | dim dt =>
        refine ⟨_, rfl, fun a => ?_⟩
        simp only [dValAt_dmul, dValAt_ddiv, dValAt_dpow, dValAt_dOfTPar]
        have : θ (.named n) a = dValAt θ a dt := by rw [hv]; rfl
        grind
      | tpar _ => simp [Ty.isTD] at htd
      | bool => simp [Ty.isTD] at htd
      | string => simp [Ty.isTD] at htd
      | datetime => simp [Ty.isTD] at htd
      | fn _ _ => simp [Ty.isTD] at htd
      | list _ => simp [Ty.isTD] at htd
  | base n => exact ⟨acc, rfl, fun _ => rfl⟩

theorem dApplyLoop_ok (θ : Val) {s : Subst} (he : Ext θ s) (hs : s.dimOnly = true)
    (ps acc : Factors) :
    ∃ acc', dApplyLoop s acc ps = .ok acc' ∧ ∀ a, dValAt θ a acc' = dValAt θ a acc := by
  induction ps generalizing acc with
  | nil => exact ⟨acc, rfl, fun _ => rfl⟩
  | cons p rest ih =>
    obtain ⟨acc1, h1, hv1⟩ := dApplyStep_ok θ he hs acc p
    obtain ⟨acc2, h2, hv2⟩ := ih acc1
    refine ⟨acc2, ?_, fun a => (hv2 a).trans (hv1 a)⟩
    simp only [dApplyLoop, h1, h2]

/-- substitution lemma for factor lists -/
theorem dApply_ok (θ : Val) {s : Subst} (he : Ext θ s) (hs : s.dimOnly = true) (d : Factors) :
    ∃ d', dApply s d = .ok d' ∧ dVal θ d' = dVal θ d := by
  obtain ⟨d', h, hv⟩ := dApplyLoop_ok θ he hs d d
  exact ⟨d', h, funext hv⟩

/-- substitution lemma for types of the dimension fragment -/
theorem Ty.apply_ok (θ : Val) {s : Subst} (he : Ext θ s) (hs : s.dimOnly = true) {t : Ty}
    (ht : t.isTD = true) :
    ∃ t', t.apply s = .ok t' ∧ t'.isTD = true ∧ tyVal θ t' = tyVal θ t := by
  cases t with
  | tvar v =>
    simp only [Ty.apply]
    cases hl : s.lookup v with
    | none => exact ⟨_, rfl, rfl, rfl⟩
    | some t' => exact ⟨t', rfl, dimOnly_lookup hs hl, (he.lookup hl).symm⟩
  | dim d =>
    simp only [Ty.apply]
    cases hsv : singleTVar d with
    | some v =>
      cases hl : s.lookup v with
      | none => exact ⟨_, by simp only [hl], rfl, rfl⟩
      | some t' =>
        refine ⟨t', by simp only [hl], dimOnly_lookup hs hl, ?_⟩
        simp only [tyVal, dVal_single θ hsv]
        exact (he.lookup hl).symm
    | none =>
      obtain ⟨d', h, hv⟩ := dApply_ok θ he hs d
      refine ⟨.dim d', ?_, rfl, hv⟩
      simp only [h]
  | tpar _ => simp [Ty.isTD] at ht
  | bool => simp [Ty.isTD] at ht
  | string => simp [Ty.isTD] at ht
  | datetime => simp [Ty.isTD] at ht
  | fn _ _ => simp [Ty.isTD] at ht
  | list _ => simp [Ty.isTD] at ht

theorem Constraint.apply_ok (θ : Val) {s : Subst} (he : Ext θ s) (hs : s.dimOnly = true) {c : Constraint}
    (hc : c.dimOnly = true) :
    ∃ c', c.apply s = .ok c' ∧ c'.dimOnly = true ∧ (Holds θ c' ↔ Holds θ c) := by
  cases c with
  | equal a b =>
    simp only [Constraint.dimOnly, Bool.and_eq_true] at hc
    obtain ⟨a', ha, hta, hva⟩ := Ty.apply_ok θ he hs hc.1
    obtain ⟨b', hb, htb, hvb⟩ := Ty.apply_ok θ he hs hc.2
    refine ⟨.equal a' b', ?_, ?_, ?_⟩
    · simp only [Constraint.apply, ha, hb]
    · simp only [Constraint.dimOnly, hta, htb, Bool.and_self]
    · simp only [Holds, hva, hvb]
  | isDType t =>
    simp only [Constraint.dimOnly, Bool.or_eq_true] at hc
    cases hc with
    | inl htd =>
      obtain ⟨t', ht, htt, _⟩ := Ty.apply_ok θ he hs htd
      refine ⟨.isDType t', ?_, ?_, by simp [Holds]⟩
      · simp only [Constraint.apply, ht]
      · simp only [Constraint.dimOnly, htt, Bool.true_or]
    | inr htp =>
      cases t with
      | tpar n =>
        cases hl : s.lookup (.named n) with
        | none =>
          refine ⟨.isDType (.tpar n), ?_, ?_, by simp [Holds]⟩
          · simp only [Constraint.apply, Ty.apply, hl]
          · simp [Constraint.dimOnly, Ty.isTPar]
        | some t' =>
          refine ⟨.isDType t', ?_, ?_, by simp [Holds]⟩
          · simp only [Constraint.apply, Ty.apply, hl]
          · simp [Constraint.dimOnly, dimOnly_lookup hs hl]
      | tvar _ => simp [Ty.isTPar] at htp
      | dim _ => simp [Ty.isTPar] at htp
      | bool => simp [Ty.isTPar] at htp
      | string => simp [Ty.isTPar] at htp
      | datetime => simp [Ty.isTPar] at htp
      | fn _ _ => simp [Ty.isTPar] at htp
      | list _ => simp [Ty.isTPar] at htp
  | equalScalar d =>
    obtain ⟨d', h, hv⟩ := dApply_ok θ he hs d
    refine ⟨.equalScalar d', ?_, rfl, ?_⟩
    · simp only [Constraint.apply, h]
    · simp only [Holds, hv]

theorem applyAll_ok (θ : Val) {s : Subst} (he : Ext θ s) (hs : s.dimOnly = true) (cs : List Constraint)
    (hc : ∀ c ∈ cs, c.dimOnly = true) :
    ∃ cs', applyAll s cs = .ok cs' ∧ (∀ c ∈ cs', c.dimOnly = true) ∧ (HoldsAll θ cs' ↔ HoldsAll θ cs) := by
  induction cs with
  | nil => exact ⟨[], rfl, by simp, Iff.rfl⟩
  | cons c rest ih =>
    obtain ⟨c', h1, hd1, hh1⟩ := Constraint.apply_ok θ he hs (hc c (by simp))
    obtain ⟨rest', h2, hd2, hh2⟩ := ih (fun x hx => hc x (by simp [hx]))
    refine ⟨c' :: rest', ?_, ?_, ?_⟩
    · simp only [applyAll, h1, h2]
    · intro x hx
      simp at hx
      cases hx with
      | inl h => subst h; exact hd1
      | inr h => exact hd2 x h
    · simp only [HoldsAll, List.mem_cons, forall_eq_or_imp] at *
      rw [hh1, hh2]

/-! ## one `try_satisfy` step preserves the solutions -/

theorem Ty.beq_val (θ : Val) {a b : Ty} (ha : a.isTD = true) (hb : b.isTD = true) (h : a.beq b = true) :
    tyVal θ a = tyVal θ b := by
  cases a <;> cases b <;> simp [Ty.isTD] at ha hb <;> simp [Ty.beq] at h
  · subst h; rfl
  · subst h; rfl

theorem dValAt_gauss (θ : Val) (a : Axis) (k : Rat) (_hk : k ≠ 0) (x : Factors) :
    dValAt θ a (x.map (fun p => (p.1, -p.2 / k))) = - dValAt θ a x / k := by
  induction x with
  | nil => simp only [List.map_nil, dValAt]; grind
  | cons p rest ih => simp only [List.map_cons, dValAt, ih]; grind

theorem holds_nil (θ : Val) : HoldsAll θ [] := by intro c hc; simp at hc
theorem ext_nil (θ : Val) : Ext θ [] := by intro p hp; simp at hp

theorem holdsAll_single (θ : Val) (c : Constraint) : HoldsAll θ [c] ↔ Holds θ c := by
  simp [HoldsAll]

theorem ext_single (θ : Val) (v : TV) (t : Ty) : Ext θ [(v, t)] ↔ θ v = tyVal θ t := by
  simp [Ext]

/-- statement of "the step preserves the solutions" for one constraint -/
def StepOK (θ : Val) (c : Constraint) (s : Subst) (new : List Constraint) : Prop :=
  s.dimOnly = true ∧ (∀ c' ∈ new, c'.dimOnly = true) ∧ (Holds θ c ↔ (HoldsAll θ new ∧ Ext θ s))

theorem stepOK_trivial (θ : Val) {c : Constraint} (h : Holds θ c) : StepOK θ c [] [] :=
  ⟨rfl, by simp, ⟨fun _ => ⟨holds_nil θ, ext_nil θ⟩, fun _ => h⟩⟩

theorem satVarDim_ok (θ : Val) (x : TV) {t : Ty} (ht : t.isTD = true) {s : Subst} {new : List Constraint}
    (h : satVarDim x t = .some s new) :
    s.dimOnly = true ∧ (∀ c' ∈ new, c'.dimOnly = true) ∧
      (θ x = tyVal θ t ↔ (HoldsAll θ new ∧ Ext θ s)) := by
  cases t with
  | dim dx =>
    have hnew : ∀ θ : Val, HoldsAll θ [Constraint.equal (.dim (dOfTVar x)) (.dim dx)] ↔ θ x = tyVal θ (.dim dx) := by
      intro θ
      rw [holdsAll_single]
      simp only [Holds, tyVal]
      have : dVal θ (dOfTVar x) = θ x := by funext a; exact dValAt_dOfTVar θ a x
      rw [this]
    simp only [satVarDim] at h
    split at h
    · rename_i y hy
      split at h
      · injection h with hs hn; subst hs; subst hn
        refine ⟨by simp [Subst.dimOnly, Ty.isTD], by simp, ?_⟩
        rw [ext_single]
        simp only [tyVal, dVal_single θ hy]
        constructor
        · intro h; exact ⟨holds_nil θ, h.symm⟩
        · intro h; exact h.2.symm
      · injection h with hs hn; subst hs; subst hn
        refine ⟨rfl, by simp [Constraint.dimOnly, Ty.isTD], ?_⟩
        rw [hnew]
        exact ⟨fun h => ⟨h, ext_nil θ⟩, fun h => h.1⟩
    · injection h with hs hn; subst hs; subst hn
      refine ⟨rfl, by simp [Constraint.dimOnly, Ty.isTD], ?_⟩
      rw [hnew]
      exact ⟨fun h => ⟨h, ext_nil θ⟩, fun h => h.1⟩
  | tvar _ => simp [satVarDim] at h
  | tpar _ => simp [Ty.isTD] at ht
  | bool => simp [Ty.isTD] at ht
  | string => simp [Ty.isTD] at ht
  | datetime => simp [Ty.isTD] at ht
  | fn _ _ => simp [Ty.isTD] at ht
  | list _ => simp [Ty.isTD] at ht

theorem satVar_ok (θ : Val) (x : TV) {t : Ty} (ht : t.isTD = true) {s : Subst} {new : List Constraint}
    (h : satVar x t = .some s new) :
    s.dimOnly = true ∧ (∀ c' ∈ new, c'.dimOnly = true) ∧
      (θ x = tyVal θ t ↔ (HoldsAll θ new ∧ Ext θ s)) := by
  simp only [satVar] at h
  split at h
  · injection h with hs hn; subst hs; subst hn
    refine ⟨by simp [Subst.dimOnly, ht], by simp, ?_⟩
    rw [ext_single]
    exact ⟨fun h => ⟨holds_nil θ, h⟩, fun h => h.2⟩
  · exact satVarDim_ok θ x ht h

theorem freeSingle_some {d : Factors} {t : Ty} {x : TV} (h : freeSingle d t = some x) :
    singleTVar d = some x := by
  simp only [freeSingle] at h
  split at h
  · rename_i y hy
    split at h
    · injection h with h; subst h; exact hy
    · simp at h
  · simp at h

theorem satDimLeft_ok (θ : Val) (d1 : Factors) {t : Ty} (ht : t.isTD = true) {s : Subst}
    {new : List Constraint} (h : satDimLeft d1 t = .some s new) :
    s.dimOnly = true ∧ (∀ c' ∈ new, c'.dimOnly = true) ∧
      (dVal θ d1 = tyVal θ t ↔ (HoldsAll θ new ∧ Ext θ s)) := by
  simp only [satDimLeft] at h
  split at h
  · rename_i x hx
    injection h with hs hn; subst hs; subst hn
    refine ⟨by simp [Subst.dimOnly, ht], by simp, ?_⟩
    rw [ext_single, dVal_single θ (freeSingle_some hx)]
    exact ⟨fun h => ⟨holds_nil θ, h⟩, fun h => h.2⟩
  · split at h
    · rename_i d2
      split at h
      · rename_i y hy
        injection h with hs hn; subst hs; subst hn
        refine ⟨by simp [Subst.dimOnly, Ty.isTD], by simp, ?_⟩
        rw [ext_single]
        simp only [tyVal, dVal_single θ (freeSingle_some hy)]
        exact ⟨fun h => ⟨holds_nil θ, h.symm⟩, fun h => h.2.symm⟩
      · injection h with hs hn; subst hs; subst hn
        refine ⟨rfl, by simp [Constraint.dimOnly], ?_⟩
        rw [holdsAll_single]
        simp only [Holds, tyVal]
        constructor
        · intro h
          refine ⟨?_, ext_nil θ⟩
          funext a
          simp only [dVal, dValAt_ddiv, zeroVec]
          have := congrFun h a
          simp only [dVal] at this
          grind
        · intro h
          funext a
          have := congrFun h.1 a
          simp only [dVal, dValAt_ddiv, zeroVec] at this
          simp only [dVal]
          grind
    · simp at h

theorem trySatisfy_ok (θ : Val) {c : Constraint} (hc : c.dimOnly = true) {s : Subst}
    {new : List Constraint} (h : c.trySatisfy = .some s new) : StepOK θ c s new := by
  cases c with
  | equal t1 t2 =>
    simp only [Constraint.dimOnly, Bool.and_eq_true] at hc
    obtain ⟨h1, h2⟩ := hc
    simp only [Constraint.trySatisfy, satEqual] at h
    split at h
    · rename_i hb
      injection h with hs hn; subst hs; subst hn
      exact stepOK_trivial θ (Ty.beq_val θ h1 h2 hb)
    · cases t1 with
      | tvar x =>
        simp only at h
        exact satVar_ok θ x h2 h
      | dim d1 =>
        cases t2 with
        | tvar x =>
          simp only at h
          have := satVar_ok θ x h1 h
          refine ⟨this.1, this.2.1, ?_⟩
          rw [← this.2.2]
          simp only [Holds]
          exact ⟨fun h => h.symm, fun h => h.symm⟩
        | dim d2 =>
          simp only at h
          exact satDimLeft_ok θ d1 h2 h
        | tpar _ => simp [Ty.isTD] at h2
        | bool => simp [Ty.isTD] at h2
        | string => simp [Ty.isTD] at h2
        | datetime => simp [Ty.isTD] at h2
        | fn _ _ => simp [Ty.isTD] at h2
        | list _ => simp [Ty.isTD] at h2
      | tpar _ => simp [Ty.isTD] at h1
      | bool => simp [Ty.isTD] at h1
      | string => simp [Ty.isTD] at h1
      | datetime => simp [Ty.isTD] at h1
      | fn _ _ => simp [Ty.isTD] at h1
      | list _ => simp [Ty.isTD] at h1
  | isDType t =>
    cases t with
    | dim inner =>
      simp only [Constraint.trySatisfy] at h
      injection h with hs hn; subst hs; subst hn
      refine ⟨rfl, ?_, ?_⟩
      · intro c' hc'
        simp at hc'
        obtain ⟨v, _, hv⟩ := hc'
        subst hv
        simp [Constraint.dimOnly, Ty.isTD]
      · simp only [Holds, true_iff]
        refine ⟨?_, ext_nil θ⟩
        intro c' hc'
        simp at hc'
        obtain ⟨v, _, hv⟩ := hc'
        subst hv
        simp [Holds]
    | tvar _ => simp [Constraint.trySatisfy] at h
    | tpar _ => simp [Constraint.trySatisfy] at h
    | bool => simp [Constraint.trySatisfy] at h
    | string => simp [Constraint.trySatisfy] at h
    | datetime => simp [Constraint.trySatisfy] at h
    | fn _ _ => simp [Constraint.trySatisfy] at h
    | list _ => simp [Constraint.trySatisfy] at h
  | equalScalar d =>
    simp only [Constraint.trySatisfy] at h
    split at h
    · rename_i hd
      injection h with hs hn; subst hs; subst hn
      have : d = [] := by simpa using hd
      subst this
      exact stepOK_trivial θ (by simp only [Holds]; funext a; rfl)
    · split at h
      · rename_i tv k rest _
        simp only [gaussStep] at h
        split at h
        · simp at h
        · rename_i hk
          injection h with hs hn; subst hs; subst hn
          refine ⟨by simp [Subst.dimOnly, Ty.isTD], by simp, ?_⟩
          rw [ext_single]
          simp only [Holds, tyVal]
          constructor
          · intro h
            refine ⟨holds_nil θ, ?_⟩
            funext a
            have := congrFun h a
            simp only [dVal, dValAt, factorVal, zeroVec] at this
            simp only [dVal, dValAt_canon, dValAt_gauss θ a k hk]
            grind
          · intro h
            funext a
            have := congrFun h.2 a
            simp only [dVal, dValAt_canon, dValAt_gauss θ a k hk] at this
            simp only [dVal, dValAt, factorVal, zeroVec]
            grind
      · simp at h

/-! ## the dimension fragment is closed under substitution (no valuation involved) -/

theorem Ty.apply_isTD {s : Subst} (hs : s.dimOnly = true) {t t' : Ty} (ht : t.isTD = true)
    (h : t.apply s = .ok t') : t'.isTD = true := by
  cases t with
  | tvar v =>
    simp only [Ty.apply] at h
    cases hl : s.lookup v with
    | none => rw [hl] at h; injection h with h; subst h; rfl
    | some u => rw [hl] at h; injection h with h; subst h; exact dimOnly_lookup hs hl
  | dim d =>
    simp only [Ty.apply] at h
    cases hsv : singleTVar d with
    | some v =>
      rw [hsv] at h
      simp only at h
      cases hl : s.lookup v with
      | none => rw [hl] at h; injection h with h; subst h; rfl
      | some u => rw [hl] at h; injection h with h; subst h; exact dimOnly_lookup hs hl
    | none =>
      rw [hsv] at h
      simp only at h
      split at h
      · injection h with h; subst h; rfl
      · simp at h
  | tpar _ => simp [Ty.isTD] at ht
  | bool => simp [Ty.isTD] at ht
  | string => simp [Ty.isTD] at ht
  | datetime => simp [Ty.isTD] at ht
  | fn _ _ => simp [Ty.isTD] at ht
  | list _ => simp [Ty.isTD] at ht

theorem Constraint.apply_dimOnly {s : Subst} (hs : s.dimOnly = true) {c c' : Constraint}
    (hc : c.dimOnly = true) (h : c.apply s = .ok c') : c'.dimOnly = true := by
  cases c with
  | equal a b =>
    simp only [Constraint.dimOnly, Bool.and_eq_true] at hc
    simp only [Constraint.apply] at h
    split at h
    · simp at h
    · rename_i a' ha
      split at h
      · simp at h
      · rename_i b' hb
        injection h with h; subst h
        simp only [Constraint.dimOnly, Ty.apply_isTD hs hc.1 ha, Ty.apply_isTD hs hc.2 hb, Bool.and_self]
  | isDType t =>
    simp only [Constraint.dimOnly, Bool.or_eq_true] at hc
    simp only [Constraint.apply] at h
    split at h
    · simp at h
    · rename_i t' ht
      injection h with h; subst h
      cases hc with
      | inl htd => simp only [Constraint.dimOnly, Ty.apply_isTD hs htd ht, Bool.true_or]
      | inr htp =>
        cases t with
        | tpar n =>
          simp only [Ty.apply] at ht
          cases hl : s.lookup (.named n) with
          | none => rw [hl] at ht; injection ht with ht; subst ht; simp [Constraint.dimOnly, Ty.isTPar]
          | some u =>
            rw [hl] at ht; injection ht with ht; subst ht
            simp [Constraint.dimOnly, dimOnly_lookup hs hl]
        | tvar _ => simp [Ty.isTPar] at htp
        | dim _ => simp [Ty.isTPar] at htp
        | bool => simp [Ty.isTPar] at htp
        | string => simp [Ty.isTPar] at htp
        | datetime => simp [Ty.isTPar] at htp
        | fn _ _ => simp [Ty.isTPar] at htp
        | list _ => simp [Ty.isTPar] at htp
  | equalScalar d =>
    simp only [Constraint.apply] at h
    split at h
    · simp at h
    · injection h with h; subst h; rfl

theorem applyAll_dimOnly {s : Subst} (hs : s.dimOnly = true) {cs cs' : List Constraint}
    (hc : ∀ c ∈ cs, c.dimOnly = true) (h : applyAll s cs = .ok cs') : ∀ c ∈ cs', c.dimOnly = true := by
  induction cs generalizing cs' with
  | nil => simp only [applyAll] at h; injection h with h; subst h; simp
  | cons c rest ih =>
    simp only [applyAll] at h
    split at h
    · simp at h
    · rename_i c' hc'
      split at h
      · simp at h
      · rename_i rest' hr
        injection h with h; subst h
        intro x hx
        simp at hx
        cases hx with
        | inl hx => subst hx; exact Constraint.apply_dimOnly hs (hc c (by simp)) hc'
        | inr hx => exact ih (fun y hy => hc y (by simp [hy])) hr x hx

theorem extend_dimOnly {s1 : Subst} (hs1 : s1.dimOnly = true) {σ σ' : Subst} (hσ : σ.dimOnly = true)
    (h : σ.extend s1 = .ok σ') : σ'.dimOnly = true := by
  induction σ generalizing σ' with
  | nil => simp only [Subst.extend] at h; injection h with h; subst h; exact hs1
  | cons q rest ih =>
    obtain ⟨v, t⟩ := q
    have hq : t.isTD = true ∧ Subst.dimOnly rest = true := by
      simpa [Subst.dimOnly] using hσ
    simp only [Subst.extend] at h
    split at h
    · simp at h
    · rename_i t' ht
      split at h
      · simp at h
      · rename_i rest' hr
        injection h with h; subst h
        simp only [Subst.dimOnly, List.all_cons, Ty.apply_isTD hs1 hq.1 ht, Bool.true_and]
        exact ih hq.2 hr

/-! ## the solver loop -/

theorem extend_suffix {σ s1 σ' : Subst} (h : σ.extend s1 = .ok σ') : ∀ p ∈ s1, p ∈ σ' := by
  induction σ generalizing σ' with
  | nil => simp only [Subst.extend] at h; injection h with h; subst h; exact fun _ hp => hp
  | cons q rest ih =>
    obtain ⟨v, t⟩ := q
    simp only [Subst.extend] at h
    split at h
    · simp at h
    · split at h
      · simp at h
      · rename_i rest' hr
        injection h with h; subst h
        intro p hp
        exact List.mem_cons_of_mem _ (ih hr p hp)

theorem extend_ok (θ : Val) {s1 : Subst} (he : Ext θ s1) (hs1 : s1.dimOnly = true) (σ : Subst)
    (hσ : σ.dimOnly = true) :
    ∃ σ', σ.extend s1 = .ok σ' ∧ σ'.dimOnly = true ∧ (Ext θ σ' ↔ Ext θ σ) := by
  induction σ with
  | nil =>
    refine ⟨s1, rfl, hs1, ?_⟩
    exact ⟨fun _ => ext_nil θ, fun _ => he⟩
  | cons q rest ih =>
    obtain ⟨v, t⟩ := q
    have hq : t.isTD = true ∧ Subst.dimOnly rest = true := by
      simpa [Subst.dimOnly] using hσ
    obtain ⟨t', ht, htd, hv⟩ := Ty.apply_ok θ he hs1 hq.1
    obtain ⟨rest', hr, hrd, hre⟩ := ih hq.2
    refine ⟨(v, t') :: rest', ?_, ?_, ?_⟩
    · simp only [Subst.extend, ht, hr]
    · simp only [Subst.dimOnly, List.all_cons, htd, Bool.true_and]; exact hrd
    · simp only [Ext, List.mem_cons, forall_eq_or_imp, hv]
      constructor
      · intro h; exact ⟨h.1, hre.mp h.2⟩
      · intro h; exact ⟨h.1, hre.mpr h.2⟩

theorem extend_ext_of (θ : Val) {s1 : Subst} (he : Ext θ s1) (hs1 : s1.dimOnly = true) {σ σ' : Subst}
    (hσ : σ.dimOnly = true) (h : σ.extend s1 = .ok σ') (hext : Ext θ σ) : Ext θ σ' := by
  induction σ generalizing σ' with
  | nil => simp only [Subst.extend] at h; injection h with h; subst h; exact he
  | cons q rest ih =>
    obtain ⟨v, t⟩ := q
    have hq : t.isTD = true ∧ Subst.dimOnly rest = true := by
      simpa [Subst.dimOnly] using hσ
    obtain ⟨t', ht, _, hv⟩ := Ty.apply_ok θ he hs1 hq.1
    simp only [Subst.extend, ht] at h
    split at h
    · simp at h
    · rename_i rest' hr
      injection h with h; subst h
      have hrest : Ext θ rest := fun p hp => hext p (List.mem_cons_of_mem _ hp)
      have h0 : θ v = tyVal θ t := hext (v, t) (by simp)
      intro p hp
      simp at hp
      cases hp with
      | inl hp => subst hp; simp only; rw [hv]; exact h0
      | inr hp => exact ih hq.2 hr hrest p hp

theorem findFirst_spec {cs : List Constraint} {i j : Nat} {s : Subst} {new : List Constraint}
    (h : findFirst cs i = .at j s new) :
    ∃ c, i ≤ j ∧ cs[j - i]? = some c ∧ c.trySatisfy = .some s new := by
  induction cs generalizing i with
  | nil => simp [findFirst] at h
  | cons c rest ih =>
    simp only [findFirst] at h
    split at h
    · rename_i s' new' hc
      injection h with h1 h2 h3
      subst h1; subst h2; subst h3
      exact ⟨c, Nat.le_refl _, by simp, hc⟩
    · simp at h
    · obtain ⟨c', hle, hget, hsat⟩ := ih h
      refine ⟨c', by omega, ?_, hsat⟩
      have : j - i = (j - (i + 1)) + 1 := by omega
      rw [this]
      simpa using hget

theorem holdsAll_eraseIdx (θ : Val) {cs : List Constraint} {j : Nat} {c : Constraint}
    (h : cs[j]? = some c) : HoldsAll θ cs ↔ (Holds θ c ∧ HoldsAll θ (cs.eraseIdx j)) := by
  induction cs generalizing j with
  | nil => simp at h
  | cons x rest ih =>
    cases j with
    | zero =>
      simp at h; subst h
      simp [HoldsAll]
    | succ k =>
      simp at h
      have := ih h
      simp only [HoldsAll, List.mem_cons, forall_eq_or_imp, List.eraseIdx_cons_succ] at *
      rw [this]
      constructor
      · intro h; exact ⟨h.2.1, h.1, h.2.2⟩
      · intro h; exact ⟨h.2.1, h.1, h.2.2⟩

theorem holdsAll_append (θ : Val) (x y : List Constraint) :
    HoldsAll θ (x ++ y) ↔ (HoldsAll θ x ∧ HoldsAll θ y) := by
  simp only [HoldsAll, List.mem_append]
  constructor
  · intro h; exact ⟨fun c hc => h c (Or.inl hc), fun c hc => h c (Or.inr hc)⟩
  · intro h c hc; cases hc with
    | inl hc => exact h.1 c hc
    | inr hc => exact h.2 c hc

theorem finish_ok_holds (θ : Val) {σ σf : Subst} {cs : List Constraint} {dv : List TV}
    (h : finish σ cs = .ok σf dv) : σf = σ ∧ HoldsAll θ cs := by
  simp only [finish] at h
  split at h
  · rename_i hempty
    injection h with h1 h2
    refine ⟨h1.symm, ?_⟩
    intro c hc
    have : ¬ c.dtypeVar = none := by
      have hf : (cs.filter (fun c => c.dtypeVar.isNone)) = [] := by simpa using hempty
      rw [List.filter_eq_nil_iff] at hf
      simpa using hf c hc
    cases c with
    | isDType t => simp [Holds]
    | equal a b => simp [Constraint.dtypeVar] at this
    | equalScalar d => simp [Constraint.dtypeVar] at this
  · simp at h

/-- what one iteration of the loop does, extracted from a successful run -/
theorem solveLoop_step {fuel : Nat} {cs : List Constraint} {σ : Subst} {r : SolveResult}
    (h : solveLoop (fuel + 1) cs σ = r) :
    (findFirst cs 0 = .none ∧ r = finish σ cs) ∨
    (findFirst cs 0 = .panic ∧ r = .panic) ∨
    (∃ j s1 new, findFirst cs 0 = .at j s1 new ∧
      ((∃ t, applyAll s1 (cs.eraseIdx j ++ new) = .error t ∧ r = .substError t) ∨
       (∃ cs', applyAll s1 (cs.eraseIdx j ++ new) = .ok cs' ∧
          ((∃ t, σ.extend s1 = .error t ∧ r = .substError t) ∨
           (∃ σ', σ.extend s1 = .ok σ' ∧ r = solveLoop fuel cs' σ'))))) := by
  simp only [solveLoop] at h
  split at h
  · exact Or.inl ⟨by assumption, h.symm⟩
  · exact Or.inr (Or.inl ⟨by assumption, h.symm⟩)
  · rename_i j s1 new hf
    refine Or.inr (Or.inr ⟨j, s1, new, hf, ?_⟩)
    split at h
    · rename_i t ht
      exact Or.inl ⟨t, ht, h.symm⟩
    · rename_i cs' hcs
      refine Or.inr ⟨cs', hcs, ?_⟩
      split at h
      · rename_i t ht
        exact Or.inl ⟨t, ht, h.symm⟩
      · rename_i σ' hσ
        exact Or.inr ⟨σ', hσ, h.symm⟩

/-- the facts every successful iteration provides (dimension fragment) -/
theorem step_facts (θ : Val) {cs : List Constraint} (hcs : ∀ c ∈ cs, c.dimOnly = true) {j : Nat} {s1 : Subst} {new : List Constraint}
    (hf : findFirst cs 0 = .at j s1 new) :
    s1.dimOnly = true ∧ (∀ c ∈ cs.eraseIdx j ++ new, c.dimOnly = true) ∧
    (HoldsAll θ cs ↔ (HoldsAll θ (cs.eraseIdx j ++ new) ∧ Ext θ s1)) := by
  obtain ⟨c, _, hget, hsat⟩ := findFirst_spec hf
  simp only [Nat.sub_zero] at hget
  have hcm : c ∈ cs := List.mem_of_getElem? hget
  obtain ⟨hs1, hnew, hiff⟩ := trySatisfy_ok θ (hcs c hcm) hsat
  refine ⟨hs1, ?_, ?_⟩
  · intro x hx
    rw [List.mem_append] at hx
    cases hx with
    | inl hx => exact hcs x (List.mem_of_mem_eraseIdx hx)
    | inr hx => exact hnew x hx
  · rw [holdsAll_eraseIdx θ hget, holdsAll_append, hiff]
    constructor
    · intro h; exact ⟨⟨h.2, h.1.1⟩, h.1.2⟩
    · intro h; exact ⟨⟨h.1.2, h.2⟩, h.1.1⟩

theorem solveLoop_sound (fuel : Nat) : ∀ (cs : List Constraint) (σ : Subst),
    (∀ c ∈ cs, c.dimOnly = true) → σ.dimOnly = true →
    ∀ σf dv, solveLoop fuel cs σ = .ok σf dv → ∀ θ : Val, Ext θ σf → (HoldsAll θ cs ∧ Ext θ σ) := by
  induction fuel with
  | zero => intro cs σ _ _ σf dv h; simp [solveLoop] at h
  | succ fuel ih =>
    intro cs σ hcs hσ σf dv h θ hext
    rcases solveLoop_step h with ⟨_, hr⟩ | ⟨_, hr⟩ | ⟨j, s1, new, hf, hrest⟩
    · obtain ⟨h1, h2⟩ := finish_ok_holds θ hr.symm
      subst h1
      exact ⟨h2, hext⟩
    · simp at hr
    · rcases hrest with ⟨t, _, hr⟩ | ⟨cs', hcs', hrest⟩
      · simp at hr
      · rcases hrest with ⟨_, hr⟩ | ⟨σ', hσ', hr⟩
        · simp at hr
        · obtain ⟨hs1, hdim, hiff⟩ := step_facts θ hcs hf
          -- facts independent of θ need a valuation that extends s1: we get Ext θ s1 from the result
          have hsuf := extend_suffix hσ'
          -- first: dimOnly of cs' and σ' (through any valuation extending s1 — use θ after deriving Ext θ s1)
          -- Ext θ s1 follows once we know Ext θ σ', which the induction hypothesis gives; but the
          -- induction hypothesis needs dimOnly of cs' and σ', which `applyAll_ok`/`extend_ok` give
          -- only under Ext θ s1.  Break the cycle with the syntactic versions below.
          have hcs'd : ∀ c ∈ cs', c.dimOnly = true := applyAll_dimOnly hs1 hdim hcs'
          have hσ'd : σ'.dimOnly = true := extend_dimOnly hs1 hσ hσ'
          obtain ⟨hall', hext'⟩ := ih cs' σ' hcs'd hσ'd σf dv hr.symm θ hext
          have he1 : Ext θ s1 := fun p hp => hext' p (hsuf p hp)
          obtain ⟨σ'', hσ'', _, hσiff⟩ := extend_ok θ he1 hs1 σ hσ
          rw [hσ'] at hσ''; injection hσ'' with hσ''; subst hσ''
          obtain ⟨cs'', hcs'', _, hciff⟩ := applyAll_ok θ he1 hs1 _ hdim
          rw [hcs'] at hcs''; injection hcs'' with hcs''; subst hcs''
          exact ⟨hiff.mpr ⟨hciff.mp hall', he1⟩, hσiff.mp hext'⟩

theorem solveLoop_principal (fuel : Nat) : ∀ (cs : List Constraint) (σ : Subst),
    (∀ c ∈ cs, c.dimOnly = true) → σ.dimOnly = true →
    ∀ σf dv, solveLoop fuel cs σ = .ok σf dv → ∀ θ : Val, HoldsAll θ cs → Ext θ σ → Ext θ σf := by
  induction fuel with
  | zero => intro cs σ _ _ σf dv h; simp [solveLoop] at h
  | succ fuel ih =>
    intro cs σ hcs hσ σf dv h θ hall hext
    rcases solveLoop_step h with ⟨_, hr⟩ | ⟨_, hr⟩ | ⟨j, s1, new, hf, hrest⟩
    · obtain ⟨h1, _⟩ := finish_ok_holds θ hr.symm
      subst h1
      exact hext
    · simp at hr
    · rcases hrest with ⟨t, _, hr⟩ | ⟨cs', hcs', hrest⟩
      · simp at hr
      · rcases hrest with ⟨_, hr⟩ | ⟨σ', hσ', hr⟩
        · simp at hr
        · obtain ⟨hs1, hdim, hiff⟩ := step_facts θ hcs hf
          obtain ⟨hall1, he1⟩ := hiff.mp hall
          obtain ⟨σ'', hσ'', hσ'd, hσiff⟩ := extend_ok θ he1 hs1 σ hσ
          rw [hσ'] at hσ''; injection hσ'' with hσ''; subst hσ''
          obtain ⟨cs'', hcs'', hcs'd, hciff⟩ := applyAll_ok θ he1 hs1 _ hdim
          rw [hcs'] at hcs''; injection hcs'' with hcs''; subst hcs''
          have hσ'ext : Ext θ σ' := by
            intro p hp
            -- σ' = (σ with s1 applied) ++ s1
            exact (extend_ext_of θ he1 hs1 hσ hσ' hext) p hp
          exact ih cs' σ' hcs'd hσ'd σf dv hr.symm θ (hciff.mpr hall1) hσ'ext

/-! ## the general substitution lemma: applying `s` is composing the valuation with `s` -/

/-- the valuation `θ ∘ s` -/
def comp (θ : Val) (s : Subst) : Val := fun v =>
  match s.lookup v with
  | some t => tyVal θ t
  | none => θ v

theorem dApplyStep_comp {s : Subst} (hs : s.dimOnly = true) (acc : Factors) (p : DFactor × Rat) :
    ∃ acc', dApplyStep s acc p = .ok acc' ∧ ∀ (θ : Val) (a : Axis),
      dValAt θ a acc' = dValAt θ a acc + p.2 * (factorVal (comp θ s) p.1 a - factorVal θ p.1 a) := by
  obtain ⟨f, e⟩ := p
  cases f with
  | tvar tv =>
    simp only [dApplyStep]
    cases hl : s.lookup tv with
    | none =>
      refine ⟨acc, rfl, fun θ a => ?_⟩
      simp only [factorVal, comp, hl]; grind
    | some t =>
      have htd := dimOnly_lookup hs hl
      cases t with
      | tvar w =>
        refine ⟨_, rfl, fun θ a => ?_⟩
        simp only [dValAt_dmul, dValAt_ddiv, dValAt_dpow, dValAt_dOfTVar, factorVal, comp, hl, tyVal]
        grind
      | dim dt =>
        refine ⟨_, rfl, fun θ a => ?_⟩
        simp only [dValAt_dmul, dValAt_ddiv, dValAt_dpow, dValAt_dOfTVar, factorVal, comp, hl, tyVal, dVal]
        grind
      | tpar _ => simp [Ty.isTD] at htd
      | bool => simp [Ty.isTD] at htd
      | string => simp [Ty.isTD] at htd
      | datetime => simp [Ty.isTD] at htd
      | fn _ _ => simp [Ty.isTD] at htd
      | list _ => simp [Ty.isTD] at htd
  | tpar n =>
    simp only [dApplyStep]
    cases hl : s.lookup (.named n) with
    | none =>
      refine ⟨acc, rfl, fun θ a => ?_⟩
      simp only [factorVal, comp, hl]; grind
    | some t =>
      have htd := dimOnly_lookup hs hl
      cases t with
      | tvar w =>
        refine ⟨_, rfl, fun θ a => ?_⟩
        simp only [dValAt_dmul, dValAt_ddiv, dValAt_dpow, dValAt_dOfTVar, dValAt_dOfTPar, factorVal, comp, hl, tyVal]
        grind
      | dim dt =>
        refine ⟨_, rfl, fun θ a => ?_⟩
        simp only [dValAt_dmul, dValAt_ddiv, dValAt_dpow, dValAt_dOfTPar, factorVal, comp, hl, tyVal, dVal]
        grind
      | tpar _ => simp [Ty.isTD] at htd
      | bool => simp [Ty.isTD] at htd
      | string => simp [Ty.isTD] at htd
      | datetime => simp [Ty.isTD] at htd
      | fn _ _ => simp [Ty.isTD] at htd
      | list _ => simp [Ty.isTD] at htd
  | base n =>
    refine ⟨acc, rfl, fun θ a => ?_⟩
    simp only [factorVal]; grind

theorem dApplyLoop_comp {s : Subst} (hs : s.dimOnly = true) (ps acc : Factors) :
    ∃ acc', dApplyLoop s acc ps = .ok acc' ∧ ∀ (θ : Val) (a : Axis),
      dValAt θ a acc' = dValAt θ a acc + (dValAt (comp θ s) a ps - dValAt θ a ps) := by
  induction ps generalizing acc with
  | nil => exact ⟨acc, rfl, fun θ a => by simp only [dValAt]; grind⟩
  | cons p rest ih =>
    obtain ⟨acc1, h1, hv1⟩ := dApplyStep_comp hs acc p
    obtain ⟨acc2, h2, hv2⟩ := ih acc1
    refine ⟨acc2, by simp only [dApplyLoop, h1, h2], fun θ a => ?_⟩
    rw [hv2 θ a, hv1 θ a]
    simp only [dValAt]
    grind

theorem dApply_comp {s : Subst} (hs : s.dimOnly = true) (d : Factors) :
    ∃ d', dApply s d = .ok d' ∧ ∀ θ : Val, dVal θ d' = dVal (comp θ s) d := by
  obtain ⟨d', h, hv⟩ := dApplyLoop_comp hs d d
  refine ⟨d', h, fun θ => funext fun a => ?_⟩
  have := hv θ a
  simp only [dVal]
  grind

theorem Ty.apply_comp {s : Subst} (hs : s.dimOnly = true) {t : Ty} (ht : t.isTD = true) :
    ∃ t', t.apply s = .ok t' ∧ t'.isTD = true ∧ ∀ θ : Val, tyVal θ t' = tyVal (comp θ s) t := by
  cases t with
  | tvar v =>
    simp only [Ty.apply]
    cases hl : s.lookup v with
    | none => exact ⟨_, rfl, rfl, fun θ => by simp only [tyVal, comp, hl]⟩
    | some t' => exact ⟨t', rfl, dimOnly_lookup hs hl, fun θ => by simp only [tyVal, comp, hl]⟩
  | dim d =>
    simp only [Ty.apply]
    cases hsv : singleTVar d with
    | some v =>
      cases hl : s.lookup v with
      | none =>
        refine ⟨.dim d, by simp only [hl], rfl, fun θ => ?_⟩
        simp only [tyVal, dVal_single _ hsv, comp, hl]
      | some t' =>
        refine ⟨t', by simp only [hl], dimOnly_lookup hs hl, fun θ => ?_⟩
        simp only [tyVal, dVal_single _ hsv, comp, hl]
    | none =>
      obtain ⟨d', h, hv⟩ := dApply_comp hs d
      exact ⟨.dim d', by simp only [h], rfl, fun θ => hv θ⟩
  | tpar _ => simp [Ty.isTD] at ht
  | bool => simp [Ty.isTD] at ht
  | string => simp [Ty.isTD] at ht
  | datetime => simp [Ty.isTD] at ht
  | fn _ _ => simp [Ty.isTD] at ht
  | list _ => simp [Ty.isTD] at ht

end NumbatModel.Types
