import NumbatModel.Model.Html
/-! Helper lemmas for C20 (`Props/C20.lean`). -/
namespace NumbatModel.Html

/-! ### the escaper -/

theorem escapeOf_cases (b : UInt8) :
    (b = 38 ∧ escapeOf b = some entAmp) ∨ (b = 60 ∧ escapeOf b = some entLt) ∨
    (b = 62 ∧ escapeOf b = some entGt) ∨ (b ≠ 38 ∧ b ≠ 60 ∧ b ≠ 62 ∧ escapeOf b = none) := by
  unfold escapeOf
  by_cases h1 : b = 38
  · subst h1; simp
  · by_cases h2 : b = 60
    · subst h2; simp
    · by_cases h3 : b = 62
      · subst h3; simp
      · simp [h1, h2, h3]

/-- the `Cow` structure of `encode_text` computes the same bytes as the plain loop -/
theorem encodeText_eq (s : Bytes) : encodeText s = encodeToVec s := by
  induction s with
  | nil => simp [encodeText, firstEscapable, encodeToVec]
  | cons b rest ih =>
    unfold encodeText at ih ⊢
    cases hb : escapeOf b with
    | some e => simp [firstEscapable, encodeToVec, hb]
    | none =>
      cases hf : firstEscapable rest with
      | none =>
        simp only [hf] at ih
        simp [firstEscapable, encodeToVec, hb, hf, ← ih]
      | some pe =>
        obtain ⟨p, e⟩ := pe
        simp only [hf] at ih
        simp [firstEscapable, encodeToVec, hb, hf, ← ih]

theorem encodeToVec_append (a b : Bytes) : encodeToVec (a ++ b) = encodeToVec a ++ encodeToVec b := by
  induction a with
  | nil => simp [encodeToVec]
  | cons x a ih =>
    simp only [List.cons_append, encodeToVec]
    cases escapeOf x <;> simp [ih]

theorem writeEscaped_eq (w : Writer) (buf : Bytes) :
    w.writeEscaped buf = { w with buffer := w.buffer ++ encodeToVec buf } := by
  unfold Writer.writeEscaped
  congr 1
  generalize w.buffer = acc
  induction buf generalizing acc with
  | nil => simp [encodeToVec]
  | cons b rest ih =>
    simp only [List.foldl_cons, ih, encodeToVec]
    rcases escapeOf_cases b with ⟨h, e⟩ | ⟨h, e⟩ | ⟨h, e⟩ | ⟨h1, h2, h3, e⟩
    · subst h; simp [e]
    · subst h; simp [e]
    · subst h; simp [e]
    · simp [e, h1, h2, h3]

/-! ### the reader -/

@[simp] theorem lexFrom_fail (l : Bytes) : lexFrom .fail l = (.fail, []) := by
  cases l <;> simp [lexFrom]

/-- reading is left-to-right: the reader has no look-ahead -/
theorem lexFrom_append (m : Mode) (a b : Bytes) :
    lexFrom m (a ++ b) =
      ((lexFrom (lexFrom m a).1 b).1, (lexFrom m a).2 ++ (lexFrom (lexFrom m a).1 b).2) := by
  induction a generalizing m with
  | nil => simp [lexFrom]
  | cons x a ih =>
    cases m with
    | fail => simp [lexFrom]
    | text =>
      simp only [List.cons_append, lexFrom]
      split
      · exact ih _
      · split
        · simp
        · split
          · exact ih _
          · simp [ih]
    | tag acc =>
      simp only [List.cons_append, lexFrom]
      split
      · split
        · simp [ih]
        · simp
      · exact ih _
    | ent acc =>
      simp only [List.cons_append, lexFrom]
      split
      · split
        · simp [ih]
        · simp
      · exact ih _

/-- a run of bytes without `>` inside a tag only accumulates -/
theorem lexFrom_tag_run (acc l rest : Bytes) (h : ∀ b ∈ l, b ≠ 62) :
    lexFrom (.tag acc) (l ++ rest) = lexFrom (.tag (acc ++ l)) rest := by
  induction l generalizing acc with
  | nil => simp
  | cons x l ih =>
    have hx : x ≠ 62 := h x (by simp)
    simp only [List.cons_append, lexFrom, hx, if_false]
    rw [ih _ (fun b hb => h b (by simp [hb]))]
    simp

theorem isClassChar_ne_gt {b : UInt8} (h : isClassChar b = true) : b ≠ 62 := by
  intro e; subst e; revert h; decide

theorem classifyTag_open (cls : Bytes) (hne : cls ≠ []) (hc : cls.all isClassChar = true) :
    classifyTag (openBody ++ cls ++ [QUOTE]) = some (.openTag cls) := by
  unfold classifyTag
  have h1 : (openBody ++ cls ++ [QUOTE] = closeBody) = False := by
    apply eq_false
    intro h
    have := congrArg List.length h
    simp [openBody, closeBody] at this
  have h2 : openBody.isPrefixOf (openBody ++ cls ++ [QUOTE]) = true := by
    rw [List.append_assoc, List.isPrefixOf_iff_prefix]
    exact List.prefix_append _ _
  have h3 : (openBody ++ cls ++ [QUOTE]).getLast? = some QUOTE := by simp
  have h4 : ((openBody ++ cls ++ [QUOTE]).drop openBody.length).dropLast = cls := by
    rw [List.append_assoc, List.drop_left]
    simp
  simp only [h1, if_false, h2, h3, Bool.and_self, decide_true, if_true, h4]
  have : cls.isEmpty = false := by cases cls <;> simp_all
  simp [this, hc]

/-- the opening tag of a renderer class reads as one `openTag` -/
theorem lexFrom_spanOpen (cls rest : Bytes) (hne : cls ≠ []) (hc : cls.all isClassChar = true) :
    lexFrom .text (spanOpen cls ++ rest) =
      ((lexFrom .text rest).1, .openTag cls :: (lexFrom .text rest).2) := by
  have hsplit : spanOpen cls ++ rest = 60 :: ((openBody ++ cls ++ [QUOTE]) ++ (62 :: rest)) := by
    simp [spanOpen, spanOpenHead, spanOpenTail, openBody, QUOTE]
  rw [hsplit]
  have hno : ∀ b ∈ openBody ++ cls ++ [QUOTE], b ≠ 62 := by
    intro b hb
    simp only [List.mem_append, List.mem_singleton] at hb
    rcases hb with (hb | hb) | hb
    · revert b; decide
    · exact isClassChar_ne_gt (List.all_eq_true.mp hc b hb)
    · subst hb; decide
  have h60 : lexFrom .text (60 :: ((openBody ++ cls ++ [QUOTE]) ++ (62 :: rest))) =
      lexFrom (.tag []) ((openBody ++ cls ++ [QUOTE]) ++ (62 :: rest)) := by
    simp [lexFrom]
  rw [h60, lexFrom_tag_run _ _ _ hno]
  simp only [List.nil_append, lexFrom, if_true, classifyTag_open cls hne hc]

theorem lexFrom_spanClose (rest : Bytes) :
    lexFrom .text (spanClose ++ rest) = ((lexFrom .text rest).1, .closeTag :: (lexFrom .text rest).2) := by
  simp [spanClose, lexFrom, classifyTag, closeBody]

/-- escaped text reads back as exactly the original bytes -/
theorem lexFrom_encode (s rest : Bytes) :
    lexFrom .text (encodeToVec s ++ rest) =
      ((lexFrom .text rest).1, s.map Tok.byte ++ (lexFrom .text rest).2) := by
  induction s with
  | nil => simp [encodeToVec]
  | cons b s ih =>
    simp only [encodeToVec]
    rcases escapeOf_cases b with ⟨h, e⟩ | ⟨h, e⟩ | ⟨h, e⟩ | ⟨h1, h2, h3, e⟩
    · subst h; simp [e, entAmp, lexFrom, decodeEntity, ih]
    · subst h; simp [e, entLt, lexFrom, decodeEntity, ih]
    · subst h; simp [e, entGt, lexFrom, decodeEntity, ih]
    · simp [e, lexFrom, h1, h2, h3, ih]

/-! ### classes -/

theorem cssClass_valid {ft : FormatType} {c : Bytes} (h : cssClass ft = some c) :
    c ≠ [] ∧ c.all isClassChar = true := by
  cases ft <;> simp [cssClass] at h <;> subst h <;> decide

theorem cssClass_mem {ft : FormatType} {c : Bytes} (h : cssClass ft = some c) : c ∈ rendererClasses := by
  cases ft <;> simp [cssClass] at h <;> subst h <;> decide

/-! ### token-level facts -/

theorem textOf_append (a b : List Tok) : textOf (a ++ b) = textOf a ++ textOf b := by
  induction a with
  | nil => rfl
  | cons t a ih => cases t <;> simp [textOf, ih]

theorem textOf_bytes (s : Bytes) : textOf (s.map Tok.byte) = s := by
  induction s with
  | nil => rfl
  | cons b s ih => simp [textOf, ih]

theorem classesOf_append (a b : List Tok) : classesOf (a ++ b) = classesOf a ++ classesOf b := by
  induction a with
  | nil => rfl
  | cons t a ih => cases t <;> simp [classesOf, ih]

theorem classesOf_bytes (s : Bytes) : classesOf (s.map Tok.byte) = [] := by
  induction s with
  | nil => rfl
  | cons b s ih => simp [classesOf, ih]

theorem balancedFrom_bytes (d : Nat) (s : Bytes) (r : List Tok) :
    balancedFrom d (s.map Tok.byte ++ r) = balancedFrom d r := by
  induction s with
  | nil => rfl
  | cons b s ih => simp [balancedFrom, ih]

/-- a balanced block in front can be skipped -/
theorem balancedFrom_append_balanced (a b : List Tok) (d : Nat) (h : balancedFrom 0 a = true) :
    balancedFrom d (a ++ b) = balancedFrom d b := by
  suffices H : ∀ (a : List Tok) (k d : Nat), balancedFrom k a = true →
      balancedFrom (k + d) (a ++ b) = balancedFrom d b by
    simpa using H a 0 d h
  intro a
  induction a with
  | nil => intro k d hk; simp [balancedFrom] at hk; subst hk; simp
  | cons t a ih =>
    intro k d hk
    cases t with
    | openTag c =>
      simp only [balancedFrom, List.cons_append] at hk ⊢
      have := ih (k + 1) d hk
      rw [← this]; congr 1; omega
    | closeTag =>
      cases k with
      | zero => simp [balancedFrom] at hk
      | succ k =>
        simp only [balancedFrom] at hk
        have := ih k d hk
        rw [← this]
        have e : k + 1 + d = (k + d) + 1 := by omega
        rw [e]; simp [balancedFrom]
    | byte x =>
      simp only [balancedFrom, List.cons_append] at hk ⊢
      exact ih k d hk


/-! ### "no metacharacter" as a checker (used to prove `escape_no_meta`) -/

/-- `amp;`, `lt;` or `gt;` in front -/
def entityTailOK (post : Bytes) : Bool :=
  [97, 109, 112, 59].isPrefixOf post || [108, 116, 59].isPrefixOf post || [103, 116, 59].isPrefixOf post

/-- no `<`, no `>`, and every `&` is followed by `amp;`, `lt;` or `gt;` -/
def entitySafe : Bytes → Bool
  | [] => true
  | b :: r =>
    if b = 60 then false else if b = 62 then false
    else if b = 38 then entityTailOK r && entitySafe r
    else entitySafe r

theorem entitySafe_encode (s : Bytes) : entitySafe (encodeToVec s) = true := by
  induction s with
  | nil => rfl
  | cons b s ih =>
    simp only [encodeToVec]
    rcases escapeOf_cases b with ⟨h, e⟩ | ⟨h, e⟩ | ⟨h, e⟩ | ⟨h1, h2, h3, e⟩
    · subst h; simp [e, entAmp, entitySafe, entityTailOK, ih]
    · subst h; simp [e, entLt, entitySafe, entityTailOK, ih]
    · subst h; simp [e, entGt, entitySafe, entityTailOK, ih]
    · simp [e, entitySafe, h1, h2, h3, ih]

theorem entitySafe_no_meta {l : Bytes} (h : entitySafe l = true) : (60 : UInt8) ∉ l ∧ (62 : UInt8) ∉ l := by
  induction l with
  | nil => simp
  | cons b r ih =>
    unfold entitySafe at h
    by_cases h1 : b = 60
    · simp [h1] at h
    · by_cases h2 : b = 62
      · simp [h2] at h
      · have hr : entitySafe r = true := by
          by_cases h3 : b = 38 <;> simp_all
        have := ih hr
        simp only [List.mem_cons, not_or]
        exact ⟨⟨fun e => h1 e.symm, this.1⟩, ⟨fun e => h2 e.symm, this.2⟩⟩

theorem entitySafe_amp {l pre post : Bytes} (h : entitySafe l = true) (e : l = pre ++ 38 :: post) :
    entityTailOK post = true := by
  induction pre generalizing l with
  | nil =>
    subst e
    simp [entitySafe] at h
    exact h.1
  | cons x pre ih =>
    subst e
    unfold entitySafe at h
    simp only [List.cons_append] at h
    by_cases h1 : x = 60
    · simp [h1] at h
    · by_cases h2 : x = 62
      · simp [h2] at h
      · have hr : entitySafe (pre ++ 38 :: post) = true := by
          by_cases h3 : x = 38 <;> simp_all
        exact ih hr rfl

/-! ### the formatter as a concatenation -/

theorem formatPart_spaces : formatPart ⟨.whitespace, [32, 32]⟩ = [32, 32] := by decide

theorem format_go_eq (indent : Bool) (spaces : Bytes) (parts : List Part) (out : Bytes) :
    format.go indent spaces parts out =
      out ++ parts.flatMap (fun p => formatPart p ++ if indent && p.s.contains NL then spaces else []) := by
  induction parts generalizing out with
  | nil => simp [format.go]
  | cons p rest ih =>
    simp only [format.go, List.flatMap_cons]
    split <;> simp [ih]

theorem format_eq (parts : List Part) (indent : Bool) :
    format parts indent = (if indent then [32, 32] else []) ++
      parts.flatMap (fun p => formatPart p ++ if indent && p.s.contains NL then [32, 32] else []) := by
  simp only [format, format_go_eq, formatPart_spaces]

/-! ### the writer as a concatenation -/

/-- the class `HtmlWriter::write` chooses for the current colour -/
def colorClass : Option ColorSpec → Option Bytes
  | some c =>
    if c.fg = some Color.red then some clsRed
    else if c.fg = some Color.blue then some clsBlue
    else if c.bold then some clsBold
    else none
  | none => none

/-- what one `write` call appends -/
def writePiece (c : Option ColorSpec) (buf : Bytes) : Bytes :=
  match colorClass c with
  | some k => spanOpen k ++ encodeToVec buf ++ spanClose
  | none => encodeToVec buf

theorem write_eq (w : Writer) (buf : Bytes) :
    w.write buf = { w with buffer := w.buffer ++ writePiece w.color buf } := by
  unfold Writer.write Writer.writeWith writePiece colorClass
  obtain ⟨buffer, color⟩ := w
  cases color with
  | none => simp [writeEscaped_eq]
  | some c =>
    simp only
    split
    · simp [writeEscaped_eq, List.append_assoc, *]
    · split
      · simp [writeEscaped_eq, List.append_assoc, *]
      · split
        · simp [writeEscaped_eq, List.append_assoc, *]
        · simp [writeEscaped_eq, *]

/-- everything a call sequence appends, given the colour at its start -/
def render : Option ColorSpec → List Op → Bytes
  | _, [] => []
  | _, .setColor s :: r => render (some s) r
  | _, .reset :: r => render none r
  | c, .flush :: r => render c r
  | c, .write buf :: r => writePiece c buf ++ render c r

theorem run_buffer (ops : List Op) (w : Writer) :
    (Writer.run ops w).buffer = w.buffer ++ render w.color ops := by
  induction ops generalizing w with
  | nil => simp [Writer.run, render]
  | cons op ops ih =>
    have h := ih (Writer.step w op)
    simp only [Writer.run, List.foldl_cons] at h ⊢
    rw [h]
    cases op with
    | setColor s => simp [Writer.step, Writer.stepWith, render]
    | reset => simp [Writer.step, Writer.stepWith, render]
    | flush => simp [Writer.step, Writer.stepWith, render]
    | write buf => simp [Writer.step, Writer.stepWith, render, write_eq]

theorem colorClass_valid {c : Option ColorSpec} {k : Bytes} (h : colorClass c = some k) :
    (k ≠ [] ∧ k.all isClassChar = true) ∧ k ∈ rendererClasses := by
  unfold colorClass at h
  cases c with
  | none => simp at h
  | some c =>
    simp only at h
    split at h
    · cases h; decide
    · split at h
      · cases h; decide
      · split at h
        · cases h; decide
        · cases h

end NumbatModel.Html
