import NumbatModel.Lemmas.VMProg3
/-!
Helper lemmas for C09, part 17: one statement executed on the compiled program vs the reference semantics.
-/
namespace NumbatModel.VM
open NumbatModel.Core
variable {ν : Type}

theorem commitMain_mainCode {I : Interp ν} {s : TopStatic ν} (h : InvS I s) (cs : CS ν) (l : List (List Name)) :
    ({ I.commitMain cs with locals0 := l } : Interp ν).mainCode = cs.code := by
  obtain ⟨ch0, rest, hch, _, _⟩ := h.chunks_cons
  exact (commitMain_code hch cs).1

/-- **one statement** -/
theorem stmt_ok {S : Sem ν} {Ifin : Interp ν} {sfin : TopStatic ν} (hfin : InvS Ifin sfin) (hsz : Sizes Ifin)
    (fuel : Nat) {I I1 : Interp ν} {st : TopState ν} (stmt : Stmt ν)
    (h : InvS I st.static) (hc : compileStmt I stmt = .ok I1) (hfit : fitsStmt stmt)
    (hg1 : Grow I1 Ifin) (hgs : GrowS (declare st.static stmt) sfin)
    (hlen : st.gvals.length = st.static.gnames.length) :
    (∀ st', execStmt S (tableOf sfin) fuel st stmt = .ok st' →
      Runs S Ifin.prog (topMachine I.mainCode.length st) (topMachine I1.mainCode.length st') ∧
      st'.static = declare st.static stmt ∧ st'.gvals.length = st'.static.gnames.length) ∧
    (∀ err, execStmt S (tableOf sfin) fuel st stmt = .err err →
      Fails S Ifin.prog (topMachine I.mainCode.length st) err) := by
  obtain ⟨ch0, rest, hch, _, _⟩ := h.chunks_cons
  have hg01 : Grow I I1 := (compileStmt_grow hch stmt hc).1
  have hgs0 : GrowS st.static sfin := (declare_grow st.static stmt).trans hgs
  cases stmt with
  | expr e =>
    simp only [compileStmt, Res.bind_eq_ok] at hc
    obtain ⟨cs, h1, h2⟩ := hc
    injection h2 with h2; subst h2
    have hmain1 : (I.commitMain (cs.emit .return_ [])).mainCode = cs.code ++ encode .return_ [] :=
      commitMain_mainCode h _ I.locals0
    obtain ⟨fe, hfe, hpos, hok, herr⟩ := expr_top (S := S) hfin hsz fuel e (encode .return_ []) h h1 hfit hmain1 rfl
      hg01 hg1 hgs0 hlen
    have hl1 : (I.commitMain (cs.emit .return_ [])).mainCode.length = I.mainCode.length + fe.length + 1 := by
      rw [hmain1, hfe]; simp [encode_length]; omega
    refine ⟨?_, ?_⟩
    · intro st' hv
      simp only [execStmt, Res.bind_eq_ok] at hv
      obtain ⟨v, hev, hst'⟩ := hv
      injection hst' with hst'; subst hst'
      have r1 := hok v hev
      have pR := hpos.next (a := fe) (st.gvals ++ [v])
      have r2 := Runs.step (step_return_top (S := S) pR (s := st.gvals) (v := v) rfl)
      refine ⟨?_, rfl, by simpa [declare] using hlen⟩
      have hm : ({ (topMachine I.mainCode.length st).at { fn := 0, ip := I.mainCode.length, fp := 0 } []
            (I.mainCode.length + fe.length) (st.gvals ++ [v]) with
            frames := [{ fn := 0, ip := I.mainCode.length + fe.length + 1, fp := 0 }], stack := st.gvals,
            last := some v, result := some v } : Machine ν)
          = topMachine (I.commitMain (cs.emit .return_ [])).mainCode.length
              { st with static := declare st.static (.expr e), last := some v, result := some v } := by
        rw [hl1]; rfl
      rw [← hm]
      exact r1.trans r2
    · intro err he
      simp only [execStmt, Res.bind_eq_err] at he
      rcases he with he | ⟨v, _, he⟩
      · exact herr err he
      · cases he
  | letv d =>
    simp only [compileStmt, Res.bind_eq_ok] at hc
    obtain ⟨cs, h1, h2⟩ := hc
    injection h2 with h2; subst h2
    have hmain1 : ({ I.commitMain cs with locals0 := I.locals0 ++ [d.names] } : Interp ν).mainCode = cs.code ++ [] := by
      rw [List.append_nil]; exact commitMain_mainCode h _ _
    obtain ⟨fe, hfe, hpos, hok, herr⟩ := expr_top (S := S) hfin hsz fuel d.expr [] h h1 hfit hmain1 rfl
      hg01 hg1 hgs0 hlen
    have hl1 : ({ I.commitMain cs with locals0 := I.locals0 ++ [d.names] } : Interp ν).mainCode.length
        = I.mainCode.length + fe.length := by
      rw [hmain1, hfe]; simp
    refine ⟨?_, ?_⟩
    · intro st' hv
      simp only [execStmt, Res.bind_eq_ok] at hv
      obtain ⟨v, hev, hst'⟩ := hv
      injection hst' with hst'; subst hst'
      refine ⟨?_, rfl, by simp [declare, hlen]⟩
      rw [hl1]
      exact hok v hev
    · intro err he
      simp only [execStmt, Res.bind_eq_err] at he
      rcases he with he | ⟨v, _, he⟩
      · exact herr err he
      · cases he
  | dim =>
    simp only [compileStmt] at hc
    injection hc with hc; subst hc
    refine ⟨?_, ?_⟩
    · intro st' hv
      simp only [execStmt] at hv
      injection hv with hv; subst hv
      exact ⟨Runs.refl _ _ _, rfl, hlen⟩
    · intro err he; simp [execStmt] at he
  | unsupported w => simp [compileStmt] at hc
  | ffn name k =>
    simp only [compileStmt] at hc
    injection hc with hc; subst hc
    refine ⟨?_, ?_⟩
    · intro st' hv
      simp only [execStmt] at hv
      injection hv with hv; subst hv
      exact ⟨Runs.refl _ _ _, rfl, hlen⟩
    · intro err he; simp [execStmt] at he
  | structDef info =>
    simp only [compileStmt] at hc
    injection hc with hc; subst hc
    refine ⟨?_, ?_⟩
    · intro st' hv
      simp only [execStmt] at hv
      injection hv with hv; subst hv
      exact ⟨Runs.refl _ _ _, rfl, hlen⟩
    · intro err he; simp [execStmt] at he
  | fn d =>
    have hm : I1.mainCode = I.mainCode := by
      simp only [compileStmt, Res.bind_eq_ok] at hc
      obtain ⟨cs, h1, h2⟩ := hc
      injection h2 with h2; subst h2
      simp [Interp.mainCode, hch]
    refine ⟨?_, ?_⟩
    · intro st' hv
      simp only [execStmt] at hv
      injection hv with hv; subst hv
      rw [hm]
      exact ⟨Runs.refl _ _ _, rfl, hlen⟩
    · intro err he; simp [execStmt] at he
  | proc kind args =>
    by_cases hk : kind = .type
    · subst hk; simp [compileStmt] at hc
    obtain ⟨cs, cs2, idx, a, h1, hidx, h3, rfl⟩ := proc_shape hk hc
    obtain ⟨hfitL, hn65⟩ := hfit
    have hcs2 : cs2.code = cs.code ∧ cs2.constants = cs.constants := by
      unfold CS.addCallArgs at h3
      split at h3
      · injection h3 with h3; injection h3 with h3 _; rw [← h3]; exact ⟨rfl, rfl⟩
      · cases h3
    have hmain1 : (I.commitMain (cs2.emit .ffiCallProcedure [idx, args.length, a])).mainCode
        = cs.code ++ encode .ffiCallProcedure [idx, args.length, a] := by
      rw [(commitMain_code hch _).1, CS.emit_code, hcs2.1]
    obtain ⟨fe, hfe, hpos, hok, herr⟩ := list_top (S := S) hfin hsz fuel args
      (encode .ffiCallProcedure [idx, args.length, a]) h h1 hfitL hmain1 hcs2.2 hg01 hg1 hgs0 hlen
    have hl1 : (I.commitMain (cs2.emit .ffiCallProcedure [idx, args.length, a])).mainCode.length
        = I.mainCode.length + fe.length + 7 := by
      rw [hmain1, hfe]; simp [encode_length]; omega
    have hname : Ifin.prog.ffiNames[idx]? = some (ProcKind.name kind) := by
      have g := compileList_good args I.view cs h1
      have : cs.ffiNames = I.ffiNames := g.ffiNames
      rw [this] at hidx
      exact prefix_get (hg01.trans hg1).ffi (idxOf?_get hidx)
    have hi65 : idx < 65536 := by
      have := (List.getElem?_eq_some_iff.mp hname).1
      have := hsz.ffi
      simp only [Interp.prog] at *; omega
    have ha65 := addCallArgs_lt h3
    -- the machine after the arguments, in front of the call instruction
    have hstep : ∀ vs : List (Value ν), vs.length = args.length →
        step S Ifin.prog ({ topMachine (I.mainCode.length + fe.length) st with stack := st.gvals ++ vs })
          = callForeign S (ProcKind.name kind) vs
              ({ topMachine (I.mainCode.length + fe.length + 7) st with stack := st.gvals }) := by
      intro vs hvl
      exact step_ffiProc (S := S) (hpos.next (a := fe) (st.gvals ++ vs)) hi65 hn65 ha65 hname (s := st.gvals)
        (vs := vs) rfl hvl
    refine ⟨?_, ?_⟩
    · intro st' hv
      cases kind with
      | type => exact absurd rfl hk
      | assertEq => simp [execStmt] at hv
      | print =>
        cases args with
        | nil =>
          simp only [execStmt] at hv
          injection hv with hv; subst hv
          have r1 := hok [] rfl
          have r2 : Runs S Ifin.prog _ _ := Runs.step ((hstep [] rfl).trans (by simp [callForeign, ProcKind.name]; rfl))
          refine ⟨?_, rfl, hlen⟩
          rw [hl1]
          exact r1.trans (by simpa [topMachine] using r2)
        | cons e es =>
          cases es with
          | nil =>
            simp only [execStmt, Res.bind_eq_ok] at hv
            obtain ⟨v, hev, hv⟩ := hv
            cases hpt : Value.printText S v with
            | none => simp [hpt] at hv
            | some t =>
              simp only [hpt] at hv
              injection hv with hv; subst hv
              have r1 := hok [v] (by simp [evalList, hev])
              have r2 : Runs S Ifin.prog _ _ :=
                Runs.step ((hstep [v] rfl).trans (by simp [callForeign, ProcKind.name, hpt]; rfl))
              refine ⟨?_, rfl, hlen⟩
              rw [hl1]
              exact r1.trans (by simpa [topMachine] using r2)
          | cons e2 es2 => simp [execStmt] at hv
      | assert =>
        cases args with
        | nil => simp [execStmt] at hv
        | cons e es =>
          cases es with
          | nil =>
            simp only [execStmt, Res.bind_eq_ok] at hv
            obtain ⟨v, hev, hv⟩ := hv
            cases v with
            | bool b =>
              cases b with
              | true =>
                simp only at hv
                injection hv with hv; subst hv
                have r1 := hok [.bool true] (by simp [evalList, hev])
                have r2 : Runs S Ifin.prog _ _ :=
                  Runs.step ((hstep [.bool true] rfl).trans (by simp [callForeign, ProcKind.name]; rfl))
                refine ⟨?_, rfl, hlen⟩
                rw [hl1]
                exact r1.trans (by simpa [topMachine] using r2)
              | false => simp at hv
            | _ => simp at hv
          | cons e2 es2 => simp [execStmt] at hv
    · intro err he
      cases kind with
      | type => exact absurd rfl hk
      | assertEq => simp [execStmt] at he
      | print =>
        cases args with
        | nil => simp [execStmt] at he
        | cons e es =>
          cases es with
          | nil =>
            simp only [execStmt, Res.bind_eq_err] at he
            rcases he with he | ⟨v, _, he⟩
            · exact herr err (by simp [evalList, he])
            · cases hpt : Value.printText S v <;> simp [hpt] at he
          | cons e2 es2 => simp [execStmt] at he
      | assert =>
        cases args with
        | nil => simp [execStmt] at he
        | cons e es =>
          cases es with
          | nil =>
            simp only [execStmt, Res.bind_eq_err] at he
            rcases he with he | ⟨v, hev, he⟩
            · exact herr err (by simp [evalList, he])
            · cases v with
              | bool b =>
                cases b with
                | true => simp at he
                | false =>
                  simp only at he
                  injection he with he; subst he
                  have r1 := hok [.bool false] (by simp [evalList, hev])
                  exact r1.fails (Fails.step ((hstep [.bool false] rfl).trans (by simp [callForeign, ProcKind.name])))
              | _ => simp at he
          | cons e2 es2 => simp [execStmt] at he

end NumbatModel.VM
