import NumbatModel.Lemmas.Modules
/-!
Lemmas for `order_independent` (C17): the resolver never runs out of fuel and succeeds when every `use` target
exists; the set of entered modules is the import closure of the roots; the emitted statements are, up to
order, the definitions of the entered modules; in a closed, clash-free, acyclic table every used name is
defined earlier in the emitted sequence and never re-defined; evaluation of such sequences does not depend
on the order.
-/
namespace NumbatModel.Modules

/-! ### the statements, up to order -/

theorem defEvents_cons_use (o i m rest) : defEvents o i (.use m :: rest) = defEvents o (i + 1) rest := rfl
theorem defEvents_cons_defn (o i ns us rest) :
    defEvents o i (.defn ns us :: rest) = .stmt o i ns us :: defEvents o (i + 1) rest := rfl

/-- the statements `inlining_pass` returns are, up to order, the statements of the input and of every entered
module — each exactly once -/
theorem Run.stmts_perm {t o i imp items imp' tr} (h : Run t o i imp items imp' tr) :
    (stmts tr).Perm (defEvents o i items ++
      (entered tr).flatMap (fun m => defEvents (some m) 0 ((body t m).getD []))) := by
  induction h with
  | nil => simp [defEvents]
  | defn _ ih =>
    simp only [stmts_stmt, entered_stmt, defEvents_cons_defn, List.cons_append]
    exact List.Perm.cons _ ih
  | skip _ _ ih => simpa [defEvents_cons_use] using ih
  | @enter o i imp m b rest imp1 tr1 imp2 tr2 hm hb h1 h2 ih1 ih2 =>
    simp only [stmts_enter, stmts_append, stmts_exit, entered_enter, entered_append, entered_exit,
      defEvents_cons_use, List.cons_append, List.flatMap_cons, List.flatMap_append, hb, Option.getD_some]
    refine (ih1.append ih2).trans ?_
    apply List.perm_iff_count.mpr
    intro a
    simp only [List.count_append]
    omega

/-! ### the entered modules are the import closure of the roots -/

theorem Run.entered_body {t o i imp items imp' tr} (h : Run t o i imp items imp' tr) :
    ∀ m ∈ entered tr, ∃ b, body t m = some b := by
  induction h with
  | nil => intro m hm; simp at hm
  | defn _ ih => intro m hm; exact ih m (by simpa using hm)
  | skip _ _ ih => exact ih
  | @enter o i imp m0 b0 rest imp1 tr1 imp2 tr2 hm0 hb0 h1 h2 ih1 ih2 =>
    intro m hm
    simp only [entered_enter, entered_append, entered_exit, List.cons_append, List.mem_cons,
      List.mem_append] at hm
    rcases hm with rfl | hm | hm
    · exact ⟨b0, hb0⟩
    · exact ih1 m hm
    · exact ih2 m hm

/-- from a fresh session: a module is recorded as imported iff a root `use` line reaches it -/
theorem Run.imported_iff_reach {t prog imp' tr} (h : Run t none 0 [] prog imp' tr) (m : Nat) :
    m ∈ imp' ↔ ∃ n ∈ usesOf prog, Reach t n m := by
  have e := h.imported
  simp only [List.nil_append] at e
  constructor
  · intro hm
    rw [e] at hm
    rcases h.event_reach (.enter m) (mem_entered.mp hm) m rfl with h0 | h1
    · cases h0
    · exact h1
  · rintro ⟨n, hn, hr⟩
    have hn' : n ∈ imp' := h.uses_imported n hn
    clear hn
    induction hr with
    | refl => exact hn'
    | step hb hu _ ih =>
      apply ih
      rw [e] at hn'
      exact h.entered_uses_imported _ hn' _ hb _ hu

/-! ### enough fuel, and success when every `use` target exists -/

/-- number of table entries whose module is not yet recorded as imported -/
def free (t : Table) (imp : List Nat) : Nat := t.countP (fun p => !imp.contains p.1)

theorem free_le_length (t : Table) (imp) : free t imp ≤ t.length := List.countP_le_length

theorem countP_le' {α} (p q : α → Bool) (l : List α) (h : ∀ x ∈ l, p x = true → q x = true) :
    l.countP p ≤ l.countP q := by
  induction l with
  | nil => simp
  | cons a l ih =>
    have ih' := ih (fun x hx => h x (List.mem_cons_of_mem _ hx))
    by_cases hp : p a = true
    · have hq := h a (by simp) hp
      rw [List.countP_cons_of_pos hp, List.countP_cons_of_pos hq]; omega
    · rw [List.countP_cons_of_neg hp]
      by_cases hq : q a = true
      · rw [List.countP_cons_of_pos hq]; omega
      · rw [List.countP_cons_of_neg hq]; exact ih'

theorem countP_lt' {α} (p q : α → Bool) (l : List α) (h : ∀ x ∈ l, p x = true → q x = true)
    (x : α) (hx : x ∈ l) (hq : q x = true) (hp : p x = false) : l.countP p < l.countP q := by
  induction l with
  | nil => simp at hx
  | cons a l ih =>
    have h' : ∀ y ∈ l, p y = true → q y = true := fun y hy => h y (List.mem_cons_of_mem _ hy)
    rcases List.mem_cons.mp hx with rfl | hx
    · have := countP_le' p q l h'
      rw [List.countP_cons_of_neg (by simp [hp]), List.countP_cons_of_pos hq]; omega
    · have ih' := ih h' hx
      by_cases hpa : p a = true
      · have hqa := h a (by simp) hpa
        rw [List.countP_cons_of_pos hpa, List.countP_cons_of_pos hqa]; omega
      · rw [List.countP_cons_of_neg hpa]
        by_cases hqa : q a = true
        · rw [List.countP_cons_of_pos hqa]; omega
        · rw [List.countP_cons_of_neg hqa]; exact ih'

theorem free_mono {t : Table} {imp imp' : List Nat} (h : ∀ x ∈ imp, x ∈ imp') : free t imp' ≤ free t imp := by
  apply countP_le'
  intro x _ hp
  simp only [Bool.not_eq_eq_eq_not, Bool.not_true, List.contains_eq_mem, decide_eq_false_iff_not] at hp ⊢
  exact fun hx => hp (h _ hx)

theorem free_lt {t : Table} {imp : List Nat} {m : Nat} {b : List Item} (hm : m ∉ imp) (hb : body t m = some b) :
    free t (imp ++ [m]) < free t imp := by
  apply countP_lt' _ _ t _ (m, b) (mem_of_body hb)
  · simpa using hm
  · simp
  · intro x _ hp
    simp only [Bool.not_eq_eq_eq_not, Bool.not_true, List.contains_eq_mem, decide_eq_false_iff_not,
      List.mem_append, not_or] at hp ⊢
    exact hp.1

/-- `recur` handles every import that leaves fewer than `k` table entries unimported -/
def Good (t : Table) (recur : List Nat → Nat → List Item → Res) (k : Nat) : Prop :=
  ∀ imp m b, free t imp < k → body t m = some b →
    ∃ imp' tr, recur imp m b = (imp', .ok tr) ∧ ∀ x ∈ imp, x ∈ imp'

theorem inlItems_ok {t : Table} {recur k} (hg : Good t recur k) (o : Option Nat) :
    ∀ items i imp, free t imp ≤ k → (∀ n ∈ usesOf items, body t n ≠ none) →
      ∃ imp' tr, inlItems t recur o i imp items = (imp', .ok tr) ∧ ∀ x ∈ imp, x ∈ imp' := by
  intro items
  induction items with
  | nil => intro i imp _ _; exact ⟨imp, [], rfl, fun _ h => h⟩
  | cons it rest ih =>
    intro i imp hk hex
    cases it with
    | defn ns us =>
      obtain ⟨imp', tr, hr, hs⟩ := ih (i + 1) imp hk (by intro n hn; exact hex n (by simpa [usesOf] using hn))
      exact ⟨imp', .stmt o i ns us :: tr, by simp only [inlItems, hr], hs⟩
    | use m =>
      have hex' : ∀ n ∈ usesOf rest, body t n ≠ none := by
        intro n hn; exact hex n (by simp [usesOf, hn])
      by_cases hm : imp.contains m = true
      · obtain ⟨imp', tr, hr, hs⟩ := ih (i + 1) imp hk hex'
        exact ⟨imp', tr, by simp only [inlItems, hm, if_true, hr], hs⟩
      · have hm' : m ∉ imp := by simpa using hm
        cases hb : body t m with
        | none => exact absurd hb (hex m (by simp [usesOf]))
        | some b =>
          obtain ⟨imp1, tr1, hr1, hs1⟩ := hg (imp ++ [m]) m b (by have := free_lt hm' hb; omega) hb
          have hk1 : free t imp1 ≤ k := by
            have := free_mono (t := t) (imp := imp) (imp' := imp1) (fun x hx => hs1 x (by simp [hx]))
            omega
          obtain ⟨imp2, tr2, hr2, hs2⟩ := ih (i + 1) imp1 hk1 hex'
          refine ⟨imp2, .enter m :: tr1 ++ .exit m :: tr2, ?_, ?_⟩
          · simp only [inlItems, hm, hb, hr1, hr2]
            simp
          · intro x hx; exact hs2 x (hs1 x (by simp [hx]))

theorem inlMod_good {t : Table} (hu : UsesExist t) : ∀ fuel, Good t (inlMod t fuel) fuel := by
  intro fuel
  induction fuel with
  | zero => intro imp m b h; omega
  | succ n ih =>
    intro imp m b hf hb
    simp only [inlMod]
    exact inlItems_ok ih (some m) b 0 imp (by omega) (fun n hn => hu m b hb n hn)

/-- with every `use` target known to the importer the resolver succeeds (in particular it never runs out of
the fuel `resolve` gives it) -/
theorem resolve_ok {t : Table} (hu : UsesExist t) (imp prog) (hex : ∀ n ∈ usesOf prog, body t n ≠ none) :
    ∃ imp' tr, resolve t imp prog = (imp', .ok tr) := by
  obtain ⟨imp', tr, h, _⟩ :=
    inlItems_ok (inlMod_good hu t.length) none prog 0 imp (free_le_length t imp) hex
  exact ⟨imp', tr, h⟩

/-! ### evaluation of a statement sequence -/

/-- name `u` is introduced by a statement of `tr` -/
def DefinedIn (tr : List Event) (u : Nat) : Prop := ∃ o k ns us, Event.stmt o k ns us ∈ tr ∧ u ∈ ns

/-- every used name is bound in `env` or introduced by an earlier statement -/
def Respects {V} (env : Env V) (tr : List Event) : Prop :=
  ∀ pre o k ns us post, tr = pre ++ .stmt o k ns us :: post →
    ∀ u ∈ us, (env.lookup u).isSome = true ∨ DefinedIn pre u

/-- no name is introduced twice -/
def NoRebind (tr : List Event) : Prop :=
  ∀ pre o k ns us post, tr = pre ++ .stmt o k ns us :: post → ∀ n ∈ ns, ¬ DefinedIn post n

theorem definedIn_append {a b : List Event} {u : Nat} : DefinedIn (a ++ b) u ↔ DefinedIn a u ∨ DefinedIn b u := by
  constructor
  · rintro ⟨o, k, ns, us, hm, hu⟩
    rcases List.mem_append.mp hm with h | h
    · exact Or.inl ⟨o, k, ns, us, h, hu⟩
    · exact Or.inr ⟨o, k, ns, us, h, hu⟩
  · rintro (⟨o, k, ns, us, hm, hu⟩ | ⟨o, k, ns, us, hm, hu⟩)
    · exact ⟨o, k, ns, us, by simp [hm], hu⟩
    · exact ⟨o, k, ns, us, by simp [hm], hu⟩

theorem definedIn_cons_stmt {o k ns us} {tr : List Event} {u : Nat} :
    DefinedIn (.stmt o k ns us :: tr) u ↔ u ∈ ns ∨ DefinedIn tr u := by
  constructor
  · rintro ⟨o', k', ns', us', hm, hu⟩
    rcases List.mem_cons.mp hm with h | h
    · cases h; exact Or.inl hu
    · exact Or.inr ⟨o', k', ns', us', h, hu⟩
  · rintro (h | ⟨o', k', ns', us', hm, hu⟩)
    · exact ⟨o, k, ns, us, by simp, h⟩
    · exact ⟨o', k', ns', us', by simp [hm], hu⟩

theorem definedIn_cons_enter {m} {tr : List Event} {u : Nat} : DefinedIn (.enter m :: tr) u ↔ DefinedIn tr u := by
  constructor
  · rintro ⟨o', k', ns', us', hm, hu⟩
    rcases List.mem_cons.mp hm with h | h
    · cases h
    · exact ⟨o', k', ns', us', h, hu⟩
  · rintro ⟨o', k', ns', us', hm, hu⟩; exact ⟨o', k', ns', us', by simp [hm], hu⟩

theorem definedIn_cons_exit {m} {tr : List Event} {u : Nat} : DefinedIn (.exit m :: tr) u ↔ DefinedIn tr u := by
  constructor
  · rintro ⟨o', k', ns', us', hm, hu⟩
    rcases List.mem_cons.mp hm with h | h
    · cases h
    · exact ⟨o', k', ns', us', h, hu⟩
  · rintro ⟨o', k', ns', us', hm, hu⟩; exact ⟨o', k', ns', us', by simp [hm], hu⟩

theorem lookup_bind_mem {V} (env : Env V) (ns : List Nat) (v : V) {n : Nat} (h : n ∈ ns) :
    (ns.map (fun n => (n, v)) ++ env).lookup n = some v := by
  induction ns with
  | nil => simp at h
  | cons a ns ih =>
    simp only [List.map_cons, List.cons_append, List.lookup_cons]
    by_cases hna : n = a
    · subst hna; simp
    · have : (n == a) = false := by simpa using hna
      rw [this]
      exact ih (by rcases List.mem_cons.mp h with h | h; exact absurd h hna; exact h)

theorem lookup_bind_not_mem {V} (env : Env V) (ns : List Nat) (v : V) {n : Nat} (h : n ∉ ns) :
    (ns.map (fun n => (n, v)) ++ env).lookup n = env.lookup n := by
  induction ns with
  | nil => rfl
  | cons a ns ih =>
    simp only [List.map_cons, List.cons_append, List.lookup_cons]
    have hna : n ≠ a := fun h' => h (by simp [h'])
    have : (n == a) = false := by simpa using hna
    rw [this]
    exact ih (fun h' => h (by simp [h']))

theorem lookupAll_congr {V} {e1 e2 : Env V} {us : List Nat} (h : ∀ u ∈ us, e1.lookup u = e2.lookup u) :
    lookupAll e1 us = lookupAll e2 us := by
  induction us with
  | nil => rfl
  | cons u us ih =>
    simp only [lookupAll, h u (by simp), ih (fun x hx => h x (by simp [hx]))]

theorem lookupAll_some {V} {env : Env V} {us : List Nat} (h : ∀ u ∈ us, (env.lookup u).isSome = true) :
    ∃ vs, lookupAll env us = some vs := by
  induction us with
  | nil => exact ⟨[], rfl⟩
  | cons u us ih =>
    obtain ⟨vs, hvs⟩ := ih (fun x hx => h x (by simp [hx]))
    obtain ⟨v, hv⟩ := Option.isSome_iff_exists.mp (h u (by simp))
    exact ⟨v :: vs, by simp only [lookupAll, hv, hvs]⟩

theorem lookupAll_isSome {V} {env : Env V} {us : List Nat} {vs} (h : lookupAll env us = some vs) :
    ∀ u ∈ us, (env.lookup u).isSome = true := by
  induction us generalizing vs with
  | nil => intro u hu; simp at hu
  | cons a us ih =>
    intro u hu
    simp only [lookupAll] at h
    cases ha : env.lookup a with
    | none => rw [ha] at h; simp at h
    | some v =>
      cases hr : lookupAll env us with
      | none => rw [ha, hr] at h; simp at h
      | some vs' =>
        rcases List.mem_cons.mp hu with rfl | hu
        · simp [ha]
        · exact ih hr u hu

/-- names not introduced by the sequence keep their binding -/
theorem evalStmts_frame {V} (sem : Sem V) : ∀ (tr : List Event) (env env' : Env V),
    evalStmts sem env tr = .ok env' → ∀ n, ¬ DefinedIn tr n → env'.lookup n = env.lookup n := by
  intro tr
  induction tr with
  | nil => intro env env' h n _; simp only [evalStmts, Except.ok.injEq] at h; rw [h]
  | cons e tr ih =>
    intro env env' h n hn
    cases e with
    | enter m => exact ih env env' (by simpa [evalStmts] using h) n (fun h' => hn (definedIn_cons_enter.mpr h'))
    | exit m => exact ih env env' (by simpa [evalStmts] using h) n (fun h' => hn (definedIn_cons_exit.mpr h'))
    | stmt o k ns us =>
      simp only [evalStmts] at h
      cases hl : lookupAll env us with
      | none => rw [hl] at h; simp at h
      | some vs =>
        rw [hl] at h
        simp only at h
        have hn' : n ∉ ns ∧ ¬ DefinedIn tr n := by
          constructor
          · intro h'; exact hn (definedIn_cons_stmt.mpr (Or.inl h'))
          · intro h'; exact hn (definedIn_cons_stmt.mpr (Or.inr h'))
        rw [ih _ env' h n hn'.2, lookup_bind_not_mem env ns _ hn'.1]

/-- a sequence in which every used name is bound before its use and no name is bound twice evaluates, and the
final environment satisfies the defining equation of every statement -/
theorem evalStmts_ok {V} (sem : Sem V) : ∀ (tr : List Event) (env : Env V),
    Respects env tr → NoRebind tr → (∀ n, DefinedIn tr n → env.lookup n = none) →
    ∃ env', evalStmts sem env tr = .ok env' ∧
      ∀ pre o k ns us post, tr = pre ++ .stmt o k ns us :: post →
        ∃ vs, lookupAll env' us = some vs ∧ ∀ n ∈ ns, env'.lookup n = some (sem o k vs) := by
  intro tr
  induction tr with
  | nil =>
    intro env _ _ _
    exact ⟨env, rfl, by intro pre o k ns us post h; simp at h⟩
  | cons e tr ih =>
    intro env hr hnr hf
    -- the tail, for an event that introduces nothing
    have tail_plain : (∀ n, DefinedIn (e :: tr) n ↔ DefinedIn tr n) → (∀ o k ns us, e ≠ .stmt o k ns us) →
        evalStmts sem env (e :: tr) = evalStmts sem env tr →
        ∃ env', evalStmts sem env (e :: tr) = .ok env' ∧
          ∀ pre o k ns us post, e :: tr = pre ++ .stmt o k ns us :: post →
            ∃ vs, lookupAll env' us = some vs ∧ ∀ n ∈ ns, env'.lookup n = some (sem o k vs) := by
      intro hd hne heq
      have hr' : Respects env tr := by
        intro pre o k ns us post hsp u hu
        rcases hr (e :: pre) o k ns us post (by simp [hsp]) u hu with h | h
        · exact Or.inl h
        · right
          obtain ⟨o', k', ns', us', hm, hu'⟩ := h
          rcases List.mem_cons.mp hm with h0 | h0
          · exact absurd h0.symm (hne o' k' ns' us')
          · exact ⟨o', k', ns', us', h0, hu'⟩
      have hnr' : NoRebind tr := by
        intro pre o k ns us post hsp n hn
        exact hnr (e :: pre) o k ns us post (by simp [hsp]) n hn
      obtain ⟨env', he, hq⟩ := ih env hr' hnr' (fun n hn => hf n ((hd n).mpr hn))
      refine ⟨env', by rw [heq]; exact he, ?_⟩
      intro pre o k ns us post hsp
      rcases split_cons hsp with ⟨_, h0, _⟩ | ⟨pre', rfl, hsp'⟩
      · exact absurd h0.symm (hne o k ns us)
      · exact hq pre' o k ns us post hsp'
    cases e with
    | enter m => exact tail_plain (fun n => definedIn_cons_enter) (by intro o k ns us h; cases h) rfl
    | exit m => exact tail_plain (fun n => definedIn_cons_exit) (by intro o k ns us h; cases h) rfl
    | stmt o k ns us =>
      -- the used names are bound in `env`
      have hus : ∀ u ∈ us, (env.lookup u).isSome = true := by
        intro u hu
        rcases hr [] o k ns us tr rfl u hu with h | ⟨_, _, _, _, hm, _⟩
        · exact h
        · simp at hm
      obtain ⟨vs, hvs⟩ := lookupAll_some hus
      let env1 : Env V := ns.map (fun n => (n, sem o k vs)) ++ env
      have hr' : Respects env1 tr := by
        intro pre o' k' ns' us' post hsp u hu
        rcases hr (.stmt o k ns us :: pre) o' k' ns' us' post (by simp [hsp]) u hu with h | h
        · left
          by_cases hun : u ∈ ns
          · simp [env1, lookup_bind_mem env ns _ hun]
          · simp only [env1, lookup_bind_not_mem env ns _ hun, h]
        · rcases definedIn_cons_stmt.mp h with h | h
          · left; simp [env1, lookup_bind_mem env ns _ h]
          · exact Or.inr h
      have hnr' : NoRebind tr := by
        intro pre o' k' ns' us' post hsp n hn
        exact hnr (.stmt o k ns us :: pre) o' k' ns' us' post (by simp [hsp]) n hn
      have hf' : ∀ n, DefinedIn tr n → env1.lookup n = none := by
        intro n hn
        have h1 : n ∉ ns := fun h => hnr [] o k ns us tr rfl n h hn
        simp only [env1, lookup_bind_not_mem env ns _ h1]
        exact hf n (definedIn_cons_stmt.mpr (Or.inr hn))
      obtain ⟨env', he, hq⟩ := ih env1 hr' hnr' hf'
      refine ⟨env', by simp only [evalStmts, hvs]; exact he, ?_⟩
      intro pre o' k' ns' us' post hsp
      rcases split_cons hsp with ⟨_, h0, _⟩ | ⟨pre', rfl, hsp'⟩
      · cases h0
        -- the head statement: its names are not re-bound, the names it uses neither
        refine ⟨vs, ?_, ?_⟩
        · rw [← hvs]
          apply lookupAll_congr
          intro u hu
          have hnone : ¬ DefinedIn (Event.stmt o k ns us :: tr) u := by
            intro hd
            have := hf u hd
            have h2 := hus u hu
            rw [this] at h2; simp at h2
          have h1 : u ∉ ns := fun h => hnone (definedIn_cons_stmt.mpr (Or.inl h))
          have h2 : ¬ DefinedIn tr u := fun h => hnone (definedIn_cons_stmt.mpr (Or.inr h))
          rw [evalStmts_frame sem tr env1 env' he u h2]
          exact lookup_bind_not_mem env ns _ h1
        · intro n hn
          have h2 : ¬ DefinedIn tr n := hnr [] o k ns us tr rfl n hn
          rw [evalStmts_frame sem tr env1 env' he n h2]
          exact lookup_bind_mem env ns _ hn
      · exact hq pre' o' k' ns' us' post hsp'

/-- two sequences with the same statements, each binding every name before its use and no name twice, yield
the same environment -/
theorem evalStmts_order_independent {V} (sem : Sem V) (tr1 tr2 : List Event)
    (hsame : ∀ o k ns us, Event.stmt o k ns us ∈ tr1 ↔ Event.stmt o k ns us ∈ tr2)
    (r1 : Respects ([] : Env V) tr1) (n1 : NoRebind tr1) (r2 : Respects ([] : Env V) tr2) (n2 : NoRebind tr2) :
    ∃ env1 env2, evalStmts sem [] tr1 = .ok env1 ∧ evalStmts sem [] tr2 = .ok env2 ∧
      ∀ n, env1.lookup n = env2.lookup n := by
  obtain ⟨env1, he1, hq1⟩ := evalStmts_ok sem tr1 [] r1 n1 (fun _ _ => rfl)
  obtain ⟨env2, he2, hq2⟩ := evalStmts_ok sem tr2 [] r2 n2 (fun _ _ => rfl)
  refine ⟨env1, env2, he1, he2, ?_⟩
  have hdef : ∀ n, DefinedIn tr1 n ↔ DefinedIn tr2 n := by
    intro n
    constructor
    · rintro ⟨o, k, ns, us, hm, hn⟩; exact ⟨o, k, ns, us, (hsame o k ns us).mp hm, hn⟩
    · rintro ⟨o, k, ns, us, hm, hn⟩; exact ⟨o, k, ns, us, (hsame o k ns us).mpr hm, hn⟩
  have claim : ∀ len (pre rest : List Event), pre.length = len → tr1 = pre ++ rest →
      ∀ n, DefinedIn pre n → env1.lookup n = env2.lookup n := by
    intro len
    induction len using Nat.strongRecOn with
    | _ len ih =>
      intro pre rest hlen hsp n ⟨o, k, ns, us, hm, hn⟩
      obtain ⟨p1, p2, rfl⟩ := List.append_of_mem hm
      have hsp1 : tr1 = p1 ++ .stmt o k ns us :: (p2 ++ rest) := by simp [hsp]
      obtain ⟨vs1, hv1, hx1⟩ := hq1 p1 o k ns us _ hsp1
      have hm2 : Event.stmt o k ns us ∈ tr2 := (hsame o k ns us).mp (by rw [hsp1]; simp)
      obtain ⟨q1, q2, hsp2⟩ := List.append_of_mem hm2
      obtain ⟨vs2, hv2, hx2⟩ := hq2 q1 o k ns us q2 hsp2
      have hvs : lookupAll env1 us = lookupAll env2 us := by
        apply lookupAll_congr
        intro u hu
        rcases r1 p1 o k ns us _ hsp1 u hu with h | h
        · simp at h
        · exact ih p1.length (by simp at hlen; omega) p1 _ rfl hsp1 u h
      rw [hv1, hv2] at hvs
      cases hvs
      rw [hx1 n hn, hx2 n hn]
  intro n
  by_cases hd : DefinedIn tr1 n
  · exact claim tr1.length tr1 [] rfl (by simp) n hd
  · rw [evalStmts_frame sem tr1 [] env1 he1 n hd,
      evalStmts_frame sem tr2 [] env2 he2 n (fun h => hd ((hdef n).mpr h))]

/-! ### the resolver's output in a closed, clash-free, acyclic table -/

theorem mem_stmtsOf {o : Option Nat} {k : Nat} {ns us : List Nat} {tr : List Event} :
    (k, ns, us) ∈ stmtsOf o tr ↔ Event.stmt o k ns us ∈ tr := by
  induction tr with
  | nil => simp
  | cons e tr ih =>
    cases e with
    | enter m => simp [ih]
    | exit m => simp [ih]
    | stmt o' k' ns' us' =>
      rw [stmtsOf_stmt]
      by_cases h : o' = o
      · subst h; simp [ih]
      · simp only [if_neg h, ih, List.mem_cons, Event.stmt.injEq]
        constructor
        · intro h'; exact Or.inr h'
        · rintro (⟨h0, _⟩ | h'); exact absurd h0.symm h; exact h'

theorem defsOf_bounds : ∀ (b : List Item) (i : Nat),
    (defsOf i b).Pairwise (fun x y => x.1 < y.1) ∧ ∀ x ∈ defsOf i b, i ≤ x.1 := by
  intro b
  induction b with
  | nil => intro i; simp [defsOf]
  | cons it rest ih =>
    intro i
    obtain ⟨p, lb⟩ := ih (i + 1)
    cases it with
    | use m =>
      simp only [defsOf]
      exact ⟨p, fun x hx => by have := lb x hx; omega⟩
    | defn ns us =>
      simp only [defsOf, List.pairwise_cons, List.mem_cons]
      refine ⟨⟨fun x hx => by have := lb x hx; simp; omega, p⟩, ?_⟩
      rintro x (rfl | hx)
      · simp
      · have := lb x hx; omega

theorem defsOf_map_use (ms : List Nat) (i : Nat) : defsOf i (ms.map Item.use) = [] := by
  induction ms generalizing i with
  | nil => rfl
  | cons m ms ih => simp only [List.map_cons, defsOf, ih]

theorem usesOf_map_use (ms : List Nat) : usesOf (ms.map Item.use) = ms := by
  induction ms with
  | nil => rfl
  | cons m ms ih => simp only [List.map_cons, usesOf, ih]

/-- a statement in the trace of a fresh session whose input consists of `use` lines comes from an entered module
and is a statement of that module's source -/
theorem Run.stmt_source {t} {roots : List Nat} {imp' tr} (h : Run t none 0 [] (roots.map Item.use) imp' tr)
    {o k ns us} (hm : Event.stmt o k ns us ∈ tr) :
    ∃ M b, o = some M ∧ M ∈ entered tr ∧ body t M = some b ∧ b[k]? = some (Item.defn ns us) ∧
      stmtsOf (some M) tr = defsOf 0 b := by
  have hmem : (k, ns, us) ∈ stmtsOf o tr := mem_stmtsOf.mpr hm
  cases o with
  | none =>
    rw [h.stmtsOf_self (originOk_none []), defsOf_map_use] at hmem
    simp at hmem
  | some M =>
    by_cases hent : M ∈ entered tr
    · obtain ⟨b, hb⟩ := h.entered_body M hent
      have hs := h.stmtsOf_entered (originOk_none []) M hent b hb
      rw [hs] at hmem
      exact ⟨M, b, rfl, hent, hb, mem_defsOf_zero.mp hmem, hs⟩
    · rw [h.stmtsOf_other (some M) (by simp) (by intro m' h'; cases h'; exact hent)] at hmem
      simp at hmem

/-- in an acyclic table: once a module is exited, everything it reaches is exited -/
theorem Run.exited_reach {t prog imp' tr} (h : Run t none 0 [] prog imp' tr) (hac : Acyclic t) :
    ∀ a r, tr = a ++ r → ∀ x D, Reach t x D → x ∈ exited a → D ∈ exited a := by
  intro a r hsp x D hr
  induction hr with
  | refl => exact fun hx => hx
  | @step x b n D hb hn _ ih =>
    intro hx
    apply ih
    obtain ⟨a1, a2, rfl⟩ := List.append_of_mem (mem_exited.mp hx)
    have hsp' : tr = a1 ++ .exit x :: (a2 ++ r) := by simp [hsp]
    have ok0 : SrcOk t none 0 prog [] := by intro M b h; cases h
    obtain ⟨j, hj⟩ := List.getElem?_of_mem (mem_usesOf.mp hn)
    have hin := (h.uses_before ok0 a1 _ _ hsp' x b hb).2 rfl j n hj
    simp only [List.nil_append] at hin
    by_cases hex : n ∈ exited a1
    · simp [hex]
    · exact absurd (h.open_reach a1 _ _ hsp' x rfl n hin hex) (hac.no_back hb hn)

theorem Run.respects {V} {t} {roots : List Nat} {imp' tr} (h : Run t none 0 [] (roots.map Item.use) imp' tr)
    (hcl : Closed t) (hac : Acyclic t) : Respects ([] : Env V) tr := by
  intro pre o k ns us post hsp u hu
  right
  obtain ⟨M, b, rfl, hent, hb, hk, hs⟩ :=
    h.stmt_source (o := o) (k := k) (ns := ns) (us := us) (by rw [hsp]; simp)
  have ok0 : SrcOk t none 0 (roots.map Item.use) [] := by intro M b h; cases h
  rcases hcl M b hb k ns us hk u hu with ⟨j, ns', us', hj, hbj, hun⟩ | ⟨j, N, D, bD, k', ns', us', hj, hbj, hreach, hbD, hk', hun⟩
  · -- introduced earlier in the same module
    have hmem : (j, ns', us') ∈ defsOf 0 b := mem_defsOf_zero.mpr hbj
    rw [← hs, hsp, stmtsOf_append, stmtsOf_stmt, if_pos rfl] at hmem
    have hpw := (defsOf_bounds b 0).1
    rw [← hs, hsp, stmtsOf_append, stmtsOf_stmt, if_pos rfl, List.pairwise_append] at hpw
    rcases List.mem_append.mp hmem with hm | hm
    · exact ⟨some M, j, ns', us', mem_stmtsOf.mp hm, hun⟩
    · rcases List.mem_cons.mp hm with h0 | h0
      · cases h0; omega
      · have := (List.pairwise_cons.mp hpw.2.1).1 _ h0
        simp at this; omega
  · -- introduced by a module in the closure of an earlier `use` line
    have hin := (h.uses_before ok0 pre _ post hsp M b hb).1 k ns us rfl j N hj hbj
    simp only [List.nil_append] at hin
    have hex : N ∈ exited pre := by
      by_cases hex : N ∈ exited pre
      · exact hex
      · exact absurd (h.open_reach pre _ post hsp M rfl N hin hex)
          (hac.no_back hb (mem_usesOf_of_getElem? hbj))
    have hexD : D ∈ exited pre := h.exited_reach hac pre _ hsp N D hreach hex
    have hcomp := h.exited_complete (originOk_none []) pre _ hsp D hexD bD hbD
    have hmem : (k', ns', us') ∈ stmtsOf (some D) pre := by
      rw [hcomp]; exact mem_defsOf_zero.mpr hk'
    exact ⟨some D, k', ns', us', mem_stmtsOf.mp hmem, hun⟩

theorem Run.noRebind {t} {roots : List Nat} {imp' tr} (h : Run t none 0 [] (roots.map Item.use) imp' tr)
    (hcf : ClashFree t) : NoRebind tr := by
  intro pre o k ns us post hsp n hn ⟨o', k', ns', us', hm', hn'⟩
  obtain ⟨M, b, rfl, _, hb, hk, hs⟩ := h.stmt_source (o := o) (k := k) (ns := ns) (us := us) (by rw [hsp]; simp)
  obtain ⟨M', b', rfl, _, hb', hk', _⟩ :=
    h.stmt_source (o := o') (k := k') (ns := ns') (us := us') (by rw [hsp]; simp [hm'])
  obtain ⟨rfl, rfl⟩ := hcf M b k ns us M' b' k' ns' us' hb hk hb' hk' n hn hn'
  have hpw := (defsOf_bounds b 0).1
  rw [← hs, hsp, stmtsOf_append, stmtsOf_stmt, if_pos rfl, List.pairwise_append] at hpw
  have := (List.pairwise_cons.mp hpw.2.1).1 _ (mem_stmtsOf.mpr hm')
  simp at this

theorem mem_stmts {e : Event} {tr : List Event} : e ∈ stmts tr ↔ e ∈ tr ∧ ∃ o k ns us, e = .stmt o k ns us := by
  induction tr with
  | nil => simp
  | cons x tr ih =>
    cases x with
    | enter m =>
      simp only [stmts_enter, ih, List.mem_cons]
      constructor
      · rintro ⟨h, w⟩; exact ⟨Or.inr h, w⟩
      · rintro ⟨h | h, o, k, ns, us, rfl⟩
        · cases h
        · exact ⟨h, o, k, ns, us, rfl⟩
    | exit m =>
      simp only [stmts_exit, ih, List.mem_cons]
      constructor
      · rintro ⟨h, w⟩; exact ⟨Or.inr h, w⟩
      · rintro ⟨h | h, o, k, ns, us, rfl⟩
        · cases h
        · exact ⟨h, o, k, ns, us, rfl⟩
    | stmt o k ns us =>
      simp only [stmts_stmt, List.mem_cons, ih]
      constructor
      · rintro (rfl | ⟨h, w⟩)
        · exact ⟨Or.inl rfl, o, k, ns, us, rfl⟩
        · exact ⟨Or.inr h, w⟩
      · rintro ⟨h | h, w⟩
        · exact Or.inl h
        · exact Or.inr ⟨h, w⟩

theorem defEvents_map_use (o : Option Nat) (ms : List Nat) (i : Nat) : defEvents o i (ms.map Item.use) = [] := by
  induction ms generalizing i with
  | nil => rfl
  | cons m ms ih => simp only [List.map_cons, defEvents, ih]

/-- the position counter only numbers the statements of the source itself -/
theorem inlItems_uses_index (t : Table) (recur) (o : Option Nat) (ms : List Nat) :
    ∀ i j imp, inlItems t recur o i imp (ms.map Item.use) = inlItems t recur o j imp (ms.map Item.use) := by
  induction ms with
  | nil => intro i j imp; rfl
  | cons m ms ih =>
    intro i j imp
    simp only [List.map_cons, inlItems]
    split
    · exact ih _ _ _
    · cases body t m with
      | none => rfl
      | some b =>
        simp only
        cases recur (imp ++ [m]) m b with
        | mk imp1 r1 =>
          cases r1 with
          | error e => rfl
          | ok tr1 => simp only; rw [ih (i + 1) (j + 1) imp1]

end NumbatModel.Modules
