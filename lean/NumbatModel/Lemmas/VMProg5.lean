import NumbatModel.Lemmas.VMProg4
/-!
Helper lemmas for C09, part 18: all statements of an input; from `runN` to `run`.
-/
namespace NumbatModel.VM
open NumbatModel.Core
variable {ν : Type}

theorem stmts_ok {S : Sem ν} {Ifin : Interp ν} {sfin : TopStatic ν} (hfin : InvS Ifin sfin) (hsz : Sizes Ifin)
    (fuel : Nat) : ∀ (stmts : List (Stmt ν)) {I I' : Interp ν} {st : TopState ν},
    InvS I st.static → compileStmts I stmts = .ok I' → (∀ x ∈ stmts, fitsStmt x) → Grow I' Ifin →
    GrowS (stmts.foldl declare st.static) sfin → st.gvals.length = st.static.gnames.length →
    (∀ st', execStmts S (tableOf sfin) fuel st stmts = .ok st' →
      Runs S Ifin.prog (topMachine I.mainCode.length st) (topMachine I'.mainCode.length st') ∧
      st'.static = stmts.foldl declare st.static ∧ st'.gvals.length = st'.static.gnames.length) ∧
    (∀ err, execStmts S (tableOf sfin) fuel st stmts = .err err →
      Fails S Ifin.prog (topMachine I.mainCode.length st) err)
  | [], I, I', st, _, hc, _, _, _, hlen => by
    simp only [compileStmts] at hc; injection hc with hc; subst hc
    refine ⟨?_, ?_⟩
    · intro st' hv
      simp only [execStmts] at hv; injection hv with hv; subst hv
      exact ⟨Runs.refl _ _ _, rfl, hlen⟩
    · intro err he; simp [execStmts] at he
  | s :: ss, I, I', st, h, hc, hfit, hgI', hgs, hlen => by
    simp only [compileStmts, Res.bind_eq_ok] at hc
    obtain ⟨I1, h1, h2⟩ := hc
    obtain ⟨ch0, rest, hch, _, _⟩ := h.chunks_cons
    obtain ⟨_, ch0', rest', hch1⟩ := compileStmt_grow hch s h1
    have hg1 : Grow I1 Ifin := (compileStmts_grow ss hch1 h2).trans hgI'
    have hsz1 : Sizes I1 := Sizes.of_grow hch1 hg1 hsz
    obtain ⟨hi1, _⟩ := compileStmt_inv h s h1 (hfit s (by simp)) hsz1
    have hgs1 : GrowS (declare st.static s) sfin := by
      simp only [List.foldl_cons] at hgs
      exact (foldl_declare_grow ss _).trans hgs
    have hs := stmt_ok (S := S) hfin hsz fuel s h h1 (hfit s (by simp)) hg1 hgs1 hlen
    refine ⟨?_, ?_⟩
    · intro st' hv
      simp only [execStmts, Res.bind_eq_ok] at hv
      obtain ⟨st1, hv1, hv2⟩ := hv
      obtain ⟨r1, hst1, hlen1⟩ := hs.1 st1 hv1
      have ih := stmts_ok (S := S) hfin hsz fuel ss (I := I1) (I' := I') (st := st1) (by rw [hst1]; exact hi1) h2
        (fun x hx => hfit x (by simp [hx])) hgI' (by rw [hst1]; simpa using hgs) hlen1
      obtain ⟨r2, hst', hlen'⟩ := ih.1 st' hv2
      exact ⟨r1.trans r2, by rw [hst', hst1]; rfl, hlen'⟩
    · intro err he
      simp only [execStmts, Res.bind_eq_err] at he
      rcases he with he | ⟨st1, hv1, he⟩
      · exact hs.2 err he
      · obtain ⟨r1, hst1, hlen1⟩ := hs.1 st1 hv1
        have ih := stmts_ok (S := S) hfin hsz fuel ss (I := I1) (I' := I') (st := st1) (by rw [hst1]; exact hi1) h2
          (fun x hx => hfit x (by simp [hx])) hgI' (by rw [hst1]; simpa using hgs) hlen1
        exact r1.fails (ih.2 err he)

/-- `run` (the loop of `run_without_cleanup`) from `runN` -/
theorem run_done_of_runN {S : Sem ν} {P : Prog ν} : ∀ (n : Nat) {m m' : Machine ν},
    runN S P n m = .next m' → step S P m' = .halt → run S P (n + 1) m = .done m'
  | 0, m, m', h, hh => by
    simp only [runN] at h; injection h with h; subst h
    simp [run, hh]
  | n + 1, m, m', h, hh => by
    simp only [runN] at h
    cases hs : step S P m with
    | next m1 =>
      rw [hs] at h
      simp only [run, hs]
      exact run_done_of_runN n h hh
    | halt => rw [hs] at h; cases h
    | err e => rw [hs] at h; cases h
    | panic msg => rw [hs] at h; cases h

theorem run_err_of_runN {S : Sem ν} {P : Prog ν} {e : Err} : ∀ (n : Nat) {m : Machine ν},
    runN S P n m = .err e → ∃ out, run S P n m = .err e out
  | 0, m, h => by simp [runN] at h
  | n + 1, m, h => by
    simp only [runN] at h
    cases hs : step S P m with
    | next m1 =>
      rw [hs] at h
      obtain ⟨out, ho⟩ := run_err_of_runN n h
      exact ⟨out, by simp [run, hs, ho]⟩
    | halt => rw [hs] at h; cases h
    | err e' =>
      rw [hs] at h; injection h with h; subst h
      exact ⟨m.out, by simp [run, hs]⟩
    | panic msg => rw [hs] at h; cases h

/-- at the end of the main chunk the machine halts -/
theorem step_halt_top {S : Sem ν} {I : Interp ν} {s : TopStatic ν} (h : InvS I s) (st : TopState ν) :
    step S I.prog (topMachine I.mainCode.length st) = .halt := by
  obtain ⟨ch0, rest, hch, _, _⟩ := h.chunks_cons
  have : I.mainCode = ch0.code := by simp [Interp.mainCode, hch]
  simp [step, topMachine, Interp.prog, hch, this]

end NumbatModel.VM
