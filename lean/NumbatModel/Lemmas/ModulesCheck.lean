import NumbatModel.Lemmas.Modules
/-!
Executable checkers for the hypotheses of `order_independent` on a concrete table (the regenerated standard
library, `Gen/Modules.lean`) and their soundness.  The obligations in `Oblig/Modules.lean` evaluate the checkers
in the kernel (`decide +kernel`); every checker is a linear pass over the table plus list membership, written
with `Nat.beq`/`Nat.blt` so that the kernel's fast natural-number arithmetic is used.
-/
namespace NumbatModel.Modules

def memNat (a : Nat) : List Nat → Bool
  | [] => false
  | b :: l => Nat.beq a b || memNat a l

def allMem (avail : List Nat) : List Nat → Bool
  | [] => true
  | u :: us => memNat u avail && allMem avail us

theorem memNat_iff {a : Nat} {l : List Nat} : memNat a l = true ↔ a ∈ l := by
  induction l with
  | nil => simp [memNat]
  | cons b l ih => simp [memNat, ih]

theorem allMem_iff {avail us : List Nat} : allMem avail us = true ↔ ∀ u ∈ us, u ∈ avail := by
  induction us with
  | nil => simp [allMem]
  | cons u us ih => simp [allMem, ih, memNat_iff]

/-- every `use` line names a module the importer knows -/
def usesExistB (t : Table) : Bool :=
  t.all fun p => (usesOf p.2).all fun n => (body t n).isSome

def rankOf (r : List Nat) (m : Nat) : Nat := r.getD m 0

/-- the certificate `r` decreases along every `use` line -/
def acyclicB (t : Table) (r : List Nat) : Bool :=
  t.all fun p => (usesOf p.2).all fun n => Nat.blt (rankOf r n) (rankOf r p.1)

/-- names introduced by the statements of a source, in textual order -/
def namesOfBody (b : List Item) : List Nat := (defsOf 0 b).flatMap (fun d => d.2.1)

/-- all names introduced anywhere, in table order -/
def allNames (t : Table) : List Nat := t.flatMap fun p => namesOfBody p.2

def strictlyIncreasing : List Nat → Bool
  | a :: b :: l => Nat.blt a b && strictlyIncreasing (b :: l)
  | _ => true

/-- no name is introduced twice (the generator numbers names in order of first definition) -/
def clashFreeB (t : Table) : Bool := strictlyIncreasing (allNames t)

def closOf (c : List (List Nat)) (m : Nat) : List Nat := c.getD m []

/-- the closure certificate lists nothing that is not reachable: every entry for `m` is `m` or an entry for a
module `m` names in a `use` line -/
def closCertB (t : Table) (c : List (List Nat)) : Bool :=
  t.all fun p => (closOf c p.1).all fun d => Nat.beq d p.1 || (usesOf p.2).any fun n => memNat d (closOf c n)

/-- statement by statement: every used name is among the names available at that point — introduced earlier
in the same source, or by a module in the (certified) closure of a module named by an earlier `use` line -/
def closedItemsB (t : Table) (c : List (List Nat)) : List Nat → List Item → Bool
  | _, [] => true
  | avail, .use n :: rest =>
    closedItemsB t c ((closOf c n).flatMap (fun d => namesOfBody ((body t d).getD [])) ++ avail) rest
  | avail, .defn ns us :: rest => allMem avail us && closedItemsB t c (ns ++ avail) rest

def closedB (t : Table) (c : List (List Nat)) : Bool := t.all fun p => closedItemsB t c [] p.2

/-- no type parameter of a generic definition is also the name of a type defined somewhere (numbat rejects
`fn f<T>` once a type `T` exists, so such a pair of modules would import in one order only) -/
def typeParamsB (t : Table) (tps : List Nat) : Bool := tps.all fun p => !memNat p (allNames t)

/-! ### soundness -/

theorem usesExistB_sound {t : Table} (h : usesExistB t = true) : UsesExist t := by
  intro m b hb n hn
  have hmem := mem_of_body hb
  simp only [usesExistB, List.all_eq_true] at h
  have := h (m, b) hmem n hn
  intro hnone
  rw [hnone] at this
  simp at this

theorem acyclicB_sound {t : Table} {r : List Nat} (h : acyclicB t r = true) : Acyclic t := by
  refine ⟨rankOf r, ?_⟩
  intro m b n hb hn
  have hmem := mem_of_body hb
  simp only [acyclicB, List.all_eq_true] at h
  have := h (m, b) hmem n hn
  simpa [Nat.blt_eq] using this

theorem strictlyIncreasing_pairwise : ∀ l : List Nat, strictlyIncreasing l = true → l.Pairwise (· < ·)
  | [] => fun _ => List.Pairwise.nil
  | [a] => fun _ => by simp
  | a :: b :: l => fun h => by
    simp only [strictlyIncreasing, Bool.and_eq_true, Nat.blt_eq] at h
    have ih := strictlyIncreasing_pairwise (b :: l) h.2
    rw [List.pairwise_cons]
    refine ⟨?_, ih⟩
    intro x hx
    rcases List.mem_cons.mp hx with rfl | hx
    · exact h.1
    · exact Nat.lt_trans h.1 ((List.pairwise_cons.mp ih).1 x hx)

theorem nodup_of_pairwise_lt {l : List Nat} (h : l.Pairwise (· < ·)) : l.Nodup := by
  induction h with
  | nil => exact List.nodup_nil
  | cons hx _ ih =>
    rw [List.nodup_cons]
    exact ⟨fun hmem => Nat.lt_irrefl _ (hx _ hmem), ih⟩

theorem flatMap_nodup_inj {α β : Type} {f : α → List β} : ∀ {l : List α}, (l.flatMap f).Nodup →
    ∀ x ∈ l, ∀ y ∈ l, ∀ n, n ∈ f x → n ∈ f y → x = y := by
  intro l
  induction l with
  | nil => intro _ x hx; simp at hx
  | cons a l ih =>
    intro h x hx y hy n hnx hny
    rw [List.flatMap_cons, List.nodup_append] at h
    obtain ⟨_, h2, h3⟩ := h
    rcases List.mem_cons.mp hx with hx' | hx' <;> rcases List.mem_cons.mp hy with hy' | hy'
    · rw [hx', hy']
    · subst hx'
      exact absurd rfl (h3 n hnx n (List.mem_flatMap.mpr ⟨y, hy', hny⟩))
    · subst hy'
      exact absurd rfl (h3 n hny n (List.mem_flatMap.mpr ⟨x, hx', hnx⟩))
    · exact ih h2 x hx' y hy' n hnx hny

theorem flatMap_nodup_inner {α β : Type} {f : α → List β} : ∀ {l : List α}, (l.flatMap f).Nodup →
    ∀ x ∈ l, (f x).Nodup := by
  intro l
  induction l with
  | nil => intro _ x hx; simp at hx
  | cons a l ih =>
    intro h x hx
    rw [List.flatMap_cons, List.nodup_append] at h
    rcases List.mem_cons.mp hx with rfl | hx
    · exact h.1
    · exact ih h.2.1 x hx

theorem clashFreeB_sound {t : Table} (h : clashFreeB t = true) : ClashFree t := by
  have hnd : (allNames t).Nodup := nodup_of_pairwise_lt (strictlyIncreasing_pairwise _ h)
  intro m1 b1 k1 ns1 us1 m2 b2 k2 ns2 us2 hb1 hk1 hb2 hk2 n hn1 hn2
  have hm1 := mem_of_body hb1
  have hm2 := mem_of_body hb2
  have d1 : (k1, ns1, us1) ∈ defsOf 0 b1 := mem_defsOf_zero.mpr hk1
  have d2 : (k2, ns2, us2) ∈ defsOf 0 b2 := mem_defsOf_zero.mpr hk2
  have n1 : n ∈ namesOfBody b1 := List.mem_flatMap.mpr ⟨_, d1, hn1⟩
  have n2 : n ∈ namesOfBody b2 := List.mem_flatMap.mpr ⟨_, d2, hn2⟩
  have heq := flatMap_nodup_inj (f := fun p : Nat × List Item => namesOfBody p.2) hnd (m1, b1) hm1 (m2, b2) hm2 n n1 n2
  cases heq
  refine ⟨rfl, ?_⟩
  have hin := flatMap_nodup_inner (f := fun p : Nat × List Item => namesOfBody p.2) hnd (m1, b1) hm1
  have := flatMap_nodup_inj (f := fun d : Nat × List Nat × List Nat => d.2.1) hin _ d1 _ d2 n hn1 hn2
  exact congrArg (·.1) this

/-- what a sound closure certificate says -/
def ClosSound (t : Table) (c : List (List Nat)) : Prop :=
  ∀ m b d, body t m = some b → d ∈ closOf c m → Reach t m d

theorem closCertB_sound {t : Table} {c : List (List Nat)} (hu : UsesExist t) (ha : Acyclic t)
    (h : closCertB t c = true) : ClosSound t c := by
  obtain ⟨rank, hr⟩ := ha
  -- induction on the rank of the module
  have key : ∀ k m b d, rank m < k → body t m = some b → d ∈ closOf c m → Reach t m d := by
    intro k
    induction k with
    | zero => intro m b d hk; omega
    | succ k ih =>
      intro m b d hk hb hd
      have hmem := mem_of_body hb
      simp only [closCertB, List.all_eq_true] at h
      have hc := h (m, b) hmem d hd
      simp only [Bool.or_eq_true, List.any_eq_true, memNat_iff] at hc
      rcases hc with hdm | ⟨n, hn, hdn⟩
      · have : d = m := Nat.eq_of_beq_eq_true hdm
        subst this
        exact .refl _
      · have hlt := hr m b n hb hn
        cases hbn : body t n with
        | none => exact absurd hbn (hu m b hb n hn)
        | some bn => exact .step hb hn (ih n bn d (by omega) hbn hdn)
  intro m b d hb hd
  exact key (rank m + 1) m b d (by omega) hb hd

theorem closedItemsB_sound {t : Table} {c : List (List Nat)} (hue : UsesExist t) (hc : ClosSound t c)
    {m : Nat} {b : List Item} (hb : body t m = some b) :
    ∀ (items : List Item) (i : Nat) (avail : List Nat), b.drop i = items →
      (∀ u ∈ avail,
        (∃ (j : Nat) (ns' us' : List Nat), j < i ∧ b[j]? = some (Item.defn ns' us') ∧ u ∈ ns') ∨
        (∃ (j N D : Nat) (bD : List Item) (k : Nat) (ns' us' : List Nat), j < i ∧ b[j]? = some (Item.use N) ∧
          Reach t N D ∧ body t D = some bD ∧ bD[k]? = some (Item.defn ns' us') ∧ u ∈ ns')) →
      closedItemsB t c avail items = true →
      ∀ (k : Nat) ns us, i ≤ k → b[k]? = some (Item.defn ns us) → ∀ u ∈ us,
        (∃ (j : Nat) (ns' us' : List Nat), j < k ∧ b[j]? = some (Item.defn ns' us') ∧ u ∈ ns') ∨
        (∃ (j N D : Nat) (bD : List Item) (k' : Nat) (ns' us' : List Nat), j < k ∧ b[j]? = some (Item.use N) ∧
          Reach t N D ∧ body t D = some bD ∧ bD[k']? = some (Item.defn ns' us') ∧ u ∈ ns') := by
  intro items
  induction items with
  | nil =>
    intro i avail hd _ _ k ns us hik hk
    have : b.length ≤ i := by
      have := congrArg List.length hd
      simp at this; omega
    have : b[k]? = none := by simp; omega
    rw [this] at hk; cases hk
  | cons it rest ih =>
    intro i avail hd hav hchk k ns us hik hk u hu'
    have hi : b[i]? = some it := by
      have := congrArg (fun l => l[0]?) hd
      simpa using this
    have hd' : b.drop (i + 1) = rest := by
      have : b.drop (i + 1) = (b.drop i).drop 1 := by simp [List.drop_drop]
      rw [this, hd]; rfl
    -- weakening of the availability invariant to position i+1
    have weaken : ∀ u ∈ avail,
        (∃ (j : Nat) (ns' us' : List Nat), j < i + 1 ∧ b[j]? = some (Item.defn ns' us') ∧ u ∈ ns') ∨
        (∃ (j N D : Nat) (bD : List Item) (k : Nat) (ns' us' : List Nat), j < i + 1 ∧ b[j]? = some (Item.use N) ∧
          Reach t N D ∧ body t D = some bD ∧ bD[k]? = some (Item.defn ns' us') ∧ u ∈ ns') := by
      intro u hu
      rcases hav u hu with ⟨j, ns', us', hj, h1, h2⟩ | ⟨j, N, D, bD, k, ns', us', hj, h1, h2⟩
      · exact Or.inl ⟨j, ns', us', by omega, h1, h2⟩
      · exact Or.inr ⟨j, N, D, bD, k, ns', us', by omega, h1, h2⟩
    cases it with
    | defn ns0 us0 =>
      simp only [closedItemsB, Bool.and_eq_true, allMem_iff] at hchk
      by_cases hki : k = i
      · subst hki
        rw [hi] at hk
        simp only [Option.some.injEq, Item.defn.injEq] at hk
        obtain ⟨rfl, rfl⟩ := hk
        exact hav u (hchk.1 u hu')
      · refine ih (i + 1) (ns0 ++ avail) hd' ?_ hchk.2 k ns us (by omega) hk u hu'
        intro u hu
        rcases List.mem_append.mp hu with hu | hu
        · exact Or.inl ⟨i, ns0, us0, by omega, hi, hu⟩
        · exact weaken u hu
    | use n =>
      simp only [closedItemsB] at hchk
      have hki : k ≠ i := by
        intro h; subst h; rw [hi] at hk; cases hk
      refine ih (i + 1) _ hd' ?_ hchk k ns us (by omega) hk u hu'
      intro u hu
      rcases List.mem_append.mp hu with hu | hu
      · obtain ⟨d, hd1, hd2⟩ := List.mem_flatMap.mp hu
        cases hbd : body t d with
        | none => rw [hbd] at hd2; simp [namesOfBody, defsOf] at hd2
        | some bD =>
          rw [hbd] at hd2
          simp only [Option.getD_some] at hd2
          obtain ⟨⟨k', ns', us'⟩, hk1, hk2⟩ := List.mem_flatMap.mp hd2
          have hn : n ∈ usesOf b := mem_usesOf_of_getElem? hi
          cases hbn : body t n with
          | none => exact absurd hbn (hue m b hb n hn)
          | some bn =>
            exact Or.inr ⟨i, n, d, bD, k', ns', us', by omega, hi, hc n bn d hbn hd1, hbd,
              mem_defsOf_zero.mp hk1, hk2⟩
      · exact weaken u hu

theorem closedB_sound {t : Table} {c : List (List Nat)} (hu : UsesExist t) (hc : ClosSound t c)
    (h : closedB t c = true) : Closed t := by
  intro m b hb i ns us hi u hu'
  have hmem := mem_of_body hb
  simp only [closedB, List.all_eq_true] at h
  have := h (m, b) hmem
  exact closedItemsB_sound hu hc hb b 0 [] (by simp) (by intro u hu; simp at hu) this i ns us (by omega) hi u hu'

end NumbatModel.Modules
