import NumbatModel.Model.Modules
/-!
Helper lemmas for C17 (`Props/C17.lean`): a big-step description `Run` of the successful runs of the
inlining loop, the model is sound for it, and structural facts proved by induction on `Run`.
-/
namespace NumbatModel.Modules

/-- Successful runs of the loop of `inlining_pass` over `items` (numbered from `i`) of source `o`, starting
with `imported_modules = imp`: the list afterwards and the trace. -/
inductive Run (t : Table) : Option Nat → Nat → List Nat → List Item → List Nat → List Event → Prop
  | nil {o i imp} : Run t o i imp [] imp []
  | defn {o i imp ns us rest imp' tr} :
      Run t o (i + 1) imp rest imp' tr →
      Run t o i imp (.defn ns us :: rest) imp' (.stmt o i ns us :: tr)
  | skip {o i imp m rest imp' tr} :
      m ∈ imp → Run t o (i + 1) imp rest imp' tr → Run t o i imp (.use m :: rest) imp' tr
  | enter {o i imp m b rest imp1 tr1 imp2 tr2} :
      m ∉ imp → body t m = some b →
      Run t (some m) 0 (imp ++ [m]) b imp1 tr1 →
      Run t o (i + 1) imp1 rest imp2 tr2 →
      Run t o i imp (.use m :: rest) imp2 (.enter m :: tr1 ++ .exit m :: tr2)

/-! ### the executable model is sound for `Run` -/

theorem inlItems_run (t : Table) (recur : List Nat → Nat → List Item → Res)
    (hrec : ∀ imp m b imp' tr, recur imp m b = (imp', .ok tr) → Run t (some m) 0 imp b imp' tr)
    (o : Option Nat) :
    ∀ items i imp imp' tr, inlItems t recur o i imp items = (imp', .ok tr) → Run t o i imp items imp' tr := by
  intro items
  induction items with
  | nil =>
    intro i imp imp' tr h
    simp only [inlItems, Prod.mk.injEq, Except.ok.injEq] at h
    obtain ⟨rfl, rfl⟩ := h
    exact .nil
  | cons it rest ih =>
    intro i imp imp' tr h
    cases it with
    | defn ns us =>
      simp only [inlItems] at h
      generalize hr : inlItems t recur o (i + 1) imp rest = r at h
      obtain ⟨imp1, res⟩ := r
      cases res with
      | error e => simp at h
      | ok tr1 =>
        simp only [Prod.mk.injEq, Except.ok.injEq] at h
        obtain ⟨rfl, rfl⟩ := h
        exact .defn (ih _ _ _ _ hr)
    | use m =>
      simp only [inlItems] at h
      by_cases hm : imp.contains m = true
      · rw [if_pos hm] at h
        exact .skip (by simpa using hm) (ih _ _ _ _ h)
      · rw [if_neg hm] at h
        have hm' : m ∉ imp := by simpa using hm
        cases hb : body t m with
        | none => rw [hb] at h; simp at h
        | some b =>
          rw [hb] at h
          simp only at h
          generalize hr1 : recur (imp ++ [m]) m b = r1 at h
          obtain ⟨imp1, res1⟩ := r1
          cases res1 with
          | error e => simp at h
          | ok tr1 =>
            simp only at h
            generalize hr2 : inlItems t recur o (i + 1) imp1 rest = r2 at h
            obtain ⟨imp2, res2⟩ := r2
            cases res2 with
            | error e => simp at h
            | ok tr2 =>
              simp only [Prod.mk.injEq, Except.ok.injEq] at h
              obtain ⟨rfl, rfl⟩ := h
              exact .enter hm' hb (hrec _ _ _ _ _ hr1) (ih _ _ _ _ hr2)

theorem inlMod_run (t : Table) :
    ∀ fuel imp m b imp' tr, inlMod t fuel imp m b = (imp', .ok tr) → Run t (some m) 0 imp b imp' tr := by
  intro fuel
  induction fuel with
  | zero => intro imp m b imp' tr h; simp [inlMod] at h
  | succ n ih =>
    intro imp m b imp' tr h
    simp only [inlMod] at h
    exact inlItems_run t (inlMod t n) ih (some m) b 0 imp imp' tr h

theorem resolve_run {t : Table} {imp prog imp' tr} (h : resolve t imp prog = (imp', .ok tr)) :
    Run t none 0 imp prog imp' tr :=
  inlItems_run t _ (inlMod_run t t.length) none prog 0 imp imp' tr h

/-! ### views -/

@[simp] theorem entered_nil : entered [] = [] := rfl
@[simp] theorem entered_enter (m tr) : entered (.enter m :: tr) = m :: entered tr := rfl
@[simp] theorem entered_stmt (o i ns us tr) : entered (.stmt o i ns us :: tr) = entered tr := rfl
@[simp] theorem entered_exit (m tr) : entered (.exit m :: tr) = entered tr := rfl
@[simp] theorem exited_nil : exited [] = [] := rfl
@[simp] theorem exited_enter (m tr) : exited (.enter m :: tr) = exited tr := rfl
@[simp] theorem exited_stmt (o i ns us tr) : exited (.stmt o i ns us :: tr) = exited tr := rfl
@[simp] theorem exited_exit (m tr) : exited (.exit m :: tr) = m :: exited tr := rfl
@[simp] theorem stmts_nil : stmts [] = [] := rfl
@[simp] theorem stmts_enter (m tr) : stmts (.enter m :: tr) = stmts tr := rfl
@[simp] theorem stmts_stmt (o i ns us tr) : stmts (.stmt o i ns us :: tr) = .stmt o i ns us :: stmts tr := rfl
@[simp] theorem stmts_exit (m tr) : stmts (.exit m :: tr) = stmts tr := rfl
@[simp] theorem stmtsOf_nil (o) : stmtsOf o [] = [] := rfl
@[simp] theorem stmtsOf_enter (o m tr) : stmtsOf o (.enter m :: tr) = stmtsOf o tr := rfl
@[simp] theorem stmtsOf_exit (o m tr) : stmtsOf o (.exit m :: tr) = stmtsOf o tr := rfl
theorem stmtsOf_stmt (o o' i ns us tr) :
    stmtsOf o (.stmt o' i ns us :: tr) = if o' = o then (i, ns, us) :: stmtsOf o tr else stmtsOf o tr := rfl

@[simp] theorem entered_append (a b : List Event) : entered (a ++ b) = entered a ++ entered b := by
  induction a with
  | nil => rfl
  | cons e a ih => cases e <;> simp [ih]

@[simp] theorem exited_append (a b : List Event) : exited (a ++ b) = exited a ++ exited b := by
  induction a with
  | nil => rfl
  | cons e a ih => cases e <;> simp [ih]

@[simp] theorem stmts_append (a b : List Event) : stmts (a ++ b) = stmts a ++ stmts b := by
  induction a with
  | nil => rfl
  | cons e a ih => cases e <;> simp [ih]

@[simp] theorem stmtsOf_append (o) (a b : List Event) : stmtsOf o (a ++ b) = stmtsOf o a ++ stmtsOf o b := by
  induction a with
  | nil => rfl
  | cons e a ih =>
    cases e with
    | enter m => simp [ih]
    | exit m => simp [ih]
    | stmt o' i ns us =>
      simp only [List.cons_append, stmtsOf_stmt]
      split <;> simp [ih]

theorem mem_entered {m : Nat} {tr : List Event} : m ∈ entered tr ↔ Event.enter m ∈ tr := by
  induction tr with
  | nil => simp
  | cons e tr ih => cases e <;> simp [ih]

theorem mem_exited {m : Nat} {tr : List Event} : m ∈ exited tr ↔ Event.exit m ∈ tr := by
  induction tr with
  | nil => simp
  | cons e tr ih => cases e <;> simp [ih]

/-! ### `imported_modules` only grows, by the entered modules, each new -/

theorem Run.imported {t o i imp items imp' tr} (h : Run t o i imp items imp' tr) :
    imp' = imp ++ entered tr := by
  induction h with
  | nil => simp
  | defn _ ih => simpa using ih
  | skip _ _ ih => exact ih
  | enter _ _ _ _ ih1 ih2 => subst ih1; subst ih2; simp

theorem Run.fresh {t o i imp items imp' tr} (h : Run t o i imp items imp' tr) :
    (entered tr).Nodup ∧ ∀ m ∈ entered tr, m ∉ imp := by
  induction h with
  | nil => simp
  | defn _ ih => simpa using ih
  | skip _ _ ih => exact ih
  | @enter o i imp m b rest imp1 tr1 imp2 tr2 hm hb h1 h2 ih1 ih2 =>
    have e1 := h1.imported
    subst e1
    obtain ⟨n1, d1⟩ := ih1
    obtain ⟨n2, d2⟩ := ih2
    simp only [entered_enter, entered_append, entered_exit, List.cons_append]
    refine ⟨?_, ?_⟩
    · rw [List.nodup_cons]
      refine ⟨?_, ?_⟩
      · intro hmem
        rcases List.mem_append.mp hmem with h | h
        · exact d1 m h (by simp)
        · exact d2 m h (by simp)
      · rw [List.nodup_append]
        refine ⟨n1, n2, ?_⟩
        intro a ha b hb' hab
        subst hab
        exact d2 a hb' (by simp [ha])
    · intro x hx
      rcases List.mem_cons.mp hx with rfl | hx
      · exact hm
      · rcases List.mem_append.mp hx with h | h
        · intro hi; exact d1 x h (by simp [hi])
        · intro hi; exact d2 x h (by simp [hi])

/-- in the trace of a complete run every entered module is exited and vice versa -/
theorem Run.exited_iff {t o i imp items imp' tr} (h : Run t o i imp items imp' tr) :
    ∀ x, x ∈ exited tr ↔ x ∈ entered tr := by
  induction h with
  | nil => simp
  | defn _ ih => simpa using ih
  | skip _ _ ih => exact ih
  | enter _ _ _ _ ih1 ih2 =>
    intro x
    have a1 := ih1 x
    have a2 := ih2 x
    simp only [exited_enter, exited_append, exited_exit, entered_enter, entered_append, entered_exit,
      List.mem_append, List.mem_cons]
    grind

/-! ### what each source contributes -/

/-- the source being processed is itself recorded as imported (or is the input) -/
def OriginOk (o : Option Nat) (imp : List Nat) : Prop := ∀ M, o = some M → M ∈ imp

theorem OriginOk.mono {o imp imp'} (h : OriginOk o imp) (hs : ∀ x ∈ imp, x ∈ imp') : OriginOk o imp' :=
  fun M hM => hs M (h M hM)

theorem originOk_none (imp) : OriginOk none imp := by intro M h; cases h

theorem originOk_some (m imp) : OriginOk (some m) (imp ++ [m]) := by
  intro M h; cases h; simp

/-- a source that is neither the current one nor entered contributes nothing -/
theorem Run.stmtsOf_other {t o i imp items imp' tr} (h : Run t o i imp items imp' tr) :
    ∀ o', o' ≠ o → (∀ m, o' = some m → m ∉ entered tr) → stmtsOf o' tr = [] := by
  induction h with
  | nil => intros; rfl
  | defn _ ih =>
    intro o' hne hen
    rw [stmtsOf_stmt, if_neg (fun h => hne h.symm)]
    exact ih o' hne (by simpa using hen)
  | skip _ _ ih => exact ih
  | @enter o i imp m b rest imp1 tr1 imp2 tr2 hm hb h1 h2 ih1 ih2 =>
    intro o' hne hen
    simp only [stmtsOf_enter, stmtsOf_append, stmtsOf_exit]
    have hen' : ∀ m', o' = some m' → m' ≠ m ∧ m' ∉ entered tr1 ∧ m' ∉ entered tr2 := by
      intro m' hm'
      have := hen m' hm'
      simpa [not_or] using this
    rw [ih1 o' (by intro h; exact (hen' m h).1 rfl) (fun m' hm' => (hen' m' hm').2.1),
      ih2 o' hne (fun m' hm' => (hen' m' hm').2.2)]
    rfl

/-- the current source contributes its remaining definitions, in order -/
theorem Run.stmtsOf_self {t o i imp items imp' tr} (h : Run t o i imp items imp' tr) :
    OriginOk o imp → stmtsOf o tr = defsOf i items := by
  induction h with
  | nil => intro _; rfl
  | defn _ ih =>
    intro ok
    rw [stmtsOf_stmt, if_pos rfl, ih ok]
    rfl
  | skip _ _ ih => intro ok; rw [ih ok]; rfl
  | @enter o i imp m b rest imp1 tr1 imp2 tr2 hm hb h1 h2 ih1 ih2 =>
    intro ok
    have e1 := h1.imported
    simp only [stmtsOf_enter, stmtsOf_append, stmtsOf_exit]
    have hne : o ≠ some m := fun h => hm (ok m h)
    rw [h1.stmtsOf_other o hne (by
        intro m' hm' hin
        exact h1.fresh.2 m' hin (by simp [ok m' hm'])),
      ih2 (ok.mono (by intro x hx; rw [e1]; simp [hx]))]
    rfl

/-- every entered module contributes all its definitions, once, in order -/
theorem Run.stmtsOf_entered {t o i imp items imp' tr} (h : Run t o i imp items imp' tr) :
    OriginOk o imp → ∀ m ∈ entered tr, ∀ b, body t m = some b → stmtsOf (some m) tr = defsOf 0 b := by
  induction h with
  | nil => intro _ m hm; simp at hm
  | defn hr ih =>
    intro ok m hm b hb
    have hf := hr.fresh.2 m (by simpa using hm)
    rw [stmtsOf_stmt, if_neg (fun h => hf (ok m h))]
    exact ih ok m (by simpa using hm) b hb
  | skip _ _ ih => exact ih
  | @enter o i imp m0 b0 rest imp1 tr1 imp2 tr2 hm0 hb0 h1 h2 ih1 ih2 =>
    intro ok m hm b hb
    have e1 := h1.imported
    have f1 := h1.fresh
    have f2 := h2.fresh
    have ok2 : OriginOk o imp1 := ok.mono (by intro x hx; rw [e1]; simp [hx])
    simp only [stmtsOf_enter, stmtsOf_append, stmtsOf_exit]
    simp only [entered_enter, entered_append, entered_exit, List.mem_cons, List.mem_append] at hm
    have hno : ∀ x, x ∉ imp → o ≠ some x := fun x hx h => hx (ok x h)
    rcases hm with (rfl | hm) | hm
    · -- the module entered here: its body is the first part, nothing later
      rw [hb0] at hb; cases hb
      rw [h1.stmtsOf_self (originOk_some m imp),
        h2.stmtsOf_other (some m) (fun h => hno m hm0 h.symm) (by
          intro m' hm' hin; cases hm'
          exact f2.2 m hin (by rw [e1]; simp))]
      simp
    · -- entered inside the body of m0
      have hni : m ∉ imp ++ [m0] := f1.2 m hm
      rw [ih1 (originOk_some m0 imp) m hm b hb,
        h2.stmtsOf_other (some m) (fun h => hno m (by intro hi; exact hni (by simp [hi])) h.symm) (by
          intro m' hm' hin; cases hm'
          exact f2.2 m hin (by rw [e1]; simp [hm]))]
      simp
    · -- entered afterwards
      have hni : m ∉ imp1 := f2.2 m hm
      rw [h1.stmtsOf_other (some m) (by
          intro h; cases h
          exact hni (by rw [e1]; simp)) (by
          intro m' hm' hin; cases hm'
          exact hni (by rw [e1]; simp [hin])),
        ih2 ok2 m hm b hb]
      simp

/-! ### reachability along `use` lines -/

theorem mem_usesOf {items : List Item} {n : Nat} : n ∈ usesOf items ↔ Item.use n ∈ items := by
  induction items with
  | nil => simp [usesOf]
  | cons it rest ih => cases it <;> simp [usesOf, ih]

theorem mem_usesOf_of_getElem? {items : List Item} {j n : Nat} (h : items[j]? = some (.use n)) :
    n ∈ usesOf items := mem_usesOf.mpr (List.mem_of_getElem? h)

/-- `Reach t a c`: module `c` is `a` or is imported, directly or indirectly, by `a` -/
inductive Reach (t : Table) : Nat → Nat → Prop
  | refl (a) : Reach t a a
  | step {a b n c} : body t a = some b → n ∈ usesOf b → Reach t n c → Reach t a c

theorem Reach.trans {t a b c} (h1 : Reach t a b) (h2 : Reach t b c) : Reach t a c := by
  induction h1 with
  | refl => exact h2
  | step hb hn _ ih => exact .step hb hn (ih h2)

/-- the module an event belongs to -/
def Event.mod : Event → Option Nat
  | .enter m => some m
  | .exit m => some m
  | .stmt o _ _ _ => o

/-- whatever happens during a run belongs to the current source or to something a `use` line reaches -/
theorem Run.event_reach {t o i imp items imp' tr} (h : Run t o i imp items imp' tr) :
    ∀ e ∈ tr, ∀ M, e.mod = some M → o = some M ∨ ∃ n ∈ usesOf items, Reach t n M := by
  induction h with
  | nil => intro e he; simp at he
  | defn _ ih =>
    intro e he M hM
    rcases List.mem_cons.mp he with rfl | he
    · left; exact hM
    · rcases ih e he M hM with h | ⟨n, hn, hr⟩
      · left; exact h
      · right; exact ⟨n, by simpa [usesOf] using hn, hr⟩
  | skip _ _ ih =>
    intro e he M hM
    rcases ih e he M hM with h | ⟨n, hn, hr⟩
    · left; exact h
    · right; exact ⟨n, by simp [usesOf, hn], hr⟩
  | @enter o i imp m b rest imp1 tr1 imp2 tr2 hm hb h1 h2 ih1 ih2 =>
    intro e he M hM
    have hmM : ∀ e' : Event, e'.mod = some M → (e' = .enter m ∨ e' = .exit m) → ∃ n ∈ usesOf (Item.use m :: rest), Reach t n M := by
      intro e' hM' h
      have : m = M := by rcases h with rfl | rfl <;> simpa [Event.mod] using hM'
      subst this
      exact ⟨m, by simp [usesOf], .refl m⟩
    simp only [List.cons_append, List.mem_cons, List.mem_append] at he
    rcases he with rfl | he | rfl | he
    · right; exact hmM _ hM (Or.inl rfl)
    · right
      rcases ih1 e he M hM with h | ⟨n, hn, hr⟩
      · cases h; exact ⟨m, by simp [usesOf], .refl m⟩
      · exact ⟨m, by simp [usesOf], .step hb hn hr⟩
    · right; exact hmM _ hM (Or.inr rfl)
    · rcases ih2 e he M hM with h | ⟨n, hn, hr⟩
      · left; exact h
      · right; exact ⟨n, by simp [usesOf, hn], hr⟩

/-- after a run every module named by a `use` line of the source is recorded as imported -/
theorem Run.uses_imported {t o i imp items imp' tr} (h : Run t o i imp items imp' tr) :
    ∀ n ∈ usesOf items, n ∈ imp' := by
  induction h with
  | nil => intro n hn; simp [usesOf] at hn
  | defn _ ih => intro n hn; exact ih n (by simpa [usesOf] using hn)
  | skip hm hr ih =>
    intro n hn
    rcases List.mem_cons.mp (by simpa [usesOf] using hn) with rfl | hn
    · rw [hr.imported]; simp [hm]
    · exact ih n hn
  | @enter o i imp m b rest imp1 tr1 imp2 tr2 hm hb h1 h2 ih1 ih2 =>
    intro n hn
    rcases List.mem_cons.mp (by simpa [usesOf] using hn) with rfl | hn
    · rw [h2.imported, h1.imported]; simp
    · exact ih2 n hn

/-- ... and so is every module named by a `use` line of a module entered during the run -/
theorem Run.entered_uses_imported {t o i imp items imp' tr} (h : Run t o i imp items imp' tr) :
    ∀ m ∈ entered tr, ∀ b, body t m = some b → ∀ n ∈ usesOf b, n ∈ imp' := by
  induction h with
  | nil => intro m hm; simp at hm
  | defn _ ih => intro m hm; exact ih m (by simpa using hm)
  | skip _ _ ih => exact ih
  | @enter o i imp m0 b0 rest imp1 tr1 imp2 tr2 hm0 hb0 h1 h2 ih1 ih2 =>
    intro m hm b hb n hn
    have e2 := h2.imported
    simp only [entered_enter, entered_append, entered_exit, List.cons_append, List.mem_cons,
      List.mem_append] at hm
    rcases hm with rfl | hm | hm
    · rw [hb0] at hb; cases hb
      rw [e2]; simp [h1.uses_imported n hn]
    · rw [e2]; simp [ih1 m hm b hb n hn]
    · exact ih2 m hm b hb n hn

/-! ### positions in a trace: `tr = a ++ e :: r` (event `e` with everything before it) -/

theorem split_cons {α} {a r l : List α} {e x : α} (h : x :: l = a ++ e :: r) :
    (a = [] ∧ e = x ∧ r = l) ∨ ∃ a', a = x :: a' ∧ l = a' ++ e :: r := by
  rcases List.cons_eq_append_iff.mp h with ⟨rfl, h2⟩ | ⟨a', rfl, h2⟩
  · left; cases h2; exact ⟨rfl, rfl, rfl⟩
  · right; exact ⟨a', rfl, h2⟩

theorem split_append {α} {a r l1 l2 : List α} {e : α} (h : l1 ++ l2 = a ++ e :: r) :
    (∃ c, l1 = a ++ e :: c ∧ r = c ++ l2) ∨ (∃ c, a = l1 ++ c ∧ l2 = c ++ e :: r) := by
  rcases List.append_eq_append_iff.mp h with ⟨c, h1, h2⟩ | ⟨c, h1, h2⟩
  · right; exact ⟨c, h1, h2⟩
  · cases c with
    | nil => right; exact ⟨[], by simpa using h1.symm, by simpa using h2.symm⟩
    | cons x c =>
      left
      simp only [List.cons_append, List.cons.injEq] at h2
      obtain ⟨rfl, rfl⟩ := h2
      exact ⟨c, h1, rfl⟩

theorem psplit_cons {α} {a r l : List α} {x : α} (h : x :: l = a ++ r) :
    a = [] ∨ ∃ a', a = x :: a' ∧ l = a' ++ r := by
  rcases List.cons_eq_append_iff.mp h with ⟨rfl, _⟩ | ⟨a', rfl, h2⟩
  · left; rfl
  · right; exact ⟨a', rfl, h2⟩

theorem psplit_append {α} {a r l1 l2 : List α} (h : l1 ++ l2 = a ++ r) :
    (∃ c, l1 = a ++ c) ∨ (∃ c, a = l1 ++ c ∧ l2 = c ++ r) := by
  rcases List.append_eq_append_iff.mp h with ⟨c, h1, h2⟩ | ⟨c, h1, _⟩
  · right; exact ⟨c, h1, h2⟩
  · left; exact ⟨c, h1⟩

/-- a module that is open (entered, not yet exited) when an event of module `M` happens reaches `M`:
the event lies inside its bracket -/
theorem Run.open_reach {t o i imp items imp' tr} (h : Run t o i imp items imp' tr) :
    ∀ a e r, tr = a ++ e :: r → ∀ M, Event.mod e = some M →
      ∀ x, x ∈ entered a → x ∉ exited a → Reach t x M := by
  induction h with
  | nil => intro a e r h; simp at h
  | defn _ ih =>
    intro a e r h M hM x hx hnx
    rcases split_cons h with ⟨rfl, _, _⟩ | ⟨a', rfl, h'⟩
    · simp at hx
    · exact ih a' e r h' M hM x (by simpa using hx) (by simpa using hnx)
  | skip _ _ ih => exact ih
  | @enter o i imp m b rest imp1 tr1 imp2 tr2 hm hb h1 h2 ih1 ih2 =>
    intro a e r h M hM x hx hnx
    rw [List.cons_append] at h
    rcases split_cons h with ⟨rfl, _, _⟩ | ⟨a', rfl, h'⟩
    · simp at hx
    · rcases split_append h' with ⟨c, hc, _⟩ | ⟨c, rfl, hc⟩
      · -- the event lies in the body of `m`
        simp only [entered_enter, List.mem_cons] at hx
        simp only [exited_enter] at hnx
        rcases hx with rfl | hx
        · have he : e ∈ tr1 := by rw [hc]; simp
          rcases h1.event_reach e he M hM with h | ⟨n, hn, hr⟩
          · cases h; exact .refl _
          · exact .step hb hn hr
        · exact ih1 a' e c hc M hM x hx hnx
      · rcases split_cons hc with ⟨rfl, rfl, _⟩ | ⟨c', rfl, hc'⟩
        · -- the event is `exit m`
          simp only [List.append_nil, entered_enter, List.mem_cons] at hx
          simp only [List.append_nil, exited_enter] at hnx
          rcases hx with rfl | hx
          · cases hM; exact .refl _
          · exact absurd ((h1.exited_iff x).mpr hx) hnx
        · -- the event lies after the body of `m`
          simp only [entered_enter, entered_append, entered_exit, List.mem_cons, List.mem_append] at hx
          simp only [exited_enter, exited_append, exited_exit, List.mem_cons, List.mem_append,
            not_or] at hnx
          rcases hx with rfl | hx | hx
          · exact absurd rfl hnx.2.1
          · exact absurd ((h1.exited_iff x).mpr hx) hnx.1
          · exact ih2 c' e r hc' M hM x hx hnx.2.2

/-- once a module is exited all its definitions have been emitted (each once, in textual order) -/
theorem Run.exited_complete {t o i imp items imp' tr} (h : Run t o i imp items imp' tr) :
    OriginOk o imp → ∀ a r, tr = a ++ r → ∀ x ∈ exited a, ∀ b, body t x = some b →
      stmtsOf (some x) a = defsOf 0 b := by
  induction h with
  | nil =>
    intro _ a r h x hx
    have : a = [] := by
      have := congrArg List.length h; simp at this; exact List.eq_nil_of_length_eq_zero (by omega)
    subst this; simp at hx
  | @defn o i imp ns us rest imp' tr hr ih =>
    intro ok a r h x hx b hb
    rcases psplit_cons h with rfl | ⟨a', rfl, h'⟩
    · simp at hx
    · have hx' : x ∈ exited a' := by simpa using hx
      have hxe : x ∈ entered tr := by
        apply (hr.exited_iff x).mp; rw [h']; simp [hx']
      have hne : o ≠ some x := fun h => hr.fresh.2 x hxe (ok x h)
      rw [stmtsOf_stmt, if_neg hne]
      exact ih ok a' r h' x hx' b hb
  | skip _ _ ih => exact ih
  | @enter o i imp m b0 rest imp1 tr1 imp2 tr2 hm hb0 h1 h2 ih1 ih2 =>
    intro ok a r h x hx b hb
    have e1 := h1.imported
    have f1 := h1.fresh
    have f2 := h2.fresh
    have ok2 : OriginOk o imp1 := ok.mono (by intro y hy; rw [e1]; simp [hy])
    have hno : ∀ y, y ∉ imp → o ≠ some y := fun y hy h => hy (ok y h)
    -- modules recorded before the second part contribute nothing to any prefix of it
    have later : ∀ y c r', tr2 = c ++ r' → y ∈ imp1 → y ∉ imp → stmtsOf (some y) c = [] := by
      intro y c r' hc hy hyi
      have := h2.stmtsOf_other (some y) (fun h => hno y hyi h.symm) (by
        intro m' hm' hin; cases hm'; exact f2.2 y hin hy)
      rw [hc, stmtsOf_append] at this
      exact (List.append_eq_nil_iff.mp this).1
    rw [List.cons_append] at h
    rcases psplit_cons h with rfl | ⟨a', rfl, h'⟩
    · simp at hx
    · simp only [exited_enter] at hx
      simp only [stmtsOf_enter]
      rcases psplit_append h' with ⟨c, hc⟩ | ⟨c, rfl, hc⟩
      · exact ih1 (originOk_some m imp) a' c hc x hx b hb
      · rcases psplit_cons hc with rfl | ⟨c', rfl, hc'⟩
        · simp only [List.append_nil] at hx ⊢
          exact ih1 (originOk_some m imp) tr1 [] (by simp) x hx b hb
        · simp only [exited_append, exited_exit, List.mem_append, List.mem_cons] at hx
          simp only [stmtsOf_append, stmtsOf_exit]
          rcases hx with hx | rfl | hx
          · have hxe : x ∈ entered tr1 := (h1.exited_iff x).mp hx
            have hni : x ∉ imp ++ [m] := f1.2 x hxe
            rw [h1.stmtsOf_entered (originOk_some m imp) x hxe b hb,
              later x c' r hc' (by rw [e1]; simp [hxe]) (by intro hi; exact hni (by simp [hi]))]
            simp
          · rw [hb0] at hb; cases hb
            rw [h1.stmtsOf_self (originOk_some x imp), later x c' r hc' (by rw [e1]; simp) hm]
            simp
          · have hxe : x ∈ entered tr2 := by
              apply (h2.exited_iff x).mp; rw [hc']; simp [hx]
            have hni : x ∉ imp1 := f2.2 x hxe
            rw [h1.stmtsOf_other (some x) (by
                intro h; cases h; exact hni (by rw [e1]; simp)) (by
                intro m' hm' hin; cases hm'; exact hni (by rw [e1]; simp [hin])),
              ih2 ok2 c' r hc' x hx b hb]
            simp

/-- what is known about the source being processed: `items` is what remains of it from position `i`, and
the modules named by its earlier `use` lines are recorded as imported -/
def SrcOk (t : Table) (o : Option Nat) (i : Nat) (items : List Item) (imp : List Nat) : Prop :=
  ∀ M b, o = some M → body t M = some b →
    b.drop i = items ∧ ∀ j N, j < i → b[j]? = some (.use N) → N ∈ imp

theorem SrcOk.next {t o i it rest imp imp'} (h : SrcOk t o i (it :: rest) imp)
    (hs : ∀ x ∈ imp, x ∈ imp') (hit : ∀ N, it = .use N → N ∈ imp') : SrcOk t o (i + 1) rest imp' := by
  intro M b hM hb
  obtain ⟨hd, hu⟩ := h M b hM hb
  refine ⟨?_, ?_⟩
  · have : b.drop (i + 1) = (b.drop i).drop 1 := by simp [List.drop_drop]
    rw [this, hd]; rfl
  · intro j N hj hjN
    by_cases hji : j < i
    · exact hs N (hu j N hji hjN)
    · have : j = i := by omega
      subst this
      have : b[j]? = some it := by
        have := congrArg (fun l => l[0]?) hd
        simpa using this
      rw [this] at hjN
      exact hit N (by simpa using hjN)

/-- when a statement of `M` is emitted, or `M` is exited, every module named by an earlier `use` line of `M`
(all of them at the exit) is recorded as imported -/
theorem Run.uses_before {t o i imp items imp' tr} (h : Run t o i imp items imp' tr) :
    SrcOk t o i items imp → ∀ a e r, tr = a ++ e :: r → ∀ M bM, body t M = some bM →
      (∀ k ns us, e = .stmt (some M) k ns us → ∀ j N, j < k → bM[j]? = some (.use N) → N ∈ imp ++ entered a) ∧
      (e = .exit M → ∀ j N : Nat, bM[j]? = some (Item.use N) → N ∈ imp ++ entered a) := by
  induction h with
  | nil => intro _ a e r h; simp at h
  | @defn o i imp ns us rest imp' tr hr ih =>
    intro ok a e r h M bM hbM
    rcases split_cons h with ⟨rfl, rfl, _⟩ | ⟨a', rfl, h'⟩
    · refine ⟨?_, fun h => (by cases h)⟩
      intro k ns' us' he j N hj hjN
      cases he
      simp only [entered_nil, List.append_nil]
      exact (ok M bM rfl hbM).2 j N hj hjN
    · have := ih (ok.next (fun _ hx => hx) (by intro N h; cases h)) a' e r h' M bM hbM
      simpa using this
  | @skip o i imp m rest imp' tr hm hr ih =>
    intro ok
    exact ih (ok.next (fun _ hx => hx) (by intro N h; cases h; exact hm))
  | @enter o i imp m b rest imp1 tr1 imp2 tr2 hm hb h1 h2 ih1 ih2 =>
    intro ok a e r h M bM hbM
    have e1 := h1.imported
    rw [List.cons_append] at h
    rcases split_cons h with ⟨rfl, rfl, _⟩ | ⟨a', rfl, h'⟩
    · exact ⟨fun k ns us h => (by cases h), fun h => (by cases h)⟩
    · rcases split_append h' with ⟨c, hc, _⟩ | ⟨c, rfl, hc⟩
      · have ok1 : SrcOk t (some m) 0 b (imp ++ [m]) := by
          intro M' b' hM' hb'
          cases hM'
          rw [hb] at hb'; cases hb'
          exact ⟨rfl, by intro j N hj; omega⟩
        have := ih1 ok1 a' e c hc M bM hbM
        simpa [List.append_assoc] using this
      · rcases split_cons hc with ⟨rfl, rfl, _⟩ | ⟨c', rfl, hc'⟩
        · refine ⟨fun k ns us h => (by cases h), ?_⟩
          intro he j N hjN
          cases he
          rw [hb] at hbM; cases hbM
          have := h1.uses_imported N (mem_usesOf_of_getElem? hjN)
          rw [e1] at this
          simpa [List.append_assoc] using this
        · have ok2 : SrcOk t o (i + 1) rest imp1 :=
            ok.next (by intro y hy; rw [e1]; simp [hy]) (by intro N h; cases h; rw [e1]; simp)
          have := ih2 ok2 c' e r hc' M bM hbM
          rw [e1] at this
          simpa [List.append_assoc] using this

/-! ### hypotheses on a table -/

/-- every `use` line of every module names a module the importer knows -/
def UsesExist (t : Table) : Prop := ∀ m b, body t m = some b → ∀ n ∈ usesOf b, body t n ≠ none

/-- every name a statement uses is introduced by an earlier statement of the same module or by a module that
is reachable from a module named by an earlier `use` line of the same module -/
def Closed (t : Table) : Prop :=
  ∀ m b, body t m = some b → ∀ (i : Nat) ns us, b[i]? = some (Item.defn ns us) → ∀ u ∈ us,
    (∃ (j : Nat) (ns' us' : List Nat), j < i ∧ b[j]? = some (Item.defn ns' us') ∧ u ∈ ns') ∨
    (∃ (j N D : Nat) (bD : List Item) (k : Nat) (ns' us' : List Nat), j < i ∧ b[j]? = some (Item.use N) ∧ Reach t N D ∧ body t D = some bD ∧
      bD[k]? = some (Item.defn ns' us') ∧ u ∈ ns')

/-- a name is introduced at one place only -/
def ClashFree (t : Table) : Prop :=
  ∀ m1 b1 (k1 : Nat) ns1 us1 m2 b2 (k2 : Nat) ns2 us2, body t m1 = some b1 → b1[k1]? = some (Item.defn ns1 us1) →
    body t m2 = some b2 → b2[k2]? = some (Item.defn ns2 us2) → ∀ n, n ∈ ns1 → n ∈ ns2 → m1 = m2 ∧ k1 = k2

theorem mem_defsOf {b : List Item} {i k : Nat} {ns us : List Nat} :
    (k, ns, us) ∈ defsOf i b ↔ ∃ j, k = i + j ∧ b[j]? = some (.defn ns us) := by
  induction b generalizing i with
  | nil => simp [defsOf]
  | cons it rest ih =>
    cases it with
    | use m =>
      simp only [defsOf, ih]
      constructor
      · rintro ⟨j, rfl, hj⟩; exact ⟨j + 1, by omega, by simpa using hj⟩
      · rintro ⟨j, rfl, hj⟩
        cases j with
        | zero => simp at hj
        | succ j => exact ⟨j, by omega, by simpa using hj⟩
    | defn ns' us' =>
      simp only [defsOf, List.mem_cons, ih, Prod.mk.injEq]
      constructor
      · rintro (⟨rfl, rfl, rfl⟩ | ⟨j, rfl, hj⟩)
        · exact ⟨0, rfl, rfl⟩
        · exact ⟨j + 1, by omega, by simpa using hj⟩
      · rintro ⟨j, rfl, hj⟩
        cases j with
        | zero => left; simpa using hj.symm
        | succ j => right; exact ⟨j, by omega, by simpa using hj⟩

theorem mem_defsOf_zero {b : List Item} {k : Nat} {ns us : List Nat} :
    (k, ns, us) ∈ defsOf 0 b ↔ b[k]? = some (.defn ns us) := by
  rw [mem_defsOf]
  constructor
  · rintro ⟨j, rfl, hj⟩; simpa using hj
  · intro h; exact ⟨k, by omega, h⟩

theorem mem_of_body {t : Table} {m : Nat} {b : List Item} (h : body t m = some b) : (m, b) ∈ t := by
  unfold body at h
  induction t with
  | nil => simp at h
  | cons p t ih =>
    obtain ⟨k, v⟩ := p
    rw [List.lookup_cons] at h
    by_cases hk : (m == k) = true
    · rw [hk] at h
      simp only [Option.some.injEq] at h
      have : m = k := by simpa using hk
      subst this; subst h; simp
    · have hk' : (m == k) = false := by simpa using hk
      rw [hk'] at h
      exact List.mem_cons_of_mem _ (ih h)

/-! ### acyclic import graphs -/

/-- a rank that decreases along every `use` line: no module imports itself, directly or indirectly -/
def Acyclic (t : Table) : Prop :=
  ∃ rank : Nat → Nat, ∀ m b n, body t m = some b → n ∈ usesOf b → rank n < rank m

theorem Reach.rank_le {t a c} {rank : Nat → Nat}
    (hr : ∀ m b n, body t m = some b → n ∈ usesOf b → rank n < rank m) (h : Reach t a c) :
    rank c ≤ rank a := by
  induction h with
  | refl => exact Nat.le_refl _
  | step hb hn _ ih => exact Nat.le_trans ih (Nat.le_of_lt (hr _ _ _ hb hn))

/-- in an acyclic table a module does not reach a module that imports it -/
theorem Acyclic.no_back {t} (h : Acyclic t) {M N bM} (hb : body t M = some bM) (hu : N ∈ usesOf bM) :
    ¬ Reach t N M := by
  obtain ⟨rank, hr⟩ := h
  intro hreach
  have h1 := hreach.rank_le hr
  have h2 := hr M bM N hb hu
  omega

end NumbatModel.Modules
