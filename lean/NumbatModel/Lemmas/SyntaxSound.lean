import NumbatModel.Model.SyntaxGrammar
import NumbatModel.Lemmas.Syntax
/-!
C10 helper lemmas, part 5: soundness of the parser model w.r.t. the documented grammar `Derives`
(newline-free token lists: the BNF does not mention the newlines the parser skips inside brackets).
-/
namespace NumbatModel.Syntax

/-- no nonterminal derives the empty token list -/
theorem Derives.ne_nil : ∀ {L : Nat} {p : List Token} {e : Expr}, Derives L p e → p ≠ []
  | _, _, _, .up _ d => d.ne_nil
  | _, _, _, .pipe _ _ _ _ _ => by simp
  | _, _, _, .cond _ _ _ _ _ _ _ _ _ => by simp
  | _, _, _, .binop _ _ _ _ => by simp
  | _, _, _, .lnot _ _ _ => by simp
  | _, _, _, .neg _ _ _ => by simp
  | _, _, _, .uplus _ _ _ => by simp
  | _, _, _, .imul d _ _ => by simp [d.ne_nil]
  | _, _, _, .pow _ _ _ _ => by simp
  | _, _, _, .powNeg _ _ _ _ _ _ => by simp
  | _, _, _, .fact _ d _ _ => by simp [d.ne_nil]
  | _, _, _, .upow _ _ _ => by simp
  | _, _, _, .call _ _ _ _ => by simp
  | _, _, _, .field _ _ _ _ _ => by simp
  | _, _, _, .scalar _ _ _ => by simp
  | _, _, _, .ident _ _ => by simp
  | _, _, _, .hole _ _ => by simp
  | _, _, _, .true_ _ _ => by simp
  | _, _, _, .false_ _ _ => by simp
  | _, _, _, .str _ _ => by simp
  | _, _, _, .paren _ _ _ _ _ => by simp
  | _, _, _, .list _ _ _ => by simp
  | _, _, _, .struct _ _ _ _ _ => by simp

def NoNl (ts : List Token) : Prop := ∀ t ∈ ts, t.kind ≠ .newline

theorem NoNl.skip {ts : List Token} (h : NoNl ts) : skipNewlines ts = ts := by
  cases ts with
  | nil => rfl
  | cons t rest => simp [skipNewlines, h t (by simp)]

theorem NoNl.tail {t : Token} {ts : List Token} (h : NoNl (t :: ts)) : NoNl ts :=
  fun x hx => h x (by simp [hx])

theorem NoNl.suffix {pre rest : List Token} (h : NoNl (pre ++ rest)) : NoNl rest :=
  fun x hx => h x (by simp [hx])

theorem binOpsAt_eq (L : Nat) : binOpsAt L = opsAt L := by
  unfold binOpsAt opsAt; rfl

/-- soundness of the function of level `L` with fuel `n` -/
def SoundAt (L n : Nat) : Prop :=
  ∀ ts e rest, NoNl ts → parseAt L n ts = .ok (e, rest) → ∃ pre, ts = pre ++ rest ∧ Derives L pre e

/-- soundness of `next` gives soundness of the `parse_binop` loop over it -/
theorem binLoop_sound {L : Nat} {next : List Token → PRes Expr}
    (hnext : ∀ ts e rest, NoNl ts → next ts = .ok (e, rest) → ∃ pre, ts = pre ++ rest ∧ Derives (L + 1) pre e) :
    ∀ (m : Nat) (acc : Expr) (ts : List Token) (e : Expr) (rest pre0 : List Token), NoNl ts → Derives L pre0 acc →
      binLoop (opsAt L) next m acc ts = .ok (e, rest) → ∃ mid, ts = mid ++ rest ∧ Derives L (pre0 ++ mid) e := by
  intro m
  induction m with
  | zero => intro acc ts e rest pre0 _ _ h; simp [binLoop] at h
  | succ m ih =>
    intro acc ts e rest pre0 hnl hd h
    cases ts with
    | nil =>
      simp only [binLoop] at h
      injection h with h; injection h with h1 h2; subst h1 h2
      exact ⟨[], by simp, by simpa using hd⟩
    | cons t tl =>
      simp only [binLoop] at h
      split at h
      · injection h with h; injection h with h1 h2; subst h1 h2
        exact ⟨[], by simp, by simpa using hd⟩
      · rename_i op hop
        split at h
        · cases h
        · rename_i rhs ts' hn
          obtain ⟨pre, hpre, hder⟩ := hnext tl rhs ts' hnl.tail hn
          have hnl' : NoNl ts' := by rw [hpre] at hnl; exact hnl.tail.suffix
          have hd' : Derives L (pre0 ++ t :: pre) (.bin op acc rhs) :=
            Derives.binop t (by rw [binOpsAt_eq]; exact hop) hd hder
          obtain ⟨mid, hmid, hfin⟩ := ih (.bin op acc rhs) ts' e rest (pre0 ++ t :: pre) hnl' hd' h
          refine ⟨t :: pre ++ mid, by simp [hpre, hmid], ?_⟩
          simpa [List.append_assoc] using hfin

theorem soundAt_bin {L n : Nat} (hL : isBinLevel L = true) (hlt : L < 16) (ih : SoundAt (L + 1) n) : SoundAt L (n + 1) := by
  intro ts e rest hnl h
  rw [parseAt_bin hL, parseBinop] at h
  split at h
  · cases h
  · rename_i lhs ts' hn
    obtain ⟨pre, hpre, hder⟩ := ih ts lhs ts' hnl hn
    have hnl' : NoNl ts' := by rw [hpre] at hnl; exact hnl.suffix
    obtain ⟨mid, hmid, hfin⟩ := binLoop_sound (L := L) (fun a b c d e => ih a b c d e) n lhs ts' e rest pre hnl'
      (Derives.up hlt hder) h
    exact ⟨pre ++ mid, by simp [hpre, hmid], hfin⟩


/-- soundness of every function of the parser at fuel `n` -/
structure All (n : Nat) : Prop where
  at_ : ∀ L, L ≤ 16 → SoundAt L n
  expr : ∀ ts e rest, NoNl ts → expression n ts = .ok (e, rest) → ∃ pre, ts = pre ++ rest ∧ Derives 0 pre e
  loop0 : ∀ acc ts e rest pre0, NoNl ts → Derives 0 pre0 acc → postfixLoop n acc ts = .ok (e, rest) →
    ∃ mid, ts = mid ++ rest ∧ Derives 0 (pre0 ++ mid) e
  loop11 : ∀ acc ts e rest pre0, NoNl ts → Derives 11 pre0 acc → ifactorLoop n acc ts = .ok (e, rest) →
    ∃ mid, ts = mid ++ rest ∧ Derives 11 (pre0 ++ mid) e
  loop15 : ∀ acc ts e rest pre0, NoNl ts → Derives 15 pre0 acc → callLoop n acc ts = .ok (e, rest) →
    ∃ mid, ts = mid ++ rest ∧ Derives 15 (pre0 ++ mid) e
  args : ∀ ts as rest, NoNl ts → arguments n ts = .ok (as, rest) →
    ∃ pre, ts = pre ++ rest ∧ DerivesArgs .rightParen pre as
  argsLoop : ∀ acc ts as rest, NoNl ts → argumentsLoop n acc ts = .ok (as, rest) →
    ∃ pre more, ts = pre ++ rest ∧ as = acc ++ more ∧ DerivesArgsTail .rightParen pre more
  list : ∀ acc ts e rest, NoNl ts → listLoop n acc ts = .ok (e, rest) →
    ∃ pre more, ts = pre ++ rest ∧ e = .list (acc ++ more) ∧ DerivesArgs .rightBracket pre more
  struct : ∀ name acc ts e rest, NoNl ts → structLoop n name acc ts = .ok (e, rest) →
    ∃ pre more, ts = pre ++ rest ∧ e = .struct name (acc ++ more) ∧ DerivesFields pre more

theorem all_zero : All 0 := by
  refine ⟨?_, ?_, ?_, ?_, ?_, ?_, ?_, ?_, ?_⟩
  · intro L _ ts e rest _ h; rw [parseAt_zero] at h; cases h
  all_goals (intros; simp_all [expression, postfixLoop, ifactorLoop, callLoop, arguments, argumentsLoop, listLoop, structLoop])

theorem countBangs_spec : ∀ (ts : List Token), ∃ bangs, ts = bangs ++ (countBangs ts).2 ∧ bangs.length = (countBangs ts).1 ∧
    ∀ b ∈ bangs, b.kind = .exclamationMark
  | [] => ⟨[], by simp [countBangs]⟩
  | t :: ts => by
    by_cases h : t.kind = .exclamationMark
    · obtain ⟨bs, h1, h2, h3⟩ := countBangs_spec ts
      refine ⟨t :: bs, ?_, ?_, ?_⟩
      · simp only [countBangs, h, beq_self_eq_true, ↓reduceIte, List.cons_append]; rw [← h1]
      · simp [countBangs, h, h2]
      · intro b hb; rcases List.mem_cons.mp hb with rfl | hb
        · exact h
        · exact h3 b hb
    · exact ⟨[], by simp [countBangs, h]⟩


theorem listLoop_close {n : Nat} {acc : List Expr} {t : Token} {tl : List Token} {e : Expr} {rest : List Token}
    (hk : t.kind = .rightBracket) (h : listLoop n acc (t :: tl) = .ok (e, rest)) : e = .list acc ∧ rest = tl := by
  cases n with
  | zero => simp [listLoop] at h
  | succ n => simp [listLoop, hk] at h; exact ⟨h.1.symm, h.2.symm⟩

theorem structLoop_close {n : Nat} {name : List Char} {acc : List (List Char × Expr)} {t : Token} {tl : List Token}
    {e : Expr} {rest : List Token}
    (hk : t.kind = .rightCurly) (h : structLoop n name acc (t :: tl) = .ok (e, rest)) :
    e = .struct name acc ∧ rest = tl := by
  cases n with
  | zero => simp [structLoop] at h
  | succ n => simp [structLoop, hk] at h; exact ⟨h.1.symm, h.2.symm⟩

section Steps
variable {n : Nat} (A : All n)
include A

theorem step_at0 : SoundAt 0 (n + 1) := by
  intro ts e rest hnl h
  simp only [parseAt, postfixApply] at h
  split at h
  · cases h
  · rename_i e1 ts' hc
    obtain ⟨pre, hpre, hder⟩ := A.at_ 1 (by omega) ts e1 ts' hnl hc
    have hnl' : NoNl ts' := by rw [hpre] at hnl; exact hnl.suffix
    obtain ⟨mid, hmid, hfin⟩ := A.loop0 e1 ts' e rest pre hnl' (Derives.up (by omega) hder) h
    exact ⟨pre ++ mid, by simp [hpre, hmid], hfin⟩

theorem step_at1 : SoundAt 1 (n + 1) := by
  intro ts e rest hnl h
  simp only [parseAt] at h
  cases ts with
  | nil =>
    simp only [condition] at h
    obtain ⟨pre, hpre, hder⟩ := A.at_ 2 (by omega) [] e rest hnl h
    exact ⟨pre, hpre, Derives.up (by omega) hder⟩
  | cons t tl =>
    simp only [condition] at h
    split at h
    · rename_i hif
      split at h
      · cases h
      · rename_i c ts1 hc
        obtain ⟨p1, hp1, hd1⟩ := A.at_ 2 (by omega) tl c ts1 hnl.tail hc
        have hnl1 : NoNl ts1 := by rw [hp1] at hnl; exact hnl.tail.suffix
        rw [hnl1.skip] at h
        split at h
        · cases h
        · rename_i t2 rest2
          split at h
          · cases h
          · rename_i hthen
            rw [hnl1.tail.skip] at h
            split at h
            · cases h
            · rename_i th ts2 hth
              obtain ⟨p2, hp2, hd2⟩ := A.at_ 1 (by omega) rest2 th ts2 hnl1.tail hth
              have hnl2 : NoNl ts2 := by rw [hp2] at hnl1; exact hnl1.tail.suffix
              rw [hnl2.skip] at h
              split at h
              · cases h
              · rename_i t3 rest3
                split at h
                · cases h
                · rename_i helse
                  rw [hnl2.tail.skip] at h
                  split at h
                  · cases h
                  · rename_i el ts3 hel
                    obtain ⟨p3, hp3, hd3⟩ := A.at_ 1 (by omega) rest3 el ts3 hnl2.tail hel
                    injection h with h; injection h with h1 h2; subst h1 h2
                    refine ⟨t :: p1 ++ t2 :: p2 ++ t3 :: p3, by simp [hp1, hp2, hp3], ?_⟩
                    exact Derives.cond t t2 t3 (by simpa using hif) hd1 (by simpa using hthen) hd2
                      (by simpa using helse) hd3
    · obtain ⟨pre, hpre, hder⟩ := A.at_ 2 (by omega) (t :: tl) e rest hnl h
      exact ⟨pre, hpre, Derives.up (by omega) hder⟩

theorem step_at5 : SoundAt 5 (n + 1) := by
  intro ts e rest hnl h
  simp only [parseAt] at h
  cases ts with
  | nil =>
    simp only [logicalNeg] at h
    obtain ⟨pre, hpre, hder⟩ := A.at_ 6 (by omega) [] e rest hnl h
    exact ⟨pre, hpre, Derives.up (by omega) hder⟩
  | cons t tl =>
    simp only [logicalNeg] at h
    split at h
    · rename_i hk
      split at h
      · cases h
      · rename_i e1 ts' h1
        obtain ⟨pre, hpre, hder⟩ := A.at_ 5 (by omega) tl e1 ts' hnl.tail h1
        injection h with h; injection h with h1 h2; subst h1 h2
        exact ⟨t :: pre, by simp [hpre], Derives.lnot t (by simpa using hk) hder⟩
    · obtain ⟨pre, hpre, hder⟩ := A.at_ 6 (by omega) (t :: tl) e rest hnl h
      exact ⟨pre, hpre, Derives.up (by omega) hder⟩

theorem step_at10 : SoundAt 10 (n + 1) := by
  intro ts e rest hnl h
  simp only [parseAt] at h
  cases ts with
  | nil =>
    simp only [unary] at h
    obtain ⟨pre, hpre, hder⟩ := A.at_ 11 (by omega) [] e rest hnl h
    exact ⟨pre, hpre, Derives.up (by omega) hder⟩
  | cons t tl =>
    simp only [unary] at h
    split at h
    · rename_i hk
      split at h
      · cases h
      · rename_i e1 ts' h1
        obtain ⟨pre, hpre, hder⟩ := A.at_ 10 (by omega) tl e1 ts' hnl.tail h1
        injection h with h; injection h with h1 h2; subst h1 h2
        exact ⟨t :: pre, by simp [hpre], Derives.neg t (by simpa using hk) hder⟩
    · split at h
      · rename_i hk
        obtain ⟨pre, hpre, hder⟩ := A.at_ 10 (by omega) tl e rest hnl.tail h
        exact ⟨t :: pre, by simp [hpre], Derives.uplus t (by simpa using hk) hder⟩
      · obtain ⟨pre, hpre, hder⟩ := A.at_ 11 (by omega) (t :: tl) e rest hnl h
        exact ⟨pre, hpre, Derives.up (by omega) hder⟩

theorem step_at11 : SoundAt 11 (n + 1) := by
  intro ts e rest hnl h
  simp only [parseAt, ifactor] at h
  split at h
  · cases h
  · rename_i e1 ts' hc
    obtain ⟨pre, hpre, hder⟩ := A.at_ 12 (by omega) ts e1 ts' hnl hc
    have hnl' : NoNl ts' := by rw [hpre] at hnl; exact hnl.suffix
    obtain ⟨mid, hmid, hfin⟩ := A.loop11 e1 ts' e rest pre hnl' (Derives.up (by omega) hder) h
    exact ⟨pre ++ mid, by simp [hpre, hmid], hfin⟩

theorem step_at15 : SoundAt 15 (n + 1) := by
  intro ts e rest hnl h
  simp only [parseAt, call] at h
  split at h
  · cases h
  · rename_i e1 ts' hc
    obtain ⟨pre, hpre, hder⟩ := A.at_ 16 (by omega) ts e1 ts' hnl hc
    have hnl' : NoNl ts' := by rw [hpre] at hnl; exact hnl.suffix
    obtain ⟨mid, hmid, hfin⟩ := A.loop15 e1 ts' e rest pre hnl' (Derives.up (by omega) hder) h
    exact ⟨pre ++ mid, by simp [hpre, hmid], hfin⟩


theorem step_at12 : SoundAt 12 (n + 1) := by
  intro ts e rest hnl h
  simp only [parseAt, power] at h
  split at h
  · cases h
  · rename_i e1 ts' hc
    obtain ⟨pre, hpre, hder⟩ := A.at_ 13 (by omega) ts e1 ts' hnl hc
    have hnl' : NoNl ts' := by rw [hpre] at hnl; exact hnl.suffix
    split at h
    · injection h with h; injection h with h1 h2; subst h1 h2
      exact ⟨pre, hpre, Derives.up (by omega) hder⟩
    · rename_i t tl
      split at h
      · rename_i hk
        split at h
        · split at h
          · cases h
          · rename_i rhs ts'' hr
            obtain ⟨p2, hp2, hd2⟩ := A.at_ 12 (by omega) [] rhs ts'' (by intro x hx; cases hx) hr
            injection h with h; injection h with h1 h2; subst h1 h2
            exact ⟨pre ++ t :: p2, by simp [hpre, hp2], Derives.pow t hder (by simpa using hk) hd2⟩
        · rename_i t2 rest2
          split at h
          · rename_i hm
            split at h
            · cases h
            · rename_i rhs ts'' hr
              obtain ⟨p2, hp2, hd2⟩ := A.at_ 12 (by omega) rest2 rhs ts'' hnl'.tail.tail hr
              injection h with h; injection h with h1 h2; subst h1 h2
              exact ⟨pre ++ t :: t2 :: p2, by simp [hpre, hp2],
                Derives.powNeg t t2 hder (by simpa using hk) (by simpa using hm) hd2⟩
          · split at h
            · cases h
            · rename_i rhs ts'' hr
              obtain ⟨p2, hp2, hd2⟩ := A.at_ 12 (by omega) (t2 :: rest2) rhs ts'' hnl'.tail hr
              injection h with h; injection h with h1 h2; subst h1 h2
              exact ⟨pre ++ t :: p2, by simp [hpre, hp2], Derives.pow t hder (by simpa using hk) hd2⟩
      · injection h with h; injection h with h1 h2; subst h1 h2
        exact ⟨pre, hpre, Derives.up (by omega) hder⟩

theorem step_at13 : SoundAt 13 (n + 1) := by
  intro ts e rest hnl h
  simp only [parseAt, factorial] at h
  split at h
  · cases h
  · rename_i e1 ts' hc
    obtain ⟨pre, hpre, hder⟩ := A.at_ 14 (by omega) ts e1 ts' hnl hc
    obtain ⟨bangs, hb1, hb2, hb3⟩ := countBangs_spec ts'
    split at h
    · rename_i hne
      injection h with h; injection h with h1 h2; subst h1 h2
      refine ⟨pre ++ bangs, by rw [List.append_assoc, ← hb1, hpre], ?_⟩
      rw [← hb2]
      refine Derives.fact bangs hder ?_ hb3
      intro hnil; subst hnil; simp at hb2; simp [← hb2] at hne
    · injection h with h; injection h with h1 h2; subst h1 h2
      exact ⟨pre, hpre, Derives.up (by omega) hder⟩

theorem step_at14 : SoundAt 14 (n + 1) := by
  intro ts e rest hnl h
  simp only [parseAt, unicodePower] at h
  split at h
  · cases h
  · rename_i e1 ts' hc
    obtain ⟨pre, hpre, hder⟩ := A.at_ 15 (by omega) ts e1 ts' hnl hc
    split at h
    · injection h with h; injection h with h1 h2; subst h1 h2
      exact ⟨pre, hpre, Derives.up (by omega) hder⟩
    · rename_i t tl
      split at h
      · rename_i hk
        injection h with h; injection h with h1 h2; subst h1 h2
        exact ⟨pre ++ [t], by simp [hpre], Derives.upow t hder (by simpa using hk)⟩
      · injection h with h; injection h with h1 h2; subst h1 h2
        exact ⟨pre, hpre, Derives.up (by omega) hder⟩

theorem step_loop0 : ∀ acc ts e rest pre0, NoNl ts → Derives 0 pre0 acc → postfixLoop (n + 1) acc ts = .ok (e, rest) →
    ∃ mid, ts = mid ++ rest ∧ Derives 0 (pre0 ++ mid) e := by
  intro acc ts e rest pre0 hnl hd h
  cases ts with
  | nil =>
    simp only [postfixLoop] at h
    injection h with h; injection h with h1 h2; subst h1 h2
    exact ⟨[], by simp, by simpa using hd⟩
  | cons t tl =>
    simp only [postfixLoop] at h
    split at h
    · rename_i hk
      rw [hnl.tail.skip] at h
      split at h
      · cases h
      · rename_i name ts' hc
        obtain ⟨p, hp, hder⟩ := A.at_ 15 (by omega) tl _ ts' hnl.tail hc
        have hnl' : NoNl ts' := by rw [hp] at hnl; exact hnl.tail.suffix
        have hd' : Derives 0 (pre0 ++ t :: p) (pipeResult acc (.ident name)) :=
          Derives.pipe t hd (by simpa using hk) hder rfl
        obtain ⟨mid, hmid, hfin⟩ := A.loop0 _ ts' e rest _ hnl' hd' h
        exact ⟨t :: p ++ mid, by simp [hp, hmid], by simpa [List.append_assoc] using hfin⟩
      · rename_i f args ts' hc
        obtain ⟨p, hp, hder⟩ := A.at_ 15 (by omega) tl _ ts' hnl.tail hc
        have hnl' : NoNl ts' := by rw [hp] at hnl; exact hnl.tail.suffix
        have hd' : Derives 0 (pre0 ++ t :: p) (pipeResult acc (.call f args)) :=
          Derives.pipe t hd (by simpa using hk) hder rfl
        obtain ⟨mid, hmid, hfin⟩ := A.loop0 _ ts' e rest _ hnl' hd' h
        exact ⟨t :: p ++ mid, by simp [hp, hmid], by simpa [List.append_assoc] using hfin⟩
      · cases h
    · injection h with h; injection h with h1 h2; subst h1 h2
      exact ⟨[], by simp, by simpa using hd⟩

theorem step_loop11 : ∀ acc ts e rest pre0, NoNl ts → Derives 11 pre0 acc → ifactorLoop (n + 1) acc ts = .ok (e, rest) →
    ∃ mid, ts = mid ++ rest ∧ Derives 11 (pre0 ++ mid) e := by
  intro acc ts e rest pre0 hnl hd h
  simp only [ifactorLoop] at h
  split at h
  · rename_i hk
    split at h
    · cases h
    · rename_i rhs ts' hc
      obtain ⟨p, hp, hder⟩ := A.at_ 12 (by omega) ts rhs ts' hnl hc
      have hnl' : NoNl ts' := by rw [hp] at hnl; exact hnl.suffix
      have hpk : couldStartPower (peekKind p) = true := by
        cases p with
        | nil => exact absurd rfl hder.ne_nil
        | cons q qs => rw [hp] at hk; simpa [peekKind] using hk
      have hd' : Derives 11 (pre0 ++ p) (.imul acc rhs) := Derives.imul hd hder hpk
      obtain ⟨mid, hmid, hfin⟩ := A.loop11 _ ts' e rest _ hnl' hd' h
      exact ⟨p ++ mid, by simp [hp, hmid], by simpa [List.append_assoc] using hfin⟩
  · injection h with h; injection h with h1 h2; subst h1 h2
    exact ⟨[], by simp, by simpa using hd⟩


theorem step_expr : ∀ ts e rest, NoNl ts → expression (n + 1) ts = .ok (e, rest) → ∃ pre, ts = pre ++ rest ∧ Derives 0 pre e := by
  intro ts e rest hnl h
  simp only [expression] at h
  exact A.at_ 0 (by omega) ts e rest hnl h

theorem step_loop15 : ∀ acc ts e rest pre0, NoNl ts → Derives 15 pre0 acc → callLoop (n + 1) acc ts = .ok (e, rest) →
    ∃ mid, ts = mid ++ rest ∧ Derives 15 (pre0 ++ mid) e := by
  intro acc ts e rest pre0 hnl hd h
  cases ts with
  | nil =>
    simp only [callLoop] at h
    injection h with h; injection h with h1 h2; subst h1 h2
    exact ⟨[], by simp, by simpa using hd⟩
  | cons t tl =>
    simp only [callLoop] at h
    split at h
    · rename_i hk
      split at h
      · cases h
      · rename_i args ts' ha
        obtain ⟨p, hp, hder⟩ := A.args tl args ts' hnl.tail ha
        have hnl' : NoNl ts' := by rw [hp] at hnl; exact hnl.tail.suffix
        have hd' : Derives 15 (pre0 ++ t :: p) (.call acc args) := Derives.call t hd (by simpa using hk) hder
        obtain ⟨mid, hmid, hfin⟩ := A.loop15 _ ts' e rest _ hnl' hd' h
        exact ⟨t :: p ++ mid, by simp [hp, hmid], by simpa [List.append_assoc] using hfin⟩
    · split at h
      · rename_i hk
        split at h
        · cases h
        · rename_i t2 rest2
          split at h
          · rename_i hid
            have hd' : Derives 15 (pre0 ++ [t, t2]) (.field acc t2.lexeme) :=
              Derives.field t t2 hd (by simpa using hk) (by simpa using hid)
            obtain ⟨mid, hmid, hfin⟩ := A.loop15 _ rest2 e rest _ hnl.tail.tail hd' h
            exact ⟨t :: t2 :: mid, by simp [hmid], by simpa [List.append_assoc] using hfin⟩
          · cases h
      · injection h with h; injection h with h1 h2; subst h1 h2
        exact ⟨[], by simp, by simpa using hd⟩

theorem step_argsLoop : ∀ acc ts as rest, NoNl ts → argumentsLoop (n + 1) acc ts = .ok (as, rest) →
    ∃ pre more, ts = pre ++ rest ∧ as = acc ++ more ∧ DerivesArgsTail .rightParen pre more := by
  intro acc ts as rest hnl h
  simp only [argumentsLoop] at h
  rw [hnl.skip] at h
  split at h
  · cases h
  · rename_i t tl
    split at h
    · rename_i hcomma
      rw [hnl.tail.skip] at h
      split at h
      · cases h
      · rename_i t2 rest2
        split at h
        · rename_i hrp
          injection h with h; injection h with h1 h2; subst h1 h2
          exact ⟨[t, t2], [], by simp, by simp, DerivesArgsTail.trailing t t2 (by simpa using hcomma) (by simpa using hrp)⟩
        · split at h
          · cases h
          · rename_i e1 ts' he
            obtain ⟨p, hp, hder⟩ := A.expr _ e1 ts' hnl.tail he
            have hnl' : NoNl ts' := by rw [hp] at hnl; exact hnl.tail.suffix
            obtain ⟨p2, more, hp2, has, htail⟩ := A.argsLoop _ ts' as rest hnl' h
            refine ⟨t :: p ++ p2, e1 :: more, by simp [hp, hp2], by simp [has], ?_⟩
            simpa using DerivesArgsTail.more t (by simpa using hcomma) hder htail
    · split at h
      · rename_i hrp
        injection h with h; injection h with h1 h2; subst h1 h2
        exact ⟨[t], [], by simp, by simp, DerivesArgsTail.close t (by simpa using hrp)⟩
      · cases h

theorem step_args : ∀ ts as rest, NoNl ts → arguments (n + 1) ts = .ok (as, rest) →
    ∃ pre, ts = pre ++ rest ∧ DerivesArgs .rightParen pre as := by
  intro ts as rest hnl h
  simp only [arguments] at h
  rw [hnl.skip] at h
  split at h
  · cases h
  · rename_i t tl
    split at h
    · rename_i hrp
      injection h with h; injection h with h1 h2; subst h1 h2
      exact ⟨[t], by simp, DerivesArgs.empty t (by simpa using hrp)⟩
    · split at h
      · cases h
      · rename_i e1 ts' he
        obtain ⟨p, hp, hder⟩ := A.expr _ e1 ts' hnl he
        have hnl' : NoNl ts' := by rw [hp] at hnl; exact hnl.suffix
        obtain ⟨p2, more, hp2, has, htail⟩ := A.argsLoop _ ts' as rest hnl' h
        refine ⟨p ++ p2, by simp [hp, hp2], ?_⟩
        rw [has]
        exact DerivesArgs.cons hder htail


theorem step_list : ∀ acc ts e rest, NoNl ts → listLoop (n + 1) acc ts = .ok (e, rest) →
    ∃ pre more, ts = pre ++ rest ∧ e = .list (acc ++ more) ∧ DerivesArgs .rightBracket pre more := by
  intro acc ts e rest hnl h
  cases ts with
  | nil => simp [listLoop] at h
  | cons t tl =>
    simp only [listLoop] at h
    split at h
    · rename_i hrb
      injection h with h; injection h with h1 h2; subst h1 h2
      exact ⟨[t], [], by simp, by simp, DerivesArgs.empty t (by simpa using hrb)⟩
    · rw [hnl.skip] at h
      split at h
      · cases h
      · rename_i e1 ts1 he
        obtain ⟨p, hp, hder⟩ := A.expr _ e1 ts1 hnl he
        have hnl1 : NoNl ts1 := by rw [hp] at hnl; exact hnl.suffix
        rw [hnl1.skip] at h
        split at h
        · cases h
        · rename_i t2 rest2
          split at h
          · rename_i hcomma
            rw [hnl1.tail.skip] at h
            obtain ⟨p2, more2, hp2, he2, hda⟩ := A.list _ rest2 e rest hnl1.tail h
            have htail : DerivesArgsTail .rightBracket (t2 :: p2) more2 := by
              cases hda with
              | empty c hc => exact DerivesArgsTail.trailing t2 c (by simpa using hcomma) hc
              | cons d tl' => exact DerivesArgsTail.more t2 (by simpa using hcomma) d tl'
            refine ⟨p ++ t2 :: p2, e1 :: more2, by simp [hp, hp2], by simp [he2], DerivesArgs.cons hder htail⟩
          · split at h
            · rename_i hrb
              rw [hnl1.skip] at h
              obtain ⟨h1, h2⟩ := listLoop_close (by simpa using hrb) h
              subst h1 h2
              exact ⟨p ++ [t2], [e1], by simp [hp], rfl,
                DerivesArgs.cons hder (DerivesArgsTail.close t2 (by simpa using hrb))⟩
            · cases h

theorem step_struct : ∀ name acc ts e rest, NoNl ts → structLoop (n + 1) name acc ts = .ok (e, rest) →
    ∃ pre more, ts = pre ++ rest ∧ e = .struct name (acc ++ more) ∧ DerivesFields pre more := by
  intro name acc ts e rest hnl h
  cases ts with
  | nil => simp [structLoop] at h
  | cons t tl =>
    simp only [structLoop] at h
    split at h
    · rename_i hrc
      injection h with h; injection h with h1 h2; subst h1 h2
      exact ⟨[t], [], by simp, by simp, DerivesFields.empty t (by simpa using hrc)⟩
    · rw [hnl.skip] at h
      simp only at h
      split at h
      · cases h
      · rename_i hid
        rw [hnl.tail.skip] at h
        split at h
        · cases h
        · rename_i c rest2
          split at h
          · cases h
          · rename_i hcol
            rw [hnl.tail.tail.skip] at h
            split at h
            · cases h
            · rename_i e1 ts3 he
              obtain ⟨p, hp, hder⟩ := A.expr _ e1 ts3 hnl.tail.tail he
              have hnl3 : NoNl ts3 := by rw [hp] at hnl; exact hnl.tail.tail.suffix
              rw [hnl3.skip] at h
              split at h
              · cases h
              · rename_i t4 rest4
                split at h
                · rename_i hcomma
                  rw [hnl3.tail.skip] at h
                  obtain ⟨p2, more2, hp2, he2, hdf⟩ := A.struct _ _ rest4 e rest hnl3.tail h
                  have htail : DerivesFieldsTail (t4 :: p2) more2 := by
                    cases hdf with
                    | empty c' hc => exact DerivesFieldsTail.trailing t4 c' (by simpa using hcomma) hc
                    | cons id col hid' hcol' d tl' =>
                      exact DerivesFieldsTail.more t4 id col (by simpa using hcomma) hid' hcol' d tl'
                  refine ⟨t :: c :: p ++ t4 :: p2, (t.lexeme, e1) :: more2, by simp [hp, hp2], by simp [he2], ?_⟩
                  simpa using DerivesFields.cons t c (by simpa using hid) (by simpa using hcol) hder htail
                · split at h
                  · rename_i hrc
                    obtain ⟨h1, h2⟩ := structLoop_close (by simpa using hrc) h
                    subst h1 h2
                    refine ⟨t :: c :: p ++ [t4], [(t.lexeme, e1)], by simp [hp], rfl, ?_⟩
                    simpa using DerivesFields.cons t c (by simpa using hid) (by simpa using hcol) hder
                      (DerivesFieldsTail.close t4 (by simpa using hrc))
                  · cases h


theorem step_at16 : SoundAt 16 (n + 1) := by
  intro ts e rest hnl h
  simp only [parseAt] at h
  cases ts with
  | nil => simp [primary] at h
  | cons t tl =>
    simp only [primary] at h
    split at h
    · rename_i hk
      injection h with h; injection h with h1 h2; subst h1 h2
      exact ⟨[t], by simp, Derives.scalar t (by simp [hk, isNumericKind]) (by simp [hk])⟩
    · rename_i hk
      split at h
      · cases h
      · rename_i hov
        injection h with h; injection h with h1 h2; subst h1 h2
        exact ⟨[t], by simp, Derives.scalar t (by simp [hk, isNumericKind]) (fun _ => by simpa using hov)⟩
    · rename_i hk
      split at h
      · cases h
      · rename_i hov
        injection h with h; injection h with h1 h2; subst h1 h2
        exact ⟨[t], by simp, Derives.scalar t (by simp [hk, isNumericKind]) (fun _ => by simpa using hov)⟩
    · rename_i hk
      split at h
      · cases h
      · rename_i hov
        injection h with h; injection h with h1 h2; subst h1 h2
        exact ⟨[t], by simp, Derives.scalar t (by simp [hk, isNumericKind]) (fun _ => by simpa using hov)⟩
    · rename_i hk
      injection h with h; injection h with h1 h2; subst h1 h2
      exact ⟨[t], by simp, Derives.scalar t (by simp [hk, isNumericKind]) (by simp [hk])⟩
    · rename_i hk
      injection h with h; injection h with h1 h2; subst h1 h2
      exact ⟨[t], by simp, Derives.scalar t (by simp [hk, isNumericKind]) (by simp [hk])⟩
    · rename_i hk
      rw [hnl.tail.skip] at h
      obtain ⟨p, more, hp, he, hda⟩ := A.list [] tl e rest hnl.tail h
      subst he
      exact ⟨t :: p, by simp [hp], by simpa using Derives.list t hk hda⟩
    · rename_i hk
      injection h with h; injection h with h1 h2; subst h1 h2
      exact ⟨[t], by simp, Derives.hole t hk⟩
    · rename_i hk
      split at h
      · injection h with h; injection h with h1 h2; subst h1 h2
        exact ⟨[t], by simp, Derives.ident t hk⟩
      · rename_i t2 rest2
        split at h
        · rename_i hlc
          rw [hnl.tail.tail.skip] at h
          obtain ⟨p, more, hp, he, hdf⟩ := A.struct t.lexeme [] rest2 e rest hnl.tail.tail h
          subst he
          exact ⟨t :: t2 :: p, by simp [hp], by simpa using Derives.struct t t2 hk (by simpa using hlc) hdf⟩
        · injection h with h; injection h with h1 h2; subst h1 h2
          exact ⟨[t], by simp, Derives.ident t hk⟩
    · rename_i hk
      injection h with h; injection h with h1 h2; subst h1 h2
      exact ⟨[t], by simp, Derives.true_ t hk⟩
    · rename_i hk
      injection h with h; injection h with h1 h2; subst h1 h2
      exact ⟨[t], by simp, Derives.false_ t hk⟩
    · rename_i hk
      injection h with h; injection h with h1 h2; subst h1 h2
      exact ⟨[t], by simp, Derives.str t hk⟩
    · cases h
    · rename_i hk
      split at h
      · cases h
      · rename_i e1 ts' he
        obtain ⟨p, hp, hder⟩ := A.expr tl e1 ts' hnl.tail he
        split at h
        · cases h
        · rename_i t2 rest2
          split at h
          · rename_i hrp
            injection h with h; injection h with h1 h2; subst h1 h2
            exact ⟨t :: p ++ [t2], by simp [hp], Derives.paren t t2 hk hder (by simpa using hrp)⟩
          · cases h
    · cases h
    · cases h
    · cases h

end Steps

theorem all : ∀ n, All n
  | 0 => all_zero
  | n + 1 => by
    have A := all n
    refine ⟨?_, step_expr A, step_loop0 A, step_loop11 A, step_loop15 A, step_args A, step_argsLoop A, step_list A,
      step_struct A⟩
    intro L hL
    have : L = 0 ∨ L = 1 ∨ L = 2 ∨ L = 3 ∨ L = 4 ∨ L = 5 ∨ L = 6 ∨ L = 7 ∨ L = 8 ∨ L = 9 ∨ L = 10 ∨ L = 11 ∨ L = 12
        ∨ L = 13 ∨ L = 14 ∨ L = 15 ∨ L = 16 := by omega
    rcases this with rfl | rfl | rfl | rfl | rfl | rfl | rfl | rfl | rfl | rfl | rfl | rfl | rfl | rfl | rfl | rfl | rfl
    · exact step_at0 A
    · exact step_at1 A
    · exact soundAt_bin rfl (by omega) (A.at_ 3 (by omega))
    · exact soundAt_bin rfl (by omega) (A.at_ 4 (by omega))
    · exact soundAt_bin rfl (by omega) (A.at_ 5 (by omega))
    · exact step_at5 A
    · exact soundAt_bin rfl (by omega) (A.at_ 7 (by omega))
    · exact soundAt_bin rfl (by omega) (A.at_ 8 (by omega))
    · exact soundAt_bin rfl (by omega) (A.at_ 9 (by omega))
    · exact soundAt_bin rfl (by omega) (A.at_ 10 (by omega))
    · exact step_at10 A
    · exact step_at11 A
    · exact step_at12 A
    · exact step_at13 A
    · exact step_at14 A
    · exact step_at15 A
    · exact step_at16 A

end NumbatModel.Syntax
