import NumbatModel.Model.SyntaxGrammar
import NumbatModel.Lemmas.Syntax
/-!
C10 helper lemmas, part 5: soundness of the parser model w.r.t. the documented grammar `Derives`
(newline-free token lists: the BNF does not mention the newlines the parser skips inside brackets).
-/
namespace NumbatModel.Syntax

def NoNl (ts : List Token) : Prop := ∀ t ∈ ts, t.kind ≠ .newline

theorem NoNl.skip {ts : List Token} (h : NoNl ts) : skipNewlines ts = ts := by
  cases ts with
  | nil => rfl
  | cons t rest => simp [skipNewlines, h t (by simp)]

theorem NoNl.tail {t : Token} {ts : List Token} (h : NoNl (t :: ts)) : NoNl ts :=
  fun x hx => h x (by simp [hx])

theorem NoNl.suffix {pre rest : List Token} (h : NoNl (pre ++ rest)) : NoNl rest :=
  fun x hx => h x (by simp [hx])

theorem binOpsAt_eq (L : Nat) : binOpsAt L = opsAt L := by
  unfold binOpsAt opsAt; split <;> rfl

/-- soundness of the function of level `L` with fuel `n` -/
def SoundAt (L n : Nat) : Prop :=
  ∀ ts e rest, NoNl ts → parseAt L n ts = .ok (e, rest) → ∃ pre, ts = pre ++ rest ∧ Derives L pre e

/-- soundness of `next` gives soundness of the `parse_binop` loop over it -/
theorem binLoop_sound {L : Nat} {next : List Token → PRes Expr}
    (hnext : ∀ ts e rest, NoNl ts → next ts = .ok (e, rest) → ∃ pre, ts = pre ++ rest ∧ Derives (L + 1) pre e) :
    ∀ (m : Nat) (acc : Expr) (ts : List Token) (e : Expr) (rest pre0 : List Token), NoNl ts → Derives L pre0 acc →
      binLoop (opsAt L) next m acc ts = .ok (e, rest) → ∃ mid, ts = mid ++ rest ∧ Derives L (pre0 ++ mid) e := by
  intro m
  induction m with
  | zero => intro acc ts e rest pre0 _ _ h; simp [binLoop] at h
  | succ m ih =>
    intro acc ts e rest pre0 hnl hd h
    cases ts with
    | nil =>
      simp only [binLoop] at h
      injection h with h; injection h with h1 h2; subst h1 h2
      exact ⟨[], by simp, by simpa using hd⟩
    | cons t tl =>
      simp only [binLoop] at h
      split at h
      · injection h with h; injection h with h1 h2; subst h1 h2
        exact ⟨[], by simp, by simpa using hd⟩
      · rename_i op hop
        split at h
        · cases h
        · rename_i rhs ts' hn
          obtain ⟨pre, hpre, hder⟩ := hnext tl rhs ts' hnl.tail hn
          have hnl' : NoNl ts' := by rw [hpre] at hnl; exact hnl.tail.suffix
          have hd' : Derives L (pre0 ++ t :: pre) (.bin op acc rhs) :=
            Derives.binop t (by rw [binOpsAt_eq]; exact hop) hd hder
          obtain ⟨mid, hmid, hfin⟩ := ih (.bin op acc rhs) ts' e rest (pre0 ++ t :: pre) hnl' hd' h
          refine ⟨t :: pre ++ mid, by simp [hpre, hmid], ?_⟩
          simpa [List.append_assoc] using hfin

theorem soundAt_bin {L n : Nat} (hL : isBinLevel L = true) (hlt : L < 16) (ih : SoundAt (L + 1) n) : SoundAt L (n + 1) := by
  intro ts e rest hnl h
  rw [parseAt_bin hL, parseBinop] at h
  split at h
  · cases h
  · rename_i lhs ts' hn
    obtain ⟨pre, hpre, hder⟩ := ih ts lhs ts' hnl hn
    have hnl' : NoNl ts' := by rw [hpre] at hnl; exact hnl.suffix
    obtain ⟨mid, hmid, hfin⟩ := binLoop_sound (L := L) (fun a b c d e => ih a b c d e) n lhs ts' e rest pre hnl'
      (Derives.up hlt hder) h
    exact ⟨pre ++ mid, by simp [hpre, hmid], hfin⟩

end NumbatModel.Syntax
