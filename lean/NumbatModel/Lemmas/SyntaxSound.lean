import NumbatModel.Model.SyntaxGrammar
import NumbatModel.Lemmas.Syntax
/-!
C10 helper lemmas, part 5: soundness of the parser model w.r.t. the documented grammar `Derives`
(newline-free token lists: the BNF does not mention the newlines the parser skips inside brackets).
-/
namespace NumbatModel.Syntax

/-- no nonterminal derives the empty token list -/
theorem Derives.ne_nil : ∀ {L : Nat} {p : List Token} {e : Expr}, Derives L p e → p ≠ []
  | _, _, _, .up _ d => d.ne_nil
  | _, _, _, .pipe _ _ _ _ _ => by simp
  | _, _, _, .cond _ _ _ _ _ _ _ _ _ => by simp
  | _, _, _, .binop _ _ _ _ => by simp
  | _, _, _, .lnot _ _ _ => by simp
  | _, _, _, .neg _ _ _ => by simp
  | _, _, _, .uplus _ _ _ => by simp
  | _, _, _, .imul d _ _ => by simp [d.ne_nil]
  | _, _, _, .pow _ _ _ _ => by simp
  | _, _, _, .powNeg _ _ _ _ _ _ => by simp
  | _, _, _, .fact _ d _ _ => by simp [d.ne_nil]
  | _, _, _, .upow _ _ _ => by simp
  | _, _, _, .call _ _ _ _ => by simp
  | _, _, _, .field _ _ _ _ _ => by simp
  | _, _, _, .scalar _ _ _ => by simp
  | _, _, _, .ident _ _ => by simp
  | _, _, _, .hole _ _ => by simp
  | _, _, _, .true_ _ _ => by simp
  | _, _, _, .false_ _ _ => by simp
  | _, _, _, .str _ _ => by simp
  | _, _, _, .paren _ _ _ _ _ => by simp
  | _, _, _, .list _ _ _ => by simp
  | _, _, _, .struct _ _ _ _ _ => by simp

def NoNl (ts : List Token) : Prop := ∀ t ∈ ts, t.kind ≠ .newline

theorem NoNl.skip {ts : List Token} (h : NoNl ts) : skipNewlines ts = ts := by
  cases ts with
  | nil => rfl
  | cons t rest => simp [skipNewlines, h t (by simp)]

theorem NoNl.tail {t : Token} {ts : List Token} (h : NoNl (t :: ts)) : NoNl ts :=
  fun x hx => h x (by simp [hx])

theorem NoNl.suffix {pre rest : List Token} (h : NoNl (pre ++ rest)) : NoNl rest :=
  fun x hx => h x (by simp [hx])

theorem binOpsAt_eq (L : Nat) : binOpsAt L = opsAt L := by
  unfold binOpsAt opsAt; rfl

/-- soundness of the function of level `L` with fuel `n` -/
def SoundAt (L n : Nat) : Prop :=
  ∀ ts e rest, NoNl ts → parseAt L n ts = .ok (e, rest) → ∃ pre, ts = pre ++ rest ∧ Derives L pre e

/-- soundness of `next` gives soundness of the `parse_binop` loop over it -/
theorem binLoop_sound {L : Nat} {next : List Token → PRes Expr}
    (hnext : ∀ ts e rest, NoNl ts → next ts = .ok (e, rest) → ∃ pre, ts = pre ++ rest ∧ Derives (L + 1) pre e) :
    ∀ (m : Nat) (acc : Expr) (ts : List Token) (e : Expr) (rest pre0 : List Token), NoNl ts → Derives L pre0 acc →
      binLoop (opsAt L) next m acc ts = .ok (e, rest) → ∃ mid, ts = mid ++ rest ∧ Derives L (pre0 ++ mid) e := by
  intro m
  induction m with
  | zero => intro acc ts e rest pre0 _ _ h; simp [binLoop] at h
  | succ m ih =>
    intro acc ts e rest pre0 hnl hd h
    cases ts with
    | nil =>
      simp only [binLoop] at h
      injection h with h; injection h with h1 h2; subst h1 h2
      exact ⟨[], by simp, by simpa using hd⟩
    | cons t tl =>
      simp only [binLoop] at h
      split at h
      · injection h with h; injection h with h1 h2; subst h1 h2
        exact ⟨[], by simp, by simpa using hd⟩
      · rename_i op hop
        split at h
        · cases h
        · rename_i rhs ts' hn
          obtain ⟨pre, hpre, hder⟩ := hnext tl rhs ts' hnl.tail hn
          have hnl' : NoNl ts' := by rw [hpre] at hnl; exact hnl.tail.suffix
          have hd' : Derives L (pre0 ++ t :: pre) (.bin op acc rhs) :=
            Derives.binop t (by rw [binOpsAt_eq]; exact hop) hd hder
          obtain ⟨mid, hmid, hfin⟩ := ih (.bin op acc rhs) ts' e rest (pre0 ++ t :: pre) hnl' hd' h
          refine ⟨t :: pre ++ mid, by simp [hpre, hmid], ?_⟩
          simpa [List.append_assoc] using hfin

theorem soundAt_bin {L n : Nat} (hL : isBinLevel L = true) (hlt : L < 16) (ih : SoundAt (L + 1) n) : SoundAt L (n + 1) := by
  intro ts e rest hnl h
  rw [parseAt_bin hL, parseBinop] at h
  split at h
  · cases h
  · rename_i lhs ts' hn
    obtain ⟨pre, hpre, hder⟩ := ih ts lhs ts' hnl hn
    have hnl' : NoNl ts' := by rw [hpre] at hnl; exact hnl.suffix
    obtain ⟨mid, hmid, hfin⟩ := binLoop_sound (L := L) (fun a b c d e => ih a b c d e) n lhs ts' e rest pre hnl'
      (Derives.up hlt hder) h
    exact ⟨pre ++ mid, by simp [hpre, hmid], hfin⟩


/-- soundness of every function of the parser at fuel `n` -/
structure All (n : Nat) : Prop where
  at_ : ∀ L, L ≤ 16 → SoundAt L n
  expr : ∀ ts e rest, NoNl ts → expression n ts = .ok (e, rest) → ∃ pre, ts = pre ++ rest ∧ Derives 0 pre e
  loop0 : ∀ acc ts e rest pre0, NoNl ts → Derives 0 pre0 acc → postfixLoop n acc ts = .ok (e, rest) →
    ∃ mid, ts = mid ++ rest ∧ Derives 0 (pre0 ++ mid) e
  loop11 : ∀ acc ts e rest pre0, NoNl ts → Derives 11 pre0 acc → ifactorLoop n acc ts = .ok (e, rest) →
    ∃ mid, ts = mid ++ rest ∧ Derives 11 (pre0 ++ mid) e
  loop15 : ∀ acc ts e rest pre0, NoNl ts → Derives 15 pre0 acc → callLoop n acc ts = .ok (e, rest) →
    ∃ mid, ts = mid ++ rest ∧ Derives 15 (pre0 ++ mid) e
  args : ∀ ts as rest, NoNl ts → arguments n ts = .ok (as, rest) →
    ∃ pre, ts = pre ++ rest ∧ DerivesArgs .rightParen pre as
  argsLoop : ∀ acc ts as rest, NoNl ts → argumentsLoop n acc ts = .ok (as, rest) →
    ∃ pre more, ts = pre ++ rest ∧ as = acc ++ more ∧ DerivesArgsTail .rightParen pre more
  list : ∀ acc ts e rest, NoNl ts → listLoop n acc ts = .ok (e, rest) →
    ∃ pre more, ts = pre ++ rest ∧ e = .list (acc ++ more) ∧ DerivesArgs .rightBracket pre more
  struct : ∀ name acc ts e rest, NoNl ts → structLoop n name acc ts = .ok (e, rest) →
    ∃ pre more, ts = pre ++ rest ∧ e = .struct name (acc ++ more) ∧ DerivesFields pre more

theorem all_zero : All 0 := by
  refine ⟨?_, ?_, ?_, ?_, ?_, ?_, ?_, ?_, ?_⟩
  · intro L _ ts e rest _ h; rw [parseAt_zero] at h; cases h
  all_goals (intros; simp_all [expression, postfixLoop, ifactorLoop, callLoop, arguments, argumentsLoop, listLoop, structLoop])

theorem countBangs_spec : ∀ (ts : List Token), ∃ bangs, ts = bangs ++ (countBangs ts).2 ∧ bangs.length = (countBangs ts).1 ∧
    ∀ b ∈ bangs, b.kind = .exclamationMark
  | [] => ⟨[], by simp [countBangs]⟩
  | t :: ts => by
    by_cases h : t.kind = .exclamationMark
    · obtain ⟨bs, h1, h2, h3⟩ := countBangs_spec ts
      refine ⟨t :: bs, ?_, ?_, ?_⟩
      · simp only [countBangs, h, beq_self_eq_true, ↓reduceIte, List.cons_append]; rw [← h1]
      · simp [countBangs, h, h2]
      · intro b hb; rcases List.mem_cons.mp hb with rfl | hb
        · exact h
        · exact h3 b hb
    · exact ⟨[], by simp [countBangs, h]⟩


section Steps
variable {n : Nat} (A : All n)
include A

theorem step_at0 : SoundAt 0 (n + 1) := by
  intro ts e rest hnl h
  simp only [parseAt, postfixApply] at h
  split at h
  · cases h
  · rename_i e1 ts' hc
    obtain ⟨pre, hpre, hder⟩ := A.at_ 1 (by omega) ts e1 ts' hnl hc
    have hnl' : NoNl ts' := by rw [hpre] at hnl; exact hnl.suffix
    obtain ⟨mid, hmid, hfin⟩ := A.loop0 e1 ts' e rest pre hnl' (Derives.up (by omega) hder) h
    exact ⟨pre ++ mid, by simp [hpre, hmid], hfin⟩

theorem step_at1 : SoundAt 1 (n + 1) := by
  intro ts e rest hnl h
  simp only [parseAt] at h
  cases ts with
  | nil =>
    simp only [condition] at h
    obtain ⟨pre, hpre, hder⟩ := A.at_ 2 (by omega) [] e rest hnl h
    exact ⟨pre, hpre, Derives.up (by omega) hder⟩
  | cons t tl =>
    simp only [condition] at h
    split at h
    · rename_i hif
      split at h
      · cases h
      · rename_i c ts1 hc
        obtain ⟨p1, hp1, hd1⟩ := A.at_ 2 (by omega) tl c ts1 hnl.tail hc
        have hnl1 : NoNl ts1 := by rw [hp1] at hnl; exact hnl.tail.suffix
        rw [hnl1.skip] at h
        split at h
        · cases h
        · rename_i t2 rest2
          split at h
          · cases h
          · rename_i hthen
            rw [hnl1.tail.skip] at h
            split at h
            · cases h
            · rename_i th ts2 hth
              obtain ⟨p2, hp2, hd2⟩ := A.at_ 1 (by omega) rest2 th ts2 hnl1.tail hth
              have hnl2 : NoNl ts2 := by rw [hp2] at hnl1; exact hnl1.tail.suffix
              rw [hnl2.skip] at h
              split at h
              · cases h
              · rename_i t3 rest3
                split at h
                · cases h
                · rename_i helse
                  rw [hnl2.tail.skip] at h
                  split at h
                  · cases h
                  · rename_i el ts3 hel
                    obtain ⟨p3, hp3, hd3⟩ := A.at_ 1 (by omega) rest3 el ts3 hnl2.tail hel
                    injection h with h; injection h with h1 h2; subst h1 h2
                    refine ⟨t :: p1 ++ t2 :: p2 ++ t3 :: p3, by simp [hp1, hp2, hp3], ?_⟩
                    exact Derives.cond t t2 t3 (by simpa using hif) hd1 (by simpa using hthen) hd2
                      (by simpa using helse) hd3
    · obtain ⟨pre, hpre, hder⟩ := A.at_ 2 (by omega) (t :: tl) e rest hnl h
      exact ⟨pre, hpre, Derives.up (by omega) hder⟩

theorem step_at5 : SoundAt 5 (n + 1) := by
  intro ts e rest hnl h
  simp only [parseAt] at h
  cases ts with
  | nil =>
    simp only [logicalNeg] at h
    obtain ⟨pre, hpre, hder⟩ := A.at_ 6 (by omega) [] e rest hnl h
    exact ⟨pre, hpre, Derives.up (by omega) hder⟩
  | cons t tl =>
    simp only [logicalNeg] at h
    split at h
    · rename_i hk
      split at h
      · cases h
      · rename_i e1 ts' h1
        obtain ⟨pre, hpre, hder⟩ := A.at_ 5 (by omega) tl e1 ts' hnl.tail h1
        injection h with h; injection h with h1 h2; subst h1 h2
        exact ⟨t :: pre, by simp [hpre], Derives.lnot t (by simpa using hk) hder⟩
    · obtain ⟨pre, hpre, hder⟩ := A.at_ 6 (by omega) (t :: tl) e rest hnl h
      exact ⟨pre, hpre, Derives.up (by omega) hder⟩

theorem step_at10 : SoundAt 10 (n + 1) := by
  intro ts e rest hnl h
  simp only [parseAt] at h
  cases ts with
  | nil =>
    simp only [unary] at h
    obtain ⟨pre, hpre, hder⟩ := A.at_ 11 (by omega) [] e rest hnl h
    exact ⟨pre, hpre, Derives.up (by omega) hder⟩
  | cons t tl =>
    simp only [unary] at h
    split at h
    · rename_i hk
      split at h
      · cases h
      · rename_i e1 ts' h1
        obtain ⟨pre, hpre, hder⟩ := A.at_ 10 (by omega) tl e1 ts' hnl.tail h1
        injection h with h; injection h with h1 h2; subst h1 h2
        exact ⟨t :: pre, by simp [hpre], Derives.neg t (by simpa using hk) hder⟩
    · split at h
      · rename_i hk
        obtain ⟨pre, hpre, hder⟩ := A.at_ 10 (by omega) tl e rest hnl.tail h
        exact ⟨t :: pre, by simp [hpre], Derives.uplus t (by simpa using hk) hder⟩
      · obtain ⟨pre, hpre, hder⟩ := A.at_ 11 (by omega) (t :: tl) e rest hnl h
        exact ⟨pre, hpre, Derives.up (by omega) hder⟩

theorem step_at11 : SoundAt 11 (n + 1) := by
  intro ts e rest hnl h
  simp only [parseAt, ifactor] at h
  split at h
  · cases h
  · rename_i e1 ts' hc
    obtain ⟨pre, hpre, hder⟩ := A.at_ 12 (by omega) ts e1 ts' hnl hc
    have hnl' : NoNl ts' := by rw [hpre] at hnl; exact hnl.suffix
    obtain ⟨mid, hmid, hfin⟩ := A.loop11 e1 ts' e rest pre hnl' (Derives.up (by omega) hder) h
    exact ⟨pre ++ mid, by simp [hpre, hmid], hfin⟩

theorem step_at15 : SoundAt 15 (n + 1) := by
  intro ts e rest hnl h
  simp only [parseAt, call] at h
  split at h
  · cases h
  · rename_i e1 ts' hc
    obtain ⟨pre, hpre, hder⟩ := A.at_ 16 (by omega) ts e1 ts' hnl hc
    have hnl' : NoNl ts' := by rw [hpre] at hnl; exact hnl.suffix
    obtain ⟨mid, hmid, hfin⟩ := A.loop15 e1 ts' e rest pre hnl' (Derives.up (by omega) hder) h
    exact ⟨pre ++ mid, by simp [hpre, hmid], hfin⟩


theorem step_at12 : SoundAt 12 (n + 1) := by
  intro ts e rest hnl h
  simp only [parseAt, power] at h
  split at h
  · cases h
  · rename_i e1 ts' hc
    obtain ⟨pre, hpre, hder⟩ := A.at_ 13 (by omega) ts e1 ts' hnl hc
    have hnl' : NoNl ts' := by rw [hpre] at hnl; exact hnl.suffix
    split at h
    · injection h with h; injection h with h1 h2; subst h1 h2
      exact ⟨pre, hpre, Derives.up (by omega) hder⟩
    · rename_i t tl
      split at h
      · rename_i hk
        split at h
        · split at h
          · cases h
          · rename_i rhs ts'' hr
            obtain ⟨p2, hp2, hd2⟩ := A.at_ 12 (by omega) [] rhs ts'' (by intro x hx; cases hx) hr
            injection h with h; injection h with h1 h2; subst h1 h2
            exact ⟨pre ++ t :: p2, by simp [hpre, hp2], Derives.pow t hder (by simpa using hk) hd2⟩
        · rename_i t2 rest2
          split at h
          · rename_i hm
            split at h
            · cases h
            · rename_i rhs ts'' hr
              obtain ⟨p2, hp2, hd2⟩ := A.at_ 12 (by omega) rest2 rhs ts'' hnl'.tail.tail hr
              injection h with h; injection h with h1 h2; subst h1 h2
              exact ⟨pre ++ t :: t2 :: p2, by simp [hpre, hp2],
                Derives.powNeg t t2 hder (by simpa using hk) (by simpa using hm) hd2⟩
          · split at h
            · cases h
            · rename_i rhs ts'' hr
              obtain ⟨p2, hp2, hd2⟩ := A.at_ 12 (by omega) (t2 :: rest2) rhs ts'' hnl'.tail hr
              injection h with h; injection h with h1 h2; subst h1 h2
              exact ⟨pre ++ t :: p2, by simp [hpre, hp2], Derives.pow t hder (by simpa using hk) hd2⟩
      · injection h with h; injection h with h1 h2; subst h1 h2
        exact ⟨pre, hpre, Derives.up (by omega) hder⟩

theorem step_at13 : SoundAt 13 (n + 1) := by
  intro ts e rest hnl h
  simp only [parseAt, factorial] at h
  split at h
  · cases h
  · rename_i e1 ts' hc
    obtain ⟨pre, hpre, hder⟩ := A.at_ 14 (by omega) ts e1 ts' hnl hc
    obtain ⟨bangs, hb1, hb2, hb3⟩ := countBangs_spec ts'
    split at h
    · rename_i hne
      injection h with h; injection h with h1 h2; subst h1 h2
      refine ⟨pre ++ bangs, by rw [List.append_assoc, ← hb1, hpre], ?_⟩
      rw [← hb2]
      refine Derives.fact bangs hder ?_ hb3
      intro hnil; subst hnil; simp at hb2; simp [← hb2] at hne
    · injection h with h; injection h with h1 h2; subst h1 h2
      exact ⟨pre, hpre, Derives.up (by omega) hder⟩

theorem step_at14 : SoundAt 14 (n + 1) := by
  intro ts e rest hnl h
  simp only [parseAt, unicodePower] at h
  split at h
  · cases h
  · rename_i e1 ts' hc
    obtain ⟨pre, hpre, hder⟩ := A.at_ 15 (by omega) ts e1 ts' hnl hc
    split at h
    · injection h with h; injection h with h1 h2; subst h1 h2
      exact ⟨pre, hpre, Derives.up (by omega) hder⟩
    · rename_i t tl
      split at h
      · rename_i hk
        injection h with h; injection h with h1 h2; subst h1 h2
        exact ⟨pre ++ [t], by simp [hpre], Derives.upow t hder (by simpa using hk)⟩
      · injection h with h; injection h with h1 h2; subst h1 h2
        exact ⟨pre, hpre, Derives.up (by omega) hder⟩

theorem step_loop0 : ∀ acc ts e rest pre0, NoNl ts → Derives 0 pre0 acc → postfixLoop (n + 1) acc ts = .ok (e, rest) →
    ∃ mid, ts = mid ++ rest ∧ Derives 0 (pre0 ++ mid) e := by
  intro acc ts e rest pre0 hnl hd h
  cases ts with
  | nil =>
    simp only [postfixLoop] at h
    injection h with h; injection h with h1 h2; subst h1 h2
    exact ⟨[], by simp, by simpa using hd⟩
  | cons t tl =>
    simp only [postfixLoop] at h
    split at h
    · rename_i hk
      rw [hnl.tail.skip] at h
      split at h
      · cases h
      · rename_i name ts' hc
        obtain ⟨p, hp, hder⟩ := A.at_ 15 (by omega) tl _ ts' hnl.tail hc
        have hnl' : NoNl ts' := by rw [hp] at hnl; exact hnl.tail.suffix
        have hd' : Derives 0 (pre0 ++ t :: p) (pipeResult acc (.ident name)) :=
          Derives.pipe t hd (by simpa using hk) hder rfl
        obtain ⟨mid, hmid, hfin⟩ := A.loop0 _ ts' e rest _ hnl' hd' h
        exact ⟨t :: p ++ mid, by simp [hp, hmid], by simpa [List.append_assoc] using hfin⟩
      · rename_i f args ts' hc
        obtain ⟨p, hp, hder⟩ := A.at_ 15 (by omega) tl _ ts' hnl.tail hc
        have hnl' : NoNl ts' := by rw [hp] at hnl; exact hnl.tail.suffix
        have hd' : Derives 0 (pre0 ++ t :: p) (pipeResult acc (.call f args)) :=
          Derives.pipe t hd (by simpa using hk) hder rfl
        obtain ⟨mid, hmid, hfin⟩ := A.loop0 _ ts' e rest _ hnl' hd' h
        exact ⟨t :: p ++ mid, by simp [hp, hmid], by simpa [List.append_assoc] using hfin⟩
      · cases h
    · injection h with h; injection h with h1 h2; subst h1 h2
      exact ⟨[], by simp, by simpa using hd⟩

theorem step_loop11 : ∀ acc ts e rest pre0, NoNl ts → Derives 11 pre0 acc → ifactorLoop (n + 1) acc ts = .ok (e, rest) →
    ∃ mid, ts = mid ++ rest ∧ Derives 11 (pre0 ++ mid) e := by
  intro acc ts e rest pre0 hnl hd h
  simp only [ifactorLoop] at h
  split at h
  · rename_i hk
    split at h
    · cases h
    · rename_i rhs ts' hc
      obtain ⟨p, hp, hder⟩ := A.at_ 12 (by omega) ts rhs ts' hnl hc
      have hnl' : NoNl ts' := by rw [hp] at hnl; exact hnl.suffix
      have hpk : couldStartPower (peekKind p) = true := by
        cases p with
        | nil => exact absurd rfl hder.ne_nil
        | cons q qs => rw [hp] at hk; simpa [peekKind] using hk
      have hd' : Derives 11 (pre0 ++ p) (.imul acc rhs) := Derives.imul hd hder hpk
      obtain ⟨mid, hmid, hfin⟩ := A.loop11 _ ts' e rest _ hnl' hd' h
      exact ⟨p ++ mid, by simp [hp, hmid], by simpa [List.append_assoc] using hfin⟩
  · injection h with h; injection h with h1 h2; subst h1 h2
    exact ⟨[], by simp, by simpa using hd⟩

end Steps

end NumbatModel.Syntax
