import NumbatModel.Lemmas.Syntax
/-!
C10 helper lemmas, part 2: one lemma per constructor of `Surf` (`Good` of the children gives `Good` of the node).
-/
namespace NumbatModel.Syntax

theorem skipNewlines_cons {t : Token} {ts : List Token} (h : t.kind ≠ .newline) :
    skipNewlines (t :: ts) = t :: ts := by
  simp [skipNewlines, h]

/-- first token of a sub-rendering in a position that requires level `L` -/
theorem Good.headAt {s : Surf} (g : Good s) (L : Nat) :
    ∃ t ts', renderAt L s = t :: ts' ∧ headOK 0 L t.kind = true ∧ exprStart t.kind = true := by
  obtain ⟨t, ts', hr, hh, hnl⟩ := g.head
  by_cases hlt : s.prec < L
  · refine ⟨tLeftParen, render s ++ [tRightParen], by simp [renderAt, wrap, hlt], ?_, ?_⟩
    · simp [tLeftParen, headOK, prefixLevel]
    · simp [tLeftParen, exprStart]
  · exact ⟨t, ts', by simp [renderAt, wrap, hlt, hr], headOK_mono hh (Nat.le_refl _) (by omega), hnl⟩

theorem headOK_not_unary {p k} (h : headOK 0 p k = true) (hp : 10 < p) : k ≠ .minus ∧ k ≠ .plus := by
  constructor <;> (intro hk; subst hk; simp [headOK, prefixLevel] at h; omega)

/-- a single-token primary -/
theorem good_leaf (s : Surf) (t : Token) (hr : render s = [t]) (hprec : s.prec = 16) (hneed : s.need = 40)
    (hk : prefixLevel t.kind = none) (hnl : exprStart t.kind = true)
    (hparse : ∀ n k, Stops 16 k → primary (n + 1) (t :: k) = .ok (toExpr s, k)) : Good s := by
  refine good_of_own s 1 ⟨t, [], hr, by simp [headOK, hk], hnl⟩ (by omega) (by omega) ?_ ?_
  · intro k hs n hn
    obtain ⟨n', rfl⟩ : ∃ n', n = n' + 1 := ⟨n - 1, by omega⟩
    rw [hprec] at hs ⊢
    simpa [parseAt, hr] using hparse n' k hs
  · intro hl; simp [hprec, isLoopLevel, isBinLevel] at hl

theorem good_scalar (t : Token) (hwf : (Surf.scalar t).wf = true) : Good (.scalar t) := by
  simp only [Surf.wf, Bool.and_eq_true, Bool.not_eq_true'] at hwf
  obtain ⟨hnum, hov⟩ := hwf
  have hcases : t.kind = .number ∨ t.kind = .intBase16 ∨ t.kind = .intBase8 ∨ t.kind = .intBase2 ∨ t.kind = .nan
      ∨ t.kind = .inf := by
    simpa [isNumericKind, or_assoc] using hnum
  refine good_leaf _ t rfl rfl rfl ?_ ?_ ?_
  · rcases hcases with h | h | h | h | h | h <;> simp [h, prefixLevel]
  · rcases hcases with h | h | h | h | h | h <;> simp [h, exprStart]
  · intro n k _
    rcases hcases with h | h | h | h | h | h <;> simp_all [primary, toExpr]

theorem good_hole : Good .hole :=
  good_leaf _ ⟨.questionMark, ['?']⟩ rfl rfl rfl rfl (by simp [exprStart]) (by intro n k _; simp [primary, toExpr])

theorem good_boolean (b : Bool) : Good (.boolean b) := by
  cases b
  · exact good_leaf _ ⟨.false_, ['f','a','l','s','e']⟩ rfl rfl rfl rfl (by simp [exprStart]) (by intro n k _; simp [primary, toExpr])
  · exact good_leaf _ ⟨.true_, ['t','r','u','e']⟩ rfl rfl rfl rfl (by simp [exprStart]) (by intro n k _; simp [primary, toExpr])

theorem good_str (t : Token) (hwf : (Surf.str t).wf = true) : Good (.str t) := by
  have hk : t.kind = .stringFixed := by simpa [Surf.wf] using hwf
  exact good_leaf _ t rfl rfl rfl (by simp [hk, prefixLevel]) (by simp [hk, exprStart])
    (by intro n k _; simp [primary, toExpr, hk])

theorem good_ident (name : List Char) : Good (.ident name) := by
  refine good_leaf _ ⟨.identifier, name⟩ rfl rfl rfl rfl (by simp [exprStart]) ?_
  intro n k hs
  cases k with
  | nil => simp [primary, toExpr]
  | cons t2 rest =>
    have : t2.kind ≠ .leftCurly := by
      intro h; simp [Stops, peekKind, h, stops, contLevel] at hs
    simp [primary, toExpr, this]



/-! equations of `prec` and `render` per constructor (never unfold `Surf.prec` on a variable) -/

@[simp] theorem prec_neg (lex e) : (Surf.neg lex e).prec = 10 := rfl
@[simp] theorem prec_uplus (lex e) : (Surf.uplus lex e).prec = 10 := rfl
@[simp] theorem prec_lnot (e) : (Surf.lnot e).prec = 5 := rfl
@[simp] theorem prec_fact (n e) : (Surf.fact n e).prec = 13 := rfl
@[simp] theorem prec_pow (lex l r) : (Surf.pow lex l r).prec = 12 := rfl
@[simp] theorem prec_powNeg (lex lm l r) : (Surf.powNeg lex lm l r).prec = 12 := rfl
@[simp] theorem prec_imul (l r) : (Surf.imul l r).prec = 11 := rfl
@[simp] theorem prec_upow (b lex) : (Surf.upow b lex).prec = 14 := rfl
@[simp] theorem prec_call (f args) : (Surf.call f args).prec = 15 := rfl
@[simp] theorem prec_field (e n) : (Surf.field e n).prec = 15 := rfl
@[simp] theorem prec_list (es) : (Surf.list es).prec = 16 := rfl
@[simp] theorem prec_struct (n fs) : (Surf.struct n fs).prec = 16 := rfl
@[simp] theorem prec_cond (c t e) : (Surf.cond c t e).prec = 1 := rfl
@[simp] theorem prec_paren (e) : (Surf.paren e).prec = 16 := rfl
@[simp] theorem prec_pipe (x f) : (Surf.pipe x f).prec = 0 := rfl
theorem prec_bin {k lv op} (lex l r) (h : infixInfo k = some (lv, op)) : (Surf.bin k lex l r).prec = lv := by
  simp [Surf.prec, h]

theorem render_neg (lex e) : render (.neg lex e) = ⟨.minus, lex⟩ :: renderAt 10 e := by simp [render, renderAt]
theorem render_uplus (lex e) : render (.uplus lex e) = ⟨.plus, lex⟩ :: renderAt 10 e := by simp [render, renderAt]
theorem render_lnot (e) : render (.lnot e) = tBang :: renderAt 5 e := by simp [render, renderAt]
theorem render_fact (n e) : render (.fact n e) = renderAt 14 e ++ List.replicate n tBang := by simp [render, renderAt]
theorem render_pow (lex l r) : render (.pow lex l r) = renderAt 13 l ++ ⟨.power, lex⟩ :: renderAt 12 r := by
  simp [render, renderAt]
theorem render_powNeg (lex lm l r) :
    render (.powNeg lex lm l r) = renderAt 13 l ++ ⟨.power, lex⟩ :: ⟨.minus, lm⟩ :: renderAt 12 r := by
  simp [render, renderAt]
theorem render_imul (l r) : render (.imul l r) = renderAt 11 l ++ renderAt 12 r := by simp [render, renderAt]
theorem render_upow (b lex) : render (.upow b lex) = renderAt 15 b ++ [⟨.unicodeExponent, lex⟩] := by
  simp [render, renderAt]
theorem render_call (f args) : render (.call f args) = renderAt 15 f ++ tLeftParen :: renderArgs args ++ [tRightParen] := by
  simp [render, renderAt]
theorem render_field (e n) : render (.field e n) = renderAt 15 e ++ [⟨.period, ['.']⟩, ⟨.identifier, n⟩] := by
  simp [render, renderAt]
theorem render_list (es) : render (.list es) = ⟨.leftBracket, ['[']⟩ :: renderArgs es ++ [⟨.rightBracket, [']']⟩] := by
  simp [render]
theorem render_struct (n fs) :
    render (.struct n fs) = ⟨.identifier, n⟩ :: ⟨.leftCurly, ['{']⟩ :: renderFields fs ++ [⟨.rightCurly, ['}']⟩] := by
  simp [render]
theorem render_cond (c t e) : render (.cond c t e) =
    ⟨.if_, ['i','f']⟩ :: renderAt 2 c ++ ⟨.then_, ['t','h','e','n']⟩ :: renderAt 1 t
      ++ ⟨.else_, ['e','l','s','e']⟩ :: renderAt 1 e := by
  simp [render, renderAt]
theorem render_paren (e) : render (.paren e) = tLeftParen :: render e ++ [tRightParen] := by simp [render]
theorem render_pipe (x f) : render (.pipe x f) = render x ++ ⟨.postfixApply, ['|','>']⟩ :: renderAt 15 f := by
  simp [render, renderAt]
theorem render_bin {k lv op} (lex l r) (h : infixInfo k = some (lv, op)) :
    render (.bin k lex l r) = renderAt lv l ++ ⟨k, lex⟩ :: renderAt (lv + 1) r := by
  simp [render, renderAt, h]

theorem renderAt_zero (s : Surf) : renderAt 0 s = render s := by simp [renderAt, wrap]

theorem exprStart_ne_newline {k} (h : exprStart k = true) : k ≠ .newline := by
  intro hk; subst hk; simp [exprStart] at h

theorem good_paren {e : Surf} (g : Good e) : Good (.paren e) := by
  refine good_of_own_plain _ (e.need + 2) ⟨tLeftParen, render e ++ [tRightParen], render_paren e,
    by simp [tLeftParen, headOK, prefixLevel], by simp [tLeftParen, exprStart]⟩ (by simp)
    (by simp [isLoopLevel, isBinLevel]) (by simp [Surf.need]) ?_
  intro k _ n hn
  obtain ⟨n', rfl⟩ : ∃ n', n = n' + 2 := ⟨n - 2, by omega⟩
  have := g.p1 0 (tRightParen :: k) (Nat.zero_le _) (by simp [Stops, peekKind, tRightParen, stops_rightParen]) n' (by omega)
  rw [renderAt_zero] at this
  simp only [parseAt] at this
  simp only [prec_paren, parseAt, render_paren, List.cons_append, List.append_assoc, List.nil_append, primary,
    tLeftParen, expression, this, toExpr]
  simp [tRightParen]

theorem good_neg {e : Surf} (lex : List Char) (g : Good e) : Good (.neg lex e) := by
  refine good_of_own_plain _ (e.need + 1) ⟨⟨.minus, lex⟩, renderAt 10 e, render_neg lex e,
    by simp [headOK, prefixLevel], by simp [exprStart]⟩ (by simp) (by simp [isLoopLevel, isBinLevel])
    (by simp [Surf.need]) ?_
  intro k hs n hn
  obtain ⟨n', rfl⟩ : ∃ n', n = n' + 1 := ⟨n - 1, by omega⟩
  have := g.p1 10 k (by omega) hs n' (by omega)
  simp only [parseAt] at this
  simp [parseAt, render_neg, unary, this, toExpr]

theorem good_uplus {e : Surf} (lex : List Char) (g : Good e) : Good (.uplus lex e) := by
  refine good_of_own_plain _ (e.need + 1) ⟨⟨.plus, lex⟩, renderAt 10 e, render_uplus lex e,
    by simp [headOK, prefixLevel], by simp [exprStart]⟩ (by simp) (by simp [isLoopLevel, isBinLevel])
    (by simp [Surf.need]) ?_
  intro k hs n hn
  obtain ⟨n', rfl⟩ : ∃ n', n = n' + 1 := ⟨n - 1, by omega⟩
  have := g.p1 10 k (by omega) hs n' (by omega)
  simp only [parseAt] at this
  simp [parseAt, render_uplus, unary, this, toExpr]

theorem good_lnot {e : Surf} (g : Good e) : Good (.lnot e) := by
  refine good_of_own_plain _ (e.need + 1) ⟨tBang, renderAt 5 e, render_lnot e,
    by simp [tBang, headOK, prefixLevel], by simp [tBang, exprStart]⟩ (by simp) (by simp [isLoopLevel, isBinLevel])
    (by simp [Surf.need]) ?_
  intro k hs n hn
  obtain ⟨n', rfl⟩ : ∃ n', n = n' + 1 := ⟨n - 1, by omega⟩
  have := g.p1 5 k (by omega) hs n' (by omega)
  simp only [parseAt] at this
  simp [parseAt, render_lnot, logicalNeg, tBang, this, toExpr]

theorem countBangs_replicate (n : Nat) {k : List Token} (h : peekKind k ≠ .exclamationMark) :
    countBangs (List.replicate n tBang ++ k) = (n, k) := by
  induction n with
  | zero => simpa using countBangs_stop h
  | succ n ih => simp [List.replicate_succ, countBangs, tBang] ; simp [tBang] at ih; simp [ih]


theorem Stops_cons {L : Nat} {t : Token} {ts : List Token} (h : stops L t.kind = true) : Stops L (t :: ts) := by
  simpa [Stops, peekKind] using h

theorem good_fact {e : Surf} (n : Nat) (hn0 : n ≠ 0) (g : Good e) : Good (.fact n e) := by
  obtain ⟨t, ts', hr, hh, hst⟩ := g.headAt 14
  refine good_of_own_plain _ (e.need + 1) ⟨t, ts' ++ List.replicate n tBang, by simp [render_fact, hr],
    headOK_mono hh (Nat.le_refl _) (by simp), hst⟩ (by simp) (by simp [isLoopLevel, isBinLevel])
    (by simp [Surf.need]) ?_
  intro k hs m hm
  obtain ⟨m', rfl⟩ : ∃ m', m = m' + 1 := ⟨m - 1, by omega⟩
  obtain ⟨n', rfl⟩ : ∃ n', n = n' + 1 := ⟨n - 1, by omega⟩
  have hk : peekKind k ≠ .exclamationMark := by
    intro h'; simp [Stops, h', stops, contLevel] at hs
  have := g.p1 14 (List.replicate (n' + 1) tBang ++ k) (by omega)
    (by rw [List.replicate_succ]; exact Stops_cons (by simp [tBang, stops, contLevel])) m' (by omega)
  simp only [parseAt] at this
  simp [parseAt, render_fact, factorial, this, countBangs_replicate _ hk, toExpr]

theorem good_upow {b : Surf} (lex : List Char) (g : Good b) : Good (.upow b lex) := by
  obtain ⟨t, ts', hr, hh, hst⟩ := g.headAt 15
  refine good_of_own_plain _ (b.need + 1) ⟨t, ts' ++ [⟨.unicodeExponent, lex⟩], by simp [render_upow, hr],
    headOK_mono hh (Nat.le_refl _) (by simp), hst⟩ (by simp) (by simp [isLoopLevel, isBinLevel])
    (by simp [Surf.need]) ?_
  intro k _ m hm
  obtain ⟨m', rfl⟩ : ∃ m', m = m' + 1 := ⟨m - 1, by omega⟩
  have := g.p1 15 (⟨.unicodeExponent, lex⟩ :: k) (by omega) (Stops_cons (by simp [stops, contLevel])) m' (by omega)
  simp only [parseAt] at this
  simp [parseAt, render_upow, unicodePower, this, toExpr]

theorem good_field {e : Surf} (name : List Char) (g : Good e) : Good (.field e name) := by
  obtain ⟨t, ts', hr, hh, hst⟩ := g.headAt 15
  refine good_of_own_loop _ (e.need + 2) ⟨t, ts' ++ [⟨.period, ['.']⟩, ⟨.identifier, name⟩], by simp [render_field, hr],
    headOK_mono hh (Nat.le_refl _) (by simp), hst⟩ (by simp) (by simp [isLoopLevel]) (by simp [Surf.need]) ?_
  intro k e' rest m0 _ hl
  simp only [prec_field] at hl
  have hl' : LoopsW 15 (toExpr e) (⟨.period, ['.']⟩ :: ⟨.identifier, name⟩ :: k) e' rest (m0 + 1) := by
    intro n m _ hm
    obtain ⟨m', rfl⟩ : ∃ m', m = m' + 1 := ⟨m - 1, by omega⟩
    have := hl n m' (by omega) (by omega)
    simp only [loopAt, toExpr] at this ⊢
    simp [callLoop, this]
  have := g.p2 15 _ e' rest (m0 + 1) (by simp [isLoopLevel]) (Stops_cons (by simp [stops, contLevel])) hl'
  simp only [prec_field, render_field, List.append_assoc, List.cons_append, List.nil_append]
  exact this.mono (by omega)

theorem good_bin {k : TokKind} {lv : Nat} {op : BinOp} (lex : List Char) {l r : Surf}
    (hinfo : infixInfo k = some (lv, op)) (gl : Good l) (gr : Good r) : Good (.bin k lex l r) := by
  obtain ⟨hB, hop, hstop, _⟩ := infixInfo_spec hinfo
  have hlv : lv ≤ 9 := by simp [isBinLevel] at hB; omega
  have hloop : isLoopLevel lv = true := by simp [isLoopLevel, hB]
  obtain ⟨t, ts', hr, hh, hst⟩ := gl.headAt lv
  have hprec := prec_bin lex l r hinfo
  refine good_of_own_loop _ (l.need + r.need + 2) ⟨t, ts' ++ ⟨k, lex⟩ :: renderAt (lv + 1) r,
    by simp [render_bin lex l r hinfo, hr], by rw [hprec]; exact hh, hst⟩ (by omega) (by rw [hprec]; exact hloop)
    (by simp only [Surf.need]; omega) ?_
  intro k0 e' rest m0 hs hl
  rw [hprec] at hs hl ⊢
  have he : toExpr (.bin k lex l r) = .bin op (toExpr l) (toExpr r) := by simp [toExpr, hinfo]
  rw [he] at hl
  have hstep := bin_step (t := ⟨k, lex⟩) (e := toExpr l) hB hop (gr.p1 (lv + 1) k0 (by omega) hs) hl
  have := gl.p2 lv _ e' rest _ hloop (Stops_cons (t := ⟨k, lex⟩) hstop) hstep
  rw [render_bin lex l r hinfo]
  simp only [List.append_assoc, List.cons_append]
  exact this.mono (by omega)


theorem good_pow {l r : Surf} (lex : List Char) (gl : Good l) (gr : Good r) : Good (.pow lex l r) := by
  obtain ⟨t, ts', hr, hh, hst⟩ := gl.headAt 13
  obtain ⟨t2, ts2, hr2, hh2, _⟩ := gr.headAt 12
  obtain ⟨hnm, _⟩ := headOK_not_unary hh2 (by omega)
  refine good_of_own_plain _ (l.need + r.need + 1) ⟨t, ts' ++ ⟨.power, lex⟩ :: renderAt 12 r, by simp [render_pow, hr],
    headOK_mono hh (Nat.le_refl _) (by simp), hst⟩ (by simp) (by simp [isLoopLevel, isBinLevel])
    (by simp only [Surf.need]; omega) ?_
  intro k hs m hm
  obtain ⟨m', rfl⟩ : ∃ m', m = m' + 1 := ⟨m - 1, by omega⟩
  have h1 := gl.p1 13 (⟨.power, lex⟩ :: renderAt 12 r ++ k) (by omega) (Stops_cons (by simp [stops, contLevel])) m' (by omega)
  have h2 := gr.p1 12 k (by omega) hs m' (by omega)
  simp only [parseAt] at h1 h2
  simp only [prec_pow, parseAt, render_pow, toExpr, hr2, List.append_assoc, List.cons_append] at h1 h2 ⊢
  simp only [power, h1]
  simp [hnm, h2]

theorem good_powNeg {l r : Surf} (lex lm : List Char) (gl : Good l) (gr : Good r) : Good (.powNeg lex lm l r) := by
  obtain ⟨t, ts', hr, hh, hst⟩ := gl.headAt 13
  refine good_of_own_plain _ (l.need + r.need + 1)
    ⟨t, ts' ++ ⟨.power, lex⟩ :: ⟨.minus, lm⟩ :: renderAt 12 r, by simp [render_powNeg, hr],
    headOK_mono hh (Nat.le_refl _) (by simp), hst⟩ (by simp) (by simp [isLoopLevel, isBinLevel])
    (by simp only [Surf.need]; omega) ?_
  intro k hs m hm
  obtain ⟨m', rfl⟩ : ∃ m', m = m' + 1 := ⟨m - 1, by omega⟩
  have h1 := gl.p1 13 (⟨.power, lex⟩ :: ⟨.minus, lm⟩ :: renderAt 12 r ++ k) (by omega)
    (Stops_cons (by simp [stops, contLevel])) m' (by omega)
  have h2 := gr.p1 12 k (by omega) hs m' (by omega)
  simp only [parseAt] at h1 h2
  simp only [prec_powNeg, parseAt, render_powNeg, toExpr, List.append_assoc, List.cons_append] at h1 h2 ⊢
  simp only [power, h1]
  simp [h2]

theorem good_imul {l r : Surf} (hj : ∃ t ts', renderAt 12 r = t :: ts' ∧ juxtStart t.kind = true)
    (gl : Good l) (gr : Good r) : Good (.imul l r) := by
  obtain ⟨t, ts', hr, hh, hst⟩ := gl.headAt 11
  obtain ⟨t2, ts2, hr2, hj2⟩ := hj
  refine good_of_own_loop _ (l.need + r.need + 2) ⟨t, ts' ++ renderAt 12 r, by simp [render_imul, hr],
    headOK_mono hh (Nat.le_refl _) (by simp), hst⟩ (by simp) (by simp [isLoopLevel]) (by simp only [Surf.need]; omega) ?_
  intro k e' rest m0 hs hl
  simp only [prec_imul] at hs hl
  have hstop2 : stops 12 t2.kind = true := by
    revert hj2; generalize t2.kind = kk; cases kk <;> decide
  have hcsp : couldStartPower t2.kind = true := by
    revert hj2; generalize t2.kind = kk; cases kk <;> decide
  have hl' : LoopsW 11 (toExpr l) (renderAt 12 r ++ k) e' rest (r.need + m0 + 1) := by
    intro n m _ hm
    obtain ⟨m', rfl⟩ : ∃ m', m = m' + 1 := ⟨m - 1, by omega⟩
    have h2 := gr.p1 12 k (by omega) hs m' (by omega)
    have h3 := hl n m' (by omega) (by omega)
    simp only [parseAt] at h2
    simp only [loopAt, toExpr] at h3 ⊢
    have hpk : peekKind (renderAt 12 r ++ k) = t2.kind := peekKind_append_of_head hr2 k
    simp [ifactorLoop, hpk, hcsp, h2, h3]
  have := gl.p2 11 _ e' rest _ (by simp [isLoopLevel]) (by rw [hr2]; exact Stops_cons hstop2) hl'
  simp only [prec_imul, render_imul, List.append_assoc]
  exact this.mono (by omega)

theorem good_cond {c t e : Surf} (gc : Good c) (gt : Good t) (ge : Good e) : Good (.cond c t e) := by
  obtain ⟨tt, tts, hrt, _, hstt⟩ := gt.headAt 1
  obtain ⟨te, tes, hre, _, hste⟩ := ge.headAt 1
  refine good_of_own_plain _ (c.need + t.need + e.need + 1) ⟨⟨.if_, ['i','f']⟩, _, render_cond c t e,
    by simp [headOK, prefixLevel], by simp [exprStart]⟩ (by simp) (by simp [isLoopLevel, isBinLevel])
    (by simp only [Surf.need]; omega) ?_
  intro k hs m hm
  obtain ⟨m', rfl⟩ : ∃ m', m = m' + 1 := ⟨m - 1, by omega⟩
  have h1 := gc.p1 2 (⟨.then_, ['t','h','e','n']⟩ :: renderAt 1 t ++ ⟨.else_, ['e','l','s','e']⟩ :: renderAt 1 e ++ k)
    (by omega) (Stops_cons (by simp [stops, contLevel])) m' (by omega)
  have h2 := gt.p1 1 (⟨.else_, ['e','l','s','e']⟩ :: renderAt 1 e ++ k) (by omega)
    (Stops_cons (by simp [stops, contLevel])) m' (by omega)
  have h3 := ge.p1 1 k (by omega) hs m' (by omega)
  simp only [parseAt] at h1 h2 h3
  simp only [prec_cond, parseAt, render_cond, List.append_assoc, List.cons_append, condition, toExpr]
  simp only [List.append_assoc, List.cons_append] at h1 h2
  simp only [beq_self_eq_true, ↓reduceIte, h1]
  rw [skipNewlines_cons (by simp)]
  simp only [bne_self_eq_false, Bool.false_eq_true, ↓reduceIte]
  rw [hrt] at h2 ⊢
  simp only [List.cons_append]
  rw [skipNewlines_cons (exprStart_ne_newline hstt)]
  simp only [List.cons_append] at h2
  rw [h2]
  dsimp only
  rw [skipNewlines_cons (by simp)]
  simp only [bne_self_eq_false, Bool.false_eq_true, ↓reduceIte]
  rw [hre] at h3 ⊢
  simp only [List.cons_append] at h3 ⊢
  rw [skipNewlines_cons (exprStart_ne_newline hste), h3]

theorem good_pipe {x f : Surf} (hf : isPipeTarget (toExpr f) = true) (gx : Good x) (gf : Good f) : Good (.pipe x f) := by
  obtain ⟨t, ts', hr, hh, hst⟩ := gx.head
  obtain ⟨tf, tfs, hrf, _, hstf⟩ := gf.headAt 15
  refine good_of_own_loop _ (x.need + f.need + 2) ⟨t, ts' ++ ⟨.postfixApply, ['|','>']⟩ :: renderAt 15 f,
    by simp [render_pipe, hr], headOK_mono hh (Nat.le_refl _) (by simp), hst⟩ (by simp) (by simp [isLoopLevel])
    (by simp only [Surf.need]; omega) ?_
  intro k e' rest m0 hs hl
  simp only [prec_pipe] at hs hl
  have hl' : LoopsW 0 (toExpr x) (⟨.postfixApply, ['|','>']⟩ :: renderAt 15 f ++ k) e' rest (f.need + m0 + 1) := by
    intro n m _ hm
    obtain ⟨m', rfl⟩ : ∃ m', m = m' + 1 := ⟨m - 1, by omega⟩
    have h2 := gf.p1 15 k (by omega) (hs.mono (by omega)) m' (by omega)
    have h3 := hl n m' (by omega) (by omega)
    simp only [parseAt] at h2
    simp only [loopAt, toExpr] at h3 ⊢
    rw [hrf] at h2 ⊢
    simp only [List.cons_append] at h2 ⊢
    simp only [postfixLoop, beq_self_eq_true, ↓reduceIte]
    rw [skipNewlines_cons (exprStart_ne_newline hstf), h2]
    cases hfe : toExpr f <;> simp [hfe, isPipeTarget] at hf <;> simp [hfe, pipeResult] at h3 <;> simp [h3]
  have := gx.p2 0 _ e' rest _ (by simp [isLoopLevel]) (Stops_cons (t := ⟨.postfixApply, ['|','>']⟩) (by simp [stops, contLevel])) hl'
  rw [renderAt_zero] at this
  simp only [prec_pipe, render_pipe, List.append_assoc, List.cons_append]
  exact this.mono (by omega)

end NumbatModel.Syntax
