import NumbatModel.Gen.NbtFunctions
/-! Helper lemmas about the generated definitions of `Gen/NbtFunctions.lean` at the exact instance (`Rat`). -/
namespace NumbatModel.NbtLemmas
open NumbatModel.Gen.NbtFunctions NumbatModel.Nbt

/-- all parts but the last are whole multiples of their unit (lists of equal, non-zero length) -/
def WholeButLast : List Rat → List Rat → Prop
  | [_], [_] => True
  | p :: ps, u :: us => (∃ k : Int, p = (k : Rat) * u) ∧ WholeButLast ps us
  | _, _ => False

theorem lit00 : (NbtNum.lit 0 0 : Rat) = 0 := by simp [NbtNum.lit]
theorem lit10 : (NbtNum.lit 1 0 : Rat) = 1 := by simp [NbtNum.lit, pow2]

theorem zeros_sum (us : List Rat) : (List.map (_zero_length) us).sum = 0 := by
  induction us with
  | nil => rfl
  | cons u us ih =>
    simp only [List.map_cons, List.sum_cons, ih]
    simp [_zero_length, NbtNum.convert, NbtNum.mul, lit00, Rat.add_zero]

theorem zeros_whole (us : List Rat) (h : us ≠ []) : WholeButLast (List.map (_zero_length) us) us := by
  induction us with
  | nil => exact absurd rfl h
  | cons u us ih =>
    cases us with
    | nil => simp [WholeButLast]
    | cons v vs =>
      simp only [List.map_cons]
      refine ⟨⟨0, ?_⟩, ?_⟩
      · simp [_zero_length, NbtNum.convert, NbtNum.mul, lit00]
      · exact ih (by simp)

theorem step_eq (f : Nat) (val u : Rat) (us acc : List Rat) :
    _mixed_unit_list (f + 1) val (u :: us) acc =
      if val = 0 then .ok (acc ++ List.map _zero_length (u :: us))
      else if us = [] then .ok (acc ++ [val])
      else _mixed_unit_list f (val - (NumbatModel.Time.rtrunc (val / u) : Rat) * u) us
              (acc ++ [(NumbatModel.Time.rtrunc (val / u) : Rat) * u]) := by
  rw [_mixed_unit_list]
  simp only [headE, tailE, List.length_cons, NbtNum.lt, NbtNum.beq, NbtNum.ofNat, lit00, lit10, trunc_in,
    NbtNum.convert, NbtNum.mul, NbtNum.div, NbtNum.trunc, NbtNum.sub]
  have hpos : (0 : Rat) < ((us.length + 1 : Nat) : Rat) := by
    have : (0:Int) < ((us.length + 1 : Nat) : Int) := by omega
    exact_mod_cast this
  simp only [hpos, decide_true, if_true]
  by_cases hv : val = 0
  · simp [hv, bind, Except.bind, pure, Except.pure]
  · by_cases hu : us = []
    · subst hu
      simp [hv, bind, Except.bind, pure, Except.pure]
    · have hl : ¬ (((us.length + 1 : Nat) : Rat) = 1) := by
        intro h
        have : ((us.length + 1 : Nat) : Int) = 1 := by exact_mod_cast h
        have : us.length = 0 := by omega
        exact hu (List.length_eq_zero_iff.mp this)
      simp only [hv, hu, hl, decide_false, if_false, bind, Except.bind, pure, Except.pure]
      cases h : _mixed_unit_list f (val - (NumbatModel.Time.rtrunc (val / u) : Rat) * u) us
              (acc ++ [(NumbatModel.Time.rtrunc (val / u) : Rat) * u]) <;> simp

theorem scale_ne_zero : (_scale_fahrenheit : Rat) ≠ 0 := by
  simp only [_scale_fahrenheit, NbtNum.div, NbtNum.lit, pow2]
  decide +kernel

end NumbatModel.NbtLemmas
