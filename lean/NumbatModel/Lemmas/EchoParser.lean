import NumbatModel.Model.EchoParser
/-! Helper lemmas for C15: the reference parser `run` unfolded one step at a time (`Parses`), continuation
tokens (`NoCont`), climbing through the grammar levels, the fragment `Frag` and operand token functions. -/
namespace NumbatModel.Printer

/-- with enough fuel, `run` in mode `m` on `ts` gives `res` -/
def Parses (m : Mode) (ts : List PTok) (res : Option (Expr × List PTok)) : Prop :=
  ∃ n0, ∀ n, n0 ≤ n → run n m ts = res

theorem Parses.loop_level {k : Nat} {ts r : List PTok} {x : Expr} {res}
    (hk : isLoopLevel k = true) (h1 : Parses (.level (k + 1)) ts (some (x, r)))
    (h2 : Parses (.loop k x) r res) : Parses (.level k) ts res := by
  obtain ⟨n1, h1⟩ := h1
  obtain ⟨n2, h2⟩ := h2
  refine ⟨n1 + n2 + 1, fun n hn => ?_⟩
  obtain ⟨m, rfl⟩ : ∃ m, n = m + 1 := ⟨n - 1, by omega⟩
  have hk0 : k ≠ 0 := by intro h; subst h; simp [isLoopLevel] at hk
  simp [run, hk0, hk, h1 m (by omega), h2 m (by omega)]

theorem Parses.loop_step {k : Nat} {t : PTok} {r r1 : List PTok} {o : BinOp} {acc y : Expr} {res}
    (ho : binOpAt k t = some o) (h1 : Parses (.level (k + 1)) r (some (y, r1)))
    (h2 : Parses (.loop k (.bin o acc y)) r1 res) : Parses (.loop k acc) (t :: r) res := by
  obtain ⟨n1, h1⟩ := h1
  obtain ⟨n2, h2⟩ := h2
  refine ⟨n1 + n2 + 1, fun n hn => ?_⟩
  obtain ⟨m, rfl⟩ : ∃ m, n = m + 1 := ⟨n - 1, by omega⟩
  simp [run, ho, h1 m (by omega), h2 m (by omega)]

theorem Parses.loop_exit {k : Nat} {ts : List PTok} {acc : Expr}
    (h : ∀ t r, ts = t :: r → binOpAt k t = none) : Parses (.loop k acc) ts (some (acc, ts)) := by
  refine ⟨1, fun n hn => ?_⟩
  obtain ⟨m, rfl⟩ : ∃ m, n = m + 1 := ⟨n - 1, by omega⟩
  cases ts with
  | nil => simp [run]
  | cons t r => simp [run, h t r rfl]

/-- level 0 when the input does not start with `if` -/
theorem Parses.level0_pass {ts : List PTok} {res} (hh : ts.head? ≠ some .kwIf)
    (h : Parses (.level 1) ts res) : Parses (.level 0) ts res := by
  obtain ⟨n1, h⟩ := h
  refine ⟨n1 + 1, fun n hn => ?_⟩
  obtain ⟨m, rfl⟩ : ∃ m, n = m + 1 := ⟨n - 1, by omega⟩
  cases ts with
  | nil => simp [run, h m (by omega)]
  | cons t r =>
    have : t ≠ .kwIf := by simpa using hh
    cases t <;> simp_all [run] <;> exact h m (by omega)

theorem Parses.level0_cond {r r1 r2 r3 : List PTok} {c t e : Expr}
    (h1 : Parses (.level 1) r (some (c, .kwThen :: r1)))
    (h2 : Parses (.level 0) r1 (some (t, .kwElse :: r2)))
    (h3 : Parses (.level 0) r2 (some (e, r3))) :
    Parses (.level 0) (.kwIf :: r) (some (.cond c t e, r3)) := by
  obtain ⟨n1, h1⟩ := h1
  obtain ⟨n2, h2⟩ := h2
  obtain ⟨n3, h3⟩ := h3
  refine ⟨n1 + n2 + n3 + 1, fun n hn => ?_⟩
  obtain ⟨m, rfl⟩ : ∃ m, n = m + 1 := ⟨n - 1, by omega⟩
  simp [run, h1 m (by omega), h2 m (by omega), h3 m (by omega)]

theorem Parses.level4_pass {ts : List PTok} {res} (hh : ts.head? ≠ some (.sym .bang))
    (h : Parses (.level 5) ts res) : Parses (.level 4) ts res := by
  obtain ⟨n1, h⟩ := h
  refine ⟨n1 + 1, fun n hn => ?_⟩
  obtain ⟨m, rfl⟩ : ∃ m, n = m + 1 := ⟨n - 1, by omega⟩
  have hm := h m (by omega)
  cases ts with
  | nil => simp [run, isLoopLevel, hm]
  | cons t r =>
    have ht : t ≠ .sym .bang := by simpa using hh
    cases t with
    | sym s => cases s <;> simp_all [run, isLoopLevel]
    | _ => simp_all [run, isLoopLevel]

theorem Parses.level4_not {r r1 : List PTok} {x : Expr}
    (h : Parses (.level 4) r (some (x, r1))) : Parses (.level 4) (.sym .bang :: r) (some (.not x, r1)) := by
  obtain ⟨n1, h⟩ := h
  refine ⟨n1 + 1, fun n hn => ?_⟩
  obtain ⟨m, rfl⟩ : ∃ m, n = m + 1 := ⟨n - 1, by omega⟩
  simp [run, isLoopLevel, h m (by omega)]

theorem Parses.level8_pass {ts : List PTok} {res} (hh : ts.head? ≠ some (.sym .minus))
    (h : Parses (.level 9) ts res) : Parses (.level 8) ts res := by
  obtain ⟨n1, h⟩ := h
  refine ⟨n1 + 1, fun n hn => ?_⟩
  obtain ⟨m, rfl⟩ : ∃ m, n = m + 1 := ⟨n - 1, by omega⟩
  have hm := h m (by omega)
  cases ts with
  | nil => simp [run, isLoopLevel, hm]
  | cons t r =>
    have ht : t ≠ .sym .minus := by simpa using hh
    cases t with
    | sym s => cases s <;> simp_all [run, isLoopLevel]
    | _ => simp_all [run, isLoopLevel]

theorem Parses.level8_neg {r r1 : List PTok} {x : Expr}
    (h : Parses (.level 8) r (some (x, r1))) : Parses (.level 8) (.sym .minus :: r) (some (.neg x, r1)) := by
  obtain ⟨n1, h⟩ := h
  refine ⟨n1 + 1, fun n hn => ?_⟩
  obtain ⟨m, rfl⟩ : ∃ m, n = m + 1 := ⟨n - 1, by omega⟩
  simp [run, isLoopLevel, h m (by omega)]

theorem Parses.level9 {ts r : List PTok} {x : Expr} {res}
    (h1 : Parses (.level 10) ts (some (x, r))) (h2 : Parses (.ifac x) r res) : Parses (.level 9) ts res := by
  obtain ⟨n1, h1⟩ := h1
  obtain ⟨n2, h2⟩ := h2
  refine ⟨n1 + n2 + 1, fun n hn => ?_⟩
  obtain ⟨m, rfl⟩ : ∃ m, n = m + 1 := ⟨n - 1, by omega⟩
  simp [run, isLoopLevel, h1 m (by omega), h2 m (by omega)]

theorem Parses.ifac_step {t : PTok} {r r1 : List PTok} {acc y : Expr} {res}
    (ht : isStartPower t = true) (h1 : Parses (.level 10) (t :: r) (some (y, r1)))
    (h2 : Parses (.ifac (.bin .mul acc y)) r1 res) : Parses (.ifac acc) (t :: r) res := by
  obtain ⟨n1, h1⟩ := h1
  obtain ⟨n2, h2⟩ := h2
  refine ⟨n1 + n2 + 1, fun n hn => ?_⟩
  obtain ⟨m, rfl⟩ : ∃ m, n = m + 1 := ⟨n - 1, by omega⟩
  simp [run, ht, h1 m (by omega), h2 m (by omega)]

theorem Parses.ifac_exit {ts : List PTok} {acc : Expr}
    (h : ∀ t r, ts = t :: r → isStartPower t = false) : Parses (.ifac acc) ts (some (acc, ts)) := by
  refine ⟨1, fun n hn => ?_⟩
  obtain ⟨m, rfl⟩ : ∃ m, n = m + 1 := ⟨n - 1, by omega⟩
  cases ts with
  | nil => simp [run]
  | cons t r => simp [run, h t r rfl]

theorem Parses.level10_pass {ts r : List PTok} {x : Expr}
    (hh : r.head? ≠ some (.sym (.bop .pow))) (h : Parses (.level 11) ts (some (x, r))) :
    Parses (.level 10) ts (some (x, r)) := by
  obtain ⟨n1, h⟩ := h
  refine ⟨n1 + 1, fun n hn => ?_⟩
  obtain ⟨m, rfl⟩ : ∃ m, n = m + 1 := ⟨n - 1, by omega⟩
  have e := h m (by omega)
  cases r with
  | nil => simp [run, isLoopLevel, e]
  | cons t r' =>
    have ht : t ≠ .sym (.bop .pow) := by simpa using hh
    cases t with
    | sym s =>
      cases s with
      | bop o => cases o <;> simp_all [run, isLoopLevel]
      | _ => simp_all [run, isLoopLevel]
    | _ => simp_all [run, isLoopLevel]

theorem Parses.level10_pow {ts r r1 : List PTok} {x y : Expr}
    (hh : r.head? ≠ some (.sym .minus)) (h1 : Parses (.level 11) ts (some (x, .sym (.bop .pow) :: r)))
    (h2 : Parses (.level 10) r (some (y, r1))) : Parses (.level 10) ts (some (.bin .pow x y, r1)) := by
  obtain ⟨n1, h1⟩ := h1
  obtain ⟨n2, h2⟩ := h2
  refine ⟨n1 + n2 + 1, fun n hn => ?_⟩
  obtain ⟨m, rfl⟩ : ∃ m, n = m + 1 := ⟨n - 1, by omega⟩
  have e1 := h1 m (by omega)
  have e2 := h2 m (by omega)
  cases r with
  | nil => simp [run, isLoopLevel, e1, e2]
  | cons t r' =>
    have ht : t ≠ .sym .minus := by simpa using hh
    cases t with
    | sym s => cases s <;> simp_all [run, isLoopLevel]
    | _ => simp_all [run, isLoopLevel]

theorem Parses.level11 {ts r : List PTok} {x : Expr} {res}
    (h1 : Parses (.level 12) ts (some (x, r))) (h2 : Parses (.bangs x 0) r res) : Parses (.level 11) ts res := by
  obtain ⟨n1, h1⟩ := h1
  obtain ⟨n2, h2⟩ := h2
  refine ⟨n1 + n2 + 1, fun n hn => ?_⟩
  obtain ⟨m, rfl⟩ : ∃ m, n = m + 1 := ⟨n - 1, by omega⟩
  simp [run, isLoopLevel, h1 m (by omega), h2 m (by omega)]

theorem Parses.bangs_step {r : List PTok} {acc : Expr} {k : Nat} {res}
    (h : Parses (.bangs acc (k + 1)) r res) : Parses (.bangs acc k) (.sym .bang :: r) res := by
  obtain ⟨n1, h⟩ := h
  refine ⟨n1 + 1, fun n hn => ?_⟩
  obtain ⟨m, rfl⟩ : ∃ m, n = m + 1 := ⟨n - 1, by omega⟩
  simp [run, h m (by omega)]

theorem Parses.bangs_exit {ts : List PTok} {acc : Expr} {k : Nat}
    (hh : ts.head? ≠ some (.sym .bang)) :
    Parses (.bangs acc k) ts (some (if k = 0 then acc else .fact k acc, ts)) := by
  refine ⟨1, fun n hn => ?_⟩
  obtain ⟨m, rfl⟩ : ∃ m, n = m + 1 := ⟨n - 1, by omega⟩
  cases ts with
  | nil => simp [run]
  | cons t r =>
    have ht : t ≠ .sym .bang := by simpa using hh
    cases t with
    | sym s => cases s <;> simp_all [run]
    | _ => simp_all [run]

theorem Parses.level12_pass {ts r : List PTok} {x : Expr}
    (h2 : r.head? ≠ some (.sym .sup2)) (h3 : r.head? ≠ some (.sym .sup3))
    (h : Parses (.level 13) ts (some (x, r))) : Parses (.level 12) ts (some (x, r)) := by
  obtain ⟨n1, h⟩ := h
  refine ⟨n1 + 1, fun n hn => ?_⟩
  obtain ⟨m, rfl⟩ : ∃ m, n = m + 1 := ⟨n - 1, by omega⟩
  have e := h m (by omega)
  cases r with
  | nil => simp [run, isLoopLevel, e]
  | cons t r' =>
    have ht2 : t ≠ .sym .sup2 := by simpa using h2
    have ht3 : t ≠ .sym .sup3 := by simpa using h3
    cases t with
    | sym s => cases s <;> simp_all [run, isLoopLevel]
    | _ => simp_all [run, isLoopLevel]

theorem Parses.level12_sup2 {ts r : List PTok} {x : Expr}
    (h : Parses (.level 13) ts (some (x, .sym .sup2 :: r))) :
    Parses (.level 12) ts (some (.bin .pow x (.num bitsTwo ['2']), r)) := by
  obtain ⟨n1, h⟩ := h
  refine ⟨n1 + 1, fun n hn => ?_⟩
  obtain ⟨m, rfl⟩ : ∃ m, n = m + 1 := ⟨n - 1, by omega⟩
  simp [run, isLoopLevel, h m (by omega)]

theorem Parses.level12_sup3 {ts r : List PTok} {x : Expr}
    (h : Parses (.level 13) ts (some (x, .sym .sup3 :: r))) :
    Parses (.level 12) ts (some (.bin .pow x (.num bitsThree ['3']), r)) := by
  obtain ⟨n1, h⟩ := h
  refine ⟨n1 + 1, fun n hn => ?_⟩
  obtain ⟨m, rfl⟩ : ∃ m, n = m + 1 := ⟨n - 1, by omega⟩
  simp [run, isLoopLevel, h m (by omega)]

theorem Parses.level13_num {b : Nat} {t : List Char} {r : List PTok} :
    Parses (.level 13) (.num b t :: r) (some (.num b t, r)) :=
  ⟨1, fun n hn => by obtain ⟨m, rfl⟩ : ∃ m, n = m + 1 := ⟨n - 1, by omega⟩; simp [run, isLoopLevel]⟩
theorem Parses.level13_id {s : List Char} {r : List PTok} :
    Parses (.level 13) (.id s :: r) (some (.ident s, r)) :=
  ⟨1, fun n hn => by obtain ⟨m, rfl⟩ : ∃ m, n = m + 1 := ⟨n - 1, by omega⟩; simp [run, isLoopLevel]⟩
theorem Parses.level13_unit {s : List Char} {r : List PTok} :
    Parses (.level 13) (.unit s :: r) (some (.unit [] s, r)) :=
  ⟨1, fun n hn => by obtain ⟨m, rfl⟩ : ∃ m, n = m + 1 := ⟨n - 1, by omega⟩; simp [run, isLoopLevel]⟩
theorem Parses.level13_true {r : List PTok} : Parses (.level 13) (.kwTrue :: r) (some (.bool true, r)) :=
  ⟨1, fun n hn => by obtain ⟨m, rfl⟩ : ∃ m, n = m + 1 := ⟨n - 1, by omega⟩; simp [run, isLoopLevel]⟩
theorem Parses.level13_false {r : List PTok} : Parses (.level 13) (.kwFalse :: r) (some (.bool false, r)) :=
  ⟨1, fun n hn => by obtain ⟨m, rfl⟩ : ∃ m, n = m + 1 := ⟨n - 1, by omega⟩; simp [run, isLoopLevel]⟩
theorem Parses.level13_paren {r r1 : List PTok} {x : Expr}
    (h : Parses (.level 0) r (some (x, .sym .rp :: r1))) : Parses (.level 13) (.sym .lp :: r) (some (x, r1)) := by
  obtain ⟨n1, h⟩ := h
  refine ⟨n1 + 1, fun n hn => ?_⟩
  obtain ⟨m, rfl⟩ : ∃ m, n = m + 1 := ⟨n - 1, by omega⟩
  simp [run, isLoopLevel, h m (by omega)]

/-! ## continuation tokens and climbing through the levels -/

/-- the grammar level at which a token continues an expression that is already complete -/
def contLevel : PTok → Option Nat
  | .sym (.bop .conv) => some 1
  | .sym (.bop .or) => some 2
  | .sym (.bop .and) => some 3
  | .sym (.bop .lt) | .sym (.bop .gt) | .sym (.bop .le) | .sym (.bop .ge) | .sym (.bop .eq) | .sym (.bop .ne) => some 5
  | .sym (.bop .add) | .sym .minus => some 6
  | .sym (.bop .mul) | .sym (.bop .div) => some 7
  | .num _ _ | .id _ | .unit _ | .tyid _ | .sym .lp | .sym .hole => some 9
  | .sym (.bop .pow) => some 10
  | .sym .bang => some 11
  | .sym .sup2 | .sym .sup3 => some 12
  | _ => none

/-- the rest `R` does not continue an expression at any level `≥ k` -/
def NoCont (k : Nat) (R : List PTok) : Prop :=
  ∀ t r j, R = t :: r → contLevel t = some j → j < k

theorem NoCont.mono {k k' : Nat} {R : List PTok} (h : NoCont k R) (hk : k ≤ k') : NoCont k' R :=
  fun t r j e c => Nat.lt_of_lt_of_le (h t r j e c) hk

theorem NoCont.nil (k : Nat) : NoCont k [] := fun _ _ _ e _ => by cases e

theorem NoCont.of_none {k : Nat} {t : PTok} {r : List PTok} (h : contLevel t = none) : NoCont k (t :: r) :=
  fun t' r' j e c => by cases e; rw [h] at c; cases c

theorem NoCont.of_lt {k j : Nat} {t : PTok} {r : List PTok} (h : contLevel t = some j) (hj : j < k) :
    NoCont k (t :: r) :=
  fun t' r' j' e c => by cases e; rw [h] at c; cases c; exact hj

theorem binOpAt_contLevel {k : Nat} {t : PTok} {o : BinOp} (h : binOpAt k t = some o) : contLevel t = some k := by
  unfold binOpAt at h
  split at h <;> simp_all [contLevel]

theorem isStartPower_contLevel {t : PTok} (h : isStartPower t = true) : contLevel t = some 9 := by
  cases t with
  | sym s => cases s <;> simp_all [isStartPower, contLevel]
  | _ => simp_all [isStartPower, contLevel]

theorem NoCont.binOpAt_none {k j : Nat} {R : List PTok} (h : NoCont k R) (hj : k ≤ j) :
    ∀ t r, R = t :: r → binOpAt j t = none := by
  intro t r e
  cases hb : binOpAt j t with
  | none => rfl
  | some o => have := h t r j e (binOpAt_contLevel hb); omega

theorem NoCont.not_start {k : Nat} {R : List PTok} (h : NoCont k R) (hj : k ≤ 9) :
    ∀ t r, R = t :: r → isStartPower t = false := by
  intro t r e
  cases hb : isStartPower t with
  | false => rfl
  | true => have := h t r 9 e (isStartPower_contLevel hb); omega

theorem NoCont.head_ne {k j : Nat} {R : List PTok} {t : PTok} (h : NoCont k R) (hc : contLevel t = some j)
    (hj : k ≤ j) : R.head? ≠ some t := by
  intro e
  cases R with
  | nil => cases e
  | cons t' r =>
    simp at e; subst e
    have := h t' r j rfl hc; omega

/-- prefix operators that level `i` would read at the start of `ts` -/
def prefixOk (i : Nat) (ts : List PTok) : Prop :=
  (i = 0 → ts.head? ≠ some .kwIf) ∧ (i = 4 → ts.head? ≠ some (.sym .bang)) ∧ (i = 8 → ts.head? ≠ some (.sym .minus))

theorem climb1 {i : Nat} {ts R : List PTok} {x : Expr} (hi : i ≤ 12)
    (h : Parses (.level (i + 1)) ts (some (x, R))) (hp : prefixOk i ts) (hc : NoCont i R) :
    Parses (.level i) ts (some (x, R)) := by
  have : i = 0 ∨ i = 1 ∨ i = 2 ∨ i = 3 ∨ i = 4 ∨ i = 5 ∨ i = 6 ∨ i = 7 ∨ i = 8 ∨ i = 9 ∨ i = 10 ∨ i = 11 ∨ i = 12 := by omega
  rcases this with rfl | rfl | rfl | rfl | rfl | rfl | rfl | rfl | rfl | rfl | rfl | rfl | rfl
  · exact Parses.level0_pass (hp.1 rfl) h
  · exact Parses.loop_level rfl h (Parses.loop_exit (hc.binOpAt_none (Nat.le_refl _)))
  · exact Parses.loop_level rfl h (Parses.loop_exit (hc.binOpAt_none (Nat.le_refl _)))
  · exact Parses.loop_level rfl h (Parses.loop_exit (hc.binOpAt_none (Nat.le_refl _)))
  · exact Parses.level4_pass (hp.2.1 rfl) h
  · exact Parses.loop_level rfl h (Parses.loop_exit (hc.binOpAt_none (Nat.le_refl _)))
  · exact Parses.loop_level rfl h (Parses.loop_exit (hc.binOpAt_none (Nat.le_refl _)))
  · exact Parses.loop_level rfl h (Parses.loop_exit (hc.binOpAt_none (Nat.le_refl _)))
  · exact Parses.level8_pass (hp.2.2 rfl) h
  · exact Parses.level9 h (Parses.ifac_exit (hc.not_start (Nat.le_refl _)))
  · exact Parses.level10_pass (hc.head_ne (j := 10) rfl (Nat.le_refl _)) h
  · have := Parses.level11 h (Parses.bangs_exit (acc := x) (k := 0) (hc.head_ne (j := 11) rfl (Nat.le_refl _)))
    simpa using this
  · exact Parses.level12_pass (hc.head_ne (j := 12) rfl (Nat.le_refl _)) (hc.head_ne (j := 12) rfl (Nat.le_refl _)) h

theorem climb {d : Nat} : ∀ {k : Nat} {ts R : List PTok} {x : Expr}, k + d ≤ 13 →
    Parses (.level (k + d)) ts (some (x, R)) → (∀ i, k ≤ i → i < k + d → prefixOk i ts) → NoCont k R →
    Parses (.level k) ts (some (x, R)) := by
  induction d with
  | zero => intro k ts R x _ h _ _; simpa using h
  | succ d ih =>
    intro k ts R x hk h hp hc
    have h' : Parses (.level (k + 1 + d)) ts (some (x, R)) := by
      have : k + 1 + d = k + (d + 1) := by omega
      rw [this]; exact h
    have h1 := ih (k := k + 1) (by omega) h' (fun i a b => hp i (by omega) (by omega)) (hc.mono (by omega))
    exact climb1 (by omega) h1 (hp k (Nat.le_refl _) (by omega)) hc

/-! ## the fragment, levels of printed forms, operand tokens -/

/-- The trees for which `print_parse` is proved: scalars (with a non-negative printed text), identifiers,
units, booleans, unary minus, factorial (order ≥ 1), logical negation, all binary operators, conditionals —
where the right operand of a conversion is not a conditional. -/
def Frag : Expr → Bool
  | .num _ t => t.head? != some '-'
  | .ident _ => true
  | .unit _ _ => true
  | .bool _ => true
  | .neg e => Frag e
  | .not e => Frag e
  | .fact n e => decide (1 ≤ n) && Frag e
  | .cond c t e => Frag c && Frag t && Frag e
  | .bin .conv l r => Frag l && Frag r && !r.isCond
  | .bin _ l r => Frag l && Frag r
  | _ => false

/-- is `bin mul l r` printed in the fused form `2 metre` / `2 x`? -/
def isFused : Expr → Expr → Bool
  | .num _ _, .unit _ _ => true
  | .num _ _, .ident _ => true
  | _, _ => false

/-- the loosest grammar level at which the printed form of `e` is one expression -/
def lvl : Expr → Nat
  | .cond _ _ _ => 0
  | .bin .conv _ _ => 1
  | .bin .or _ _ => 2
  | .bin .and _ _ => 3
  | .not _ => 4
  | .bin .add _ _ => 6
  | .bin .sub _ _ => 6
  | .bin .mul l r => if isFused l r then 9 else 7
  | .bin .div _ _ => 7
  | .neg _ => 8
  | .bin .pow _ (.num b _) => if b = bitsTwo ∨ b = bitsThree then 12 else 10
  | .bin .pow _ _ => 10
  | .fact _ _ => 11
  | .bin _ _ _ => 5
  | _ => 13

theorem lexToks_append (a b : List PTok) : lexToks (a ++ b) = lexToks a ++ lexToks b := by
  induction a with
  | nil => simp [lexToks]
  | cons t ts ih => simp [lexToks, ih]

/-- tokens of `with_parens e` -/
def wpT (e : Expr) : List PTok := lexToks (withParens e (ptoks e))
/-- tokens of `with_parens_liberal e` -/
def wplT (e : Expr) : List PTok := lexToks (withParensLiberal e (ptoks e))
/-- tokens of an operand of `+` -/
def addOpT (e : Expr) : List PTok :=
  lexToks (if e.isBinPow || e.isBinMul || e.isBinAdd then ptoks e else withParensLiberal e (ptoks e))
/-- tokens of an operand of `×` and `-`, and of the left operand of `/` -/
def mulOpT (e : Expr) : List PTok :=
  lexToks (if e.isBinPow || e.isBinMul then ptoks e else withParensLiberal e (ptoks e))
/-- tokens of the right operand of `/` -/
def divROpT (e : Expr) : List PTok :=
  lexToks (if e.isBinPow then ptoks e else withParensLiberal e (ptoks e))

theorem wpT_atomic {e : Expr} (h : e.isAtomic = true) : wpT e = toks e := by
  simp [wpT, withParens, h, toks]
theorem wpT_compound {e : Expr} (h : e.isAtomic = false) : wpT e = .sym .lp :: (toks e ++ [.sym .rp]) := by
  simp [wpT, withParens, h, toks, lexToks_append, lexToks, lexTok]

end NumbatModel.Printer
