import NumbatModel.Lemmas.Session
/-!
Helper lemmas for `Props/C07.lean`: inversion of a successful `interpret`, the resolver on a concatenated
program, sources that differ only in labels.
-/
namespace NumbatModel.Session

variable {μ κ σ τ θ T C V E ν ω : Type} [DecidableEq μ]

/-- sequencing of two resolver passes -/
def seqResolve (x : ResolveResult μ σ E) (k : Resolver μ → ResolveResult μ σ E) : ResolveResult μ σ E :=
  match x with
  | (r', .ok out) =>
    match k r' with
    | (r'', .ok out') => (r'', .ok (out ++ out'))
    | (r'', .error e) => (r'', .error e)
  | (r', .error e) => (r', .error e)

theorem inlineAt_append (P : Stages μ κ σ τ θ T C V E ν ω)
    (nested : Resolver μ → List (Stmt μ σ) → ResolveResult μ σ E) :
    ∀ (xs ys : List (Stmt μ σ)) (r : Resolver μ),
      inlineAt P nested r (xs ++ ys) = seqResolve (inlineAt P nested r xs) (fun r' => inlineAt P nested r' ys) := by
  intro xs
  induction xs with
  | nil =>
    intro ys r
    simp only [List.nil_append, inlineAt, seqResolve]
    cases inlineAt P nested r ys with
    | mk a ra => cases ra <;> simp
  | cons st rest ih =>
    intro ys r
    cases st with
    | other s =>
      simp only [List.cons_append, inlineAt, ih]
      cases inlineAt P nested r rest with
      | mk a ra =>
        cases ra with
        | error e => simp [seqResolve]
        | ok out =>
          simp only [seqResolve]
          cases inlineAt P nested a ys with
          | mk b rb => cases rb <;> simp
    | use m =>
      simp only [List.cons_append, inlineAt]
      split
      · exact ih ys r
      · cases P.importer m with
        | none => simp [seqResolve]
        | some code =>
          simp only []
          cases P.parse code (({ r with imported := r.imported ++ [m] } : Resolver μ).addCodeSource (.module m)).2 with
          | error e => simp [seqResolve]
          | ok prog =>
            simp only []
            cases nested (({ r with imported := r.imported ++ [m] } : Resolver μ).addCodeSource (.module m)).1 prog with
            | mk a ra =>
              cases ra with
              | error e => simp [seqResolve]
              | ok inl =>
                simp only [ih]
                cases inlineAt P nested a rest with
                | mk b rb =>
                  cases rb with
                  | error e => simp [seqResolve]
                  | ok out =>
                    simp only [seqResolve]
                    cases inlineAt P nested b ys with
                    | mk c rc => cases rc <;> simp

theorem inline_append (P : Stages μ κ σ τ θ T C V E ν ω) (d : Nat) (xs ys : List (Stmt μ σ)) (r : Resolver μ) :
    inline P d r (xs ++ ys) = seqResolve (inline P d r xs) (fun r' => inline P d r' ys) := by
  cases d <;> exact inlineAt_append P _ xs ys r

/-- `resolve` on resolvers with the same imported modules, for possibly different source kinds -/
theorem resolve_obs' (P : Stages μ κ σ τ θ T C V E ν ω) (hP : LabelFree P) (r r' : Resolver μ) (code : κ)
    (src src' : Source μ) (h : r.imported = r'.imported) :
    ResEq (resolve P r code src) (resolve P r' code src') := by
  unfold resolve
  simp only []
  rw [hP code (r.addCodeSource src).2 (r'.addCodeSource src').2]
  cases P.parse code (r'.addCodeSource src').2 with
  | error e => exact ⟨by simp [h], rfl⟩
  | ok prog => exact inline_obs P hP _ _ _ prog (by simp [h])

/-- inversion: a successful `interpret` went through all four stages and committed their states -/
theorem interpretG_ok_inv (fix : Bool) (P : Stages μ κ σ τ θ T C V E ν ω) (s s1 : Session μ T C V) (code : κ)
    (src : Source μ) (res : Option ν) (out : List ω)
    (h : interpretG fix P s code src = (s1, ⟨.ok res, out⟩)) :
    ∃ rr stmts t1 ts c1 typed v1,
      resolve P s.resolver code src = (rr, .ok stmts) ∧ P.transform s.transformer stmts = (t1, .ok ts) ∧
      P.check s.checker ts = (c1, .ok typed) ∧ P.run s.interp t1 c1 typed = (v1, out, .ok res) ∧
      s1 = ⟨rr, t1, c1, v1⟩ := by
  unfold interpretG at h
  simp only [] at h
  revert h
  cases hres : resolve P s.resolver code src with
  | mk r1 x =>
    cases x with
    | error e => intro h; simp at h
    | ok stmts =>
      simp only []
      cases htr : P.transform s.transformer stmts with
      | mk t1 rt =>
        cases rt with
        | error e => intro h; simp at h
        | ok ts =>
          simp only []
          cases hch : P.check s.checker ts with
          | mk c1 rc =>
            cases rc with
            | error e => intro h; simp at h
            | ok typed =>
              simp only []
              cases hrun : P.run s.interp t1 c1 typed with
              | mk v1 rest =>
                cases rest with
                | mk o rr =>
                  cases rr with
                  | error e => intro h; simp at h
                  | ok r =>
                    intro h
                    simp only [Prod.mk.injEq, Outcome.mk.injEq, Except.ok.injEq] at h
                    obtain ⟨h1, h2, h3⟩ := h
                    subst h2 h3
                    exact ⟨r1, stmts, t1, ts, c1, typed, v1, rfl, htr, hch, hrun, h1.symm⟩

/-- introduction: if all four stages succeed, `interpret` commits -/
theorem interpretG_ok_intro (fix : Bool) (P : Stages μ κ σ τ θ T C V E ν ω) (s : Session μ T C V) (code : κ)
    (src : Source μ) {rr stmts t1 ts c1 typed v1 out res}
    (h1 : resolve P s.resolver code src = (rr, .ok stmts)) (h2 : P.transform s.transformer stmts = (t1, .ok ts))
    (h3 : P.check s.checker ts = (c1, .ok typed)) (h4 : P.run s.interp t1 c1 typed = (v1, out, .ok res)) :
    interpretG fix P s code src = (⟨rr, t1, c1, v1⟩, ⟨.ok res, out⟩) := by
  unfold interpretG
  simp only [h1, h2, h3, h4]


/-- sessions that agree up to the file table, run on the same text from possibly different source kinds -/
theorem interpretG_obs' (fix : Bool) (P : Stages μ κ σ τ θ T C V E ν ω) (hP : LabelFree P)
    (a b : Session μ T C V) (code : κ) (src src' : Source μ) (h : ObsEq a b) :
    ObsEq (interpretG fix P a code src).1 (interpretG fix P b code src').1 ∧
      (interpretG fix P a code src).2 = (interpretG fix P b code src').2 := by
  obtain ⟨ra, ta, ca, va⟩ := a
  obtain ⟨rb, tb, cb, vb⟩ := b
  obtain ⟨hi, ht, hc, hv⟩ := h
  simp only at hi ht hc hv
  subst ht hc hv
  have hr := resolve_obs' P hP ra rb code src src' hi
  unfold interpretG
  simp only []
  revert hr
  cases resolve P ra code src with
  | mk r1 x1 =>
    cases resolve P rb code src' with
    | mk r2 x2 =>
      intro ⟨h1, h2⟩
      simp only at h1 h2
      subst h2
      have hrest : (restoreImports fix r1 ra.imported).imported = (restoreImports fix r2 rb.imported).imported := by
        cases fix <;> simp [restoreImports, hi, h1]
      cases x1 with
      | error e => exact ⟨⟨hrest, rfl, rfl, rfl⟩, rfl⟩
      | ok stmts =>
        simp only []
        cases P.transform ta stmts with
        | mk t1 rt =>
          cases rt with
          | error e => exact ⟨⟨hrest, rfl, rfl, rfl⟩, rfl⟩
          | ok ts =>
            simp only []
            cases P.check ca ts with
            | mk c1 rc =>
              cases rc with
              | error e => exact ⟨⟨hrest, rfl, rfl, rfl⟩, rfl⟩
              | ok typed =>
                simp only []
                cases P.run va t1 c1 typed with
                | mk v1 rest =>
                  cases rest with
                  | mk out rr =>
                    cases rr with
                    | error e => exact ⟨⟨hrest, rfl, rfl, rfl⟩, rfl⟩
                    | ok res => exact ⟨⟨h1, rfl, rfl, rfl⟩, rfl⟩

/-- a text that parses like another one is interpreted like it -/
theorem interpretG_parse_congr (fix : Bool) (P : Stages μ κ σ τ θ T C V E ν ω) (s : Session μ T C V)
    (c c' : κ) (src : Source μ) (h : ∀ i, P.parse c' i = P.parse c i) :
    interpretG fix P s c' src = interpretG fix P s c src := by
  unfold interpretG resolve
  simp only [h]

/-- every input of the history succeeds -/
def AllOk (P : Stages μ κ σ τ θ T C V E ν ω) : Session μ T C V → List (κ × Source μ) → Prop
  | _, [] => True
  | s, i :: rest => (interpret P s i.1 i.2).2.isOk = true ∧ AllOk P (interpret P s i.1 i.2).1 rest

/-- the inputs of a history that succeed (what the REPL records with `Ok(())`) -/
def okInputs (P : Stages μ κ σ τ θ T C V E ν ω) : Session μ T C V → List (κ × Source μ) → List (κ × Source μ)
  | _, [] => []
  | s, i :: rest =>
    if (interpret P s i.1 i.2).2.isOk then i :: okInputs P (interpret P s i.1 i.2).1 rest
    else okInputs P (interpret P s i.1 i.2).1 rest

/-- value reported by an outcome (`none` = `Continue` or an error) -/
def resultOf (o : Outcome μ E ν ω) : Option ν :=
  match o.result with
  | .ok r => r
  | .error _ => none

/-- the last value produced by a list of outcomes -/
def lastValue : List (Outcome μ E ν ω) → Option ν
  | [] => none
  | o :: rest => combineResult (resultOf o) (lastValue rest)

theorem runHist_congr (P : Stages μ κ σ τ θ T C V E ν ω) (hP : LabelFree P) :
    ∀ (h : List (κ × Source μ)) (a b : Session μ T C V), ObsEq a b →
      ObsEq (runHist P a h).1 (runHist P b h).1 ∧ (runHist P a h).2 = (runHist P b h).2 := by
  intro h
  induction h with
  | nil => intro a b hab; exact ⟨hab, rfl⟩
  | cons i rest ih =>
    intro a b hab
    have hs := interpretG_obs' true P hP a b i.1 i.2 i.2 hab
    have := ih _ _ hs.1
    unfold runHist at *
    simp only [runHistG]
    exact ⟨this.1, by rw [hs.2, this.2]⟩

theorem okInputs_congr (P : Stages μ κ σ τ θ T C V E ν ω) (hP : LabelFree P) :
    ∀ (h : List (κ × Source μ)) (a b : Session μ T C V), ObsEq a b → okInputs P a h = okInputs P b h := by
  intro h
  induction h with
  | nil => intro a b _; rfl
  | cons i rest ih =>
    intro a b hab
    have hs := interpretG_obs' true P hP a b i.1 i.2 i.2 hab
    simp only [okInputs]
    unfold interpret
    rw [hs.2, ih _ _ hs.1]

theorem allOk_congr (P : Stages μ κ σ τ θ T C V E ν ω) (hP : LabelFree P) :
    ∀ (h : List (κ × Source μ)) (a b : Session μ T C V), ObsEq a b → AllOk P a h → AllOk P b h := by
  intro h
  induction h with
  | nil => intro a b _ _; trivial
  | cons i rest ih =>
    intro a b hab hok
    have hs := interpretG_obs' true P hP a b i.1 i.2 i.2 hab
    simp only [AllOk] at hok ⊢
    unfold interpret at hok ⊢
    exact ⟨by rw [← hs.2]; exact hok.1, ih _ _ hs.1 hok.2⟩

/-- sequencing of a stage over two statement lists -/
def seqStage {S α : Type} (x : S × Except E (List α)) (k : S → S × Except E (List α)) : S × Except E (List α) :=
  match x with
  | (s1, .ok xs') =>
    match k s1 with
    | (s2, .ok ys') => (s2, .ok (xs' ++ ys'))
    | (s2, .error e) => (s2, .error e)
  | (s1, .error e) => (s1, .error e)


omit [DecidableEq μ] in
theorem resEq_inv {x : ResolveResult μ σ E} {r : Resolver μ} {res : Except (Err μ E) (List σ)}
    (h : ResEq x (r, res)) : ∃ r', x = (r', res) ∧ r'.imported = r.imported := by
  obtain ⟨x1, x2⟩ := x
  obtain ⟨h1, h2⟩ := h
  simp only at h1 h2
  subst h2
  exact ⟨x1, rfl, h1⟩


omit [DecidableEq μ] in
theorem isOk_inv {o : Outcome μ E ν ω} (h : o.isOk = true) : ∃ r, o = ⟨.ok r, o.output⟩ := by
  obtain ⟨res, out⟩ := o
  cases res with
  | ok r => exact ⟨r, rfl⟩
  | error e => simp [Outcome.isOk] at h

omit [DecidableEq μ] in
theorem isOk_false_inv {o : Outcome μ E ν ω} (h : ¬ o.isOk = true) : ∃ e, o.result = .error e := by
  obtain ⟨res, out⟩ := o
  cases res with
  | ok r => simp [Outcome.isOk] at h
  | error e => exact ⟨e, rfl⟩


theorem runHist_trim (P : Stages μ κ σ τ θ T C V E ν ω) (trim : κ → κ)
    (hTrim : ∀ c i, P.parse (trim c) i = P.parse c i) :
    ∀ (h : List (κ × Source μ)) (s : Session μ T C V),
      runHist P s (h.map (fun i => (trim i.1, i.2))) = runHist P s h ∧
        (AllOk P s h → AllOk P s (h.map (fun i => (trim i.1, i.2)))) := by
  intro h
  induction h with
  | nil => intro s; exact ⟨rfl, fun _ => trivial⟩
  | cons i rest ih =>
    intro s
    have e : interpret P s (trim i.1) i.2 = interpret P s i.1 i.2 :=
      interpretG_parse_congr true P s i.1 (trim i.1) i.2 (hTrim i.1)
    refine ⟨?_, ?_⟩
    · have := (ih (interpret P s i.1 i.2).1).1
      unfold runHist interpret at *
      simp only [List.map_cons, runHistG]
      rw [e, this]
    · intro hok
      simp only [List.map_cons, AllOk] at hok ⊢
      rw [e]
      exact ⟨hok.1, (ih _).2 hok.2⟩


namespace Names

variable {ν' : Type}

/-- joined text of the name-level instance -/
def joinCode (a b : Code μ ν') : Code μ ν' := ⟨a.parseFails || b.parseFails, a.items ++ b.items⟩

omit [DecidableEq μ] in
theorem stage_append (here : FailStage) (keep : Kind → Bool) :
    ∀ (xs ys : List (Item μ ν')) (st : Names ν'),
      stage here keep st (xs ++ ys) = seqStage (stage here keep st xs) (fun st1 => stage here keep st1 ys) := by
  intro xs
  induction xs with
  | nil =>
    intro ys st
    simp only [List.nil_append, stage, seqStage]
    cases stage here keep st ys with
    | mk a ra => cases ra <;> simp
  | cons x rest ih =>
    intro ys st
    cases x with
    | use m =>
      simp only [List.cons_append, stage, ih]
      cases stage here keep st rest with
      | mk a ra =>
        cases ra with
        | error e => simp [seqStage]
        | ok out =>
          simp only [seqStage]
          cases stage here keep a ys with
          | mk b rb => cases rb <;> simp
    | plain =>
      simp only [List.cons_append, stage, ih]
      cases stage here keep st rest with
      | mk a ra =>
        cases ra with
        | error e => simp [seqStage]
        | ok out =>
          simp only [seqStage]
          cases stage here keep a ys with
          | mk b rb => cases rb <;> simp
    | defn ns =>
      simp only [List.cons_append, stage, ih]
      cases stage here keep (st ++ ns.filter (fun n => keep n.1)) rest with
      | mk a ra =>
        cases ra with
        | error e => simp [seqStage]
        | ok out =>
          simp only [seqStage]
          cases stage here keep a ys with
          | mk b rb => cases rb <;> simp
    | failAt f =>
      simp only [List.cons_append, stage]
      split
      · simp [seqStage]
      · rw [ih]
        cases stage here keep st rest with
        | mk a ra =>
          cases ra with
          | error e => simp [seqStage]
          | ok out =>
            simp only [seqStage]
            cases stage here keep a ys with
            | mk b rb => cases rb <;> simp

omit [DecidableEq μ] in
/-- what a successful run stage printed for a prefix is a prefix of what the whole list prints -/
theorem prints_append :
    ∀ (xs ys : List (Item μ ν')) (st st1 : Names ν') (out : List (Item μ ν')),
      stage .run Kind.inInterp st xs = (st1, .ok out) → prints (xs ++ ys) = prints xs ++ prints ys := by
  intro xs
  induction xs with
  | nil => intro ys st st1 out _; rfl
  | cons x rest ih =>
    intro ys st st1 out h
    cases x with
    | use m =>
      simp only [stage] at h
      revert h
      cases hh : stage .run Kind.inInterp st rest with
      | mk a ra =>
        cases ra with
        | error e => intro h; simp at h
        | ok o => intro _; simp only [List.cons_append, prints]; exact ih ys st a o hh
    | plain =>
      simp only [stage] at h
      revert h
      cases hh : stage .run Kind.inInterp st rest with
      | mk a ra =>
        cases ra with
        | error e => intro h; simp at h
        | ok o =>
          intro _; simp only [List.cons_append, prints, List.cons.injEq, true_and]; exact ih ys st a o hh
    | defn ns =>
      simp only [stage] at h
      revert h
      cases hh : stage .run Kind.inInterp (st ++ ns.filter (fun n => Kind.inInterp n.1)) rest with
      | mk a ra =>
        cases ra with
        | error e => intro h; simp at h
        | ok o => intro _; simp only [List.cons_append, prints]; exact ih ys _ a o hh
    | failAt f =>
      cases f with
      | run => simp [stage] at h
      | names =>
        simp only [stage] at h
        revert h
        cases hh : stage .run Kind.inInterp st rest with
        | mk a ra =>
          cases ra with
          | error e => intro h; simp at h
          | ok o => intro _; simp only [List.cons_append, prints]; exact ih ys st a o hh
      | types =>
        simp only [stage] at h
        revert h
        cases hh : stage .run Kind.inInterp st rest with
        | mk a ra =>
          cases ra with
          | error e => intro h; simp at h
          | ok o => intro _; simp only [List.cons_append, prints]; exact ih ys st a o hh

end Names

end NumbatModel.Session
