import NumbatModel.Lemmas.Types
/-!
# Canonical factor lists are canonical

`canon fs` is strictly sorted by `DFactor.cmp` (so it has no duplicate factor and all type variables come first)
and has no zero exponent.  Needed for the completeness direction of C02: a constraint the solver is stuck on
(`EqualScalar d` whose first factor is not a type variable) has no solution.
-/
namespace NumbatModel.Types
open Std

instance : OrientedCmp TV.cmp where
  eq_swap := by
    intro a b
    cases a <;> cases b <;> simp only [TV.cmp, Ordering.swap]
    · exact OrientedCmp.eq_swap
    · exact OrientedCmp.eq_swap

instance : TransCmp TV.cmp where
  isLE_trans := by
    intro a b c h1 h2
    cases a <;> cases b <;> cases c <;> simp only [TV.cmp] at * <;> try (first | rfl | contradiction | simp at h1 | simp at h2)
    · exact TransCmp.isLE_trans h1 h2
    · exact TransCmp.isLE_trans h1 h2

instance : ReflCmp TV.cmp where
  compare_self := by
    intro a
    cases a <;> simp only [TV.cmp] <;> exact ReflCmp.compare_self

instance : LawfulEqCmp TV.cmp where
  eq_of_compare := by
    intro a b h
    cases a <;> cases b <;> simp only [TV.cmp] at h
    · rw [LawfulEqCmp.eq_of_compare h]
    · contradiction
    · contradiction
    · rw [LawfulEqCmp.eq_of_compare h]

instance : OrientedCmp DFactor.cmp where
  eq_swap := by
    intro a b
    cases a <;> cases b <;> simp only [DFactor.cmp, Ordering.swap]
    · exact OrientedCmp.eq_swap
    · exact OrientedCmp.eq_swap
    · exact OrientedCmp.eq_swap

instance : TransCmp DFactor.cmp where
  isLE_trans := by
    intro a b c h1 h2
    cases a <;> cases b <;> cases c <;> simp only [DFactor.cmp] at * <;> try (first | rfl | contradiction | simp at h1 | simp at h2)
    · exact TransCmp.isLE_trans h1 h2
    · exact TransCmp.isLE_trans h1 h2
    · exact TransCmp.isLE_trans h1 h2

instance : ReflCmp DFactor.cmp where
  compare_self := by
    intro a
    cases a <;> simp only [DFactor.cmp] <;> exact ReflCmp.compare_self

instance : LawfulEqCmp DFactor.cmp where
  eq_of_compare := by
    intro a b h
    cases a <;> cases b <;> simp only [DFactor.cmp] at h <;> try contradiction
    · rw [LawfulEqCmp.eq_of_compare h]
    · rw [LawfulEqCmp.eq_of_compare h]
    · rw [LawfulEqCmp.eq_of_compare h]

theorem factorLe_iff (a b : DFactor × Rat) : factorLe a b = true ↔ (a.1.cmp b.1).isLE = true := by
  simp only [factorLe]
  cases a.1.cmp b.1 <;> simp [Ordering.isLE]

theorem factorLe_trans (a b c : DFactor × Rat) (h1 : factorLe a b = true) (h2 : factorLe b c = true) :
    factorLe a c = true := by
  rw [factorLe_iff] at *
  exact TransCmp.isLE_trans h1 h2

theorem factorLe_total (a b : DFactor × Rat) : (factorLe a b || factorLe b a) = true := by
  simp only [factorLe]
  have := OrientedCmp.eq_swap (cmp := DFactor.cmp) (a := a.1) (b := b.1)
  cases h : b.1.cmp a.1 <;> rw [h] at this <;> simp [this, Ordering.swap]

theorem sortFactors_sorted (fs : Factors) :
    (sortFactors fs).Pairwise (fun a b => (a.1.cmp b.1).isLE = true) := by
  have := List.pairwise_mergeSort factorLe_trans factorLe_total fs
  exact this.imp (fun h => (factorLe_iff _ _).mp h)

/-- strictly increasing keys -/
def StrictSorted (l : Factors) : Prop := l.Pairwise (fun a b => a.1.cmp b.1 = .lt)

theorem lt_of_isLE_of_ne {f g : DFactor} (h : (f.cmp g).isLE = true) (hne : g ≠ f) : f.cmp g = .lt := by
  cases hc : f.cmp g with
  | lt => rfl
  | eq => exact absurd (LawfulEqCmp.eq_of_compare hc).symm hne
  | gt => rw [hc] at h; simp [Ordering.isLE] at h

theorem mergeGo_spec (f : DFactor) (n : Rat) (x : Factors)
    (hle : ∀ p ∈ x, (f.cmp p.1).isLE = true)
    (hs : x.Pairwise (fun a b => (a.1.cmp b.1).isLE = true)) :
    StrictSorted (mergeGo f n x) ∧ (∀ p ∈ mergeGo f n x, p.1 = f ∨ (f.cmp p.1 = .lt ∧ ∃ q ∈ x, q.1 = p.1)) := by
  induction x generalizing f n with
  | nil => simp [mergeGo, StrictSorted]
  | cons q rest ih =>
    obtain ⟨g, m⟩ := q
    simp only [mergeGo]
    have hsr := (List.pairwise_cons.mp hs)
    split
    · rename_i hgf
      subst hgf
      have := ih g (n + m) (fun p hp => hle p (List.mem_cons_of_mem _ hp)) hsr.2
      refine ⟨this.1, fun p hp => ?_⟩
      cases this.2 p hp with
      | inl h => exact Or.inl h
      | inr h => exact Or.inr ⟨h.1, h.2.choose, List.mem_cons_of_mem _ h.2.choose_spec.1, h.2.choose_spec.2⟩
    · rename_i hgf
      have hfg : f.cmp g = .lt := lt_of_isLE_of_ne (hle (g, m) (by simp)) hgf
      have := ih g m (fun p hp => hsr.1 p hp) hsr.2
      have hlt : ∀ p ∈ mergeGo g m rest, f.cmp p.1 = .lt := by
        intro p hp
        cases this.2 p hp with
        | inl h => rw [h]; exact hfg
        | inr h => exact TransCmp.lt_trans hfg h.1
      refine ⟨?_, fun p hp => ?_⟩
      · exact List.pairwise_cons.mpr ⟨fun p hp => hlt p hp, this.1⟩
      · simp at hp
        cases hp with
        | inl h => subst h; exact Or.inl rfl
        | inr h =>
          refine Or.inr ⟨hlt p h, ?_⟩
          cases this.2 p h with
          | inl h' => exact ⟨(g, m), by simp, h'.symm⟩
          | inr h' => exact ⟨h'.2.choose, List.mem_cons_of_mem _ h'.2.choose_spec.1, h'.2.choose_spec.2⟩

theorem mergeAdj_strict (x : Factors) (hs : x.Pairwise (fun a b => (a.1.cmp b.1).isLE = true)) :
    StrictSorted (mergeAdj x) ∧ ∀ p ∈ mergeAdj x, ∃ q ∈ x, q.1 = p.1 := by
  cases x with
  | nil => simp [mergeAdj, StrictSorted]
  | cons q rest =>
    obtain ⟨f, n⟩ := q
    have hsr := List.pairwise_cons.mp hs
    have := mergeGo_spec f n rest (fun p hp => hsr.1 p hp) hsr.2
    refine ⟨this.1, fun p hp => ?_⟩
    cases this.2 p hp with
    | inl h => exact ⟨(f, n), by simp, h.symm⟩
    | inr h => exact ⟨h.2.choose, List.mem_cons_of_mem _ h.2.choose_spec.1, h.2.choose_spec.2⟩

/-- canonical form: strictly sorted keys and no zero exponent -/
def Canon (d : Factors) : Prop := StrictSorted d ∧ ∀ p ∈ d, p.2 ≠ 0

theorem canon_isCanon (fs : Factors) : Canon (canon fs) := by
  have h1 := mergeAdj_strict (sortFactors fs) (sortFactors_sorted fs)
  refine ⟨?_, ?_⟩
  · exact List.Pairwise.sublist List.filter_sublist h1.1
  · intro p hp
    simp only [canon, dropZeros, List.mem_filter] at hp
    simpa using hp.2

/-- every factor of `canon fs` is a factor of `fs` -/
theorem canon_keys (fs : Factors) : ∀ p ∈ canon fs, ∃ q ∈ fs, q.1 = p.1 := by
  intro p hp
  simp only [canon, dropZeros, List.mem_filter] at hp
  obtain ⟨q, hq, hk⟩ := (mergeAdj_strict (sortFactors fs) (sortFactors_sorted fs)).2 p hp.1
  exact ⟨q, (List.mergeSort_perm fs factorLe).mem_iff.mp hq, hk⟩

/-! ## constraints the solver is stuck on have no solution -/

def DFactor.isTVar : DFactor → Bool
  | .tvar _ => true
  | _ => false

theorem contains_tvar (x y : TV) : (Ty.tvar y).contains x false = (x == y) := by
  simp only [Ty.contains, Ty.typeVars, List.contains, List.elem]
  cases (x == y) <;> rfl

theorem satVarDim_dim_ne_none (x : TV) (d : Factors) : satVarDim x (.dim d) ≠ .none := by
  simp only [satVarDim]
  split
  · split <;> simp
  · simp

theorem satEqual_ne_none {t1 t2 : Ty} (h1 : t1.isTD = true) (h2 : t2.isTD = true) : satEqual t1 t2 ≠ .none := by
  simp only [satEqual]
  split
  · simp
  · rename_i hb
    cases t1 <;> cases t2 <;> simp [Ty.isTD] at h1 h2
    · rename_i x y
      simp only [satVar, contains_tvar]
      have hxy : (x == y) = false := by
        cases hxy : (x == y) with
        | false => rfl
        | true =>
          have : x = y := by simpa using hxy
          subst this
          simp [Ty.beq] at hb
      simp [hxy]
    · rename_i x d
      simp only [satVar]
      split
      · simp
      · exact satVarDim_dim_ne_none x d
    · rename_i d x
      simp only [satVar]
      split
      · simp
      · exact satVarDim_dim_ne_none x d
    · rename_i d1 d2
      simp only [satDimLeft]
      split
      · simp
      · split <;> simp

/-- a constraint of the fragment on which `try_satisfy` gives up, other than `IsDType` of a variable, is an
`EqualScalar` whose first factor is not a type variable -/
theorem stuck_shape {c : Constraint} (hc : c.dimOnly = true) (hs : c.trySatisfy = .none)
    (hv : c.dtypeVar = none) :
    ∃ f e rest, c = .equalScalar ((f, e) :: rest) ∧ f.isTVar = false := by
  cases c with
  | equal a b =>
    simp only [Constraint.dimOnly, Bool.and_eq_true] at hc
    exact absurd hs (satEqual_ne_none hc.1 hc.2)
  | isDType t =>
    cases t <;> simp [Constraint.dtypeVar] at hv <;> simp [Constraint.trySatisfy] at hs <;>
      simp [Constraint.dimOnly, Ty.isTD, Ty.isTPar] at hc
  | equalScalar d =>
    simp only [Constraint.trySatisfy] at hs
    split at hs
    · simp at hs
    · cases d with
      | nil => simp at *
      | cons p rest =>
        obtain ⟨f, e⟩ := p
        refine ⟨f, e, rest, rfl, ?_⟩
        cases f with
        | tvar tv =>
          simp only [gaussStep] at hs
          split at hs <;> simp at hs
        | tpar _ => rfl
        | base _ => rfl

/-- `θ` keeps the type parameters `P` rigid: each is its own independent axis -/
def Rigid (θ : Val) (P : String → Prop) : Prop := ∀ n, P n → θ (.named n) = unitVec (.tpar n)

def TParOK (P : String → Prop) (d : Factors) : Prop := ∀ p ∈ d, ∀ n, p.1 = .tpar n → P n

def axisOf : DFactor → Axis
  | .base n => .base n
  | .tpar n => .tpar n
  | .tvar _ => .base ""

theorem unitVec_ne {a b : Axis} (h : a ≠ b) : unitVec b a = 0 := by
  simp only [unitVec]; rw [if_neg h]

theorem unitVec_self (a : Axis) : unitVec a a = 1 := by
  simp [unitVec]

theorem factorVal_other (θ : Val) (P : String → Prop) (hr : Rigid θ P) {f g : DFactor}
    (hf : f.isTVar = false) (hg : g.isTVar = false) (hgP : ∀ n, g = .tpar n → P n) (hne : g ≠ f) :
    factorVal θ g (axisOf f) = 0 := by
  cases g with
  | tvar _ => simp [DFactor.isTVar] at hg
  | base m =>
    cases f with
    | tvar _ => simp [DFactor.isTVar] at hf
    | base n =>
      show unitVec (.base m) (.base n) = 0
      apply unitVec_ne
      intro h; injection h with h; subst h; exact absurd rfl hne
    | tpar n =>
      show unitVec (.base m) (.tpar n) = 0
      exact unitVec_ne (by intro h; cases h)
  | tpar m =>
    rw [show factorVal θ (.tpar m) = θ (.named m) from rfl, hr m (hgP m rfl)]
    cases f with
    | tvar _ => simp [DFactor.isTVar] at hf
    | base n =>
      show unitVec (.tpar m) (.base n) = 0
      exact unitVec_ne (by intro h; cases h)
    | tpar n =>
      show unitVec (.tpar m) (.tpar n) = 0
      apply unitVec_ne
      intro h; injection h with h; subst h; exact absurd rfl hne

theorem factorVal_self (θ : Val) (P : String → Prop) (hr : Rigid θ P) {f : DFactor}
    (hf : f.isTVar = false) (hfP : ∀ n, f = .tpar n → P n) : factorVal θ f (axisOf f) = 1 := by
  cases f with
  | tvar _ => simp [DFactor.isTVar] at hf
  | base n => exact unitVec_self _
  | tpar n =>
    rw [show factorVal θ (.tpar n) = θ (.named n) from rfl, hr n (hfP n rfl)]
    exact unitVec_self _

theorem dValAt_tail_zero (θ : Val) (P : String → Prop) (hr : Rigid θ P) {f : DFactor} (hf : f.isTVar = false)
    (rest : Factors) (hlt : ∀ p ∈ rest, f.cmp p.1 = .lt) (hok : TParOK P rest) :
    dValAt θ (axisOf f) rest = 0 := by
  induction rest with
  | nil => rfl
  | cons p tl ih =>
    have hp := hlt p (by simp)
    have hpt : p.1.isTVar = false := by
      cases hp1 : p.1 with
      | tvar v =>
        rw [hp1] at hp
        cases f <;> simp [DFactor.cmp, DFactor.isTVar] at hp hf
      | tpar _ => rfl
      | base _ => rfl
    have hne : p.1 ≠ f := by
      intro h
      rw [h] at hp
      have := ReflCmp.compare_self (cmp := DFactor.cmp) (a := f)
      rw [this] at hp
      contradiction
    have h0 := factorVal_other θ P hr hf hpt (fun n hn => hok p (by simp) n hn) hne
    simp only [dValAt, h0]
    rw [ih (fun q hq => hlt q (List.mem_cons_of_mem _ hq)) (fun q hq => hok q (List.mem_cons_of_mem _ hq))]
    grind

/-- a stuck `EqualScalar` is unsatisfiable by any valuation that keeps its type parameters rigid -/
theorem stuck_unsat (θ : Val) (P : String → Prop) (hr : Rigid θ P) {f : DFactor} {e : Rat} {rest : Factors}
    (hc : Canon ((f, e) :: rest)) (hok : TParOK P ((f, e) :: rest)) (hf : f.isTVar = false) :
    dVal θ ((f, e) :: rest) ≠ zeroVec := by
  intro h
  have := congrFun h (axisOf f)
  simp only [dVal, dValAt, zeroVec] at this
  have hs := List.pairwise_cons.mp hc.1
  rw [factorVal_self θ P hr hf (fun n hn => hok (f, e) (by simp) n hn),
      dValAt_tail_zero θ P hr hf rest (fun p hp => hs.1 p hp) (fun q hq => hok q (List.mem_cons_of_mem _ hq))] at this
  have he : e ≠ 0 := hc.2 (f, e) (by simp)
  grind

/-! ## well-formedness (canonical factor lists, type parameters among `P`) is an invariant of the solver -/

def DWf (P : String → Prop) (d : Factors) : Prop := Canon d ∧ TParOK P d

def Ty.wf (P : String → Prop) : Ty → Prop
  | .dim d => DWf P d
  | _ => True

def Constraint.wf (P : String → Prop) : Constraint → Prop
  | .equal a b => a.wf P ∧ b.wf P
  | .isDType t => t.wf P
  | .equalScalar d => DWf P d

def Subst.wf (P : String → Prop) (s : Subst) : Prop := ∀ p ∈ s, p.2.wf P

theorem canon_wf {P : String → Prop} {fs : Factors} (h : TParOK P fs) : DWf P (canon fs) := by
  refine ⟨canon_isCanon fs, fun p hp n hn => ?_⟩
  obtain ⟨q, hq, hk⟩ := canon_keys fs p hp
  exact h q hq n (hk.trans hn)

theorem TParOK_append {P : String → Prop} {a b : Factors} (ha : TParOK P a) (hb : TParOK P b) :
    TParOK P (a ++ b) := by
  intro p hp n hn
  rw [List.mem_append] at hp
  cases hp with
  | inl h => exact ha p h n hn
  | inr h => exact hb p h n hn

theorem TParOK_map {P : String → Prop} {a : Factors} (ha : TParOK P a) (g : Rat → Rat) :
    TParOK P (a.map (fun p => (p.1, g p.2))) := by
  intro p hp n hn
  simp only [List.mem_map] at hp
  obtain ⟨q, hq, rfl⟩ := hp
  exact ha q hq n hn

theorem dmul_wf {P : String → Prop} {a b : Factors} (ha : TParOK P a) (hb : TParOK P b) : DWf P (dmul a b) :=
  canon_wf (TParOK_append ha hb)

theorem dpow_wf {P : String → Prop} {a : Factors} (ha : TParOK P a) (n : Rat) : DWf P (dpow a n) :=
  canon_wf (TParOK_map ha (fun e => n * e))

theorem ddiv_wf {P : String → Prop} {a b : Factors} (ha : TParOK P a) (hb : TParOK P b) : DWf P (ddiv a b) :=
  dmul_wf ha (dpow_wf hb (-1)).2

theorem dOfTVar_wf (P : String → Prop) (v : TV) : DWf P (dOfTVar v) :=
  canon_wf (by intro p hp n hn; simp at hp; subst hp; simp at hn)

theorem dOfTPar_wf {P : String → Prop} {n : String} (h : P n) : DWf P (dOfTPar n) :=
  canon_wf (by intro p hp m hm; simp at hp; subst hp; simp at hm; subst hm; exact h)

theorem wf_lookup {P : String → Prop} {s : Subst} (hs : s.wf P) {v : TV} {t : Ty} (h : s.lookup v = some t) :
    t.wf P := hs _ (lookup_mem h)

theorem dApplyStep_wf {P : String → Prop} {s : Subst} (hs : s.wf P) {acc acc' : Factors} (hacc : DWf P acc)
    {p : DFactor × Rat} (hp : ∀ n, p.1 = .tpar n → P n) (h : dApplyStep s acc p = .ok acc') : DWf P acc' := by
  obtain ⟨f, e⟩ := p
  cases f with
  | tvar tv =>
    simp only [dApplyStep] at h
    cases hl : s.lookup tv with
    | none => rw [hl] at h; injection h with h; subst h; exact hacc
    | some t =>
      rw [hl] at h
      have ht := wf_lookup hs hl
      cases t with
      | tvar w =>
        injection h with h; subst h
        exact dmul_wf (ddiv_wf hacc.2 (dpow_wf (dOfTVar_wf P tv).2 e).2).2 (dpow_wf (dOfTVar_wf P w).2 e).2
      | dim dt =>
        injection h with h; subst h
        exact dmul_wf (ddiv_wf hacc.2 (dpow_wf (dOfTVar_wf P tv).2 e).2).2 (dpow_wf (ht : DWf P dt).2 e).2
      | tpar _ => simp at h
      | bool => simp at h
      | string => simp at h
      | datetime => simp at h
      | fn _ _ => simp at h
      | list _ => simp at h
  | tpar n =>
    have hPn : P n := hp n rfl
    simp only [dApplyStep] at h
    cases hl : s.lookup (.named n) with
    | none => rw [hl] at h; injection h with h; subst h; exact hacc
    | some t =>
      rw [hl] at h
      have ht := wf_lookup hs hl
      cases t with
      | tvar w =>
        injection h with h; subst h
        exact dmul_wf (ddiv_wf hacc.2 (dpow_wf (dOfTPar_wf hPn).2 e).2).2 (dpow_wf (dOfTVar_wf P w).2 e).2
      | dim dt =>
        injection h with h; subst h
        exact dmul_wf (ddiv_wf hacc.2 (dpow_wf (dOfTPar_wf hPn).2 e).2).2 (dpow_wf (ht : DWf P dt).2 e).2
      | tpar _ => simp at h
      | bool => simp at h
      | string => simp at h
      | datetime => simp at h
      | fn _ _ => simp at h
      | list _ => simp at h
  | base _ => simp only [dApplyStep] at h; injection h with h; subst h; exact hacc

theorem dApplyLoop_wf {P : String → Prop} {s : Subst} (hs : s.wf P) (ps : Factors) (hps : TParOK P ps)
    {acc acc' : Factors} (hacc : DWf P acc) (h : dApplyLoop s acc ps = .ok acc') : DWf P acc' := by
  induction ps generalizing acc with
  | nil => simp only [dApplyLoop] at h; injection h with h; subst h; exact hacc
  | cons p rest ih =>
    simp only [dApplyLoop] at h
    split at h
    · rename_i acc1 h1
      exact ih (fun q hq => hps q (List.mem_cons_of_mem _ hq))
        (dApplyStep_wf hs hacc (fun n hn => hps p (by simp) n hn) h1) h
    · simp at h

theorem dApply_wf {P : String → Prop} {s : Subst} (hs : s.wf P) {d d' : Factors} (hd : DWf P d)
    (h : dApply s d = .ok d') : DWf P d' := dApplyLoop_wf hs d hd.2 hd h

theorem Ty.apply_wf {P : String → Prop} {s : Subst} (hs : s.wf P) {t t' : Ty} (ht : t.wf P) (htd : t.isTD = true ∨ t.isTPar = true)
    (h : t.apply s = .ok t') : t'.wf P := by
  cases t with
  | tvar v =>
    simp only [Ty.apply] at h
    cases hl : s.lookup v with
    | none => rw [hl] at h; injection h with h; subst h; trivial
    | some u => rw [hl] at h; injection h with h; subst h; exact wf_lookup hs hl
  | tpar n =>
    simp only [Ty.apply] at h
    cases hl : s.lookup (.named n) with
    | none => rw [hl] at h; injection h with h; subst h; trivial
    | some u => rw [hl] at h; injection h with h; subst h; exact wf_lookup hs hl
  | dim d =>
    simp only [Ty.apply] at h
    cases hsv : singleTVar d with
    | some v =>
      rw [hsv] at h
      simp only at h
      cases hl : s.lookup v with
      | none => rw [hl] at h; injection h with h; subst h; exact ht
      | some u => rw [hl] at h; injection h with h; subst h; exact wf_lookup hs hl
    | none =>
      rw [hsv] at h
      simp only at h
      split at h
      · rename_i d' hd'
        injection h with h; subst h
        exact dApply_wf hs ht hd'
      · simp at h
  | bool => cases htd <;> simp [Ty.isTD, Ty.isTPar] at *
  | string => cases htd <;> simp [Ty.isTD, Ty.isTPar] at *
  | datetime => cases htd <;> simp [Ty.isTD, Ty.isTPar] at *
  | fn _ _ => cases htd <;> simp [Ty.isTD, Ty.isTPar] at *
  | list _ => cases htd <;> simp [Ty.isTD, Ty.isTPar] at *

theorem Constraint.apply_wf {P : String → Prop} {s : Subst} (hs : s.wf P) {c c' : Constraint} (hc : c.wf P)
    (hd : c.dimOnly = true) (h : c.apply s = .ok c') : c'.wf P := by
  cases c with
  | equal a b =>
    simp only [Constraint.dimOnly, Bool.and_eq_true] at hd
    simp only [Constraint.apply] at h
    split at h
    · simp at h
    · rename_i a' ha
      split at h
      · simp at h
      · rename_i b' hb
        injection h with h; subst h
        exact ⟨Ty.apply_wf hs hc.1 (Or.inl hd.1) ha, Ty.apply_wf hs hc.2 (Or.inl hd.2) hb⟩
  | isDType t =>
    simp only [Constraint.dimOnly, Bool.or_eq_true] at hd
    simp only [Constraint.apply] at h
    split at h
    · simp at h
    · rename_i t' ht
      injection h with h; subst h
      exact Ty.apply_wf hs hc hd ht
  | equalScalar d =>
    simp only [Constraint.apply] at h
    split at h
    · simp at h
    · rename_i d' hd'
      injection h with h; subst h
      exact dApply_wf hs hc hd'

theorem applyAll_wf {P : String → Prop} {s : Subst} (hs : s.wf P) {cs cs' : List Constraint}
    (hc : ∀ c ∈ cs, c.wf P) (hd : ∀ c ∈ cs, c.dimOnly = true) (h : applyAll s cs = .ok cs') :
    ∀ c ∈ cs', c.wf P := by
  induction cs generalizing cs' with
  | nil => simp only [applyAll] at h; injection h with h; subst h; simp
  | cons c rest ih =>
    simp only [applyAll] at h
    split at h
    · simp at h
    · rename_i c' hc'
      split at h
      · simp at h
      · rename_i rest' hr
        injection h with h; subst h
        intro x hx
        simp at hx
        cases hx with
        | inl hx => subst hx; exact Constraint.apply_wf hs (hc c (by simp)) (hd c (by simp)) hc'
        | inr hx => exact ih (fun y hy => hc y (by simp [hy])) (fun y hy => hd y (by simp [hy])) hr x hx

theorem subst_wf_single {P : String → Prop} {v : TV} {t : Ty} (h : t.wf P) : Subst.wf P [(v, t)] := by
  intro p hp; simp at hp; subst hp; exact h

theorem subst_wf_nil (P : String → Prop) : Subst.wf P [] := by intro p hp; simp at hp

theorem satVarDim_wf {P : String → Prop} (x : TV) {t : Ty} (ht : t.wf P) {s : Subst} {new : List Constraint}
    (h : satVarDim x t = .some s new) : s.wf P ∧ ∀ c ∈ new, c.wf P := by
  cases t with
  | dim dx =>
    simp only [satVarDim] at h
    split at h
    · split at h
      · injection h with hs hn; subst hs; subst hn
        exact ⟨subst_wf_single trivial, by simp⟩
      · injection h with hs hn; subst hs; subst hn
        exact ⟨subst_wf_nil P, by intro c hc; simp at hc; subst hc; exact ⟨dOfTVar_wf P x, ht⟩⟩
    · injection h with hs hn; subst hs; subst hn
      exact ⟨subst_wf_nil P, by intro c hc; simp at hc; subst hc; exact ⟨dOfTVar_wf P x, ht⟩⟩
  | tvar _ => simp [satVarDim] at h
  | tpar _ => simp [satVarDim] at h
  | bool => simp [satVarDim] at h
  | string => simp [satVarDim] at h
  | datetime => simp [satVarDim] at h
  | fn _ _ => simp [satVarDim] at h
  | list _ => simp [satVarDim] at h

theorem satVar_wf {P : String → Prop} (x : TV) {t : Ty} (ht : t.wf P) {s : Subst} {new : List Constraint}
    (h : satVar x t = .some s new) : s.wf P ∧ ∀ c ∈ new, c.wf P := by
  simp only [satVar] at h
  split at h
  · injection h with hs hn; subst hs; subst hn
    exact ⟨subst_wf_single ht, by simp⟩
  · exact satVarDim_wf x ht h

theorem trySatisfy_wf {P : String → Prop} {c : Constraint} (hc : c.wf P) (hd : c.dimOnly = true) {s : Subst}
    {new : List Constraint} (h : c.trySatisfy = .some s new) : s.wf P ∧ ∀ c' ∈ new, c'.wf P := by
  cases c with
  | equal t1 t2 =>
    simp only [Constraint.dimOnly, Bool.and_eq_true] at hd
    simp only [Constraint.trySatisfy, satEqual] at h
    split at h
    · injection h with hs hn; subst hs; subst hn
      exact ⟨subst_wf_nil P, by simp⟩
    · cases t1 with
      | tvar x => simp only at h; exact satVar_wf x hc.2 h
      | dim d1 =>
        cases t2 with
        | tvar x => simp only at h; exact satVar_wf x hc.1 h
        | dim d2 =>
          simp only [satDimLeft] at h
          split at h
          · injection h with hs hn; subst hs; subst hn
            exact ⟨subst_wf_single hc.2, by simp⟩
          · split at h
            · injection h with hs hn; subst hs; subst hn
              exact ⟨subst_wf_single hc.1, by simp⟩
            · injection h with hs hn; subst hs; subst hn
              refine ⟨subst_wf_nil P, ?_⟩
              intro c hcm; simp at hcm; subst hcm
              exact ddiv_wf (hc.1 : DWf P d1).2 (hc.2 : DWf P d2).2
        | tpar _ => simp [Ty.isTD] at hd
        | bool => simp [Ty.isTD] at hd
        | string => simp [Ty.isTD] at hd
        | datetime => simp [Ty.isTD] at hd
        | fn _ _ => simp [Ty.isTD] at hd
        | list _ => simp [Ty.isTD] at hd
      | tpar _ => simp [Ty.isTD] at hd
      | bool => simp [Ty.isTD] at hd
      | string => simp [Ty.isTD] at hd
      | datetime => simp [Ty.isTD] at hd
      | fn _ _ => simp [Ty.isTD] at hd
      | list _ => simp [Ty.isTD] at hd
  | isDType t =>
    cases t with
    | dim inner =>
      simp only [Constraint.trySatisfy] at h
      injection h with hs hn; subst hs; subst hn
      refine ⟨subst_wf_nil P, ?_⟩
      intro c' hc'
      simp at hc'
      obtain ⟨v, _, hv⟩ := hc'
      subst hv
      trivial
    | tvar _ => simp [Constraint.trySatisfy] at h
    | tpar _ => simp [Constraint.trySatisfy] at h
    | bool => simp [Constraint.trySatisfy] at h
    | string => simp [Constraint.trySatisfy] at h
    | datetime => simp [Constraint.trySatisfy] at h
    | fn _ _ => simp [Constraint.trySatisfy] at h
    | list _ => simp [Constraint.trySatisfy] at h
  | equalScalar d =>
    simp only [Constraint.trySatisfy] at h
    split at h
    · injection h with hs hn; subst hs; subst hn
      exact ⟨subst_wf_nil P, by simp⟩
    · split at h
      · rename_i tv k rest _
        simp only [gaussStep] at h
        split at h
        · simp at h
        · injection h with hs hn; subst hs; subst hn
          refine ⟨subst_wf_single ?_, by simp⟩
          have hrest : TParOK P rest := fun q hq => (hc : DWf P _).2 q (List.mem_cons_of_mem _ hq)
          exact canon_wf (TParOK_map hrest (fun e => -e / k))
      · simp at h

theorem findFirst_none {cs : List Constraint} {i : Nat} (h : findFirst cs i = .none) :
    ∀ c ∈ cs, c.trySatisfy = .none := by
  induction cs generalizing i with
  | nil => simp
  | cons c rest ih =>
    simp only [findFirst] at h
    split at h
    · simp at h
    · simp at h
    · rename_i hc
      intro x hx
      simp at hx
      cases hx with
      | inl hx => subst hx; exact hc
      | inr hx => exact ih h x hx

theorem findFirst_panic {cs : List Constraint} {i : Nat} (h : findFirst cs i = .panic) :
    ∃ c ∈ cs, c.trySatisfy = .panic := by
  induction cs generalizing i with
  | nil => simp [findFirst] at h
  | cons c rest ih =>
    simp only [findFirst] at h
    split at h
    · simp at h
    · rename_i hc; exact ⟨c, by simp, hc⟩
    · obtain ⟨x, hx, hp⟩ := ih h
      exact ⟨x, List.mem_cons_of_mem _ hx, hp⟩

/-- `try_satisfy` divides by the first exponent: it cannot be zero in a canonical list -/
theorem trySatisfy_no_panic {P : String → Prop} {c : Constraint} (hc : c.wf P) (hd : c.dimOnly = true) :
    c.trySatisfy ≠ .panic := by
  cases c with
  | equal t1 t2 =>
    simp only [Constraint.dimOnly, Bool.and_eq_true] at hd
    simp only [Constraint.trySatisfy, satEqual]
    split
    · simp
    · cases t1 <;> cases t2 <;> simp [Ty.isTD] at hd
      · simp only [satVar]; split <;> simp [satVarDim]
      · rename_i x d
        simp only [satVar]; split
        · simp
        · simp only [satVarDim]; split
          · split <;> simp
          · simp
      · rename_i d x
        simp only [satVar]; split
        · simp
        · simp only [satVarDim]; split
          · split <;> simp
          · simp
      · simp only [satDimLeft]
        split
        · simp
        · split <;> simp
  | isDType t => cases t <;> simp [Constraint.trySatisfy]
  | equalScalar d =>
    simp only [Constraint.trySatisfy]
    split
    · simp
    · split
      · rename_i tv k rest _
        simp only [gaussStep]
        have hk : k ≠ 0 := (hc : DWf P _).1.2 (.tvar tv, k) (by simp)
        simp [hk]
      · simp

/-- **No solvable system is rejected**: if some valuation that keeps the type parameters rigid satisfies
all constraints, the loop ends with `ok` (or runs out of fuel) — never with `couldNotSolve`, `substError`
or `panic`. -/
theorem solveLoop_complete (P : String → Prop) (fuel : Nat) : ∀ (cs : List Constraint) (σ : Subst),
    (∀ c ∈ cs, c.dimOnly = true) → (∀ c ∈ cs, c.wf P) → σ.dimOnly = true →
    ∀ θ : Val, Rigid θ P → HoldsAll θ cs → Ext θ σ →
    (∃ σf dv, solveLoop fuel cs σ = .ok σf dv) ∨ solveLoop fuel cs σ = .outOfFuel := by
  induction fuel with
  | zero => intro cs σ _ _ _ θ _ _ _; exact Or.inr rfl
  | succ fuel ih =>
    intro cs σ hcs hwf hσ θ hr hall hext
    rcases solveLoop_step (r := solveLoop (fuel + 1) cs σ) rfl with ⟨hnone, hr'⟩ | ⟨hpanic, _⟩ | ⟨j, s1, new, hf, hrest⟩
    · -- nothing can be satisfied: every remaining constraint must be `IsDType` of a variable
      left
      rw [hr']
      simp only [finish]
      have hempty : (cs.filter (fun c => c.dtypeVar.isNone)) = [] := by
        rw [List.filter_eq_nil_iff]
        intro c hc hv
        have hv' : c.dtypeVar = none := by simpa using hv
        obtain ⟨f, e, rest, hceq, hft⟩ := stuck_shape (hcs c hc) (findFirst_none hnone c hc) hv'
        subst hceq
        have hw : DWf P ((f, e) :: rest) := hwf _ hc
        exact stuck_unsat θ P hr hw.1 hw.2 hft (hall _ hc)
      simp [hempty]
    · obtain ⟨c, hc, hp⟩ := findFirst_panic hpanic
      exact absurd hp (trySatisfy_no_panic (hwf c hc) (hcs c hc))
    · obtain ⟨hs1, hdim, hiff⟩ := step_facts θ hcs hf
      obtain ⟨hall1, he1⟩ := hiff.mp hall
      obtain ⟨c, _, hget, hsat⟩ := findFirst_spec hf
      simp only [Nat.sub_zero] at hget
      have hcm : c ∈ cs := List.mem_of_getElem? hget
      obtain ⟨hs1wf, hnewwf⟩ := trySatisfy_wf (hwf c hcm) (hcs c hcm) hsat
      obtain ⟨cs'', hcs'', hcs'd, hciff⟩ := applyAll_ok θ he1 hs1 _ hdim
      obtain ⟨σ'', hσ'', hσ'd, _⟩ := extend_ok θ he1 hs1 σ hσ
      have hwf0 : ∀ x ∈ cs.eraseIdx j ++ new, x.wf P := by
        intro x hx
        rw [List.mem_append] at hx
        cases hx with
        | inl hx => exact hwf x (List.mem_of_mem_eraseIdx hx)
        | inr hx => exact hnewwf x hx
      have hwf' := applyAll_wf hs1wf hwf0 hdim hcs''
      rcases hrest with ⟨t, ht, _⟩ | ⟨cs', hcs', hrest⟩
      · rw [hcs''] at ht; simp at ht
      · rw [hcs''] at hcs'; injection hcs' with hcs'; subst hcs'
        rcases hrest with ⟨_, hnone, _⟩ | ⟨σ', hσ', hr'⟩
        · rw [hσ''] at hnone; simp at hnone
        · rw [hσ''] at hσ'; injection hσ' with hσ'; subst hσ'
          rw [hr']
          exact ih cs'' σ'' hcs'd hwf' hσ'd θ hr (hciff.mpr hall1) (extend_ext_of θ he1 hs1 hσ hσ'' hext)

end NumbatModel.Types
