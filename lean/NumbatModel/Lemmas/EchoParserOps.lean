import NumbatModel.Lemmas.EchoParserToks
/-! Helper lemmas for C15: `with_parens` / operand forms parse to the canonical tree (given the induction
hypothesis `PP`), facts about `canonC`, and the statement `Main` of the main induction. -/
namespace NumbatModel.Printer

/-- the statement `P` of the main induction -/
def PP (e : Expr) : Prop :=
  ∀ k R, k ≤ lvl e → NoCont k R → Parses (.level k) (toks e ++ R) (some (canon e, R))

theorem climb' {j k : Nat} {ts R : List PTok} {x : Expr} (hkj : k ≤ j) (hj : j ≤ 13)
    (h : Parses (.level j) ts (some (x, R))) (hp : ∀ i, k ≤ i → i < j → prefixOk i ts) (hc : NoCont k R) :
    Parses (.level k) ts (some (x, R)) := by
  obtain ⟨d, hd⟩ : ∃ d, j = k + d := ⟨j - k, by omega⟩
  subst hd
  exact climb hj h hp hc

theorem contLevel_rp : contLevel (.sym .rp) = none := rfl

theorem lvl_atomic {e : Expr} (hF : Frag e = true) (ha : e.isAtomic = true) : lvl e = 13 := by
  cases e <;> simp_all [Frag, Expr.isAtomic, lvl]

/-- `with_parens e` parses, at every level, to the tree of `e` -/
theorem wp_parse {e : Expr} (hF : Frag e = true) (hP : PP e) :
    ∀ k R, k ≤ 13 → NoCont k R → Parses (.level k) (wpT e ++ R) (some (canon e, R)) := by
  intro k R hk hc
  cases ha : e.isAtomic with
  | true =>
    rw [wpT_atomic ha]
    exact hP k R (by rw [lvl_atomic hF ha]; exact hk) hc
  | false =>
    rw [wpT_compound ha]
    have h0 := hP 0 (.sym .rp :: R) (Nat.zero_le _) (NoCont.of_none contLevel_rp)
    have h13 : Parses (.level 13) (.sym .lp :: (toks e ++ .sym .rp :: R)) (some (canon e, R)) :=
      Parses.level13_paren h0
    have e1 : PTok.sym Sym.lp :: (toks e ++ [PTok.sym Sym.rp]) ++ R = .sym .lp :: (toks e ++ .sym .rp :: R) := by simp
    rw [e1]
    refine climb' hk (Nat.le_refl _) h13 (fun i _ _ => ?_) hc
    simp [prefixOk]

theorem canon_mul_fused_unit (b : Nat) (t p n : List Char) :
    canon (.bin .mul (.num b t) (.unit p n)) = .bin .mul (.num b t) (.unit [] (p ++ n)) := by
  simp [canon, canonC, Canon.single]

/-- `with_parens_liberal e` parses, at every level up to `ifactor`, to the tree of `e` -/
theorem wpl_parse {e : Expr} (hF : Frag e = true) (hP : PP e) :
    ∀ k R, k ≤ 9 → NoCont k R → Parses (.level k) (wplT e ++ R) (some (canon e, R)) := by
  intro k R hk hc
  rw [wplT_eq]
  split
  · exact hP k R (by simp [lvl, isFused]; omega) hc
  · exact wp_parse hF hP k R (by omega) hc

/-! ## facts about `canonC` -/

theorem foldBin_append (op : BinOp) (acc : Expr) (a b : List Expr) :
    foldBin op acc (a ++ b) = foldBin op (foldBin op acc a) b := by
  induction a generalizing acc with
  | nil => rfl
  | cons x xs ih => simp [foldBin, ih]

/-- a product that is not printed in the fused form -/
def isGenMul : Expr → Bool
  | .bin .mul l r => !isFused l r
  | _ => false

def Expr.isBinConv : Expr → Bool
  | .bin .conv _ _ => true
  | _ => false

theorem canonC_add (l r : Expr) :
    canonC (.bin .add l r) =
      ⟨foldBin .add (canonC l).e (canonC r).addR, (canonC l).addR ++ (canonC r).addR,
        [foldBin .add (canonC l).e (canonC r).addR], [foldBin .add (canonC l).e (canonC r).addR]⟩ := by
  simp [canonC]

theorem canonC_conv (l r : Expr) :
    canonC (.bin .conv l r) =
      ⟨foldBin .conv (canonC l).e (canonC r).convR, [foldBin .conv (canonC l).e (canonC r).convR],
        [foldBin .conv (canonC l).e (canonC r).convR], (canonC l).convR ++ (canonC r).convR⟩ := by
  simp [canonC]

theorem canonC_mul_general {l r : Expr} (h : isFused l r = false) :
    canonC (.bin .mul l r) =
      ⟨foldBin .mul (canonC l).e (canonC r).mulR, [foldBin .mul (canonC l).e (canonC r).mulR],
        (canonC l).mulR ++ (canonC r).mulR, [foldBin .mul (canonC l).e (canonC r).mulR]⟩ := by
  conv => lhs; unfold canonC
  split
  · simp [isFused] at h
  · simp [isFused] at h
  · rfl

theorem canonC_mul_fused {l r : Expr} (h : isFused l r = true) :
    canonC (.bin .mul l r) = .single (.bin .mul (canonC l).e (canonC r).e) := by
  rcases isFused_cases h with ⟨b, t, p, n, rfl, rfl⟩ | ⟨b, t, s, rfl, rfl⟩ <;> simp [canonC, Canon.single]

theorem addR_single {e : Expr} (h : e.isBinAdd = false) : (canonC e).addR = [canon e] := by
  cases e with
  | bin o l r =>
    cases o with
    | add => simp [Expr.isBinAdd] at h
    | mul =>
      cases hf : isFused l r with
      | true => rw [canon, canonC_mul_fused hf]; rfl
      | false => rw [canon, canonC_mul_general hf]
    | conv => rw [canon, canonC_conv]
    | pow => cases r <;> simp [canon, canonC, Canon.single]
    | _ => simp [canon, canonC, Canon.single]
  | _ => simp [canon, canonC, Canon.single]

theorem mulR_single {e : Expr} (h : isGenMul e = false) : (canonC e).mulR = [canon e] := by
  cases e with
  | bin o l r =>
    cases o with
    | add => rw [canon, canonC_add]
    | mul =>
      cases hf : isFused l r with
      | true => rw [canon, canonC_mul_fused hf]; rfl
      | false => simp [isGenMul, hf] at h
    | conv => rw [canon, canonC_conv]
    | pow => cases r <;> simp [canon, canonC, Canon.single]
    | _ => simp [canon, canonC, Canon.single]
  | _ => simp [canon, canonC, Canon.single]

theorem convR_single {e : Expr} (h : e.isBinConv = false) : (canonC e).convR = [canon e] := by
  cases e with
  | bin o l r =>
    cases o with
    | add => rw [canon, canonC_add]
    | mul =>
      cases hf : isFused l r with
      | true => rw [canon, canonC_mul_fused hf]; rfl
      | false => rw [canon, canonC_mul_general hf]
    | conv => simp [Expr.isBinConv] at h
    | pow => cases r <;> simp [canon, canonC, Canon.single]
    | _ => simp [canon, canonC, Canon.single]
  | _ => simp [canon, canonC, Canon.single]


/-! ## operands -/

theorem lvl_fused {l r : Expr} (h : isFused l r = true) : lvl (.bin .mul l r) = 9 := by simp [lvl, h]

theorem isGenMul_false_lvl {e : Expr} (hr : (e.isBinPow || e.isBinMul) = true) (hg : isGenMul e = false) : 9 ≤ lvl e := by
  cases e with
  | bin o a b =>
    cases o <;> simp [Expr.isBinPow, Expr.isBinMul] at hr
    · simp [isGenMul] at hg; rw [lvl_fused hg]; omega
    · have := lvl_pow_ge a b; omega
  | _ => simp [Expr.isBinPow, Expr.isBinMul] at hr

theorem isBinPow_lvl {e : Expr} (hr : e.isBinPow = true) : 10 ≤ lvl e := by
  cases e with
  | bin o a b => cases o <;> simp [Expr.isBinPow] at hr; exact lvl_pow_ge a b
  | _ => simp [Expr.isBinPow] at hr

/-- an operand of `+` that is not itself a sum is read by `factor` -/
theorem addOp_parse7 {e : Expr} (hF : Frag e = true) (hP : PP e) (hna : e.isBinAdd = false)
    {R : List PTok} (hc : NoCont 7 R) : Parses (.level 7) (addOpT e ++ R) (some (canon e, R)) := by
  unfold addOpT
  cases hr : (e.isBinPow || e.isBinMul) with
  | true => simpa [hr, toks] using hP 7 R (raw_lvl7 hr) hc
  | false => simpa [hr, hna, wplT] using wpl_parse hF hP 7 R (by omega) hc

/-- an operand of `×`, `-` or the left operand of `/` is read by `factor` -/
theorem mulOp_parse7 {e : Expr} (hF : Frag e = true) (hP : PP e)
    {R : List PTok} (hc : NoCont 7 R) : Parses (.level 7) (mulOpT e ++ R) (some (canon e, R)) := by
  unfold mulOpT
  cases hr : (e.isBinPow || e.isBinMul) with
  | true => simpa [hr, toks] using hP 7 R (raw_lvl7 hr) hc
  | false => simpa [hr, wplT] using wpl_parse hF hP 7 R (by omega) hc

/-- an operand of `×` that is not itself an unfused product is read by `unary` -/
theorem mulOp_parse8 {e : Expr} (hF : Frag e = true) (hP : PP e) (hg : isGenMul e = false)
    {R : List PTok} (hc : NoCont 8 R) : Parses (.level 8) (mulOpT e ++ R) (some (canon e, R)) := by
  unfold mulOpT
  cases hr : (e.isBinPow || e.isBinMul) with
  | true => simpa [hr, toks] using hP 8 R (by have := isGenMul_false_lvl hr hg; omega) hc
  | false => simpa [hr, wplT] using wpl_parse hF hP 8 R (by omega) hc

/-- the right operand of `/` is read by `unary` -/
theorem divROp_parse8 {e : Expr} (hF : Frag e = true) (hP : PP e)
    {R : List PTok} (hc : NoCont 8 R) : Parses (.level 8) (divROpT e ++ R) (some (canon e, R)) := by
  unfold divROpT
  cases hr : e.isBinPow with
  | true => simpa [hr, toks] using hP 8 R (by have := isBinPow_lvl hr; omega) hc
  | false => simpa [hr, wplT] using wpl_parse hF hP 8 R (by omega) hc

/-! ## the statements of the main induction -/

structure Main (e : Expr) : Prop where
  P : PP e
  A : ∀ acc R res, NoCont 7 R → Parses (.loop 6 (foldBin .add acc (canonC e).addR)) R res →
    Parses (.loop 6 acc) (.sym (.bop .add) :: (addOpT e ++ R)) res
  M : ∀ acc R res, NoCont 8 R → Parses (.loop 7 (foldBin .mul acc (canonC e).mulR)) R res →
    Parses (.loop 7 acc) (.sym (.bop .mul) :: (mulOpT e ++ R)) res
  C : e.isCond = false → ∀ acc R res, NoCont 2 R → Parses (.loop 1 (foldBin .conv acc (canonC e).convR)) R res →
    Parses (.loop 1 acc) (.sym (.bop .conv) :: (toks e ++ R)) res
  OA : ∀ R res, NoCont 7 R → Parses (.loop 6 (canon e)) R res → Parses (.level 6) (addOpT e ++ R) res
  OM : ∀ R res, NoCont 8 R → Parses (.loop 7 (canon e)) R res → Parses (.level 7) (mulOpT e ++ R) res
  OC : e.isCond = false → ∀ R res, NoCont 2 R → Parses (.loop 1 (canon e)) R res →
    Parses (.level 1) (toks e ++ R) res

theorem A_single {e : Expr} (hF : Frag e = true) (hP : PP e) (hna : e.isBinAdd = false) :
    ∀ acc R res, NoCont 7 R → Parses (.loop 6 (foldBin .add acc (canonC e).addR)) R res →
    Parses (.loop 6 acc) (.sym (.bop .add) :: (addOpT e ++ R)) res := by
  intro acc R res hc h
  rw [addR_single hna] at h
  exact Parses.loop_step (k := 6) rfl (addOp_parse7 hF hP hna hc) h

theorem OA_single {e : Expr} (hF : Frag e = true) (hP : PP e) (hna : e.isBinAdd = false) :
    ∀ R res, NoCont 7 R → Parses (.loop 6 (canon e)) R res → Parses (.level 6) (addOpT e ++ R) res := by
  intro R res hc h
  exact Parses.loop_level (k := 6) rfl (addOp_parse7 hF hP hna hc) h

theorem M_single {e : Expr} (hF : Frag e = true) (hP : PP e) (hg : isGenMul e = false) :
    ∀ acc R res, NoCont 8 R → Parses (.loop 7 (foldBin .mul acc (canonC e).mulR)) R res →
    Parses (.loop 7 acc) (.sym (.bop .mul) :: (mulOpT e ++ R)) res := by
  intro acc R res hc h
  rw [mulR_single hg] at h
  exact Parses.loop_step (k := 7) rfl (mulOp_parse8 hF hP hg hc) h

theorem OM_single {e : Expr} (hF : Frag e = true) (hP : PP e) (hg : isGenMul e = false) :
    ∀ R res, NoCont 8 R → Parses (.loop 7 (canon e)) R res → Parses (.level 7) (mulOpT e ++ R) res := by
  intro R res hc h
  exact Parses.loop_level (k := 7) rfl (mulOp_parse8 hF hP hg hc) h

theorem two_le_lvl {e : Expr} (h1 : e.isCond = false) (h2 : e.isBinConv = false) : 2 ≤ lvl e := by
  cases e with
  | cond c t e => simp [Expr.isCond] at h1
  | bin o l r =>
    cases o
    case conv => simp [Expr.isBinConv] at h2
    case pow => have := lvl_pow_ge l r; omega
    case mul => have := lvl_mul_ge l r; omega
    all_goals simp [lvl]
  | _ => simp [lvl]

theorem C_single {e : Expr} (hP : PP e) (hnc : e.isBinConv = false) :
    e.isCond = false → ∀ acc R res, NoCont 2 R → Parses (.loop 1 (foldBin .conv acc (canonC e).convR)) R res →
    Parses (.loop 1 acc) (.sym (.bop .conv) :: (toks e ++ R)) res := by
  intro hcond acc R res hc h
  rw [convR_single hnc] at h
  exact Parses.loop_step (k := 1) rfl (hP 2 R (two_le_lvl hcond hnc) hc) h

theorem OC_single {e : Expr} (hP : PP e) (hnc : e.isBinConv = false) :
    e.isCond = false → ∀ R res, NoCont 2 R → Parses (.loop 1 (canon e)) R res →
    Parses (.level 1) (toks e ++ R) res := by
  intro hcond R res hc h
  exact Parses.loop_level (k := 1) rfl (hP 2 R (two_le_lvl hcond hnc) hc) h

/-- everything except `P` for a tree that is no sum, no unfused product and no conversion -/
theorem Main.of_P {e : Expr} (hF : Frag e = true) (hP : PP e) (hna : e.isBinAdd = false)
    (hg : isGenMul e = false) (hnc : e.isBinConv = false) : Main e :=
  ⟨hP, A_single hF hP hna, M_single hF hP hg, C_single hP hnc, OA_single hF hP hna, OM_single hF hP hg,
    OC_single hP hnc⟩

end NumbatModel.Printer
