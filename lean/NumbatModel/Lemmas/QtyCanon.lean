import NumbatModel.Lemmas.QtyDim
set_option linter.unusedSectionVars false
/-!
Canonical form of base-unit representations: two lists of base factors with the same exponent vector have
the same `canonBase`, hence conversions between units of equal dimension vector succeed (`ConvComplete`).
-/
namespace NumbatModel.Qty
open NumOps

variable {α : Type} [NumOps α]

/-- distinct rows of the table have distinct names -/
def NamesDistinct (tbl : Table α) : Prop :=
  ∀ (i j : Nat) (di dj : UnitDef α), tbl[i]? = some di → tbl[j]? = some dj → di.name = dj.name → i = j

/-- a list of base factors: no prefixes, valid ids -/
def ValidBase (tbl : Table α) (l : Unit) : Prop :=
  ∀ f ∈ l, f.prefix_ = Prefix.none ∧ f.unit < tbl.length

def nameOf (tbl : Table α) (f : Factor) : String := unitName tbl f.unit

theorem nameOf_inj (tbl : Table α) (hn : NamesDistinct tbl) (f g : Factor)
    (hf : f.unit < tbl.length) (hg : g.unit < tbl.length) (h : nameOf tbl f = nameOf tbl g) : f.unit = g.unit := by
  unfold nameOf unitName at h
  have h1 : tbl[f.unit]? = some tbl[f.unit] := List.getElem?_eq_getElem hf
  have h2 : tbl[g.unit]? = some tbl[g.unit] := List.getElem?_eq_getElem hg
  rw [h1, h2] at h
  simp at h
  exact hn _ _ _ _ h1 h2 h

/-! ### vectors are preserved by the three canonicalization steps -/

theorem vecOfBase_insertBy (le : Factor → Factor → Bool) (x : Factor) (l : Unit) (b : Nat) :
    vecOfBase (insertBy le x l) b = (if x.unit = b then x.exp else 0) + vecOfBase l b := by
  induction l with
  | nil => simp [insertBy, vecOfBase]
  | cons y ys ih =>
    simp only [insertBy]
    split
    · simp [vecOfBase]
    · simp only [vecOfBase, ih]; grind

theorem vecOfBase_sortBy (le : Factor → Factor → Bool) (l : Unit) (b : Nat) :
    vecOfBase (sortBy le l) b = vecOfBase l b := by
  induction l with
  | nil => rfl
  | cons x xs ih => simp only [sortBy, vecOfBase_insertBy, vecOfBase, ih]

theorem vecOfBase_mergeAdjacent (l : Unit) (b : Nat) : vecOfBase (mergeAdjacent l) b = vecOfBase l b := by
  induction l with
  | nil => rfl
  | cons f rest ih =>
    simp only [mergeAdjacent]
    cases hm : mergeAdjacent rest with
    | nil => rw [hm] at ih; simp only [vecOfBase] at ih ⊢; rw [← ih]
    | cons g gs =>
      rw [hm] at ih
      simp only
      split
      · rename_i hc
        simp only [vecOfBase] at ih ⊢
        rw [← ih, hc.1]
        split <;> grind
      · simp only [vecOfBase] at ih ⊢; rw [← ih]

theorem vecOfBase_dropTrivial (l : Unit) (b : Nat) : vecOfBase (dropTrivial l) b = vecOfBase l b := by
  induction l with
  | nil => rfl
  | cons f rest ih =>
    simp only [dropTrivial, List.filter_cons] at ih ⊢
    split
    · simp only [vecOfBase, ih]
    · rename_i hc
      have hz : f.exp = 0 := by simpa using hc
      simp only [vecOfBase, ih, hz]; split <;> grind

theorem vecOfBase_canonBase (tbl : Table α) (l : Unit) (b : Nat) : vecOfBase (canonBase tbl l) b = vecOfBase l b := by
  unfold canonBase
  rw [vecOfBase_dropTrivial, vecOfBase_mergeAdjacent, vecOfBase_sortBy]


/-! ### sortedness -/

/-- names are non-decreasing -/
def SortedN (tbl : Table α) (l : Unit) : Prop := l.Pairwise (fun a b => ¬ nameOf tbl b < nameOf tbl a)

/-- names are strictly increasing -/
def StrictN (tbl : Table α) (l : Unit) : Prop := l.Pairwise (fun a b => nameOf tbl a < nameOf tbl b)

def leBase (tbl : Table α) (a b : Factor) : Bool := cmpBaseFactor tbl a b != .gt

theorem leBase_true (tbl : Table α) (a b : Factor) (h : leBase tbl a b = true) : ¬ nameOf tbl b < nameOf tbl a := by
  intro hlt
  unfold leBase cmpBaseFactor cmpKey at h
  have hna : ¬ nameOf tbl a < nameOf tbl b := String.lt_asymm hlt
  unfold nameOf at *
  simp [hna, hlt] at h

theorem leBase_false (tbl : Table α) (a b : Factor) (h : leBase tbl a b = false) : ¬ nameOf tbl a < nameOf tbl b := by
  intro hlt
  unfold leBase cmpBaseFactor cmpKey at h
  unfold nameOf at *
  simp [hlt] at h

theorem mem_insertBy {β : Type} (le : β → β → Bool) (x : β) (l : List β) (y : β) :
    y ∈ insertBy le x l ↔ y = x ∨ y ∈ l := by
  induction l with
  | nil => simp [insertBy]
  | cons z zs ih =>
    simp only [insertBy]
    split
    · simp
    · simp only [List.mem_cons, ih]
      constructor
      · rintro (h | h | h)
        · exact Or.inr (Or.inl h)
        · exact Or.inl h
        · exact Or.inr (Or.inr h)
      · rintro (h | h | h)
        · exact Or.inr (Or.inl h)
        · exact Or.inl h
        · exact Or.inr (Or.inr h)

theorem mem_sortBy {β : Type} (le : β → β → Bool) (l : List β) (y : β) : y ∈ sortBy le l ↔ y ∈ l := by
  induction l with
  | nil => simp [sortBy]
  | cons x xs ih => simp only [sortBy, mem_insertBy, ih, List.mem_cons]

theorem sortedN_insertBy (tbl : Table α) (x : Factor) (l : Unit) (h : SortedN tbl l) :
    SortedN tbl (insertBy (leBase tbl) x l) := by
  induction l with
  | nil => simp [insertBy, SortedN]
  | cons y ys ih =>
    simp only [insertBy]
    unfold SortedN at h ih ⊢
    rw [List.pairwise_cons] at h
    split
    · rename_i hle
      rw [List.pairwise_cons]
      refine ⟨?_, List.pairwise_cons.mpr h⟩
      intro z hz
      rcases List.mem_cons.mp hz with rfl | hz
      · exact leBase_true tbl x z hle
      · -- name x ≤ name y ≤ name z
        have h1 := leBase_true tbl x y hle
        have h2 := h.1 z hz
        exact String.not_lt.mpr (String.le_trans (String.not_lt.mp h1) (String.not_lt.mp h2))
    · rename_i hle
      have hle' : leBase tbl x y = false := by simpa using hle
      rw [List.pairwise_cons]
      refine ⟨?_, ih h.2⟩
      intro z hz
      rcases (mem_insertBy _ _ _ _).mp hz with rfl | hz
      · exact leBase_false tbl z y hle'
      · exact h.1 z hz


theorem sortedN_sortBy (tbl : Table α) (l : Unit) : SortedN tbl (sortBy (leBase tbl) l) := by
  induction l with
  | nil => simp [sortBy, SortedN]
  | cons x xs ih => exact sortedN_insertBy tbl x _ ih

theorem validBase_sortBy (tbl : Table α) (l : Unit) (h : ValidBase tbl l) : ValidBase tbl (sortBy (leBase tbl) l) := by
  intro f hf; exact h f ((mem_sortBy _ _ _).mp hf)

/-- every element of `mergeAdjacent l` has the unit and prefix of some element of `l` -/
theorem mergeAdjacent_units (l : Unit) : ∀ g ∈ mergeAdjacent l, ∃ g' ∈ l, g'.unit = g.unit ∧ g'.prefix_ = g.prefix_ := by
  induction l with
  | nil => intro g hg; simp [mergeAdjacent] at hg
  | cons f rest ih =>
    intro g hg
    simp only [mergeAdjacent] at hg
    cases hm : mergeAdjacent rest with
    | nil =>
      rw [hm] at hg
      simp at hg; subst hg
      exact ⟨g, List.mem_cons_self, rfl, rfl⟩
    | cons h hs =>
      rw [hm] at hg ih
      simp only at hg
      split at hg
      · rcases List.mem_cons.mp hg with rfl | hg
        · exact ⟨f, List.mem_cons_self, rfl, rfl⟩
        · obtain ⟨g', hg', h1⟩ := ih g (List.mem_cons_of_mem _ hg)
          exact ⟨g', List.mem_cons_of_mem _ hg', h1⟩
      · rcases List.mem_cons.mp hg with rfl | hg
        · exact ⟨g, List.mem_cons_self, rfl, rfl⟩
        · obtain ⟨g', hg', h1⟩ := ih g hg
          exact ⟨g', List.mem_cons_of_mem _ hg', h1⟩

theorem validBase_mergeAdjacent (tbl : Table α) (l : Unit) (h : ValidBase tbl l) : ValidBase tbl (mergeAdjacent l) := by
  intro g hg
  obtain ⟨g', hg', hu, hp⟩ := mergeAdjacent_units l g hg
  have := h g' hg'
  rw [← hu, ← hp]; exact this

theorem strictN_mergeAdjacent (tbl : Table α) (hn : NamesDistinct tbl) (l : Unit) (hv : ValidBase tbl l)
    (hs : SortedN tbl l) : StrictN tbl (mergeAdjacent l) := by
  induction l with
  | nil => simp [mergeAdjacent, StrictN]
  | cons f rest ih =>
    have hvr : ValidBase tbl rest := fun g hg => hv g (List.mem_cons_of_mem _ hg)
    unfold SortedN at hs
    rw [List.pairwise_cons] at hs
    have ihr := ih hvr hs.2
    simp only [mergeAdjacent]
    cases hm : mergeAdjacent rest with
    | nil => simp [StrictN]
    | cons g gs =>
      rw [hm] at ihr
      unfold StrictN at ihr ⊢
      rw [List.pairwise_cons] at ihr
      simp only
      -- g comes from rest, so name f ≤ name g
      obtain ⟨g', hg', hgu, _⟩ := mergeAdjacent_units rest g (by rw [hm]; exact List.mem_cons_self)
      have hfg : ¬ nameOf tbl g < nameOf tbl f := by
        have := hs.1 g' hg'
        unfold nameOf at *; rw [← hgu]; exact this
      split
      · rename_i hc
        rw [List.pairwise_cons]
        refine ⟨?_, ihr.2⟩
        intro z hz
        have := ihr.1 z hz
        unfold nameOf at *; simp only; rw [hc.1]; exact this
      · rename_i hc
        have hfv := hv f List.mem_cons_self
        have hgv : g.prefix_ = Prefix.none ∧ g.unit < tbl.length := by
          have := hvr g' hg'
          obtain ⟨g'', hg'', hu2, hp2⟩ := mergeAdjacent_units rest g (by rw [hm]; exact List.mem_cons_self)
          have := hvr g'' hg''
          rw [← hu2, ← hp2]; exact this
        have hne : f.unit ≠ g.unit := by
          intro he; exact hc ⟨he, by rw [hfv.1, hgv.1]⟩
        have hlt : nameOf tbl f < nameOf tbl g := by
          rcases String.le_total (nameOf tbl f) (nameOf tbl g) with h' | h'
          · by_cases heq : nameOf tbl f = nameOf tbl g
            · exact absurd (nameOf_inj tbl hn f g hfv.2 hgv.2 heq) hne
            · exact String.not_le.mp (fun hge => heq (String.le_antisymm h' hge))
          · exact absurd (String.le_antisymm (String.not_lt.mp hfg) h') (by
              intro heq; exact hne (nameOf_inj tbl hn f g hfv.2 hgv.2 heq))
        rw [List.pairwise_cons]
        refine ⟨?_, List.pairwise_cons.mpr ihr⟩
        intro z hz
        rcases List.mem_cons.mp hz with rfl | hz
        · exact hlt
        · exact String.lt_trans hlt (ihr.1 z hz)

theorem strictN_dropTrivial (tbl : Table α) (l : Unit) (h : StrictN tbl l) : StrictN tbl (dropTrivial l) := by
  unfold StrictN dropTrivial at *
  exact List.Pairwise.filter _ h

theorem validBase_dropTrivial (tbl : Table α) (l : Unit) (h : ValidBase tbl l) : ValidBase tbl (dropTrivial l) := by
  intro f hf
  unfold dropTrivial at hf
  exact h f (List.mem_filter.mp hf).1

theorem nonzero_dropTrivial (l : Unit) : ∀ f ∈ dropTrivial l, f.exp ≠ 0 := by
  intro f hf
  unfold dropTrivial at hf
  have := (List.mem_filter.mp hf).2
  simpa using this

/-- the canonical form: strictly sorted by name, valid, no zero exponents -/
structure Canonical (tbl : Table α) (l : Unit) : Prop where
  strict : StrictN tbl l
  valid : ValidBase tbl l
  nonzero : ∀ f ∈ l, f.exp ≠ 0

theorem canonical_canonBase (tbl : Table α) (hn : NamesDistinct tbl) (l : Unit) (hv : ValidBase tbl l) :
    Canonical tbl (canonBase tbl l) := by
  unfold canonBase
  have h1 := validBase_sortBy tbl l hv
  have h2 := sortedN_sortBy tbl l
  have h3 := strictN_mergeAdjacent tbl hn _ h1 h2
  have h4 := validBase_mergeAdjacent tbl _ h1
  exact ⟨strictN_dropTrivial tbl _ h3, validBase_dropTrivial tbl _ h4, nonzero_dropTrivial _⟩


theorem vec_zero_of_not_mem (l : Unit) (b : Nat) (h : ∀ g ∈ l, g.unit ≠ b) : vecOfBase l b = 0 := by
  induction l with
  | nil => rfl
  | cons g t ih =>
    simp only [vecOfBase]
    have hg := h g List.mem_cons_self
    rw [ih (fun x hx => h x (List.mem_cons_of_mem _ hx))]
    simp only [hg, if_false]; grind

theorem canonical_tail (tbl : Table α) (f : Factor) (t : Unit) (h : Canonical tbl (f :: t)) : Canonical tbl t :=
  ⟨(List.pairwise_cons.mp h.strict).2, fun g hg => h.valid g (List.mem_cons_of_mem _ hg),
    fun g hg => h.nonzero g (List.mem_cons_of_mem _ hg)⟩

theorem canonical_head_vec (tbl : Table α) (f : Factor) (t : Unit) (h : Canonical tbl (f :: t)) :
    vecOfBase (f :: t) f.unit = f.exp := by
  simp only [vecOfBase, if_true]
  have : vecOfBase t f.unit = 0 := by
    apply vec_zero_of_not_mem
    intro g hg he
    have hlt := (List.pairwise_cons.mp h.strict).1 g hg
    unfold nameOf at hlt
    rw [he] at hlt
    exact String.lt_irrefl _ hlt
  rw [this]; grind

/-- a unit whose name is smaller than the head of a strictly sorted list does not occur in it -/
theorem vec_zero_of_name_lt (tbl : Table α) (l : Unit) (g : Factor) (f : Factor)
    (h : StrictN tbl (g :: l)) (hlt : nameOf tbl f < nameOf tbl g) : vecOfBase (g :: l) f.unit = 0 := by
  apply vec_zero_of_not_mem
  intro x hx he
  have hx' : nameOf tbl g = nameOf tbl x ∨ nameOf tbl g < nameOf tbl x := by
    rcases List.mem_cons.mp hx with rfl | hx
    · exact Or.inl rfl
    · exact Or.inr ((List.pairwise_cons.mp h).1 x hx)
  have hfx : nameOf tbl x = nameOf tbl f := by unfold nameOf; rw [he]
  rcases hx' with h1 | h1
  · rw [h1, hfx] at hlt; exact String.lt_irrefl _ hlt
  · rw [hfx] at h1; exact String.lt_asymm hlt h1

/-- canonical forms are unique: equal exponent vectors give equal lists -/
theorem canonical_unique (tbl : Table α) (hn : NamesDistinct tbl) :
    ∀ (l₁ l₂ : Unit), Canonical tbl l₁ → Canonical tbl l₂ → (∀ b, vecOfBase l₁ b = vecOfBase l₂ b) → l₁ = l₂ := by
  intro l₁
  induction l₁ with
  | nil =>
    intro l₂ _ h2 hv
    cases l₂ with
    | nil => rfl
    | cons g t =>
      exfalso
      have := canonical_head_vec tbl g t h2
      rw [← hv g.unit] at this
      exact h2.nonzero g List.mem_cons_self (by simpa [vecOfBase] using this.symm)
  | cons f t₁ ih =>
    intro l₂ h1 h2 hv
    cases l₂ with
    | nil =>
      exfalso
      have := canonical_head_vec tbl f t₁ h1
      rw [hv f.unit] at this
      exact h1.nonzero f List.mem_cons_self (by simpa [vecOfBase] using this.symm)
    | cons g t₂ =>
      have hf := canonical_head_vec tbl f t₁ h1
      have hg := canonical_head_vec tbl g t₂ h2
      have hfv := h1.valid f List.mem_cons_self
      have hgv := h2.valid g List.mem_cons_self
      -- names of the heads coincide
      have hname : nameOf tbl f = nameOf tbl g := by
        rcases String.le_total (nameOf tbl f) (nameOf tbl g) with h' | h'
        · by_cases heq : nameOf tbl f = nameOf tbl g
          · exact heq
          · exfalso
            have hlt : nameOf tbl f < nameOf tbl g := String.not_le.mp (fun hge => heq (String.le_antisymm h' hge))
            have hz := vec_zero_of_name_lt tbl t₂ g f h2.strict hlt
            rw [← hv f.unit, hf] at hz
            exact h1.nonzero f List.mem_cons_self hz
        · by_cases heq : nameOf tbl f = nameOf tbl g
          · exact heq
          · exfalso
            have hlt : nameOf tbl g < nameOf tbl f := String.not_le.mp (fun hge => heq (String.le_antisymm hge h'))
            have hz := vec_zero_of_name_lt tbl t₁ f g h1.strict hlt
            rw [hv g.unit, hg] at hz
            exact h2.nonzero g List.mem_cons_self hz
      have hunit : f.unit = g.unit := nameOf_inj tbl hn f g hfv.2 hgv.2 hname
      have hexp : f.exp = g.exp := by
        rw [← hf, hv f.unit, hunit, hg]
      have hfg : f = g := by
        cases f; cases g
        simp only at hunit hexp hfv hgv
        simp [hunit, hexp, hfv.1, hgv.1]
      subst hfg
      congr 1
      apply ih t₂ (canonical_tail tbl f t₁ h1) (canonical_tail tbl f t₂ h2)
      intro b
      have := hv b
      simp only [vecOfBase] at this
      grind

/-- equal exponent vectors ⇒ equal canonical base representation -/
theorem canonBase_eq_of_vec (tbl : Table α) (hn : NamesDistinct tbl) (l₁ l₂ : Unit)
    (h1 : ValidBase tbl l₁) (h2 : ValidBase tbl l₂) (hv : ∀ b, vecOfBase l₁ b = vecOfBase l₂ b) :
    canonBase tbl l₁ = canonBase tbl l₂ := by
  apply canonical_unique tbl hn _ _ (canonical_canonBase tbl hn l₁ h1) (canonical_canonBase tbl hn l₂ h2)
  intro b
  rw [vecOfBase_canonBase, vecOfBase_canonBase, hv b]


/-! ### base representations of arbitrary units -/

theorem validBase_append (tbl : Table α) (l m : Unit) (h1 : ValidBase tbl l) (h2 : ValidBase tbl m) :
    ValidBase tbl (l ++ m) := by
  intro f hf
  rcases List.mem_append.mp hf with h | h
  · exact h1 f h
  · exact h2 f h

theorem validBase_power (tbl : Table α) (l : Unit) (e : Rat) (h : ValidBase tbl l) : ValidBase tbl (Unit.power l e) := by
  intro f hf
  unfold Unit.power at hf
  obtain ⟨g, hg, rfl⟩ := List.mem_map.mp hf
  exact h g hg

theorem validBase_foldl_mul (tbl : Table α) (parts : List Unit) (acc : Unit) (ha : ValidBase tbl acc)
    (hp : ∀ p ∈ parts, ValidBase tbl p) : ValidBase tbl (parts.foldl Unit.mul acc) := by
  induction parts generalizing acc with
  | nil => exact ha
  | cons p ps ih =>
    simp only [List.foldl_cons]
    apply ih
    · exact validBase_append tbl _ _ ha (hp p List.mem_cons_self)
    · intro q hq; exact hp q (List.mem_cons_of_mem _ hq)

theorem validBase_baseUnit (tbl : Table α) : ∀ (fuel id : Nat), ValidBase tbl (baseUnitAndFactor tbl fuel id).1 := by
  intro fuel
  induction fuel with
  | zero => intro id f hf; simp [baseUnitAndFactor] at hf
  | succ n ih =>
    intro id
    simp only [baseUnitAndFactor]
    cases hd : tbl[id]? with
    | none => intro f hf; simp at hf
    | some d =>
      simp only
      split
      · intro f hf
        simp at hf; subst hf
        exact ⟨rfl, (List.getElem?_eq_some_iff.mp hd).1⟩
      · simp only
        apply validBase_foldl_mul
        · intro f hf; simp at hf
        · intro p hp
          simp only [List.map_map, List.mem_map, Function.comp] at hp
          obtain ⟨f, _, rfl⟩ := hp
          exact validBase_power tbl _ _ (ih f.unit)

theorem validBase_baseRepRaw_aux (tbl : Table α) (u : Unit) (acc : Unit) (ha : ValidBase tbl acc) :
    ValidBase tbl (u.foldl (fun acc f => Unit.mul acc (Unit.power (baseUnitAndFactor tbl tbl.length f.unit).1 f.exp)) acc) := by
  induction u generalizing acc with
  | nil => exact ha
  | cons f u ih =>
    simp only [List.foldl_cons]
    apply ih
    exact validBase_append tbl _ _ ha (validBase_power tbl _ _ (validBase_baseUnit tbl _ _))

theorem validBase_baseRepRaw (tbl : Table α) (u : Unit) : ValidBase tbl (baseRepRaw tbl u) :=
  validBase_baseRepRaw_aux tbl u [] (by intro f hf; simp at hf)

theorem vecOfBase_append (l m : Unit) (b : Nat) : vecOfBase (l ++ m) b = vecOfBase l b + vecOfBase m b := by
  induction l with
  | nil => simp only [List.nil_append, vecOfBase]; grind
  | cons f l ih => simp only [List.cons_append, vecOfBase, ih]; grind

theorem vecOfBase_power (l : Unit) (e : Rat) (b : Nat) : vecOfBase (Unit.power l e) b = e * vecOfBase l b := by
  induction l with
  | nil => simp only [Unit.power, List.map_nil, vecOfBase]; grind
  | cons f l ih =>
    simp only [Unit.power, List.map_cons, vecOfBase] at ih ⊢
    rw [ih]; split <;> grind

theorem vecOfBase_baseRepRaw_aux (tbl : Table α) (u acc : Unit) (b : Nat) :
    vecOfBase (u.foldl (fun acc f => Unit.mul acc (Unit.power (baseUnitAndFactor tbl tbl.length f.unit).1 f.exp)) acc) b
      = vecOfBase acc b + unitVec tbl u b := by
  induction u generalizing acc with
  | nil => simp only [List.foldl_nil, unitVec]; grind
  | cons f u ih =>
    simp only [List.foldl_cons]
    rw [ih]
    simp only [unitVec, Unit.mul, vecOfBase_append, vecOfBase_power, idVec]
    grind

theorem vecOfBase_baseRepRaw (tbl : Table α) (u : Unit) (b : Nat) : vecOfBase (baseRepRaw tbl u) b = unitVec tbl u b := by
  unfold baseRepRaw
  rw [vecOfBase_baseRepRaw_aux]
  simp only [vecOfBase]; grind

/-- base representations of units with the same dimension vector coincide -/
theorem baseRep_eq_of_vec (tbl : Table α) (hn : NamesDistinct tbl) (u v : Unit)
    (h : ∀ b, unitVec tbl u b = unitVec tbl v b) : baseRep tbl u = baseRep tbl v := by
  unfold baseRep
  apply canonBase_eq_of_vec tbl hn _ _ (validBase_baseRepRaw tbl u) (validBase_baseRepRaw tbl v)
  intro b
  rw [vecOfBase_baseRepRaw, vecOfBase_baseRepRaw, h b]

/-! ### `canon` on general units preserves the dimension vector -/

theorem unitVec_insertBy (tbl : Table α) (le : Factor → Factor → Bool) (x : Factor) (l : Unit) (b : Nat) :
    unitVec tbl (insertBy le x l) b = x.exp * idVec tbl x.unit b + unitVec tbl l b := by
  induction l with
  | nil => simp [insertBy, unitVec]
  | cons y ys ih =>
    simp only [insertBy]
    split
    · simp [unitVec]
    · simp only [unitVec, ih]; grind

theorem unitVec_sortBy (tbl : Table α) (le : Factor → Factor → Bool) (l : Unit) (b : Nat) :
    unitVec tbl (sortBy le l) b = unitVec tbl l b := by
  induction l with
  | nil => rfl
  | cons x xs ih => simp only [sortBy, unitVec_insertBy, unitVec, ih]

theorem unitVec_mergeAdjacent (tbl : Table α) (l : Unit) (b : Nat) :
    unitVec tbl (mergeAdjacent l) b = unitVec tbl l b := by
  induction l with
  | nil => rfl
  | cons f rest ih =>
    simp only [mergeAdjacent]
    cases hm : mergeAdjacent rest with
    | nil => rw [hm] at ih; simp only [unitVec] at ih ⊢; rw [← ih]
    | cons g gs =>
      rw [hm] at ih
      simp only
      split
      · rename_i hc
        simp only [unitVec] at ih ⊢
        rw [← ih, hc.1]; grind
      · simp only [unitVec] at ih ⊢; rw [← ih]

theorem unitVec_dropTrivial (tbl : Table α) (l : Unit) (b : Nat) :
    unitVec tbl (dropTrivial l) b = unitVec tbl l b := by
  induction l with
  | nil => rfl
  | cons f rest ih =>
    simp only [dropTrivial, List.filter_cons] at ih ⊢
    split
    · simp only [unitVec, ih]
    · rename_i hc
      have hz : f.exp = 0 := by simpa using hc
      simp only [unitVec, ih, hz]; grind

theorem unitVec_canon (tbl : Table α) (u : Unit) (b : Nat) : unitVec tbl (canon tbl u) b = unitVec tbl u b := by
  unfold canon
  rw [unitVec_dropTrivial, unitVec_mergeAdjacent, unitVec_sortBy]

/-- **Conversions between units of equal dimension vector succeed.** -/
theorem convComplete (tbl : Table α) (hn : NamesDistinct tbl) : ConvComplete tbl := by
  intro x U hv
  unfold convertTo
  split
  · exact ⟨_, rfl⟩
  · simp only
    have key : baseRep tbl (canon tbl (Unit.div x.unit (commonFactors (canon tbl x.unit) (canon tbl U))))
        = baseRep tbl (canon tbl (Unit.div U (commonFactors (canon tbl x.unit) (canon tbl U)))) := by
      apply baseRep_eq_of_vec tbl hn
      intro b
      rw [unitVec_canon, unitVec_canon]
      simp only [Unit.div, unitVec_append, hv b]
    rw [key]
    simp

end NumbatModel.Qty
