import NumbatModel.Model.NumFmt
/-! Helper lemmas for C14 (`Props/C14.lean`). -/
namespace NumbatModel.NumFmt

/-! ### `removeSep` -/

theorem removeSepAux_skip (sep : List Char) (Y X : List Char) :
    removeSepAux sep Y.length (Y ++ X) = removeSepAux sep 0 X := by
  induction Y with
  | nil => rfl
  | cons y Y ih =>
    simpa [removeSepAux] using ih

theorem removeSep_sep_append (sep X : List Char) (hne : sep ≠ []) :
    removeSepAux sep 0 (sep ++ X) = removeSepAux sep 0 X := by
  cases sep with
  | nil => exact absurd rfl hne
  | cons c s =>
    have hp : (c :: s).isPrefixOf (c :: (s ++ X)) = true := by
      rw [List.isPrefixOf_iff_prefix]; exact List.prefix_append (c :: s) X
    simp only [List.cons_append, removeSepAux, List.isEmpty_cons, Bool.not_false, Bool.true_and, hp, if_true,
      List.length_cons, Nat.add_sub_cancel]
    exact removeSepAux_skip (c :: s) s X

theorem removeSep_cons_of_not_mem (sep : List Char) (c : Char) (s : List Char) (h : c ∉ sep) :
    removeSepAux sep 0 (c :: s) = c :: removeSepAux sep 0 s := by
  cases sep with
  | nil => simp [removeSepAux]
  | cons d ds =>
    have hne : d ≠ c := fun e => h (by simp [e])
    have : (d :: ds).isPrefixOf (c :: s) = false := by
      simp [List.isPrefixOf, hne]
    simp [removeSepAux, this]

theorem removeSep_of_disjoint (sep s : List Char) (h : ∀ c ∈ s, c ∉ sep) :
    removeSepAux sep 0 s = s := by
  induction s with
  | nil => rfl
  | cons c s ih =>
    rw [removeSep_cons_of_not_mem sep c s (h c (by simp)), ih (fun x hx => h x (by simp [hx]))]

/-! ### `writeDigits` -/

/-- removing the separator from what `writeDigits` builds gives back the digits in order -/
theorem removeSep_writeDigits (sep rds acc : List Char) (count : Nat)
    (hd : ∀ c ∈ rds, c ∉ sep) :
    removeSepAux sep 0 (writeDigits sep rds count acc) = rds.reverse ++ removeSepAux sep 0 acc := by
  induction rds generalizing count acc with
  | nil => simp [writeDigits]
  | cons d rest ih =>
    have hdn : d ∉ sep := hd d (by simp)
    have hrest : ∀ c ∈ rest, c ∉ sep := fun c hc => hd c (by simp [hc])
    simp only [writeDigits]
    split
    · rw [ih _ _ hrest, removeSep_cons_of_not_mem sep d _ hdn]
      by_cases hne : sep = []
      · subst hne; simp
      · rw [removeSep_sep_append sep acc hne]; simp
    · rw [ih _ _ hrest, removeSep_cons_of_not_mem sep d _ hdn]; simp

/-- shape of the grouping: the output is the separator-joined list of a first group of `count` characters and
groups of exactly three -/
theorem writeDigits_groups (sep rds : List Char) (count : Nat) (g0 : List Char) (gs : List (List Char))
    (hg0 : g0.length = count) (hc : count ≤ 3) (hgs : ∀ g ∈ gs, g.length = 3)
    (hne : rds ≠ [] ∨ 1 ≤ count) :
    ∃ g0' gs', writeDigits sep rds count (joinGroups sep (g0 :: gs)) = joinGroups sep (g0' :: gs') ∧
      (g0' :: gs').flatten = rds.reverse ++ (g0 :: gs).flatten ∧
      1 ≤ g0'.length ∧ g0'.length ≤ 3 ∧ (∀ g ∈ gs', g.length = 3) := by
  induction rds generalizing count g0 gs with
  | nil =>
    refine ⟨g0, gs, by simp [writeDigits], by simp, ?_, ?_, hgs⟩
    · rcases hne with h | h
      · exact absurd rfl h
      · omega
    · omega
  | cons d rest ih =>
    simp only [writeDigits]
    split
    · -- a group is complete: start a new one
      rename_i h3
      have hj : d :: (sep ++ joinGroups sep (g0 :: gs)) = joinGroups sep ([d] :: g0 :: gs) := by
        simp [joinGroups]
      rw [hj]
      obtain ⟨g0', gs', h1, h2, h3', h4, h5⟩ :=
        ih 1 [d] (g0 :: gs) rfl (by omega) (by
          intro g hg
          simp only [List.mem_cons] at hg
          rcases hg with rfl | hg
          · omega
          · exact hgs g hg) (Or.inr (by omega))
      exact ⟨g0', gs', h1, by simp [h2], h3', h4, h5⟩
    · rename_i h3
      have hj : d :: joinGroups sep (g0 :: gs) = joinGroups sep ((d :: g0) :: gs) := by
        cases gs <;> simp [joinGroups]
      rw [hj]
      obtain ⟨g0', gs', h1, h2, h3', h4, h5⟩ :=
        ih (count + 1) (d :: g0) gs (by simp [hg0]) (by omega) hgs (Or.inr (by omega))
      exact ⟨g0', gs', h1, by simp [h2], h3', h4, h5⟩

/-! ### digit strings -/

theorem natDigits_isDigit {n : Nat} {c : Char} (h : c ∈ natDigits n) : isDigitChar c = true :=
  Nat.isDigit_of_mem_toDigits (by decide) (by decide) h

theorem spanDigits_all (ds : List Char) (h : ∀ c ∈ ds, isDigitChar c = true) (rest : List Char)
    (hr : ∀ c, rest.head? = some c → isDigitChar c = false) :
    spanDigits (ds ++ rest) = (ds, rest) := by
  induction ds with
  | nil =>
    cases rest with
    | nil => rfl
    | cons c r => simp [spanDigits, hr c rfl]
  | cons d ds ih =>
    have hd := h d (by simp)
    simp only [List.cons_append, spanDigits, hd, if_true]
    rw [ih (fun c hc => h c (by simp [hc]))]


def allDigits (l : List Char) : Prop := ∀ c ∈ l, isDigitChar c = true

theorem spanDigits_spec (s : List Char) :
    s = (spanDigits s).1 ++ (spanDigits s).2 ∧ allDigits (spanDigits s).1 ∧
      (∀ c, (spanDigits s).2.head? = some c → isDigitChar c = false) := by
  induction s with
  | nil => simp [spanDigits, allDigits]
  | cons c s ih =>
    by_cases hc : isDigitChar c = true
    · simp only [spanDigits, hc, if_true]
      refine ⟨by simp [← ih.1], ?_, ih.2.2⟩
      intro x hx
      simp only [List.mem_cons] at hx
      rcases hx with rfl | hx
      · exact hc
      · exact ih.2.1 x hx
    · simp only [spanDigits, hc, Bool.false_eq_true, if_false]
      refine ⟨by simp, by simp [allDigits], ?_⟩
      intro x hx
      simp at hx; subst hx; simpa using hc

/-! ### structured view of a decimal literal -/

/-- `-? ip ('.' fp)? ('e' sign? digits)?` -/
structure RawNum where
  neg : Bool
  ip : List Char
  fp : Option (List Char)
  ex : Option (Option Char × List Char)

def renderSign (neg : Bool) : List Char := if neg then ['-'] else []

def renderExp : Option (Option Char × List Char) → List Char
  | none => []
  | some (none, ds) => 'e' :: ds
  | some (some c, ds) => 'e' :: c :: ds

def renderFrac : Option (List Char) → List Char
  | some f => '.' :: f
  | none => []

def renderTail (fp : Option (List Char)) (ex : Option (Option Char × List Char)) : List Char :=
  renderFrac fp ++ renderExp ex

def RawNum.renderAbs (r : RawNum) : List Char := r.ip ++ renderTail r.fp r.ex

def RawNum.render (r : RawNum) : List Char := renderSign r.neg ++ r.renderAbs

def expOK : Option (Option Char × List Char) → Prop
  | none => True
  | some (s, ds) => ds ≠ [] ∧ allDigits ds ∧ (s = none ∨ s = some '+' ∨ s = some '-')

structure RawNum.Valid (r : RawNum) : Prop where
  ip_ne : r.ip ≠ []
  ip_digits : allDigits r.ip
  fp_digits : ∀ f, r.fp = some f → allDigits f
  ex_ok : expOK r.ex

def expValue : Option (Option Char × List Char) → Option Int
  | none => none
  | some (s, ds) => some (if s == some '-' then -(digitsToNat ds : Int) else (digitsToNat ds : Int))

/-- mantissa `ip.fp` -/
def RawNum.mantissa (r : RawNum) : Rat :=
  match r.fp with
  | none => (digitsToNat r.ip : Nat)
  | some f => (digitsToNat r.ip : Nat) + mkRat (digitsToNat f) (10 ^ f.length)

def RawNum.absValue (r : RawNum) : Rat :=
  match expValue r.ex with
  | none => r.mantissa
  | some e => r.mantissa * pow10 e

def RawNum.value (r : RawNum) : Rat := if r.neg then -r.absValue else r.absValue

theorem isDigit_ne {c d : Char} (hc : isDigitChar c = true) (hd : isDigitChar d = false) : c ≠ d := by
  intro e; subst e; simp [hc] at hd

theorem head_not_digit_renderExp (ex) :
    ∀ c, (renderExp ex).head? = some c → isDigitChar c = false := by
  intro c h
  rcases ex with _ | ⟨_ | s, ds⟩ <;> simp [renderExp] at h <;> subst h <;> decide

theorem head_not_digit_renderTail (fp ex) :
    ∀ c, (renderTail fp ex).head? = some c → isDigitChar c = false := by
  intro c h
  cases fp with
  | none => exact head_not_digit_renderExp ex c (by simpa [renderTail, renderFrac] using h)
  | some f => simp [renderTail, renderFrac] at h; subst h; decide

theorem stripSign_digit (d : Char) (ds : List Char) (hd : isDigitChar d = true) :
    stripSign (d :: ds) = (none, d :: ds) := by
  have hdp : d ≠ '+' := isDigit_ne hd (by decide)
  have hdm : d ≠ '-' := isDigit_ne hd (by decide)
  simp [stripSign, hdp, hdm]

theorem renderExp_facts (s : Option Char) (ds : List Char) (h : expOK (some (s, ds))) :
    ∃ rest, renderExp (some (s, ds)) = 'e' :: rest ∧ stripSign rest = (s, ds) ∧ spanDigits ds = (ds, []) ∧
      ds.isEmpty = false := by
  obtain ⟨hds, hdig, hs⟩ := h
  have hsp : spanDigits ds = (ds, []) := by
    have := spanDigits_all ds hdig [] (by simp)
    simpa using this
  have hne' : ds.isEmpty = false := by cases ds <;> simp_all
  obtain ⟨d, ds', rfl⟩ : ∃ d ds', ds = d :: ds' := by
    cases ds with
    | nil => exact absurd rfl hds
    | cons d ds' => exact ⟨d, ds', rfl⟩
  have hd : isDigitChar d = true := hdig d (by simp)
  rcases hs with rfl | rfl | rfl
  · exact ⟨d :: ds', rfl, stripSign_digit d ds' hd, hsp, hne'⟩
  · exact ⟨'+' :: d :: ds', rfl, by simp [stripSign], hsp, hne'⟩
  · exact ⟨'-' :: d :: ds', rfl, by simp [stripSign], hsp, hne'⟩

theorem exponentValue_renderExp (ex) (h : expOK ex) (hne : ex ≠ none) :
    exponentValue (renderExp ex) = expValue ex := by
  rcases ex with _ | ⟨s, ds⟩
  · exact absurd rfl hne
  · obtain ⟨rest, h1, h2, h3, h4⟩ := renderExp_facts s ds h
    simp [h1, exponentValue, h2, h3, h4, expValue]

theorem isExponentPart_renderExp (ex) (h : expOK ex) (hne : ex ≠ none) :
    isExponentPart (renderExp ex) = true := by
  rcases ex with _ | ⟨s, ds⟩
  · exact absurd rfl hne
  · obtain ⟨rest, h1, h2, h3, h4⟩ := renderExp_facts s ds h
    simp [h1, isExponentPart, h2, h3, h4]

/-- the value read from the rendering of a valid structured literal is its value -/
theorem unsignedValue_renderAbs (r : RawNum) (h : r.Valid) :
    unsignedValue r.renderAbs = some r.absValue := by
  have hsp : spanDigits (r.ip ++ renderTail r.fp r.ex) = (r.ip, renderTail r.fp r.ex) :=
    spanDigits_all r.ip h.ip_digits _ (head_not_digit_renderTail r.fp r.ex)
  have hipne : r.ip.isEmpty = false := by
    have := h.ip_ne; cases hip : r.ip <;> simp_all
  unfold unsignedValue RawNum.renderAbs
  simp only [hsp, hipne, Bool.false_eq_true, if_false]
  cases hfp : r.fp with
  | none =>
    cases hex : r.ex with
    | none => simp [renderTail, renderFrac, renderExp, RawNum.absValue, RawNum.mantissa, hfp, hex, expValue]
    | some e =>
      have hx := exponentValue_renderExp (some e) (hex ▸ h.ex_ok) (by simp)
      have hhead := head_not_digit_renderExp (some e)
      simp only [renderTail, renderFrac, List.nil_append]
      split
      · rename_i heq
        rcases e with ⟨_ | s, ds⟩ <;> simp [renderExp] at heq
      · rename_i rr heq
        rcases e with ⟨_ | s, ds⟩ <;> simp [renderExp] at heq
      · simp [hx, RawNum.absValue, RawNum.mantissa, hfp, hex, expValue]
  | some f =>
    have hf := h.fp_digits f hfp
    have hspf : spanDigits (f ++ renderExp r.ex) = (f, renderExp r.ex) :=
      spanDigits_all f hf _ (head_not_digit_renderExp r.ex)
    simp only [renderTail, renderFrac, List.cons_append, hspf]
    cases hex : r.ex with
    | none => simp [renderExp, RawNum.absValue, RawNum.mantissa, hfp, hex, expValue]
    | some e =>
      have hx := exponentValue_renderExp (some e) (hex ▸ h.ex_ok) (by simp)
      have hne : (renderExp (some e)).isEmpty = false := by
        rcases e with ⟨_ | s, ds⟩ <;> simp [renderExp]
      simp [hne, hx, RawNum.absValue, RawNum.mantissa, hfp, hex, expValue]

theorem decimalValue_render (r : RawNum) (h : r.Valid) : decimalValue r.render = some r.value := by
  unfold RawNum.render renderSign RawNum.value
  cases hn : r.neg with
  | true => simp [decimalValue, unsignedValue_renderAbs r h]
  | false =>
    simp only [Bool.false_eq_true, if_false, List.nil_append]
    obtain ⟨d, ds, hip⟩ : ∃ d ds, r.ip = d :: ds := by
      cases hip : r.ip with
      | nil => exact absurd hip h.ip_ne
      | cons d ds => exact ⟨d, ds, rfl⟩
    have hd : isDigitChar d = true := h.ip_digits d (by simp [hip])
    have hdm : d ≠ '-' := isDigit_ne hd (by decide)
    have hu := unsignedValue_renderAbs r h
    unfold decimalValue
    split
    · rename_i s heq
      simp [RawNum.renderAbs, hip] at heq
      exact absurd heq.1 hdm
    · exact hu

theorem isNumberLiteral_renderAbs (r : RawNum) (h : r.Valid) : isNumberLiteral r.renderAbs = true := by
  have hsp : spanDigits (r.ip ++ renderTail r.fp r.ex) = (r.ip, renderTail r.fp r.ex) :=
    spanDigits_all r.ip h.ip_digits _ (head_not_digit_renderTail r.fp r.ex)
  have hipne : r.ip.isEmpty = false := by
    have := h.ip_ne; cases hip : r.ip <;> simp_all
  unfold isNumberLiteral RawNum.renderAbs
  simp only [hsp, hipne, Bool.not_false, Bool.true_and]
  cases hfp : r.fp with
  | none =>
    cases hex : r.ex with
    | none => simp [renderTail, renderFrac, renderExp]
    | some e =>
      have hx := isExponentPart_renderExp (some e) (hex ▸ h.ex_ok) (by simp)
      simp only [renderTail, renderFrac, List.nil_append]
      split
      · rfl
      · rename_i rr heq
        rcases e with ⟨_ | s, ds⟩ <;> simp [renderExp] at heq
      · exact hx
  | some f =>
    have hf := h.fp_digits f hfp
    have hspf : spanDigits (f ++ renderExp r.ex) = (f, renderExp r.ex) :=
      spanDigits_all f hf _ (head_not_digit_renderExp r.ex)
    simp only [renderTail, renderFrac, List.cons_append, hspf]
    cases hex : r.ex with
    | none => simp [renderExp]
    | some e =>
      have hx := isExponentPart_renderExp (some e) (hex ▸ h.ex_ok) (by simp)
      simp [hx]

theorem isSignedNumberLiteral_render (r : RawNum) (h : r.Valid) :
    isSignedNumberLiteral r.render = true := by
  unfold RawNum.render renderSign
  cases hn : r.neg with
  | true => simp [isSignedNumberLiteral, isNumberLiteral_renderAbs r h]
  | false =>
    simp only [Bool.false_eq_true, if_false, List.nil_append]
    obtain ⟨d, ds, hip⟩ : ∃ d ds, r.ip = d :: ds := by
      cases hip : r.ip with
      | nil => exact absurd hip h.ip_ne
      | cons d ds => exact ⟨d, ds, rfl⟩
    have hd : isDigitChar d = true := h.ip_digits d (by simp [hip])
    have hdm : d ≠ '-' := isDigit_ne hd (by decide)
    have hu := isNumberLiteral_renderAbs r h
    unfold isSignedNumberLiteral
    split
    · rename_i s heq
      simp [RawNum.renderAbs, hip] at heq
      exact absurd heq.1 hdm
    · exact hu


/-! ### `trimEndZeros` -/

theorem trimEndZeros_cons_ne (c : Char) (s : List Char) (h : c ≠ '0') :
    trimEndZeros (c :: s) = c :: trimEndZeros s := by
  simp [trimEndZeros, h]

theorem trimEndZeros_cons_of_ne_nil (c : Char) (s : List Char) (h : trimEndZeros s ≠ []) :
    trimEndZeros (c :: s) = c :: trimEndZeros s := by
  have : (trimEndZeros s).isEmpty = false := by cases ht : trimEndZeros s <;> simp_all
  simp [trimEndZeros, this]

/-- nothing in front of a `.` is trimmed -/
theorem trimEndZeros_prefix_dot (pre X : List Char) :
    trimEndZeros (pre ++ '.' :: X) = pre ++ '.' :: trimEndZeros X := by
  induction pre with
  | nil => simpa using trimEndZeros_cons_ne '.' X (by decide)
  | cons c pre ih =>
    rw [List.cons_append, trimEndZeros_cons_of_ne_nil c _ (by rw [ih]; simp), ih]
    rfl

/-- what is trimmed is a block of zeros -/
theorem trimEndZeros_decomp (f : List Char) :
    f = trimEndZeros f ++ List.replicate (f.length - (trimEndZeros f).length) '0' := by
  induction f with
  | nil => rfl
  | cons c s ih =>
    by_cases h : (trimEndZeros s).isEmpty = true ∧ c = '0'
    · obtain ⟨h1, h2⟩ := h
      have ht : trimEndZeros s = [] := by simpa using h1
      subst h2
      have : trimEndZeros ('0' :: s) = [] := by simp [trimEndZeros, ht]
      rw [this]
      rw [ht] at ih
      simp only [List.nil_append, List.length_nil, Nat.sub_zero, List.length_cons] at ih ⊢
      rw [List.replicate_succ]
      congr 1
    · have hk : trimEndZeros (c :: s) = c :: trimEndZeros s := by
        simp only [trimEndZeros]
        split
        · rename_i hh
          simp only [Bool.and_eq_true, beq_iff_eq] at hh
          exact absurd hh h
        · rfl
      rw [hk]
      simp only [List.cons_append, List.length_cons, Nat.add_sub_add_right]
      congr 1

theorem trimEndZeros_subset (f : List Char) : ∀ c ∈ trimEndZeros f, c ∈ f := by
  intro c hc
  have := trimEndZeros_decomp f
  rw [this]; simp [hc]

theorem trimEndZeros_getLast (f : List Char) : (trimEndZeros f).getLast? ≠ some '0' := by
  induction f with
  | nil => simp [trimEndZeros]
  | cons c s ih =>
    simp only [trimEndZeros]
    split
    · simp
    · rename_i hh
      cases ht : trimEndZeros s with
      | nil =>
        simp only [ht, List.isEmpty_nil, Bool.true_and, beq_iff_eq] at hh
        simp [hh]
      | cons x xs =>
        rw [ht] at ih
        simpa [List.getLast?_cons_cons] using ih

/-- trimming zeros off a fraction does not change its value -/
theorem frac_value_trim (f : List Char) :
    mkRat (digitsToNat (trimEndZeros f)) (10 ^ (trimEndZeros f).length) =
      mkRat (digitsToNat f) (10 ^ f.length) := by
  have hd := trimEndZeros_decomp f
  generalize hk : f.length - (trimEndZeros f).length = k at hd
  generalize trimEndZeros f = t at hd
  subst hd
  have h1 : digitsToNat (t ++ List.replicate k '0') = digitsToNat t * 10 ^ k := by
    simp [digitsToNat, Nat.ofDigitChars_append, Nat.mul_comm]
  have h2 : (10 : Nat) ^ (t ++ List.replicate k '0').length = 10 ^ t.length * 10 ^ k := by
    simp [Nat.pow_add]
  rw [h1, h2]
  have : ((digitsToNat t * 10 ^ k : Nat) : Int) = (digitsToNat t : Int) * ((10 ^ k : Nat) : Int) := by
    simp
  rw [this, Rat.mkRat_mul_right (Nat.pos_iff_ne_zero.mp (Nat.pow_pos (by decide)))]

/-! ### character bookkeeping -/

theorem contains_false_of_digits (ds : List Char) (h : allDigits ds) (c : Char) (hc : isDigitChar c = false) :
    ds.contains c = false := by
  induction ds with
  | nil => rfl
  | cons d ds ih =>
    have hd := h d (by simp)
    have : d ≠ c := isDigit_ne hd hc
    simp only [List.contains_cons, ih (fun x hx => h x (by simp [hx])), Bool.or_false]
    simp [Ne.symm this]

theorem replaceE_append (a b : List Char) : replaceE (a ++ b) = replaceE a ++ replaceE b := by
  simp [replaceE]

theorem replaceE_of_no_e (a : List Char) (h : a.contains 'e' = false) : replaceE a = a := by
  induction a with
  | nil => rfl
  | cons c a ih =>
    simp only [List.contains_cons, Bool.or_eq_false_iff] at h
    have hc : c ≠ 'e' := by
      intro e; subst e; simp at h
    have : (c == 'e') = false := by simp [hc]
    have ih' := ih h.2
    simp only [replaceE, List.flatMap_cons, this] at ih' ⊢
    rw [ih']; rfl

theorem containsEMinus_append_of_no_e (a x : List Char) (h : a.contains 'e' = false) :
    containsEMinus (a ++ x) = containsEMinus x := by
  induction a with
  | nil => rfl
  | cons c a ih =>
    simp only [List.contains_cons, Bool.or_eq_false_iff] at h
    have hc : ('e' == c) = false := h.1
    have hc' : (c == 'e') = false := by
      cases hce : c == 'e'
      · rfl
      · have : c = 'e' := by simpa using hce
        subst this; simp at hc
    have ih' := ih h.2
    cases hax : a ++ x with
    | nil =>
      have : a = [] ∧ x = [] := by simpa using hax
      simp [this.1, this.2, containsEMinus]
    | cons y ys =>
      simp only [List.cons_append, hax, containsEMinus, hc', Bool.false_and, Bool.false_or]
      rw [← hax]; exact ih'

theorem containsEMinus_of_no_e (a : List Char) (h : a.contains 'e' = false) : containsEMinus a = false := by
  have := containsEMinus_append_of_no_e a [] h
  simpa [containsEMinus] using this

end NumbatModel.NumFmt
