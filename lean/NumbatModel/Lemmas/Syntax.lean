import NumbatModel.Model.SyntaxRender
/-!
Helper lemmas for C10: the parser model inverts the reference printer.
-/
namespace NumbatModel.Syntax

/-- the parser function of a level -/
def parseAt : Nat → Nat → List Token → PRes Expr
  | 0 => postfixApply | 1 => condition | 2 => conversion | 3 => logicalOr | 4 => logicalAnd
  | 5 => logicalNeg | 6 => comparison | 7 => term | 8 => factor | 9 => perFactor | 10 => unary
  | 11 => ifactor | 12 => power | 13 => factorial | 14 => unicodePower | 15 => call | _ => primary

/-- for every fuel `≥ n0`, parsing `ts` at level `L` yields `e` and leaves `rest` -/
def Parses (L : Nat) (ts : List Token) (e : Expr) (rest : List Token) (n0 : Nat) : Prop :=
  ∀ n, n0 ≤ n → parseAt L n ts = .ok (e, rest)

theorem parseAt_zero (L : Nat) (ts : List Token) : parseAt L 0 ts = .error (.outOfFuel, ts) := by
  unfold parseAt
  split <;> simp [postfixApply, condition, conversion, logicalOr, logicalAnd, logicalNeg, comparison, term,
    factor, perFactor, unary, ifactor, power, factorial, unicodePower, call, primary]

theorem Parses.pos {L ts e rest n0} (h : Parses L ts e rest n0) : 0 < n0 := by
  rcases Nat.eq_zero_or_pos n0 with h0 | h0
  · subst h0
    have := h 0 (Nat.le_refl 0)
    rw [parseAt_zero] at this
    cases this
  · exact h0

theorem Parses.mono {L ts e rest n0 n1} (h : Parses L ts e rest n0) (hle : n0 ≤ n1) : Parses L ts e rest n1 :=
  fun n hn => h n (Nat.le_trans hle hn)


/-! ## which token continues which level -/

/-- the tightest level whose loop / suffix check consumes a token of this kind after a complete operand -/
def contLevel : TokKind → Option Nat
  | .postfixApply => some 0
  | .arrow | .to => some 2
  | .logicalOr => some 3
  | .logicalAnd => some 4
  | .lessThan | .greaterThan | .lessOrEqual | .greaterOrEqual | .equalEqual | .notEqual => some 6
  | .plus | .minus => some 7
  | .multiply | .divide => some 8
  | .per => some 9
  | .number | .identifier | .questionMark => some 11
  | .power => some 12
  | .exclamationMark => some 13
  | .unicodeExponent => some 14
  | .leftParen | .period => some 15
  | .leftCurly => some 16
  | _ => none

/-- a token of kind `k` after an operand ends every level `≥ L` -/
def stops (L : Nat) (k : TokKind) : Bool :=
  match contLevel k with
  | none => true
  | some c => c < L

def Stops (L : Nat) (ts : List Token) : Prop := stops L (peekKind ts) = true

theorem stops_mono {L L' k} (h : stops L k = true) (hle : L ≤ L') : stops L' k = true := by
  unfold stops at *
  split at h <;> simp_all
  omega

theorem Stops.mono {L L' ts} (h : Stops L ts) (hle : L ≤ L') : Stops L' ts := stops_mono h hle

/-- the operator list of a `parse_binop` level -/
def opsAt : Nat → List (TokKind × BinOp)
  | 2 => conversionOps | 3 => logicalOrOps | 4 => logicalAndOps | 6 => comparisonOps
  | 7 => termOps | 8 => factorOps | 9 => perFactorOps | _ => []

def isBinLevel (L : Nat) : Bool := L == 2 || L == 3 || L == 4 || L == 6 || L == 7 || L == 8 || L == 9

theorem stops_lookup {L k} (hL : isBinLevel L = true) (h : stops L k = true) : (opsAt L).lookup k = none := by
  simp only [isBinLevel, Bool.or_eq_true, beq_iff_eq] at hL
  rcases hL with ((((((rfl | rfl) | rfl) | rfl) | rfl) | rfl) | rfl) <;>
    (revert h; cases k <;> decide)

def infixSpecB (k : TokKind) : Bool :=
  match infixInfo k with
  | some (lv, op) => isBinLevel lv && ((opsAt lv).lookup k == some op) && stops (lv + 1) k && (contLevel k == some lv)
  | none => true

theorem infixSpecB_all (k : TokKind) : infixSpecB k = true := by cases k <;> decide

theorem infixInfo_spec {k lv op} (h : infixInfo k = some (lv, op)) :
    isBinLevel lv = true ∧ (opsAt lv).lookup k = some op ∧ stops (lv + 1) k = true ∧ contLevel k = some lv := by
  have := infixSpecB_all k
  simp only [infixSpecB, h, Bool.and_eq_true, beq_iff_eq] at this
  obtain ⟨⟨⟨h1, h2⟩, h3⟩, h4⟩ := this
  exact ⟨h1, h2, h3, h4⟩


/-! ## loops -/

def isLoopLevel (L : Nat) : Bool := isBinLevel L || L == 0 || L == 11 || L == 15

/-- the loop of level `L` with operand fuel `n` and loop fuel `m` -/
def loopAt (L n m : Nat) (e : Expr) (ts : List Token) : PRes Expr :=
  match L with
  | 0 => postfixLoop m e ts
  | 11 => ifactorLoop m e ts
  | 15 => callLoop m e ts
  | L => binLoop (opsAt L) (parseAt (L + 1) n) m e ts

/-- with enough fuel the loop of level `L`, entered with accumulator `e` at `ts`, ends with `e'` at `rest` -/
def LoopsW (L : Nat) (e : Expr) (ts : List Token) (e' : Expr) (rest : List Token) (m0 : Nat) : Prop :=
  ∀ n m, m0 ≤ n → m0 ≤ m → loopAt L n m e ts = .ok (e', rest)

theorem LoopsW.mono {L e ts e' rest m0 m1} (h : LoopsW L e ts e' rest m0) (hle : m0 ≤ m1) :
    LoopsW L e ts e' rest m1 :=
  fun n m hn hm => h n m (Nat.le_trans hle hn) (Nat.le_trans hle hm)

theorem parseAt_bin {L : Nat} (hL : isBinLevel L = true) (n : Nat) (ts : List Token) :
    parseAt L (n + 1) ts = parseBinop (opsAt L) (parseAt (L + 1) n) n ts := by
  simp only [isBinLevel, Bool.or_eq_true, beq_iff_eq] at hL
  rcases hL with ((((((rfl | rfl) | rfl) | rfl) | rfl) | rfl) | rfl) <;>
    simp [parseAt, opsAt, conversion, logicalOr, logicalAnd, comparison, term, factor, perFactor]

theorem loopAt_bin {L : Nat} (hL : isBinLevel L = true) (n m : Nat) (e : Expr) (ts : List Token) :
    loopAt L n m e ts = binLoop (opsAt L) (parseAt (L + 1) n) m e ts := by
  simp only [isBinLevel, Bool.or_eq_true, beq_iff_eq] at hL
  rcases hL with ((((((rfl | rfl) | rfl) | rfl) | rfl) | rfl) | rfl) <;> rfl

/-- entering the loop of a loop level after its first operand -/
theorem enter {L ts e k e' rest n1 m0 N} (hL : isLoopLevel L = true)
    (h1 : Parses (L + 1) ts e k n1) (h2 : LoopsW L e k e' rest m0) (hn : n1 ≤ N) (hm : m0 ≤ N) :
    Parses L ts e' rest (N + 1) := by
  intro n hn'
  obtain ⟨n', rfl⟩ : ∃ n', n = n' + 1 := ⟨n - 1, by omega⟩
  have e1 := h1 n' (by omega)
  have e2 := h2 n' n' (by omega) (by omega)
  simp only [isLoopLevel, Bool.or_eq_true, beq_iff_eq] at hL
  rcases hL with ((hB | rfl) | rfl) | rfl
  · rw [parseAt_bin hB, parseBinop, e1]
    rw [loopAt_bin hB] at e2
    exact e2
  · simp only [parseAt] at e1 ⊢
    simp only [postfixApply, e1]
    exact e2
  · simp only [parseAt] at e1 ⊢
    simp only [ifactor, e1]
    exact e2
  · simp only [parseAt] at e1 ⊢
    simp only [call, e1]
    exact e2

/-- leaving the loop: the next token does not continue the level -/
theorem loop_exit {L e k} (hL : isLoopLevel L = true) (hs : Stops L k) : LoopsW L e k e k 1 := by
  intro n m _ hm
  obtain ⟨m', rfl⟩ : ∃ m', m = m' + 1 := ⟨m - 1, by omega⟩
  simp only [isLoopLevel, Bool.or_eq_true, beq_iff_eq] at hL
  unfold Stops at hs
  rcases hL with ((hB | rfl) | rfl) | rfl
  · rw [loopAt_bin hB]
    cases k with
    | nil => simp [binLoop]
    | cons t rest =>
      have := stops_lookup hB (k := t.kind) (by simpa [peekKind] using hs)
      simp [binLoop, this]
  · cases k with
    | nil => simp [loopAt, postfixLoop]
    | cons t rest =>
      have : t.kind ≠ .postfixApply := by
        intro h; simp [peekKind, h, stops, contLevel] at hs
      simp [loopAt, postfixLoop, this]
  · have : couldStartPower (peekKind k) = false := by
      revert hs; generalize peekKind k = kk; cases kk <;> decide
    simp [loopAt, ifactorLoop, this]
  · cases k with
    | nil => simp [loopAt, callLoop]
    | cons t rest =>
      have h1 : t.kind ≠ .leftParen := by
        intro h; simp [peekKind, h, stops, contLevel] at hs
      have h2 : t.kind ≠ .period := by
        intro h; simp [peekKind, h, stops, contLevel] at hs
      simp [loopAt, callLoop, h1, h2]


/-! ## ascending from a tighter level to a looser one -/

/-- the level at which a token kind is a prefix operator -/
def prefixLevel : TokKind → Option Nat
  | .if_ => some 1
  | .exclamationMark => some 5
  | .minus | .plus => some 10
  | _ => none

/-- a first token of kind `k` is not taken as a prefix operator by any level in `[L, p)` -/
def headOK (L p : Nat) (k : TokKind) : Bool :=
  match prefixLevel k with
  | none => true
  | some j => decide (j < L) || decide (p ≤ j)

theorem headOK_mono {L p L' p' k} (h : headOK L p k = true) (hL : L ≤ L') (hp : p' ≤ p) : headOK L' p' k = true := by
  unfold headOK at *
  split at h
  · rfl
  · simp only [Bool.or_eq_true, decide_eq_true_eq] at h ⊢
    omega

theorem countBangs_stop {k : List Token} (h : peekKind k ≠ .exclamationMark) : countBangs k = (0, k) := by
  cases k with
  | nil => rfl
  | cons t rest =>
    have : t.kind ≠ .exclamationMark := by simpa [peekKind] using h
    simp [countBangs, this]

theorem ascend1 {L ts e k n1} (hL : L < 16) (h : Parses (L + 1) ts e k n1) (hs : Stops L k)
    (hh : headOK L (L + 1) (peekKind ts) = true) : Parses L ts e k (n1 + 1) := by
  by_cases hloop : isLoopLevel L = true
  · exact enter hloop h (loop_exit hloop hs) (Nat.le_refl _) h.pos
  · intro n hn
    obtain ⟨n', rfl⟩ : ∃ n', n = n' + 1 := ⟨n - 1, by omega⟩
    have e1 := h n' (by omega)
    unfold Stops at hs
    have hcases : L = 1 ∨ L = 5 ∨ L = 10 ∨ L = 12 ∨ L = 13 ∨ L = 14 := by
      simp [isLoopLevel, isBinLevel] at hloop
      omega
    rcases hcases with rfl | rfl | rfl | rfl | rfl | rfl
    · -- condition
      simp only [parseAt] at e1 ⊢
      cases ts with
      | nil => simpa [condition] using e1
      | cons t rest =>
        have : t.kind ≠ .if_ := by
          intro h'; simp [peekKind, h', headOK, prefixLevel] at hh
        simpa [condition, this] using e1
    · simp only [parseAt] at e1 ⊢
      cases ts with
      | nil => simpa [logicalNeg] using e1
      | cons t rest =>
        have : t.kind ≠ .exclamationMark := by
          intro h'; simp [peekKind, h', headOK, prefixLevel] at hh
        simpa [logicalNeg, this] using e1
    · simp only [parseAt] at e1 ⊢
      cases ts with
      | nil => simpa [unary] using e1
      | cons t rest =>
        have h1 : t.kind ≠ .minus := by
          intro h'; simp [peekKind, h', headOK, prefixLevel] at hh
        have h2 : t.kind ≠ .plus := by
          intro h'; simp [peekKind, h', headOK, prefixLevel] at hh
        simpa [unary, h1, h2] using e1
    · simp only [parseAt] at e1 ⊢
      simp only [power, e1]
      cases k with
      | nil => rfl
      | cons t rest =>
        have : t.kind ≠ .power := by
          intro h'; simp [peekKind, h', stops, contLevel] at hs
        simp [this]
    · simp only [parseAt] at e1 ⊢
      have : peekKind k ≠ .exclamationMark := by
        intro h'; simp [h', stops, contLevel] at hs
      simp [factorial, e1, countBangs_stop this]
    · simp only [parseAt] at e1 ⊢
      simp only [unicodePower, e1]
      cases k with
      | nil => rfl
      | cons t rest =>
        have : t.kind ≠ .unicodeExponent := by
          intro h'; simp [peekKind, h', stops, contLevel] at hs
        simp [this]

theorem ascend {d : Nat} : ∀ {p L ts e k n1}, p ≤ 16 → L + d = p → Parses p ts e k n1 → Stops L k →
    headOK L p (peekKind ts) = true → Parses L ts e k (n1 + d) := by
  induction d with
  | zero =>
    intro p L ts e k n1 _ hd h _ _
    have : L = p := by omega
    subst this; simpa using h
  | succ d ih =>
    intro p L ts e k n1 hp hd h hs hh
    have h' := ih (L := L + 1) hp (by omega) h (hs.mono (Nat.le_succ _)) (headOK_mono hh (Nat.le_succ _) (Nat.le_refl _))
    have := ascend1 (L := L) (by omega) h' hs (headOK_mono hh (Nat.le_refl _) (by omega))
    exact this.mono (by omega)


/-! ## what is proved about every well-formed surface tree -/

/-- a token kind with which no expression starts being excluded: what the loops over arguments / list elements
test for before parsing an expression -/
def exprStart (k : TokKind) : Bool := k != .newline && k != .rightParen && k != .rightBracket

structure Good (s : Surf) : Prop where
  /-- the rendering is not empty and its first token is not taken for a prefix operator of a looser level -/
  head : ∃ t ts', render s = t :: ts' ∧ headOK 0 s.prec t.kind = true ∧ exprStart t.kind = true
  /-- parsing the rendering at any level gives back the tree -/
  p1 : ∀ L k, L ≤ 16 → Stops L k → Parses L (renderAt L s ++ k) (toExpr s) k s.need
  /-- loop form: parsing the rendering followed by `k` at a loop level is entering the loop at `k` with the tree -/
  p2 : ∀ L k e' rest m0, isLoopLevel L = true → Stops (L + 1) k → LoopsW L (toExpr s) k e' rest m0 →
    Parses L (renderAt L s ++ k) e' rest (s.need + m0 + 1)

theorem peekKind_append_of_head {ts ts' : List Token} {t : Token} (h : ts = t :: ts') (k : List Token) :
    peekKind (ts ++ k) = t.kind := by
  subst h; rfl

theorem stops_rightParen (L : Nat) : stops L .rightParen = true := by simp [stops, contLevel]

/-- one step of a `parse_binop` loop -/
theorem bin_step {L t ts op e r k' e' rest n1 m0} (hL : isBinLevel L = true)
    (hop : (opsAt L).lookup t.kind = some op) (h1 : Parses (L + 1) ts r k' n1)
    (h2 : LoopsW L (.bin op e r) k' e' rest m0) : LoopsW L e (t :: ts) e' rest (n1 + m0 + 1) := by
  intro n m hn hm
  obtain ⟨m', rfl⟩ : ∃ m', m = m' + 1 := ⟨m - 1, by omega⟩
  rw [loopAt_bin hL]
  have e1 := h1 n (by omega)
  have e2 := h2 n m' (by omega) (by omega)
  rw [loopAt_bin hL] at e2
  simp [binLoop, hop, e1, e2]

/-- From the parse at the construct's own level (`own1`, bound `B1`) and, for loop levels, its loop form
(`own2`), everything in `Good`. -/
theorem good_of_own (s : Surf) (B1 : Nat)
    (hhead : ∃ t ts', render s = t :: ts' ∧ headOK 0 s.prec t.kind = true ∧ exprStart t.kind = true)
    (hp : s.prec ≤ 16) (hB : B1 + 35 ≤ s.need)
    (own1 : ∀ k, Stops s.prec k → Parses s.prec (render s ++ k) (toExpr s) k B1)
    (own2 : isLoopLevel s.prec = true → ∀ k e' rest m0, Stops (s.prec + 1) k →
      LoopsW s.prec (toExpr s) k e' rest m0 → Parses s.prec (render s ++ k) e' rest (B1 + m0)) : Good s := by
  obtain ⟨t, ts', hr, hh, hnl⟩ := hhead
  -- P1 at levels up to the own one
  have low : ∀ L k, L ≤ s.prec → Stops L k → Parses L (render s ++ k) (toExpr s) k (B1 + 16) := by
    intro L k hL hs
    have h0 := own1 k (hs.mono hL)
    have hk : headOK L s.prec (peekKind (render s ++ k)) = true := by
      rw [peekKind_append_of_head hr]
      exact headOK_mono hh (Nat.zero_le _) (Nat.le_refl _)
    have := ascend (d := s.prec - L) hp (by omega) h0 hs hk
    exact this.mono (by omega)
  -- P1 everywhere
  have p1 : ∀ L k, L ≤ 16 → Stops L k → Parses L (renderAt L s ++ k) (toExpr s) k (B1 + 34) := by
    intro L k hL hs
    by_cases hlt : s.prec < L
    · -- parenthesised
      have hin := low 0 (tRightParen :: k) (Nat.zero_le _) (by simp [Stops, peekKind, tRightParen, stops_rightParen])
      have h16 : Parses 16 (tLeftParen :: (render s ++ tRightParen :: k)) (toExpr s) k (B1 + 18) := by
        intro n hn
        obtain ⟨n', rfl⟩ : ∃ n', n = n' + 2 := ⟨n - 2, by omega⟩
        have := hin n' (by omega)
        simp only [parseAt] at this ⊢
        simp only [primary, tLeftParen, expression, this]
        simp [tRightParen]
      have hk : headOK L 16 (peekKind (tLeftParen :: (render s ++ tRightParen :: k))) = true := by
        simp [peekKind, tLeftParen, headOK, prefixLevel]
      have := ascend (d := 16 - L) (Nat.le_refl 16) (by omega) h16 hs hk
      have e : renderAt L s ++ k = tLeftParen :: (render s ++ tRightParen :: k) := by
        simp [renderAt, wrap, hlt]
      rw [e]
      exact this.mono (by omega)
    · have e : renderAt L s ++ k = render s ++ k := by simp [renderAt, wrap, hlt]
      rw [e]
      exact (low L k (by omega) hs).mono (by omega)
  refine ⟨⟨t, ts', hr, hh, hnl⟩, fun L k hL hs => (p1 L k hL hs).mono (by omega), ?_⟩
  intro L k e' rest m0 hloop hs hl
  have hL15 : L ≤ 15 := by
    simp [isLoopLevel, isBinLevel] at hloop; omega
  by_cases heq : s.prec = L
  · subst heq
    have e : renderAt s.prec s ++ k = render s ++ k := by simp [renderAt, wrap]
    rw [e]
    exact (own2 hloop k e' rest m0 hs hl).mono (by omega)
  · have e : renderAt L s = renderAt (L + 1) s := by
      simp only [renderAt, wrap]
      by_cases h1 : s.prec < L
      · have : s.prec < L + 1 := by omega
        simp [h1, this]
      · have : ¬ s.prec < L + 1 := by omega
        simp [h1, this]
    rw [e]
    have h1 := p1 (L + 1) k (by omega) hs
    exact (enter hloop h1 hl (N := s.need + m0) (by omega) (by omega))


theorem good_of_own_plain (s : Surf) (B1 : Nat)
    (hhead : ∃ t ts', render s = t :: ts' ∧ headOK 0 s.prec t.kind = true ∧ exprStart t.kind = true)
    (hp : s.prec ≤ 16) (hloop : isLoopLevel s.prec = false) (hB : B1 + 35 ≤ s.need)
    (own1 : ∀ k, Stops s.prec k → Parses s.prec (render s ++ k) (toExpr s) k B1) : Good s :=
  good_of_own s B1 hhead hp hB own1 (fun h => by rw [hloop] at h; cases h)

theorem good_of_own_loop (s : Surf) (B : Nat)
    (hhead : ∃ t ts', render s = t :: ts' ∧ headOK 0 s.prec t.kind = true ∧ exprStart t.kind = true)
    (hp : s.prec ≤ 16) (hloop : isLoopLevel s.prec = true) (hB : B + 36 ≤ s.need)
    (own2 : ∀ k e' rest m0, Stops (s.prec + 1) k →
      LoopsW s.prec (toExpr s) k e' rest m0 → Parses s.prec (render s ++ k) e' rest (B + m0)) : Good s := by
  refine good_of_own s (B + 1) hhead hp (by omega) ?_ ?_
  · intro k hs
    exact own2 k (toExpr s) k 1 (hs.mono (Nat.le_succ _)) (loop_exit hloop hs)
  · intro _ k e' rest m0 hs hl
    exact (own2 k e' rest m0 hs hl).mono (by omega)

end NumbatModel.Syntax
