import NumbatModel.Model.PrefixParser
/-!
Helper lemmas for C13 (`Props/C13.lean`): what a *reading* of an identifier is, soundness and completeness of
`parse` with respect to readings, facts about the prefix table (checked by evaluation of the 34 rows), and the
preservation of the invariant by every definition operation.
-/
namespace NumbatModel.PrefixParser

/-! ### readings -/

/-- all spellings of a prefix row -/
def PrefixEntry.strings (e : PrefixEntry) : List Str := e.long :: e.shorts

/-- `s` reads as prefix `p` applied to the registered alias `a` (with registration data `info`): either `s` is the
alias itself and `p` is no prefix, or `s` is a prefix string the alias accepts (kind metric/binary and form
short/long as registered) followed by the alias. -/
def Reading (units : List (Str × UnitInfo)) (s : Str) (p : Prefix) (a : Str) (info : UnitInfo) : Prop :=
  (a, info) ∈ units ∧
    ((s = a ∧ p = Prefix.none) ∨
     ∃ e ∈ prefixes, ∃ ps ∈ acceptedStrings info e, s = ps ++ a ∧ p = e.pfx)

/-- no identifier has two different readings -/
def Unambiguous (pp : PrefixParser) : Prop :=
  ∀ s p a i p' a' i', Reading pp.units s p a i → Reading pp.units s p' a' i' → p = p' ∧ a = a' ∧ i = i'

/-- no identifier is both a unit reading and another identifier (variable, function) -/
def Disjoint (pp : PrefixParser) : Prop :=
  ∀ s p a i, Reading pp.units s p a i → s ∉ pp.others

/-! ### the prefix table -/

theorem prefix_strings_nonempty_b :
    (prefixes.all fun e => e.strings.all fun ps => !ps.isEmpty) = true := by decide

theorem prefix_strings_injective_b :
    (prefixes.all fun e => prefixes.all fun e' => e.strings.all fun ps =>
      !(e'.strings.contains ps) || decide (e = e')) = true := by decide +kernel

theorem prefix_strings_nonempty {e : PrefixEntry} (he : e ∈ prefixes) {ps : Str} (hps : ps ∈ e.strings) :
    ps ≠ [] := by
  have h := prefix_strings_nonempty_b
  rw [List.all_eq_true] at h
  have h1 := h e he
  rw [List.all_eq_true] at h1
  have h2 := h1 ps hps
  intro hnil
  subst hnil
  simp at h2

theorem prefix_strings_injective {e e' : PrefixEntry} (he : e ∈ prefixes) (he' : e' ∈ prefixes) {ps : Str}
    (hps : ps ∈ e.strings) (hps' : ps ∈ e'.strings) : e = e' := by
  have h := prefix_strings_injective_b
  rw [List.all_eq_true] at h
  have h1 := h e he
  rw [List.all_eq_true] at h1
  have h2 := h1 e' he'
  rw [List.all_eq_true] at h2
  have h3 := h2 ps hps
  simp only [Bool.or_eq_true, Bool.not_eq_true', decide_eq_true_eq] at h3
  rcases h3 with h3 | h3
  · have : e'.strings.contains ps = true := List.contains_iff_mem.mpr hps'
    rw [this] at h3
    exact absurd h3 (by decide)
  · exact h3

theorem asString_table_b :
    (prefixes.all fun e => decide (e.pfx.asStringLong = e.long) && e.shorts.contains e.pfx.asStringShort) = true := by
  decide +kernel

theorem asStringLong_of_mem {e : PrefixEntry} (he : e ∈ prefixes) : e.pfx.asStringLong = e.long := by
  have h := asString_table_b
  rw [List.all_eq_true] at h
  have h1 := h e he
  simp only [Bool.and_eq_true, decide_eq_true_eq] at h1
  exact h1.1

theorem asStringShort_of_mem {e : PrefixEntry} (he : e ∈ prefixes) : e.pfx.asStringShort ∈ e.shorts := by
  have h := asString_table_b
  rw [List.all_eq_true] at h
  have h1 := h e he
  simp only [Bool.and_eq_true, decide_eq_true_eq] at h1
  exact List.contains_iff_mem.mp h1.2

theorem asString_none : Prefix.none.asStringShort = [] ∧ Prefix.none.asStringLong = [] := by
  constructor <;> decide

/-! ### string helpers -/

theorem splitsAs_iff {p name input : Str} : splitsAs p name input = true ↔ input = p ++ name := by
  unfold splitsAs
  rw [Bool.and_eq_true, List.isPrefixOf_iff_prefix, decide_eq_true_eq]
  constructor
  · rintro ⟨⟨t, rfl⟩, h⟩
    rw [List.drop_left] at h
    rw [h]
  · rintro rfl
    exact ⟨List.prefix_append _ _, List.drop_left⟩

theorem mem_acceptedStrings {info : UnitInfo} {e : PrefixEntry} {ps : Str} :
    ps ∈ acceptedStrings info e ↔
      kindOk info e.pfx = true ∧
        ((info.accepts.long = true ∧ ps = e.long) ∨ (info.accepts.short = true ∧ ps ∈ e.shorts)) := by
  unfold acceptedStrings
  by_cases hk : kindOk info e.pfx = true
  · simp only [hk, if_true, true_and, List.mem_append]
    constructor
    · rintro (h | h)
      · by_cases hl : info.accepts.long = true
        · simp only [hl, if_true, List.mem_singleton] at h
          exact Or.inl ⟨hl, h⟩
        · simp [hl] at h
      · by_cases hs : info.accepts.short = true
        · simp only [hs, if_true] at h
          exact Or.inr ⟨hs, h⟩
        · simp [hs] at h
    · rintro (⟨hl, rfl⟩ | ⟨hs, h⟩)
      · left; simp [hl]
      · right; simp [hs, h]
  · simp [hk]

theorem acceptedStrings_sub_strings {info : UnitInfo} {e : PrefixEntry} {ps : Str}
    (h : ps ∈ acceptedStrings info e) : ps ∈ e.strings := by
  rcases mem_acceptedStrings.mp h with ⟨_, ⟨_, rfl⟩ | ⟨_, h⟩⟩
  · exact List.mem_cons_self
  · exact List.mem_cons_of_mem _ h

theorem matchEntry_iff {info : UnitInfo} {name input : Str} {e : PrefixEntry} :
    matchEntry info name input e = true ↔ ∃ ps ∈ acceptedStrings info e, input = ps ++ name := by
  unfold matchEntry
  simp only [Bool.or_eq_true, Bool.and_eq_true, List.any_eq_true, splitsAs_iff]
  constructor
  · rintro (⟨⟨hl, hk⟩, h⟩ | ⟨⟨hs, hk⟩, ps, hps, h⟩)
    · exact ⟨e.long, mem_acceptedStrings.mpr ⟨hk, Or.inl ⟨hl, rfl⟩⟩, h⟩
    · exact ⟨ps, mem_acceptedStrings.mpr ⟨hk, Or.inr ⟨hs, hps⟩⟩, h⟩
  · rintro ⟨ps, hps, h⟩
    rcases mem_acceptedStrings.mp hps with ⟨hk, ⟨hl, rfl⟩ | ⟨hs, hm⟩⟩
    · exact Or.inl ⟨⟨hl, hk⟩, h⟩
    · exact Or.inr ⟨⟨hs, hk⟩, ps, hm, h⟩

/-! ### `IndexMap` helpers -/

theorem getUnit_some_mem {units : List (Str × UnitInfo)} {s : Str} {i : UnitInfo}
    (h : getUnit units s = some i) : (s, i) ∈ units := by
  induction units with
  | nil => simp [getUnit] at h
  | cons kv rest ih =>
    obtain ⟨k, v⟩ := kv
    unfold getUnit at h
    by_cases hk : k = s
    · simp only [hk, if_true, Option.some.injEq] at h
      subst hk; subst h
      exact List.mem_cons_self
    · simp only [hk, if_false] at h
      exact List.mem_cons_of_mem _ (ih h)

theorem getUnit_none_not_mem {units : List (Str × UnitInfo)} {s : Str}
    (h : getUnit units s = none) (i : UnitInfo) : (s, i) ∉ units := by
  induction units with
  | nil => simp
  | cons kv rest ih =>
    obtain ⟨k, v⟩ := kv
    unfold getUnit at h
    by_cases hk : k = s
    · simp [hk] at h
    · simp only [hk, if_false] at h
      intro hm
      rcases List.mem_cons.mp hm with hm | hm
      · exact hk (by injection hm with h1 _; exact h1.symm)
      · exact ih h hm

theorem insertUnit_of_getUnit_none {units : List (Str × UnitInfo)} {s : Str} (i : UnitInfo)
    (h : getUnit units s = none) : insertUnit units s i = units ++ [(s, i)] := by
  induction units with
  | nil => rfl
  | cons kv rest ih =>
    obtain ⟨k, v⟩ := kv
    unfold getUnit at h
    by_cases hk : k = s
    · simp [hk] at h
    · simp only [hk, if_false] at h
      simp only [insertUnit, hk, if_false, List.cons_append, ih h]

/-! ### `parse` is sound and complete for readings -/

theorem parseLoop_sound {units : List (Str × UnitInfo)} {input : Str} {p : Prefix} {a f : Str}
    (h : parseLoop units input = .unit p a f) :
    ∃ info, (a, info) ∈ units ∧ info.fullName = f ∧
      ∃ e ∈ prefixes, ∃ ps ∈ acceptedStrings info e, input = ps ++ a ∧ p = e.pfx := by
  induction units with
  | nil => simp [parseLoop] at h
  | cons kv rest ih =>
    obtain ⟨name, info⟩ := kv
    unfold parseLoop at h
    split at h
    · obtain ⟨i, hm, hr⟩ := ih h
      exact ⟨i, List.mem_cons_of_mem _ hm, hr⟩
    · split at h
      · rename_i e he
        injection h with h1 h2 h3
        subst h1; subst h2; subst h3
        have hmem := List.mem_of_find?_eq_some he
        have hp := List.find?_some he
        obtain ⟨ps, hps, hin⟩ := matchEntry_iff.mp hp
        exact ⟨info, List.mem_cons_self, rfl, e, hmem, ps, hps, hin, rfl⟩
      · obtain ⟨i, hm, hr⟩ := ih h
        exact ⟨i, List.mem_cons_of_mem _ hm, hr⟩

theorem parseLoop_identifier {units : List (Str × UnitInfo)} {input t : Str}
    (h : parseLoop units input = .identifier t) : t = input := by
  induction units with
  | nil => simp only [parseLoop, ParseResult.identifier.injEq] at h; exact h.symm
  | cons kv rest ih =>
    obtain ⟨name, info⟩ := kv
    unfold parseLoop at h
    split at h
    · exact ih h
    · split at h
      · cases h
      · exact ih h

theorem parseLoop_complete {units : List (Str × UnitInfo)} {a : Str} {info : UnitInfo} {e : PrefixEntry} {ps : Str}
    (hm : (a, info) ∈ units) (he : e ∈ prefixes) (hps : ps ∈ acceptedStrings info e) :
    ∃ p' a' f', parseLoop units (ps ++ a) = .unit p' a' f' := by
  induction units with
  | nil => cases hm
  | cons kv rest ih =>
    obtain ⟨name, info'⟩ := kv
    unfold parseLoop
    split
    · rename_i hsuf
      rcases List.mem_cons.mp hm with hm | hm
      · injection hm with h1 h2
        subst h1
        have : a.isSuffixOf (ps ++ a) = true := List.isSuffixOf_iff_suffix.mpr (List.suffix_append _ _)
        simp [this] at hsuf
      · exact ih hm
    · split
      · exact ⟨_, _, _, rfl⟩
      · rename_i hnone
        rcases List.mem_cons.mp hm with hm | hm
        · injection hm with h1 h2
          subst h1; subst h2
          have hme : matchEntry info a (ps ++ a) e = true := matchEntry_iff.mpr ⟨ps, hps, rfl⟩
          have := List.find?_eq_none.mp hnone e he
          simp [hme] at this
        · exact ih hm

theorem parse_sound {pp : PrefixParser} {s : Str} {p : Prefix} {a f : Str} (h : parse pp s = .unit p a f) :
    s ∉ pp.others ∧ ∃ info, Reading pp.units s p a info ∧ info.fullName = f := by
  unfold parse at h
  split at h
  · cases h
  · rename_i hno
    refine ⟨fun hmem => hno (List.contains_iff_mem.mpr hmem), ?_⟩
    split at h
    · rename_i info hget
      injection h with h1 h2 h3
      subst h1; subst h2; subst h3
      exact ⟨info, ⟨getUnit_some_mem hget, Or.inl ⟨rfl, rfl⟩⟩, rfl⟩
    · obtain ⟨info, hm, hf, e, he, ps, hps, hin, hp⟩ := parseLoop_sound h
      exact ⟨info, ⟨hm, Or.inr ⟨e, he, ps, hps, hin, hp⟩⟩, hf⟩

theorem parse_identifier {pp : PrefixParser} {s t : Str} (h : parse pp s = .identifier t) : t = s := by
  unfold parse at h
  split at h
  · injection h with h; exact h.symm
  · split at h
    · cases h
    · exact parseLoop_identifier h

theorem parse_complete {pp : PrefixParser} {s : Str} {p : Prefix} {a : Str} {info : UnitInfo}
    (hr : Reading pp.units s p a info) (hno : s ∉ pp.others) : ∃ p' a' f', parse pp s = .unit p' a' f' := by
  unfold parse
  have : pp.others.contains s = false := by
    cases hc : pp.others.contains s
    · rfl
    · exact absurd (List.contains_iff_mem.mp hc) hno
  simp only [this, Bool.false_eq_true, if_false]
  split
  · exact ⟨_, _, _, rfl⟩
  · rename_i hget
    obtain ⟨hm, hr⟩ := hr
    rcases hr with ⟨rfl, _⟩ | ⟨e, he, ps, hps, rfl, _⟩
    · exact absurd hm (getUnit_none_not_mem hget info)
    · exact parseLoop_complete hm he hps

/-- under the invariant `parse` returns exactly the reading -/
theorem parse_eq_of_reading {pp : PrefixParser} (hu : Unambiguous pp) {s : Str} {p : Prefix} {a : Str}
    {info : UnitInfo} (hr : Reading pp.units s p a info) (hno : s ∉ pp.others) :
    parse pp s = .unit p a info.fullName := by
  obtain ⟨p', a', f', hp⟩ := parse_complete hr hno
  obtain ⟨_, info', hr', hf⟩ := parse_sound hp
  obtain ⟨h1, h2, h3⟩ := hu s p a info p' a' info' hr hr'
  subst h1; subst h2; subst h3; subst hf
  exact hp

/-- an identifier without a reading is a plain identifier -/
theorem parse_plain_of_no_reading {pp : PrefixParser} {s : Str}
    (h : ∀ p a i, ¬ Reading pp.units s p a i) : parse pp s = .identifier s := by
  cases hp : parse pp s with
  | identifier t => rw [parse_identifier hp]
  | unit p a f =>
    obtain ⟨_, info, hr, _⟩ := parse_sound hp
    exact absurd hr (h p a info)

/-! ### definitions preserve the invariant -/

theorem ensure_none {pp : PrefixParser} {name : Str} {c : Bool} (h : ensureNameIsAvailable pp name c = none) :
    name ∉ reservedIdentifiers ∧ (c = true → name ∉ pp.others) ∧ ∃ t, parse pp name = .identifier t := by
  unfold ensureNameIsAvailable at h
  split at h
  · cases h
  · rename_i hres
    split at h
    · cases h
    · rename_i hoth
      refine ⟨fun hm => hres (List.contains_iff_mem.mpr hm), ?_, ?_⟩
      · intro hc hm
        apply hoth
        simp [hc, hm]
      · split at h
        · exact ⟨_, by assumption⟩
        · cases h

theorem firstError_none {pp : PrefixParser} {names : List Str} (h : firstError pp names = none) :
    ∀ n ∈ names, ensureNameIsAvailable pp n true = none := by
  induction names with
  | nil => intro n hn; cases hn
  | cons x rest ih =>
    unfold firstError at h
    split at h
    · cases h
    · rename_i hx
      intro n hn
      rcases List.mem_cons.mp hn with rfl | hn
      · exact hx
      · exact ih h n hn

/-- a name that passed `ensure_name_is_available` has no reading -/
theorem no_reading_of_available {pp : PrefixParser} {n : Str} {t : Str} (hp : parse pp n = .identifier t)
    (hno : n ∉ pp.others) : ∀ p a i, ¬ Reading pp.units n p a i := by
  intro p a i hr
  obtain ⟨p', a', f', hp'⟩ := parse_complete hr hno
  rw [hp] at hp'
  cases hp'

theorem mem_candidateNames_self {a : Str} {info : UnitInfo} : a ∈ candidateNames a info :=
  List.mem_cons_self

theorem mem_candidateNames_prefixed {a : Str} {info : UnitInfo} {e : PrefixEntry} {ps : Str}
    (he : e ∈ prefixes) (hps : ps ∈ acceptedStrings info e) : ps ++ a ∈ candidateNames a info := by
  unfold candidateNames
  apply List.mem_cons_of_mem
  rw [List.mem_flatMap]
  exact ⟨e, he, List.mem_map.mpr ⟨ps, hps, rfl⟩⟩

theorem reading_append {units : List (Str × UnitInfo)} {a : Str} {info : UnitInfo} {s : Str} {p : Prefix}
    {b : Str} {i : UnitInfo} (h : Reading (units ++ [(a, info)]) s p b i) :
    Reading units s p b i ∨ (b = a ∧ i = info ∧ Reading [(a, info)] s p b i) := by
  obtain ⟨hm, hs⟩ := h
  rcases List.mem_append.mp hm with hm | hm
  · exact Or.inl ⟨hm, hs⟩
  · have := List.mem_singleton.mp hm
    injection this with h1 h2
    subst h1; subst h2
    exact Or.inr ⟨rfl, rfl, ⟨List.mem_singleton.mpr rfl, hs⟩⟩

/-- the string of a reading of the alias being added is one of the names `add_unit` checked -/
theorem new_reading_mem_candidates {a : Str} {info : UnitInfo} {s : Str} {p : Prefix} {b : Str} {i : UnitInfo}
    (h : Reading [(a, info)] s p b i) : s ∈ candidateNames a info := by
  obtain ⟨hm, hs⟩ := h
  have := List.mem_singleton.mp hm
  injection this with h1 h2
  subst h1; subst h2
  rcases hs with ⟨rfl, _⟩ | ⟨e, he, ps, hps, rfl, _⟩
  · exact mem_candidateNames_self
  · exact mem_candidateNames_prefixed he hps

/-- two readings of the same string through the same alias agree on the prefix -/
theorem new_readings_agree {a : Str} {info : UnitInfo} {s : Str} {p p' : Prefix}
    (h : Reading [(a, info)] s p a info) (h' : Reading [(a, info)] s p' a info) : p = p' := by
  obtain ⟨_, hs⟩ := h
  obtain ⟨_, hs'⟩ := h'
  rcases hs with ⟨rfl, hp⟩ | ⟨e, he, ps, hps, rfl, hp⟩
  · rcases hs' with ⟨_, hp'⟩ | ⟨e', he', ps', hps', heq, _⟩
    · rw [hp, hp']
    · exfalso
      have : ps' = [] := by
        have h1 : ([] : Str) ++ s = ps' ++ s := by simpa using heq
        exact (List.append_cancel_right h1).symm
      exact prefix_strings_nonempty he' (acceptedStrings_sub_strings hps') this
  · rcases hs' with ⟨heq, _⟩ | ⟨e', he', ps', hps', heq, hp'⟩
    · exfalso
      have : ps = [] := by
        have h1 : ps ++ a = ([] : Str) ++ a := by simpa using heq
        exact List.append_cancel_right h1
      exact prefix_strings_nonempty he (acceptedStrings_sub_strings hps) this
    · have hpe : ps = ps' := List.append_cancel_right heq
      subst hpe
      have := prefix_strings_injective he he' (acceptedStrings_sub_strings hps) (acceptedStrings_sub_strings hps')
      subst this
      rw [hp, hp']

theorem addUnit_ok {pp pp' : PrefixParser} {a : Str} {info : UnitInfo} (h : addUnit pp a info = .ok pp') :
    (∀ n ∈ candidateNames a info, n ∉ pp.others ∧ ∀ p b i, ¬ Reading pp.units n p b i) ∧
    pp' = { pp with units := pp.units ++ [(a, info)] } := by
  unfold addUnit at h
  split at h
  · cases h
  · rename_i hfe
    have hall := firstError_none hfe
    have hc : ∀ n ∈ candidateNames a info, n ∉ pp.others ∧ ∀ p b i, ¬ Reading pp.units n p b i := by
      intro n hn
      obtain ⟨_, hoth, t, hp⟩ := ensure_none (hall n hn)
      exact ⟨hoth rfl, no_reading_of_available hp (hoth rfl)⟩
    refine ⟨hc, ?_⟩
    have hget : getUnit pp.units a = none := by
      cases hg : getUnit pp.units a with
      | none => rfl
      | some i =>
        exfalso
        exact (hc a mem_candidateNames_self).2 Prefix.none a i ⟨getUnit_some_mem hg, Or.inl ⟨rfl, rfl⟩⟩
    injection h with h
    rw [← h, insertUnit_of_getUnit_none info hget]

theorem unambiguous_append {units : List (Str × UnitInfo)} {a : Str} {info : UnitInfo}
    (hu : ∀ s p b i p' b' i', Reading units s p b i → Reading units s p' b' i' → p = p' ∧ b = b' ∧ i = i')
    (hc : ∀ n ∈ candidateNames a info, ∀ p b i, ¬ Reading units n p b i) :
    ∀ s p b i p' b' i', Reading (units ++ [(a, info)]) s p b i → Reading (units ++ [(a, info)]) s p' b' i' →
      p = p' ∧ b = b' ∧ i = i' := by
  intro s p b i p' b' i' hr hr'
  rcases reading_append hr with hr1 | ⟨hb, hi, hr1⟩
  · rcases reading_append hr' with hr2 | ⟨hb', hi', hr2⟩
    · exact hu s p b i p' b' i' hr1 hr2
    · exact absurd hr1 (hc s (new_reading_mem_candidates hr2) p b i)
  · rcases reading_append hr' with hr2 | ⟨hb', hi', hr2⟩
    · exact absurd hr2 (hc s (new_reading_mem_candidates hr1) p' b' i')
    · subst hb; subst hi; subst hb'; subst hi'
      exact ⟨new_readings_agree hr1 hr2, rfl, rfl⟩

theorem addUnit_preserves_unambiguous {pp pp' : PrefixParser} {a : Str} {info : UnitInfo}
    (hu : Unambiguous pp) (h : addUnit pp a info = .ok pp') : Unambiguous pp' := by
  obtain ⟨hc, hpp⟩ := addUnit_ok h
  subst hpp
  exact unambiguous_append hu (fun n hn => (hc n hn).2)

theorem addUnit_preserves_disjoint {pp pp' : PrefixParser} {a : Str} {info : UnitInfo}
    (hd : Disjoint pp) (h : addUnit pp a info = .ok pp') : Disjoint pp' := by
  obtain ⟨hc, hpp⟩ := addUnit_ok h
  subst hpp
  intro s p b i hr
  have hr : Reading (pp.units ++ [(a, info)]) s p b i := hr
  show s ∉ pp.others
  rcases reading_append hr with hr1 | ⟨_, _, hr1⟩
  · exact hd s p b i hr1
  · exact (hc s (new_reading_mem_candidates hr1)).1

theorem ensure_none_of {pp : PrefixParser} {name : Str} (hres : name ∉ reservedIdentifiers) (hoth : name ∉ pp.others)
    (hno : ∀ p a i, ¬ Reading pp.units name p a i) : ensureNameIsAvailable pp name true = none := by
  unfold ensureNameIsAvailable
  have h1 : reservedIdentifiers.contains name = false := by
    cases hc : reservedIdentifiers.contains name
    · rfl
    · exact absurd (List.contains_iff_mem.mp hc) hres
  have h2 : pp.others.contains name = false := by
    cases hc : pp.others.contains name
    · rfl
    · exact absurd (List.contains_iff_mem.mp hc) hoth
  simp only [h1, h2, Bool.false_eq_true, if_false, Bool.and_false]
  rw [parse_plain_of_no_reading hno]

theorem firstError_none_of {pp : PrefixParser} {names : List Str}
    (h : ∀ n ∈ names, ensureNameIsAvailable pp n true = none) : firstError pp names = none := by
  induction names with
  | nil => rfl
  | cons x rest ih =>
    unfold firstError
    rw [h x List.mem_cons_self]
    exact ih (fun n hn => h n (List.mem_cons_of_mem _ hn))

/-- `add_unit` accepts exactly when none of the names it checks is reserved, another identifier, or already a
reading -/
theorem addUnit_isOk_iff {pp : PrefixParser} {a : Str} {info : UnitInfo} :
    (∃ pp', addUnit pp a info = .ok pp') ↔
      ∀ n ∈ candidateNames a info, n ∉ reservedIdentifiers ∧ n ∉ pp.others ∧ ∀ p b i, ¬ Reading pp.units n p b i := by
  constructor
  · rintro ⟨pp', h⟩
    intro n hn
    have hc := (addUnit_ok h).1 n hn
    refine ⟨?_, hc.1, hc.2⟩
    unfold addUnit at h
    split at h
    · cases h
    · rename_i hfe
      exact (ensure_none (firstError_none hfe n hn)).1
  · intro h
    have : firstError pp (candidateNames a info) = none :=
      firstError_none_of (fun n hn => ensure_none_of (h n hn).1 (h n hn).2.1 (h n hn).2.2)
    unfold addUnit
    rw [this]
    exact ⟨_, rfl⟩

theorem addUnit_units {pp pp' : PrefixParser} {a : Str} {info : UnitInfo} (h : addUnit pp a info = .ok pp') :
    pp'.units = pp.units ++ [(a, info)] ∧ pp'.others = pp.others := by
  obtain ⟨_, rfl⟩ := addUnit_ok h
  exact ⟨rfl, rfl⟩

theorem mem_insertOther {others : List Str} {x s : Str} (h : s ∈ insertOther others x) : s = x ∨ s ∈ others := by
  unfold insertOther at h
  split at h
  · exact Or.inr h
  · exact List.mem_cons.mp h

theorem addOther_ok {pp pp' : PrefixParser} {x : Str} (h : addOtherIdentifier pp x = .ok pp') :
    (∀ p a i, ¬ Reading pp.units x p a i) ∨ x ∈ pp.others := by
  unfold addOtherIdentifier at h
  split at h
  · cases h
  · rename_i hen
    obtain ⟨_, _, t, hp⟩ := ensure_none hen
    by_cases hx : x ∈ pp.others
    · exact Or.inr hx
    · exact Or.inl (no_reading_of_available hp hx)

theorem addOther_state {pp pp' : PrefixParser} {x : Str} (h : addOtherIdentifier pp x = .ok pp') :
    pp'.units = pp.units ∧ pp'.others = insertOther pp.others x := by
  unfold addOtherIdentifier at h
  split at h
  · cases h
  · injection h with h; subst h; exact ⟨rfl, rfl⟩

theorem addOther_preserves_unambiguous {pp pp' : PrefixParser} {x : Str}
    (hu : Unambiguous pp) (h : addOtherIdentifier pp x = .ok pp') : Unambiguous pp' := by
  obtain ⟨hun, _⟩ := addOther_state h
  intro s p a i p' a' i' hr hr'
  rw [hun] at hr hr'
  exact hu s p a i p' a' i' hr hr'

theorem addOther_preserves_disjoint {pp pp' : PrefixParser} {x : Str}
    (hd : Disjoint pp) (h : addOtherIdentifier pp x = .ok pp') : Disjoint pp' := by
  obtain ⟨hun, hot⟩ := addOther_state h
  intro s p a i hr hmem
  rw [hun] at hr
  rw [hot] at hmem
  rcases mem_insertOther hmem with rfl | hmem
  · rcases addOther_ok h with hno | hin
    · exact hno p a i hr
    · exact hd s p a i hr hin
  · exact hd s p a i hr hmem

theorem addShadowing_state {pp pp' : PrefixParser} {x : Str} (h : addShadowingIdentifier pp x = .ok pp') :
    pp'.units = pp.units := by
  unfold addShadowingIdentifier at h
  split at h
  · cases h
  · injection h with h; subst h; rfl

theorem addShadowing_preserves_unambiguous {pp pp' : PrefixParser} {x : Str}
    (hu : Unambiguous pp) (h : addShadowingIdentifier pp x = .ok pp') : Unambiguous pp' := by
  have hun := addShadowing_state h
  intro s p a i p' a' i' hr hr'
  rw [hun] at hr hr'
  exact hu s p a i p' a' i' hr hr'

/-- the two-part invariant of a session's prefix parser -/
def Inv (pp : PrefixParser) : Prop := Unambiguous pp ∧ Disjoint pp

theorem inv_new : Inv PrefixParser.new := by
  constructor
  · intro s p a i p' a' i' hr _
    exact absurd hr.1 (by simp [PrefixParser.new])
  · intro s p a i hr
    exact absurd hr.1 (by simp [PrefixParser.new])

theorem registerAll_inv {metric binary : Bool} {fullName : Str} {l : List (Str × AcceptsPrefix)}
    {pp pp' : PrefixParser} (hi : Inv pp) (h : registerAll metric binary fullName pp l = .ok pp') : Inv pp' := by
  induction l generalizing pp with
  | nil => simp only [registerAll, Except.ok.injEq] at h; subst h; exact hi
  | cons x rest ih =>
    obtain ⟨alias, ap⟩ := x
    unfold registerAll at h
    split at h
    · cases h
    · rename_i pp1 hadd
      exact ih ⟨addUnit_preserves_unambiguous hi.1 hadd, addUnit_preserves_disjoint hi.2 hadd⟩ h

/-- everything `registerAll` was given ends up registered, what was registered stays, other identifiers are untouched -/
theorem registerAll_units {metric binary : Bool} {fullName : Str} {l : List (Str × AcceptsPrefix)}
    {pp pp' : PrefixParser} (h : registerAll metric binary fullName pp l = .ok pp') :
    pp'.units = pp.units ++ l.map (fun x => (x.1, ⟨x.2, metric, binary, fullName⟩)) ∧ pp'.others = pp.others := by
  induction l generalizing pp with
  | nil => simp only [registerAll, Except.ok.injEq] at h; subst h; simp
  | cons x rest ih =>
    obtain ⟨alias, ap⟩ := x
    unfold registerAll at h
    split at h
    · cases h
    · rename_i pp1 hadd
      obtain ⟨h1, h2⟩ := ih h
      obtain ⟨h3, h4⟩ := addUnit_units hadd
      rw [h1, h2, h3, h4]
      simp

theorem applyDef_inv {pp pp' : PrefixParser} {d : Def} (hi : Inv pp) (h : applyDef pp d = .ok pp') : Inv pp' := by
  cases d with
  | unit name metric binary aliases =>
    simp only [applyDef, registerNameAndAliases] at h
    exact registerAll_inv hi h
  | var name =>
    simp only [applyDef] at h
    exact ⟨addOther_preserves_unambiguous hi.1 h, addOther_preserves_disjoint hi.2 h⟩
  | func name params =>
    simp only [applyDef] at h
    split at h
    · cases h
    · rename_i pp1 hadd
      split at h
      · cases h
      · injection h with h
        subst h
        exact ⟨addOther_preserves_unambiguous hi.1 hadd, addOther_preserves_disjoint hi.2 hadd⟩

theorem runDefs_inv {pp : PrefixParser} (hi : Inv pp) (defs : List Def) : Inv (runDefs pp defs) := by
  induction defs generalizing pp with
  | nil => exact hi
  | cons d rest ih =>
    unfold runDefs
    split
    · rename_i pp' hd
      exact ih (applyDef_inv hi hd)
    · exact ih hi

theorem registerRows_inv {rows : List UnitRow} {pp pp' : PrefixParser} (hi : Inv pp)
    (h : registerRows pp rows = .ok pp') : Inv pp' := by
  induction rows generalizing pp with
  | nil => simp only [registerRows, Except.ok.injEq] at h; subst h; exact hi
  | cons r rest ih =>
    unfold registerRows at h
    split at h
    · cases h
    · rename_i pp1 hreg
      exact ih (registerAll_inv hi hreg) h

theorem registerRows_mem {rows : List UnitRow} {pp pp' : PrefixParser} (h : registerRows pp rows = .ok pp') :
    (∀ x ∈ pp.units, x ∈ pp'.units) ∧ pp'.others = pp.others ∧
    ∀ r ∈ rows, ∀ a ∈ r.aliases, (a.1, (⟨a.2, r.metric, r.binary, r.fullName⟩ : UnitInfo)) ∈ pp'.units := by
  induction rows generalizing pp with
  | nil =>
    simp only [registerRows, Except.ok.injEq] at h; subst h
    exact ⟨fun _ hx => hx, rfl, fun r hr => by cases hr⟩
  | cons r rest ih =>
    unfold registerRows at h
    split at h
    · cases h
    · rename_i pp1 hreg
      obtain ⟨h1, h2, h3⟩ := ih h
      obtain ⟨hu, ho⟩ := registerAll_units hreg
      refine ⟨fun x hx => h1 x (by rw [hu]; exact List.mem_append_left _ hx), by rw [h2, ho], ?_⟩
      intro r' hr' a ha
      rcases List.mem_cons.mp hr' with rfl | hr'
      · apply h1
        rw [hu]
        apply List.mem_append_right
        exact List.mem_map.mpr ⟨a, ha, rfl⟩
      · exact h3 r' hr' a ha

end NumbatModel.PrefixParser
