import NumbatModel.Lemmas.EchoParserOps
/-! Helper lemmas for C15 (`print_idempotent`): the predicate `Stable`, the operand class `cls` that the
printer inspects, `Same`, printed forms of folded chains, and the statement `Idem` of the induction. -/
namespace NumbatModel.Printer

def Expr.isNum : Expr → Bool
  | .num _ _ => true
  | _ => false
def Expr.isUnit : Expr → Bool
  | .unit _ _ => true
  | _ => false
def Expr.isIdent : Expr → Bool
  | .ident _ => true
  | _ => false

/-- the first factor of the sequence a product contributes when printed without parentheses -/
def firstFactor : Expr → Expr
  | .bin .mul l r => if isFused l r then .bin .mul l r else firstFactor l
  | e => e

/-- the first operand of a conversion chain -/
def firstConv : Expr → Expr
  | .bin .conv l _ => firstConv l
  | e => e

/-- Trees whose printed form is a fixed point of print ∘ parse: no product `n × (u × …)` of a scalar with a
right-nested product that starts with a unit or identifier (left-nesting would fuse `n u`), and no
conversion `a ➞ ((if …) ➞ …)` (left-nesting would make the conditional a right operand). -/
def Stable : Expr → Bool
  | .neg e => Stable e
  | .not e => Stable e
  | .fact _ e => Stable e
  | .cond c t e => Stable c && Stable t && Stable e
  | .bin .mul l r =>
    Stable l && Stable r && !(l.isNum && isGenMul r && ((firstFactor r).isUnit || (firstFactor r).isIdent))
  | .bin .conv l r => Stable l && Stable r && !(firstConv r).isCond
  | .bin _ l r => Stable l && Stable r
  | _ => true

/-- what the printer inspects of an operand -/
def cls : Expr → Nat
  | .num _ _ => 0
  | .ident _ => 1
  | .unit _ _ => 2
  | .neg _ => 4
  | .fact _ _ => 4
  | .not _ => 4
  | .cond _ _ _ => 5
  | .bin .add _ _ => 6
  | .bin .mul l r => if l.isNum && r.isUnit then 7 else 8
  | .bin .pow _ _ => 9
  | .bin _ _ _ => 10
  | .binDate _ _ _ => 11
  | _ => 3

theorem isAtomic_cls (e : Expr) : e.isAtomic = decide (cls e ≤ 3) := by
  cases e with
  | bin o l r => cases o <;> simp [Expr.isAtomic, cls] <;> (split <;> simp)
  | _ => simp [Expr.isAtomic, cls]

theorem cls_mul (l r : Expr) : cls (.bin .mul l r) = 7 ∨ cls (.bin .mul l r) = 8 := by
  simp only [cls]; split <;> simp

theorem isBinPow_cls (e : Expr) : e.isBinPow = decide (cls e = 9) := by
  cases e with
  | bin o l r =>
    cases o
    case mul => rcases cls_mul l r with h | h <;> simp [Expr.isBinPow, h]
    all_goals simp [Expr.isBinPow, cls]
  | _ => simp [Expr.isBinPow, cls]
theorem isBinMul_cls (e : Expr) : e.isBinMul = decide (cls e = 7 ∨ cls e = 8) := by
  cases e with
  | bin o l r =>
    cases o
    case mul => rcases cls_mul l r with h | h <;> simp [Expr.isBinMul, h]
    all_goals simp [Expr.isBinMul, cls]
  | _ => simp [Expr.isBinMul, cls]
theorem isBinAdd_cls (e : Expr) : e.isBinAdd = decide (cls e = 6) := by
  cases e with
  | bin o l r =>
    cases o
    case mul => rcases cls_mul l r with h | h <;> simp [Expr.isBinAdd, h]
    all_goals simp [Expr.isBinAdd, cls]
  | _ => simp [Expr.isBinAdd, cls]
theorem isCond_cls (e : Expr) : e.isCond = decide (cls e = 5) := by
  cases e with
  | bin o l r =>
    cases o
    case mul => rcases cls_mul l r with h | h <;> simp [Expr.isCond, h]
    all_goals simp [Expr.isCond, cls]
  | _ => simp [Expr.isCond, cls]
theorem isNum_cls (e : Expr) : e.isNum = decide (cls e = 0) := by
  cases e with
  | bin o l r =>
    cases o
    case mul => rcases cls_mul l r with h | h <;> simp [Expr.isNum, h]
    all_goals simp [Expr.isNum, cls]
  | _ => simp [Expr.isNum, cls]
theorem isUnit_cls (e : Expr) : e.isUnit = decide (cls e = 2) := by
  cases e with
  | bin o l r =>
    cases o
    case mul => rcases cls_mul l r with h | h <;> simp [Expr.isUnit, h]
    all_goals simp [Expr.isUnit, cls]
  | _ => simp [Expr.isUnit, cls]
theorem isIdent_cls (e : Expr) : e.isIdent = decide (cls e = 1) := by
  cases e with
  | bin o l r =>
    cases o
    case mul => rcases cls_mul l r with h | h <;> simp [Expr.isIdent, h]
    all_goals simp [Expr.isIdent, cls]
  | _ => simp [Expr.isIdent, cls]

theorem withParensLiberal_cls (e : Expr) (t : List PTok) :
    withParensLiberal e t = if cls e = 7 then t else withParens e t := by
  unfold withParensLiberal
  split
  · simp [cls, Expr.isNum, Expr.isUnit]
  · rename_i h
    have : cls e ≠ 7 := by
      cases e with
      | bin o l r =>
        cases o <;> simp [cls]
        cases l <;> cases r <;> simp [Expr.isNum, Expr.isUnit]
        exact absurd rfl (h _ _ _ _)
      | _ => simp [cls]
    simp [this]

/-- `a` and `b` are printed alike, also as operands -/
def Same (a b : Expr) : Prop := cls a = cls b ∧ ptoks a = ptoks b

def wpP (e : Expr) : List PTok := withParens e (ptoks e)
def addOpP (e : Expr) : List PTok :=
  if e.isBinPow || e.isBinMul || e.isBinAdd then ptoks e else withParensLiberal e (ptoks e)
def mulOpP (e : Expr) : List PTok :=
  if e.isBinPow || e.isBinMul then ptoks e else withParensLiberal e (ptoks e)
def divROpP (e : Expr) : List PTok :=
  if e.isBinPow then ptoks e else withParensLiberal e (ptoks e)
def convLP (e : Expr) : List PTok := if e.isCond then wpP e else ptoks e

theorem Same.wpP_eq {a b : Expr} (h : Same a b) : wpP a = wpP b := by
  simp [wpP, withParens, isAtomic_cls, h.1, h.2]
theorem Same.addOpP_eq {a b : Expr} (h : Same a b) : addOpP a = addOpP b := by
  simp [addOpP, withParensLiberal_cls, withParens, isAtomic_cls, isBinPow_cls, isBinMul_cls, isBinAdd_cls, h.1, h.2]
theorem Same.mulOpP_eq {a b : Expr} (h : Same a b) : mulOpP a = mulOpP b := by
  simp [mulOpP, withParensLiberal_cls, withParens, isAtomic_cls, isBinPow_cls, isBinMul_cls, h.1, h.2]
theorem Same.divROpP_eq {a b : Expr} (h : Same a b) : divROpP a = divROpP b := by
  simp [divROpP, withParensLiberal_cls, withParens, isAtomic_cls, isBinPow_cls, h.1, h.2]
theorem Same.convLP_eq {a b : Expr} (h : Same a b) : convLP a = convLP b := by
  simp [convLP, isCond_cls, h.1, h.wpP_eq, h.2]

theorem ptoks_add (l r : Expr) : ptoks (.bin .add l r) = addOpP l ++ opToks .add ++ addOpP r := by
  simp [ptoks, binopToks, addOpP]
theorem ptoks_sub (l r : Expr) : ptoks (.bin .sub l r) = mulOpP l ++ opToks .sub ++ mulOpP r := by
  simp [ptoks, binopToks, mulOpP]
theorem ptoks_div (l r : Expr) : ptoks (.bin .div l r) = mulOpP l ++ opToks .div ++ divROpP r := by
  simp [ptoks, binopToks, mulOpP, divROpP]
theorem ptoks_conv (l r : Expr) (hr : r.isCond = false) :
    ptoks (.bin .conv l r) = convLP l ++ opToks .conv ++ ptoks r := by
  simp [ptoks, binopToks, convLP, wpP, hr]
theorem not_cond_of_firstConv {b : Expr} (h : (firstConv b).isCond = false) : b.isCond = false := by
  cases b with
  | cond c t e => simp [firstConv, Expr.isCond] at h
  | _ => simp [Expr.isCond]

/-- operands with the same class are conditionals together -/
theorem isCond_of_same {a b : Expr} (h : cls a = cls b) (hb : b.isCond = false) : a.isCond = false := by
  rw [isCond_cls, h, ← isCond_cls]; exact hb

theorem ptoks_plain {o : BinOp} (h : isPlainOp o = true) (l r : Expr) :
    ptoks (.bin o l r) = wpP l ++ opToks o ++ wpP r := by
  cases o <;> simp_all [isPlainOp, ptoks, binopToks, wpP]
theorem ptoks_mul_general {l r : Expr} (h : ¬ (l.isNum = true ∧ (r.isUnit = true ∨ r.isIdent = true))) :
    ptoks (.bin .mul l r) = mulOpP l ++ opToks .mul ++ mulOpP r := by
  simp only [ptoks, binopToks]
  split
  · simp [Expr.isNum, Expr.isUnit] at h
  · simp [Expr.isNum, Expr.isIdent] at h
  · simp [mulOpP]

/-! ## chains -/

theorem cls_foldBin_add (acc : Expr) : ∀ ys : List Expr, ys ≠ [] → cls (foldBin .add acc ys) = 6 := by
  intro ys
  induction ys generalizing acc with
  | nil => intro h; exact absurd rfl h
  | cons y ys ih =>
    intro _
    cases ys with
    | nil => simp [foldBin, cls]
    | cons z zs => simpa [foldBin] using ih (.bin .add acc y) (by simp)

theorem cls_foldBin_conv (acc : Expr) : ∀ ys : List Expr, ys ≠ [] → cls (foldBin .conv acc ys) = 10 := by
  intro ys
  induction ys generalizing acc with
  | nil => intro h; exact absurd rfl h
  | cons y ys ih =>
    intro _
    cases ys with
    | nil => simp [foldBin, cls]
    | cons z zs => simpa [foldBin] using ih (.bin .conv acc y) (by simp)

theorem cls_foldBin_mul (acc : Expr) : ∀ ys : List Expr, ys ≠ [] →
    (cls (foldBin .mul acc ys) = 7 ∨ cls (foldBin .mul acc ys) = 8) ∧ (foldBin .mul acc ys).isNum = false := by
  intro ys
  induction ys generalizing acc with
  | nil => intro h; exact absurd rfl h
  | cons y ys ih =>
    intro _
    cases ys with
    | nil => exact ⟨cls_mul acc y, rfl⟩
    | cons z zs => simpa [foldBin] using ih (.bin .mul acc y) (by simp)

theorem chains_ne : ∀ e : Expr, (canonC e).addR ≠ [] ∧ (canonC e).mulR ≠ [] ∧ (canonC e).convR ≠ []
  | .bin o l r => by
    have hr := chains_ne r
    cases o with
    | add => rw [canonC_add]; simp [hr.1]
    | conv => rw [canonC_conv]; simp [hr.2.2]
    | mul =>
      cases hf : isFused l r with
      | true => rw [canonC_mul_fused hf]; simp [Canon.single]
      | false => rw [canonC_mul_general hf]; simp [hr.2.1]
    | pow => cases r <;> simp [canonC, Canon.single]
    | _ => simp [canonC, Canon.single]
  | .num _ _ => by simp [canonC, Canon.single]
  | .ident _ => by simp [canonC, Canon.single]
  | .unit _ _ => by simp [canonC, Canon.single]
  | .neg _ => by simp [canonC, Canon.single]
  | .fact _ _ => by simp [canonC, Canon.single]
  | .not _ => by simp [canonC, Canon.single]
  | .bool _ => by simp [canonC, Canon.single]
  | .cond _ _ _ => by simp [canonC, Canon.single]
  | .binDate _ _ _ => by simp [canonC, Canon.single]
  | .call _ _ => by simp [canonC, Canon.single]
  | .ccall _ _ => by simp [canonC, Canon.single]
  | .str _ => by simp [canonC, Canon.single]
  | .mk _ _ _ => by simp [canonC, Canon.single]
  | .get _ _ => by simp [canonC, Canon.single]
  | .list _ => by simp [canonC, Canon.single]
  | .hole => by simp [canonC, Canon.single]

theorem addOpP_of_cls6 {x : Expr} (h : cls x = 6) : addOpP x = ptoks x := by
  simp [addOpP, isBinAdd_cls, h]
theorem mulOpP_of_cls78 {x : Expr} (h : cls x = 7 ∨ cls x = 8) : mulOpP x = ptoks x := by
  simp [mulOpP, isBinMul_cls, h]
theorem convLP_of_cls10 {x : Expr} (h : cls x = 10) : convLP x = ptoks x := by
  simp [convLP, isCond_cls, h]

structure Idem (e : Expr) : Prop where
  same : Same (canon e) e
  IA : ∀ acc, ptoks (foldBin .add acc (canonC e).addR) = addOpP acc ++ opToks .add ++ addOpP e
  IM : ∀ acc, ¬ (acc.isNum = true ∧ ((firstFactor e).isUnit = true ∨ (firstFactor e).isIdent = true)) →
    ptoks (foldBin .mul acc (canonC e).mulR) = mulOpP acc ++ opToks .mul ++ mulOpP e
  IC : (firstConv e).isCond = false → ∀ acc,
    ptoks (foldBin .conv acc (canonC e).convR) = convLP acc ++ opToks .conv ++ ptoks e

theorem firstFactor_of_not_gen {e : Expr} (h : isGenMul e = false) : firstFactor e = e := by
  cases e with
  | bin o l r =>
    cases o <;> simp [firstFactor]
    simp [isGenMul] at h; simp [h]
  | _ => simp [firstFactor]

theorem Idem.of_same {e : Expr} (hs : Same (canon e) e) (hna : e.isBinAdd = false) (hg : isGenMul e = false)
    (hnc : e.isBinConv = false) : Idem e := by
  refine ⟨hs, ?_, ?_, ?_⟩
  · intro acc
    rw [addR_single hna]
    simp only [foldBin]
    rw [ptoks_add, hs.addOpP_eq]
  · intro acc hok
    rw [mulR_single hg]
    simp only [foldBin]
    rw [firstFactor_of_not_gen hg] at hok
    rw [ptoks_mul_general (by rw [isUnit_cls, isIdent_cls, hs.1, ← isUnit_cls, ← isIdent_cls]; exact hok), hs.mulOpP_eq]
  · intro hfc acc
    rw [convR_single hnc]
    simp only [foldBin]
    rw [ptoks_conv _ _ (isCond_of_same hs.1 (not_cond_of_firstConv hfc)), hs.2]
end NumbatModel.Printer
