import NumbatModel.Model.Core
import NumbatModel.Model.VM
/-!
Helper lemmas for C09, part 1: byte encoding, code-at-position, stack popping, composition of runs.
-/
namespace NumbatModel.VM
open NumbatModel.Core

variable {ν : Type}

/-! ### opcodes and operands -/

theorem Op.ofCode_code (op : Op) : Op.ofCode op.code = some op := by
  cases op <;> rfl

theorem encU16_length (n : Nat) : (encU16 n).length = 2 := rfl

theorem encArgs_length (args : List Nat) : (encArgs args).length = 2 * args.length := by
  induction args with
  | nil => rfl
  | cons a as ih => simp [encArgs, ih, encU16_length]; omega

theorem encode_length (op : Op) (args : List Nat) : (encode op args).length = 1 + 2 * args.length := by
  simp [encode, encArgs_length]; omega

/-- the fragment `frag` stands in `code` at byte offset `ip` -/
def CodeAt (code : List UInt8) (ip : Nat) (frag : List UInt8) : Prop :=
  ∃ rest, code.drop ip = frag ++ rest

theorem CodeAt.left {code : List UInt8} {ip : Nat} {a b : List UInt8} (h : CodeAt code ip (a ++ b)) :
    CodeAt code ip a := by
  obtain ⟨rest, hr⟩ := h
  exact ⟨b ++ rest, by simp [hr]⟩

theorem CodeAt.right {code : List UInt8} {ip : Nat} {a b : List UInt8} (h : CodeAt code ip (a ++ b)) :
    CodeAt code (ip + a.length) b := by
  obtain ⟨rest, hr⟩ := h
  refine ⟨rest, ?_⟩
  rw [← List.drop_drop, hr]
  simp

theorem CodeAt.getElem? {code : List UInt8} {ip : Nat} {frag : List UInt8} (h : CodeAt code ip frag)
    {i : Nat} (hi : i < frag.length) : code[ip + i]? = frag[i]? := by
  obtain ⟨rest, hr⟩ := h
  have : (code.drop ip)[i]? = frag[i]? := by rw [hr, List.getElem?_append_left hi]
  rwa [List.getElem?_drop] at this

theorem CodeAt.lt {code : List UInt8} {ip : Nat} {b : UInt8} {frag : List UInt8}
    (h : CodeAt code ip (b :: frag)) : ip < code.length := by
  have := h.getElem? (i := 0) (by simp)
  simp at this
  exact (List.getElem?_eq_some_iff.mp this).1

theorem CodeAt.nil (code : List UInt8) (ip : Nat) : CodeAt code ip [] := ⟨code.drop ip, rfl⟩

theorem readU16_codeAt {code : List UInt8} {ip n : Nat} (h : CodeAt code ip (encU16 n)) (hn : n < 65536) :
    readU16 code ip = some n := by
  have h0 := h.getElem? (i := 0) (by simp [encU16])
  have h1 := h.getElem? (i := 1) (by simp [encU16])
  simp [encU16] at h0 h1
  simp [readU16, h0, h1]
  omega

theorem readArgs_codeAt {code : List UInt8} (args : List Nat) :
    ∀ {ip : Nat}, CodeAt code ip (encArgs args) → (∀ a ∈ args, a < 65536) →
      readArgs code ip args.length = some args := by
  induction args with
  | nil => intro ip _ _; rfl
  | cons a as ih =>
    intro ip h hb
    have ha : readU16 code ip = some a := readU16_codeAt (CodeAt.left (by simpa [encArgs] using h)) (hb a (by simp))
    have hrest : CodeAt code (ip + 2) (encArgs as) := by
      have := CodeAt.right (a := encU16 a) (b := encArgs as) (by simpa [encArgs] using h)
      simpa [encU16_length] using this
    have := ih hrest (fun x hx => hb x (by simp [hx]))
    simp [readArgs, ha, this]

theorem decode_codeAt {code : List UInt8} {ip : Nat} {op : Op} {args : List Nat}
    (h : CodeAt code ip (encode op args)) (hlen : args.length = op.numOperands)
    (hb : ∀ a ∈ args, a < 65536) :
    decode code ip = some (op, args, ip + 1 + 2 * op.numOperands) := by
  have h0 := h.getElem? (i := 0) (by simp [encode])
  simp [encode] at h0
  have hrest : CodeAt code (ip + 1) (encArgs args) := by
    have := CodeAt.right (a := [op.code]) (b := encArgs args) (by simpa [encode] using h)
    simpa using this
  have hr := readArgs_codeAt args hrest hb
  rw [hlen] at hr
  simp [decode, h0, Op.ofCode_code, hr]

/-! ### popping -/

theorem pop_append_singleton {α : Type} (s : List α) (v : α) : pop (s ++ [v]) = some (s, v) := by
  simp [pop]

theorem popN_append_reverse {α : Type} (vs : List α) :
    ∀ (s : List α), popN vs.length (s ++ vs.reverse) = some (s, vs) := by
  induction vs with
  | nil => intro s; simp [popN]
  | cons v vs ih =>
    intro s
    have : s ++ (v :: vs).reverse = (s ++ vs.reverse) ++ [v] := by simp
    rw [this]
    simp only [List.length_cons, popN]
    simp [ih s]

theorem popN_append {α : Type} (vs : List α) (s : List α) :
    popN vs.length (s ++ vs) = some (s, vs.reverse) := by
  have := popN_append_reverse vs.reverse s
  simpa using this

/-! ### runs -/

theorem runN_add (S : Sem ν) (P : Prog ν) (a b : Nat) (m : Machine ν) :
    runN S P (a + b) m = (match runN S P a m with
      | .next m' => runN S P b m'
      | r => r) := by
  induction a generalizing m with
  | zero => simp [runN]
  | succ a ih =>
    have : a + 1 + b = (a + b) + 1 := by omega
    rw [this]
    simp only [runN]
    cases hs : step S P m with
    | next m' => simp [ih]
    | halt => rfl
    | err e => rfl
    | panic msg => rfl

theorem runN_trans {S : Sem ν} {P : Prog ν} {a b : Nat} {m m' : Machine ν} {r : Step ν}
    (h1 : runN S P a m = .next m') (h2 : runN S P b m' = r) : runN S P (a + b) m = r := by
  rw [runN_add, h1]; exact h2

theorem runN_one_next {S : Sem ν} {P : Prog ν} {m m' : Machine ν} (h : step S P m = .next m') :
    runN S P 1 m = .next m' := by
  simp [runN, h]

theorem runN_one_err {S : Sem ν} {P : Prog ν} {m : Machine ν} {e : Err} (h : step S P m = .err e) :
    runN S P 1 m = .err e := by
  simp [runN, h]

end NumbatModel.VM
