import NumbatModel.Lemmas.VMCases3
/-!
Helper lemmas for C09, part 9: `where` variables, function bodies, calls.
-/
namespace NumbatModel.VM
open NumbatModel.Core
variable {ν : Type}

/-- `cs'` is `cs` after some `where` variables: like `Good`, but the current scope has grown by `names` -/
structure GoodDefs (cs cs' : CS ν) (names : List (List Name)) : Prop where
  len : cs.code.length ≤ cs'.code.length
  consts : ∃ k, cs'.constants = cs.constants ++ k
  scopeCur : cs'.scopeCur = cs.scopeCur ++ names
  scopeGlob : cs'.scopeGlob = cs.scopeGlob
  functions : cs'.functions = cs.functions
  chunkNames : cs'.chunkNames = cs.chunkNames
  ffiNames : cs'.ffiNames = cs.ffiNames
  structNames : cs'.structNames = cs.structNames
  pre : cs'.code.length < 65536 → ∃ frag, cs'.code = cs.code ++ frag

theorem compileDef_good {d : Def ν} {cs cs' : CS ν} (h : compileDef d cs = .ok cs') : GoodDefs cs cs' [d.names] := by
  simp only [compileDef, Res.bind_eq_ok] at h
  obtain ⟨cs1, h1, h2⟩ := h
  injection h2 with h2; subst h2
  have g := compileExpr_good d.expr cs cs1 h1
  exact ⟨g.len, g.consts, by simp [g.scopeCur], g.scopeGlob, g.functions, g.chunkNames, g.ffiNames,
    g.structNames, g.pre⟩

theorem compileDefs_good : ∀ (ds : List (Def ν)) (cs cs' : CS ν), compileDefs ds cs = .ok cs' →
    GoodDefs cs cs' (ds.map Def.names)
  | [], cs, cs', h => by
    simp only [compileDefs] at h; injection h with h; subst h
    exact ⟨Nat.le_refl _, ⟨[], by simp⟩, by simp, rfl, rfl, rfl, rfl, rfl, fun _ => ⟨[], by simp⟩⟩
  | d :: ds, cs, cs', h => by
    simp only [compileDefs, Res.bind_eq_ok] at h
    obtain ⟨cs1, h1, h2⟩ := h
    have g1 := compileDef_good h1
    have g2 := compileDefs_good ds cs1 cs' h2
    refine ⟨Nat.le_trans g1.len g2.len, ?_, ?_, ?_, ?_, ?_, ?_, ?_, ?_⟩
    · obtain ⟨k1, e1⟩ := g1.consts; obtain ⟨k2, e2⟩ := g2.consts
      exact ⟨k1 ++ k2, by rw [e2, e1]; simp⟩
    · rw [g2.scopeCur, g1.scopeCur]; simp
    · rw [g2.scopeGlob, g1.scopeGlob]
    · rw [g2.functions, g1.functions]
    · rw [g2.chunkNames, g1.chunkNames]
    · rw [g2.ffiNames, g1.ffiNames]
    · rw [g2.structNames, g1.structNames]
    · intro hlt
      obtain ⟨f2, e2⟩ := g2.pre hlt
      obtain ⟨f1, e1⟩ := g1.pre (Nat.lt_of_le_of_lt g2.len hlt)
      exact ⟨f1 ++ f2, by rw [e2, e1]; simp⟩

theorem GoodDefs.consts_prefix {a b : CS ν} {names : List (List Name)} {L : List (Constant ν)}
    (g : GoodDefs a b names) (h : b.constants <+: L) : a.constants <+: L := by
  obtain ⟨k, hk⟩ := g.consts
  obtain ⟨t, ht⟩ := h
  exact ⟨k ++ t, by rw [← ht, hk]; simp⟩

/-- the frame's slots hold exactly the bindings of the scope (no temporaries above them) -/
def ExactLayout (ρ : Env ν) (fp : Nat) (stack : List (Value ν)) : Prop :=
  (∃ pre, stack = pre ++ ρ.locals.map Prod.snd ∧ pre.length = fp) ∧
  (∃ rest, stack = ρ.globals.map Prod.snd ++ rest)

theorem ExactLayout.layout {ρ : Env ν} {fp : Nat} {s : List (Value ν)} (h : ExactLayout ρ fp s) : Layout ρ fp s := by
  obtain ⟨⟨pre, e1, e2⟩, hg⟩ := h
  exact ⟨⟨pre, [], by simpa using e1, e2⟩, hg⟩

/-- `where` variables: each value stays on the stack and becomes the next binding of the scope -/
theorem defs_ok {S : Sem ν} {P : Prog ν} {T : Table ν} {G : List (List Name)} {n : Nat}
    (ih : ExprOK S P T G n) : ∀ (ds : List (Def ν)) (ρ : Env ν) (cs cs' : CS ν) (frag : List UInt8)
    (m : Machine ν) (f : Frame) (fs : List Frame),
    compileDefs ds cs = .ok cs' → cs'.code = cs.code ++ frag → cs'.code.length < 65536 →
    (∀ d ∈ ds, fitsE d.expr = true) → cs'.scopeCur.length < 65536 →
    Ctx T G ρ cs → Pos P m f fs frag → cs'.constants <+: P.constants →
    ExactLayout ρ f.fp m.stack → m.last = ρ.last →
    (∀ ρ', evalWheres (eval S T n) ρ ds = .ok ρ' →
      ∃ news : List (List Name × Value ν), ρ' = { ρ with locals := ρ.locals ++ news } ∧
        Ctx T G ρ' cs' ∧
        Runs S P m (m.at f fs (f.ip + frag.length) (m.stack ++ news.map Prod.snd))) ∧
    (∀ err, evalWheres (eval S T n) ρ ds = .err err → Fails S P m err) := by
  intro ds
  induction ds with
  | nil =>
    intro ρ cs cs' frag m f fs hcomp hcode hlt hfit hcur hctx hpos hconst hlay hlast
    simp only [compileDefs] at hcomp
    injection hcomp with hcomp; subst hcomp
    have : frag = [] := by
      have := congrArg List.length hcode; simp at this; exact this
    subst this
    refine ⟨?_, ?_⟩
    · intro ρ' hv
      simp [evalWheres] at hv; subst hv
      refine ⟨[], by simp, hctx, ?_⟩
      simpa [Machine.at_self m f fs hpos.frames] using Runs.refl S P m
    · intro err he; simp [evalWheres] at he
  | cons d ds ihl =>
    intro ρ cs cs' frag m f fs hcomp hcode hlt hfit hcur hctx hpos hconst hlay hlast
    simp only [compileDefs, Res.bind_eq_ok] at hcomp
    obtain ⟨cs2, h12, h3⟩ := hcomp
    have gd := compileDef_good h12
    simp only [compileDef, Res.bind_eq_ok] at h12
    obtain ⟨cs1, h1, h2⟩ := h12
    injection h2 with h2
    have g1 := compileExpr_good d.expr cs cs1 h1
    have g3 := compileDefs_good ds cs2 cs' h3
    have hl2 : cs2.code.length < 65536 := Nat.lt_of_le_of_lt g3.len hlt
    have hcode2 : cs2.code = cs1.code := by rw [← h2]
    have hl1 : cs1.code.length < 65536 := by rw [← hcode2]; exact hl2
    obtain ⟨f1, e1⟩ := g1.pre hl1
    obtain ⟨f2, e2⟩ := g3.pre hlt
    have hfrag : frag = f1 ++ f2 := by
      rw [e2, hcode2, e1, List.append_assoc] at hcode
      exact (List.append_cancel_left hcode).symm
    subst hfrag
    have hconst2 : cs2.constants <+: P.constants := g3.consts_prefix hconst
    have hconst1 : cs1.constants <+: P.constants := by rw [← h2] at hconst2; exact hconst2
    have ihe := ih d.expr ρ cs cs1 f1 m f fs h1 e1 hl1 (hfit d (by simp)) hctx hpos.left hconst1
      hlay.layout hlast
    -- the environment and compiler state after this definition
    have hctx2 : ∀ a, Ctx T G { ρ with locals := ρ.locals ++ [(d.names, a)] } cs2 := by
      intro a
      have hc1 := hctx.good g1
      refine ⟨?_, ?_, ?_, ?_, hc1.ffiPre, ?_, hc1.nfuns, ?_, ?_, ?_, hc1.gnames, hc1.nglob⟩
      · rw [← h2]; simp [hc1.cur]
      · rw [← h2]; exact hc1.glob
      · rw [← h2]; exact hc1.functions
      · rw [← h2]; exact hc1.ffi
      · rw [← h2]; exact hc1.chunks
      · rw [← h2]; exact hc1.structs
      · have := g3.scopeCur; rw [this] at hcur; simp at hcur ⊢; omega
      · rw [← h2]; exact hc1.globLt
    have hlay2 : ∀ a, ExactLayout { ρ with locals := ρ.locals ++ [(d.names, a)] } f.fp (m.stack ++ [a]) := by
      intro a
      obtain ⟨⟨pre, e1', e2'⟩, ⟨rest, e3'⟩⟩ := hlay
      exact ⟨⟨pre, by rw [e1']; simp, e2'⟩, ⟨rest ++ [a], by rw [e3']; simp⟩⟩
    have iht := fun a => ihl { ρ with locals := ρ.locals ++ [(d.names, a)] } cs2 cs' f2
      (m.at f fs (f.ip + f1.length) (m.stack ++ [a])) { f with ip := f.ip + f1.length } fs h3
      (by rw [e2]) hlt (fun d' hd' => hfit d' (by simp [hd'])) hcur (hctx2 a)
      (hpos.next (a := f1) (m.stack ++ [a])) hconst (hlay2 a) hlast
    refine ⟨?_, ?_⟩
    · intro ρ' hv
      simp only [evalWheres, Res.bind_eq_ok] at hv
      obtain ⟨a, ha, hv⟩ := hv
      obtain ⟨news, hρ', hc', r2⟩ := (iht a).1 ρ' hv
      refine ⟨(d.names, a) :: news, by rw [hρ']; simp, hc', ?_⟩
      have := (ihe.1 a ha).trans r2
      simpa [Nat.add_assoc] using this
    · intro err he
      simp only [evalWheres, Res.bind_eq_err] at he
      rcases he with he | ⟨a, ha, he⟩
      · exact ihe.2 err he
      · exact (ihe.1 a ha).fails ((iht a).2 err he)

theorem prefix_eq_take {α : Type} {l1 l2 L : List α} (h1 : l1 <+: L) (h2 : l2 <+: L) (hlen : l1.length ≤ l2.length) :
    l1 = l2.take l1.length := by
  obtain ⟨t1, rfl⟩ := h1
  obtain ⟨t2, e2⟩ := h2
  have : l2 = (l1 ++ t1).take l2.length := by
    rw [← e2]; simp
  rw [this, List.take_take, Nat.min_eq_left hlen]
  simp

theorem map_snd_zip_eq {α β : Type} (l1 : List α) (l2 : List β) (h : l2.length = l1.length) :
    (l1.zip l2).map Prod.snd = l2 := by
  induction l1 generalizing l2 with
  | nil => cases l2 <;> simp_all
  | cons a as ih =>
    cases l2 with
    | nil => simp at h
    | cons b bs => simp at h ⊢; exact ih bs h

theorem map_fst_zip_eq {α β : Type} (l1 : List α) (l2 : List β) (h : l2.length = l1.length) :
    (l1.zip l2).map Prod.fst = l1 := by
  induction l1 generalizing l2 with
  | nil => simp
  | cons a as ih =>
    cases l2 with
    | nil => simp at h
    | cons b bs => simp at h ⊢; exact ih bs h

/-- Call protocol: with the arguments on top of the stack and the callee's frame pushed, the machine runs the
    compiled body and returns to the caller's frame with the arguments replaced by the result. -/
theorem apply_ok {S : Sem ν} {P : Prog ν} {T : Table ν} {G : List (List Name)} (hP : ProgOK P T G) {n : Nat}
    (ih : ExprOK S P T G n) {i : Nat} {c : Closure ν} (hc : T.funs[i]? = some c)
    (vs : List (Value ν)) (globals : List (List Name × Value ν)) (last : Option (Value ν))
    (m : Machine ν) (f' : Frame) (fs : List Frame) (s : List (Value ν))
    (hframes : m.frames = { fn := i + 1, ip := 0, fp := s.length } :: f' :: fs)
    (hstack : m.stack = s ++ vs)
    (hglob : ∃ rest, s = globals.map Prod.snd ++ rest)
    (hgn : globals.map Prod.fst <+: G)
    (hlast : m.last = last) :
    (∀ v, applyClosure (eval S T n) c vs globals last = .ok v →
      Runs S P m { m with frames := f' :: fs, stack := s ++ [v] }) ∧
    (∀ err, applyClosure (eval S T n) c vs globals last = .err err → Fails S P m err) := by
  obtain ⟨hnf, hng, hgpre, hffi, cs0, cs1, hstart, hbody, hchunk, hconst, hl, hcur, hglt, hfb, hfw⟩ := hP.fns i c hc
  simp only [compileFnBody, Res.bind_eq_ok] at hbody
  obtain ⟨csW, hW, csB, hB, hR⟩ := hbody
  injection hR with hR; subst hR
  have gW := compileDefs_good c.decl.wheres cs0 csW hW
  have gB := compileExpr_good c.decl.body csW csB hB
  have hlB : csB.code.length < 65536 := by
    have : (csB.emit .return_ []).code.length = csB.code.length + 1 := by simp [encode_length]
    omega
  have hlW : csW.code.length < 65536 := Nat.lt_of_le_of_lt gB.len hlB
  obtain ⟨fW, eW⟩ := gW.pre hlW
  obtain ⟨fB, eB⟩ := gB.pre hlB
  rw [hstart.code, List.nil_append] at eW
  have hcodeAll : (csB.emit .return_ []).code = fW ++ (fB ++ encode .return_ []) := by
    simp [eB, eW]
  -- the callee's frame stands in front of the whole chunk
  let fr : Frame := { fn := i + 1, ip := 0, fp := s.length }
  have hpos : Pos P m fr (f' :: fs) (fW ++ (fB ++ encode .return_ [])) :=
    ⟨hframes, ⟨_, hchunk, ⟨[], by simp [fr, eB, eW]⟩⟩⟩
  have hconstB : csB.constants <+: P.constants := hconst
  have hconstW : csW.constants <+: P.constants := gB.consts_prefix hconstB
  have hcurB : csB.scopeCur.length < 65536 := hcur
  have hcurW : csW.scopeCur.length < 65536 := by rw [← gB.scopeCur]; exact hcurB
  constructor
  · intro v hv
    unfold applyClosure at hv
    split at hv
    · cases hv
    · rename_i harity
      split at hv
      · cases hv
      · rename_i hng'
        simp only [Res.bind_eq_ok] at hv
        obtain ⟨ρ1, hρ1, hv⟩ := hv
        have harity' : vs.length = (c.decl.params.map fun p => [p]).length := by
          simp; exact Decidable.of_not_not harity
        have hngl : c.static.nglob ≤ globals.length := Nat.le_of_not_lt hng'
        -- the environment of the body and the state of its compiler agree
        have hctx0 : Ctx T G
            { locals := (c.decl.params.map fun p => [p]).zip vs, globals := globals, last := last, static := c.static }
            cs0 := by
          refine ⟨?_, ?_, hstart.functions, hstart.ffi, hffi, ?_, ?_, hstart.structs, ?_, hglt, hgn, hngl⟩
          · rw [hstart.cur, map_fst_zip_eq _ _ harity']
          · rw [hstart.glob, hng]
            show c.gnames = List.map Prod.fst (List.take c.gnames.length globals)
            rw [List.map_take]
            exact prefix_eq_take hgpre hgn (by rw [← hng]; simpa using hngl)
          · rw [hstart.chunks, hnf]
          · rw [hnf]; exact (List.getElem?_eq_some_iff.mp hc).1
          · have := gW.scopeCur; rw [this] at hcurW; simp at hcurW ⊢; omega
        have hlay0 : ExactLayout
            { locals := (c.decl.params.map fun p => [p]).zip vs, globals := globals, last := last, static := c.static }
            fr.fp m.stack := by
          obtain ⟨rest, hrest⟩ := hglob
          refine ⟨⟨s, ?_, rfl⟩, ⟨rest ++ vs, ?_⟩⟩
          · rw [hstack, map_snd_zip_eq _ _ harity']
          · rw [hstack, hrest]; simp
        obtain ⟨news, hρ1', hctx1, rW⟩ := (defs_ok ih c.decl.wheres _ cs0 csW fW m fr (f' :: fs) hW
          (by rw [hstart.code]; simpa using eW) hlW hfw hcurW hctx0 hpos.left hconstW hlay0 hlast).1 ρ1 hρ1
        have hlay1 : Layout ρ1 fr.fp (m.stack ++ news.map Prod.snd) := by
          obtain ⟨⟨pre, e1, e2⟩, ⟨rest, e3⟩⟩ := hlay0
          rw [hρ1']
          exact ⟨⟨pre, [], by simp [e1], e2⟩, ⟨rest ++ news.map Prod.snd, by rw [e3]; simp⟩⟩
        have hlast1 : m.last = ρ1.last := by rw [hρ1']; exact hlast
        have pB := hpos.next (a := fW) (m.stack ++ news.map Prod.snd)
        have rB := (ih c.decl.body ρ1 csW csB fB (m.at fr (f' :: fs) (fr.ip + fW.length) (m.stack ++ news.map Prod.snd))
          { fr with ip := fr.ip + fW.length } (f' :: fs) hB eB hlB hfb hctx1 pB.left hconstB hlay1 hlast1).1 v hv
        have pR := pB.next (a := fB) (m.stack ++ news.map Prod.snd ++ [v])
        have rR := Runs.step (step_return (S := S) pR (s := m.stack ++ news.map Prod.snd) (v := v) rfl)
        have := rW.trans (rB.trans rR)
        have hfin : ({ (m.at fr (f' :: fs) (fr.ip + fW.length) (m.stack ++ news.map Prod.snd)).at
              { fr with ip := fr.ip + fW.length } (f' :: fs) (fr.ip + fW.length + fB.length)
              (m.stack ++ news.map Prod.snd ++ [v]) with
            frames := f' :: fs,
            stack := (m.stack ++ news.map Prod.snd).take fr.fp ++ [v] } : Machine ν)
            = { m with frames := f' :: fs, stack := s ++ [v] } := by
          simp [Machine.at, hstack, fr]
        rw [← hfin]
        exact this
  · intro err he
    unfold applyClosure at he
    split at he
    · cases he
    · rename_i harity
      split at he
      · cases he
      · rename_i hng'
        have harity' : vs.length = (c.decl.params.map fun p => [p]).length := by
          simp; exact Decidable.of_not_not harity
        have hngl : c.static.nglob ≤ globals.length := Nat.le_of_not_lt hng'
        have hctx0 : Ctx T G
            { locals := (c.decl.params.map fun p => [p]).zip vs, globals := globals, last := last, static := c.static }
            cs0 := by
          refine ⟨?_, ?_, hstart.functions, hstart.ffi, hffi, ?_, ?_, hstart.structs, ?_, hglt, hgn, hngl⟩
          · rw [hstart.cur, map_fst_zip_eq _ _ harity']
          · rw [hstart.glob, hng]
            show c.gnames = List.map Prod.fst (List.take c.gnames.length globals)
            rw [List.map_take]
            exact prefix_eq_take hgpre hgn (by rw [← hng]; simpa using hngl)
          · rw [hstart.chunks, hnf]
          · rw [hnf]; exact (List.getElem?_eq_some_iff.mp hc).1
          · have := gW.scopeCur; rw [this] at hcurW; simp at hcurW ⊢; omega
        have hlay0 : ExactLayout
            { locals := (c.decl.params.map fun p => [p]).zip vs, globals := globals, last := last, static := c.static }
            fr.fp m.stack := by
          obtain ⟨rest, hrest⟩ := hglob
          refine ⟨⟨s, ?_, rfl⟩, ⟨rest ++ vs, ?_⟩⟩
          · rw [hstack, map_snd_zip_eq _ _ harity']
          · rw [hstack, hrest]; simp
        have dW := defs_ok ih c.decl.wheres _ cs0 csW fW m fr (f' :: fs) hW
          (by rw [hstart.code]; simpa using eW) hlW hfw hcurW hctx0 hpos.left hconstW hlay0 hlast
        simp only [Res.bind_eq_err] at he
        rcases he with he | ⟨ρ1, hρ1, he⟩
        · exact dW.2 err he
        · obtain ⟨news, hρ1', hctx1, rW⟩ := dW.1 ρ1 hρ1
          have hlay1 : Layout ρ1 fr.fp (m.stack ++ news.map Prod.snd) := by
            obtain ⟨⟨pre, e1, e2⟩, ⟨rest, e3⟩⟩ := hlay0
            rw [hρ1']
            exact ⟨⟨pre, [], by simp [e1], e2⟩, ⟨rest ++ news.map Prod.snd, by rw [e3]; simp⟩⟩
          have hlast1 : m.last = ρ1.last := by rw [hρ1']; exact hlast
          have pB := hpos.next (a := fW) (m.stack ++ news.map Prod.snd)
          exact rW.fails ((ih c.decl.body ρ1 csW csB fB
            (m.at fr (f' :: fs) (fr.ip + fW.length) (m.stack ++ news.map Prod.snd))
            { fr with ip := fr.ip + fW.length } (f' :: fs) hB eB hlB hfb hctx1 pB.left hconstB hlay1 hlast1).2 err he)

end NumbatModel.VM
