import NumbatModel.Model.Qty
set_option linter.unusedSectionVars false
/-!
Helper lemmas for the quantity properties (C03, C04, C05, C11, C12, C21).

The model's numeric operations are proved about every *lawful* instantiation: a field (core
`Lean.Grind.Field`, so that `grind` normalises the arithmetic) whose `NumOps` operations are the field
operations, with a positivity predicate and the power laws on positives.  `Inst/Real.lean` shows that ℝ
with `Real.rpow` is such an instance; `Float` is *not* (rounding) — it is the executed instance whose
agreement with the Rust code is checked bit-for-bit by the correspondence.
-/
namespace NumbatModel.Qty
open NumOps

class LawfulNum (α : Type) [NumOps α] [Lean.Grind.Field α] where
  Pos : α → Prop
  zero_eq : (NumOps.zero : α) = 0
  one_eq : (NumOps.one : α) = 1
  add_eq : ∀ a b : α, NumOps.add a b = a + b
  sub_eq : ∀ a b : α, NumOps.sub a b = a - b
  mul_eq : ∀ a b : α, NumOps.mul a b = a * b
  div_eq : ∀ a b : α, NumOps.div a b = a / b
  neg_eq : ∀ a : α, NumOps.neg a = -a
  beq_iff : ∀ a b : α, NumOps.beq a b = true ↔ a = b
  pos_one : Pos (1 : α)
  pos_mul : ∀ a b : α, Pos a → Pos b → Pos (a * b)
  pos_ne_zero : ∀ a : α, Pos a → a ≠ 0
  pos_rpow : ∀ (a : α) (e : Rat), Pos a → Pos (NumOps.rpow a e)
  pos_pow10 : ∀ n : Int, Pos (NumOps.pow10 n : α)
  pos_pow2 : ∀ n : Int, Pos (NumOps.pow2 n : α)
  rpow_add : ∀ (a : α) (e₁ e₂ : Rat), Pos a → NumOps.rpow a (e₁ + e₂) = NumOps.rpow a e₁ * NumOps.rpow a e₂
  rpow_zero : ∀ a : α, Pos a → NumOps.rpow a 0 = 1
  rpow_one : ∀ a : α, Pos a → NumOps.rpow a 1 = a
  rpow_mul : ∀ (a : α) (e₁ e₂ : Rat), Pos a → NumOps.rpow (NumOps.rpow a e₁) e₂ = NumOps.rpow a (e₁ * e₂)
  mul_rpow : ∀ (a b : α) (e : Rat), Pos a → Pos b → NumOps.rpow (a * b) e = NumOps.rpow a e * NumOps.rpow b e
  /-- `0^r = 0` for positive `r` -/
  rpow_zero_base : ∀ r : Rat, 0 < r → NumOps.rpow (0 : α) r = 0
  /-- for integer exponents the product rule holds for every base (also negative ones) -/
  mul_rpow_int : ∀ (a b : α) (n : Int), NumOps.rpow (a * b) (n : Rat) = NumOps.rpow a (n : Rat) * NumOps.rpow b (n : Rat)
  -- order
  lt_irrefl : ∀ a : α, NumOps.lt a a = false
  lt_asymm : ∀ a b : α, NumOps.lt a b = true → NumOps.lt b a = false
  lt_total : ∀ a b : α, NumOps.lt a b = false → NumOps.lt b a = false → a = b
  lt_mul_pos : ∀ a b c : α, Pos c → NumOps.lt (a * c) (b * c) = NumOps.lt a b
  le_iff : ∀ a b : α, NumOps.le a b = true ↔ (NumOps.lt a b = true ∨ a = b)
  isNaN_false : ∀ a : α, NumOps.isNaN a = false
  le_mul_pos : ∀ a b c : α, Pos c → NumOps.le (a * c) (b * c) = NumOps.le a b
  abs_mul_pos : ∀ a c : α, Pos c → NumOps.abs (a * c) = NumOps.abs a * c
  abs_le_zero_iff : ∀ a : α, NumOps.le (NumOps.abs a) 0 = true ↔ a = 0

variable {α : Type} [NumOps α] [Lean.Grind.Field α] [L : LawfulNum α]

open LawfulNum

/-- base factor of a unit id (second component of `base_unit_and_factor`) -/
def bf (tbl : Table α) (id : Nat) : α := (baseUnitAndFactor tbl tbl.length id).2

/-- weight of one factor: `(prefix.factor * base factor) ^ exponent` -/
def w (tbl : Table α) (f : Factor) : α := rpow (mul (Prefix.factor f.prefix_) (bf tbl f.unit)) f.exp

/-- conversion factor as a plain recursive product -/
def prodW (tbl : Table α) : Unit → α
  | [] => 1
  | f :: u => w tbl f * prodW tbl u

/-- all base factors of the table are positive -/
def PosTbl (tbl : Table α) : Prop := ∀ n id, Pos (baseUnitAndFactor tbl n id).2

theorem pos_prefix (p : Prefix) : Pos (Prefix.factor p : α) := by
  unfold Prefix.factor; split
  · exact pos_pow2 _
  · exact pos_pow10 _

theorem pos_base (tbl : Table α) (h : PosTbl tbl) (f : Factor) :
    Pos (mul (Prefix.factor f.prefix_) (bf tbl f.unit) : α) := by
  rw [mul_eq]; exact pos_mul _ _ (pos_prefix _) (h _ _)

theorem pos_w (tbl : Table α) (h : PosTbl tbl) (f : Factor) : Pos (w tbl f) :=
  pos_rpow _ _ (pos_base tbl h f)

theorem pos_prodW (tbl : Table α) (h : PosTbl tbl) (u : Unit) : Pos (prodW tbl u) := by
  induction u with
  | nil => exact pos_one
  | cons f u ih => exact pos_mul _ _ (pos_w tbl h f) ih

theorem foldl_mul_eq (tbl : Table α) (u : Unit) (a : α) :
    u.foldl (fun acc f => mul acc (rpow (mul (Prefix.factor f.prefix_) (baseUnitAndFactor tbl tbl.length f.unit).2) f.exp)) a
      = a * prodW tbl u := by
  induction u generalizing a with
  | nil => simp [prodW]; grind
  | cons f u ih =>
    simp only [List.foldl_cons, prodW]
    rw [ih, mul_eq]
    have : rpow (mul (Prefix.factor f.prefix_) (baseUnitAndFactor tbl tbl.length f.unit).2) f.exp = w tbl f := rfl
    rw [this]
    grind

theorem factorOf_eq (tbl : Table α) (u : Unit) : factorOf tbl u = prodW tbl u := by
  unfold factorOf
  rw [foldl_mul_eq, one_eq]
  grind

theorem prodW_append (tbl : Table α) (u v : Unit) : prodW tbl (u ++ v) = prodW tbl u * prodW tbl v := by
  induction u with
  | nil => simp [prodW]; grind
  | cons f u ih => simp only [List.cons_append, prodW, ih]; grind

theorem w_neg (tbl : Table α) (h : PosTbl tbl) (f : Factor) :
    w tbl { f with exp := f.exp * -1 } * w tbl f = 1 := by
  unfold w
  simp only
  rw [← rpow_add _ _ _ (pos_base tbl h f)]
  have : f.exp * -1 + f.exp = 0 := by grind
  rw [this, rpow_zero _ (pos_base tbl h f)]

theorem prodW_invert (tbl : Table α) (h : PosTbl tbl) (u : Unit) :
    prodW tbl (Unit.invert u) * prodW tbl u = 1 := by
  induction u with
  | nil => simp [Unit.invert, Unit.power, prodW]; grind
  | cons f u ih =>
    simp only [Unit.invert, Unit.power, List.map_cons, prodW] at ih ⊢
    have hw := w_neg tbl h f
    grind

theorem prodW_insertBy (tbl : Table α) (le : Factor → Factor → Bool) (x : Factor) (l : Unit) :
    prodW tbl (insertBy le x l) = w tbl x * prodW tbl l := by
  induction l with
  | nil => simp [insertBy, prodW]
  | cons y ys ih =>
    simp only [insertBy]
    split
    · simp [prodW]
    · simp only [prodW, ih]; grind

theorem prodW_sortBy (tbl : Table α) (le : Factor → Factor → Bool) (l : Unit) :
    prodW tbl (sortBy le l) = prodW tbl l := by
  induction l with
  | nil => simp [sortBy]
  | cons x xs ih => simp only [sortBy, prodW_insertBy, prodW, ih]

theorem prodW_mergeAdjacent (tbl : Table α) (h : PosTbl tbl) (l : Unit) :
    prodW tbl (mergeAdjacent l) = prodW tbl l := by
  induction l with
  | nil => simp [mergeAdjacent]
  | cons f rest ih =>
    simp only [mergeAdjacent]
    cases hm : mergeAdjacent rest with
    | nil =>
      rw [hm] at ih
      simp only [prodW] at ih ⊢
      rw [← ih]
    | cons g gs =>
      rw [hm] at ih
      simp only
      split
      · rename_i hc
        obtain ⟨hu, hp⟩ := hc
        simp only [prodW] at ih ⊢
        rw [← ih]
        have : w tbl { f with exp := f.exp + g.exp } = w tbl f * w tbl g := by
          unfold w
          simp only
          rw [rpow_add _ _ _ (pos_base tbl h f), hu, hp]
        rw [this]; grind
      · simp only [prodW] at ih ⊢
        rw [← ih]

theorem prodW_dropTrivial (tbl : Table α) (h : PosTbl tbl) (l : Unit) :
    prodW tbl (dropTrivial l) = prodW tbl l := by
  induction l with
  | nil => simp [dropTrivial]
  | cons f rest ih =>
    simp only [dropTrivial, List.filter_cons] at ih ⊢
    split
    · simp only [prodW, ih]
    · rename_i hc
      have hz : f.exp = 0 := by simpa using hc
      have : w tbl f = 1 := by
        unfold w; rw [hz, rpow_zero _ (pos_base tbl h f)]
      simp only [prodW, ih, this]; grind

/-- canonicalization does not change the conversion factor -/
theorem prodW_canon (tbl : Table α) (h : PosTbl tbl) (u : Unit) : prodW tbl (canon tbl u) = prodW tbl u := by
  unfold canon
  rw [prodW_dropTrivial tbl h, prodW_mergeAdjacent tbl h, prodW_sortBy]

theorem prodW_canonBase (tbl : Table α) (h : PosTbl tbl) (u : Unit) : prodW tbl (canonBase tbl u) = prodW tbl u := by
  unfold canonBase
  rw [prodW_dropTrivial tbl h, prodW_mergeAdjacent tbl h, prodW_sortBy]

theorem prodW_of_unitEq (tbl : Table α) (h : PosTbl tbl) (u v : Unit) (he : unitEq tbl u v = true) :
    prodW tbl u = prodW tbl v := by
  unfold unitEq at he
  have : canon tbl u = canon tbl v := by simpa using he
  rw [← prodW_canon tbl h u, this, prodW_canon tbl h v]


/-! ### physical value, comparisons -/

/-- magnitude in base units -/
def phys (tbl : Table α) (q : Quantity α) : α := q.value * prodW tbl q.unit

theorem convert_phys' (tbl : Table α) (hp : PosTbl tbl) (q q' : Quantity α) (U : Unit)
    (h : convertTo tbl q U = .ok q') : q'.value * prodW tbl U = phys tbl q := by
  unfold phys
  unfold convertTo at h
  split at h
  · rename_i hc
    cases h
    simp only
    rcases Bool.or_eq_true _ _ ▸ hc with he | hz
    · rw [prodW_of_unitEq tbl hp _ _ he]
    · have : q.value = 0 := by
        unfold Quantity.isZero at hz
        rw [beq_iff] at hz
        rw [hz, zero_eq]
      rw [this]; grind
  · simp only at h
    split at h
    · cases h
      simp only
      rw [factorOf_eq, factorOf_eq, prodW_canon tbl hp]
      simp only [Unit.div, prodW_append, div_eq, mul_eq, one_eq]
      have hinv := prodW_invert tbl hp
        (commonFactors (canon tbl q.unit) (canon tbl U))
      have hU := pos_ne_zero _ (pos_prodW tbl hp U)
      have hI := pos_ne_zero _ (pos_prodW tbl hp (Unit.invert (commonFactors (canon tbl q.unit) (canon tbl U))))
      grind
    · cases h

theorem convert_unit' (tbl : Table α) (q q' : Quantity α) (U : Unit)
    (h : convertTo tbl q U = .ok q') : q'.unit = U := by
  unfold convertTo at h
  split at h
  · cases h; rfl
  · simp only at h
    split at h
    · cases h; rfl
    · cases h

theorem isZero_iff (q : Quantity α) : q.isZero = true ↔ q.value = 0 := by
  unfold Quantity.isZero
  rw [beq_iff, zero_eq]

theorem lt_scale (a b c : α) (hc : Pos c) : lt a b = lt (a * c) (b * c) := (lt_mul_pos a b c hc).symm

theorem beq_scale (a b c : α) (hc : Pos c) : beq a b = beq (a * c) (b * c) := by
  have hne := pos_ne_zero _ hc
  cases h1 : beq a b <;> cases h2 : beq (a * c) (b * c) <;> try rfl
  · rw [beq_iff] at h2
    have : a = b := by grind
    rw [← beq_iff] at this
    rw [this] at h1; cases h1
  · rw [beq_iff] at h1
    have : a * c = b * c := by grind
    rw [← beq_iff] at this
    rw [this] at h2; cases h2

theorem cmpValues_scale (a b c : α) (hc : Pos c) : cmpValues a b = cmpValues (a * c) (b * c) := by
  unfold cmpValues
  rw [lt_scale a b c hc, lt_scale b a c hc, beq_scale a b c hc]

/-- comparison of two quantities is comparison of their physical values, whenever both operands can be
expressed in the other's unit (same dimension) and neither is NaN -/
theorem qcmp_phys (tbl : Table α) (hp : PosTbl tbl) (a b b' : Quantity α)
    (hb : convertTo tbl b a.unit = .ok b') :
    qcmp tbl a b = cmpValues (phys tbl a) (phys tbl b) := by
  unfold qcmp
  simp only [isNaN_false, Bool.or_self, Bool.false_eq_true, if_false]
  split
  · rename_i hz
    have hz0 := (isZero_iff a).mp hz
    have hc : convertTo tbl a b.unit = .ok ⟨a.value, b.unit, true⟩ := by
      unfold convertTo; simp [hz]
    rw [hc]
    simp only
    rw [cmpValues_scale a.value b.value (prodW tbl b.unit) (pos_prodW tbl hp _)]
    unfold phys
    rw [hz0]
    have : (0 : α) * prodW tbl b.unit = 0 * prodW tbl a.unit := by grind
    rw [this]
  · rw [hb]
    simp only
    rw [cmpValues_scale a.value b'.value (prodW tbl a.unit) (pos_prodW tbl hp _)]
    rw [convert_phys' tbl hp b b' a.unit hb]
    rfl

theorem qeq_phys (tbl : Table α) (hp : PosTbl tbl) (a b b' : Quantity α)
    (hb : convertTo tbl b a.unit = .ok b') :
    qeq tbl a b = beq (phys tbl a) (phys tbl b) := by
  unfold qeq
  rw [hb]
  simp only
  have h := convert_phys' tbl hp b b' a.unit hb
  have hpa := pos_ne_zero _ (pos_prodW tbl hp a.unit)
  unfold phys at *
  cases h1 : beq a.value b'.value <;> cases h2 : beq (a.value * prodW tbl a.unit) (b.value * prodW tbl b.unit) <;> try rfl
  · rw [beq_iff] at h2
    have : a.value = b'.value := by grind
    rw [← beq_iff] at this
    rw [this] at h1; cases h1
  · rw [beq_iff] at h1
    have : a.value * prodW tbl a.unit = b.value * prodW tbl b.unit := by grind
    rw [← beq_iff] at this
    rw [this] at h2; cases h2

theorem cmpValues_swap (x y : α) :
    cmpValues y x = match cmpValues x y with
      | .lt => .gt | .gt => .lt | o => o := by
  unfold cmpValues
  cases h1 : lt x y <;> cases h2 : lt y x <;> simp
  · have hxy := lt_total x y h1 h2
    subst hxy
    have hb : beq x x = true := (beq_iff x x).mpr rfl
    simp [hb]
  · have := lt_asymm x y h1; rw [this] at h2; cases h2

theorem cmpValues_eq_iff (x y : α) : cmpValues x y = .eq ↔ x = y := by
  unfold cmpValues
  constructor
  · intro h
    cases h1 : lt x y <;> cases h2 : lt y x <;> simp [h1, h2] at h
    exact lt_total x y h1 h2
  · intro h; subst h
    have hb : beq x x = true := (beq_iff x x).mpr rfl
    simp [lt_irrefl, hb]

theorem cmpValues_cases (x y : α) : cmpValues x y = .lt ∨ cmpValues x y = .eq ∨ cmpValues x y = .gt := by
  unfold cmpValues
  cases h1 : lt x y <;> cases h2 : lt y x <;> simp
  have hxy := lt_total x y h1 h2
  have hb : beq x y = true := (beq_iff x y).mpr hxy
  simp [hb]


/-- the physical value of a sum is the sum of the physical values -/
theorem add_phys_lem (tbl : Table α) (hp : PosTbl tbl) (a b r : Quantity α) (h : qadd tbl a b = .ok r) :
    phys tbl r = phys tbl a + phys tbl b := by
  unfold qadd at h
  split at h
  · rename_i hz; cases h
    have := (isZero_iff a).mp hz
    unfold phys; rw [this]; grind
  · split at h
    · rename_i hz; cases h
      have := (isZero_iff b).mp hz
      unfold phys; rw [this]; grind
    · split at h
      · rename_i he; cases h
        unfold phys
        simp only [add_eq]
        rw [prodW_of_unitEq tbl hp _ _ he]; grind
      · simp only at h
        split at h
        · rename_i a' b' ha hb
          cases h
          have e1 := convert_phys' tbl hp a a' _ ha
          have e2 := convert_phys' tbl hp b b' _ hb
          unfold phys at *
          simp only [add_eq]
          grind
        · cases h
        · cases h

theorem sub_phys_lem (tbl : Table α) (hp : PosTbl tbl) (a b r : Quantity α) (h : qsub tbl a b = .ok r) :
    phys tbl r = phys tbl a - phys tbl b := by
  unfold qsub at h
  split at h
  · rename_i hz; cases h
    have := (isZero_iff a).mp hz
    unfold phys Quantity.neg; rw [this]; simp only [neg_eq]; grind
  · split at h
    · rename_i hz; cases h
      have := (isZero_iff b).mp hz
      unfold phys; rw [this]; grind
    · split at h
      · rename_i he; cases h
        unfold phys
        simp only [sub_eq]
        rw [prodW_of_unitEq tbl hp _ _ he]; grind
      · simp only at h
        split at h
        · rename_i a' b' ha hb
          cases h
          have e1 := convert_phys' tbl hp a a' _ ha
          have e2 := convert_phys' tbl hp b b' _ hb
          unfold phys at *
          simp only [sub_eq]
          grind
        · cases h
        · cases h

/-! ### powers, expression trees -/

theorem rpow_one_base (e : Rat) : rpow (1 : α) e = 1 := by
  have h0 : rpow (1 : α) 0 = 1 := rpow_zero 1 pos_one
  have := rpow_mul (1 : α) 0 e pos_one
  rw [h0] at this
  rw [this]
  have : (0 : Rat) * e = 0 := by grind
  rw [this, h0]

theorem w_power (tbl : Table α) (hp : PosTbl tbl) (f : Factor) (r : Rat) :
    w tbl { f with exp := f.exp * r } = rpow (w tbl f) r := by
  unfold w
  simp only
  rw [rpow_mul _ _ _ (pos_base tbl hp f)]

theorem prodW_power (tbl : Table α) (hp : PosTbl tbl) (u : Unit) (r : Rat) :
    prodW tbl (Unit.power u r) = rpow (prodW tbl u) r := by
  induction u with
  | nil => simp [Unit.power, prodW, rpow_one_base]
  | cons f u ih =>
    simp only [Unit.power, List.map_cons, prodW] at ih ⊢
    rw [w_power tbl hp, ih, mul_rpow _ _ _ (pos_w tbl hp f) (pos_prodW tbl hp u)]

/-- denotation of an expression by exact dimensional arithmetic: numbers are themselves, a unit is its
conversion factor to base units (prefix factor × base factor, from the direct definitions), operators are
the field operations -/
def den (tbl : Table α) : QExpr α → α
  | .num v => v
  | .unit f => w tbl f
  | .neg a => - den tbl a
  | .add a b => den tbl a + den tbl b
  | .sub a b => den tbl a - den tbl b
  | .mul a b => den tbl a * den tbl b
  | .div a b => den tbl a / den tbl b
  | .pow a r => rpow (den tbl a) r

/-- every power has an integer exponent or a base with positive magnitude -/
def PowOK (tbl : Table α) : QExpr α → Prop
  | .num _ => True
  | .unit _ => True
  | .neg a => PowOK tbl a
  | .add a b => PowOK tbl a ∧ PowOK tbl b
  | .sub a b => PowOK tbl a ∧ PowOK tbl b
  | .mul a b => PowOK tbl a ∧ PowOK tbl b
  | .div a b => PowOK tbl a ∧ PowOK tbl b
  | .pow a r => PowOK tbl a ∧ ((∃ n : Int, r = (n : Rat)) ∨ ∀ x, evalQ tbl a = .ok x → Pos x.value)

end NumbatModel.Qty
