import NumbatModel.Lemmas.VMCalls
/-!
Helper lemmas for C09, part 10: function calls, foreign calls, calls of function values.
-/
namespace NumbatModel.VM
open NumbatModel.Core
variable {ν : Type}

theorem callFfi_ok {S : Sem ν} {name : Name} {vs : List (Value ν)} {v : Value ν} (h : callFfi S name vs = .ok v) :
    (name == "print") = false ∧ (name == "assert") = false ∧ (name == "assert_eq") = false ∧ S.ffi name vs = .ok v := by
  unfold callFfi at h
  split at h
  · cases h
  · rename_i hn
    simp only [Bool.or_eq_true, not_or, Bool.not_eq_true] at hn
    exact ⟨hn.1.1, hn.1.2, hn.2, h⟩

theorem callFfi_err {S : Sem ν} {name : Name} {vs : List (Value ν)} {e : Err} (h : callFfi S name vs = .err e) :
    (name == "print") = false ∧ (name == "assert") = false ∧ (name == "assert_eq") = false ∧ S.ffi name vs = .err e := by
  unfold callFfi at h
  split at h
  · cases h
  · rename_i hn
    simp only [Bool.or_eq_true, not_or, Bool.not_eq_true] at hn
    exact ⟨hn.1.1, hn.1.2, hn.2, h⟩

section steps
variable {S : Sem ν} {P : Prog ν} {m : Machine ν} {f : Frame} {fs : List Frame}

theorem step_ffiCall_ok {idx nargs a : Nat} {name : Name} {s vs : List (Value ν)} {v : Value ν}
    (hp : Pos P m f fs (encode .ffiCallFunction [idx, nargs, a]))
    (hi : idx < 65536) (hn : nargs < 65536) (ha : a < 65536)
    (hname : P.ffiNames[idx]? = some name) (hs : m.stack = s ++ vs) (hl : vs.length = nargs)
    (hc : callFfi S name vs = .ok v) :
    step S P m = .next (m.at f fs (f.ip + 7) (s ++ [v])) := by
  obtain ⟨h1, h2, h3, h4⟩ := callFfi_ok hc
  rw [exec_step hp rfl (by simp; exact ⟨hi, hn, ha⟩)]
  subst hl
  simp [exec, hname, hs, popN_append, callForeign, h1, h2, h3, h4, Machine.at, Op.numOperands]

theorem step_ffiCall_err {idx nargs a : Nat} {name : Name} {s vs : List (Value ν)} {e : Err}
    (hp : Pos P m f fs (encode .ffiCallFunction [idx, nargs, a]))
    (hi : idx < 65536) (hn : nargs < 65536) (ha : a < 65536)
    (hname : P.ffiNames[idx]? = some name) (hs : m.stack = s ++ vs) (hl : vs.length = nargs)
    (hc : callFfi S name vs = .err e) :
    step S P m = .err e := by
  obtain ⟨h1, h2, h3, h4⟩ := callFfi_err hc
  rw [exec_step hp rfl (by simp; exact ⟨hi, hn, ha⟩)]
  subst hl
  simp [exec, hname, hs, popN_append, callForeign, h1, h2, h3, h4]

theorem step_callCallable_normal {nargs a idx : Nat} {name : Name} {s : List (Value ν)}
    (hp : Pos P m f fs (encode .callCallable [nargs, a])) (hn : nargs < 65536) (ha : a < 65536)
    (hs : m.stack = s ++ [.fnref false name idx])
    (hle : nargs ≤ s.length) :
    step S P m = .next { m with stack := s, frames :=
      { fn := idx, ip := 0, fp := s.length - nargs } :: { f with ip := f.ip + 5 } :: fs } := by
  rw [exec_step hp rfl (by simp; exact ⟨hn, ha⟩)]
  simp [exec, hs, pop, hle, Op.numOperands]

theorem step_callCallable_foreign_ok {nargs a k : Nat} {name : Name} {s vs : List (Value ν)} {v : Value ν}
    (hp : Pos P m f fs (encode .callCallable [nargs, a])) (hn : nargs < 65536) (ha : a < 65536)
    (hs : m.stack = s ++ vs ++ [.fnref true name k]) (hl : vs.length = nargs)
    (hmem : P.ffiNames.contains name = true) (hc : callFfi S name vs = .ok v) :
    step S P m = .next (m.at f fs (f.ip + 5) (s ++ [v])) := by
  obtain ⟨h1, h2, h3, h4⟩ := callFfi_ok hc
  rw [exec_step hp rfl (by simp; exact ⟨hn, ha⟩)]
  subst hl
  simp only [List.contains_eq_mem, decide_eq_true_eq] at hmem
  simp [exec, hs, pop, hmem, popN_append, callForeign, h1, h2, h3, h4, Machine.at, Op.numOperands]

theorem step_callCallable_foreign_err {nargs a k : Nat} {name : Name} {s vs : List (Value ν)} {e : Err}
    (hp : Pos P m f fs (encode .callCallable [nargs, a])) (hn : nargs < 65536) (ha : a < 65536)
    (hs : m.stack = s ++ vs ++ [.fnref true name k]) (hl : vs.length = nargs)
    (hmem : P.ffiNames.contains name = true) (hc : callFfi S name vs = .err e) :
    step S P m = .err e := by
  obtain ⟨h1, h2, h3, h4⟩ := callFfi_err hc
  rw [exec_step hp rfl (by simp; exact ⟨hn, ha⟩)]
  subst hl
  simp only [List.contains_eq_mem, decide_eq_true_eq] at hmem
  simp [exec, hs, pop, hmem, popN_append, callForeign, h1, h2, h3, h4]

end steps

theorem lastIdx_map {α β : Type} (g : α → β) (p : β → Bool) (l : List α) :
    lastIdx p (l.map g) = lastIdx (fun a => p (g a)) l := by
  induction l with
  | nil => rfl
  | cons a as ih => simp [lastIdx, ih]

theorem lastIdx_cons_some {α : Type} (p : α → Bool) (a : α) (l : List α) {i : Nat} (h : lastIdx p l = some i) :
    lastIdx p (a :: l) = some (i + 1) := by
  simp [lastIdx, h]

theorem lastIdx_lt {α : Type} (p : α → Bool) : ∀ (l : List α) {i : Nat}, lastIdx p l = some i → i < l.length
  | [], i, h => by simp [lastIdx] at h
  | a :: as, i, h => by
    simp only [lastIdx] at h
    cases h1 : lastIdx p as with
    | some j =>
      rw [h1] at h; injection h with h; subst h
      have := lastIdx_lt p as h1
      simp; omega
    | none =>
      rw [h1] at h
      by_cases hp : p a = true
      · simp [hp] at h; subst h; simp
      · simp [hp] at h

theorem addCallArgs_lt {cs cs' : CS ν} {a : Nat} (h : cs.addCallArgs = .ok (cs', a)) : a < 65536 := by
  unfold CS.addCallArgs at h
  split at h
  · injection h with h; injection h with h1 h2; subst h2; omega
  · cases h

theorem idxOf?_get {x : Name} {l : List Name} {i : Nat} (h : idxOf? x l = some i) : l[i]? = some x := by
  simp only [idxOf?] at h
  split at h
  · rename_i hlt
    injection h with h; subst h
    rw [List.getElem?_eq_getElem hlt]
    simp
  · cases h

theorem idxOf?_none_iff {x : Name} {l : List Name} : idxOf? x l = none ↔ l.contains x = false := by
  simp only [idxOf?]
  constructor
  · intro h
    split at h
    · cases h
    · rename_i hn
      simp only [Nat.not_lt] at hn
      have := List.idxOf_lt_length_iff (a := x) (l := l)
      simp only [List.contains_eq_mem, decide_eq_false_iff_not]
      intro hm
      have := this.mpr hm
      omega
  · intro h
    simp only [List.contains_eq_mem, decide_eq_false_iff_not] at h
    have := List.idxOf_lt_length_iff (a := x) (l := l)
    split
    · rename_i hlt; exact absurd (this.mp hlt) h
    · rfl

theorem take_getElem?_lt {α : Type} {l : List α} {k i : Nat} (h : i < k) : (l.take k)[i]? = l[i]? := by
  rw [List.getElem?_take]; simp [h]

theorem case_call {S : Sem ν} {P : Prog ν} {T : Table ν} {G : List (List Name)} (hP : ProgOK P T G) {n : Nat}
    (ih : ExprOK S P T G n) (fn : Name) (args : List (Expr ν)) : ExprOKAt S P T G (n + 1) (.call fn args) := by
  intro ρ cs cs' frag m f fs hcomp hcode hlt hfit hctx hpos hconst hlay hlast
  simp only [compileExpr, Res.bind_eq_ok] at hcomp
  obtain ⟨cs1, h1, h2⟩ := hcomp
  simp only [fitsE, Bool.and_eq_true, decide_eq_true_eq] at hfit
  have g1 := compileList_good args cs cs1 h1
  have hffi1 : cs1.ffiNames = ρ.static.ffi := by rw [g1.ffiNames, hctx.ffi]
  cases hidx : idxOf? fn cs1.ffiNames with
  | some idx =>
    -- foreign function
    simp only [hidx, Res.bind_eq_ok] at h2
    obtain ⟨⟨cs2, a⟩, h3, h4⟩ := h2
    injection h4 with h4; subst h4
    dsimp only at hlt hcode hconst
    have g2 := good_addCallArgs h3
    have hl2 : cs2.code.length < 65536 := by
      have : (cs2.emit .ffiCallFunction [idx, args.length, a]).code.length = cs2.code.length + 7 := by
        simp [encode_length]
      omega
    have hl1 : cs1.code.length < 65536 := Nat.lt_of_le_of_lt g2.len hl2
    obtain ⟨f1, e1⟩ := g1.pre hl1
    have e2 : cs2.code = cs1.code := by
      unfold CS.addCallArgs at h3
      split at h3
      · injection h3 with h3; injection h3 with h3 _; rw [← h3]
      · cases h3
    have hfrag : frag = f1 ++ encode .ffiCallFunction [idx, args.length, a] := by
      rw [CS.emit_code, e2, e1, List.append_assoc] at hcode
      exact (List.append_cancel_left hcode).symm
    subst hfrag
    have ihl := list_ok ih args ρ cs cs1 f1 m f fs h1 e1 hl1 hfit.2 hctx hpos.left (g2.consts_prefix hconst)
      hlay hlast
    have hmem : ρ.static.ffi.contains fn = true := by
      rw [← hffi1]
      cases hc : cs1.ffiNames.contains fn with
      | true => rfl
      | false => rw [idxOf?_none_iff.mpr hc] at hidx; cases hidx
    have hname : P.ffiNames[idx]? = some fn := by
      rw [hP.ffi]
      exact prefix_get hctx.ffiPre (by rw [← hffi1]; exact idxOf?_get hidx)
    have hi65 : idx < 65536 := by
      have := (List.getElem?_eq_some_iff.mp hname).1
      have := hP.ffiLt; omega
    have ha65 := addCallArgs_lt h3
    refine ⟨?_, ?_⟩
    · intro v hv
      simp only [eval, Res.bind_eq_ok, hmem, if_true] at hv
      obtain ⟨vs, hvs, hv⟩ := hv
      have r1 := ihl.1 vs hvs
      have r2 := Runs.step (step_ffiCall_ok (S := S) (hpos.next (a := f1) (m.stack ++ vs)) hi65 hfit.1 ha65 hname
        (s := m.stack) (vs := vs) rfl (evalList_length hvs) hv)
      simpa [encode_length, Nat.add_assoc] using r1.trans r2
    · intro err he
      simp only [eval, Res.bind_eq_err, hmem, if_true] at he
      rcases he with he | ⟨vs, hvs, he⟩
      · exact ihl.2 err he
      · exact (ihl.1 vs hvs).fails (Fails.step (step_ffiCall_err (S := S) (hpos.next (a := f1) (m.stack ++ vs))
          hi65 hfit.1 ha65 hname (s := m.stack) (vs := vs) rfl (evalList_length hvs) he))
  | none =>
    -- function defined in numbat
    simp only [hidx] at h2
    have hnomem : ρ.static.ffi.contains fn = false := by rw [← hffi1]; exact idxOf?_none_iff.mp hidx
    have hchunks1 : cs1.chunkNames = "<main>" :: (T.funs.take ρ.static.nfuns).map (fun c => c.decl.name) := by
      rw [g1.chunkNames, hctx.chunks]
    cases hci : lastIdx (fun nm => nm == fn) cs1.chunkNames with
    | none => simp [hci] at h2
    | some cidx =>
      simp only [hci] at h2
      injection h2 with h2; subst h2
      have hl1 : cs1.code.length < 65536 := by
        have : (cs1.emit .call [cidx, args.length]).code.length = cs1.code.length + 5 := by simp [encode_length]
        omega
      obtain ⟨f1, e1⟩ := g1.pre hl1
      have hfrag : frag = f1 ++ encode .call [cidx, args.length] := by
        rw [CS.emit_code, e1, List.append_assoc] at hcode
        exact (List.append_cancel_left hcode).symm
      subst hfrag
      have ihl := list_ok ih args ρ cs cs1 f1 m f fs h1 e1 hl1 hfit.2 hctx hpos.left hconst hlay hlast
      -- what the evaluator finds
      have key : ∀ i, lastIdx (fun c : Closure ν => c.decl.name == fn) (T.funs.take ρ.static.nfuns) = some i →
          cidx = i + 1 := by
        intro i hi
        have : lastIdx (fun nm => nm == fn) (((T.funs.take ρ.static.nfuns)).map (fun c => c.decl.name)) = some i := by
          rw [lastIdx_map]; exact hi
        rw [hchunks1, lastIdx_cons_some _ _ _ this] at hci
        injection hci with hci; exact hci.symm
      have hcall : ∀ (vs : List (Value ν)) (i : Nat) (c : Closure ν), vs.length = args.length →
          lastIdx (fun c : Closure ν => c.decl.name == fn) (T.funs.take ρ.static.nfuns) = some i →
          T.funs[i]? = some c →
          (∀ v, applyClosure (eval S T n) c vs ρ.globals ρ.last = .ok v →
            Runs S P (m.at f fs (f.ip + f1.length) (m.stack ++ vs))
              (m.at f fs (f.ip + (f1 ++ encode .call [cidx, args.length]).length) (m.stack ++ [v]))) ∧
          (∀ err, applyClosure (eval S T n) c vs ρ.globals ρ.last = .err err →
            Fails S P (m.at f fs (f.ip + f1.length) (m.stack ++ vs)) err) := by
        intro vs i c hvl hi hc
        have hci' := key i hi
        have hilt : i < T.funs.length := (List.getElem?_eq_some_iff.mp hc).1
        have hc65 : cidx < 65536 := by
          have := congrArg List.length hP.names; simp at this
          have := hP.chunksLt; omega
        have hstep := step_call (S := S) (hpos.next (a := f1) (m.stack ++ vs)) hc65 hfit.1
          (by simp; omega)
        have hfp : (m.at f fs (f.ip + f1.length) (m.stack ++ vs)).stack.length - args.length = m.stack.length := by
          simp; omega
        rw [hfp, hci'] at hstep
        have ap := apply_ok hP ih hc vs ρ.globals ρ.last
          { (m.at f fs (f.ip + f1.length) (m.stack ++ vs)) with frames :=
              { fn := i + 1, ip := 0, fp := m.stack.length } :: { { f with ip := f.ip + f1.length } with
                ip := f.ip + f1.length + 5 } :: fs }
          { { f with ip := f.ip + f1.length } with ip := f.ip + f1.length + 5 } fs m.stack rfl rfl
          hlay.globals hctx.gnames hlast
        refine ⟨?_, ?_⟩
        · intro v hv
          have := (Runs.step hstep).trans (ap.1 v hv)
          simpa [Machine.at, encode_length, Nat.add_assoc] using this
        · intro err he
          exact (Runs.step hstep).fails (ap.2 err he)
      refine ⟨?_, ?_⟩
      · intro v hv
        simp only [eval, Res.bind_eq_ok, hnomem] at hv
        obtain ⟨vs, hvs, hv⟩ := hv
        simp only [Bool.false_eq_true, if_false] at hv
        cases hi : lastIdx (fun c : Closure ν => c.decl.name == fn) (T.funs.take ρ.static.nfuns) with
        | none => simp [hi] at hv
        | some i =>
          simp only [hi] at hv
          cases hc : T.funs[i]? with
          | none => simp [hc] at hv
          | some c =>
            simp only [hc] at hv
            exact (ihl.1 vs hvs).trans ((hcall vs i c (evalList_length hvs) hi hc).1 v hv)
      · intro err he
        simp only [eval, Res.bind_eq_err, hnomem] at he
        rcases he with he | ⟨vs, hvs, he⟩
        · exact ihl.2 err he
        · simp only [Bool.false_eq_true, if_false] at he
          cases hi : lastIdx (fun c : Closure ν => c.decl.name == fn) (T.funs.take ρ.static.nfuns) with
          | none => simp [hi] at he
          | some i =>
            simp only [hi] at he
            cases hc : T.funs[i]? with
            | none => simp [hc] at he
            | some c =>
              simp only [hc] at he
              exact (ihl.1 vs hvs).fails ((hcall vs i c (evalList_length hvs) hi hc).2 err he)

end NumbatModel.VM
